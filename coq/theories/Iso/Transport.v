(* C12: Bijection.map and Bijection.inverse_map (ParseTreeMap.map_rec in the two
   directions) are mutually inverse, size-preserving bijections between the well-formed
   parse trees of the two roots, whenever the order map is a valid certificate. *)
From Coq Require Import ZArith List Bool Lia.
From CSS Require Import Base.PyList Gen.PermInv Iso.Model Iso.Cert Iso.Valid Iso.PermProofs
  Iso.TransportLists.
Import ListNotations.
Open Scope Z_scope.

(* ------------------------------------------------------------------ (1) fuel monotonicity *)
Lemma min_tree_mono : forall s f c t, min_tree s f c = Ok t ->
  forall f', (f <= f')%nat -> min_tree s f' c = Ok t.
Proof.
  intros s f. induction f as [|f IH]; intros c t H f' Hf; [discriminate|].
  destruct f' as [|f']; [lia|]. simpl in *.
  destruct (find_rule s c) as [r|]; [|discriminate].
  destruct (r_children r) as [|d rc]; auto.
  destruct (r_iseq r); [|discriminate].
  apply bind_ok in H. destruct H as [t0 [H1 H2]].
  rewrite (IH _ _ H1 f') by lia. exact H2.
Qed.

Lemma map_rec_mono : forall s1 s2 ord f t c1 c2 u, map_rec s1 s2 ord f t c1 c2 = Ok u ->
  forall f', (f <= f')%nat -> map_rec s1 s2 ord f' t c1 c2 = Ok u.
Proof.
  intros s1 s2 ord f. induction f as [|f IH]; intros t c1 c2 u H f' Hf; [discriminate|].
  destruct f' as [|f']; [lia|]. simpl in *.
  destruct (find_rule s1 c1) as [r1|]; [|discriminate].
  destruct (find_rule s2 c2) as [r2|]; [|discriminate].
  destruct (r_children r1) as [|d1 rc1].
  { eapply min_tree_mono; eauto. lia. }
  destruct (negb (r_isrule r1)); [discriminate|].
  destruct t as [c0|c kids]; [discriminate|].
  assert (Hbk : forall cs it l,
    build_kids (fun t' a b => map_rec s1 s2 ord f t' a b) s2 cs it = Ok l ->
    build_kids (fun t' a b => map_rec s1 s2 ord f' t' a b) s2 cs it = Ok l).
  { intros cs it l Hb. eapply build_kids_mono; [|exact Hb].
    intros t0 a b u0 H0. apply (IH _ _ _ _ H0). lia. }
  destruct (r_iseq r2).
  - destruct (negb (r_iseq r1)).
    + destruct (r_children r2) as [|d2 rc2]; [discriminate|].
      apply bind_ok in H. destruct H as [u0 [H1 H2]].
      rewrite (IH _ _ _ _ H1 f') by lia. exact H2.
    + destruct (negb (r_isrule r2)); [discriminate|].
      apply bind_ok in H. destruct H as [l [H1 H2]].
      rewrite (Hbk _ _ _ H1). exact H2.
  - destruct (r_iseq r1).
    + destruct kids as [|[t0|] ks]; try discriminate.
      apply (IH _ _ _ _ H). lia.
    + destruct (om_lookup ord (c1, c2)) as [order|]; [|discriminate].
      destruct (negb (r_isrule r2)); [discriminate|].
      apply bind_ok in H. destruct H as [l [H1 H2]].
      rewrite (Hbk _ _ _ H1). exact H2.
Qed.

(* ------------------------------------------------------------------ (2) the inverse order map *)
Lemma om_lookup_inverse : forall ord c1 c2 p, om_lookup ord (c1, c2) = Some p ->
  om_lookup (inverse_order ord) (c2, c1) = Some (perm_inv p).
Proof.
  induction ord as [|[[a b] v] ord IH]; intros c1 c2 p H; [discriminate|].
  simpl in *. unfold pair_eqb in *. simpl in *.
  rewrite (andb_comm (c2 =? b) (c1 =? a)).
  destruct ((c1 =? a) && (c2 =? b)).
  - injection H as ->. reflexivity.
  - apply IH. exact H.
Qed.

(* ------------------------------------------------------------------ (3) symmetry of certificates *)
Lemma list_eqb_sym {A} (eqb : A -> A -> bool) :
  (forall x y, eqb x y = eqb y x) -> forall a b, list_eqb eqb a b = list_eqb eqb b a.
Proof.
  intros Hs. induction a as [|x a IH]; intros [|y b]; simpl; auto.
  rewrite Hs, IH. reflexivity.
Qed.

Lemma akey_eqb_sym a b : akey_eqb a b = akey_eqb b a.
Proof. unfold akey_eqb. apply list_eqb_sym. apply list_eqb_sym. apply Z.eqb_sym. Qed.

Lemma leaf_match_sym r1 r2 : leaf_match r1 r2 = true -> leaf_match r2 r1 = true.
Proof.
  unfold leaf_match. rewrite !andb_true_iff. intros [[[[A B] C] D] E].
  repeat split; auto. rewrite akey_eqb_sym. exact E.
Qed.

Lemma ends_in_sym : forall s1 s2 G a b, ends_in s1 s2 G a b ->
  ends_in s2 s1 (fun p => G (snd p, fst p)) b a.
Proof.
  intros s1 s2 G a b [e1 [e2 [k1 [k2 [H1 [H2 H3]]]]]].
  exists e2, e1, k2, k1. simpl. auto.
Qed.

Lemma good_sym : forall s1 s2 ord G, good s1 s2 ord G ->
  good s2 s1 (inverse_order ord) (fun p => G (snd p, fst p)).
Proof.
  intros s1 s2 ord G Hg e1 e2 HG. simpl in HG.
  destruct (Hg e2 e1 HG) as [[r1 [r2 [H1 [H2 H3]]]] | Hn].
  - left. exists r2, r1. repeat split; auto. apply leaf_match_sym; auto.
  - right.
    destruct Hn as [r1 [r2 [perm [F1 [F2 [E1 [E2 [I1 [I2 [C1 [C2 [T [L [Len [P HH]]]]]]]]]]]]]]].
    exists r2, r1, (perm_inv perm).
    split; [exact F2|]. split; [exact F1|]. split; [exact E2|]. split; [exact E1|].
    split; [exact I2|]. split; [exact I1|]. split; [exact C2|]. split; [exact C1|].
    split; [symmetry; exact T|]. split; [apply om_lookup_inverse; exact L|].
    split; [symmetry; exact Len|].
    split; [rewrite Len; apply perm_inv_is_perm; exact P|].
    intros j i a b Hj Ha Hb. apply ends_in_sym.
    apply (HH (Z.to_nat i) (Z.of_nat j) b a).
    + eapply perm_inv_spec'; eauto.
    + rewrite Nat2Z.id. exact Hb.
    + exact Ha.
Qed.

(* ------------------------------------------------------------------ chains *)
Lemma chain_det s : forall n e k, chain s n e k ->
  forall e' k', chain s n e' k' -> e = e' /\ k = k'.
Proof.
  induction 1 as [n r Hf He | n r d e k Hf He Hc Hch IH]; intros e' k' H'.
  - inversion H'; subst; auto. congruence.
  - inversion H' as [n0 r0 Hf0 He0 | n0 r0 d0 e0 k0 Hf0 He0 Hc0 Hch0]; subst.
    + congruence.
    + rewrite Hf in Hf0. injection Hf0 as <-. rewrite Hc in Hc0. injection Hc0 as <-.
      destruct (IH _ _ Hch0). split; congruence.
Qed.

Lemma chain_end s : forall n e k, chain s n e k ->
  exists r, find_rule s e = Some r /\ r_iseq r = false.
Proof. induction 1; eauto. Qed.

Lemma chain_find s : forall n e k, chain s n e k -> exists r, find_rule s n = Some r.
Proof. destruct 1; eauto. Qed.

Lemma childless_not_eq s c r :
  eq_wf s -> find_rule s c = Some r -> r_children r = [] -> r_iseq r = false.
Proof.
  intros Hw Hf Hc. destruct (r_iseq r) eqn:E; auto.
  destruct (Hw c r Hf E) as [d [Hd _]]. congruence.
Qed.

(* ------------------------------------------------------------------ well-formed trees *)
Lemma wf_nonempty s c t : wf_tree s c t -> is_empty s c = false.
Proof. destruct 1; auto. Qed.

Lemma wf_find s c t : wf_tree s c t -> exists r, find_rule s c = Some r.
Proof. destruct 1; eauto. Qed.

Lemma nth_error_nil_some {A} i (x : A) : nth_error [] i = Some x -> False.
Proof. destruct i; discriminate. Qed.

Lemma wf_inv_leaf s c t r :
  wf_tree s c t -> find_rule s c = Some r -> r_children r = [] -> t = Leaf c.
Proof.
  intros H Hf Hc. destruct H as [c r0 F|c r0 d t F E Q C W|c r0 i d t F E Q I T N W|c r0 ts F E Q I T N W];
    rewrite Hf in F; injection F as <-; auto.
  - congruence.
  - rewrite Hc in N. exfalso. eapply nth_error_nil_some; eauto.
  - congruence.
Qed.

Lemma wf_inv_eq s c t r d :
  wf_tree s c t -> find_rule s c = Some r -> r_iseq r = true -> r_children r = [d] ->
  exists t', t = Node c [Some t'] /\ wf_tree s d t'.
Proof.
  intros H Hf He Hc. destruct H as [c r0 F E C A|c r0 d0 t F E Q C W|c r0 i d0 t F E Q I T N W|c r0 ts F E Q I T N W];
    rewrite Hf in F; injection F as <-; try congruence.
  rewrite Hc in C. injection C as <-. eauto.
Qed.

Lemma wf_inv_node s c t r :
  wf_tree s c t -> find_rule s c = Some r -> r_iseq r = false -> r_children r <> [] ->
  r_isrule r = true /\
  ((exists i d t', c_tag (r_ctor r) = 0 /\ nth_error (r_children r) i = Some d /\
                   wf_tree s d t' /\ t = Node c (one_hot (length (r_children r)) i t')) \/
   (exists ts, c_tag (r_ctor r) = 1 /\ Forall2 (wf_tree s) (r_children r) ts /\
               t = Node c (map Some ts))).
Proof.
  intros H Hf He Hc. destruct H as [c r0 F E C A|c r0 d0 t F E Q C W|c r0 i d0 t F E Q I T N W|c r0 ts F E Q I T N W];
    rewrite Hf in F; injection F as <-; try congruence.
  - split; auto. left. exists i, d0, t. auto.
  - split; auto. right. exists ts. auto.
Qed.

(* ------------------------------------------------------------------ one step of map_rec *)
Definition fwd (s1 s2 : spec) (ord : order_map) (t : tree) (c1 c2 : Z) (u : tree) : Prop :=
  exists f0, forall f, (f0 <= f)%nat -> map_rec s1 s2 ord f t c1 c2 = Ok u.
Definition mint (s : spec) (c : Z) (u : tree) : Prop :=
  exists f0, forall f, (f0 <= f)%nat -> min_tree s f c = Ok u.

Section Steps.
Variables s1 s2 : spec.
Variable ord : order_map.

Lemma mint_leaf c r : find_rule s2 c = Some r -> r_children r = [] -> mint s2 c (Leaf c).
Proof.
  intros F C. exists 1%nat. intros [|f] Hf; [lia|]. simpl. rewrite F, C. reflexivity.
Qed.

Lemma mint_step c r d rc u :
  find_rule s2 c = Some r -> r_children r = d :: rc -> r_iseq r = true ->
  mint s2 d u -> mint s2 c (Node c [Some u]).
Proof.
  intros F C E [f0 H]. exists (S f0). intros [|f] Hf; [lia|]. simpl. rewrite F, C, E.
  rewrite H by lia. reflexivity.
Qed.

Lemma fwd_leaf r1 r2 t c1 c2 u :
  find_rule s1 c1 = Some r1 -> find_rule s2 c2 = Some r2 -> r_children r1 = [] ->
  mint s2 c2 u -> fwd s1 s2 ord t c1 c2 u.
Proof.
  intros F1 F2 C [f0 H]. exists (S f0). intros [|f] Hf; [lia|]. simpl.
  rewrite F1, F2, C. apply H; lia.
Qed.

Lemma fwd_A r1 r2 c kids c1 c2 d2 rc2 u :
  find_rule s1 c1 = Some r1 -> find_rule s2 c2 = Some r2 ->
  r_children r1 <> [] -> r_isrule r1 = true -> r_iseq r1 = false ->
  r_iseq r2 = true -> r_children r2 = d2 :: rc2 ->
  fwd s1 s2 ord (Node c kids) c1 d2 u ->
  fwd s1 s2 ord (Node c kids) c1 c2 (Node c2 [Some u]).
Proof.
  intros F1 F2 C1 I1 E1 E2 C2 [f0 H]. exists (S f0). intros [|f] Hf; [lia|]. simpl.
  rewrite F1, F2. destruct (r_children r1) as [|d1 rc1] eqn:C; [congruence|].
  rewrite I1, E2, E1, C2. simpl. rewrite H by lia. reflexivity.
Qed.

Lemma fwd_B r1 r2 c t0 ks c1 c2 d1 rc1 u :
  find_rule s1 c1 = Some r1 -> find_rule s2 c2 = Some r2 ->
  r_children r1 = d1 :: rc1 -> r_isrule r1 = true -> r_iseq r1 = true ->
  r_iseq r2 = false ->
  fwd s1 s2 ord t0 d1 c2 u ->
  fwd s1 s2 ord (Node c (Some t0 :: ks)) c1 c2 u.
Proof.
  intros F1 F2 C1 I1 E1 E2 [f0 H]. exists (S f0). intros [|f] Hf; [lia|]. simpl.
  rewrite F1, F2, C1, I1, E2, E1. simpl. apply H; lia.
Qed.

Lemma fwd_C r1 r2 c t0 c1 c2 d1 d2 u :
  find_rule s1 c1 = Some r1 -> find_rule s2 c2 = Some r2 ->
  r_children r1 = [d1] -> r_children r2 = [d2] ->
  r_isrule r1 = true -> r_isrule r2 = true -> r_iseq r1 = true -> r_iseq r2 = true ->
  is_empty s1 d1 = false -> is_empty s2 d2 = false ->
  fwd s1 s2 ord t0 d1 d2 u ->
  fwd s1 s2 ord (Node c [Some t0]) c1 c2 (Node c2 [Some u]).
Proof.
  intros F1 F2 C1 C2 I1 I2 E1 E2 N1 N2 [f0 H]. exists (S f0). intros [|f] Hf; [lia|]. simpl.
  rewrite F1, F2, C1, I1, E2, E1, I2, C2. simpl. rewrite N1. simpl.
  rewrite N2. unfold py_nth. simpl. rewrite H by lia. reflexivity.
Qed.

Lemma map_rec_S_node r1 r2 order c1 c2 c kids f :
  find_rule s1 c1 = Some r1 -> find_rule s2 c2 = Some r2 ->
  r_children r1 <> [] -> r_isrule r1 = true -> r_isrule r2 = true ->
  r_iseq r1 = false -> r_iseq r2 = false ->
  om_lookup ord (c1, c2) = Some order ->
  map_rec s1 s2 ord (S f) (Node c kids) c1 c2 =
  build_kids (fun t' a b => map_rec s1 s2 ord f t' a b) s2 (r_children r2)
    (map (fun idx => py_nth (get_nonempty s1 (r_children r1) kids) idx) order)
  >>= fun l => Ok (Node c2 l).
Proof.
  intros F1 F2 C1 I1 I2 E1 E2 L. simpl.
  rewrite F1, F2. destruct (r_children r1) as [|d1 rc1] eqn:C; [congruence|].
  rewrite I1, E2, E1, L, I2. reflexivity.
Qed.

Lemma fwd_gen r1 r2 order c1 c2 c kids vals :
  find_rule s1 c1 = Some r1 -> find_rule s2 c2 = Some r2 ->
  r_children r1 <> [] -> r_isrule r1 = true -> r_isrule r2 = true ->
  r_iseq r1 = false -> r_iseq r2 = false ->
  om_lookup ord (c1, c2) = Some order ->
  length order = length (ne_children s2 r2) ->
  length vals = length (ne_children s2 r2) ->
  length kids = length (r_children r1) ->
  (forall j b, nth_error (ne_children s2 r2) j = Some b ->
     exists i, nth_error order j = Some i /\ 0 <= i /\
       (Z.to_nat i < length (ne_children s1 r1))%nat /\
       match nth (Z.to_nat i) (gather s1 (r_children r1) kids) None with
       | None => nth_error vals j = Some None
       | Some t' => exists a u', nth_error (ne_children s1 r1) (Z.to_nat i) = Some a /\
                                 nth_error vals j = Some (Some u') /\
                                 fwd s1 s2 ord t' a b u'
       end) ->
  fwd s1 s2 ord (Node c kids) c1 c2 (Node c2 (scatter s2 (r_children r2) vals)).
Proof.
  intros F1 F2 C1 I1 I2 E1 E2 L Lo Lv Lk H.
  set (g1 := gather s1 (r_children r1) kids) in *.
  set (ne1 := ne_children s1 r1) in *. set (ne2 := ne_children s2 r2) in *.
  assert (Lg : length g1 = length ne1) by (apply gather_length; exact Lk).
  destruct (bound_choice
    (fun j f => forall b i t' a u', nth_error ne2 j = Some b -> nth_error order j = Some i ->
       nth (Z.to_nat i) g1 None = Some t' -> nth_error ne1 (Z.to_nat i) = Some a ->
       nth_error vals j = Some (Some u') -> map_rec s1 s2 ord f t' a b = Ok u')
    (length ne2)) as [F HF].
  { intros j Hj. destruct (H j (nth j ne2 0)) as [i [Hi [Hi0 [Hi1 Hm]]]].
    { apply nth_error_nth_lt; exact Hj. }
    destruct (nth (Z.to_nat i) g1 None) as [t'|] eqn:Eg.
    - destruct Hm as [a [u' [Ha [Hv [f0 Hf0]]]]]. exists f0.
      intros f Hf b i' t'' a' u'' Hb Hi' Hg' Ha' Hv'.
      rewrite (nth_error_nth_lt _ _ 0 Hj) in Hb.
      assert (i' = i) by congruence. subst i'.
      assert (t'' = t') by congruence. assert (a' = a) by congruence.
      assert (u'' = u') by congruence. assert (b = nth j ne2 0) by congruence. subst.
      apply Hf0; exact Hf.
    - exists O. intros f Hf b i' t'' a' u'' Hb Hi' Hg'.
      assert (i' = i) by congruence. subst i'. congruence. }
  exists (S F). intros [|f] Hf; [lia|].
  rewrite (map_rec_S_node r1 r2 order) by assumption.
  rewrite (build_kids_scatter _ s2 (r_children r2) _ vals); [reflexivity| | |].
  - rewrite map_length. exact Lo.
  - exact Lv.
  - intros j b Hb. destruct (H j b Hb) as [i [Hi [Hi0 [Hi1 Hm]]]].
    assert (Hj : (j < length ne2)%nat) by (eapply nth_error_some_lt; exact Hb).
    exists (tagz (nth (Z.to_nat i) g1 None) (nth (Z.to_nat i) ne1 0)). split.
    + rewrite (map_nth_error _ _ _ Hi). f_equal.
      rewrite py_nth_nonneg by exact Hi0. rewrite gn_zipt. fold g1.
      unfold zlen. rewrite zipt_length by exact Lg.
      destruct (i <? Z.of_nat (length (nes s1 (r_children r1)))) eqn:Elt.
      * rewrite nth_error_zipt.
        rewrite (nth_error_nth_lt g1 _ None) by (rewrite Lg; exact Hi1).
        rewrite (nth_error_nth_lt _ _ 0) by exact Hi1. reflexivity.
      * apply Z.ltb_ge in Elt. unfold ne1, ne_children in Hi1. unfold nes in Elt. lia.
    + destruct (nth (Z.to_nat i) g1 None) as [t'|] eqn:Eg; simpl; [|exact Hm].
      destruct Hm as [a [u' [Ha [Hv Hfw]]]]. exists u'. split; [exact Hv|].
      apply (HF j Hj f ltac:(lia) b i t' _ u'); auto.
      rewrite (nth_error_nth_lt _ _ 0 Hi1). reflexivity.
Qed.

End Steps.

(* ------------------------------------------------------------------ chain trees *)
Lemma list_eqb_eq {A} (eqb : A -> A -> bool) :
  (forall x y, eqb x y = true -> x = y) -> forall a b, list_eqb eqb a b = true -> a = b.
Proof.
  intros Hs. induction a as [|x a IH]; intros [|y b] H; simpl in H; try discriminate; auto.
  apply andb_true_iff in H. destruct H as [H1 H2]. f_equal; auto.
Qed.

Lemma akey_eqb_eq a b : akey_eqb a b = true -> a = b.
Proof.
  unfold akey_eqb. apply list_eqb_eq. apply list_eqb_eq. intros x y H. apply Z.eqb_eq; exact H.
Qed.

Lemma wf_chain_tree s : forall n e k, chain s n e k ->
  forall re t, find_rule s e = Some re -> r_children re = [] -> wf_tree s n t -> mint s n t.
Proof.
  induction 1 as [n r Hf He | n r d e k Hf He Hc Hch IH]; intros re t Fe Ce Hwf.
  - rewrite (wf_inv_leaf _ _ _ _ Hwf Fe Ce). eapply mint_leaf; eauto.
  - destruct (wf_inv_eq _ _ _ _ _ Hwf Hf He Hc) as [t' [-> Hwf']].
    eapply mint_step; eauto.
Qed.

Section Main.
Variables s1 s2 : spec.
Variable ord : order_map.
Variable G : Z * Z -> Prop.
Hypothesis W1 : eq_wf s1.
Hypothesis W2 : eq_wf s2.
Hypothesis P2 : prod_wf s2.
Hypothesis HG : good s1 s2 ord G.

Let iord := inverse_order ord.

Definition Goal4 (t : tree) (n1 n2 : Z) : Prop :=
  exists u, wf_tree s2 n2 u /\ tsize s2 u = tsize s1 t /\
            fwd s1 s2 ord t n1 n2 u /\ fwd s2 s1 iord u n2 n1 t.

Lemma leaf_case : forall n2 e2 k2, chain s2 n2 e2 k2 -> is_empty s2 n2 = false ->
  forall r2e, find_rule s2 e2 = Some r2e -> r_children r2e = [] -> r_atom r2e = true ->
  forall n1 r1, find_rule s1 n1 = Some r1 -> r_children r1 = [] ->
  exists u, wf_tree s2 n2 u /\ tsize s2 u = asize s2 e2 /\ mint s2 n2 u /\
            fwd s2 s1 iord u n2 n1 (Leaf n1).
Proof.
  induction 1 as [n r Hf He | n r d e k Hf He Hc Hch IH];
    intros Hne r2e Fe Ce Ae n1 r1 F1 C1.
  - exists (Leaf n). split; [eapply wf_leaf; eauto|]. split; [reflexivity|].
    split; [eapply mint_leaf; eauto|].
    eapply fwd_leaf; eauto. eapply mint_leaf; eauto.
  - destruct (W2 n r Hf He) as [d' [Hd' [Hned [Hir _]]]].
    rewrite Hc in Hd'. injection Hd' as <-.
    destruct (IH Hned r2e Fe Ce Ae n1 r1 F1 C1) as [u' [Hw [Hs [Hm Hf']]]].
    exists (Node n [Some u']). split; [eapply wf_eq; eauto|].
    split; [rewrite tsize_node; simpl; lia|].
    split; [eapply mint_step; eauto|].
    eapply (fwd_B s2 s1 iord r r1); eauto. apply (childless_not_eq s1 n1 r1 W1 F1 C1).
Qed.

Lemma case_L t n1 n2 e2 k2 r1 :
  wf_tree s1 n1 t -> find_rule s1 n1 = Some r1 -> r_children r1 = [] ->
  chain s2 n2 e2 k2 -> is_empty s2 n2 = false -> G (n1, e2) -> Goal4 t n1 n2.
Proof.
  intros Hwf F1 C1 Hc2 Hne Hg.
  rewrite (wf_inv_leaf _ _ _ _ Hwf F1 C1).
  destruct (HG n1 e2 Hg) as [[r1' [r2e [F1' [F2e Hlm]]]] | Hn].
  2:{ destruct Hn as [r1' [r2 [perm [F1' [_ [_ [_ [_ [_ [C1' _]]]]]]]]]]. congruence. }
  rewrite F1 in F1'. injection F1' as <-.
  unfold leaf_match in Hlm. rewrite !andb_true_iff in Hlm.
  destruct Hlm as [[[[_ Hc2e] _] Ha2] Hk].
  assert (Ce : r_children r2e = []) by (destruct (r_children r2e); [reflexivity|discriminate]).
  destruct (leaf_case _ _ _ Hc2 Hne r2e F2e Ce Ha2 n1 r1 F1 C1) as [u [Hw [Hs [Hm Hf']]]].
  exists u. split; [exact Hw|]. split.
  - rewrite Hs. simpl. unfold asize. rewrite F1, F2e. rewrite (akey_eqb_eq _ _ Hk). reflexivity.
  - split; [|exact Hf'].
    destruct (chain_find _ _ _ _ Hc2) as [r2 F2].
    eapply (fwd_leaf s1 s2 ord r1 r2); eauto.
Qed.

Lemma case_D t n1 n2 r1 r2 :
  (forall t', (height t' < height t)%nat -> forall n1' n2', wf_tree s1 n1' t' ->
     is_empty s2 n2' = false -> ends_in s1 s2 G n1' n2' -> Goal4 t' n1' n2') ->
  wf_tree s1 n1 t -> is_empty s2 n2 = false ->
  find_rule s1 n1 = Some r1 -> r_iseq r1 = false -> r_children r1 <> [] ->
  find_rule s2 n2 = Some r2 -> r_iseq r2 = false ->
  G (n1, n2) -> Goal4 t n1 n2.
Proof.
  intros IH Hwf Hne F1 E1 C1 F2 E2 Hg.
  destruct (HG n1 n2 Hg) as [[r1' [r2' [F1' [F2' Hlm]]]] | Hn].
  { exfalso. rewrite F1 in F1'. injection F1' as <-.
    unfold leaf_match in Hlm. rewrite !andb_true_iff in Hlm.
    destruct Hlm as [[[[Hn1 _] _] _] _]. destruct (r_children r1); [congruence|discriminate]. }
  destruct Hn as [r1' [r2' [perm [F1' [F2' [_ [_ [I1 [I2 [_ [C2 [T [L [Len [Pm HH]]]]]]]]]]]]]]].
  rewrite F1 in F1'. injection F1' as <-. rewrite F2 in F2'. injection F2' as <-.
  assert (Hshape := wf_inv_node _ _ _ _ Hwf F1 E1 C1).
  set (cs1 := r_children r1) in *. set (cs2 := r_children r2) in *.
  set (ne1 := ne_children s1 r1) in *. set (ne2 := ne_children s2 r2) in *.
  set (k := length ne2) in *.
  assert (Hk : exists kids1, t = Node n1 kids1 /\ length kids1 = length cs1 /\
     (forall p c t', nth_error cs1 p = Some c -> nth_error kids1 p = Some (Some t') ->
                     wf_tree s1 c t')).
  { destruct Hshape as [_ [Hu|Hp]];
      [destruct Hu as [i [d [t' [Tg [Hi [Hw' ->]]]]]] | destruct Hp as [ts [Tg [HF ->]]]].
    - assert (Hil : (i < length cs1)%nat) by (eapply nth_error_some_lt; eauto).
      eexists; split; [reflexivity|]. split; [apply one_hot_length; auto|].
      intros p c t'' Hp Hkp. apply one_hot_some in Hkp; auto. destruct Hkp as [-> ->].
      assert (c = d) by congruence. subst c. exact Hw'.
    - destruct (Forall2_nth_inv _ _ _ HF) as [Hl Hp].
      eexists; split; [reflexivity|]. split; [rewrite map_length; lia|].
      intros p c t' Hc Hkp. rewrite nth_error_map in Hkp.
      destruct (nth_error ts p) eqn:Et; simpl in Hkp; [|discriminate].
      injection Hkp as ->. eapply Hp; eauto. }
  destruct Hk as [kids1 [Ht [Lk K2]]]. subst t.
  assert (K3 : forall p c, nth_error cs1 p = Some c -> is_empty s1 c = true ->
                           nth_error kids1 p = Some None).
  { intros p c Hp He.
    assert (Hlt : (p < length kids1)%nat) by (rewrite Lk; eapply nth_error_some_lt; eauto).
    rewrite (nth_error_nth_lt _ _ None Hlt).
    destruct (nth p kids1 None) as [t'|] eqn:En; auto.
    exfalso. assert (Hw' : wf_tree s1 c t').
    { apply (K2 p); auto. rewrite (nth_error_nth_lt _ _ None Hlt), En. reflexivity. }
    apply wf_nonempty in Hw'. congruence. }
  set (g1 := gather s1 cs1 kids1).
  assert (Lg : length g1 = length ne1) by (apply gather_length; exact Lk).
  assert (Lp : length perm = k) by (destruct Pm; auto).
  set (pj := fun j => Z.to_nat (nth j perm 0)).
  assert (Hperm : forall j, (j < k)%nat ->
            nth_error perm j = Some (nth j perm 0) /\ (pj j < k)%nat /\ 0 <= nth j perm 0).
  { intros j Hj. assert (Hpj : nth_error perm j = Some (nth j perm 0))
      by (apply nth_error_nth_lt; lia).
    split; [exact Hpj|]. exact (is_perm_nth_range _ _ _ _ Pm Hpj). }
  assert (Hne2 : forall j, (j < k)%nat ->
            nth_error ne2 j = Some (nth j ne2 0) /\ is_empty s2 (nth j ne2 0) = false).
  { intros j Hj. assert (Hb : nth_error ne2 j = Some (nth j ne2 0))
      by (apply nth_error_nth_lt; exact Hj).
    split; [exact Hb|]. apply nth_error_In in Hb. apply (nes_in s2 cs2) in Hb. tauto. }
  destruct (list_choice (A:=option tree) None
    (fun j v => match nth (pj j) g1 None with
                | None => v = None
                | Some t' => exists u', v = Some u' /\ wf_tree s2 (nth j ne2 0) u' /\
                     tsize s2 u' = tsize s1 t' /\
                     fwd s1 s2 ord t' (nth (pj j) ne1 0) (nth j ne2 0) u' /\
                     fwd s2 s1 iord u' (nth j ne2 0) (nth (pj j) ne1 0) t'
                end) k) as [vals2 [Lv HP]].
  { intros j Hj. destruct (Hperm j Hj) as [Hpj [Hr Hr0]].
    destruct (Hne2 j Hj) as [Hb Hbne].
    destruct (nth (pj j) g1 None) as [t'|] eqn:Eg; [|exists None; reflexivity].
    assert (Hg1 : nth_error g1 (pj j) = Some (Some t')).
    { rewrite (nth_error_nth_lt _ _ None) by lia. rewrite Eg; reflexivity. }
    destruct (gather_nth _ _ _ _ _ Hg1) as [p [a [Hp [Ha Hkp]]]].
    change (nes s1 cs1) with ne1 in Ha.
    assert (Hh : (height t' < height (Node n1 kids1))%nat) by (eapply height_kid; eauto).
    assert (Hw' : wf_tree s1 a t') by (eapply K2; eauto).
    assert (Hends : ends_in s1 s2 G a (nth j ne2 0)) by (eapply HH; eauto).
    destruct (IH t' Hh a (nth j ne2 0) Hw' Hbne Hends) as [u' [A [B [C D]]]].
    exists (Some u'). exists u'. rewrite (nth_error_nth_some _ _ 0 _ Ha). auto. }
  exists (Node n2 (scatter s2 cs2 vals2)).
  assert (Lv' : length vals2 = length (nes s2 cs2)) by exact Lv.
  split; [|split; [|split]].
  - (* well-formed *)
    destruct Hshape as [_ [Hu|Hp]].
    + destruct Hu as [i0 [d [t0 [Tg [Hi [Hw0 Heq]]]]]]. injection Heq as Heq. subst kids1.
      assert (Hdne := wf_nonempty _ _ _ Hw0).
      destruct (gather_one_hot s1 cs1 i0 d t0 Hi Hdne) as [q [Hg1 [Hq Hqlt]]].
      change (nes s1 cs1) with ne1 in *.
      change (g1 = one_hot (length ne1) q t0) in Hg1.
      rewrite Len in Hg1, Hqlt.
      destruct (is_perm_surj perm k q Pm Hqlt) as [j0 Hj0].
      assert (Hj0k : (j0 < k)%nat) by (rewrite <- Lp; eapply nth_error_some_lt; eauto).
      assert (Hpj0 : pj j0 = q).
      { unfold pj. rewrite (nth_error_nth_some _ _ 0 _ Hj0). apply Nat2Z.id. }
      assert (HP0 := HP j0 Hj0k). simpl in HP0. rewrite Hpj0, Hg1 in HP0.
      rewrite (nth_error_nth_some _ _ None _ (one_hot_at q k t0 Hqlt)) in HP0.
      destruct HP0 as [u' [Hv0 [Hwu' _]]].
      destruct (scatter_one_hot s2 cs2 vals2 j0 u' Lv') as [i2 [b [Hsc [Hi2 Hb]]]].
      * rewrite (nth_error_nth_lt _ _ None) by lia. rewrite Hv0; reflexivity.
      * intros j' Hne' Hlt. rewrite (nth_error_nth_lt _ _ None Hlt). f_equal.
        assert (Hj'k : (j' < k)%nat) by lia. specialize (HP j' Hj'k). simpl in HP.
        destruct (Hperm j' Hj'k) as [Hpj' [Hr' Hr0']].
        assert (Hneq : pj j' <> q).
        { intros Heq'. apply Hne'. apply (is_perm_inj perm k j' j0 (Z.of_nat q) Pm); auto.
          rewrite Hpj'. f_equal. unfold pj in Heq'. lia. }
        rewrite Hg1 in HP.
        rewrite (nth_error_nth_some _ _ None _ (one_hot_other q k (pj j') t0 Hqlt Hr' Hneq)) in HP.
        exact HP.
      * rewrite Hsc. change (nes s2 cs2) with ne2 in Hb.
        destruct (Hne2 j0 Hj0k) as [Hb' _].
        assert (b = nth j0 ne2 0) by congruence. subst b.
        apply (wf_union s2 n2 r2 i2 (nth j0 ne2 0) u'); auto. congruence.
    + destruct Hp as [ts [Tg [HF Heq]]]. injection Heq as Heq. subst kids1.
      destruct (Forall2_nth_inv _ _ _ HF) as [Hl Hpt].
      assert (A1 : forall c, In c cs1 -> is_empty s1 c = false).
      { intros c Hc. apply In_nth_error in Hc. destruct Hc as [p Hp].
        assert (Hpl : (p < length ts)%nat) by (rewrite <- Hl; eapply nth_error_some_lt; eauto).
        eapply wf_nonempty. eapply (Hpt p c (nth p ts (Leaf 0))); auto.
        apply nth_error_nth_lt; auto. }
      assert (A2 : forall c, In c cs2 -> is_empty s2 c = false).
      { intros c Hc. apply (P2 n2 r2 c F2 I2 E2); auto. congruence. }
      assert (N1 : ne1 = cs1) by (apply nes_all; exact A1).
      assert (N2 : ne2 = cs2) by (apply nes_all; exact A2).
      assert (G1 : g1 = map Some ts) by (apply gather_all; auto).
      assert (Lcs2 : length cs2 = k) by (unfold k; rewrite N2; reflexivity).
      assert (HPs : forall j, (j < k)%nat ->
                exists u', nth j vals2 None = Some u' /\ wf_tree s2 (nth j ne2 0) u').
      { intros j Hj. specialize (HP j Hj). simpl in HP. destruct (Hperm j Hj) as [_ [Hr _]].
        rewrite G1 in HP.
        assert (Hlt : (pj j < length ts)%nat) by (rewrite <- Hl, <- N1; lia).
        rewrite (nth_error_nth_some _ _ None _
                   (map_nth_error Some _ _ (nth_error_nth_lt ts _ (Leaf 0) Hlt))) in HP.
        destruct HP as [u' [Hv [Hw' _]]]. exists u'. auto. }
      destruct (all_some_map vals2) as [us Hus].
      { intros j Hj. rewrite Lv in Hj. destruct (HPs j Hj) as [u' [Hv _]]. exists u'.
        rewrite (nth_error_nth_lt _ _ None) by lia. rewrite Hv; reflexivity. }
      rewrite scatter_all; [| exact A2 | lia].
      rewrite Hus. apply (wf_prod s2 n2 r2 us); auto; [congruence|].
      apply Forall2_nth.
      { rewrite <- (map_length Some us), <- Hus, Lv. exact Lcs2. }
      intros j b u' Hb Hu'.
      assert (Hj : (j < k)%nat) by (rewrite <- Lcs2; eapply nth_error_some_lt; eauto).
      destruct (HPs j Hj) as [u'' [Hv Hw'']].
      rewrite Hus in Hv. rewrite (nth_error_nth_some _ _ None _ (map_nth_error Some _ _ Hu')) in Hv.
      injection Hv as <-.
      change (nth_error cs2 j = Some b) in Hb. rewrite <- N2 in Hb.
      rewrite (nth_error_nth_some _ _ 0 _ Hb) in Hw''. exact Hw''.
  - (* size *)
    rewrite !tsize_node. rewrite ksum_scatter by exact Lv'.
    rewrite <- (scatter_gather s1 cs1 kids1 Lk K3). fold g1.
    rewrite ksum_scatter by exact Lg.
    apply (ksum_perm s1 s2 g1 vals2 perm k Pm); try lia.
    intros j i Hj. assert (Hjk : (j < k)%nat) by (rewrite <- Lp; eapply nth_error_some_lt; eauto).
    specialize (HP j Hjk). simpl in HP.
    assert (Hi : pj j = Z.to_nat i).
    { unfold pj. rewrite (nth_error_nth_some _ _ 0 _ Hj). reflexivity. }
    rewrite <- Hi. destruct (nth (pj j) g1 None) as [t'|].
    + destruct HP as [u' [-> [_ [Hs _]]]]. exact Hs.
    + rewrite HP. reflexivity.
  - (* forward *)
    apply (fwd_gen s1 s2 ord r1 r2 perm n1 n2 n1 kids1 vals2 F1 F2 C1 I1 I2 E1 E2 L Lp Lv Lk).
    intros j b Hb. fold ne2 in Hb.
    assert (Hj : (j < k)%nat) by (eapply nth_error_some_lt; eauto).
    destruct (Hperm j Hj) as [Hpj [Hr Hr0]]. exists (nth j perm 0).
    split; [exact Hpj|]. split; [exact Hr0|]. split; [fold ne1; fold (pj j); lia|].
    specialize (HP j Hj). simpl in HP. fold (pj j). fold cs1. fold g1. fold ne1.
    destruct (nth (pj j) g1 None) as [t'|].
    + destruct HP as [u' [Hv [_ [_ [Hf _]]]]]. exists (nth (pj j) ne1 0), u'.
      split; [apply nth_error_nth_lt; lia|]. split.
      * rewrite (nth_error_nth_lt _ _ None) by lia. rewrite Hv; reflexivity.
      * rewrite (nth_error_nth_some _ _ 0 _ Hb) in Hf. exact Hf.
    + rewrite (nth_error_nth_lt _ _ None) by lia. rewrite HP. reflexivity.
  - (* inverse *)
    replace (Node n1 kids1) with (Node n1 (scatter s1 cs1 g1))
      by (unfold g1; rewrite scatter_gather; auto).
    assert (Pm' : is_perm (perm_inv perm) k) by (apply perm_inv_is_perm; exact Pm).
    assert (Lp' : length (perm_inv perm) = k) by (rewrite perm_inv_length; exact Lp).
    apply (fwd_gen s2 s1 iord r2 r1 (perm_inv perm) n2 n1 n2 (scatter s2 cs2 vals2) g1
             F2 F1 C2 I2 I1 E2 E1 (om_lookup_inverse _ _ _ _ L)).
    + fold ne1. lia.
    + exact Lg.
    + apply scatter_length.
    + intros i' a Ha. fold ne1 in Ha. fold ne2. fold cs2.
      assert (Hi' : (i' < k)%nat) by (rewrite <- Len; eapply nth_error_some_lt; eauto).
      assert (Hw : nth_error (perm_inv perm) i' = Some (nth i' (perm_inv perm) 0))
        by (apply nth_error_nth_lt; lia).
      destruct (is_perm_nth_range _ _ _ _ Pm' Hw) as [Hwr Hw0].
      assert (Hback := perm_inv_spec' perm k i' _ Pm Hw).
      set (w := nth i' (perm_inv perm) 0) in *. set (j := Z.to_nat w) in *.
      exists w. split; [exact Hw|]. split; [exact Hw0|]. split; [exact Hwr|].
      rewrite gather_scatter by exact Lv'. fold j.
      assert (Hpj : pj j = i').
      { unfold pj. rewrite (nth_error_nth_some _ _ 0 _ Hback). apply Nat2Z.id. }
      specialize (HP j Hwr). simpl in HP. rewrite Hpj in HP.
      rewrite (nth_error_nth_some _ _ 0 _ Ha) in HP.
      destruct (nth i' g1 None) as [t'|] eqn:Eg.
      * destruct HP as [u' [Hv [_ [_ [_ Hf']]]]]. rewrite Hv.
        exists (nth j ne2 0), t'. split; [apply (Hne2 j Hwr)|]. split; [|exact Hf'].
        rewrite (nth_error_nth_lt _ _ None) by lia. rewrite Eg; reflexivity.
      * rewrite HP. rewrite (nth_error_nth_lt _ _ None) by lia. rewrite Eg; reflexivity.
Qed.

Lemma transport_aux : forall h t, (height t < h)%nat -> forall k2 n1 n2 e1 e2 k1,
  wf_tree s1 n1 t -> is_empty s2 n2 = false -> chain s1 n1 e1 k1 -> chain s2 n2 e2 k2 ->
  G (e1, e2) -> Goal4 t n1 n2.
Proof.
  induction h as [|h IHh]; intros t Hh; [lia|].
  assert (IH : forall t', (height t' < height t)%nat -> forall n1' n2', wf_tree s1 n1' t' ->
             is_empty s2 n2' = false -> ends_in s1 s2 G n1' n2' -> Goal4 t' n1' n2').
  { intros t' Ht' n1' n2' Hw' Hn' [e1' [e2' [k1' [k2' [A [B C]]]]]].
    apply (IHh t' ltac:(lia) k2' n1' n2' e1' e2' k1'); auto. }
  induction k2 as [|k2 IHk]; intros n1 n2 e1 e2 k1 Hwf Hne Hc1 Hc2 Hg.
  - inversion Hc2 as [n r2 F2 E2 | ]; subst.
    inversion Hc1 as [n r1 F1 E1 | n r1 d1 e k F1 E1 C1 Hch]; subst.
    + destruct (r_children r1) as [|x l] eqn:C1.
      * eapply case_L; eauto.
      * eapply case_D; eauto. congruence.
    + (* B *)
      destruct (W1 n1 r1 F1 E1) as [d [Hd [Hdne [I1 _]]]].
      rewrite C1 in Hd; injection Hd as <-.
      destruct (wf_inv_eq _ _ _ _ _ Hwf F1 E1 C1) as [t' [-> Hwf']].
      assert (Hh' : (height t' < height (Node n1 [Some t']))%nat)
        by (apply (height_kid n1 [Some t'] O t'); reflexivity).
      assert (Hends : ends_in s1 s2 G d1 e2) by (exists e1, e2, k, O; auto).
      destruct (IH t' Hh' d1 e2 Hwf' Hne Hends) as [u [A [B [C D]]]].
      exists u. split; [exact A|]. split; [rewrite B, tsize_node; simpl; lia|]. split.
      * eapply (fwd_B s1 s2 ord r1 r2); eauto.
      * destruct (r_children r2) as [|x l] eqn:C2.
        -- rewrite (wf_inv_leaf _ _ _ _ A F2 C2).
           eapply (fwd_leaf s2 s1 iord r2 r1); eauto.
           destruct (HG e1 e2 Hg) as [[r1e [r2' [F1e [F2' Hlm]]]] | Hn].
           ++ unfold leaf_match in Hlm. rewrite !andb_true_iff in Hlm.
              destruct Hlm as [[[[Hn1 _] _] _] _].
              assert (Ce : r_children r1e = [])
                by (destruct (r_children r1e); [reflexivity|discriminate]).
              eapply wf_chain_tree; eauto.
           ++ destruct Hn as [r1' [r2' [perm [_ [F2' [_ [_ [_ [_ [_ [C2' _]]]]]]]]]]].
              congruence.
        -- assert (C2' : r_children r2 <> []) by congruence.
           destruct (wf_inv_node _ _ _ _ A F2 E2 C2') as [I2 Hsh].
           assert (Hu : exists kids, u = Node e2 kids).
           { destruct Hsh as [[i [d [t0 [_ [_ [_ ->]]]]]] | [ts [_ [_ ->]]]]; eauto. }
           destruct Hu as [kids ->].
           eapply (fwd_A s2 s1 iord r2 r1); eauto.
  - inversion Hc2 as [| n r2 d2 e k F2 E2 C2 Hch2]; subst.
    destruct (W2 n2 r2 F2 E2) as [d [Hd [Hdne [I2 _]]]].
    rewrite C2 in Hd; injection Hd as <-.
    inversion Hc1 as [n r1 F1 E1 | n r1 d1 e k F1 E1 C1 Hch]; subst.
    + destruct (r_children r1) as [|x l] eqn:C1.
      * eapply case_L; eauto.
      * (* A *)
        assert (C1' : r_children r1 <> []) by congruence.
        destruct (wf_inv_node _ _ _ _ Hwf F1 E1 C1') as [I1 Hsh].
        assert (Ht : exists kids, t = Node e1 kids).
        { destruct Hsh as [[i [d [t0 [_ [_ [_ ->]]]]]] | [ts [_ [_ ->]]]]; eauto. }
        destruct Ht as [kids ->].
        destruct (IHk e1 d2 e1 e2 O Hwf Hdne Hc1 Hch2 Hg) as [u' [A [B [C D]]]].
        exists (Node n2 [Some u']). split; [eapply wf_eq; eauto|].
        split; [rewrite <- B, tsize_node; simpl; lia|]. split.
        -- eapply (fwd_A s1 s2 ord r1 r2); eauto.
        -- eapply (fwd_B s2 s1 iord r2 r1); eauto.
    + (* C *)
      destruct (W1 n1 r1 F1 E1) as [d [Hd [Hdne1 [I1 _]]]].
      rewrite C1 in Hd; injection Hd as <-.
      destruct (wf_inv_eq _ _ _ _ _ Hwf F1 E1 C1) as [t' [-> Hwf']].
      assert (Hh' : (height t' < height (Node n1 [Some t']))%nat)
        by (apply (height_kid n1 [Some t'] O t'); reflexivity).
      assert (Hends : ends_in s1 s2 G d1 d2) by (exists e1, e2, k, k2; auto).
      destruct (IH t' Hh' d1 d2 Hwf' Hdne Hends) as [u' [A [B [C D]]]].
      exists (Node n2 [Some u']). split; [eapply wf_eq; eauto|].
      split; [rewrite !tsize_node; simpl; lia|]. split.
      * eapply (fwd_C s1 s2 ord r1 r2); eauto.
      * eapply (fwd_C s2 s1 iord r2 r1); eauto.
Qed.

End Main.

(* ------------------------------------------------------------------ (4) the main theorem *)
Theorem transport_main : forall s1 s2 ord G,
    eq_wf s1 -> eq_wf s2 -> prod_wf s2 -> good s1 s2 ord G ->
    forall t n1 n2, wf_tree s1 n1 t -> is_empty s2 n2 = false -> ends_in s1 s2 G n1 n2 ->
    exists u, wf_tree s2 n2 u /\ tsize s2 u = tsize s1 t /\
      (exists f0, forall f, (f0 <= f)%nat -> map_rec s1 s2 ord f t n1 n2 = Ok u) /\
      (exists f0, forall f, (f0 <= f)%nat -> map_rec s2 s1 (inverse_order ord) f u n2 n1 = Ok t).
Proof.
  intros s1 s2 ord G W1 W2 P2 HG t n1 n2 Hwf Hne [e1 [e2 [k1 [k2 [A [B C]]]]]].
  exact (transport_aux s1 s2 ord G W1 W2 P2 HG (S (height t)) t (Nat.lt_succ_diag_r _)
           k2 n1 n2 e1 e2 k1 Hwf Hne A B C).
Qed.

(* ------------------------------------------------------------------ (5) the bijection *)
Lemma transport_first_half : forall s1 s2 ord, wf_spec s1 -> wf_spec s2 -> valid_cert s1 s2 ord ->
  forall t, wf_tree s1 (s_root s1) t ->
    exists u, wf_tree s2 (s_root s2) u /\ tsize s2 u = tsize s1 t /\
      (exists f0, forall f, (f0 <= f)%nat ->
         bij_map s1 s2 ord f t = Ok u /\ bij_inverse_map s1 s2 ord f u = Ok t).
Proof.
  intros s1 s2 ord [W1 [P1 N1]] [W2 [P2 N2]] [G [HG He]] t Hwf.
  destruct (transport_main s1 s2 ord G W1 W2 P2 HG t _ _ Hwf N2 He)
    as [u [A [B [[f1 C] [f2 D]]]]].
  exists u. split; [exact A|]. split; [exact B|].
  exists (Nat.max f1 f2). intros f Hf. unfold bij_map, bij_inverse_map.
  split; [apply C|apply D]; lia.
Qed.

Theorem transport_bijection : forall s1 s2 ord, wf_spec s1 -> wf_spec s2 -> valid_cert s1 s2 ord ->
    (forall t, wf_tree s1 (s_root s1) t ->
       exists u, wf_tree s2 (s_root s2) u /\ tsize s2 u = tsize s1 t /\
         (exists f0, forall f, (f0 <= f)%nat -> bij_map s1 s2 ord f t = Ok u /\ bij_inverse_map s1 s2 ord f u = Ok t)) /\
    (forall u, wf_tree s2 (s_root s2) u ->
       exists t, wf_tree s1 (s_root s1) t /\ tsize s1 t = tsize s2 u /\
         (exists f0, forall f, (f0 <= f)%nat -> bij_inverse_map s1 s2 ord f u = Ok t /\ bij_map s1 s2 ord f t = Ok u)).
Proof.
  intros s1 s2 ord WS1 WS2 VC.
  split; [apply transport_first_half; assumption|].
  intros u Hwu.
  pose proof (transport_first_half s1 s2 ord WS1 WS2 VC) as First.
  destruct WS1 as [W1 [P1 N1]]. destruct WS2 as [W2 [P2 N2]]. destruct VC as [G [HG He]].
  pose proof (good_sym _ _ _ _ HG) as HG'.
  pose proof (ends_in_sym _ _ _ _ _ He) as He'.
  set (G' := fun p : Z * Z => G (snd p, fst p)) in *.
  set (iord := inverse_order ord) in *.
  pose proof (transport_main s2 s1 iord G' W2 W1 P1 HG') as Back.
  destruct (Back u _ _ Hwu N1 He') as [t [A [B [[f1 C] [f2 D]]]]].
  destruct (First t A) as [u' [A' [B' [f3 E]]]].
  destruct (Back u' _ _ A' N1 He') as [t'' [A'' [B'' [[f5 C''] [f6 D'']]]]].
  assert (Ht : t'' = t).
  { pose (f := Nat.max f3 f5).
    destruct (E f ltac:(lia)) as [_ E2]. unfold bij_inverse_map in E2. fold iord in E2.
    rewrite (C'' f ltac:(lia)) in E2. congruence. }
  subst t''.
  assert (Hu : u' = u).
  { pose (f := Nat.max f2 f6).
    pose proof (D f ltac:(lia)) as D1. rewrite (D'' f ltac:(lia)) in D1. congruence. }
  subst u'.
  exists t. split; [exact A|]. split; [exact B|].
  exists (Nat.max f1 f3). intros f Hf. split.
  - unfold bij_inverse_map. fold iord. apply C; lia.
  - apply (E f); lia.
Qed.

