(* Basic facts used by the soundness proof of the isomorphism search:
   membership tests, the ancestor set, the order map as a dictionary, equivalence chains. *)
From Coq Require Import ZArith List Bool Lia.
From CSS Require Import Base.PyList Iso.Model Iso.Cert Iso.Valid.
Import ListNotations.
Open Scope Z_scope.

(* ------------------------------------------------------------------ membership *)
Lemma pair_eqb_eq p q : pair_eqb p q = true <-> p = q.
Proof.
  destruct p as [a b], q as [c d]; unfold pair_eqb; simpl.
  rewrite andb_true_iff, !Z.eqb_eq. split; [intros [-> ->]; reflexivity|intros H; inversion H; auto].
Qed.

Lemma pair_eqb_refl p : pair_eqb p p = true.
Proof. apply pair_eqb_eq; reflexivity. Qed.

Lemma pair_in_In p l : pair_in p l = true <-> In p l.
Proof.
  unfold pair_in. rewrite existsb_exists. split.
  - intros (q & Hq & E). apply pair_eqb_eq in E. subst; auto.
  - intros H. exists p. split; auto. apply pair_eqb_refl.
Qed.

Lemma pair_in_false p l : pair_in p l = false <-> ~ In p l.
Proof.
  rewrite <- pair_in_In. destruct (pair_in p l); split; intros H; try congruence;
    try (exfalso; apply H; reflexivity).
Qed.

Lemma nat_in_In i l : nat_in i l = true <-> In i l.
Proof.
  unfold nat_in. rewrite existsb_exists. split.
  - intros (q & Hq & E). apply Nat.eqb_eq in E. subst; auto.
  - intros H. exists i. split; auto. apply Nat.eqb_refl.
Qed.

(* ------------------------------------------------------------------ the ancestor set *)
Lemma set_add_all_shape l ps :
  exists extra, set_add_all l ps = extra ++ l /\ (forall p, In p extra -> In p ps).
Proof.
  revert l. induction ps as [|q ps IH]; intros l; simpl.
  - exists []. split; [reflexivity|intros p []].
  - destruct (IH (set_add l q)) as (ex & E & Hin).
    unfold set_add in *. destruct (pair_in q l) eqn:Q.
    + exists ex. split; [exact E|]. intros p Hp. right. auto.
    + exists (ex ++ [q]). rewrite <- app_assoc. simpl. split; [exact E|].
      intros p Hp. apply in_app_or in Hp. destruct Hp as [Hp|[<-|[]]]; [right; auto|left; reflexivity].
Qed.

Lemma set_add_all_In l ps p : In p (set_add_all l ps) <-> In p l \/ In p ps.
Proof.
  revert l. induction ps as [|q ps IH]; intros l; simpl.
  - tauto.
  - rewrite IH. unfold set_add. destruct (pair_in q l) eqn:Q.
    + apply pair_in_In in Q. split; [intros [H|H]; auto|intros [H|[<-|H]]; auto].
    + simpl. split; [intros [[<-|H]|H]; auto|intros [H|[<-|H]]; auto].
Qed.

Lemma set_remove_add l ps :
  (forall p, In p ps -> pair_in p l = false) ->
  set_remove_all (set_add_all l ps) ps = l.
Proof.
  intros H. destruct (set_add_all_shape l ps) as (ex & -> & Hex).
  unfold set_remove_all. rewrite filter_app.
  assert (E1 : filter (fun p => negb (pair_in p ps)) ex = []).
  { clear -Hex. induction ex as [|x ex IH]; simpl; auto.
    assert (pair_in x ps = true) as -> by (apply pair_in_In, Hex; left; auto).
    simpl. apply IH. intros p Hp. apply Hex. right; auto. }
  rewrite E1. simpl.
  clear -H. induction l as [|x l IH]; simpl; auto.
  assert (pair_in x ps = false) as ->.
  { apply pair_in_false. intros Hx. specialize (H x Hx). simpl in H.
    rewrite pair_eqb_refl in H. discriminate. }
  simpl. f_equal. apply IH. intros p Hp. specialize (H p Hp). simpl in H.
  apply orb_false_iff in H. tauto.
Qed.

(* ------------------------------------------------------------------ the order map *)
Lemma om_lookup_In m k v : om_lookup m k = Some v -> In (k, v) m.
Proof.
  induction m as [|[k' v'] m IH]; simpl; [discriminate|].
  destruct (pair_eqb k k') eqn:E.
  - intros H. inversion H; subst. apply pair_eqb_eq in E. subst. left; auto.
  - intros H. right; auto.
Qed.

Lemma om_has_In m k : om_has m k = true -> exists v, In (k, v) m.
Proof.
  unfold om_has. destruct (om_lookup m k) eqn:E; [|discriminate].
  intros _. exists l. apply om_lookup_In; auto.
Qed.

Lemma In_om_has m k v : In (k, v) m -> om_has m k = true.
Proof.
  unfold om_has. induction m as [|[k' v'] m IH]; simpl; [intros []|].
  intros [H|H].
  - inversion H; subst. rewrite pair_eqb_refl. reflexivity.
  - destruct (pair_eqb k k'); auto.
Qed.

Lemma om_has_app new m k : om_has m k = true -> om_has (new ++ m) k = true.
Proof.
  intros H. apply om_has_In in H. destruct H as (v & H).
  eapply In_om_has. apply in_or_app. right. eauto.
Qed.

Lemma om_has_app_false new m k :
  om_has m k = false -> (forall v, ~ In (k, v) new) -> om_has (new ++ m) k = false.
Proof.
  intros H Hn. destruct (om_has (new ++ m) k) eqn:E; auto.
  apply om_has_In in E. destruct E as (v & Hv). apply in_app_or in Hv. destruct Hv as [Hv|Hv].
  - exfalso. eapply Hn; eauto.
  - apply In_om_has in Hv. congruence.
Qed.

Lemma om_set_fresh m k v : om_has m k = false -> om_set m k v = (k, v) :: m.
Proof. unfold om_set. intros ->. reflexivity. Qed.

Lemma om_pop_to_app new m : om_pop_to (new ++ m) (length m) = m.
Proof.
  unfold om_pop_to. rewrite app_length.
  replace (length new + length m - length m)%nat with (length new) by lia.
  rewrite skipn_app, skipn_all, Nat.sub_diag. reflexivity.
Qed.

(* ------------------------------------------------------------------ chains *)
Lemma chain_det s n e k : chain s n e k -> forall e' k', chain s n e' k' -> e = e' /\ k = k'.
Proof.
  induction 1 as [n r Hf He|n r d e k Hf He Hc Hch IH]; intros e' k' H'.
  - inversion H'; subst; auto. congruence.
  - inversion H'; subst; [congruence|].
    rewrite Hf in H. inversion H; subst. rewrite Hc in H1. inversion H1; subst.
    destruct (IH _ _ H2) as [-> ->]. auto.
Qed.

Lemma chain_exists s n r : eq_wf s -> find_rule s n = Some r -> exists e k, chain s n e k.
Proof.
  intros W Hf. destruct (r_iseq r) eqn:E.
  - destruct (W n r Hf E) as (d & Hc & _ & _ & e & k & Hch).
    exists e, (S k). econstructor; eauto.
  - exists n, O. econstructor; eauto.
Qed.

Lemma chain_end_noneq s n e k : chain s n e k -> exists r, find_rule s e = Some r /\ r_iseq r = false.
Proof. induction 1; eauto. Qed.

(* x is reached from a by following equivalence rules *)
Inductive on_chain (s : spec) : Z -> Z -> Prop :=
| oc_refl a : on_chain s a a
| oc_step a r d x :
    find_rule s a = Some r -> r_iseq r = true -> r_children r = [d] ->
    on_chain s x d -> on_chain s x a.

Lemma on_chain_trans s x y z : on_chain s x y -> on_chain s y z -> on_chain s x z.
Proof.
  intros Hxy Hyz. induction Hyz as [|a r d y Hf He Hc Hy IH]; auto.
  econstructor; eauto.
Qed.

Lemma on_chain_chain s x a : on_chain s x a ->
  forall e k, chain s a e k -> exists kx, chain s x e kx /\ (kx <= k)%nat.
Proof.
  induction 1 as [a|a r d x Hf He Hc Hx IH]; intros e k Hch.
  - exists k. split; auto.
  - inversion Hch; subst; [congruence|].
    rewrite Hf in H. inversion H; subst. rewrite Hc in H1. inversion H1; subst.
    destruct (IH _ _ H2) as (kx & Hk & Hle). exists kx. split; auto.
Qed.

Lemma chain_extend s x a : on_chain s x a ->
  forall e k, chain s x e k -> exists k', chain s a e k'.
Proof.
  induction 1 as [a|a r d x Hf He Hc Hx IH]; intros e k Hch.
  - eauto.
  - destruct (IH _ _ Hch) as (k' & Hk). exists (S k'). econstructor; eauto.
Qed.

(* _get_eq_descendant *)
Lemma eq_path_spec s n p : eq_wf s -> eq_path s n = Ok p ->
  exists r, find_rule s n = Some r /\
    ((r_iseq r = false /\ p = [n]) \/
     (exists d, r_iseq r = true /\ r_children r = [d] /\ p = [n; d])).
Proof.
  intros W. unfold eq_path. destruct (find_rule s n) as [r|] eqn:Hf; [|discriminate].
  destruct (r_iseq r) eqn:E.
  - destruct (W n r Hf E) as (d & Hc & _). rewrite Hc. intros H. inversion H; subst.
    exists r. split; auto. right. exists d. auto.
  - intros H. inversion H; subst. exists r. split; auto.
Qed.

(* every element of the path lies on the chain of the node, and the last element lies
   on the chain of every element *)
Lemma eq_path_on_chain s n p : eq_wf s -> eq_path s n = Ok p ->
  forall x, In x p -> on_chain s x n /\ on_chain s (last p n) x.
Proof.
  intros W H x Hx. destruct (eq_path_spec s n p W H) as (r & Hf & [[He ->]|(d & He & Hc & ->)]).
  - destruct Hx as [<-|[]]. simpl. split; constructor.
  - simpl. destruct Hx as [<-|[<-|[]]].
    + split; [constructor|]. econstructor; eauto. constructor.
    + split; [|constructor]. econstructor; eauto. constructor.
Qed.
