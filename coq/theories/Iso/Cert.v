(* Executable certificate checker for an order map (no proofs here; soundness
   `check_cert = true -> valid_cert` is proved in Iso/CertProofs.v).

   Starting from the pair of roots it follows what ParseTreeMap.map_rec does: both
   classes are moved down their equivalence chains to the first class whose rule is not
   an equivalence; such an END PAIR must be a pair of matching atoms, or a pair of
   decomposition rules of the same constructor type whose non-empty children are
   paired by the permutation stored in the order map under that very pair, and so on
   for the children.  The visited end pairs are returned. *)
From Coq Require Import ZArith List Bool.
From CSS Require Import Base.PyList Iso.Model.
Import ListNotations.
Open Scope Z_scope.

(* the class reached from n by following equivalence rules (which must have exactly
   one child) to a class whose rule is not an equivalence *)
Fixpoint chain_end (s : spec) (fuel : nat) (n : Z) : option Z :=
  match fuel with
  | O => None
  | S f =>
      match find_rule s n with
      | None => None
      | Some r =>
          if r_iseq r then
            match r_children r with
            | [d] => if is_empty s d || negb (r_isrule r) then None else chain_end s f d
            | _ => None
            end
          else Some n
      end
  end.

(* a list of length k in which every index 0..k-1 occurs *)
Definition perm_okb (p : list Z) (k : nat) : bool :=
  Nat.eqb (length p) k && forallb (fun j => existsb (Z.eqb (Z.of_nat j)) p) (seq 0 k).

Definition leaf_match (r1 r2 : rule) : bool :=
  isnil (r_children r1) && isnil (r_children r2) && r_atom r1 && r_atom r2
  && akey_eqb (r_akey r1) (r_akey r2).

Definition child_pairs (ne1 ne2 : list Z) (perm : list Z) : list (Z * Z) :=
  map (fun j => (nth (Z.to_nat (nth j perm 0)) ne1 0, nth j ne2 0)) (seq 0 (length ne2)).

Fixpoint check_pairs (s1 s2 : spec) (ord : order_map) (cf : nat) (fuel : nat)
         (todo seen : list (Z * Z)) : option (list (Z * Z)) :=
  match fuel with
  | O => None
  | S f =>
      match todo with
      | [] => Some seen
      | (a, b) :: rest =>
          match chain_end s1 cf a, chain_end s2 cf b with
          | Some e1, Some e2 =>
              if pair_in (e1, e2) seen then check_pairs s1 s2 ord cf f rest seen
              else
                match find_rule s1 e1, find_rule s2 e2 with
                | Some r1, Some r2 =>
                    if leaf_match r1 r2 then check_pairs s1 s2 ord cf f rest ((e1, e2) :: seen)
                    else if r_isrule r1 && r_isrule r2
                            && negb (isnil (r_children r1)) && negb (isnil (r_children r2))
                            && Z.eqb (c_tag (r_ctor r1)) (c_tag (r_ctor r2)) then
                      match om_lookup ord (e1, e2) with
                      | Some perm =>
                          let ne1 := ne_children s1 r1 in
                          let ne2 := ne_children s2 r2 in
                          if Nat.eqb (length ne1) (length ne2) && perm_okb perm (length ne2) then
                            check_pairs s1 s2 ord cf f (child_pairs ne1 ne2 perm ++ rest) ((e1, e2) :: seen)
                          else None
                      | None => None
                      end
                    else None
                | _, _ => None
                end
          | _, _ => None
          end
      end
  end.

Definition check_cert (s1 s2 : spec) (ord : order_map) (fuel : nat) : bool :=
  match check_pairs s1 s2 ord fuel fuel [(s_root s1, s_root s2)] [] with
  | Some _ => true
  | None => false
  end.
