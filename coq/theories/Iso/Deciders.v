(* Deciders for hypotheses of the C12 theorems that are decidable on the descriptors the harness sends, evaluated by
   run_c12 on every case (Iso/Run.v) and recomputed by the harness (Desc.wf of harness/props/c12.py):
     wf_specb s          -> wf_spec s   (Iso/Valid.v: hypothesis of C12_transport_inverse, C12_constructed_bijection,
                                          C12_*_objects), wf_specb_sound;
     order_same_setb a b    the two order maps have the same entries (same pair -> same permutation), insertion order
                            ignored: Isomorphism._order_map / Bijection._get_order is a dict, read only through
                            lookups; printed for the model's own order map against the one the implementation built.
   (valid_cert s1 s2 ord is decided by Iso/Cert.v check_cert, sound by Iso/CertProofs.v check_cert_sound.) *)
From Coq Require Import ZArith List Bool Lia.
From CSS Require Import Base.PyList Iso.Model Iso.Cert Iso.Valid Iso.Construct.
Import ListNotations.
Open Scope Z_scope.

Fixpoint chainb (s : spec) (fuel : nat) (n : Z) : bool :=
  match fuel with
  | O => false
  | S f =>
      match find_rule s n with
      | None => false
      | Some r =>
          if r_iseq r then match r_children r with [d] => chainb s f d | _ => false end else true
      end
  end.

Definition eq_rule_okb (s : spec) (r : rule) : bool :=
  if r_iseq r then
    match r_children r with
    | [d] => negb (is_empty s d) && r_isrule r && chainb s (S (length (s_rules s))) d
    | _ => false
    end
  else true.

Definition prod_rule_okb (s : spec) (r : rule) : bool :=
  if r_isrule r && negb (r_iseq r) && (c_tag (r_ctor r) =? 1)
  then forallb (fun d => negb (is_empty s d)) (r_children r) else true.

Definition wf_specb (s : spec) : bool :=
  forallb (fun cr : Z * rule => eq_rule_okb s (snd cr) && prod_rule_okb s (snd cr)) (s_rules s) &&
  negb (is_empty s (s_root s)).

Definition entry_eqb (x y : (Z * Z) * list Z) : bool :=
  pair_eqb (fst x) (fst y) && list_eqb Z.eqb (snd x) (snd y).
Definition order_same_setb (a b : order_map) : bool :=
  Nat.eqb (length a) (length b) && forallb (fun e => existsb (entry_eqb e) b) a.

Lemma chainb_sound s : forall fuel n, chainb s fuel n = true -> exists e k, chain s n e k.
Proof.
  induction fuel as [|f IH]; simpl; [discriminate|]. intros n.
  destruct (find_rule s n) as [r|] eqn:E; [|discriminate].
  destruct (r_iseq r) eqn:Eq.
  - destruct (r_children r) as [|d [|]] eqn:Ec; try discriminate. intros H.
    destruct (IH d H) as (e & k & Hc). exists e, (S k). eapply chain_step; eauto.
  - intros _. exists n, O. eapply chain_here; eauto.
Qed.

Theorem wf_specb_sound s : wf_specb s = true -> wf_spec s.
Proof.
  unfold wf_specb. intros H. apply andb_true_iff in H. destruct H as [Hall Hroot].
  rewrite forallb_forall in Hall.
  assert (Hr : forall c r, find_rule s c = Some r -> eq_rule_okb s r = true /\ prod_rule_okb s r = true).
  { intros c r Hf. apply find_rule_in_rules in Hf. specialize (Hall (c, r) Hf). simpl in Hall.
    apply andb_true_iff in Hall. exact Hall. }
  split; [|split].
  - intros c r Hf Heq. destruct (Hr c r Hf) as [H1 _]. unfold eq_rule_okb in H1. rewrite Heq in H1.
    destruct (r_children r) as [|d [|]] eqn:Ec; try discriminate.
    apply andb_true_iff in H1. destruct H1 as [H1 Hch]. apply andb_true_iff in H1. destruct H1 as [Hne Hir].
    exists d. split; [reflexivity|]. split; [apply negb_true_iff; exact Hne|]. split; [exact Hir|].
    eapply chainb_sound. exact Hch.
  - intros c r d Hf Hir Heq Ht Hin. destruct (Hr c r Hf) as [_ H2]. unfold prod_rule_okb in H2.
    rewrite Hir, Heq, Ht in H2. simpl in H2. rewrite forallb_forall in H2. apply negb_true_iff. apply H2. exact Hin.
  - apply negb_true_iff. exact Hroot.
Qed.
