(* Termination of the isomorphism search, with an explicit fuel bound computed from the two
   specifications, and independence of the answer from the fuel.

   Every call that enters the backtracking loop registers the pair of its current classes in
   _ancestors, where it was not before; a pair of classes that is registered is answered at
   once; the set is restored when the call returns.  So the nesting depth is bounded by the
   number of pairs of classes, and every loop pops each of finitely many stack elements
   (partial injective assignments of the children) once. *)
From Coq Require Import ZArith List Bool Lia Wf_nat.
From CSS Require Import Base.PyList Iso.Model Iso.Valid Iso.SearchBasics Iso.Search Iso.ReflTotal.
Import ListNotations.
Open Scope Z_scope.

(* ------------------------------------------------------------------ more fuel, same answer *)
Section Mono.
Variable exact : bool.
Variables s1 s2 : spec.

Lemma iso_loop_mono (rec rec' : st -> Z -> Z -> res (bool * st)) ne1 ne2 n :
  (forall s a b, rec s a b <> OutOfFuel -> rec' s a b = rec s a b) ->
  forall g stack bl co s,
    iso_loop rec g ne1 ne2 n stack bl co s <> OutOfFuel ->
    forall g', (g <= g')%nat ->
      iso_loop rec' g' ne1 ne2 n stack bl co s = iso_loop rec g ne1 ne2 n stack bl co s.
Proof.
  intros Hrec. induction g as [|g IH]; intros stack bl co s Hne g' Hg; [exfalso; apply Hne; reflexivity|].
  destruct g' as [|g']; [lia|]. cbn [iso_loop] in *.
  destruct stack as [|[[i1 i2] U] stack']; [reflexivity|].
  destruct (npair_in (i1, i2) bl); [apply IH; auto; lia|].
  destruct (nth_error ne1 i1) as [a|]; [|reflexivity].
  destruct (nth_error ne2 i2) as [b|]; [|reflexivity].
  destruct (rec s a b) as [[[|] s0]| |] eqn:Er.
  - rewrite (Hrec s a b) by (rewrite Er; discriminate). rewrite Er.
    destruct (Nat.eqb (S i1) n); [reflexivity|apply IH; auto; lia].
  - rewrite (Hrec s a b) by (rewrite Er; discriminate). rewrite Er. apply IH; auto; lia.
  - exfalso. apply Hne. reflexivity.
  - rewrite (Hrec s a b) by (rewrite Er; discriminate). rewrite Er. reflexivity.
Qed.

Lemma iso_mono : forall f s a b,
  iso exact s1 s2 f s a b <> OutOfFuel ->
  forall f', (f <= f')%nat -> iso exact s1 s2 f' s a b = iso exact s1 s2 f s a b.
Proof.
  induction f as [|f IH]; intros s a b Hne f' Hf; [exfalso; apply Hne; reflexivity|].
  destruct f' as [|f']; [lia|]. cbn [iso] in *.
  destruct (eq_path s1 a) as [p1| |]; cbn [bind] in *; try reflexivity.
  destruct (eq_path s2 b) as [p2| |]; cbn [bind] in *; try reflexivity.
  destruct (find_rule s1 (last p1 a)) as [r1|]; [|reflexivity].
  destruct (find_rule s2 (last p2 b)) as [r2|]; [|reflexivity].
  destruct (base_cases exact s p1 p2 (last p1 a) (last p2 b) r1 r2 (ne_children s1 r1) (ne_children s2 r2))
    as [bc| |]; cbn [bind] in *; try reflexivity.
  destruct (Z.eqb bc 1); [reflexivity|]. destruct (Z.eqb bc (-1)); [reflexivity|].
  match goal with
  | |- ?X >>= ?k = ?Y >>= ?k =>
      assert (E : X = Y); [|rewrite E; reflexivity]
  end.
  apply iso_loop_mono; [| |lia].
  - intros t x y Ht. apply IH; auto. lia.
  - intros X. apply Hne. rewrite X. reflexivity.
Qed.
End Mono.

(* ------------------------------------------------------------------ the ancestor set is restored *)
Lemma base_cases_unknown exact s p1 p2 c1 c2 r1 r2 ne1 ne2 bc :
  base_cases exact s p1 p2 c1 c2 r1 r2 ne1 ne2 = Ok bc -> bc <> 1 -> bc <> -1 ->
  existsb (fun p => pair_in p (anc s)) (anc_pairs exact p1 p2 c1 c2) = false /\
  length ne1 = length ne2.
Proof.
  unfold base_cases.
  destruct (om_has (om s) (c1, c2)); [intros H; inversion H; congruence|].
  destruct (pair_in (c1, c2) (failed s)); [intros H; inversion H; congruence|].
  destruct (Nat.eqb (length ne1) (length ne2)) eqn:El; cbn [negb]; [|intros H; inversion H; congruence].
  destruct (isnil (r_children r1) && isnil (r_children r2)).
  { destruct (r_atom r1 && r_atom r2 && akey_eqb (r_akey r1) (r_akey r2)); intros H; inversion H; congruence. }
  destruct (r_isrule r1 && r_isrule r2); cbn [negb]; [|discriminate].
  destruct (Bool.eqb (r_iseq r1) (r_iseq r2)); cbn [negb]; [|intros H; inversion H; congruence].
  destruct (ctor_equiv (r_ctor r1) (r_ctor r2)); cbn [negb]; [|intros H; inversion H; congruence].
  destruct (existsb (fun p => pair_in p (anc s)) (anc_pairs exact p1 p2 c1 c2));
    [intros H; inversion H; congruence|].
  intros _ _ _. split; [reflexivity|apply Nat.eqb_eq; auto].
Qed.

Lemma loop_anc (rec : st -> Z -> Z -> res (bool * st)) ne1 ne2 n :
  (forall s a b r s', rec s a b = Ok (r, s') -> anc s' = anc s) ->
  forall g stack bl co s r s',
    iso_loop rec g ne1 ne2 n stack bl co s = Ok (r, s') -> anc s' = anc s.
Proof.
  intros Hrec. induction g as [|g IH]; intros stack bl co s r s'; [discriminate|].
  cbn [iso_loop]. destruct stack as [|[[i1 i2] U] stack'].
  { intros H; inversion H; reflexivity. }
  destruct (npair_in (i1, i2) bl); [apply IH|].
  destruct (nth_error ne1 i1) as [a|]; [|discriminate].
  destruct (nth_error ne2 i2) as [b|]; [|discriminate].
  destruct (rec s a b) as [[[|] s0]| |] eqn:Er; try discriminate.
  - destruct (Nat.eqb (S i1) n).
    + intros H; inversion H; subst. eapply Hrec; eauto.
    + intros H. rewrite (IH _ _ _ _ _ _ H). eapply Hrec; eauto.
  - intros H. rewrite (IH _ _ _ _ _ _ H). eapply Hrec; eauto.
Qed.

Lemma iso_anc exact s1 s2 : forall f s a b r s',
  iso exact s1 s2 f s a b = Ok (r, s') -> anc s' = anc s.
Proof.
  induction f as [|f IH]; intros s a b r s'; [discriminate|].
  cbn [iso].
  destruct (eq_path s1 a) as [p1| |]; cbn [bind]; try discriminate.
  destruct (eq_path s2 b) as [p2| |]; cbn [bind]; try discriminate.
  destruct (find_rule s1 (last p1 a)) as [r1|]; [|discriminate].
  destruct (find_rule s2 (last p2 b)) as [r2|]; [|discriminate].
  destruct (base_cases exact s p1 p2 (last p1 a) (last p2 b) r1 r2 (ne_children s1 r1) (ne_children s2 r2))
    as [bc| |] eqn:Eb; cbn [bind]; try discriminate.
  destruct (Z.eqb bc 1) eqn:B1; [intros H; inversion H; reflexivity|].
  destruct (Z.eqb bc (-1)) eqn:B2; [intros H; inversion H; reflexivity|].
  apply Z.eqb_neq in B1. apply Z.eqb_neq in B2.
  destruct (base_cases_unknown _ _ _ _ _ _ _ _ _ _ _ Eb B1 B2) as [Hx _].
  set (pr := anc_pairs exact p1 p2 (last p1 a) (last p2 b)) in *.
  set (sA := mkSt (set_add_all (anc s) pr) (om s) (failed s)).
  destruct (iso_loop (iso exact s1 s2 f) (S f) (ne_children s1 r1) (ne_children s2 r2)
                     (length (ne_children s1 r1)) (init_stack (length (ne_children s1 r1))) []
                     (repeat (-1) (length (ne_children s1 r1))) sA) as [[ro s0]| |] eqn:El;
    cbn [bind]; try discriminate.
  assert (An : anc s0 = anc sA) by (eapply loop_anc; [exact IH|exact El]).
  assert (Hrem : set_remove_all (anc s0) pr = anc s).
  { rewrite An. simpl. apply set_remove_add. intros q Hq.
    destruct (pair_in q (anc s)) eqn:X; auto.
    assert (Y : existsb (fun p => pair_in p (anc s)) pr = true) by (apply existsb_exists; exists q; auto).
    congruence. }
  destruct ro; intros H; inversion H; subst; exact Hrem.
Qed.

(* ------------------------------------------------------------------ the loop pops finitely many elements *)
Fixpoint wt (n d : nat) : nat :=
  match d with O => 1 | S d' => 1 + n * wt n d' end.

Definition ewt (n : nat) (e : elem) : nat := wt n (n - 1 - fst (fst e)).
Definition phi (n : nat) (stack : list elem) : nat := fold_right (fun e acc => ewt n e + acc)%nat O stack.

Lemma phi_app n a b : phi n (a ++ b) = (phi n a + phi n b)%nat.
Proof. induction a; simpl; auto. rewrite IHa. lia. Qed.

Lemma phi_map_level n l (L : list nat) U :
  phi n (map (fun i => (l, i, i :: U)) L) = (length L * wt n (n - 1 - l))%nat.
Proof.
  induction L as [|x L IH]; [reflexivity|].
  cbn [map phi fold_right]. fold (phi n (map (fun i => (l, i, i :: U)) L)). rewrite IH.
  unfold ewt. cbn [fst length]. lia.
Qed.

Lemma filter_length_le_all {A} (f : A -> bool) l : (length (filter f l) <= length l)%nat.
Proof. induction l; simpl; auto. destruct (f a); simpl; lia. Qed.

Lemma wt_pos n d : (1 <= wt n d)%nat.
Proof. destruct d; simpl; lia. Qed.

Lemma wt_mono n n' d d' : (n <= n')%nat -> (d <= d')%nat -> (wt n d <= wt n' d')%nat.
Proof.
  intros Hn. revert d'. induction d as [|d IH]; intros d' Hd.
  - apply wt_pos.
  - destruct d' as [|d']; [lia|]. simpl. specialize (IH d' ltac:(lia)). nia.
Qed.

Section LoopTerm.
Variables (ne1 ne2 : list Z) (n : nat).
Variable P : st -> Prop.
Variable rec : st -> Z -> Z -> res (bool * st).
Hypothesis Hrec_fuel : forall s a b, P s -> rec s a b <> OutOfFuel.
Hypothesis Hrec_P : forall s a b r s', P s -> rec s a b = Ok (r, s') -> P s'.

Lemma loop_terminates g : forall stack bl co s,
  P s -> (forall e, In e stack -> (fst (fst e) < n)%nat) -> (phi n stack < g)%nat ->
  iso_loop rec g ne1 ne2 n stack bl co s <> OutOfFuel.
Proof.
  induction g as [|g IH]; intros stack bl co s HP Hlev Hphi; [lia|].
  cbn [iso_loop]. destruct stack as [|[[i1 i2] U] stack']; [discriminate|].
  assert (Hl : (i1 < n)%nat) by (apply (Hlev (i1, i2, U)); left; reflexivity).
  assert (Hlev' : forall e, In e stack' -> (fst (fst e) < n)%nat) by (intros e He; apply Hlev; right; auto).
  simpl in Hphi. unfold ewt in Hphi at 1. simpl in Hphi.
  pose proof (wt_pos n (n - 1 - i1)) as Wp.
  destruct (npair_in (i1, i2) bl); [apply IH; auto; lia|].
  destruct (nth_error ne1 i1) as [a|]; [|discriminate].
  destruct (nth_error ne2 i2) as [b|]; [|discriminate].
  destruct (rec s a b) as [[[|] s0]| |] eqn:Er.
  - destruct (Nat.eqb (S i1) n) eqn:E; [discriminate|]. apply Nat.eqb_neq in E.
    apply IH.
    + eapply Hrec_P; eauto.
    + rewrite extend_stack_eq. intros e He. apply in_app_or in He. destruct He as [He|He]; auto.
      apply in_map_iff in He. destruct He as (i & <- & _). simpl. lia.
    + rewrite extend_stack_eq, phi_app, phi_map_level.
      pose proof (filter_length_le_all (fun i => negb (nat_in i U)) (seq 0 n)) as Hf.
      rewrite seq_length in Hf.
      replace (n - 1 - i1)%nat with (S (n - 1 - S i1)) in Hphi by lia. simpl in Hphi. nia.
  - apply IH; auto; [eapply Hrec_P; eauto|lia].
  - exfalso. eapply Hrec_fuel; eauto.
  - discriminate.
Qed.
End LoopTerm.

Lemma phi_init n : phi n (init_stack n) = (n * wt n (n - 1))%nat.
Proof.
  rewrite init_stack_eq.
  assert (G : forall L : list nat, phi n (map (fun i => (O, i, [i])) L) = (length L * wt n (n - 1))%nat).
  { induction L; simpl; auto. unfold ewt at 1. simpl. rewrite IHL. rewrite Nat.sub_0_r. lia. }
  rewrite G, seq_length. reflexivity.
Qed.

(* ------------------------------------------------------------------ the search terminates *)
Section Term.
Variable exact : bool.
Variables s1 s2 : spec.

Definition pair_universe : list (Z * Z) := list_prod (keys s1) (keys s2).
Definition todo (A : list (Z * Z)) : nat :=
  length (filter (fun q => negb (pair_in q A)) pair_universe).
Definition max_arity : nat := Nat.max (arity_bound s1) (arity_bound s2).
Definition loop_bound : nat := (max_arity * wt max_arity max_arity)%nat.
Definition fuel_bound : nat := (length pair_universe + loop_bound + 2)%nat.

Lemma todo_lt A A' q :
  (forall p, In p A -> In p A') -> In q pair_universe -> ~ In q A -> In q A' ->
  (todo A' < todo A)%nat.
Proof.
  intros Hsub Hq Hn Hin. unfold todo.
  apply (filter_length_lt _ _ pair_universe q); auto.
  - intros y _ Hy. apply negb_true_iff in Hy. apply negb_true_iff.
    apply pair_in_false. intros X. apply pair_in_false in Hy. apply Hy. auto.
  - apply negb_true_iff. apply pair_in_false; auto.
  - apply negb_false_iff. apply pair_in_In; auto.
Qed.

Lemma ne_children_le s c r : find_rule s c = Some r -> (length (ne_children s r) <= arity_bound s)%nat.
Proof.
  intros H. apply (find_rule_arity s) in H. unfold ne_children.
  pose proof (filter_length_le_all (fun c0 => negb (is_empty s c0)) (r_children r)). lia.
Qed.

Lemma eq_path_last_rule s n p r : eq_path s n = Ok p -> find_rule s (last p n) = Some r -> In (last p n) p.
Proof.
  unfold eq_path. destruct (find_rule s n) as [q|]; [|discriminate].
  destruct (r_iseq q).
  - destruct (r_children q) as [|d l]; [discriminate|]. intros H; inversion H; subst. simpl. auto.
  - intros H; inversion H; subst. simpl. auto.
Qed.

Lemma eq_path_fuel s n : eq_path s n <> OutOfFuel.
Proof.
  unfold eq_path. destruct (find_rule s n) as [q|]; [|discriminate].
  destruct (r_iseq q); [|discriminate]. destruct (r_children q); discriminate.
Qed.

Lemma base_cases_fuel s p1 p2 c1 c2 r1 r2 ne1 ne2 :
  base_cases exact s p1 p2 c1 c2 r1 r2 ne1 ne2 <> OutOfFuel.
Proof.
  unfold base_cases.
  repeat match goal with
         | |- (if ?b then _ else _) <> _ => destruct b
         end; discriminate.
Qed.

Lemma iso_terminates : forall m f s a b,
  (todo (anc s) <= m)%nat -> (m + loop_bound + 2 <= f)%nat ->
  iso exact s1 s2 f s a b <> OutOfFuel.
Proof.
  induction m as [m IHm] using lt_wf_ind. intros f s a b Hm Hf.
  destruct f as [|f]; [lia|]. cbn [iso].
  destruct (eq_path s1 a) as [p1| |] eqn:E1; cbn [bind]; try discriminate;
    [|exfalso; apply (eq_path_fuel s1 a); auto].
  destruct (eq_path s2 b) as [p2| |] eqn:E2; cbn [bind]; try discriminate;
    [|exfalso; apply (eq_path_fuel s2 b); auto].
  set (c1 := last p1 a). set (c2 := last p2 b).
  destruct (find_rule s1 c1) as [r1|] eqn:F1; [|discriminate].
  destruct (find_rule s2 c2) as [r2|] eqn:F2; [|discriminate].
  destruct (base_cases exact s p1 p2 c1 c2 r1 r2 (ne_children s1 r1) (ne_children s2 r2))
    as [bc| |] eqn:Eb; cbn [bind]; try discriminate;
    [|exfalso; eapply base_cases_fuel; eauto].
  destruct (Z.eqb bc 1) eqn:B1; [discriminate|].
  destruct (Z.eqb bc (-1)) eqn:B2; [discriminate|].
  apply Z.eqb_neq in B1. apply Z.eqb_neq in B2.
  destruct (base_cases_unknown _ _ _ _ _ _ _ _ _ _ _ Eb B1 B2) as [Hx Hlen].
  set (pr := anc_pairs exact p1 p2 c1 c2) in *.
  set (n := length (ne_children s1 r1)).
  set (sA := mkSt (set_add_all (anc s) pr) (om s) (failed s)).
  assert (Hcc : In (c1, c2) pr).
  { unfold pr, anc_pairs. destruct exact; [left; reflexivity|].
    apply in_prod; [eapply eq_path_last_rule; eauto|eapply eq_path_last_rule; eauto]. }
  assert (Hnot : ~ In (c1, c2) (anc s)).
  { intros X. assert (Y : existsb (fun p => pair_in p (anc s)) pr = true).
    { apply existsb_exists. exists (c1, c2). split; auto. apply pair_in_In; auto. }
    congruence. }
  assert (Hlt : (todo (anc sA) < todo (anc s))%nat).
  { apply (todo_lt _ _ (c1, c2)); auto.
    - intros q Hq. simpl. apply set_add_all_In. auto.
    - apply in_prod; eapply find_rule_key; eauto.
    - simpl. apply set_add_all_In. auto. }
  destruct m as [|m']; [lia|].
  assert (Hn : (n <= max_arity)%nat).
  { unfold n, max_arity. pose proof (ne_children_le s1 c1 r1 F1). lia. }
  match goal with
  | |- ?X >>= _ <> OutOfFuel => assert (Hloop : X <> OutOfFuel)
  end.
  { apply (loop_terminates (ne_children s1 r1) (ne_children s2 r2) n (fun t => anc t = anc sA)).
    - intros t x y Ht. apply (IHm m' (Nat.lt_succ_diag_r m')); [rewrite Ht; lia|lia].
    - intros t x y r t' Ht Hc. rewrite <- Ht. eapply iso_anc; eauto.
    - reflexivity.
    - intros e He. rewrite init_stack_eq in He. apply in_map_iff in He.
      destruct He as (i & <- & Hi). apply in_seq in Hi. simpl. lia.
    - rewrite phi_init.
      assert ((n * wt n (n - 1) <= max_arity * wt max_arity max_arity)%nat).
      { pose proof (wt_mono n max_arity (n - 1) max_arity Hn ltac:(lia)). nia. }
      unfold loop_bound in Hf. lia. }
  destruct (iso_loop (iso exact s1 s2 f) (S f) (ne_children s1 r1) (ne_children s2 r2) n
                     (init_stack n) [] (repeat (-1) n) sA) as [[[co|] s0]| |]; cbn [bind];
    try discriminate. exfalso; apply Hloop; reflexivity.
Qed.

Theorem search_terminates : forall f, (fuel_bound <= f)%nat ->
  are_isomorphic exact s1 s2 f <> OutOfFuel.
Proof.
  intros f Hf. unfold are_isomorphic.
  apply (iso_terminates (length pair_universe)); [|unfold fuel_bound in Hf; lia].
  unfold todo. apply filter_length_le_all.
Qed.

(* the answer of the test: the search run with the fuel bound *)
Definition check_result : res (bool * st) := are_isomorphic exact s1 s2 fuel_bound.

Theorem check_result_defined : check_result <> OutOfFuel.
Proof. apply search_terminates. lia. Qed.

(* any run that answers gives that answer *)
Theorem fuel_irrelevant : forall f,
  are_isomorphic exact s1 s2 f <> OutOfFuel -> are_isomorphic exact s1 s2 f = check_result.
Proof.
  intros f Hne. unfold check_result, are_isomorphic in *.
  rewrite <- (iso_mono exact s1 s2 f _ _ _ Hne (Nat.max f fuel_bound)) by lia.
  apply iso_mono; [|lia]. apply check_result_defined.
Qed.
End Term.
