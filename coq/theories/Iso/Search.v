(* Soundness of the isomorphism search (Isomorphism._are_isomorphic, as it is after
   the fix 7890ace): when it answers True the order map it leaves is a valid certificate.

   The argument.  `accept M A a b` says that the pair of classes (a, b) is justified by
   the order map M, given that the pairs in the ancestor set A are assumed to be matched:
   the ends (e1, e2) of the two equivalence chains are a matching pair of atoms, or are a
   key of M whose rules are not equivalences, or the justification is an ancestor hit (some
   assumed pair (x, y) with x on the chain of a and y on the chain of b).  The invariant
   `Inv M A` says that every entry of M is locally correct and its children are accepted.
   A call that returns True leaves the ancestors as they were, only adds entries, keeps the
   invariant and makes its own pair accepted; a call that returns False leaves the order
   map EXACTLY as it found it (this is what commit 7890ace established: without it, entries
   justified by the failed pair would stay).  When a pair succeeds its assumption is
   discharged: every ancestor hit on it is replaced by the entry just added.  For a pair
   of equivalence rules this needs that the chain below cannot come back to the pair
   itself, i.e. that equivalence rules form no cycle (eq_wf). *)
From Coq Require Import ZArith List Bool Lia Permutation.
From CSS Require Import Base.PyList Iso.Model Iso.Cert Iso.Valid Iso.SearchBasics.
Import ListNotations.
Open Scope Z_scope.

Section Search.
Variables s1 s2 : spec.
Hypothesis W1 : eq_wf s1.
Hypothesis W2 : eq_wf s2.
Variable exact : bool.     (* which pairs the ancestor set holds: see Model.anc_pairs *)

Lemma anc_pairs_prod p1 p2 c1 c2 q :
  In c1 p1 -> In c2 p2 -> In q (anc_pairs exact p1 p2 c1 c2) -> In q (list_prod p1 p2).
Proof.
  intros H1 H2. unfold anc_pairs. destruct exact; auto.
  intros [<-|[]]. apply in_prod; auto.
Qed.

Lemma anc_pairs_self p1 p2 c1 c2 : In c1 p1 -> In c2 p2 -> In (c1, c2) (anc_pairs exact p1 p2 c1 c2).
Proof.
  intros H1 H2. unfold anc_pairs. destruct exact; [left; reflexivity|apply in_prod; auto].
Qed.

Lemma eq_path_last_in s n p : eq_wf s -> eq_path s n = Ok p -> In (last p n) p.
Proof.
  intros W H. destruct (eq_path_spec s n p W H) as (r & Hf & [[He ->]|(d & He & Hc & ->)]); simpl; auto.
Qed.

Definition noneq (s : spec) (c : Z) : Prop :=
  exists r, find_rule s c = Some r /\ r_iseq r = false.

Definition Kne (M : order_map) (e1 e2 : Z) : Prop :=
  om_has M (e1, e2) = true /\ noneq s1 e1 /\ noneq s2 e2.

Definition hit (A : list (Z * Z)) (a b : Z) : Prop :=
  exists x y, In (x, y) A /\ on_chain s1 x a /\ on_chain s2 y b.

Definition accept (M : order_map) (A : list (Z * Z)) (a b : Z) : Prop :=
  exists e1 e2 k1 k2, chain s1 a e1 k1 /\ chain s2 b e2 k2 /\
    (Kne M e1 e2 \/ leaf_pair s1 s2 e1 e2 \/ hit A a b).

Definition entry_ok (M : order_map) (A : list (Z * Z)) (c1 c2 : Z) (perm : list Z) : Prop :=
  exists r1 r2,
    find_rule s1 c1 = Some r1 /\ find_rule s2 c2 = Some r2 /\
    r_isrule r1 = true /\ r_isrule r2 = true /\ r_iseq r1 = r_iseq r2 /\
    c_tag (r_ctor r1) = c_tag (r_ctor r2) /\
    ctor_equiv (r_ctor r1) (r_ctor r2) = true /\
    length (ne_children s1 r1) = length (ne_children s2 r2) /\
    (0 < length (ne_children s1 r1))%nat /\
    (r_iseq r1 = true -> accept M A c1 c2) /\
    (r_iseq r1 = false ->
       r_children r1 <> [] /\ r_children r2 <> [] /\
       is_perm perm (length (ne_children s2 r2)) /\
       forall j i a b,
         nth_error perm j = Some i ->
         nth_error (ne_children s1 r1) (Z.to_nat i) = Some a ->
         nth_error (ne_children s2 r2) j = Some b ->
         accept M A a b).

Definition Inv (M : order_map) (A : list (Z * Z)) : Prop :=
  forall c1 c2 perm, In ((c1, c2), perm) M -> entry_ok M A c1 c2 perm.

Definition fresh (new : order_map) (A : list (Z * Z)) : Prop :=
  forall k v, In (k, v) new -> ~ In k A.

(* what a call establishes *)
Definition post (s : st) (a b : Z) (r : bool) (s' : st) : Prop :=
  anc s' = anc s /\
  (r = false -> om s' = om s) /\
  (r = true ->
     (exists new, om s' = new ++ om s /\ fresh new (anc s)) /\
     Inv (om s') (anc s) /\ accept (om s') (anc s) a b).

(* ------------------------------------------------------------------ monotonicity *)
Lemma Kne_app new M e1 e2 : Kne M e1 e2 -> Kne (new ++ M) e1 e2.
Proof. intros (H & N1 & N2). split; auto. apply om_has_app; auto. Qed.

Lemma accept_mono M A M' A' a b :
  (forall e1 e2, Kne M e1 e2 -> Kne M' e1 e2) ->
  (forall p, In p A -> In p A') ->
  accept M A a b -> accept M' A' a b.
Proof.
  intros HK HA (e1 & e2 & k1 & k2 & C1 & C2 & J).
  exists e1, e2, k1, k2. split; [auto|]. split; [auto|].
  destruct J as [J|[J|(x & y & Hin & O1 & O2)]]; [left; auto|right; left; auto|].
  right; right. exists x, y. auto.
Qed.

Lemma accept_app new M A a b : accept M A a b -> accept (new ++ M) A a b.
Proof. apply accept_mono; auto. intros; apply Kne_app; auto. Qed.

(* moving an accepted pair up the chains *)
Lemma accept_lift M A c1 c2 n1 n2 :
  on_chain s1 c1 n1 -> on_chain s2 c2 n2 -> accept M A c1 c2 -> accept M A n1 n2.
Proof.
  intros O1 O2 (e1 & e2 & k1 & k2 & C1 & C2 & J).
  destruct (chain_extend _ _ _ O1 _ _ C1) as (k1' & C1').
  destruct (chain_extend _ _ _ O2 _ _ C2) as (k2' & C2').
  exists e1, e2, k1', k2'. split; [auto|]. split; [auto|].
  destruct J as [J|[J|(x & y & Hin & X1 & X2)]]; [left; auto|right; left; auto|].
  right; right. exists x, y. split; [auto|]. split; eapply on_chain_trans; eauto.
Qed.

Lemma entry_ok_map M A M' A' c1 c2 perm :
  (forall a b, accept M A a b -> accept M' A' a b) ->
  entry_ok M A c1 c2 perm -> entry_ok M' A' c1 c2 perm.
Proof.
  intros H (r1 & r2 & F1 & F2 & I1 & I2 & E & T & Tc & Ln & Pos & Heq & Hne).
  exists r1, r2. repeat (split; [assumption|]). split.
  - intros X. apply H. auto.
  - intros X. destruct (Hne X) as (N1 & N2 & P & Hc).
    repeat (split; [assumption|]). intros j i a b Hj Ha Hb. apply H. eapply Hc; eauto.
Qed.

(* ------------------------------------------------------------------ discharging an assumption *)
(* An equivalence chain cannot come back to where it started. *)
Lemma no_cycle s c r d x : eq_wf s ->
  find_rule s c = Some r -> r_iseq r = true -> r_children r = [d] ->
  on_chain s x d -> on_chain s c x -> False.
Proof.
  intros W Hf He Hc Hxd Hcx.
  destruct (W c r Hf He) as (d' & Hc' & _ & _ & e & k & Hch).
  rewrite Hc in Hc'. inversion Hc'; subst d'.
  destruct (on_chain_chain _ _ _ Hxd _ _ Hch) as (kx & Hx & Lx).
  destruct (on_chain_chain _ _ _ Hcx _ _ Hx) as (kc & Hcc & Lc).
  assert (Hc2 : chain s c e (S k)) by (econstructor; eauto).
  destruct (chain_det _ _ _ _ Hcc _ _ Hc2) as [_ ->]. lia.
Qed.

Section Discharge.
(* the pair (c1, c2) at the ends of the paths p1, p2 has just been matched *)
Variables (A : list (Z * Z)) (p1 p2 : list Z) (c1 c2 : Z) (M M' : order_map).
Variable ps : list (Z * Z).
Hypothesis PS : forall q, In q ps -> In q (list_prod p1 p2).
Hypothesis P1 : forall x, In x p1 -> on_chain s1 c1 x.
Hypothesis P2 : forall y, In y p2 -> on_chain s2 c2 y.
Hypothesis HM : forall e1 e2, Kne M e1 e2 -> Kne M' e1 e2.
Hypothesis J0 : accept M' A c1 c2.

Lemma discharge a b :
  accept M (set_add_all A ps) a b -> accept M' A a b.
Proof.
  intros (e1 & e2 & k1 & k2 & C1 & C2 & J).
  destruct J as [J|[J|(x & y & Hin & O1 & O2)]].
  - exists e1, e2, k1, k2. auto.
  - exists e1, e2, k1, k2. auto.
  - apply set_add_all_In in Hin. destruct Hin as [Hin|Hin].
    + exists e1, e2, k1, k2. split; [auto|]. split; [auto|]. right; right. exists x, y. auto.
    + apply PS in Hin. apply in_prod_iff in Hin. destruct Hin as [Hx Hy].
      eapply accept_lift; [| |exact J0].
      * eapply on_chain_trans; [apply P1; exact Hx|exact O1].
      * eapply on_chain_trans; [apply P2; exact Hy|exact O2].
Qed.
End Discharge.

(* ------------------------------------------------------------------ base cases *)
Lemma list_eqb_eq {A} (eqb : A -> A -> bool) (Heq : forall x y, eqb x y = true -> x = y) a b :
  list_eqb eqb a b = true -> a = b.
Proof.
  revert b. induction a as [|x a IH]; intros [|y b]; simpl; try discriminate; auto.
  rewrite andb_true_iff. intros [H1 H2]. f_equal; auto.
Qed.

Lemma childless_noneq s c r : eq_wf s -> find_rule s c = Some r -> r_children r = [] -> r_iseq r = false.
Proof.
  intros W Hf Hc. destruct (r_iseq r) eqn:E; auto.
  destruct (W c r Hf E) as (d & Hd & _). congruence.
Qed.

Lemma isnil_true {A} (l : list A) : isnil l = true -> l = [].
Proof. destruct l; simpl; congruence. Qed.

(* the facts the search has about the current pair once _base_cases answered "unknown" *)
Definition unknown_facts (s : st) (p1 p2 : list Z) (c1 c2 : Z) (r1 r2 : rule) : Prop :=
  om_has (om s) (c1, c2) = false /\
  length (ne_children s1 r1) = length (ne_children s2 r2) /\
  r_isrule r1 = true /\ r_isrule r2 = true /\ r_iseq r1 = r_iseq r2 /\
  c_tag (r_ctor r1) = c_tag (r_ctor r2) /\
  ctor_equiv (r_ctor r1) (r_ctor r2) = true /\
  (forall p, In p (anc_pairs exact p1 p2 c1 c2) -> ~ In p (anc s)).

Lemma base_cases_spec s n1 n2 p1 p2 r1 r2 bc :
  Inv (om s) (anc s) ->
  eq_path s1 n1 = Ok p1 -> eq_path s2 n2 = Ok p2 ->
  find_rule s1 (last p1 n1) = Some r1 -> find_rule s2 (last p2 n2) = Some r2 ->
  base_cases exact s p1 p2 (last p1 n1) (last p2 n2) r1 r2 (ne_children s1 r1) (ne_children s2 r2) = Ok bc ->
  (bc = 1 -> accept (om s) (anc s) n1 n2) /\
  (bc <> 1 -> bc <> -1 -> unknown_facts s p1 p2 (last p1 n1) (last p2 n2) r1 r2).
Proof.
  intros HI E1 E2 F1 F2.
  set (c1 := last p1 n1) in *. set (c2 := last p2 n2) in *.
  assert (OC1 : on_chain s1 c1 n1).
  { destruct (eq_path_spec _ _ _ W1 E1) as (r & Hf & [[He ->]|(d & He & Hc & ->)]); subst c1; simpl.
    - constructor.
    - econstructor; eauto. constructor. }
  assert (OC2 : on_chain s2 c2 n2).
  { destruct (eq_path_spec _ _ _ W2 E2) as (r & Hf & [[He ->]|(d & He & Hc & ->)]); subst c2; simpl.
    - constructor.
    - econstructor; eauto. constructor. }
  unfold base_cases.
  destruct (om_has (om s) (c1, c2)) eqn:Hm.
  { intros H. inversion H; subst bc. split; [intros _|congruence].
    apply om_has_In in Hm. destruct Hm as (perm & Hin).
    destruct (HI _ _ _ Hin) as (q1 & q2 & G1 & G2 & I1 & I2 & E & T & Tc & Ln & Pos & Heq & Hne).
    eapply accept_lift; eauto.
    destruct (r_iseq q1) eqn:Q.
    - apply Heq; auto.
    - exists c1, c2, O, O. split; [econstructor; eauto|]. split; [econstructor; eauto; congruence|].
      left. split; [eapply In_om_has; eauto|]. split; [exists q1; auto|exists q2; split; auto; congruence]. }
  destruct (pair_in (c1, c2) (failed s)).
  { intros H. inversion H; subst bc. split; intros; congruence. }
  destruct (Nat.eqb (length (ne_children s1 r1)) (length (ne_children s2 r2))) eqn:Hl; simpl.
  2:{ intros H. inversion H; subst bc. split; intros; congruence. }
  apply Nat.eqb_eq in Hl.
  destruct (isnil (r_children r1) && isnil (r_children r2)) eqn:Hnil.
  { apply andb_true_iff in Hnil. destruct Hnil as [N1 N2].
    apply isnil_true in N1. apply isnil_true in N2.
    destruct (r_atom r1 && r_atom r2 && akey_eqb (r_akey r1) (r_akey r2)) eqn:Hat.
    - intros H. inversion H; subst bc. split; [intros _|congruence].
      eapply accept_lift; eauto.
      exists c1, c2, O, O.
      split; [apply (chain_here s1 c1 r1 F1); apply (childless_noneq s1 c1 r1 W1 F1 N1)|].
      split; [apply (chain_here s2 c2 r2 F2); apply (childless_noneq s2 c2 r2 W2 F2 N2)|].
      right; left. exists r1, r2. split; [auto|]. split; [auto|].
      unfold leaf_match. rewrite N1, N2. simpl. exact Hat.
    - intros H. inversion H; subst bc. split; intros; congruence. }
  destruct (r_isrule r1 && r_isrule r2) eqn:Hr; simpl; [|discriminate].
  apply andb_true_iff in Hr. destruct Hr as [R1 R2].
  destruct (Bool.eqb (r_iseq r1) (r_iseq r2)) eqn:Hq; simpl.
  2:{ intros H. inversion H; subst bc. split; intros; congruence. }
  apply eqb_prop in Hq.
  destruct (ctor_equiv (r_ctor r1) (r_ctor r2)) eqn:Hc; simpl.
  2:{ intros H. inversion H; subst bc. split; intros; congruence. }
  pose proof Hc as Hce.
  unfold ctor_equiv in Hc. apply andb_true_iff in Hc. destruct Hc as [Ht _]. apply Z.eqb_eq in Ht.
  destruct (existsb (fun p => pair_in p (anc s)) (anc_pairs exact p1 p2 c1 c2)) eqn:Hx.
  { intros H. inversion H; subst bc. split; [intros _|congruence].
    apply existsb_exists in Hx. destruct Hx as ([x y] & Hin & Hp). apply pair_in_In in Hp.
    apply (anc_pairs_prod p1 p2 c1 c2) in Hin;
      [|apply (eq_path_last_in _ _ _ W1 E1)|apply (eq_path_last_in _ _ _ W2 E2)].
    apply in_prod_iff in Hin. destruct Hin as [Hx Hy].
    destruct (eq_path_on_chain _ _ _ W1 E1 _ Hx) as [X1 _].
    destruct (eq_path_on_chain _ _ _ W2 E2 _ Hy) as [Y1 _].
    destruct (eq_path_spec _ _ _ W1 E1) as (q1 & G1 & _).
    destruct (eq_path_spec _ _ _ W2 E2) as (q2 & G2 & _).
    destruct (chain_exists _ _ _ W1 G1) as (e1 & k1 & C1).
    destruct (chain_exists _ _ _ W2 G2) as (e2 & k2 & C2).
    exists e1, e2, k1, k2. split; [auto|]. split; [auto|].
    right; right. exists x, y. auto. }
  intros H. inversion H; subst bc. split; [congruence|]. intros _ _.
  unfold unknown_facts. repeat (split; [assumption|]).
  intros p Hp Hin.
  assert (X : existsb (fun p0 => pair_in p0 (anc s)) (anc_pairs exact p1 p2 c1 c2) = true).
  { apply existsb_exists. exists p. split; auto. apply pair_in_In; auto. }
  congruence.
Qed.

(* ------------------------------------------------------------------ the stack *)
Lemma fold_left_rev_right {A B} (f : A -> B -> A) l a :
  fold_left f (rev l) a = fold_right (fun x acc => f acc x) a l.
Proof. rewrite <- (rev_involutive l) at 2. rewrite fold_left_rev_right. reflexivity. Qed.

Lemma extend_stack_eq i1 n U stk :
  extend_stack i1 n U stk =
  map (fun i => (S i1, i, i :: U)) (filter (fun i => negb (nat_in i U)) (seq 0 n)) ++ stk.
Proof.
  unfold extend_stack. rewrite fold_left_rev_right.
  induction (seq 0 n) as [|i l IH]; simpl; auto.
  rewrite IH. destruct (nat_in i U); simpl; auto.
Qed.

Lemma init_stack_eq n : init_stack n = map (fun i => (O, i, [i])) (seq 0 n).
Proof.
  unfold init_stack. rewrite fold_left_rev_right.
  induction (seq 0 n) as [|i l IH]; simpl; [reflexivity|rewrite IH; reflexivity].
Qed.

Definition prefix (a b : list nat) : Prop := exists r, b = a ++ r.

Lemma prefix_refl a : prefix a a.
Proof. exists []. rewrite app_nil_r. reflexivity. Qed.
Lemma prefix_trans a b c : prefix a b -> prefix b c -> prefix a c.
Proof. intros (r & ->) (q & ->). exists (r ++ q). rewrite app_assoc. reflexivity. Qed.
Lemma prefix_In a b x : prefix a b -> In x a -> In x b.
Proof. intros (r & ->) H. apply in_or_app; auto. Qed.
Lemma prefix_nth a b m x : prefix a b -> nth_error a m = Some x -> nth_error b m = Some x.
Proof.
  intros (r & ->) H. rewrite nth_error_app1; auto. apply nth_error_Some. congruence.
Qed.

Section Loop.
Variables (ne1 ne2 : list Z) (n : nat).
Hypothesis Hn1 : length ne1 = n.
Hypothesis Hn2 : length ne2 = n.
Variable A : list (Z * Z).       (* the ancestors during the loop *)

(* the ghost `js` of a stack element (i1, i2, U): the indices j_0 .. j_{i1-1} matched
   with 0 .. i1-1 on the way to this element *)
Definition elem_ok (M : order_map) (co : list Z) (e : elem) (js : list nat) : Prop :=
  let '(i1, i2, U) := e in
  length js = i1 /\ (i1 < n)%nat /\ (i2 < n)%nat /\ NoDup (i2 :: js) /\
  (forall j, In j js -> (j < n)%nat) /\
  (forall j, nat_in j U = true <-> In j (i2 :: js)) /\
  (forall m jm, nth_error js m = Some jm ->
     nth_error co jm = Some (Z.of_nat m) /\
     exists a b, nth_error ne1 m = Some a /\ nth_error ne2 jm = Some b /\ accept M A a b).

Inductive stack_ok (M : order_map) (co : list Z) : list elem -> list (list nat) -> Prop :=
| so_nil : stack_ok M co [] []
| so_cons e js stk gs :
    elem_ok M co e js -> (forall js', In js' gs -> prefix js' js) ->
    stack_ok M co stk gs -> stack_ok M co (e :: stk) (js :: gs).

Lemma elem_ok_mono M M' co e js :
  (forall a b, accept M A a b -> accept M' A a b) -> elem_ok M co e js -> elem_ok M' co e js.
Proof.
  intros H. destruct e as [[i1 i2] U]. simpl.
  intros (L & B1 & B2 & ND & Hlt & HU & Hm). repeat (split; [assumption|]).
  intros m jm Hj. destruct (Hm m jm Hj) as (Hc & a & b & Ha & Hb & Hacc).
  split; [auto|]. exists a, b. auto.
Qed.

Lemma stack_ok_mono M M' co stk gs :
  (forall a b, accept M A a b -> accept M' A a b) -> stack_ok M co stk gs -> stack_ok M' co stk gs.
Proof.
  intros H. induction 1; constructor; auto. eapply elem_ok_mono; eauto.
Qed.

(* writing child_order at an index that is on no path of the stack *)
Lemma elem_ok_set M co e js i v :
  ~ In i js -> elem_ok M co e js -> elem_ok M (set_nth co i v) e js.
Proof.
  intros Hni. destruct e as [[i1 i2] U]. simpl.
  intros (L & B1 & B2 & ND & Hlt & HU & Hm). repeat (split; [assumption|]).
  intros m jm Hj. destruct (Hm m jm Hj) as (Hc & R). split; [|exact R].
  rewrite nth_error_set_nth_other; auto.
  intros ->. apply Hni. eapply nth_error_In; eauto.
Qed.

Lemma stack_ok_set M co stk gs i v :
  (forall js, In js gs -> ~ In i js) -> stack_ok M co stk gs -> stack_ok M (set_nth co i v) stk gs.
Proof.
  intros H. induction 1; constructor; auto.
  - apply elem_ok_set; auto. apply H. left; auto.
  - apply IHstack_ok. intros js' Hin. apply H. right; auto.
Qed.

(* pigeonhole: an injective list of n indices below n contains them all *)
Lemma all_below_In (l : list nat) :
  NoDup l -> length l = n -> (forall j, In j l -> (j < n)%nat) -> forall j, (j < n)%nat -> In j l.
Proof.
  intros ND L B j Hj.
  assert (I : incl (seq 0 n) l).
  { apply NoDup_length_incl; auto.
    - rewrite seq_length. lia.
    - intros x Hx. apply in_seq. specialize (B x Hx). lia. }
  apply I. apply in_seq. lia.
Qed.

(* the final child_order is the inverse of the path: a permutation *)
Lemma final_perm (co : list Z) (sigma : list nat) :
  length co = n -> NoDup sigma -> length sigma = n -> (forall j, In j sigma -> (j < n)%nat) ->
  (forall m jm, nth_error sigma m = Some jm -> nth_error co jm = Some (Z.of_nat m)) ->
  is_perm co n /\
  (forall j i, nth_error co j = Some i -> exists m, i = Z.of_nat m /\ nth_error sigma m = Some j).
Proof.
  intros Lc ND Ls B H.
  assert (Inv1 : forall j i, nth_error co j = Some i -> exists m, i = Z.of_nat m /\ nth_error sigma m = Some j).
  { intros j i Hj.
    assert (Hjn : (j < n)%nat) by (rewrite <- Lc; apply nth_error_Some; congruence).
    destruct (In_nth_error _ _ (all_below_In sigma ND Ls B j Hjn)) as (m & Hm).
    exists m. split; auto. specialize (H _ _ Hm). congruence. }
  split; [|exact Inv1].
  split; [exact Lc|]. split.
  - apply NoDup_nth_error. intros i j Hi E.
    destruct (nth_error co i) as [x|] eqn:Ei; [|apply nth_error_Some in Hi; congruence].
    symmetry in E.
    destruct (Inv1 _ _ Ei) as (m & -> & Hm). destruct (Inv1 _ _ E) as (m' & Em & Hm').
    apply Nat2Z.inj in Em. subst m'. congruence.
  - intros x Hx. destruct (In_nth_error _ _ Hx) as (j & Hj).
    destruct (Inv1 _ _ Hj) as (m & -> & Hm).
    assert ((m < n)%nat) by (rewrite <- Ls; apply nth_error_Some; congruence). lia.
Qed.

Variable rec : st -> Z -> Z -> res (bool * st).
Hypothesis Hrec : forall s a b r s',
  Inv (om s) (anc s) -> rec s a b = Ok (r, s') -> post s a b r s'.

Lemma loop_post g : forall stack gs bl co s r s',
  anc s = A -> Inv (om s) A -> length co = n ->
  stack_ok (om s) co stack gs ->
  iso_loop rec g ne1 ne2 n stack bl co s = Ok (r, s') ->
  anc s' = A /\
  (exists new, om s' = new ++ om s /\ fresh new A) /\
  Inv (om s') A /\
  match r with
  | None => True
  | Some co' =>
      is_perm co' n /\
      forall j i a b, nth_error co' j = Some i -> nth_error ne1 (Z.to_nat i) = Some a ->
                      nth_error ne2 j = Some b -> accept (om s') A a b
  end.
Proof.
  induction g as [|g IH]; intros stack gs bl co s r s' HA HI Lco Hst; simpl; [discriminate|].
  destruct stack as [|[[i1 i2] U] stack'].
  { intros H. inversion H; subst. split; [auto|]. split; [exists []; split; [reflexivity|intros k v []]|]. auto. }
  inversion Hst as [|e js stk gs' He Hpre Hrest]; subst.
  destruct (npair_in (i1, i2) bl).
  { intros H. eapply IH; eauto. }
  destruct He as (Ljs & B1 & B2 & ND & Hlt & HU & Hm).
  destruct (nth_error ne1 i1) as [a|] eqn:Ea; [|discriminate].
  destruct (nth_error ne2 i2) as [b|] eqn:Eb; [|discriminate].
  destruct (rec s a b) as [[[|] s0]| |] eqn:Er; try discriminate.
  - (* the pair matched *)
    assert (HIs : Inv (om s) (anc s)) by (rewrite HA; auto).
    destruct (Hrec _ _ _ _ _ HIs Er) as (An & _ & Ht).
    destruct (Ht eq_refl) as ((new & Enew & Fnew) & HI0 & Hacc). rewrite HA in *.
    assert (Hmono : forall x y, accept (om s) A x y -> accept (om s0) A x y).
    { intros x y. rewrite Enew. apply accept_app. }
    set (co' := set_nth co i2 (Z.of_nat i1)).
    assert (Lco' : length co' = n) by (unfold co'; rewrite set_nth_length; auto).
    (* facts about the path extended by i2 *)
    assert (Hpath : forall m jm, nth_error (js ++ [i2]) m = Some jm ->
              nth_error co' jm = Some (Z.of_nat m) /\
              exists a' b', nth_error ne1 m = Some a' /\ nth_error ne2 jm = Some b' /\ accept (om s0) A a' b').
    { intros m jm Hj. destruct (Nat.lt_ge_cases m (length js)) as [Hlt'|Hge].
      - rewrite nth_error_app1 in Hj by auto.
        destruct (Hm _ _ Hj) as (Hc & a' & b' & Ha' & Hb' & Hacc').
        split.
        + unfold co'. rewrite nth_error_set_nth_other; auto.
          intros <-. inversion ND; subst. apply H1. eapply nth_error_In; eauto.
        + exists a', b'. auto.
      - rewrite nth_error_app2 in Hj by auto.
        destruct (m - length js)%nat eqn:D; simpl in Hj; [|destruct n0; discriminate].
        inversion Hj; subst jm. assert (m = i1) by lia. subst m.
        split.
        + unfold co'. apply nth_error_set_nth_same. lia.
        + exists a, b. auto. }
    change (match n with O => false | S m' => Nat.eqb i1 m' end) with (Nat.eqb (S i1) n).
    assert (NDs : NoDup (js ++ [i2])).
    { eapply Permutation_NoDup; [apply Permutation_cons_append|exact ND]. }
    assert (Bs : forall j, In j (js ++ [i2]) -> (j < n)%nat).
    { intros j Hj. apply in_app_or in Hj. destruct Hj as [Hj|[<-|[]]]; auto. }
    assert (Ni2 : ~ In i2 js) by (inversion ND; auto).
    destruct (Nat.eqb (S i1) n) eqn:Efin.
    + (* the last index: success *)
      apply Nat.eqb_eq in Efin.
      intros H. inversion H; subst r s'. clear H.
      split; [auto|]. split; [exists new; auto|]. split; [auto|].
      assert (Ls : length (js ++ [i2]) = n) by (rewrite app_length; simpl; lia).
      destruct (final_perm co' (js ++ [i2]) Lco' NDs Ls Bs) as (Pm & Pinv).
      { intros m jm Hj. apply Hpath; auto. }
      split; [exact Pm|].
      intros j i a0 b0 Hj Ha0 Hb0.
      destruct (Pinv _ _ Hj) as (m & -> & Hmj).
      destruct (Hpath _ _ Hmj) as (_ & a' & b' & Ha' & Hb' & Hacc').
      rewrite Nat2Z.id in Ha0. congruence.
    + (* more indices to match: extend the stack *)
      apply Nat.eqb_neq in Efin.
      intros H.
      assert (Hrest' : stack_ok (om s0) co' stack' gs').
      { apply stack_ok_set.
        - intros js' Hin Hi. apply Ni2. eapply prefix_In; eauto.
        - eapply stack_ok_mono; eauto. }
      rewrite extend_stack_eq in H.
      set (L := filter (fun i => negb (nat_in i U)) (seq 0 n)) in *.
      assert (HL : forall i, In i L -> (i < n)%nat /\ nat_in i U = false).
      { intros i Hi. apply filter_In in Hi. destruct Hi as [Hi Hu]. apply in_seq in Hi.
        apply negb_true_iff in Hu. split; [lia|auto]. }
      assert (Hnew : stack_ok (om s0) co'
                       (map (fun i => (S i1, i, i :: U)) L ++ stack')
                       (map (fun _ => js ++ [i2]) L ++ gs')).
      { clear H. induction L as [|i L IHL]; simpl; [exact Hrest'|].
        constructor.
        - destruct (HL i (or_introl eq_refl)) as [Hi Hu].
          assert (Niu : ~ In i (i2 :: js)).
          { intros X. apply HU in X. congruence. }
          simpl. split; [rewrite app_length; simpl; lia|]. split; [lia|]. split; [auto|].
          split.
          { constructor; auto. intros X. apply Niu. apply in_app_or in X.
            destruct X as [X|[<-|[]]]; [right; auto|left; auto]. }
          split; [exact Bs|]. split.
          { intros j. rewrite orb_true_iff, Nat.eqb_eq, HU. split.
            - intros [->|[<-|X]]; [left; auto|right; apply in_or_app; right; left; auto|
                                   right; apply in_or_app; left; auto].
            - intros [<-|X]; [left; auto|]. apply in_app_or in X.
              destruct X as [X|[<-|[]]]; [right; right; auto|right; left; auto]. }
          exact Hpath.
        - intros js' Hin. apply in_app_or in Hin. destruct Hin as [Hin|Hin].
          + apply in_map_iff in Hin. destruct Hin as (x & <- & _). apply prefix_refl.
          + eapply prefix_trans; [apply Hpre; auto|]. exists [i2]. reflexivity.
        - apply IHL. intros x Hx. apply HL. right; auto. }
      destruct (IH _ _ _ _ _ _ _ An HI0 Lco' Hnew H) as (An' & (new' & En' & Fn') & HI' & Hr).
      split; [auto|]. split.
      { exists (new' ++ new). rewrite En', Enew, app_assoc. split; [reflexivity|].
        intros k v Hin. apply in_app_or in Hin. destruct Hin; [eapply Fn'|eapply Fnew]; eauto. }
      split; auto.
  - (* the pair did not match *)
    assert (HIs : Inv (om s) (anc s)) by (rewrite HA; auto).
    destruct (Hrec _ _ _ _ _ HIs Er) as (An & Hf & _).
    specialize (Hf eq_refl). rewrite HA in An.
    intros H.
    assert (Hrest' : stack_ok (om s0) co stack' gs') by (rewrite Hf; auto).
    assert (HI0 : Inv (om s0) A) by (rewrite Hf; auto).
    destruct (IH _ _ _ _ _ _ _ An HI0 Lco Hrest' H) as (An' & (new' & En' & Fn') & HI' & Hr).
    rewrite Hf in En'.
    split; [auto|]. split; [exists new'; auto|]. split; auto.
Qed.
End Loop.

(* ------------------------------------------------------------------ the recursive call *)
Lemma Inv_weaken M A A' : (forall p, In p A -> In p A') -> Inv M A -> Inv M A'.
Proof.
  intros H HI c1 c2 perm Hin. eapply entry_ok_map; [|apply HI; eauto].
  intros a b. apply accept_mono; auto.
Qed.

Lemma ne_children_eq s r d : r_children r = [d] -> is_empty s d = false -> ne_children s r = [d].
Proof. intros Hc He. unfold ne_children. rewrite Hc. simpl. rewrite He. reflexivity. Qed.

Lemma iso_post : forall f s n1 n2 r s',
  Inv (om s) (anc s) -> iso exact s1 s2 f s n1 n2 = Ok (r, s') -> post s n1 n2 r s'.
Proof.
  induction f as [|f IH]; intros s n1 n2 r s' HI; [discriminate|].
  cbn [iso].
  destruct (eq_path s1 n1) as [p1| |] eqn:E1; cbn [bind]; try discriminate.
  destruct (eq_path s2 n2) as [p2| |] eqn:E2; cbn [bind]; try discriminate.
  set (c1 := last p1 n1). set (c2 := last p2 n2).
  destruct (find_rule s1 c1) as [r1|] eqn:F1; [|discriminate].
  destruct (find_rule s2 c2) as [r2|] eqn:F2; [|discriminate].
  destruct (base_cases exact s p1 p2 c1 c2 r1 r2 (ne_children s1 r1) (ne_children s2 r2)) as [bc| |] eqn:Eb;
    cbn [bind]; try discriminate.
  destruct (base_cases_spec s n1 n2 p1 p2 r1 r2 bc HI E1 E2 F1 F2 Eb) as [Hv Hu].
  destruct (Z.eqb bc 1) eqn:B1.
  { apply Z.eqb_eq in B1. intros H; inversion H; subst r s'.
    split; [reflexivity|]. split; [discriminate|]. intros _.
    split; [exists []; split; [reflexivity|intros k v []]|]. split; auto. }
  destruct (Z.eqb bc (-1)) eqn:B2.
  { intros H; inversion H; subst r s'. split; [reflexivity|]. split; [reflexivity|discriminate]. }
  apply Z.eqb_neq in B1. apply Z.eqb_neq in B2.
  destruct (Hu B1 B2) as (Hm & Hl & R1 & R2 & Hq & Ht & Hce & Hanc). clear Hv Hu.
  set (pr := anc_pairs exact p1 p2 c1 c2) in *.
  set (n := length (ne_children s1 r1)).
  set (sA := mkSt (set_add_all (anc s) pr) (om s) (failed s)).
  assert (Hc12 : In (c1, c2) pr).
  { apply anc_pairs_self; [apply (eq_path_last_in _ _ _ W1 E1)|apply (eq_path_last_in _ _ _ W2 E2)]. }
  assert (PS : forall q, In q pr -> In q (list_prod p1 p2)).
  { intros q. apply anc_pairs_prod; [apply (eq_path_last_in _ _ _ W1 E1)|apply (eq_path_last_in _ _ _ W2 E2)]. }
  assert (P1 : forall x, In x p1 -> on_chain s1 c1 x).
  { intros x Hx. apply (eq_path_on_chain _ _ _ W1 E1 _ Hx). }
  assert (P2 : forall y, In y p2 -> on_chain s2 c2 y).
  { intros y Hy. apply (eq_path_on_chain _ _ _ W2 E2 _ Hy). }
  assert (OC1 : on_chain s1 c1 n1).
  { apply (eq_path_on_chain _ _ _ W1 E1 c1). apply (eq_path_last_in _ _ _ W1 E1). }
  assert (OC2 : on_chain s2 c2 n2).
  { apply (eq_path_on_chain _ _ _ W2 E2 c2). apply (eq_path_last_in _ _ _ W2 E2). }
  assert (Hsub : forall p, In p (anc s) -> In p (anc sA)).
  { intros p Hp. simpl. apply set_add_all_In. auto. }
  assert (HIA : Inv (om sA) (anc sA)) by (simpl; eapply Inv_weaken; [|exact HI]; exact Hsub).
  destruct (iso_loop (iso exact s1 s2 f) (S f) (ne_children s1 r1) (ne_children s2 r2) n
                     (init_stack n) [] (repeat (-1) n) sA) as [[ro s0]| |] eqn:El;
    cbn [bind]; try discriminate.
  assert (Hst : stack_ok (ne_children s1 r1) (ne_children s2 r2) n (anc sA) (om sA) (repeat (-1) n)
                         (init_stack n) (map (fun _ => []) (seq 0 n))).
  { rewrite init_stack_eq.
    assert (G : forall l, (forall i, In i l -> (i < n)%nat) ->
              stack_ok (ne_children s1 r1) (ne_children s2 r2) n (anc sA) (om sA) (repeat (-1) n)
                       (map (fun i => (O, i, [i])) l) (map (fun _ => []) l)).
    { induction l as [|i l IHl]; intros Hl'; simpl; constructor.
      - simpl. assert (Hi : (i < n)%nat) by (apply Hl'; left; auto).
        split; [reflexivity|]. split; [lia|]. split; [auto|]. split; [repeat constructor; intros []|].
        split; [intros j []|]. split.
        + intros j. simpl. rewrite orb_false_r, Nat.eqb_eq. split; [intros ->; left; auto|intros [<-|[]]; auto].
        + intros m jm Hj. destruct m; discriminate.
      - intros js' Hin. apply in_map_iff in Hin. destruct Hin as (x & <- & _). apply prefix_refl.
      - apply IHl. intros x Hx. apply Hl'. right; auto. }
    apply G. intros i Hi. apply in_seq in Hi. lia. }
  destruct (loop_post (ne_children s1 r1) (ne_children s2 r2) n eq_refl (eq_sym Hl) (anc sA) (iso exact s1 s2 f) IH
                      (S f) _ _ _ _ _ _ _ eq_refl HIA (repeat_length _ _) Hst El)
    as (An & (new & Enew & Fnew) & HI0 & Hr).
  simpl in Enew.
  assert (Hrem : set_remove_all (anc s0) pr = anc s).
  { rewrite An. simpl. apply set_remove_add. intros p Hp. apply pair_in_false. apply Hanc; auto. }
  destruct ro as [co|].
  2:{ (* the stack ran out: every entry added since is forgotten *)
      intros H; inversion H; subst r s'. simpl.
      split; [exact Hrem|]. split; [|discriminate]. intros _.
      rewrite Enew. apply om_pop_to_app. }
  intros H; inversion H; subst r s'. clear H. simpl.
  destruct Hr as (Pm & Hkids).
  assert (Hnk : om_has (om s0) (c1, c2) = false).
  { rewrite Enew. apply om_has_app_false; auto.
    intros v Hv. apply (Fnew _ _ Hv). simpl. apply set_add_all_In. right; auto. }
  rewrite (om_set_fresh _ _ _ Hnk).
  set (M' := ((c1, c2), co) :: om s0).
  assert (HM : forall e1 e2, Kne (om s0) e1 e2 -> Kne M' e1 e2).
  { intros e1 e2. apply (Kne_app [((c1, c2), co)]). }
  assert (Hnpos : (0 < n)%nat).
  { destruct n eqn:En; [|lia]. exfalso. cbn in El. inversion El. }
  (* the pair itself is justified by the new entry *)
  assert (J0 : accept M' (anc s) c1 c2).
  { destruct (r_iseq r1) eqn:Q1.
    - (* two equivalence rules: the justification of the children is passed up *)
      assert (Q2 : r_iseq r2 = true) by congruence.
      destruct (W1 c1 r1 F1 Q1) as (d1 & C1 & Ne1 & _ & _).
      destruct (W2 c2 r2 F2 Q2) as (d2 & C2 & Ne2 & _ & _).
      pose proof (ne_children_eq s1 r1 d1 C1 Ne1) as N1.
      pose proof (ne_children_eq s2 r2 d2 C2 Ne2) as N2.
      assert (n = 1%nat) by (unfold n; rewrite N1; reflexivity).
      destruct Pm as (Lco & NDco & Rco).
      destruct co as [|i0 [|? ?]]; simpl in Lco; try lia.
      assert (i0 = 0) by (specialize (Rco i0 (or_introl eq_refl)); lia). subst i0.
      assert (Hd : accept (om s0) (anc sA) d1 d2).
      { apply (Hkids O 0 d1 d2); [reflexivity|rewrite N1; reflexivity|rewrite N2; reflexivity]. }
      destruct Hd as (e1 & e2 & k1 & k2 & Ch1 & Ch2 & J).
      exists e1, e2, (S k1), (S k2).
      split; [econstructor; eauto|]. split; [econstructor; eauto|].
      destruct J as [J|[J|(x & y & Hin & O1 & O2)]]; [left; auto|right; left; auto|].
      simpl in Hin. apply set_add_all_In in Hin. destruct Hin as [Hin|Hin].
      + right; right. exists x, y. split; [auto|].
        split; econstructor; eauto.
      + exfalso. apply PS in Hin. apply in_prod_iff in Hin. destruct Hin as [Hx _].
        eapply (no_cycle s1 c1 r1 d1 x); eauto.
    - assert (Q2 : r_iseq r2 = false) by congruence.
      exists c1, c2, O, O. split; [econstructor; eauto|]. split; [econstructor; eauto|].
      left. split; [apply (In_om_has M' (c1, c2) co); left; reflexivity|].
      split; [exists r1; auto|exists r2; auto]. }
  assert (Hdis : forall a b, accept (om s0) (anc sA) a b -> accept M' (anc s) a b).
  { intros a b. simpl. apply (discharge (anc s) p1 p2 c1 c2 (om s0) M' pr PS P1 P2 HM J0). }
  split; [exact Hrem|]. split; [discriminate|]. intros _. split; [|split].
  - exists (((c1, c2), co) :: new). simpl. unfold M'. rewrite Enew. split; [reflexivity|].
    intros k v [Hk|Hk].
    + inversion Hk; subst. apply Hanc; auto.
    + intros X. apply (Fnew _ _ Hk). apply Hsub; auto.
  - intros a1 a2 perm [Hin|Hin].
    + inversion Hin; subst a1 a2 perm.
      exists r1, r2. repeat (split; [assumption|]). split; [intros _; exact J0|].
      intros Q1. split.
      { intros X. unfold n, ne_children in Hnpos. rewrite X in Hnpos. simpl in Hnpos. lia. }
      split.
      { intros X. fold n in Hl. rewrite Hl in Hnpos. unfold ne_children in Hnpos. rewrite X in Hnpos.
        simpl in Hnpos. lia. }
      split; [rewrite <- Hl; exact Pm|].
      intros j i a b Hj Ha Hb. apply Hdis. eapply Hkids; eauto.
    + eapply entry_ok_map; [exact Hdis|]. apply HI0; auto.
  - eapply accept_lift; eauto.
Qed.

(* the invariant and the acceptance of the roots at the end of a successful search *)
Theorem iso_sound_inv : forall fuel s,
  are_isomorphic exact s1 s2 fuel = Ok (true, s) ->
  Inv (om s) [] /\ accept (om s) [] (s_root s1) (s_root s2).
Proof.
  intros fuel s H. unfold are_isomorphic in H.
  assert (HI : Inv (om st0) (anc st0)) by (intros ? ? ? []).
  destruct (iso_post _ _ _ _ _ _ HI H) as (_ & _ & Ht).
  destruct (Ht eq_refl) as (_ & HInv & Hacc). simpl in *. auto.
Qed.

(* the search started on the roots with nothing assumed *)
Theorem iso_sound : forall fuel s,
  are_isomorphic exact s1 s2 fuel = Ok (true, s) -> valid_cert s1 s2 (om s).
Proof.
  intros fuel s H. unfold are_isomorphic in H.
  assert (HI : Inv (om st0) (anc st0)) by (intros ? ? ? []).
  destruct (iso_post _ _ _ _ _ _ HI H) as (_ & _ & Ht).
  destruct (Ht eq_refl) as (_ & HInv & Hacc). simpl in *.
  exists (fun p => Kne (om s) (fst p) (snd p) \/ leaf_pair s1 s2 (fst p) (snd p)).
  assert (Hconv : forall a b, accept (om s) [] a b ->
            ends_in s1 s2 (fun p => Kne (om s) (fst p) (snd p) \/ leaf_pair s1 s2 (fst p) (snd p)) a b).
  { intros a b (e1 & e2 & k1 & k2 & C1 & C2 & J). exists e1, e2, k1, k2.
    split; [auto|]. split; [auto|]. simpl.
    destruct J as [J|[J|(x & y & [] & _)]]; auto. }
  split; [|apply Hconv; exact Hacc].
  intros e1 e2 [HK|HL]; simpl in *; [|left; exact HL].
  right. destruct HK as (Hhas & (q1 & G1 & Q1) & (q2 & G2 & Q2)).
  unfold om_has in Hhas. destruct (om_lookup (om s) (e1, e2)) as [perm|] eqn:Elk; [|discriminate].
  destruct (HInv _ _ _ (om_lookup_In _ _ _ Elk)) as (r1 & r2 & F1 & F2 & I1 & I2 & E & T & Tc & Ln & Pos & _ & Hne).
  rewrite G1 in F1. inversion F1; subst r1. rewrite G2 in F2. inversion F2; subst r2.
  destruct (Hne Q1) as (N1 & N2 & P & Hc).
  exists q1, q2, perm. repeat (split; [assumption|]).
  intros j i a b Hj Ha Hb. apply Hconv. eapply Hc; eauto.
Qed.
End Search.
