(* Reflexivity of the isomorphism test on a specification whose childless (verified)
   classes are all atoms: Isomorphism.check(s, s) never answers False.  The search on
   (s, s) only ever compares a class with itself: the identity pairing of the children is
   the first one tried and it succeeds, so nothing is ever recorded as failed. *)
From Coq Require Import ZArith List Bool Lia.
From CSS Require Import Base.PyList Iso.Model Iso.SearchBasics Iso.Search.
Import ListNotations.
Open Scope Z_scope.

(* ------------------------------------------------------------------ Constructor.equiv is reflexive *)
Lemma list_eqb_refl {A} (eqb : A -> A -> bool) (H : forall x, eqb x x = true) l : list_eqb eqb l l = true.
Proof. induction l; simpl; auto. rewrite H, IHl. reflexivity. Qed.

Lemma params_match_single_refl p : params_match_single p p = true.
Proof.
  unfold params_match_single. rewrite Nat.eqb_refl. simpl.
  apply list_eqb_refl. apply Nat.eqb_refl.
Qed.

Lemma nat_in_rev_seq k : nat_in k (rev (seq 0 k)) = false.
Proof.
  destruct (nat_in k (rev (seq 0 k))) eqn:E; auto.
  apply nat_in_In in E. apply in_rev in E. apply in_seq in E. lia.
Qed.

Lemma params_backtracking_refl n ps : forall m k,
  (k + m = n)%nat -> (0 < m)%nat ->
  params_backtracking m n ps ps k (rev (seq 0 k)) = true.
Proof.
  induction m as [|m IH]; intros k Hk Hm; [lia|].
  cbn [params_backtracking]. apply existsb_exists. exists k. split; [apply in_seq; lia|].
  rewrite nat_in_rev_seq, params_match_single_refl. cbn [negb andb].
  destruct (Nat.eqb (S k) n) eqn:E; [reflexivity|].
  apply Nat.eqb_neq in E. cbn [orb].
  replace (k :: rev (seq 0 k)) with (rev (seq 0 (S k))) by (rewrite seq_S, rev_app_distr; reflexivity).
  apply IH; lia.
Qed.

Lemma extra_params_equiv_refl ps : extra_params_equiv ps ps = true.
Proof.
  unfold extra_params_equiv. rewrite Nat.eqb_refl. cbn [negb].
  set (ne := filter (fun p => negb (isnil p)) ps).
  destruct (Nat.eqb (length ne) 0) eqn:E; [reflexivity|].
  apply Nat.eqb_neq in E. apply (params_backtracking_refl (length ne) ne (length ne) O); lia.
Qed.

Lemma ctor_equiv_refl c : ctor_equiv c c = true.
Proof. unfold ctor_equiv. rewrite Z.eqb_refl, extra_params_equiv_refl. reflexivity. Qed.

Lemma akey_eqb_refl a : akey_eqb a a = true.
Proof. apply list_eqb_refl. intros x. apply list_eqb_refl. apply Z.eqb_refl. Qed.

(* ------------------------------------------------------------------ the loop on identical children *)
Lemma filter_not_in_prefix n k : (S k <= n)%nat ->
  filter (fun i => negb (nat_in i (rev (seq 0 (S k))))) (seq 0 n) = seq (S k) (n - S k).
Proof.
  intros H.
  assert (HU : forall x, nat_in x (rev (seq 0 (S k))) = true <-> (x < S k)%nat).
  { intros x. rewrite nat_in_In, <- in_rev, in_seq. lia. }
  set (U := rev (seq 0 (S k))) in *. clearbody U.
  replace n with (S k + (n - S k))%nat at 1 by lia.
  rewrite seq_app, filter_app. rewrite Nat.add_0_l.
  assert (E1 : forall l, (forall x, In x l -> (x < S k)%nat) ->
                 filter (fun i => negb (nat_in i U)) l = []).
  { induction l as [|x l IHl]; intros Hl; cbn [filter]; auto.
    assert (nat_in x U = true) as -> by (apply HU, Hl; left; auto).
    cbn [negb]. apply IHl. intros y Hy. apply Hl. right; auto. }
  assert (E2 : forall l, (forall x, In x l -> (S k <= x)%nat) ->
                 filter (fun i => negb (nat_in i U)) l = l).
  { induction l as [|x l IHl]; intros Hl; cbn [filter]; auto.
    assert (nat_in x U = false) as ->.
    { destruct (nat_in x U) eqn:E; auto. apply HU in E.
      specialize (Hl x (or_introl eq_refl)). lia. }
    cbn [negb]. f_equal. apply IHl. intros y Hy. apply Hl. right; auto. }
  rewrite E1, E2; [reflexivity| |].
  - intros x Hx. apply in_seq in Hx. lia.
  - intros x Hx. apply in_seq in Hx. lia.
Qed.

Section ReflLoop.
Variables (ne : list Z) (n : nat).
Hypothesis Hn : length ne = n.
Variable rec : st -> Z -> Z -> res (bool * st).
Hypothesis Hrec : forall s a b s', failed s = [] -> rec s a a = Ok (b, s') -> b = true /\ failed s' = [].

Lemma refl_loop g : forall k stack' co s r s',
  (k < n)%nat -> failed s = [] ->
  iso_loop rec g ne ne n ((k, k, rev (seq 0 (S k))) :: stack') [] co s = Ok (r, s') ->
  r <> None /\ failed s' = [].
Proof.
  induction g as [|g IH]; intros k stack' co s r s' Hk Hf; [discriminate|].
  remember (rev (seq 0 (S k))) as U eqn:EU.
  cbn [iso_loop]. cbn [npair_in existsb].
  destruct (nth_error ne k) as [a|] eqn:Ea; [|discriminate].
  destruct (rec s a a) as [[b s0]| |] eqn:Er; try discriminate.
  destruct (Hrec _ _ _ _ Hf Er) as [-> Hf0].
  destruct (Nat.eqb (S k) n) eqn:E.
  - intros H. inversion H; subst. split; [discriminate|auto].
  - apply Nat.eqb_neq in E. rewrite extend_stack_eq. subst U.
    rewrite filter_not_in_prefix by lia.
    destruct (n - S k)%nat eqn:D; [lia|].
    change (seq (S k) (S n0)) with (S k :: seq (S (S k)) n0). cbn [map app].
    replace (S k :: rev (seq 0 (S k))) with (rev (seq 0 (S (S k))))
      by (rewrite (seq_S (S k)), rev_app_distr; reflexivity).
    intros H. eapply IH; [| |exact H]; auto. lia.
Qed.
End ReflLoop.

(* ------------------------------------------------------------------ the search on (s, s) *)
Section Refl.
Variable exact : bool.
Variable s : spec.
(* every class whose rule has no children (verified classes) is an atom *)
Hypothesis Hatoms : forall c r, find_rule s c = Some r -> r_children r = [] -> r_atom r = true.
(* a class with a decomposition rule is not empty: some child is not empty *)
Hypothesis Hne : forall c r, find_rule s c = Some r -> r_children r <> [] -> ne_children s r <> [].

Lemma base_cases_diag st p c r ne :
  failed st = [] -> find_rule s c = Some r ->
  base_cases exact st p p c c r r ne ne = Ok 1 \/
  (base_cases exact st p p c c r r ne ne = Ok 0 /\ r_children r <> []) \/
  base_cases exact st p p c c r r ne ne = Raise 5.
Proof.
  intros Hf F. unfold base_cases.
  destruct (om_has (om st) (c, c)); [left; reflexivity|].
  rewrite Hf. cbn [pair_in existsb].
  rewrite Nat.eqb_refl. cbn [negb].
  destruct (isnil (r_children r)) eqn:Nil; cbn [andb].
  { rewrite (Hatoms c r F) by (destruct (r_children r); simpl in Nil; congruence).
    rewrite akey_eqb_refl. left; reflexivity. }
  destruct (r_isrule r); cbn [andb negb]; [|right; right; reflexivity].
  rewrite eqb_reflx. cbn [negb]. rewrite ctor_equiv_refl. cbn [negb].
  destruct (existsb (fun q => pair_in q (anc st)) (anc_pairs exact p p c c)); [left; reflexivity|].
  right; left. split; [reflexivity|]. intros X. rewrite X in Nil. discriminate.
Qed.

Lemma refl_iso : forall f st n b st',
  failed st = [] -> iso exact s s f st n n = Ok (b, st') -> b = true /\ failed st' = [].
Proof.
  induction f as [|f IH]; intros st n b st' Hf; [discriminate|].
  cbn [iso].
  destruct (eq_path s n) as [p| |] eqn:E; cbn [bind]; try discriminate.
  set (c := last p n).
  destruct (find_rule s c) as [r|] eqn:F; [|discriminate].
  destruct (base_cases_diag st p c r (ne_children s r) Hf F) as [Hb|[[Hb Hch]|Hb]]; rewrite Hb; cbn [bind].
  - change (Z.eqb 1 1) with true. cbv iota. intros H; inversion H; subst; auto.
  - change (Z.eqb 0 1) with false. change (Z.eqb 0 (-1)) with false. cbv iota.
    set (nn := length (ne_children s r)).
    set (sA := mkSt (set_add_all (anc st) (anc_pairs exact p p c c)) (om st) (failed st)).
    destruct (iso_loop (iso exact s s f) (S f) (ne_children s r) (ne_children s r) nn (init_stack nn) []
                       (repeat (-1) nn) sA) as [[ro s0]| |] eqn:El; cbn [bind]; try discriminate.
    destruct nn as [|m] eqn:En.
    + exfalso. apply (Hne c r F Hch). apply length_zero_iff_nil. exact En.
    + rewrite init_stack_eq in El. change (seq 0 (S m)) with (0%nat :: seq 1 m) in El. cbn [map] in El.
      assert (X : ro <> None /\ failed s0 = []).
      { eapply (refl_loop (ne_children s r) (S m) En (iso exact s s f) IH (S f) O); [lia| |exact El].
        exact Hf. }
      destruct X as [Hro Hf0]. destruct ro as [co|]; [|congruence].
      intros H; inversion H; subst. auto.
  - discriminate.
Qed.

(* Isomorphism.check(s, s) never answers False *)
Theorem refl_never_false : forall fuel st', are_isomorphic exact s s fuel <> Ok (false, st').
Proof.
  intros fuel st' H. unfold are_isomorphic in H.
  assert (F0 : failed st0 = []) by reflexivity.
  destruct (refl_iso _ _ _ _ _ F0 H). discriminate.
Qed.
End Refl.
