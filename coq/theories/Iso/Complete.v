(* Completeness of the isomorphism search with respect to its own local test.

   A relation R between classes of the two specifications is a SIMULATION when every
   related pair passes the test the search applies to a pair (one equivalence step skipped
   on each side, same number of non-empty children, matching atoms or equivalent
   constructors and the same "is an equivalence" flag) and the non-empty children can be
   paired by a bijection into related pairs.  If the roots are related by a simulation the
   search never answers False: the failure memo never holds a related pair, a related pair
   is never blacklisted, and the backtracking loop cannot run out of stack elements while
   the element continuing the pairing of the simulation is still on the stack. *)
From Coq Require Import ZArith List Bool Lia.
From CSS Require Import Base.PyList Iso.Model Iso.SearchBasics Iso.Search.
Import ListNotations.
Open Scope Z_scope.

Section Complete.
Variable exact : bool.
Variables s1 s2 : spec.
Variable R : Z -> Z -> Prop.

(* the test of _base_cases on the pair of current classes, and a pairing of the children *)
Definition sim_ok (a b : Z) : Prop :=
  exists p1 p2 r1 r2,
    eq_path s1 a = Ok p1 /\ eq_path s2 b = Ok p2 /\
    find_rule s1 (last p1 a) = Some r1 /\ find_rule s2 (last p2 b) = Some r2 /\
    length (ne_children s1 r1) = length (ne_children s2 r2) /\
    ((r_children r1 = [] /\ r_children r2 = [] /\
      r_atom r1 = true /\ r_atom r2 = true /\ akey_eqb (r_akey r1) (r_akey r2) = true)
     \/
     (~ (r_children r1 = [] /\ r_children r2 = []) /\
      r_iseq r1 = r_iseq r2 /\ ctor_equiv (r_ctor r1) (r_ctor r2) = true /\
      (0 < length (ne_children s1 r1))%nat /\
      exists sigma : list nat,      (* sigma[i1] = i2 *)
        length sigma = length (ne_children s1 r1) /\ NoDup sigma /\
        (forall j, In j sigma -> (j < length (ne_children s2 r2))%nat) /\
        forall i1 i2 x y, nth_error sigma i1 = Some i2 ->
          nth_error (ne_children s1 r1) i1 = Some x -> nth_error (ne_children s2 r2) i2 = Some y ->
          R x y)).

Hypothesis Hsim : forall a b, R a b -> sim_ok a b.

(* no related pair has its current classes recorded as failed *)
Definition Finv (s : st) : Prop :=
  forall c1 c2, In (c1, c2) (failed s) ->
    forall a b p1 p2, R a b -> eq_path s1 a = Ok p1 -> eq_path s2 b = Ok p2 ->
      last p1 a = c1 -> last p2 b = c2 -> False.

(* ------------------------------------------------------------------ the loop *)
Section Loop.
Variables (ne1 ne2 : list Z) (n : nat).
Hypothesis Hn1 : length ne1 = n.
Hypothesis Hn2 : length ne2 = n.
Variable rec : st -> Z -> Z -> res (bool * st).
Hypothesis Hrec : forall s x y r s', Finv s -> rec s x y = Ok (r, s') -> Finv s' /\ (R x y -> r = true).

Lemma loop_finv g : forall stack bl co s r s',
  Finv s -> iso_loop rec g ne1 ne2 n stack bl co s = Ok (r, s') -> Finv s'.
Proof.
  induction g as [|g IH]; intros stack bl co s r s' HF; [discriminate|].
  cbn [iso_loop]. destruct stack as [|[[i1 i2] U] stack'].
  { intros H; inversion H; subst; auto. }
  destruct (npair_in (i1, i2) bl); [apply IH; auto|].
  destruct (nth_error ne1 i1) as [x|]; [|discriminate].
  destruct (nth_error ne2 i2) as [y|]; [|discriminate].
  destruct (rec s x y) as [[[|] s0]| |] eqn:Er; try discriminate.
  - destruct (Hrec _ _ _ _ _ HF Er) as [HF0 _].
    destruct (Nat.eqb (S i1) n).
    + intros H; inversion H; subst; auto.
    + apply IH; auto.
  - destruct (Hrec _ _ _ _ _ HF Er) as [HF0 _]. apply IH; auto.
Qed.

(* the pairing of the simulation *)
Variable sigma : list nat.
Hypothesis Hs_len : length sigma = n.
Hypothesis Hs_nd : NoDup sigma.
Hypothesis Hs_lt : forall j, In j sigma -> (j < n)%nat.
Hypothesis Hs_R : forall i1 i2 x y, nth_error sigma i1 = Some i2 ->
  nth_error ne1 i1 = Some x -> nth_error ne2 i2 = Some y -> R x y.

Definition good_elem (e : elem) : Prop :=
  let '(l, i2, U) := e in
  nth_error sigma l = Some i2 /\
  forall j, nat_in j U = true <-> exists m, (m <= l)%nat /\ nth_error sigma m = Some j.

Definition bl_ok (bl : list (nat * nat)) : Prop :=
  forall i1 i2 x y, In (i1, i2) bl -> nth_error ne1 i1 = Some x -> nth_error ne2 i2 = Some y -> ~ R x y.

Lemma npair_in_In p l : npair_in p l = true -> In p l.
Proof.
  unfold npair_in. rewrite existsb_exists. intros (q & Hq & E).
  destruct p as [a b], q as [c d]. unfold npair_eqb in E. simpl in E.
  apply andb_true_iff in E. destruct E as [E1 E2].
  apply Nat.eqb_eq in E1. apply Nat.eqb_eq in E2. subst. auto.
Qed.

Lemma loop_complete g : forall stack bl co s r s',
  Finv s -> bl_ok bl -> (exists e, In e stack /\ good_elem e) ->
  iso_loop rec g ne1 ne2 n stack bl co s = Ok (r, s') -> r <> None.
Proof.
  induction g as [|g IH]; intros stack bl co s r s' HF Hbl (e & Hin & Hg); [discriminate|].
  cbn [iso_loop]. destruct stack as [|[[i1 i2] U] stack']; [destruct Hin|].
  destruct Hin as [<-|Hin].
  - (* the good element is on top *)
    destruct Hg as [Hsig HU].
    assert (Hl : (i1 < n)%nat) by (rewrite <- Hs_len; apply nth_error_Some; congruence).
    assert (Hi2 : (i2 < n)%nat) by (apply Hs_lt; eapply nth_error_In; eauto).
    destruct (nth_error ne1 i1) as [x|] eqn:Ex; [|apply nth_error_None in Ex; lia].
    destruct (nth_error ne2 i2) as [y|] eqn:Ey; [|apply nth_error_None in Ey; lia].
    assert (HR : R x y) by (eapply Hs_R; eauto).
    destruct (npair_in (i1, i2) bl) eqn:Ebl.
    { exfalso. apply npair_in_In in Ebl. eapply Hbl; eauto. }
    destruct (rec s x y) as [[[|] s0]| |] eqn:Er; try discriminate.
    2:{ destruct (Hrec _ _ _ _ _ HF Er) as [_ Ht]. specialize (Ht HR). discriminate. }
    destruct (Hrec _ _ _ _ _ HF Er) as [HF0 _].
    destruct (Nat.eqb (S i1) n) eqn:Efin.
    + intros H; inversion H; subst. discriminate.
    + apply Nat.eqb_neq in Efin.
      destruct (nth_error sigma (S i1)) as [i'|] eqn:En; [|apply nth_error_None in En; lia].
      apply IH; auto.
      exists (S i1, i', i' :: U). split.
      * rewrite extend_stack_eq. apply in_or_app. left. apply in_map_iff. exists i'. split; auto.
        apply filter_In. split.
        -- apply in_seq. assert ((i' < n)%nat) by (apply Hs_lt; eapply nth_error_In; eauto). lia.
        -- apply negb_true_iff. destruct (nat_in i' U) eqn:EU; auto.
           apply HU in EU. destruct EU as (m & Hm & Hsm).
           assert (m = S i1) by (eapply (proj1 (NoDup_nth_error sigma) Hs_nd); [apply nth_error_Some; congruence|congruence]).
           lia.
      * split; [exact En|]. intros j. simpl. rewrite orb_true_iff, Nat.eqb_eq, HU. split.
        -- intros [->|(m & Hm & Hsm)]; [exists (S i1); split; auto|exists m; split; auto].
        -- intros (m & Hm & Hsm). destruct (Nat.eq_dec m (S i1)) as [->|Hne].
           ++ left. congruence.
           ++ right. exists m. split; auto. lia.
  - (* the good element is deeper in the stack *)
    assert (Hex : exists e0, In e0 stack' /\ good_elem e0) by (exists e; auto).
    destruct (npair_in (i1, i2) bl); [apply IH; auto|].
    destruct (nth_error ne1 i1) as [x|] eqn:Ex; [|discriminate].
    destruct (nth_error ne2 i2) as [y|] eqn:Ey; [|discriminate].
    destruct (rec s x y) as [[[|] s0]| |] eqn:Er; try discriminate.
    + destruct (Hrec _ _ _ _ _ HF Er) as [HF0 _].
      destruct (Nat.eqb (S i1) n).
      * intros H; inversion H; subst. discriminate.
      * apply IH; auto. exists e. split; auto.
        rewrite extend_stack_eq. apply in_or_app. right; auto.
    + destruct (Hrec _ _ _ _ _ HF Er) as [HF0 Ht].
      apply IH; auto.
      intros j1 j2 x' y' [Hj|Hj] Hx' Hy'.
      * inversion Hj; subst. rewrite Ex in Hx'. rewrite Ey in Hy'. inversion Hx'; inversion Hy'; subst.
        intros HR. specialize (Ht HR). discriminate.
      * eapply Hbl; eauto.
Qed.
End Loop.

(* ------------------------------------------------------------------ the recursive call *)
Lemma complete_iso : forall f s a b r s',
  Finv s -> iso exact s1 s2 f s a b = Ok (r, s') -> Finv s' /\ (R a b -> r = true).
Proof.
  induction f as [|f IH]; intros s a b r s' HF; [discriminate|].
  cbn [iso].
  destruct (eq_path s1 a) as [p1| |] eqn:E1; cbn [bind]; try discriminate.
  destruct (eq_path s2 b) as [p2| |] eqn:E2; cbn [bind]; try discriminate.
  set (c1 := last p1 a). set (c2 := last p2 b).
  destruct (find_rule s1 c1) as [r1|] eqn:F1; [|discriminate].
  destruct (find_rule s2 c2) as [r2|] eqn:F2; [|discriminate].
  (* what a related pair looks like *)
  assert (Hrel : R a b ->
            length (ne_children s1 r1) = length (ne_children s2 r2) /\
            ((r_children r1 = [] /\ r_children r2 = [] /\
              r_atom r1 = true /\ r_atom r2 = true /\ akey_eqb (r_akey r1) (r_akey r2) = true)
             \/
             (~ (r_children r1 = [] /\ r_children r2 = []) /\
              r_iseq r1 = r_iseq r2 /\ ctor_equiv (r_ctor r1) (r_ctor r2) = true /\
              (0 < length (ne_children s1 r1))%nat /\
              exists sigma : list nat,
                length sigma = length (ne_children s1 r1) /\ NoDup sigma /\
                (forall j, In j sigma -> (j < length (ne_children s2 r2))%nat) /\
                forall i1 i2 x y, nth_error sigma i1 = Some i2 ->
                  nth_error (ne_children s1 r1) i1 = Some x -> nth_error (ne_children s2 r2) i2 = Some y ->
                  R x y))).
  { intros HR. destruct (Hsim a b HR) as (q1 & q2 & t1 & t2 & Q1 & Q2 & G1 & G2 & HL & Hcases).
    rewrite E1 in Q1. inversion Q1; subst q1. rewrite E2 in Q2. inversion Q2; subst q2.
    fold c1 in G1. fold c2 in G2. rewrite F1 in G1. inversion G1; subst t1.
    rewrite F2 in G2. inversion G2; subst t2. auto. }
  unfold base_cases.
  destruct (om_has (om s) (c1, c2)); cbn [bind].
  { change (Z.eqb 1 1) with true. cbv iota. intros H; inversion H; subst. auto. }
  destruct (pair_in (c1, c2) (failed s)) eqn:Ef; cbn [bind].
  { change (Z.eqb (-1) 1) with false. change (Z.eqb (-1) (-1)) with true. cbv iota.
    intros H; inversion H; subst. split; auto. intros HR. exfalso.
    apply pair_in_In in Ef. eapply HF; eauto. }
  destruct (Nat.eqb (length (ne_children s1 r1)) (length (ne_children s2 r2))) eqn:El; cbn [negb bind].
  2:{ change (Z.eqb (-1) 1) with false. change (Z.eqb (-1) (-1)) with true. cbv iota.
      intros H; inversion H; subst. split; auto. intros HR. destruct (Hrel HR) as [HL _].
      apply Nat.eqb_neq in El. congruence. }
  destruct (isnil (r_children r1) && isnil (r_children r2)) eqn:Enil.
  { apply andb_true_iff in Enil. destruct Enil as [N1 N2].
    apply isnil_true in N1. apply isnil_true in N2.
    destruct (r_atom r1 && r_atom r2 && akey_eqb (r_akey r1) (r_akey r2)) eqn:Eat; cbn [bind].
    - change (Z.eqb 1 1) with true. cbv iota. intros H; inversion H; subst. auto.
    - change (Z.eqb (-1) 1) with false. change (Z.eqb (-1) (-1)) with true. cbv iota.
      intros H; inversion H; subst. split; auto. intros HR.
      destruct (Hrel HR) as [_ [(_ & _ & A1 & A2 & A3)|(Hno & _)]].
      + rewrite A1, A2, A3 in Eat. discriminate.
      + exfalso. apply Hno. auto. }
  destruct (r_isrule r1 && r_isrule r2); cbn [negb bind]; [|discriminate].
  destruct (Bool.eqb (r_iseq r1) (r_iseq r2)) eqn:Eq; cbn [negb bind].
  2:{ change (Z.eqb (-1) 1) with false. change (Z.eqb (-1) (-1)) with true. cbv iota.
      intros H; inversion H; subst. split; auto. intros HR.
      destruct (Hrel HR) as [_ [(N1 & N2 & _)|(_ & Hq & _)]].
      - rewrite N1, N2 in Enil. discriminate.
      - rewrite Hq in Eq. rewrite eqb_reflx in Eq. discriminate. }
  destruct (ctor_equiv (r_ctor r1) (r_ctor r2)) eqn:Ec; cbn [negb bind].
  2:{ change (Z.eqb (-1) 1) with false. change (Z.eqb (-1) (-1)) with true. cbv iota.
      intros H; inversion H; subst. split; auto. intros HR.
      destruct (Hrel HR) as [_ [(N1 & N2 & _)|(_ & _ & Hc & _)]].
      - rewrite N1, N2 in Enil. discriminate.
      - congruence. }
  destruct (existsb (fun p => pair_in p (anc s)) (anc_pairs exact p1 p2 c1 c2)); cbn [bind].
  { change (Z.eqb 1 1) with true. cbv iota. intros H; inversion H; subst. auto. }
  change (Z.eqb 0 1) with false. change (Z.eqb 0 (-1)) with false. cbv iota.
  set (pr := anc_pairs exact p1 p2 c1 c2).
  set (n := length (ne_children s1 r1)).
  set (sA := mkSt (set_add_all (anc s) pr) (om s) (failed s)).
  apply Nat.eqb_eq in El.
  destruct (iso_loop (iso exact s1 s2 f) (S f) (ne_children s1 r1) (ne_children s2 r2) n (init_stack n) []
                     (repeat (-1) n) sA) as [[ro s0]| |] eqn:Eloop; cbn [bind]; try discriminate.
  assert (HFA : Finv sA) by exact HF.
  assert (HF0 : Finv s0).
  { eapply (loop_finv (ne_children s1 r1) (ne_children s2 r2) n eq_refl (eq_sym El) (iso exact s1 s2 f) IH); eauto. }
  (* a related pair with these current classes makes the loop succeed *)
  assert (Hsome : forall a' b' q1 q2, R a' b' -> eq_path s1 a' = Ok q1 -> eq_path s2 b' = Ok q2 ->
            last q1 a' = c1 -> last q2 b' = c2 -> ro <> None).
  { intros a' b' q1 q2 HR Q1 Q2 L1 L2.
    destruct (Hsim a' b' HR) as (q1' & q2' & t1 & t2 & Q1' & Q2' & G1 & G2 & HL & Hcases).
    rewrite Q1 in Q1'. inversion Q1'; subst q1'. rewrite Q2 in Q2'. inversion Q2'; subst q2'.
    rewrite L1 in G1. rewrite L2 in G2. rewrite F1 in G1. inversion G1; subst t1.
    rewrite F2 in G2. inversion G2; subst t2.
    destruct Hcases as [(N1 & N2 & _)|(_ & _ & _ & Hpos & sigma & SL & SN & SB & SR)].
    { rewrite N1, N2 in Enil. discriminate. }
    eapply (loop_complete (ne_children s1 r1) (ne_children s2 r2) n eq_refl (eq_sym El) (iso exact s1 s2 f) IH
                          sigma SL SN); [| |exact HFA| | |exact Eloop].
    - intros j Hj. unfold n. rewrite El. apply SB; auto.
    - exact SR.
    - intros ? ? ? ? [].
    - fold n in Hpos. destruct (nth_error sigma 0) as [i0|] eqn:E0.
      2:{ apply nth_error_None in E0. fold n in SL. lia. }
      exists (O, i0, [i0]). split.
      + rewrite init_stack_eq. apply in_map_iff. exists i0. split; auto. apply in_seq.
        assert ((i0 < length (ne_children s2 r2))%nat) by (apply SB; eapply nth_error_In; eauto).
        unfold n. lia.
      + split; [exact E0|]. intros j. simpl. rewrite orb_false_r, Nat.eqb_eq. split.
        * intros ->. exists O. split; auto.
        * intros (m & Hm & Hsm). assert (m = O) by lia. subst. congruence. }
  destruct ro as [co|].
  - intros H; inversion H; subst. split; auto.
  - intros H; inversion H; subst. split.
    + intros d1 d2 [Hd|Hd] a' b' q1 q2 HR Q1 Q2 L1 L2.
      * inversion Hd; subst d1 d2. eapply Hsome; eauto.
      * eapply HF0; eauto.
    + intros HR. exfalso. eapply (Hsome a b p1 p2); eauto.
Qed.

(* related roots: the search never answers False *)
Theorem complete : R (s_root s1) (s_root s2) ->
  forall fuel r st, are_isomorphic exact s1 s2 fuel = Ok (r, st) -> r = true.
Proof.
  intros HR fuel r st H. unfold are_isomorphic in H.
  assert (HF : Finv st0) by (intros ? ? []).
  destruct (complete_iso _ _ _ _ _ _ HF H) as [_ Ht]. auto.
Qed.
End Complete.
