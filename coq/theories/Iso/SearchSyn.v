(* With the repaired ancestor test (exact = true: _ancestors holds pairs of CURRENT classes
   only) everything the search records — matches, failures, pairs in progress — is keyed by
   the pair of current classes, and a True answer yields a SIMULATION in the sense of
   Iso/Complete.v, for arbitrary specifications (chained equivalence rules included, no
   well-formedness hypothesis).  With Iso/Complete.v (completeness) and the symmetry of
   simulations this gives the symmetry of the test: Iso/SymmetricFull.v. *)
From Coq Require Import ZArith List Bool Lia.
From CSS Require Import Base.PyList Iso.Model Iso.Cert Iso.Valid Iso.SearchBasics Iso.Search
     Iso.LoopGen Iso.Complete Iso.EquivSym Iso.Symmetric.
Import ListNotations.
Open Scope Z_scope.

Section Syn.
Variables s1 s2 : spec.

Definition leafp (c1 c2 : Z) : Prop :=
  exists r1 r2, find_rule s1 c1 = Some r1 /\ find_rule s2 c2 = Some r2 /\
    r_children r1 = [] /\ r_children r2 = [] /\ r_atom r1 = true /\ r_atom r2 = true /\
    akey_eqb (r_akey r1) (r_akey r2) = true.

(* the pair is justified: its current classes are assumed (in progress), matching atoms, or a key *)
Definition acc (M : order_map) (A : list (Z * Z)) (a b : Z) : Prop :=
  exists p1 p2, eq_path s1 a = Ok p1 /\ eq_path s2 b = Ok p2 /\
    (In (last p1 a, last p2 b) A \/ leafp (last p1 a) (last p2 b) \/
     om_has M (last p1 a, last p2 b) = true).

Definition sentry_ok (M : order_map) (A : list (Z * Z)) (c1 c2 : Z) (perm : list Z) : Prop :=
  exists r1 r2,
    find_rule s1 c1 = Some r1 /\ find_rule s2 c2 = Some r2 /\
    ~ (r_children r1 = [] /\ r_children r2 = []) /\
    r_iseq r1 = r_iseq r2 /\ ctor_equiv (r_ctor r1) (r_ctor r2) = true /\
    length (ne_children s1 r1) = length (ne_children s2 r2) /\
    (0 < length (ne_children s1 r1))%nat /\
    is_perm perm (length (ne_children s2 r2)) /\
    forall j i a b,
      nth_error perm j = Some i ->
      nth_error (ne_children s1 r1) (Z.to_nat i) = Some a ->
      nth_error (ne_children s2 r2) j = Some b ->
      acc M A a b.

Definition SInv (M : order_map) (A : list (Z * Z)) : Prop :=
  forall c1 c2 perm, In ((c1, c2), perm) M -> sentry_ok M A c1 c2 perm.

Definition spost (s : st) (a b : Z) (r : bool) (s' : st) : Prop :=
  anc s' = anc s /\
  (r = false -> om s' = om s) /\
  (r = true ->
     (exists new, om s' = new ++ om s /\ fresh new (anc s)) /\
     SInv (om s') (anc s) /\ acc (om s') (anc s) a b).

Lemma acc_mono M A M' A' a b :
  (forall k, om_has M k = true -> om_has M' k = true) -> (forall p, In p A -> In p A') ->
  acc M A a b -> acc M' A' a b.
Proof.
  intros HM HA (p1 & p2 & E1 & E2 & J). exists p1, p2. repeat (split; [assumption|]).
  destruct J as [J|[J|J]]; auto.
Qed.

Lemma sentry_ok_map M A M' A' c1 c2 perm :
  (forall a b, acc M A a b -> acc M' A' a b) -> sentry_ok M A c1 c2 perm -> sentry_ok M' A' c1 c2 perm.
Proof.
  intros H (r1 & r2 & F1 & F2 & Hno & Hq & Hc & Ln & Pos & Pm & Hk).
  exists r1, r2. repeat (split; [assumption|]). intros j i a b Hj Ha Hb. apply H. eapply Hk; eauto.
Qed.

Lemma iso_spost : forall f s n1 n2 r s',
  SInv (om s) (anc s) -> iso true s1 s2 f s n1 n2 = Ok (r, s') -> spost s n1 n2 r s'.
Proof.
  induction f as [|f IH]; intros s n1 n2 r s' HI; [discriminate|].
  cbn [iso].
  destruct (eq_path s1 n1) as [p1| |] eqn:E1; cbn [bind]; try discriminate.
  destruct (eq_path s2 n2) as [p2| |] eqn:E2; cbn [bind]; try discriminate.
  set (c1 := last p1 n1). set (c2 := last p2 n2).
  destruct (find_rule s1 c1) as [r1|] eqn:F1; [|discriminate].
  destruct (find_rule s2 c2) as [r2|] eqn:F2; [|discriminate].
  assert (Hvalid : forall J : In (c1, c2) (anc s) \/ leafp c1 c2 \/ om_has (om s) (c1, c2) = true,
            spost s n1 n2 true s).
  { intros J. split; [reflexivity|]. split; [discriminate|]. intros _.
    split; [exists []; split; [reflexivity|intros k v []]|]. split; [exact HI|].
    exists p1, p2. auto. }
  assert (Hinvalid : spost s n1 n2 false s).
  { split; [reflexivity|]. split; [reflexivity|discriminate]. }
  unfold base_cases.
  destruct (om_has (om s) (c1, c2)) eqn:Hm; cbn [bind].
  { change (Z.eqb 1 1) with true. cbv iota. intros H; inversion H; subst. apply Hvalid. auto. }
  destruct (pair_in (c1, c2) (failed s)); cbn [bind].
  { change (Z.eqb (-1) 1) with false. change (Z.eqb (-1) (-1)) with true. cbv iota.
    intros H; inversion H; subst. exact Hinvalid. }
  destruct (Nat.eqb (length (ne_children s1 r1)) (length (ne_children s2 r2))) eqn:El; cbn [negb bind].
  2:{ change (Z.eqb (-1) 1) with false. change (Z.eqb (-1) (-1)) with true. cbv iota.
      intros H; inversion H; subst. exact Hinvalid. }
  apply Nat.eqb_eq in El.
  destruct (isnil (r_children r1) && isnil (r_children r2)) eqn:Enil.
  { apply andb_true_iff in Enil. destruct Enil as [N1 N2].
    apply isnil_true in N1. apply isnil_true in N2.
    destruct (r_atom r1 && r_atom r2 && akey_eqb (r_akey r1) (r_akey r2)) eqn:Eat; cbn [bind].
    - change (Z.eqb 1 1) with true. cbv iota. intros H; inversion H; subst. apply Hvalid.
      right; left. apply andb_true_iff in Eat. destruct Eat as [Eat A3].
      apply andb_true_iff in Eat. destruct Eat as [A1 A2].
      exists r1, r2. repeat (split; [assumption|]). assumption.
    - change (Z.eqb (-1) 1) with false. change (Z.eqb (-1) (-1)) with true. cbv iota.
      intros H; inversion H; subst. exact Hinvalid. }
  assert (Hno : ~ (r_children r1 = [] /\ r_children r2 = [])).
  { intros [N1 N2]. rewrite N1, N2 in Enil. discriminate. }
  destruct (r_isrule r1 && r_isrule r2); cbn [negb bind]; [|discriminate].
  destruct (Bool.eqb (r_iseq r1) (r_iseq r2)) eqn:Eq; cbn [negb bind].
  2:{ change (Z.eqb (-1) 1) with false. change (Z.eqb (-1) (-1)) with true. cbv iota.
      intros H; inversion H; subst. exact Hinvalid. }
  apply eqb_prop in Eq.
  destruct (ctor_equiv (r_ctor r1) (r_ctor r2)) eqn:Ec; cbn [negb bind].
  2:{ change (Z.eqb (-1) 1) with false. change (Z.eqb (-1) (-1)) with true. cbv iota.
      intros H; inversion H; subst. exact Hinvalid. }
  cbn [anc_pairs existsb]. rewrite orb_false_r.
  destruct (pair_in (c1, c2) (anc s)) eqn:Ea; cbn [bind].
  { change (Z.eqb 1 1) with true. cbv iota. intros H; inversion H; subst. apply Hvalid.
    left. apply pair_in_In; auto. }
  change (Z.eqb 0 1) with false. change (Z.eqb 0 (-1)) with false. cbv iota.
  apply pair_in_false in Ea.
  set (n := length (ne_children s1 r1)).
  set (sA := mkSt (set_add_all (anc s) [(c1, c2)]) (om s) (failed s)).
  set (A := anc sA).
  assert (HinA : forall q, In q A <-> In q (anc s) \/ q = (c1, c2)).
  { intros q. unfold A. simpl. unfold set_add. destruct (pair_in (c1, c2) (anc s)) eqn:X.
    - apply pair_in_In in X. tauto.
    - simpl. split.
      + intros [Hq|Hq]; [right; auto|left; auto].
      + intros [Hq|Hq]; [right; auto|left; auto]. }
  destruct (iso_loop (iso true s1 s2 f) (S f) (ne_children s1 r1) (ne_children s2 r2) n
                     (init_stack n) [] (repeat (-1) n) sA) as [[ro s0]| |] eqn:Eloop;
    cbn [bind]; try discriminate.
  (* the generic loop lemma *)
  set (P := fun t : st => anc t = A /\ SInv (om t) A).
  set (ext := fun t t' : st => exists new, om t' = new ++ om t /\ fresh new A).
  set (Q := fun (t : st) (a b : Z) => acc (om t) A a b).
  assert (Hrec : forall t a b r0 t', P t -> iso true s1 s2 f t a b = Ok (r0, t') ->
            P t' /\ ext t t' /\ (r0 = true -> Q t' a b)).
  { intros t a b r0 t' [PA PI] Hc. rewrite <- PA in PI.
    destruct (IH _ _ _ _ _ PI Hc) as (An & Hf & Ht). rewrite PA in *.
    destruct r0.
    - destruct (Ht eq_refl) as ((new & En & Fn) & HI' & Hacc).
      split; [split; auto|]. split; [exists new; auto|]. intros _. exact Hacc.
    - specialize (Hf eq_refl). split; [split; [auto|rewrite Hf; auto]|].
      split; [exists []; rewrite Hf; split; [reflexivity|intros k v []]|discriminate]. }
  assert (HPA : P sA).
  { split; [reflexivity|]. simpl. intros d1 d2 perm Hin. eapply sentry_ok_map; [|apply HI; eauto].
    intros a b. apply acc_mono; auto. intros q Hq. apply HinA. auto. }
  destruct (gen_loop (ne_children s1 r1) (ne_children s2 r2) n P ext Q) with
      (rec := iso true s1 s2 f) (g := S f) (stack := init_stack n) (gs := map (fun _ : nat => @nil nat) (seq 0 n))
      (bl := @nil (nat * nat)) (co := repeat (-1) n) (s := sA) (r := ro) (s' := s0)
    as ((An & HI0) & (new & Enew & Fnew) & Hr); auto.
  { intros t. exists []. split; [reflexivity|intros k v []]. }
  { intros t1 t2 t3 (n1' & E1' & F1') (n2' & E2' & F2'). exists (n2' ++ n1').
    rewrite E2', E1', app_assoc. split; [reflexivity|].
    intros k v Hin. apply in_app_or in Hin. destruct Hin; [eapply F2'|eapply F1']; eauto. }
  { intros t t' a b (nw & En & _) Hq. unfold Q in *. rewrite En.
    eapply acc_mono; [| |exact Hq]; auto. intros k. apply om_has_app. }
  { apply repeat_length. }
  { apply gen_init. }
  simpl in Enew.
  assert (Hrem : set_remove_all (anc s0) [(c1, c2)] = anc s).
  { rewrite An. unfold A. simpl. apply (set_remove_add (anc s) [(c1, c2)]).
    intros q [<-|[]]. apply pair_in_false. auto. }
  destruct ro as [co|].
  2:{ intros H; inversion H; subst r s'. simpl.
      split; [exact Hrem|]. split; [|discriminate]. intros _.
      rewrite Enew. apply om_pop_to_app. }
  intros H; inversion H; subst r s'. clear H. simpl.
  destruct Hr as (Pm & Hkids).
  assert (Hnk : om_has (om s0) (c1, c2) = false).
  { rewrite Enew. apply om_has_app_false; auto.
    intros v Hv. apply (Fnew _ _ Hv). apply HinA. auto. }
  rewrite (om_set_fresh _ _ _ Hnk).
  set (M' := ((c1, c2), co) :: om s0).
  assert (Hnpos : (0 < n)%nat).
  { destruct n eqn:En; [|lia]. exfalso. cbn in Eloop. inversion Eloop. }
  assert (Hdis : forall a b, acc (om s0) A a b -> acc M' (anc s) a b).
  { intros a b (q1 & q2 & G1 & G2 & J). exists q1, q2. repeat (split; [assumption|]).
    destruct J as [J|[J|J]].
    - apply HinA in J. destruct J as [J|J]; [left; auto|].
      right; right. rewrite J. apply (In_om_has M' (c1, c2) co). left; reflexivity.
    - right; left; auto.
    - right; right. apply (om_has_app [((c1, c2), co)]). exact J. }
  split; [exact Hrem|]. split; [discriminate|]. intros _. split; [|split].
  - exists (((c1, c2), co) :: new). unfold M'. rewrite Enew. split; [reflexivity|].
    intros k v [Hk|Hk].
    + inversion Hk; subst. auto.
    + intros X. apply (Fnew _ _ Hk). apply HinA. auto.
  - intros a1 a2 perm [Hin|Hin].
    + inversion Hin; subst a1 a2 perm.
      exists r1, r2. repeat (split; [assumption|]).
      split; [rewrite <- El; exact Pm|].
      intros j i a b Hj Ha Hb. apply Hdis. eapply Hkids; eauto.
    + eapply sentry_ok_map; [exact Hdis|]. apply HI0; auto.
  - exists p1, p2. repeat (split; [assumption|]). right; right.
    apply (In_om_has M' (c1, c2) co). left; reflexivity.
Qed.

(* ------------------------------------------------------------------ a True answer gives a simulation *)
Lemma syn_sim M : SInv M [] -> forall a b, acc M [] a b -> sim_ok s1 s2 (acc M []) a b.
Proof.
  intros HI a b (p1 & p2 & E1 & E2 & J).
  destruct J as [[]|[(r1 & r2 & F1 & F2 & N1 & N2 & A1 & A2 & AK)|Hhas]].
  - exists p1, p2, r1, r2. repeat (split; [assumption|]).
    split; [unfold ne_children; rewrite N1, N2; reflexivity|]. left. auto.
  - apply om_has_In in Hhas. destruct Hhas as (perm & Hin).
    destruct (HI _ _ _ Hin) as (r1 & r2 & F1 & F2 & Hno & Hq & Hc & Ln & Pos & (PL & PN & PB) & Hk).
    exists p1, p2, r1, r2. repeat (split; [assumption|]).
    right. repeat (split; [assumption|]).
    set (n := length (ne_children s1 r1)) in *.
    set (tau := map Z.to_nat perm).
    assert (TL : length tau = n) by (unfold tau; rewrite map_length; lia).
    assert (TN : NoDup tau).
    { apply NoDup_to_nat; auto. intros z Hz. apply PB in Hz. lia. }
    assert (TB : forall j, In j tau -> (j < n)%nat).
    { intros j Hj. apply in_map_iff in Hj. destruct Hj as (z & <- & Hz). apply PB in Hz. unfold n. lia. }
    destruct (inverse_list_spec tau n TL TN TB) as (IL & IN & IB & IS).
    exists (inverse_list tau n). split; [exact IL|]. split; [exact IN|].
    split; [intros j Hj; rewrite <- Ln; apply IB; auto|].
    intros i1 i2 x y Hi Hx Hy. apply IS in Hi. unfold tau in Hi. rewrite nth_error_map in Hi.
    destruct (nth_error perm i2) as [z|] eqn:Ez; [|discriminate]. simpl in Hi. inversion Hi; subst i1.
    eapply Hk; eauto.
Qed.

Theorem sound_syn : forall fuel st,
  are_isomorphic true s1 s2 fuel = Ok (true, st) ->
  exists R : Z -> Z -> Prop,
    (forall a b, R a b -> sim_ok s1 s2 R a b) /\ R (s_root s1) (s_root s2).
Proof.
  intros fuel st H. unfold are_isomorphic in H.
  assert (HI : SInv (om st0) (anc st0)) by (intros ? ? ? []).
  destruct (iso_spost _ _ _ _ _ _ HI H) as (_ & _ & Ht).
  destruct (Ht eq_refl) as (_ & HInv & Hacc). simpl in *.
  exists (acc (om st) []). split; [|exact Hacc].
  intros a b. apply syn_sim; auto.
Qed.
End Syn.
