(* Reflexivity, with termination: on a closed specification whose childless classes are
   atoms, Isomorphism.check(s, s) returns True for every fuel above an explicit bound
   (number of classes + largest number of children + 1). *)
From Coq Require Import ZArith List Bool Lia Wf_nat.
From CSS Require Import Base.PyList Iso.Model Iso.Valid Iso.SearchBasics Iso.Search Iso.Refl.
Import ListNotations.
Open Scope Z_scope.

Lemma filter_length_le {A} (f g : A -> bool) l :
  (forall x, In x l -> g x = true -> f x = true) -> (length (filter g l) <= length (filter f l))%nat.
Proof.
  induction l as [|x l IH]; intros H; simpl; auto.
  assert (IH' : (length (filter g l) <= length (filter f l))%nat).
  { apply IH. intros y Hy. apply H. right; auto. }
  destruct (g x) eqn:G.
  - rewrite (H x (or_introl eq_refl) G). simpl. lia.
  - destruct (f x); simpl; lia.
Qed.

Lemma filter_length_lt {A} (f g : A -> bool) l x :
  (forall y, In y l -> g y = true -> f y = true) -> In x l -> f x = true -> g x = false ->
  (length (filter g l) < length (filter f l))%nat.
Proof.
  induction l as [|y l IH]; intros H Hx Fx Gx; simpl; [destruct Hx|].
  assert (Hle : (length (filter g l) <= length (filter f l))%nat).
  { apply filter_length_le. intros z Hz. apply H. right; auto. }
  destruct Hx as [->|Hx].
  - rewrite Fx, Gx. simpl. lia.
  - assert (IH' : (length (filter g l) < length (filter f l))%nat).
    { apply IH; auto. intros z Hz. apply H. right; auto. }
    destruct (g y) eqn:G.
    + rewrite (H y (or_introl eq_refl) G). simpl. lia.
    + destruct (f y); simpl; lia.
Qed.

Section Total.
Variable exact : bool.
Variable s : spec.
Hypothesis W : eq_wf s.
(* every class whose rule has no children (verified classes) is an atom *)
Hypothesis Hatoms : forall c r, find_rule s c = Some r -> r_children r = [] -> r_atom r = true.
(* a class with a decomposition rule is not empty: some child is not empty *)
Hypothesis Hne : forall c r, find_rule s c = Some r -> r_children r <> [] -> ne_children s r <> [].
(* only Rules have children *)
Hypothesis Hrule : forall c r, find_rule s c = Some r -> r_children r <> [] -> r_isrule r = true.
(* closed: every non-empty child has a rule *)
Hypothesis Hclosed : forall c r d, find_rule s c = Some r -> In d (ne_children s r) ->
  exists r', find_rule s d = Some r'.

Definition keys : list Z := map fst (s_rules s).
Definition undone (A : list (Z * Z)) : nat :=
  length (filter (fun c => negb (pair_in (c, c) A)) keys).
Definition arity_bound : nat :=
  fold_right (fun kr acc => Nat.max (length (r_children (snd kr))) acc) O (s_rules s).

Lemma find_rule_key c r : find_rule s c = Some r -> In c keys.
Proof.
  unfold find_rule, keys. induction (s_rules s) as [|[k r'] l IH]; simpl; [discriminate|].
  destruct (Z.eqb k c) eqn:E; [apply Z.eqb_eq in E; auto|auto].
Qed.

Lemma find_rule_arity c r : find_rule s c = Some r -> (length (r_children r) <= arity_bound)%nat.
Proof.
  unfold find_rule, arity_bound. induction (s_rules s) as [|[k r'] l IH]; simpl; [discriminate|].
  destruct (Z.eqb k c).
  - intros H; inversion H; subst. lia.
  - intros H. specialize (IH H). lia.
Qed.

Lemma ne_children_length c r : find_rule s c = Some r -> (length (ne_children s r) <= arity_bound)%nat.
Proof.
  intros H. apply find_rule_arity in H. unfold ne_children.
  pose proof (filter_length_le (fun _ => true) (fun c0 => negb (is_empty s c0)) (r_children r)) as X.
  assert (Y : length (filter (fun _ : Z => true) (r_children r)) = length (r_children r)).
  { clear. induction (r_children r); simpl; auto. }
  rewrite Y in X. specialize (X (fun _ _ _ => eq_refl)). lia.
Qed.

Lemma undone_lt A A' c :
  (forall p, In p A -> In p A') -> In c keys -> ~ In (c, c) A -> In (c, c) A' ->
  (undone A' < undone A)%nat.
Proof.
  intros Hsub Hc Hn Hin. unfold undone.
  apply (filter_length_lt _ _ keys c); auto.
  - intros y _ Hy. apply negb_true_iff in Hy. apply negb_true_iff.
    apply pair_in_false. intros X. apply pair_in_false in Hy. apply Hy. auto.
  - apply negb_true_iff. apply pair_in_false; auto.
  - apply negb_false_iff. apply pair_in_In; auto.
Qed.

(* ------------------------------------------------------------------ the loop *)
Section TotalLoop.
Variables (ne : list Z) (n : nat).
Hypothesis Hn : length ne = n.
Variable A : list (Z * Z).
Variable rec : st -> Z -> Z -> res (bool * st).
Hypothesis Hrec : forall st a, anc st = A -> failed st = [] -> In a ne ->
  exists st', rec st a a = Ok (true, st') /\ anc st' = A /\ failed st' = [].

Lemma total_loop g : forall k stack' co st,
  (k < n)%nat -> (n - k <= g)%nat -> anc st = A -> failed st = [] ->
  exists co' st',
    iso_loop rec g ne ne n ((k, k, rev (seq 0 (S k))) :: stack') [] co st = Ok (Some co', st') /\
    anc st' = A /\ failed st' = [].
Proof.
  induction g as [|g IH]; intros k stack' co st Hk Hg Ha Hf; [lia|].
  remember (rev (seq 0 (S k))) as U eqn:EU.
  cbn [iso_loop]. cbn [npair_in existsb].
  destruct (nth_error ne k) as [a|] eqn:Ea.
  2:{ apply nth_error_None in Ea. lia. }
  destruct (Hrec st a Ha Hf (nth_error_In _ _ Ea)) as (s0 & Er & Ha0 & Hf0).
  rewrite Er.
  destruct (Nat.eqb (S k) n) eqn:E.
  - eexists _, _. split; [reflexivity|]. auto.
  - apply Nat.eqb_neq in E. rewrite extend_stack_eq. subst U.
    rewrite filter_not_in_prefix by lia.
    destruct (n - S k)%nat eqn:Dk; [lia|].
    change (seq (S k) (S n0)) with (S k :: seq (S (S k)) n0). cbn [map app].
    replace (S k :: rev (seq 0 (S k))) with (rev (seq 0 (S (S k))))
      by (rewrite (seq_S (S k)), rev_app_distr; reflexivity).
    apply IH; auto; lia.
Qed.
End TotalLoop.

(* ------------------------------------------------------------------ the search on (s, s) *)
Lemma base_cases_diag2 st p c r ne :
  failed st = [] -> find_rule s c = Some r ->
  base_cases exact st p p c c r r ne ne = Ok 1 \/
  (base_cases exact st p p c c r r ne ne = Ok 0 /\ r_children r <> [] /\
   existsb (fun q => pair_in q (anc st)) (anc_pairs exact p p c c) = false).
Proof.
  intros Hf F. unfold base_cases.
  destruct (om_has (om st) (c, c)); [left; reflexivity|].
  rewrite Hf. cbn [pair_in existsb].
  rewrite Nat.eqb_refl. cbn [negb].
  destruct (isnil (r_children r)) eqn:Nil; cbn [andb].
  { rewrite (Hatoms c r F) by (destruct (r_children r); simpl in Nil; congruence).
    rewrite akey_eqb_refl. left; reflexivity. }
  assert (Hch : r_children r <> []) by (intros X; rewrite X in Nil; discriminate).
  rewrite (Hrule c r F Hch). cbn [andb negb].
  rewrite eqb_reflx. cbn [negb]. rewrite ctor_equiv_refl. cbn [negb].
  destruct (existsb (fun q => pair_in q (anc st)) (anc_pairs exact p p c c)); [left; reflexivity|].
  right. auto.
Qed.

Lemma total_iso : forall m f st n r0,
  (undone (anc st) <= m)%nat -> (m + arity_bound + 1 <= f)%nat -> failed st = [] ->
  find_rule s n = Some r0 ->
  exists st', iso exact s s f st n n = Ok (true, st') /\ anc st' = anc st /\ failed st' = [].
Proof.
  induction m as [m IHm] using lt_wf_ind. intros f st n r0 Hm Hfu Hf Fn.
  destruct f as [|f]; [lia|].
  cbn [iso].
  (* the path *)
  assert (Hp : exists p, eq_path s n = Ok p /\ exists rc, find_rule s (last p n) = Some rc).
  { unfold eq_path. rewrite Fn. destruct (r_iseq r0) eqn:Q.
    - destruct (W n r0 Fn Q) as (d & Hc & _ & _ & e & k & Hch). rewrite Hc.
      exists [n; d]. split; [reflexivity|]. simpl.
      inversion Hch; eauto.
    - exists [n]. split; [reflexivity|]. simpl. eauto. }
  destruct Hp as (p & Ep & r & F). rewrite Ep. cbn [bind].
  set (c := last p n) in *. rewrite F.
  destruct (base_cases_diag2 st p c r (ne_children s r) Hf F) as [Hb|(Hb & Hch & Hx)]; rewrite Hb; cbn [bind].
  - change (Z.eqb 1 1) with true. cbv iota. eexists. split; [reflexivity|]. auto.
  - change (Z.eqb 0 1) with false. change (Z.eqb 0 (-1)) with false. cbv iota.
    set (pr := anc_pairs exact p p c c).
    set (nn := length (ne_children s r)).
    set (sA := mkSt (set_add_all (anc st) pr) (om st) (failed st)).
    assert (Hnot : forall q, In q pr -> ~ In q (anc st)).
    { intros q Hq Hin.
      assert (X : existsb (fun q0 => pair_in q0 (anc st)) pr = true).
      { apply existsb_exists. exists q. split; auto. apply pair_in_In; auto. }
      unfold pr in X. congruence. }
    assert (Hcc : In (c, c) pr).
    { assert (In c p) by (apply (eq_path_last_in _ _ _ W Ep)). unfold pr. apply anc_pairs_self; auto. }
    assert (Hlt : (undone (anc sA) < undone (anc st))%nat).
    { apply (undone_lt _ _ c).
      - intros q Hq. simpl. apply set_add_all_In. auto.
      - eapply find_rule_key; eauto.
      - apply Hnot; auto.
      - simpl. apply set_add_all_In. auto. }
    destruct m as [|m']; [lia|].
    assert (Hnn : (0 < nn)%nat).
    { unfold nn. destruct (ne_children s r) eqn:En; [exfalso; eapply Hne; eauto|simpl; lia]. }
    assert (Hnb : (nn <= arity_bound)%nat) by (eapply ne_children_length; eauto).
    assert (Hrec : forall st1 a, anc st1 = anc sA -> failed st1 = [] -> In a (ne_children s r) ->
              exists st', iso exact s s f st1 a a = Ok (true, st') /\ anc st' = anc sA /\ failed st' = []).
    { intros st1 a Ha1 Hf1 Hin. destruct (Hclosed c r a F Hin) as (ra & Fa).
      destruct (IHm m' (Nat.lt_succ_diag_r m') f st1 a ra) as (st' & E & A' & F'); auto.
      - rewrite Ha1. lia.
      - lia.
      - exists st'. rewrite <- Ha1. auto. }
    destruct nn as [|k] eqn:Enn; [lia|].
    rewrite init_stack_eq. change (seq 0 (S k)) with (0%nat :: seq 1 k). cbn [map].
    destruct (total_loop (ne_children s r) (S k) Enn (anc sA) (iso exact s s f) Hrec (S f) O
                         (map (fun i => (0%nat, i, [i])) (seq 1 k)) (repeat (-1) (S k)) sA)
      as (co & s0 & El & Ha0 & Hf0); [lia|lia|reflexivity|exact Hf|].
    change (rev (seq 0 1)) with [0%nat] in El. rewrite El. cbn [bind].
    eexists. split; [reflexivity|]. simpl. split; [|exact Hf0].
    rewrite Ha0. simpl. apply set_remove_add. intros q Hq. apply pair_in_false. apply Hnot; auto.
Qed.

(* Isomorphism.check(s, s) is True *)
Theorem refl_total : forall r0, find_rule s (s_root s) = Some r0 ->
  forall fuel, (length keys + arity_bound + 1 <= fuel)%nat ->
  exists st', are_isomorphic exact s s fuel = Ok (true, st').
Proof.
  intros r0 F fuel Hfu. unfold are_isomorphic.
  destruct (total_iso (length keys) fuel st0 (s_root s) r0) as (st' & E & _); auto.
  - unfold undone. simpl.
    pose proof (filter_length_le (fun _ => true) (fun c => negb (pair_in (c, c) [])) keys) as X.
    assert (Y : length (filter (fun _ : Z => true) keys) = length keys).
    { clear. induction keys; simpl; auto. }
    rewrite Y in X. apply X. auto.
  - exists st'. exact E.
Qed.
End Total.
