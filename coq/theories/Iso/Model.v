(* Executable model of comb_spec_searcher/isomorphism.py (Isomorphism, ParseTreeMap,
   Bijection) and of Constructor.equiv / extra_params_equiv
   (strategies/constructor/base.py), as the code is after the fix: commits 7890ace,
   4c6d23b, e943cb6 (and, with exact = true, after the repair proposed for the open finding
   C12 asymmetric-check-with-chained-equivalences).  No proofs here.

   Specifications are finite maps  class label -> rule descriptor.  The descriptor
   holds exactly what isomorphism.py reads from a rule and its class:
     isinstance(rule, Rule), rule.children, rule.is_equivalence(),
     rule.constructor (type + extra_parameters, as read by Constructor.equiv),
     comb_class.is_atom(), and for _atom_match the size of the minimum object
     and rule.get_terms(size);
   child.is_empty() is the list s_empty.

   Not modelled: _path_tracker (written, never read), _index_data / the idx of
   NonBijectiveRule (no constructor of the library returns data; Rule's indexed maps
   ignore idx), the cache of _extra_params_match_bijection (memoises a pure function).

   Objects are modelled as PARSE TREES: the tree of an object o of class c is
   Leaf c when the rule of c has no children, and otherwise
   Node c [tree of p | None  for p in rule.forward_map(o)].  The harness converts
   objects to trees with forward_map and trees back with backward_map. *)
From Coq Require Import ZArith List Bool.
From CSS Require Import Base.PyList Gen.PermInv.
Import ListNotations.
Open Scope Z_scope.

(* ------------------------------------------------------------------ results *)
Inductive res (A : Type) : Type :=
| Ok (a : A)
| OutOfFuel
| Raise (e : Z).   (* 1 KeyError, 2 IndexError, 5 AssertionError, 6 RuntimeError (StopIteration
                      inside a generator), 7 the object is not an object of the rule's class,
                      9 _min_object of a class that is neither a leaf nor on an equivalence chain
                      to a leaf (not representable as a tree) *)
Arguments Ok {A} a.
Arguments OutOfFuel {A}.
Arguments Raise {A} e.

Definition bind {A B} (x : res A) (f : A -> res B) : res B :=
  match x with Ok a => f a | OutOfFuel => OutOfFuel | Raise e => Raise e end.
Notation "x >>= f" := (bind x f) (at level 50, left associativity).

(* ------------------------------------------------------------------ small helpers *)
Definition pair_eqb (p q : Z * Z) : bool := Z.eqb (fst p) (fst q) && Z.eqb (snd p) (snd q).
Definition pair_in (p : Z * Z) (l : list (Z * Z)) : bool := existsb (pair_eqb p) l.
Definition npair_eqb (p q : nat * nat) : bool := Nat.eqb (fst p) (fst q) && Nat.eqb (snd p) (snd q).
Definition npair_in (p : nat * nat) (l : list (nat * nat)) : bool := existsb (npair_eqb p) l.
Definition nat_in (i : nat) (l : list nat) : bool := existsb (Nat.eqb i) l.
Definition isnil {A} (l : list A) : bool := match l with [] => true | _ => false end.

Fixpoint list_eqb {A} (eqb : A -> A -> bool) (a b : list A) : bool :=
  match a, b with
  | [], [] => true
  | x :: a', y :: b' => eqb x y && list_eqb eqb a' b'
  | _, _ => false
  end.

(* ------------------------------------------------------------------ constructors *)
(* A parameter dictionary {parent variable: child variable}: Constructor.equiv only
   reads len() and the multiset of VALUES, so the dictionary is the list of its
   values (integer codes of the variable names), in key order. *)
Definition pdict := list Z.
Record ctor := mkCtor {
  c_tag : Z;                 (* type(constructor): 0 DisjointUnion, 1 CartesianProduct, 2 Complement, 3 Quotient, ... *)
  c_params : list pdict;     (* constructor.extra_parameters, one dictionary per child *)
}.

(* sorted(Counter(par.values()).values()) *)
Fixpoint count_occ_Z (l : list Z) (x : Z) : nat :=
  match l with [] => O | y :: t => (if Z.eqb y x then 1 else 0)%nat + count_occ_Z t x end.
Fixpoint dedup (l : list Z) : list Z :=
  match l with
  | [] => []
  | x :: t => x :: filter (fun y => negb (Z.eqb y x)) (dedup t)
  end.
Fixpoint insert_nat (x : nat) (l : list nat) : list nat :=
  match l with
  | [] => [x]
  | y :: t => if Nat.leb x y then x :: l else y :: insert_nat x t
  end.
Definition sort_nat (l : list nat) : list nat := fold_right insert_nat [] l.
Definition value_counts (p : pdict) : list nat :=
  sort_nat (map (count_occ_Z p) (dedup p)).

(* Constructor._extra_params_match_single *)
Definition params_match_single (p1 p2 : pdict) : bool :=
  Nat.eqb (length p1) (length p2) && list_eqb Nat.eqb (value_counts p1) (value_counts p2).

(* Constructor._extra_params_match_bijection: _backtracking with k = len(bijection)
   already chosen indices `in_use`; recursion depth is at most n (the fuel). *)
Fixpoint params_backtracking (fuel : nat) (n : nat) (p1 p2 : list pdict) (k : nat) (in_use : list nat) : bool :=
  match fuel with
  | O => false
  | S f =>
      existsb
        (fun i =>
           negb (nat_in i in_use)
           && params_match_single (nth k p1 []) (nth i p2 [])
           && (Nat.eqb (S k) n || params_backtracking f n p1 p2 (S k) (i :: in_use)))
        (seq 0 n)
  end.

(* Constructor.extra_params_equiv *)
Definition extra_params_equiv (params1 params2 : list pdict) : bool :=
  let ne1 := filter (fun p => negb (isnil p)) params1 in
  let ne2 := filter (fun p => negb (isnil p)) params2 in
  let n := length ne1 in
  if negb (Nat.eqb (length ne2) n) then false
  else if Nat.eqb n 0 then true
  else params_backtracking n n ne1 ne2 0 [].

(* DisjointUnion.equiv / CartesianProduct.equiv / Complement.equiv / Quotient.equiv:
   isinstance(other, type(self)) and extra_params_equiv(...) ; the data is None *)
Definition ctor_equiv (c1 c2 : ctor) : bool :=
  Z.eqb (c_tag c1) (c_tag c2) && extra_params_equiv (c_params c1) (c_params c2).

(* ------------------------------------------------------------------ specifications *)
Record rule := mkRule {
  r_isrule : bool;           (* isinstance(rule, Rule)  (false: VerificationRule) *)
  r_children : list Z;       (* rule.children *)
  r_iseq : bool;             (* rule.is_equivalence() *)
  r_ctor : ctor;             (* rule.constructor (only read for Rules) *)
  r_atom : bool;             (* rule.comb_class.is_atom() *)
  r_akey : list (list Z);    (* [size of the minimum object] :: rule.get_terms(size) as sorted
                                rows  parameters ++ [count]  (only read for atoms) *)
}.
Record spec := mkSpec {
  s_root : Z;
  s_rules : list (Z * rule);   (* spec.rules_dict *)
  s_empty : list Z;            (* the classes c with c.is_empty() *)
}.

Fixpoint find_rule_in (l : list (Z * rule)) (c : Z) : option rule :=
  match l with
  | [] => None
  | (k, r) :: t => if Z.eqb k c then Some r else find_rule_in t c
  end.
Definition find_rule (s : spec) (c : Z) : option rule := find_rule_in (s_rules s) c.
Definition is_empty (s : spec) (c : Z) : bool := existsb (Z.eqb c) (s_empty s).

(* rule.children[i] for i in non_empty_ind  (non_empty_ind = the indices of the
   non-empty children; the code always uses it as rule.children[non_empty_ind[i]]) *)
Definition ne_children (s : spec) (r : rule) : list Z :=
  filter (fun c => negb (is_empty s c)) (r_children r).

Definition akey_eqb (a b : list (list Z)) : bool := list_eqb (list_eqb Z.eqb) a b.

(* ------------------------------------------------------------------ Isomorphism *)
Definition order_map := list ((Z * Z) * list Z).   (* _order_map, NEWEST FIRST *)

Record st := mkSt {
  anc : list (Z * Z);        (* _ancestors (a set: membership only) *)
  om : order_map;            (* _order_map (a dict in insertion order; head = last inserted) *)
  failed : list (Z * Z);     (* _failed *)
}.
Definition st0 : st := mkSt [] [] [].

Fixpoint om_lookup (m : order_map) (k : Z * Z) : option (list Z) :=
  match m with
  | [] => None
  | (k', v) :: t => if pair_eqb k k' then Some v else om_lookup t k
  end.
Definition om_has (m : order_map) (k : Z * Z) : bool :=
  match om_lookup m k with Some _ => true | None => false end.
(* d[k] = v : an existing key keeps its position *)
Fixpoint om_replace (m : order_map) (k : Z * Z) (v : list Z) : order_map :=
  match m with
  | [] => []
  | (k', v') :: t => if pair_eqb k k' then (k', v) :: t else (k', v') :: om_replace t k v
  end.
Definition om_set (m : order_map) (k : Z * Z) (v : list Z) : order_map :=
  if om_has m k then om_replace m k v else (k, v) :: m.
(* while len(d) > n: d.popitem() *)
Definition om_pop_to (m : order_map) (n : nat) : order_map := skipn (length m - n) m.

(* set.update / set.difference_update *)
Definition set_add (l : list (Z * Z)) (p : Z * Z) : list (Z * Z) := if pair_in p l then l else p :: l.
Definition set_add_all (l ps : list (Z * Z)) : list (Z * Z) := fold_left set_add ps l.
Definition set_remove_all (l ps : list (Z * Z)) : list (Z * Z) :=
  filter (fun p => negb (pair_in p ps)) l.

(* _get_eq_descendant, one side: [node] or [node; rule.children[0]] *)
Definition eq_path (s : spec) (n : Z) : res (list Z) :=
  match find_rule s n with
  | None => Raise 1
  | Some r =>
      if r_iseq r then
        match r_children r with
        | d :: _ => Ok [n; d]
        | [] => Raise 2
        end
      else Ok [n]
  end.

(* The pairs registered in _ancestors while the pair of current classes (c1, c2) is examined, and
   looked up by the "recursive match" test:
     exact = false   as /repo does: product(eq_path1, eq_path2);
     exact = true    the repair proposed in findings/C12_asymmetric_check.diff: only (curr1, curr2).
   Every theorem is proved for both; the harness selects the one the code under test implements. *)
Definition anc_pairs (exact : bool) (p1 p2 : list Z) (c1 c2 : Z) : list (Z * Z) :=
  if exact then [(c1, c2)] else list_prod p1 p2.

(* _base_cases: -1 invalid, 0 unknown, 1 valid *)
Definition base_cases (exact : bool) (s : st) (p1 p2 : list Z) (c1 c2 : Z) (r1 r2 : rule) (ne1 ne2 : list Z) : res Z :=
  if om_has (om s) (c1, c2) then Ok 1
  else if pair_in (c1, c2) (failed s) then Ok (-1)
  else if negb (Nat.eqb (length ne1) (length ne2)) then Ok (-1)
  else if isnil (r_children r1) && isnil (r_children r2) then
    (if r_atom r1 && r_atom r2 && akey_eqb (r_akey r1) (r_akey r2) then Ok 1 else Ok (-1))
  else if negb (r_isrule r1 && r_isrule r2) then Raise 5
  else if negb (Bool.eqb (r_iseq r1) (r_iseq r2)) then Ok (-1)
  else if negb (ctor_equiv (r_ctor r1) (r_ctor r2)) then Ok (-1)
  else if existsb (fun p => pair_in p (anc s)) (anc_pairs exact p1 p2 c1 c2) then Ok 1
  else Ok 0.

(* stack elements (i1, i2, in_use); the head of the list is the top of the stack *)
Definition elem := (nat * nat * list nat)%type.

(* _extend_stack: for i in range(n-1,-1,-1): if i in in_use: continue;
   stack.append((i1+1, i, in_use | {i})) *)
Definition extend_stack (i1 n : nat) (in_use : list nat) (stack : list elem) : list elem :=
  fold_left
    (fun stk i => if nat_in i in_use then stk else (S i1, i, i :: in_use) :: stk)
    (rev (seq 0 n)) stack.

(* stack = [(0, i, {i}) for i in range(n-1,-1,-1)] *)
Definition init_stack (n : nat) : list elem :=
  fold_left (fun stk i => (O, i, [i]) :: stk) (rev (seq 0 n)) [].

(* the `while stack` loop of _are_isomorphic; `rec` is the recursive call.
   Result: Some child_order when the last index was matched, None when the stack ran out. *)
Fixpoint iso_loop (rec : st -> Z -> Z -> res (bool * st)) (g : nat)
         (ne1 ne2 : list Z) (n : nat)
         (stack : list elem) (blacklist : list (nat * nat)) (child_order : list Z) (s : st)
  : res (option (list Z) * st) :=
  match g with
  | O => OutOfFuel
  | S g' =>
      match stack with
      | [] => Ok (None, s)
      | (i1, i2, in_use) :: stack' =>
          if npair_in (i1, i2) blacklist then
            iso_loop rec g' ne1 ne2 n stack' blacklist child_order s
          else
            match nth_error ne1 i1, nth_error ne2 i2 with
            | Some a, Some b =>
                match rec s a b with
                | Ok (false, s') =>
                    iso_loop rec g' ne1 ne2 n stack' ((i1, i2) :: blacklist) child_order s'
                | Ok (true, s') =>
                    let co := set_nth child_order i2 (Z.of_nat i1) in
                    if Nat.eqb (S i1) n then Ok (Some co, s')
                    else iso_loop rec g' ne1 ne2 n (extend_stack i1 n in_use stack') blacklist co s'
                | OutOfFuel => OutOfFuel
                | Raise e => Raise e
                end
            | _, _ => Raise 2
            end
      end
  end.

(* Isomorphism._are_isomorphic *)
Fixpoint iso (exact : bool) (s1 s2 : spec) (fuel : nat) (s : st) (n1 n2 : Z) : res (bool * st) :=
  match fuel with
  | O => OutOfFuel
  | S f =>
      eq_path s1 n1 >>= fun p1 =>
      eq_path s2 n2 >>= fun p2 =>
      let c1 := last p1 n1 in
      let c2 := last p2 n2 in
      match find_rule s1 c1, find_rule s2 c2 with
      | Some r1, Some r2 =>
          let ne1 := ne_children s1 r1 in
          let ne2 := ne_children s2 r2 in
          base_cases exact s p1 p2 c1 c2 r1 r2 ne1 ne2 >>= fun bc =>
          if Z.eqb bc 1 then Ok (true, s)
          else if Z.eqb bc (-1) then Ok (false, s)
          else
            let pr := anc_pairs exact p1 p2 c1 c2 in
            let sA := mkSt (set_add_all (anc s) pr) (om s) (failed s) in
            let n_matched := length (om s) in
            let n := length ne1 in
            iso_loop (iso exact s1 s2 f) fuel ne1 ne2 n (init_stack n) [] (repeat (-1) n) sA >>= fun r =>
            match r with
            | (Some co, s') =>
                Ok (true, mkSt (set_remove_all (anc s') pr) (om_set (om s') (c1, c2) co) (failed s'))
            | (None, s') =>
                Ok (false, mkSt (set_remove_all (anc s') pr) (om_pop_to (om s') n_matched) ((c1, c2) :: failed s'))
            end
      | _, _ => Raise 1
      end
  end.

(* Isomorphism(spec1, spec2): _isomorphic and the state left behind *)
Definition are_isomorphic (exact : bool) (s1 s2 : spec) (fuel : nat) : res (bool * st) :=
  iso exact s1 s2 fuel st0 (s_root s1) (s_root s2).

(* ------------------------------------------------------------------ ParseTreeMap *)
Inductive tree : Type :=
| Leaf (c : Z)
| Node (c : Z) (kids : list (option tree)).

(* ParseTreeMap._min_object(rule of c), as a parse tree: the class is a leaf, or an
   equivalence chain down to a leaf *)
Fixpoint min_tree (s : spec) (fuel : nat) (c : Z) : res tree :=
  match fuel with
  | O => OutOfFuel
  | S f =>
      match find_rule s c with
      | None => Raise 1
      | Some r =>
          match r_children r with
          | [] => Ok (Leaf c)
          | d :: _ =>
              if r_iseq r then min_tree s f d >>= fun t => Ok (Node c [Some t])
              else Raise 9
          end
      end
  end.

(* _get_nonempty: the parts of the object for the non-empty children, with their classes *)
Fixpoint get_nonempty (s : spec) (children : list Z) (kids : list (option tree)) : list (option (tree * Z)) :=
  match children, kids with
  | c :: cs, k :: ks =>
      if is_empty s c then get_nonempty s cs ks
      else (match k with Some t => Some (t, c) | None => None end) :: get_nonempty s cs ks
  | _, _ => []     (* zip stops at the shorter *)
  end.

(* the tuple handed to rule2.indexed_backward_map: one entry per child of rule2, None
   for an empty child, else next(child_it) mapped recursively.  `it` is child_it:
   item = None models the IndexError raised when the generator evaluates _children[idx]. *)
Fixpoint build_kids (rec : tree -> Z -> Z -> res tree) (s2 : spec) (children2 : list Z)
         (it : list (option (option (tree * Z)))) : res (list (option tree)) :=
  match children2 with
  | [] => Ok []
  | c :: rest =>
      if is_empty s2 c then build_kids rec s2 rest it >>= fun l => Ok (None :: l)
      else
        match it with
        | [] => Raise 6
        | None :: _ => Raise 2
        | Some None :: it' => build_kids rec s2 rest it' >>= fun l => Ok (None :: l)
        | Some (Some (t, c1)) :: it' =>
            rec t c1 c >>= fun u => build_kids rec s2 rest it' >>= fun l => Ok (Some u :: l)
        end
  end.

(* ParseTreeMap.map_rec(obj, rules1[c1], rules2[c2]) *)
Fixpoint map_rec (s1 s2 : spec) (ord : order_map) (fuel : nat) (t : tree) (c1 c2 : Z) : res tree :=
  match fuel with
  | O => OutOfFuel
  | S f =>
      match find_rule s1 c1, find_rule s2 c2 with
      | Some r1, Some r2 =>
          match r_children r1 with
          | [] => min_tree s2 f c2
          | d1 :: _ =>
              if negb (r_isrule r1) then Raise 5
              else
                match t with
                | Leaf _ => Raise 7
                | Node _ kids =>
                    let general (order : list Z) :=
                      if negb (r_isrule r2) then Raise 5
                      else
                        let ch := get_nonempty s1 (r_children r1) kids in
                        build_kids (fun t' a b => map_rec s1 s2 ord f t' a b) s2 (r_children r2)
                                   (map (fun idx => py_nth ch idx) order)
                        >>= fun l => Ok (Node c2 l) in
                    if r_iseq r2 then
                      if negb (r_iseq r1) then
                        match r_children r2 with
                        | [] => Raise 2
                        | d2 :: _ => map_rec s1 s2 ord f t c1 d2 >>= fun u => Ok (Node c2 [Some u])
                        end
                      else general [0]
                    else if r_iseq r1 then
                      match kids with
                      | Some t0 :: _ => map_rec s1 s2 ord f t0 d1 c2
                      | _ => Raise 7
                      end
                    else
                      match om_lookup ord (c1, c2) with
                      | None => Raise 1
                      | Some order => general order
                      end
                end
          end
      | _, _ => Raise 1
      end
  end.

(* Bijection.__init__: _get_inverse_order *)
Definition inverse_order (ord : order_map) : order_map :=
  map (fun e => ((snd (fst e), fst (fst e)), perm_inv (snd e))) ord.

(* Bijection.map / Bijection.inverse_map on the parse tree of an object of the root *)
Definition bij_map (s1 s2 : spec) (ord : order_map) (fuel : nat) (t : tree) : res tree :=
  map_rec s1 s2 ord fuel t (s_root s1) (s_root s2).
Definition bij_inverse_map (s1 s2 : spec) (ord : order_map) (fuel : nat) (u : tree) : res tree :=
  map_rec s2 s1 (inverse_order ord) fuel u (s_root s2) (s_root s1).
