(* `idescribes` (Iso/ParseTreesIso.v: hypothesis of C12_transport_inverse_objects / C12_constructed_bijection_objects:
   the descriptor read by isomorphism.py and the C07 specification describe the same rules), DECIDED on the two
   descriptor lists of one specification:
     descs   the C07 descriptors (Count/ObjectsRun.v; built by harness/props/c07.py _rule_desc under the labels of
             harness/props/c12.py Desc), read through spec_of (map dec_rule descs) and atom_run descs;
     s       the descriptor of Iso/Model.v.
   For every label below length descs: an atom [3, m, o] must be a non-empty childless atom of s whose minimum object
   has size m; a union / product rule must be a non-empty Rule of s with the same children, at least one, that is an
   equivalence with one child or has constructor tag 0 / 1; any other class (no rule, EmptyStrategy, a verification
   rule that is not an AtomStrategy) must have NO well-formed tree in s, decided by the sufficient condition no_treeb
   (no rule, or empty, or childless and not an atom, or neither an equivalence nor a Rule nor a childless atom).
   Every label of s must be in 0 .. length descs - 1 (so that classes beyond the list have no rule in s).
   As for `describes` the size function is not data: soundness is for every `size` with atom_sizes_ok.
   objects_verdict: what run_c12 prints for the appended input field [descs1, descs2]. *)
From Coq Require Import ZArith List Bool Lia Arith.
From CSS Require Import Base.Sx Base.PyList Count.ObjectsModel Count.ObjectsRun Count.ParseTrees Count.ParseTreesRun
                        Count.ParseTreesSampleDeciders.
From CSS Require Import Iso.Model Iso.Cert Iso.Valid Iso.Construct Iso.ParseTreesIso.
Import ListNotations.
Open Scope Z_scope.

Fixpoint zs_eqb (a b : list Z) : bool :=
  match a, b with
  | [], [] => true
  | x :: a', y :: b' => Z.eqb x y && zs_eqb a' b'
  | _, _ => false
  end.
Lemma zs_eqb_eq a : forall b, zs_eqb a b = true -> a = b.
Proof.
  induction a as [|x a IH]; intros [|y b] H; simpl in H; try discriminate; [reflexivity|].
  apply andb_true_iff in H. destruct H as [H1 H2]. apply Z.eqb_eq in H1. subst. f_equal. apply IH. assumption.
Qed.

Definition no_treeb (s : spec) (z : Z) : bool :=
  match find_rule s z with
  | None => true
  | Some r =>
      is_empty s z || (isnil (r_children r) && negb (r_atom r)) ||
      (negb (r_iseq r) && negb (r_isrule r) && negb (isnil (r_children r) && r_atom r))
  end.

Definition rule_matchb (s : spec) (z : Z) (kids : list nat) (tag : Z) : bool :=
  match find_rule s z with
  | Some r =>
      negb (is_empty s z) && zs_eqb (r_children r) (map Z.of_nat kids) && negb (isnil kids) && r_isrule r &&
      ((r_iseq r && Nat.eqb (length kids) 1) || (negb (r_iseq r) && (c_tag (r_ctor r) =? tag)))
  | None => false
  end.

Definition idesc_atb (descs : list sx) (s : spec) (c : nat) : bool :=
  let z := Z.of_nat c in
  match spec_of (map ObjectsRun.dec_rule descs) c, atom_run descs c with
  | Some (RVerified _), Some _ =>
      match find_rule s z, nth_error descs c with
      | Some r, Some d =>
          negb (is_empty s z) && isnil (r_children r) && r_atom r && (sx_Z (sx_nth d 1) =? asize s z)
      | _, _ => false
      end
  | Some (RUnion kids _ _), _ => rule_matchb s z kids 0
  | Some (RProduct kids _ _ _ _), _ => rule_matchb s z kids 1
  | _, _ => no_treeb s z
  end.

Definition idescribesb (descs : list sx) (s : spec) : bool :=
  forallb (idesc_atb descs s) (seq 0 (length descs)) &&
  forallb (fun zr : Z * rule => (0 <=? fst zr) && (fst zr <? Z.of_nat (length descs))) (s_rules s).

Lemma no_treeb_sound s z : no_treeb s z = true -> forall u, ~ wf_tree s z u.
Proof.
  intros H u Hw. unfold no_treeb in H.
  inversion Hw; subst;
    match goal with Hf : find_rule s _ = Some _ |- _ => rewrite Hf in H end;
    repeat match goal with
           | Hx : is_empty s _ = _ |- _ => rewrite Hx in H; clear Hx
           | Hx : r_children _ = _ |- _ => rewrite Hx in H; clear Hx
           | Hx : r_atom _ = _ |- _ => rewrite Hx in H; clear Hx
           | Hx : r_iseq _ = _ |- _ => rewrite Hx in H; clear Hx
           | Hx : r_isrule _ = _ |- _ => rewrite Hx in H; clear Hx
           end; simpl in H.
  - destruct (r_iseq r), (r_isrule r); simpl in H; discriminate.
  - discriminate.
  - destruct (r_children r) as [|k ks]; [destruct i; discriminate|]. simpl in H. discriminate.
  - destruct (r_children r) as [|k ks]; [congruence|]. simpl in H. discriminate.
Qed.

Theorem idescribesb_sound (size : Z -> Z) descs s :
  atom_sizes_ok size descs -> idescribesb descs s = true ->
  idescribes size (spec_of (map ObjectsRun.dec_rule descs)) (atom_run descs) s.
Proof.
  intros Hsz H. unfold idescribesb in H. apply andb_true_iff in H. destruct H as [Hall Hlab].
  rewrite forallb_forall in Hall. rewrite forallb_forall in Hlab.
  assert (Hbound : forall z r, find_rule s z = Some r -> 0 <= z < Z.of_nat (length descs)).
  { intros z r Hf. apply find_rule_in_rules in Hf. specialize (Hlab (z, r) Hf). simpl in Hlab.
    apply andb_true_iff in Hlab. destruct Hlab as [H1 H2]. apply Z.leb_le in H1. apply Z.ltb_lt in H2. lia. }
  split; [|intros z r Hf; apply (Hbound z r Hf)].
  intros c. unfold idesc_at.
  destruct (Nat.lt_ge_cases c (length descs)) as [Hlt|Hge].
  - assert (Hin : In c (seq 0 (length descs))) by (apply in_seq; lia).
    specialize (Hall c Hin). unfold idesc_atb in Hall.
    assert (Hm : forall kids tag, rule_matchb s (Z.of_nat c) kids tag = true ->
              exists r, find_rule s (Z.of_nat c) = Some r /\ is_empty s (Z.of_nat c) = false /\
                        r_children r = map Z.of_nat kids /\ kids <> [] /\ r_isrule r = true /\
                        ((r_iseq r = true /\ length kids = 1%nat) \/ (r_iseq r = false /\ c_tag (r_ctor r) = tag))).
    { intros kids tag Hr. unfold rule_matchb in Hr. destruct (find_rule s (Z.of_nat c)) as [r|]; [|discriminate].
      repeat (apply andb_true_iff in Hr; destruct Hr as [Hr ?]).
      exists r. split; [reflexivity|]. split; [apply negb_true_iff; assumption|].
      split; [apply zs_eqb_eq; assumption|]. split; [destruct kids; [discriminate|discriminate]|].
      split; [assumption|].
      match goal with Ho : (_ || _) = true |- _ => apply orb_true_iff in Ho; destruct Ho as [Ho|Ho];
        apply andb_true_iff in Ho; destruct Ho as [Ha Hb] end.
      - left. split; [assumption|apply Nat.eqb_eq; assumption].
      - right. split; [apply negb_true_iff; assumption|apply Z.eqb_eq; assumption]. }
    destruct (spec_of (map ObjectsRun.dec_rule descs) c) as [[kids maps bwd|kids mins maxs maps bwd|tbl]|] eqn:Es.
    + apply Hm. exact Hall.
    + apply Hm. exact Hall.
    + destruct (atom_run descs c) as [a|] eqn:Ea.
      * destruct (find_rule s (Z.of_nat c)) as [r|]; [|discriminate].
        destruct (nth_error descs c) as [d|] eqn:Ed; [|discriminate].
        repeat (apply andb_true_iff in Hall; destruct Hall as [Hall ?]).
        exists r. split; [reflexivity|]. split; [apply negb_true_iff; assumption|].
        split; [destruct (r_children r); [reflexivity|discriminate]|]. split; [assumption|].
        match goal with He : (_ =? _) = true |- _ => apply Z.eqb_eq in He; rewrite <- He end.
        unfold atom_run in Ea. rewrite Ed in Ea. exact (Hsz c d a Ed Ea).
      * apply no_treeb_sound. exact Hall.
    + destruct (atom_run descs c); apply no_treeb_sound; exact Hall.
  - assert (E1 : nth_error descs c = None) by (apply nth_error_None; lia).
    assert (E3 : spec_of (map ObjectsRun.dec_rule descs) c = None).
    { unfold spec_of. rewrite nth_error_map, E1. reflexivity. }
    rewrite E3. intros u Hw.
    assert (exists r, find_rule s (Z.of_nat c) = Some r) as [r Hf] by (inversion Hw; eauto).
    specialize (Hbound _ _ Hf). lia.
Qed.

(* the appended input field of run_c12: [descs1, descs2], or [] when the harness has no C07 descriptors;
   answer [idescribes1, rank1, closed1, idescribes2, rank2, closed2], or [] *)
Definition objects_verdict (f : sx) (s1 s2 : spec) : sx :=
  match sx_list f with
  | [] => L []
  | _ =>
      let d1 := sx_list (sx_nth f 0) in
      let d2 := sx_list (sx_nth f 1) in
      let r1 := rank_verdict d1 in
      let r2 := rank_verdict d2 in
      L [of_bool (idescribesb d1 s1); sx_nth r1 0; sx_nth r1 1;
         of_bool (idescribesb d2 s2); sx_nth r2 0; sx_nth r2 1]
  end.
