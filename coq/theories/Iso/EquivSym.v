(* Symmetry of Constructor.equiv / extra_params_equiv: the backtracking search
   _extra_params_match_bijection decides the existence of a bijection between the two
   tuples of dictionaries pairing matching dictionaries; the inverse of such a bijection
   is a bijection the other way round. *)
From Coq Require Import ZArith List Bool Lia.
From CSS Require Import Base.PyList Iso.Model Iso.SearchBasics.
Import ListNotations.
Open Scope Z_scope.

(* ------------------------------------------------------------------ _extra_params_match_single *)
Lemma list_eqb_sym {A} (eqb : A -> A -> bool) (H : forall x y, eqb x y = eqb y x) :
  forall a b, list_eqb eqb a b = list_eqb eqb b a.
Proof.
  induction a as [|x a IH]; intros [|y b]; simpl; auto.
  rewrite H, IH. reflexivity.
Qed.

Lemma params_match_single_sym : forall p q, params_match_single p q = params_match_single q p.
Proof.
  intros p q. unfold params_match_single.
  rewrite (Nat.eqb_sym (length p)). f_equal.
  apply list_eqb_sym. apply Nat.eqb_sym.
Qed.

(* ------------------------------------------------------------------ the search decides a bijection *)
(* l pairs position k + j of p1 with position l[j] of p2 *)
Definition match_from (p1 p2 : list pdict) (k : nat) (l : list nat) : Prop :=
  forall j i, nth_error l j = Some i ->
    params_match_single (nth (k + j) p1 []) (nth i p2 []) = true.

Lemma params_backtracking_gen n p1 p2 : forall m k U,
  (k + m = n)%nat ->
  params_backtracking m n p1 p2 k U = true <->
  (0 < m)%nat /\
  exists l : list nat, length l = m /\ NoDup l /\
    (forall i, In i l -> (i < n)%nat /\ ~ In i U) /\ match_from p1 p2 k l.
Proof.
  induction m as [|f IH]; intros k U Hk.
  - cbn [params_backtracking]. split; [discriminate|intros [H _]; lia].
  - cbn [params_backtracking]. rewrite existsb_exists. split.
    + intros (i & Hi & H). apply in_seq in Hi.
      apply andb_true_iff in H. destruct H as [H H3].
      apply andb_true_iff in H. destruct H as [H1 H2].
      apply negb_true_iff in H1.
      assert (HU : ~ In i U) by (rewrite <- nat_in_In; congruence).
      split; [lia|].
      destruct (Nat.eqb (S k) n) eqn:E.
      * apply Nat.eqb_eq in E. assert (f = 0)%nat by lia. subst f.
        exists [i]. split; [reflexivity|]. split; [constructor; [intros []|constructor]|].
        split.
        -- intros x [<-|[]]. split; [lia|auto].
        -- intros j x Hj. destruct j as [|j]; [|destruct j; discriminate].
           cbn in Hj. inversion Hj; subst x. rewrite Nat.add_0_r. exact H2.
      * cbn [orb] in H3. apply IH in H3; [|lia].
        destruct H3 as (_ & l & Hl & Hnd & Hin & Hm).
        exists (i :: l). split; [cbn; lia|]. split.
        -- constructor; auto. intros X. apply Hin in X. apply (proj2 X). left; reflexivity.
        -- split.
           ++ intros x [<-|Hx]; [split; [lia|auto]|].
              destruct (Hin x Hx) as [A B]. split; auto. intros C. apply B. right; auto.
           ++ intros j x Hj. destruct j as [|j].
              ** cbn in Hj. inversion Hj; subst x. rewrite Nat.add_0_r. exact H2.
              ** cbn in Hj. replace (k + S j)%nat with (S k + j)%nat by lia. apply Hm. exact Hj.
    + intros (_ & l & Hl & Hnd & Hin & Hm).
      destruct l as [|i l]; [discriminate|].
      exists i. destruct (Hin i (or_introl eq_refl)) as [A B].
      split; [apply in_seq; lia|].
      assert (nat_in i U = false) as ->.
      { destruct (nat_in i U) eqn:E; auto. apply nat_in_In in E. contradiction. }
      cbn [negb andb].
      assert (params_match_single (nth k p1 []) (nth i p2 []) = true) as ->.
      { specialize (Hm O i eq_refl). rewrite Nat.add_0_r in Hm. exact Hm. }
      cbn [andb].
      destruct (Nat.eqb (S k) n) eqn:E; [reflexivity|]. cbn [orb].
      apply Nat.eqb_neq in E. apply IH; [lia|].
      split; [lia|]. exists l. inversion Hnd; subst.
      split; [cbn in Hl; lia|]. split; [assumption|]. split.
      * intros x Hx. destruct (Hin x (or_intror Hx)) as [A' B']. split; auto.
        intros [<-|C]; auto.
      * intros j x Hj. replace (S k + j)%nat with (k + S j)%nat by lia. apply Hm. exact Hj.
Qed.

(* a bijection from the positions of p1 to the positions of p2 (as the list of its
   values) that pairs matching dictionaries *)
Definition params_bij (n : nat) (p1 p2 : list pdict) (l : list nat) : Prop :=
  length l = n /\ NoDup l /\ (forall i, In i l -> (i < n)%nat) /\
  forall k i, nth_error l k = Some i ->
    params_match_single (nth k p1 []) (nth i p2 []) = true.

Lemma params_backtracking_spec : forall n p1 p2,
  params_backtracking n n p1 p2 0 [] = true <->
  (n = 0%nat -> False) /\
  exists l : list nat, length l = n /\ NoDup l /\ (forall i, In i l -> (i < n)%nat) /\
    forall k i, nth_error l k = Some i ->
      params_match_single (nth k p1 []) (nth i p2 []) = true.
Proof.
  intros n p1 p2. rewrite (params_backtracking_gen n p1 p2 n O []) by lia.
  split.
  - intros (Hn & l & Hl & Hnd & Hin & Hm). split; [lia|].
    exists l. split; [assumption|]. split; [assumption|]. split.
    + intros i Hi. apply Hin; assumption.
    + intros k i Hk. apply (Hm k i Hk).
  - intros (Hn & l & Hl & Hnd & Hin & Hm). split; [lia|].
    exists l. split; [assumption|]. split; [assumption|]. split.
    + intros i Hi. split; [auto|intros []].
    + intros k i Hk. apply (Hm k i Hk).
Qed.

Lemma params_backtracking_spec_pos : forall n p1 p2, (0 < n)%nat ->
  (params_backtracking n n p1 p2 0 [] = true <-> exists l, params_bij n p1 p2 l).
Proof.
  intros n p1 p2 Hn. rewrite params_backtracking_spec. unfold params_bij. split.
  - intros [_ H]. exact H.
  - intros H. split; [lia|exact H].
Qed.

(* ------------------------------------------------------------------ the inverse bijection *)
Fixpoint index_of (i : nat) (l : list nat) : nat :=
  match l with
  | [] => O
  | x :: t => if Nat.eqb x i then O else S (index_of i t)
  end.

Lemma index_of_nth i l : In i l -> nth_error l (index_of i l) = Some i.
Proof.
  induction l as [|x t IH]; [intros []|]. intros H. cbn [index_of].
  destruct (Nat.eqb x i) eqn:E.
  - apply Nat.eqb_eq in E. subst. reflexivity.
  - apply Nat.eqb_neq in E. destruct H as [H|H]; [contradiction|]. cbn. auto.
Qed.

Lemma index_of_lt i l : In i l -> (index_of i l < length l)%nat.
Proof.
  intros H. apply nth_error_Some. rewrite (index_of_nth i l H). discriminate.
Qed.

Lemma NoDup_map_on {A B} (f : A -> B) (l : list A) :
  (forall x y, In x l -> In y l -> f x = f y -> x = y) -> NoDup l -> NoDup (map f l).
Proof.
  induction l as [|a l IH]; intros Hinj Hnd; cbn [map]; [constructor|].
  inversion Hnd; subst. constructor.
  - intros X. apply in_map_iff in X. destruct X as (y & Hy & Hin).
    assert (y = a) by (apply Hinj; [right; auto|left; auto|auto]). subst. contradiction.
  - apply IH; auto. intros x y Hx Hy. apply Hinj; right; auto.
Qed.

Lemma params_bij_inv n p1 p2 l : params_bij n p1 p2 l ->
  params_bij n p2 p1 (map (fun i => index_of i l) (seq 0 n)).
Proof.
  intros (Hl & Hnd & Hlt & Hm).
  assert (Hall : forall i, (i < n)%nat -> In i l).
  { intros i Hi.
    assert (Hincl : incl (seq 0 n) l).
    { apply NoDup_length_incl; auto.
      - rewrite seq_length. lia.
      - intros x Hx. apply in_seq. specialize (Hlt x Hx). lia. }
    apply Hincl. apply in_seq. lia. }
  unfold params_bij. split; [rewrite map_length, seq_length; reflexivity|]. split.
  - apply NoDup_map_on; [|apply seq_NoDup].
    intros x y Hx Hy E. apply in_seq in Hx. apply in_seq in Hy.
    assert (Ex := index_of_nth x l (Hall x ltac:(lia))).
    assert (Ey := index_of_nth y l (Hall y ltac:(lia))).
    rewrite E in Ex. congruence.
  - split.
    + intros i Hi. apply in_map_iff in Hi. destruct Hi as (x & <- & Hx).
      apply in_seq in Hx. rewrite <- Hl. apply index_of_lt. apply Hall. lia.
    + intros k j Hk.
      assert (Hkn : (k < n)%nat).
      { assert (X : nth_error (map (fun i => index_of i l) (seq 0 n)) k <> None) by congruence.
        apply nth_error_Some in X. rewrite map_length, seq_length in X. exact X. }
      rewrite nth_error_map in Hk.
      assert (Es : nth_error (seq 0 n) k = Some k).
      { rewrite (nth_error_nth' (seq 0 n) O) by (rewrite seq_length; exact Hkn).
        rewrite seq_nth by exact Hkn. reflexivity. }
      rewrite Es in Hk. cbn in Hk. inversion Hk; subst j.
      rewrite params_match_single_sym. apply Hm. apply index_of_nth. apply Hall. exact Hkn.
Qed.

Lemma params_bij_sym n p1 p2 :
  (exists l, params_bij n p1 p2 l) <-> (exists l, params_bij n p2 p1 l).
Proof. split; intros [l H]; eexists; apply params_bij_inv; exact H. Qed.

Lemma params_backtracking_sym n p1 p2 :
  params_backtracking n n p1 p2 0 [] = params_backtracking n n p2 p1 0 [].
Proof.
  destruct n as [|n]; [reflexivity|].
  apply eq_true_iff_eq.
  rewrite !params_backtracking_spec_pos by lia. apply params_bij_sym.
Qed.

(* ------------------------------------------------------------------ Constructor.equiv is symmetric *)
Theorem extra_params_equiv_sym : forall a b, extra_params_equiv a b = extra_params_equiv b a.
Proof.
  intros a b. unfold extra_params_equiv.
  set (ne1 := filter (fun p => negb (isnil p)) a).
  set (ne2 := filter (fun p => negb (isnil p)) b).
  rewrite (Nat.eqb_sym (length ne1) (length ne2)).
  destruct (Nat.eqb (length ne2) (length ne1)) eqn:E; cbn [negb]; [|reflexivity].
  apply Nat.eqb_eq in E. rewrite E.
  destruct (Nat.eqb (length ne1) 0); [reflexivity|].
  apply params_backtracking_sym.
Qed.

Theorem ctor_equiv_sym : forall c1 c2, ctor_equiv c1 c2 = ctor_equiv c2 c1.
Proof.
  intros c1 c2. unfold ctor_equiv.
  rewrite (Z.eqb_sym (c_tag c1)), extra_params_equiv_sym. reflexivity.
Qed.
