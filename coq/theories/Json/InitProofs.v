(* C18 — what CombinatorialSpecification.__init__(root, rules, group_equiv=False)
   establishes: the well-formedness the round-trip theorem assumes. *)
From Coq Require Import ZArith List Bool Lia.
From CSS Require Import Base.PyList Json.Model Json.Proofs Json.SpecProofs.
Import ListNotations.
Open Scope Z_scope.

Section InitProofs.
Variable cls : Type.
Variable cls_eqb : cls -> cls -> bool.
Hypothesis cls_eqb_spec : forall a b, cls_eqb a b = true <-> a = b.
Variable is_empty : cls -> bool.
Variable cat_of : str -> str -> option scat.
Variable user_from_dict : str -> str -> list (str * json) -> res (option flags * list (str * json)).
Variable decomp : strat -> cls -> option (list cls).
Variable reversible : strat -> cls -> bool.
Variable eqv_cap : strat -> cls -> option Z -> bool.
(* the library's EmptyStrategy is found under its own name *)
Hypothesis empty_cat : cat_of strategy_module n_EmptyStrategy = Some CEmpty.

Notation rule := (rule cls).
Notation spec := (spec cls).
Notation strat_ok := (strat_ok cat_of user_from_dict).
Notation rule_attrs := (rule_attrs cls is_empty).
Notation rule_class := (rule_class cls is_empty).
Notation rule_children := (rule_children cls is_empty).
Notation rule_ok := (rule_ok cls cls_eqb is_empty cat_of decomp reversible eqv_cap).
Notation rule_strats_ok := (rule_strats_all cls strat_ok).
Notation spec_init := (spec_init cls cls_eqb is_empty cat_of decomp).
Notation rules_dict := (rules_dict cls cls_eqb is_empty).
Notation set_subrules := (set_subrules cls cls_eqb is_empty cat_of decomp).
Notation get_rules := (get_rules cls cls_eqb is_empty cat_of decomp).
Notation get_rule := (get_rule cls cls_eqb is_empty cat_of decomp).
Notation spec_closed := (spec_closed cls cls_eqb is_empty).
Notation spec_wf := (spec_wf cls cls_eqb is_empty cat_of user_from_dict decomp reversible eqv_cap).
Notation empty_rule c := (RVerif cls empty_strategy c []).

Definition good (r : rule) : Prop := rule_ok r = true /\ rule_strats_ok r.

(* entries are keyed by the rule's own class, keys are pairwise different *)
Definition Inv (d : list (cls * rule)) : Prop :=
  keys_nodup cls_eqb (map fst d) = true /\
  Forall (fun kr => rule_class (snd kr) = Some (fst kr) /\ good (snd kr)) d.

Lemma ceq_refl c : cls_eqb c c = true.
Proof. apply cls_eqb_spec. reflexivity. Qed.

Lemma dset_keys_c (k : cls) (v : rule) d :
  map fst (dset cls_eqb k v d) = if dmem cls_eqb k d then map fst d else map fst d ++ [k].
Proof.
  unfold dmem. induction d as [|[k' v'] d IH]; simpl; auto.
  destruct (cls_eqb k k') eqn:E; simpl; auto.
  rewrite IH. destruct (dget cls_eqb k d); reflexivity.
Qed.

Lemma dset_In (k : cls) (v : rule) d kr :
  In kr (dset cls_eqb k v d) -> kr = (k, v) \/ In kr d.
Proof.
  induction d as [|[k' v'] d IH]; simpl.
  - intros [H|[]]; auto.
  - destruct (cls_eqb k k') eqn:E; simpl.
    + apply cls_eqb_spec in E. subst k'. intros [H|H]; auto.
    + intros [H|H]; auto. destruct (IH H); auto.
Qed.

Lemma Inv_dset k r d : Inv d -> rule_class r = Some k -> good r -> Inv (dset cls_eqb k r d).
Proof.
  intros [Hn Hf] Hk Hg. split.
  - rewrite dset_keys_c. unfold dmem. destruct (dget cls_eqb k d) eqn:E; auto.
    apply (keys_nodup_snoc cls cls_eqb cls_eqb_spec); auto.
    apply (dget_none_iff cls_eqb). exact E.
  - apply Forall_forall. intros kr Hin. apply dset_In in Hin. destruct Hin as [->|Hin]; simpl; auto.
    rewrite Forall_forall in Hf. apply Hf. exact Hin.
Qed.

Lemma rules_dict_Inv rs : forall d d',
  Forall good rs -> Inv d -> rules_dict rs d = Ok d' -> Inv d'.
Proof.
  induction rs as [|r rs IH]; intros d d' Hg Hd H; simpl in H.
  - inversion H; subst; auto.
  - inversion Hg; subst. destruct (rule_class r) as [c|] eqn:Ec; simpl in H; [|discriminate].
    apply (IH (dset cls_eqb c r d) d'); auto. apply Inv_dset; auto.
Qed.

Lemma empty_rule_good c : is_empty c = true -> good (empty_rule c) /\ rule_class (empty_rule c) = Some c.
Proof.
  intros He. split; [split|reflexivity].
  - simpl. unfold is_verif_cat, Model.decomp', Model.cat. simpl. rewrite empty_cat, He. reflexivity.
  - simpl. unfold Proofs.strat_ok, Model.cat. simpl. rewrite empty_cat. split; reflexivity.
Qed.

Lemma mk_verif_empty c : is_empty c = true ->
  mk_verif cls is_empty cat_of decomp empty_strategy c = Ok (empty_rule c).
Proof.
  intros He. unfold mk_verif, is_verif_cat, Model.decomp', Model.cat. simpl. rewrite empty_cat, He. reflexivity.
Qed.

Lemma dmem_app_l c (d1 d2 : list (cls * rule)) : dmem cls_eqb c d1 = true -> dmem cls_eqb c (d1 ++ d2) = true.
Proof.
  unfold dmem. destruct (dget cls_eqb c d1) eqn:E; [|discriminate].
  rewrite (dget_app_some cls_eqb _ _ _ _ E). reflexivity.
Qed.

Lemma dmem_snoc c (d : list (cls * rule)) r : dmem cls_eqb c (d ++ [(c, r)]) = true.
Proof.
  unfold dmem. destruct (dget cls_eqb c d) eqn:E.
  - rewrite (dget_app_some cls_eqb _ _ _ _ E). reflexivity.
  - rewrite (dget_app_none cls_eqb _ _ _ E). simpl. rewrite ceq_refl. reflexivity.
Qed.

(* how the dictionary grows: old entries stay, new ones are empty rules *)
Definition extends (d d' : list (cls * rule)) : Prop :=
  exists add, d' = d ++ add /\ Forall (fun kr => snd kr = empty_rule (fst kr) /\ is_empty (fst kr) = true) add.

Lemma extends_refl d : extends d d.
Proof. exists []. rewrite app_nil_r. auto. Qed.

Lemma extends_trans d1 d2 d3 : extends d1 d2 -> extends d2 d3 -> extends d1 d3.
Proof.
  intros (a1 & -> & H1) (a2 & -> & H2). exists (a1 ++ a2). rewrite app_assoc. split; auto.
  apply Forall_app. auto.
Qed.

Lemma extends_dmem d d' c : extends d d' -> dmem cls_eqb c d = true -> dmem cls_eqb c d' = true.
Proof. intros (a & -> & _). apply dmem_app_l. Qed.

Lemma get_rule_spec d c d' :
  Inv d -> get_rule d c = Ok d' -> Inv d' /\ extends d d' /\ dmem cls_eqb c d' = true.
Proof.
  intros Hd H. unfold Model.get_rule in H. destruct (dmem cls_eqb c d) eqn:E.
  - inversion H; subst. auto using extends_refl.
  - destruct (is_empty c) eqn:He; simpl in H; [|discriminate].
    rewrite (mk_verif_empty c He) in H. simpl in H. inversion H; subst.
    destruct (empty_rule_good c He) as [Hg Hc].
    split; [|split].
    + destruct Hd as [Hn Hf]. split.
      * rewrite map_app. simpl. apply (keys_nodup_snoc cls cls_eqb cls_eqb_spec); auto.
        apply (dget_none_iff cls_eqb). unfold dmem in E. destruct (dget cls_eqb c d); [discriminate|reflexivity].
      * apply Forall_app. split; auto.
    + exists [(c, empty_rule c)]. split; auto.
    + apply dmem_snoc.
Qed.

Lemma get_rules_spec cs : forall d d',
  Inv d -> get_rules d cs = Ok d' ->
  Inv d' /\ extends d d' /\ forallb (fun x => dmem cls_eqb x d') cs = true.
Proof.
  induction cs as [|c cs IH]; intros d d' Hd H; simpl in H.
  - inversion H; subst. simpl. auto using extends_refl.
  - destruct (get_rule d c) as [d1|] eqn:E1; simpl in H; [|discriminate].
    destruct (get_rule_spec d c d1 Hd E1) as (H1 & H2 & H3).
    destruct (IH d1 d' H1 H) as (H4 & H5 & H6).
    split; [|split]; auto.
    + eapply extends_trans; eauto.
    + simpl. rewrite (extends_dmem _ _ _ H5 H3), H6. reflexivity.
Qed.

Lemma set_subrules_spec rl : forall d d',
  Inv d -> set_subrules rl d = Ok d' ->
  Inv d' /\ extends d d' /\
  Forall (fun r => exists ch, rule_children r = Some ch /\
                             forallb (fun x => dmem cls_eqb x d') ch = true) rl.
Proof.
  induction rl as [|r rl IH]; intros d d' Hd H; simpl in H.
  - inversion H; subst. auto using extends_refl.
  - destruct (rule_children r) as [ch|] eqn:Ec; simpl in H; [|discriminate].
    destruct (get_rules d ch) as [d1|] eqn:E1; simpl in H; [|discriminate].
    destruct (get_rules_spec ch d d1 Hd E1) as (H1 & H2 & H3).
    destruct (IH d1 d' H1 H) as (H4 & H5 & H6).
    split; [|split]; auto.
    + eapply extends_trans; eauto.
    + constructor; auto. exists ch. split; auto.
      rewrite forallb_forall in *. intros x Hx. eapply extends_dmem; eauto.
Qed.

(* every specification object built by the constructor from rules that went
   through their own constructors is well formed *)
Theorem spec_init_wf root rules s :
  Forall good rules -> spec_init root rules = Ok s -> spec_wf s.
Proof.
  intros Hg H. unfold Model.spec_init in H.
  destruct (rules_dict rules []) as [d0|] eqn:E0; simpl in H; [|discriminate].
  destruct (set_subrules (map snd d0) d0) as [d1|] eqn:E1; simpl in H; [|discriminate].
  destruct (dmem cls_eqb root d1) eqn:Er; simpl in H; [|discriminate].
  inversion H; subst s. clear H.
  assert (Inv d0) as I0.
  { eapply rules_dict_Inv; eauto. split; [reflexivity|constructor]. }
  destruct (set_subrules_spec (map snd d0) d0 d1 I0 E1) as ([Hn Hf] & (add & -> & Hadd) & Hch).
  split; [exact Hn|]. split.
  - unfold Model.spec_closed. simpl. rewrite Er, andb_true_r.
    apply forallb_forall. intros [k r] Hin. simpl.
    rewrite Forall_forall in Hf. destruct (Hf _ Hin) as [Hk _]. simpl in Hk. rewrite Hk.
    apply in_app_or in Hin. destruct Hin as [Hin|Hin].
    + rewrite Forall_forall in Hch. destruct (Hch r) as (ch & Hc1 & Hc2).
      { apply in_map_iff. exists (k, r). auto. }
      rewrite Hc1, ceq_refl. exact Hc2.
    + rewrite Forall_forall in Hadd. destruct (Hadd _ Hin) as [Hr _]. simpl in Hr. subst r.
      simpl. rewrite ceq_refl. reflexivity.
  - simpl. eapply Forall_impl; [|exact Hf]. intros kr [_ Hg']. exact Hg'.
Qed.

Lemma rules_dict_In rs : forall d d' kr,
  rules_dict rs d = Ok d' -> In kr d' -> In (snd kr) rs \/ In kr d.
Proof.
  induction rs as [|r rs IH]; intros d d' kr H Hin; simpl in H.
  - inversion H; subst; auto.
  - destruct (rule_class r) as [c|]; simpl in H; [|discriminate].
    destruct (IH _ _ _ H Hin) as [H1|H1]; [left; right; exact H1|].
    apply dset_In in H1. destruct H1 as [->|H1]; [left; left; reflexivity|right; exact H1].
Qed.

(* the constructor itself never creates a strategy instance with __orig_class__
   (get_rule instantiates EmptyStrategy plainly) *)
Theorem spec_init_plain root rules s :
  forallb (rule_plain cls) rules = true -> spec_init root rules = Ok s -> spec_plain cls s = true.
Proof.
  intros Hp H. unfold Model.spec_init in H.
  destruct (rules_dict rules []) as [d0|] eqn:E0; simpl in H; [|discriminate].
  destruct (set_subrules (map snd d0) d0) as [d1|] eqn:E1; simpl in H; [|discriminate].
  destruct (dmem cls_eqb root d1) eqn:Er; simpl in H; [|discriminate].
  inversion H; subst s. clear H.
  assert (forall d d', set_subrules (map snd d0) d = Ok d' ->
            exists add, d' = d ++ add /\ Forall (fun kr => rule_plain cls (snd kr) = true) add) as Hext.
  { generalize (map snd d0). intros rl. induction rl as [|r rl IH]; intros d d' H; simpl in H.
    - inversion H; subst. exists []. rewrite app_nil_r. auto.
    - destruct (rule_children r) as [ch|]; simpl in H; [|discriminate].
      destruct (get_rules d ch) as [d2|] eqn:E2; simpl in H; [|discriminate].
      assert (exists add, d2 = d ++ add /\ Forall (fun kr => rule_plain cls (snd kr) = true) add) as (a1 & -> & Ha1).
      { clear H. revert d d2 E2. induction ch as [|c ch IHc]; intros d d2 E2; simpl in E2.
        - inversion E2; subst. exists []. rewrite app_nil_r. auto.
        - destruct (get_rule d c) as [d3|] eqn:E3; simpl in E2; [|discriminate].
          destruct (IHc _ _ E2) as (a & -> & Ha).
          unfold Model.get_rule in E3. destruct (dmem cls_eqb c d).
          + inversion E3; subst. eauto.
          + destruct (is_empty c) eqn:He; simpl in E3; [|discriminate].
            rewrite (mk_verif_empty c He) in E3. simpl in E3. inversion E3; subst.
            exists ((c, empty_rule c) :: a). rewrite <- app_assoc. split; auto. }
      destruct (IH _ _ H) as (a2 & -> & Ha2). exists (a1 ++ a2). rewrite app_assoc. split; auto.
      apply Forall_app. auto. }
  destruct (Hext _ _ E1) as (add & -> & Hadd).
  unfold spec_plain. simpl. apply forallb_forall. intros kr Hin.
  apply in_app_or in Hin. destruct Hin as [Hin|Hin].
  - destruct (rules_dict_In _ _ _ _ E0 Hin) as [H1|[]].
    rewrite forallb_forall in Hp. apply Hp. exact H1.
  - rewrite Forall_forall in Hadd. apply Hadd. exact Hin.
Qed.

End InitProofs.
