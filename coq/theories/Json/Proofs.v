(* C18 — lemmas: strings, dictionaries, strategy / rule / pack / specification round trips *)
From Coq Require Import ZArith List Bool Lia.
From CSS Require Import Base.PyList Json.Model.
Import ListNotations.
Open Scope Z_scope.

Ltac csplit := repeat match goal with |- _ /\ _ => split end.

(* ------------------------------------------------------------------ strings *)
Lemma str_eqb_refl s : str_eqb s s = true.
Proof. induction s as [|x s IH]; simpl; auto. rewrite Z.eqb_refl, IH. reflexivity. Qed.

Lemma str_eqb_eq a b : str_eqb a b = true <-> a = b.
Proof.
  split.
  - revert b; induction a as [|x a IH]; intros [|y b] H; simpl in H; try discriminate; auto.
    apply andb_true_iff in H. destruct H as [H1 H2]. apply Z.eqb_eq in H1. f_equal; auto.
  - intros ->. apply str_eqb_refl.
Qed.

(* ------------------------------------------------------------------ json *)
Section JsonInd.
Variable P : json -> Prop.
Hypothesis HNull : P JNull.
Hypothesis HBool : forall b, P (JBool b).
Hypothesis HNum : forall z, P (JNum z).
Hypothesis HStr : forall s, P (JStr s).
Hypothesis HArr : forall l, Forall P l -> P (JArr l).
Hypothesis HObj : forall kv, Forall (fun p => P (snd p)) kv -> P (JObj kv).

Fixpoint json_ind' (j : json) : P j :=
  match j with
  | JNull => HNull
  | JBool b => HBool b
  | JNum z => HNum z
  | JStr s => HStr s
  | JArr l => HArr l ((fix go (l : list json) : Forall P l :=
                         match l with
                         | [] => Forall_nil _
                         | x :: t => Forall_cons _ (json_ind' x) (go t)
                         end) l)
  | JObj kv => HObj kv ((fix go (l : list (str * json)) : Forall (fun p => P (snd p)) l :=
                           match l with
                           | [] => Forall_nil _
                           | x :: t => Forall_cons _ (json_ind' (snd x)) (go t)
                           end) kv)
  end.
End JsonInd.

Lemma json_eqb_refl j : json_eqb j j = true.
Proof.
  induction j using json_ind'; simpl; auto.
  - destruct b; reflexivity.
  - apply Z.eqb_refl.
  - apply str_eqb_refl.
  - induction H as [|x l Hx Hl IH]; auto. rewrite Hx. exact IH.
  - induction H as [|[k x] l Hx Hl IH]; auto. simpl in Hx. rewrite str_eqb_refl, Hx. exact IH.
Qed.

(* ------------------------------------------------------------------ results *)
Lemma mapM_map {A B C} (f : B -> res C) (g : A -> B) (h : A -> C) (l : list A) :
  Forall (fun x => f (g x) = Ok (h x)) l -> mapM f (map g l) = Ok (map h l).
Proof.
  induction 1 as [|x l Hx Hl IH]; simpl; auto. rewrite Hx. simpl. rewrite IH. reflexivity.
Qed.

Lemma sequence_map {A B C} (f : B -> res C) (g : A -> B) (h : A -> C) (l : list A) :
  Forall (fun x => f (g x) = Ok (h x)) l -> sequence (map f (map g l)) = Ok (map h l).
Proof.
  induction 1 as [|x l Hx Hl IH]; simpl; auto. rewrite Hx. simpl. rewrite IH. reflexivity.
Qed.

(* ------------------------------------------------------------------ dicts *)
Lemma jpop_hit k v t : jpop k ((k, v) :: t) = Ok (v, t).
Proof. unfold jpop. simpl. rewrite str_eqb_refl. reflexivity. Qed.

Lemma jpop_skip k k' v' t :
  str_eqb k k' = false ->
  jpop k ((k', v') :: t) =
  match jpop k t with Ok p => Ok (fst p, (k', v') :: snd p) | Err e => Err e end.
Proof.
  intros H. unfold jpop. simpl. rewrite H. destruct (dget str_eqb k t); reflexivity.
Qed.

Section DictLemmas.
Context {K V : Type}.
Variable keqb : K -> K -> bool.
Hypothesis keqb_spec : forall a b, keqb a b = true <-> a = b.

Lemma keqb_refl a : keqb a a = true.
Proof. apply keqb_spec. reflexivity. Qed.

Lemma dget_app_none k (d1 d2 : list (K * V)) :
  dget keqb k d1 = None -> dget keqb k (d1 ++ d2) = dget keqb k d2.
Proof.
  induction d1 as [|[k' v] d1 IH]; simpl; auto.
  destruct (keqb k k'); [discriminate|]. exact IH.
Qed.

Lemma dget_app_some k v (d1 d2 : list (K * V)) :
  dget keqb k d1 = Some v -> dget keqb k (d1 ++ d2) = Some v.
Proof.
  induction d1 as [|[k' v'] d1 IH]; simpl; [discriminate|].
  destruct (keqb k k'); auto.
Qed.

Lemma dset_absent k v (d : list (K * V)) :
  dget keqb k d = None -> dset keqb k v d = d ++ [(k, v)].
Proof.
  induction d as [|[k' v'] d IH]; simpl; auto.
  destruct (keqb k k'); [discriminate|]. intros H. rewrite IH; auto.
Qed.

Lemma dget_dset_same k v (d : list (K * V)) : dget keqb k (dset keqb k v d) = Some v.
Proof.
  induction d as [|[k' v'] d IH]; simpl.
  - rewrite keqb_refl. reflexivity.
  - destruct (keqb k k') eqn:E; simpl; rewrite E; auto.
Qed.

Lemma dget_dset_other k k' v (d : list (K * V)) :
  keqb k' k = false -> dget keqb k' (dset keqb k v d) = dget keqb k' d.
Proof.
  intros Hne. induction d as [|[k2 v2] d IH]; simpl.
  - rewrite Hne. reflexivity.
  - destruct (keqb k k2) eqn:E; simpl.
    + apply keqb_spec in E. subst k2. rewrite Hne. reflexivity.
    + destruct (keqb k' k2); auto.
Qed.

(* keys pairwise different *)
Fixpoint keys_nodup (l : list K) : bool :=
  match l with
  | [] => true
  | x :: t => negb (existsb (keqb x) t) && keys_nodup t
  end.

Lemma dget_none_iff k (d : list (K * V)) :
  dget keqb k d = None <-> existsb (keqb k) (map fst d) = false.
Proof.
  induction d as [|[k' v] d IH]; simpl; [tauto|].
  destruct (keqb k k'); simpl; [split; discriminate|exact IH].
Qed.

Lemma dict_eqb_refl (veqb : V -> V -> bool) (d : list (K * V)) :
  (forall v, veqb v v = true) ->
  keys_nodup (map fst d) = true -> dict_eqb keqb veqb d d = true.
Proof.
  intros Hv Hn. unfold dict_eqb. rewrite Nat.eqb_refl. simpl.
  assert (forall pre, keys_nodup (map fst (pre ++ d)) = true ->
            forallb (fun kv => match dget keqb (fst kv) (pre ++ d) with
                               | Some v' => veqb (snd kv) v' | None => false end) d = true) as G.
  { clear Hn. induction d as [|[k v] d IH]; intros pre Hn; simpl; auto.
    assert (dget keqb k (pre ++ (k, v) :: d) = Some v) as ->.
    { clear IH. induction pre as [|[k' v'] pre IHp]; simpl in *.
      - rewrite keqb_refl. reflexivity.
      - apply andb_true_iff in Hn. destruct Hn as [Hn1 Hn2].
        destruct (keqb k k') eqn:E.
        + apply keqb_spec in E. subst k'. exfalso.
          apply negb_true_iff in Hn1. rewrite map_app in Hn1. simpl in Hn1.
          rewrite existsb_app in Hn1. simpl in Hn1. rewrite keqb_refl in Hn1.
          rewrite orb_true_r in Hn1. discriminate.
        + apply IHp. exact Hn2. }
    rewrite Hv. simpl.
    specialize (IH (pre ++ [(k, v)])). rewrite <- app_assoc in IH. simpl in IH. apply IH. exact Hn. }
  apply (G []). exact Hn.
Qed.

Lemma dict_eqb_length (veqb : V -> V -> bool) (a b : list (K * V)) :
  dict_eqb keqb veqb a b = true -> length a = length b.
Proof.
  unfold dict_eqb. intros H. apply andb_true_iff in H. destruct H as [H _].
  apply Nat.eqb_eq in H. exact H.
Qed.
End DictLemmas.

Lemma list_eqb_eq {A} (eqb : A -> A -> bool) :
  (forall a b, eqb a b = true <-> a = b) ->
  forall a b, list_eqb eqb a b = true <-> a = b.
Proof.
  intros Hs a. induction a as [|x a IH]; intros [|y b]; simpl; split; intros H; try discriminate; auto.
  - apply andb_true_iff in H. destruct H as [H1 H2]. apply Hs in H1. apply IH in H2. congruence.
  - inversion H; subst. apply andb_true_iff. split; [apply Hs|apply IH]; reflexivity.
Qed.

Lemma list_eqb_refl {A} (eqb : A -> A -> bool) (l : list A) :
  Forall (fun x => eqb x x = true) l -> list_eqb eqb l l = true.
Proof. induction 1; simpl; auto. rewrite H, IHForall. reflexivity. Qed.

(* ------------------------------------------------------------------ strategies *)
Lemma strip_idem s : strip (strip s) = strip s.
Proof. reflexivity. Qed.

Lemma plain_strip s : plain s = true -> strip s = s.
Proof. destruct s as [m n f u e]. unfold plain, strip. simpl. destruct e; [reflexivity|discriminate]. Qed.

Lemma strip_plain s : plain (strip s) = true.
Proof. reflexivity. Qed.

Lemma eq_extra_only_orig s : only_orig_class s = true -> eq_extra s = [].
Proof.
  unfold only_orig_class, eq_extra. induction (s_extra s) as [|[k v] l IH]; simpl; auto.
  intros H. apply andb_true_iff in H. destruct H as [H1 H2]. rewrite H1. simpl. auto.
Qed.

(* equality is exactly the comparison of kind and settings: how the instance
   was created (plainly, by from_dict, through a subscripted alias) is irrelevant *)
Lemma strat_eq_settings a b :
  only_orig_class a = true -> only_orig_class b = true -> strat_eq a b = settings_eq a b.
Proof.
  intros Ha Hb. unfold strat_eq, settings_eq.
  rewrite (eq_extra_only_orig a Ha), (eq_extra_only_orig b Hb).
  unfold dict_eqb at 2. simpl. rewrite andb_true_r. reflexivity.
Qed.

Lemma only_orig_strip s : only_orig_class (strip s) = true.
Proof. reflexivity. Qed.

Lemma settings_eq_strip_l a b : settings_eq (strip a) b = settings_eq a b.
Proof. reflexivity. Qed.

Lemma settings_eq_strip_r a b : settings_eq a (strip b) = settings_eq a b.
Proof. reflexivity. Qed.

Section StratProofs.
Variable cat_of : str -> str -> option scat.
Variable user_from_dict : str -> str -> list (str * json) -> res (option flags * list (str * json)).
Notation cat := (cat cat_of).
Notation json_of_strat := (json_of_strat cat_of).
Notation strat_of_json := (strat_of_json cat_of user_from_dict).

(* the documented contract of a strategy class: from_dict restores what
   to_jsonable wrote (flags and settings); the library's own AtomStrategy /
   EmptyStrategy have fixed flags and no settings *)
Definition strat_ok (s : strat) : Prop :=
  match cat s with
  | None => False
  | Some CAtom | Some CEmpty => s_flags s = fixed_flags /\ s_user s = []
  | Some c =>
      user_from_dict (s_mod s) (s_name s) (base_entries c (s_flags s) ++ s_user s)
      = Ok (s_flags s, s_user s)
  end.

Lemma cat_strip s : cat (strip s) = cat s.
Proof. reflexivity. Qed.

Lemma strat_ok_strip s : strat_ok s -> strat_ok (strip s).
Proof. unfold strat_ok. rewrite cat_strip. simpl. auto. Qed.

Lemma json_of_strat_strip s : json_of_strat (strip s) = json_of_strat s.
Proof. reflexivity. Qed.

Lemma strat_roundtrip s : strat_ok s -> strat_of_json (json_of_strat s) = Ok (strip s).
Proof.
  unfold strat_ok, json_of_strat, Model.strat_of_json, Model.cat.
  destruct (cat_of (s_mod s) (s_name s)) as [c|] eqn:Ec; [|tauto].
  intros H. cbn [as_obj bind]. rewrite jpop_hit. cbn [bind fst snd as_str].
  rewrite jpop_hit. cbn [bind fst snd as_str]. rewrite Ec.
  destruct c; cbn [bind].
  - rewrite H. reflexivity.
  - rewrite H. reflexivity.
  - destruct H as [Hf Hu]. unfold strip. rewrite Hu, Hf. reflexivity.
  - destruct H as [Hf Hu]. unfold strip. rewrite Hu, Hf. reflexivity.
  - rewrite H. reflexivity.
Qed.

Lemma strat_of_json_plain j s : strat_of_json j = Ok s -> plain s = true.
Proof.
  unfold Model.strat_of_json. destruct j; simpl; try discriminate.
  destruct (jpop k_class_module kv) as [[v1 d1]|]; simpl; [|discriminate].
  destruct (as_str v1) as [m|]; simpl; [|discriminate].
  destruct (jpop k_strategy_class d1) as [[v2 d2]|]; simpl; [|discriminate].
  destruct (as_str v2) as [n|]; simpl; [|discriminate].
  destruct (cat_of m n) as [[| | | |]|]; simpl; try discriminate.
  - destruct (user_from_dict m n d2) as [[f u]|]; simpl; [|discriminate]. intros H. inversion H. reflexivity.
  - destruct (user_from_dict m n d2) as [[f u]|]; simpl; [|discriminate]. intros H. inversion H. reflexivity.
  - destruct d2; simpl; [|discriminate]. intros H. inversion H. reflexivity.
  - destruct d2; simpl; [|discriminate]. intros H. inversion H. reflexivity.
  - destruct (user_from_dict m n d2) as [[f u]|]; simpl; [|discriminate]. intros H. inversion H. reflexivity.
Qed.

End StratProofs.

Section Proofs.
Variable cls : Type.
Variable cls_eqb : cls -> cls -> bool.
Hypothesis cls_eqb_spec : forall a b, cls_eqb a b = true <-> a = b.
Variable cls_to_json : cls -> json.
Variable cls_of_json : json -> res cls.
Hypothesis cls_roundtrip : forall c, cls_of_json (cls_to_json c) = Ok c.
Variable is_empty : cls -> bool.
Variable cat_of : str -> str -> option scat.
Variable user_from_dict : str -> str -> list (str * json) -> res (option flags * list (str * json)).
Variable decomp : strat -> cls -> option (list cls).
Variable reversible : strat -> cls -> bool.
Variable eqv_cap : strat -> cls -> option Z -> bool.

Notation rule := (rule cls).
Notation cat := (cat cat_of).
Notation json_of_strat := (json_of_strat cat_of).
Notation strat_of_json := (strat_of_json cat_of user_from_dict).
Notation decomp' := (decomp' cls is_empty cat_of decomp).
Notation rule_attrs := (rule_attrs cls is_empty).
Notation rule_class := (rule_class cls is_empty).
Notation rule_strat := (rule_strat cls is_empty).
Notation rule_children := (rule_children cls is_empty).
Notation is_equivalence := (is_equivalence cls is_empty eqv_cap).
Notation is_reversible := (is_reversible cls is_empty reversible).
Notation mk_rule := (mk_rule cls is_empty cat_of decomp).
Notation mk_verif := (mk_verif cls is_empty cat_of decomp).
Notation mk_equiv := (mk_equiv cls is_empty eqv_cap).
Notation mk_path := (mk_path cls is_empty eqv_cap).
Notation mk_reverse := (mk_reverse cls is_empty reversible).
Notation rule_ok := (rule_ok cls cls_eqb is_empty cat_of decomp reversible eqv_cap).
Notation json_of_rule := (json_of_rule cls cls_to_json cat_of).
Notation rule_of_json := (rule_of_json cls cls_of_json is_empty cat_of user_from_dict decomp reversible eqv_cap).
Notation rule_dispatch := (rule_dispatch cls cls_of_json is_empty cat_of user_from_dict decomp reversible eqv_cap).
Notation from_dict_Rule := (from_dict_Rule cls cls_of_json is_empty cat_of user_from_dict decomp).
Notation from_dict_Verif := (from_dict_Verif cls cls_of_json is_empty cat_of user_from_dict decomp).
Notation strip_rule := (strip_rule cls).
Notation rule_plain := (rule_plain cls).
Notation strat_ok := (strat_ok cat_of user_from_dict).
Notation strat_roundtrip := (strat_roundtrip cat_of user_from_dict).

(* ------------------------------------------------------------------ rules *)
Section RuleInd.
Variable P : rule -> Prop.
Hypothesis HRule : forall s c ch, P (RRule cls s c ch).
Hypothesis HVerif : forall s c ch, P (RVerif cls s c ch).
Hypothesis HEquiv : forall r, P r -> P (REquiv cls r).
Hypothesis HPath : forall rs, Forall P rs -> P (RPath cls rs).
Hypothesis HReverse : forall r idx, P r -> P (RReverse cls r idx).

Fixpoint rule_ind' (r : rule) : P r :=
  match r with
  | RRule _ s c ch => HRule s c ch
  | RVerif _ s c ch => HVerif s c ch
  | REquiv _ r0 => HEquiv r0 (rule_ind' r0)
  | RPath _ rs => HPath rs ((fix go (l : list rule) : Forall P l :=
                               match l with
                               | [] => Forall_nil _
                               | x :: t => Forall_cons _ (rule_ind' x) (go t)
                               end) rs)
  | RReverse _ r0 idx => HReverse r0 idx (rule_ind' r0)
  end.
End RuleInd.

Definition strip_attrs (a : option (strat * cls * list cls)) : option (strat * cls * list cls) :=
  match a with Some (s, c, ch) => Some (strip s, c, ch) | None => None end.

Lemma last_opt_map {A B} (f : A -> B) (l : list A) :
  last_opt (map f l) = option_map f (last_opt l).
Proof. unfold last_opt. rewrite <- map_rev. destruct (rev l); reflexivity. Qed.

Lemma hd_error_map {A B} (f : A -> B) (l : list A) :
  hd_error (map f l) = option_map f (hd_error l).
Proof. destruct l; reflexivity. Qed.

Lemma rule_attrs_strip r : rule_attrs (strip_rule r) = strip_attrs (rule_attrs r).
Proof.
  induction r using rule_ind'; simpl; auto.
  - rewrite IHr. destruct (rule_attrs r) as [[[s c] ch]|]; simpl; auto.
    destruct (non_empty cls is_empty ch); reflexivity.
  - rewrite map_map.
    assert (map (fun x => rule_attrs (strip_rule x)) rs = map strip_attrs (map rule_attrs rs)) as ->.
    { rewrite map_map. induction H; simpl; auto. rewrite H, IHForall. reflexivity. }
    rewrite hd_error_map, last_opt_map.
    destruct (hd_error (map rule_attrs rs)) as [[[[s c] ch]|]|]; simpl; auto.
    destruct (last_opt (map rule_attrs rs)) as [[[[s2 c2] ch2]|]|]; simpl; auto.
  - rewrite IHr. destruct (rule_attrs r) as [[[s c] ch]|]; simpl; auto.
    destruct (py_nth ch idx); reflexivity.
Qed.

Lemma rule_class_strip r : rule_class (strip_rule r) = rule_class r.
Proof.
  unfold Model.rule_class. rewrite rule_attrs_strip.
  destruct (rule_attrs r) as [[[s c] ch]|]; reflexivity.
Qed.

Lemma rule_children_strip r : rule_children (strip_rule r) = rule_children r.
Proof.
  unfold Model.rule_children. rewrite rule_attrs_strip.
  destruct (rule_attrs r) as [[[s c] ch]|]; reflexivity.
Qed.

Lemma rule_strat_strip r : rule_strat (strip_rule r) = option_map strip (rule_strat r).
Proof.
  unfold Model.rule_strat. rewrite rule_attrs_strip.
  destruct (rule_attrs r) as [[[s c] ch]|]; reflexivity.
Qed.

Lemma is_rule_form_strip r : is_rule_form cls (strip_rule r) = is_rule_form cls r.
Proof. destruct r; reflexivity. Qed.

Lemma is_equivalence_strip r : is_equivalence (strip_rule r) = is_equivalence r.
Proof.
  destruct r; simpl; auto.
  pose proof (rule_attrs_strip r) as H1.
  pose proof (rule_attrs_strip (RReverse cls r idx)) as H2. simpl in H2.
  rewrite H1. rewrite H1 in H2.
  destruct (rule_attrs r) as [[[s c] ch]|]; simpl in *; auto.
  destruct (py_nth ch idx); simpl; auto.
Qed.

Lemma is_reversible_strip r : is_reversible (strip_rule r) = is_reversible r.
Proof.
  unfold Model.is_reversible. rewrite rule_attrs_strip.
  destruct (rule_attrs r) as [[[s c] ch]|]; reflexivity.
Qed.

Lemma forallb_map_ext {A} (f g : A -> bool) (h : A -> A) l :
  (forall x, f (h x) = g x) -> forallb f (map h l) = forallb g l.
Proof. intros E. induction l; simpl; auto. rewrite E, IHl. reflexivity. Qed.

Lemma mk_equiv_strip r : is_ok (mk_equiv r) = true -> mk_equiv (strip_rule r) = Ok (REquiv cls (strip_rule r)).
Proof.
  unfold Model.mk_equiv. rewrite is_rule_form_strip, is_equivalence_strip, rule_attrs_strip.
  destruct (is_rule_form cls r); simpl; [|discriminate].
  destruct (rule_attrs r) as [[[s c] ch]|]; simpl; [|discriminate].
  destruct (is_equivalence r); simpl; [|discriminate].
  destruct (non_empty cls is_empty ch); simpl; [discriminate|reflexivity].
Qed.

Lemma mk_path_strip rs :
  is_ok (mk_path rs) = true -> mk_path (map strip_rule rs) = Ok (RPath cls (map strip_rule rs)).
Proof.
  unfold Model.mk_path.
  rewrite (forallb_map_ext _ (is_rule_form cls) strip_rule) by apply is_rule_form_strip.
  rewrite (forallb_map_ext _ is_equivalence strip_rule) by apply is_equivalence_strip.
  rewrite (forallb_map_ext _ (fun r => match rule_children r with Some [_] => true | _ => false end) strip_rule)
    by (intros x; rewrite rule_children_strip; reflexivity).
  destruct (forallb (is_rule_form cls) rs); simpl; [|discriminate].
  destruct (forallb is_equivalence rs); simpl; [|discriminate].
  destruct (forallb _ rs); simpl; [|discriminate].
  destruct rs; simpl; [discriminate|reflexivity].
Qed.

Lemma mk_reverse_strip r idx :
  is_ok (mk_reverse r idx) = true ->
  mk_reverse (strip_rule r) idx = Ok (RReverse cls (strip_rule r) idx).
Proof.
  unfold Model.mk_reverse. rewrite is_rule_form_strip, is_reversible_strip.
  pose proof (rule_attrs_strip (RReverse cls r idx)) as H. cbn [Model.strip_rule] in H. rewrite H.
  destruct (is_rule_form cls r); simpl; [|discriminate].
  destruct (is_reversible r); simpl; [|discriminate].
  destruct (rule_attrs r) as [[[s c] ch]|]; simpl; [|discriminate].
  destruct (py_nth ch idx); simpl; [reflexivity|discriminate].
Qed.

Lemma decomp'_strip s c : decomp' (strip s) c = decomp' s c.
Proof. reflexivity. Qed.

(* every strategy instance inside the rule satisfies P *)
Fixpoint rule_strats_all (P : strat -> Prop) (r : rule) : Prop :=
  match r with
  | RRule _ s _ _ | RVerif _ s _ _ => P s
  | REquiv _ r0 | RReverse _ r0 _ => rule_strats_all P r0
  | RPath _ rs => (fix go (l : list rule) : Prop :=
                     match l with [] => True | x :: t => rule_strats_all P x /\ go t end) rs
  end.

Lemma rule_strats_all_path P rs : rule_strats_all P (RPath cls rs) <-> Forall (rule_strats_all P) rs.
Proof.
  simpl. induction rs as [|x t IH]; simpl.
  - split; auto.
  - rewrite IH. split.
    + intros [H1 H2]. constructor; auto.
    + intros H. inversion H; auto.
Qed.

(* ... honours the from_dict contract *)
Notation rule_strats_ok := (rule_strats_all strat_ok).

Lemma list_cls_eqb_eq a b : list_eqb cls_eqb a b = true -> a = b.
Proof. apply list_eqb_eq. exact cls_eqb_spec. Qed.

(* key comparisons needed below (closed computations) *)
Ltac keyneq := reflexivity.

Lemma dispatch_header n d sub subs :
  rule_dispatch (rule_header n ++ d) sub subs =
  (if str_eqb n n_Rule then from_dict_Rule d
   else if str_eqb n n_VerificationRule then from_dict_Verif d
   else if str_eqb n n_EquivalenceRule then
     r0 <- (match sub with Some x => x | None => Err EKey end) ;;
     _ <- assert (is_rule_form cls r0) ;;
     _ <- no_more (ddel str_eqb k_original_rule d) ;;
     mk_equiv r0
   else if str_eqb n n_EquivalencePathRule then
     rs <- (match subs with Some x => x | None => Err EKey end) ;;
     _ <- assert (forallb (is_rule_form cls) rs) ;;
     _ <- no_more (ddel str_eqb k_rules d) ;;
     mk_path rs
   else if str_eqb n n_ReverseRule then
     r0 <- (match sub with Some x => x | None => Err EKey end) ;;
     _ <- assert (is_rule_form cls r0) ;;
     p3 <- jpop k_idx (ddel str_eqb k_original_rule d) ;;
     idx <- as_num (fst p3) ;;
     _ <- no_more (snd p3) ;;
     mk_reverse r0 idx
   else Err EAttr).
Proof.
  unfold Model.rule_dispatch, rule_header. cbn [app].
  rewrite jpop_hit. cbn [bind fst snd as_str]. rewrite str_eqb_refl. cbn [bind].
  rewrite jpop_hit. cbn [bind fst snd as_str]. reflexivity.
Qed.

Theorem rule_roundtrip r :
  rule_ok r = true -> rule_strats_ok r -> rule_of_json (json_of_rule r) = Ok (strip_rule r).
Proof.
  induction r using rule_ind'; intros Hok Hs.
  - (* Rule *)
    cbn [Model.json_of_rule Model.rule_of_json]. rewrite dispatch_header.
    replace (str_eqb n_Rule n_Rule) with true by reflexivity.
    unfold Model.from_dict_Rule.
    rewrite jpop_skip by keyneq. rewrite jpop_skip by keyneq. rewrite jpop_hit.
    cbn [bind fst snd]. simpl in Hs. rewrite (strat_roundtrip s Hs). cbn [bind].
    simpl in Hok. apply andb_true_iff in Hok. destruct Hok as [Hc Hd].
    replace (Model.is_strategy_cat cat_of (strip s)) with true by (symmetry; exact Hc).
    cbn [assert bind]. rewrite jpop_hit. cbn [bind fst snd]. rewrite cls_roundtrip. cbn [bind].
    rewrite jpop_hit. cbn [bind fst snd as_arr].
    rewrite (mapM_map cls_of_json cls_to_json (fun x => x)) by (apply Forall_forall; intros; apply cls_roundtrip).
    cbn [bind]. unfold Model.mk_rule.
    replace (Model.is_strategy_cat cat_of (strip s)) with true by (symmetry; exact Hc).
    cbn [assert bind]. rewrite decomp'_strip.
    destruct (decomp' s c) as [ch'|]; [|discriminate].
    apply list_cls_eqb_eq in Hd. subst ch'. reflexivity.
  - (* VerificationRule *)
    cbn [Model.json_of_rule Model.rule_of_json]. rewrite dispatch_header.
    replace (str_eqb n_VerificationRule n_Rule) with false by reflexivity.
    replace (str_eqb n_VerificationRule n_VerificationRule) with true by reflexivity.
    unfold Model.from_dict_Verif.
    rewrite jpop_skip by keyneq. rewrite jpop_hit.
    cbn [bind fst snd]. simpl in Hs. rewrite (strat_roundtrip s Hs). cbn [bind].
    simpl in Hok. apply andb_true_iff in Hok. destruct Hok as [Hc Hd].
    replace (Model.is_verif_cat cat_of (strip s)) with true by (symmetry; exact Hc).
    cbn [assert bind]. rewrite jpop_hit. cbn [bind fst snd]. rewrite cls_roundtrip. cbn [bind no_more assert].
    unfold Model.mk_verif.
    replace (Model.is_verif_cat cat_of (strip s)) with true by (symmetry; exact Hc).
    cbn [assert bind]. rewrite decomp'_strip.
    destruct (decomp' s c) as [ch'|]; [|discriminate].
    apply list_cls_eqb_eq in Hd. subst ch'. reflexivity.
  - (* EquivalenceRule *)
    cbn [Model.json_of_rule Model.rule_of_json]. rewrite dispatch_header.
    replace (str_eqb n_EquivalenceRule n_Rule) with false by reflexivity.
    replace (str_eqb n_EquivalenceRule n_VerificationRule) with false by reflexivity.
    replace (str_eqb n_EquivalenceRule n_EquivalenceRule) with true by reflexivity.
    simpl in Hok. apply andb_true_iff in Hok. destruct Hok as [Hok Hmk]. simpl in Hs.
    cbn [rule_header app assoc_map].
    replace (str_eqb k_original_rule k_class_module) with false by reflexivity.
    replace (str_eqb k_original_rule k_rule_class) with false by reflexivity.
    rewrite str_eqb_refl. rewrite (IHr Hok Hs). cbn [bind].
    rewrite is_rule_form_strip.
    assert (is_rule_form cls r = true) as ->.
    { unfold Model.mk_equiv in Hmk. destruct (is_rule_form cls r); auto. }
    cbn [assert bind ddel]. rewrite str_eqb_refl. cbn [no_more assert bind].
    apply mk_equiv_strip. exact Hmk.
  - (* EquivalencePathRule *)
    cbn [Model.json_of_rule Model.rule_of_json]. rewrite dispatch_header.
    replace (str_eqb n_EquivalencePathRule n_Rule) with false by reflexivity.
    replace (str_eqb n_EquivalencePathRule n_VerificationRule) with false by reflexivity.
    replace (str_eqb n_EquivalencePathRule n_EquivalenceRule) with false by reflexivity.
    replace (str_eqb n_EquivalencePathRule n_EquivalencePathRule) with true by reflexivity.
    simpl in Hok. apply andb_true_iff in Hok. destruct Hok as [Hok Hmk].
    apply rule_strats_all_path in Hs.
    cbn [rule_header app assoc_map].
    replace (str_eqb k_rules k_class_module) with false by reflexivity.
    replace (str_eqb k_rules k_rule_class) with false by reflexivity.
    rewrite str_eqb_refl.
    rewrite (sequence_map rule_of_json json_of_rule strip_rule).
    2:{ rewrite forallb_forall in Hok. rewrite Forall_forall in *. intros x Hx. apply H; auto. }
    cbn [bind].
    rewrite (forallb_map_ext _ (is_rule_form cls) strip_rule) by apply is_rule_form_strip.
    assert (forallb (is_rule_form cls) rs = true) as ->.
    { unfold Model.mk_path in Hmk. destruct (forallb (is_rule_form cls) rs); auto. }
    cbn [assert bind ddel]. rewrite str_eqb_refl. cbn [no_more assert bind].
    apply mk_path_strip. exact Hmk.
  - (* ReverseRule *)
    cbn [Model.json_of_rule Model.rule_of_json]. rewrite dispatch_header.
    replace (str_eqb n_ReverseRule n_Rule) with false by reflexivity.
    replace (str_eqb n_ReverseRule n_VerificationRule) with false by reflexivity.
    replace (str_eqb n_ReverseRule n_EquivalenceRule) with false by reflexivity.
    replace (str_eqb n_ReverseRule n_EquivalencePathRule) with false by reflexivity.
    replace (str_eqb n_ReverseRule n_ReverseRule) with true by reflexivity.
    simpl in Hok. apply andb_true_iff in Hok. destruct Hok as [Hok Hmk]. simpl in Hs.
    cbn [rule_header app assoc_map].
    replace (str_eqb k_original_rule k_class_module) with false by reflexivity.
    replace (str_eqb k_original_rule k_rule_class) with false by reflexivity.
    rewrite str_eqb_refl. rewrite (IHr Hok Hs). cbn [bind].
    rewrite is_rule_form_strip.
    assert (is_rule_form cls r = true) as ->.
    { unfold Model.mk_reverse in Hmk. destruct (is_rule_form cls r); auto. }
    cbn [assert bind ddel]. rewrite str_eqb_refl. rewrite jpop_hit.
    cbn [bind fst snd as_num no_more assert].
    apply mk_reverse_strip. exact Hmk.
Qed.

End Proofs.
