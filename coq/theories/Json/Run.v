(* sx interface of the JSON model.  The user-code Section variables are
   instantiated by finite tables sent with each case (extracted by the harness
   from the real user code): classes are their own JSON (identity codec, known
   (module, name) pairs), strategy classes come with their library category and
   the way their from_dict treats the dictionary, decomposition_function /
   is_reversible / can_be_equivalent / is_empty are look-up tables. *)
From Coq Require Import ZArith List Bool.
From CSS Require Import Base.Sx Base.PyList Json.Model.
Import ListNotations.
Open Scope Z_scope.

(* ------------------------------------------------------------------ json <-> sx *)
Fixpoint dec_json (s : sx) : json :=
  match s with
  | L [I 0] => JNull
  | L [I 1; I b] => JBool (negb (Z.eqb b 0))
  | L [I 2; I z] => JNum z
  | L [I 3; L cs] => JStr (map sx_Z cs)
  | L [I 4; L items] => JArr (map dec_json items)
  | L [I 5; L kvs] =>
      JObj (map (fun kv => match kv with
                           | L [L k; v] => (map sx_Z k, dec_json v)
                           | _ => ([], JNull)
                           end) kvs)
  | _ => JNull
  end.

Definition enc_str (s : str) : sx := L (map I s).

Fixpoint enc_json (j : json) : sx :=
  match j with
  | JNull => L [I 0]
  | JBool b => L [I 1; of_bool b]
  | JNum z => L [I 2; I z]
  | JStr s => L [I 3; enc_str s]
  | JArr l => L [I 4; L (map enc_json l)]
  | JObj kv => L [I 5; L (map (fun p => L [enc_str (fst p); enc_json (snd p)]) kv)]
  end.

Definition dec_str (s : sx) : str := sx_Zs s.

Definition dec_flags (s : sx) : option flags :=
  match s with
  | L [a; b; c; d] => Some (sx_bool a, sx_bool b, sx_bool c, sx_bool d)
  | _ => None
  end.
Definition enc_flags (f : option flags) : sx :=
  match f with
  | Some (a, b, c, d) => L [of_bool a; of_bool b; of_bool c; of_bool d]
  | None => L []
  end.

Definition obj_of (j : json) : list (str * json) := match j with JObj kv => kv | _ => [] end.

Definition dec_strat (s : sx) : strat :=
  mkStrat (dec_str (sx_nth s 0)) (dec_str (sx_nth s 1)) (dec_flags (sx_nth s 2))
          (obj_of (dec_json (sx_nth s 3)))
          (map (fun e => (dec_str (sx_nth e 0), sx_Z (sx_nth e 1))) (sx_list (sx_nth s 4))).
Definition enc_strat (s : strat) : sx :=
  L [enc_str (s_mod s); enc_str (s_name s); enc_flags (s_flags s); enc_json (JObj (s_user s));
     L (map (fun e => L [enc_str (fst e); I (snd e)]) (s_extra s))].

Definition cls := json.

Fixpoint dec_rule (s : sx) : rule cls :=
  match s with
  | L [I 0; st; c; L ch] => RRule cls (dec_strat st) (dec_json c) (map dec_json ch)
  | L [I 1; st; c; L ch] => RVerif cls (dec_strat st) (dec_json c) (map dec_json ch)
  | L [I 2; r] => REquiv cls (dec_rule r)
  | L [I 3; L rs] => RPath cls (map dec_rule rs)
  | L [I 4; r; I idx] => RReverse cls (dec_rule r) idx
  | _ => RPath cls []
  end.

Fixpoint enc_rule (r : rule cls) : sx :=
  match r with
  | RRule _ s c ch => L [I 0; enc_strat s; enc_json c; L (map enc_json ch)]
  | RVerif _ s c ch => L [I 1; enc_strat s; enc_json c; L (map enc_json ch)]
  | REquiv _ r0 => L [I 2; enc_rule r0]
  | RPath _ rs => L [I 3; L (map enc_rule rs)]
  | RReverse _ r0 idx => L [I 4; enc_rule r0; I idx]
  end.

Definition dec_spec (s : sx) : spec cls :=
  mkSpec cls (dec_json (sx_nth s 0))
         (map (fun kr => (dec_json (sx_nth kr 0), dec_rule (sx_nth kr 1))) (sx_list (sx_nth s 1))).
Definition enc_spec (s : spec cls) : sx :=
  L [enc_json (sp_root cls s);
     L (map (fun kr => L [enc_json (fst kr); enc_rule (snd kr)]) (sp_rules cls s))].

Definition dec_strats (s : sx) : list strat := map dec_strat (sx_list s).
Definition enc_strats (l : list strat) : sx := L (map enc_strat l).

Definition dec_pack (s : sx) : pack :=
  mkPack (dec_str (sx_nth s 0)) (dec_strats (sx_nth s 1)) (dec_strats (sx_nth s 2))
         (dec_strats (sx_nth s 3)) (map dec_strats (sx_list (sx_nth s 4)))
         (dec_strats (sx_nth s 5)) (sx_bool (sx_nth s 6)).
Definition enc_pack (p : pack) : sx :=
  L [enc_str (p_name p); enc_strats (p_initial p); enc_strats (p_inferral p); enc_strats (p_ver p);
     L (map enc_strats (p_expansion p)); enc_strats (p_symmetries p); of_bool (p_iterative p)].

Definition dec_bij (s : sx) : bij cls :=
  mkBij cls (dec_spec (sx_nth s 0)) (dec_spec (sx_nth s 1))
        (map (fun e => ((dec_json (sx_nth e 0), dec_json (sx_nth e 1)), sx_Zs (sx_nth e 2)))
             (sx_list (sx_nth s 2)))
        (map (fun e => ((dec_json (sx_nth e 0), dec_json (sx_nth e 1)), dec_json (sx_nth e 2)))
             (sx_list (sx_nth s 3))).
Definition enc_bij (b : bij cls) : sx :=
  L [enc_spec (b_spec cls b); enc_spec (b_other cls b);
     L (map (fun e => L [enc_json (fst (fst e)); enc_json (snd (fst e)); of_Zs (snd e)]) (b_order cls b));
     L (map (fun e => L [enc_json (fst (fst e)); enc_json (snd (fst e)); enc_json (snd e)]) (b_data cls b))].

(* ------------------------------------------------------------------ tables *)
Record tables := mkTables {
  t_classes : list (str * str);                               (* known class (module, name) *)
  t_empty : list (json * bool);                               (* is_empty *)
  t_strats : list ((str * str) * (Z * Z * option flags * list (str * json)));
                                                              (* (module, name) -> category, from_dict mode, defaults *)
  t_decomp : list ((strat * json) * option (list json));
  t_rev : list ((strat * json) * bool);
  t_eqv : list ((strat * json * option Z) * bool)
}.

Definition strat_same (a b : strat) : bool :=        (* same kind and settings, structurally *)
  str_eqb (s_mod a) (s_mod b) && str_eqb (s_name a) (s_name b) &&
  flags_eqb (s_flags a) (s_flags b) && json_eqb (JObj (s_user a)) (JObj (s_user b)).

Definition pair2_eqb (a b : str * str) : bool := str_eqb (fst a) (fst b) && str_eqb (snd a) (snd b).
Definition sc_eqb (a b : strat * json) : bool := strat_same (fst a) (fst b) && json_eqb (snd a) (snd b).
Definition optZ_eqb (a b : option Z) : bool :=
  match a, b with Some x, Some y => Z.eqb x y | None, None => true | _, _ => false end.
Definition sci_eqb (a b : strat * json * option Z) : bool :=
  sc_eqb (fst a) (fst b) && optZ_eqb (snd a) (snd b).

Definition dec_tables (s : sx) : tables :=
  mkTables
    (map (fun e => (dec_str (sx_nth e 0), dec_str (sx_nth e 1))) (sx_list (sx_nth s 0)))
    (map (fun e => (dec_json (sx_nth e 0), sx_bool (sx_nth e 1))) (sx_list (sx_nth s 1)))
    (map (fun e => ((dec_str (sx_nth e 0), dec_str (sx_nth e 1)),
                    (sx_Z (sx_nth e 2), sx_Z (sx_nth e 3), dec_flags (sx_nth e 4),
                     obj_of (dec_json (sx_nth e 5))))) (sx_list (sx_nth s 2)))
    (map (fun e => ((dec_strat (sx_nth e 0), dec_json (sx_nth e 1)),
                    match sx_nth e 2 with
                    | L [L ch] => Some (map dec_json ch)
                    | _ => None
                    end)) (sx_list (sx_nth s 3)))
    (map (fun e => ((dec_strat (sx_nth e 0), dec_json (sx_nth e 1)), sx_bool (sx_nth e 2)))
         (sx_list (sx_nth s 4)))
    (map (fun e => ((dec_strat (sx_nth e 0), dec_json (sx_nth e 1), sx_optZ (sx_nth e 2)),
                    sx_bool (sx_nth e 3))) (sx_list (sx_nth s 5))).

Section Inst.
Variable T : tables.

Definition i_cls_of_json (j : json) : res cls :=
  d <- as_obj j ;;
  mj <- jget k_class_module d ;;
  m <- as_str mj ;;
  nj <- jget k_comb_class d ;;
  n <- as_str nj ;;
  if existsb (pair2_eqb (m, n)) (t_classes T) then Ok j else Err EImport.

Definition i_is_empty (c : cls) : bool :=
  match dget json_eqb c (t_empty T) with Some b => b | None => false end.

Definition cat_code (z : Z) : option scat :=
  match z with
  | 0 => Some CStrategy | 1 => Some CVerif | 2 => Some CAtom | 3 => Some CEmpty | 4 => Some CFactory
  | _ => None
  end.

Definition i_cat_of (m n : str) : option scat :=
  match dget pair2_eqb (m, n) (t_strats T) with
  | Some (c, _, _, _) => cat_code c
  | None => None
  end.

Definition flag_keys := [k_ignore_parent; k_inferrable; k_possibly_empty; k_workable].

Definition opt_flag (k : str) (d : list (str * json)) (dflt : bool) : res bool :=
  match dget str_eqb k d with Some j => as_bool j | None => Ok dflt end.

(* mode 0 : `return cls()`  (the dictionary is ignored: example.py)
   mode 1 : return cls(<keywords from d>) where __init__ takes the flags its base class takes
            and the class's own settings, all with defaults; unknown keyword -> TypeError *)
Definition i_user_from_dict (m n : str) (d : list (str * json))
  : res (option flags * list (str * json)) :=
  match dget pair2_eqb (m, n) (t_strats T) with
  | None => Err EImport
  | Some (c, mode, df, du) =>
      if Z.eqb mode 0 then Ok (df, du)
      else
        let allowed :=
            match cat_code c with
            | Some CStrategy => flag_keys
            | Some CVerif => [k_ignore_parent]
            | _ => []
            end ++ map fst du in
        if negb (forallb (fun kv => existsb (str_eqb (fst kv)) allowed) d) then Err EType
        else
          f <- match cat_code c, df with
               | Some CStrategy, Some (a, b, c', e) =>
                   a' <- opt_flag k_ignore_parent d a ;;
                   b' <- opt_flag k_inferrable d b ;;
                   c'' <- opt_flag k_possibly_empty d c' ;;
                   e' <- opt_flag k_workable d e ;;
                   Ok (Some (a', b', c'', e'))
               | Some CVerif, Some (a, b, c', e) =>
                   a' <- opt_flag k_ignore_parent d a ;;
                   Ok (Some (a', b, c', e))
               | _, _ => Ok df
               end ;;
          Ok (f, map (fun kv => (fst kv, match dget str_eqb (fst kv) d with
                                         | Some v => v
                                         | None => snd kv
                                         end)) du)
  end.

Definition i_decomp (s : strat) (c : cls) : option (list cls) :=
  match dget sc_eqb (s, c) (t_decomp T) with Some r => r | None => None end.
Definition i_reversible (s : strat) (c : cls) : bool :=
  match dget sc_eqb (s, c) (t_rev T) with Some b => b | None => false end.
Definition i_eqv_cap (s : strat) (c : cls) (i : option Z) : bool :=
  match dget sci_eqb (s, c, i) (t_eqv T) with Some b => b | None => false end.

Definition cls_to_json (c : cls) : json := c.

Definition enc_res {A} (enc : A -> sx) (r : res A) : sx :=
  match r with Ok a => L [I 0; enc a] | Err _ => L [I 1] end.

Definition run_op (kind : Z) (d j d2 : sx) : sx :=
  match kind with
  | 0 =>
      let a := dec_strat d in let b := dec_strat d2 in
      L [enc_json (json_of_strat i_cat_of a);
         enc_res enc_strat (strat_of_json i_cat_of i_user_from_dict (dec_json j));
         of_bool (strat_eq a b); of_bool (strat_eq b a); of_bool (settings_eq a b); of_bool (plain a)]
  | 1 =>
      let a := dec_rule d in let b := dec_rule d2 in
      L [enc_json (json_of_rule cls cls_to_json i_cat_of a);
         enc_res enc_rule (rule_of_json cls i_cls_of_json i_is_empty i_cat_of i_user_from_dict
                                        i_decomp i_reversible i_eqv_cap (dec_json j));
         of_bool (rule_eq cls json_eqb i_is_empty a b); of_bool (rule_eq cls json_eqb i_is_empty b a);
         of_bool (rule_ok cls json_eqb i_is_empty i_cat_of i_decomp i_reversible i_eqv_cap a);
         of_bool (rule_plain cls a)]
  | 2 =>
      let a := dec_pack d in let b := dec_pack d2 in
      L [enc_json (json_of_pack i_cat_of a);
         enc_res enc_pack (pack_of_json i_cat_of i_user_from_dict (dec_json j));
         of_bool (pack_eq a b); of_bool (pack_eq b a)]
  | 3 =>
      let a := dec_spec d in let b := dec_spec d2 in
      L [enc_json (json_of_spec cls cls_to_json i_cat_of a);
         enc_res enc_spec (spec_of_json cls json_eqb i_cls_of_json i_is_empty i_cat_of i_user_from_dict
                                        i_decomp i_reversible i_eqv_cap (dec_json j));
         of_bool (spec_eq cls json_eqb i_is_empty a b); of_bool (spec_eq cls json_eqb i_is_empty b a);
         of_bool (spec_closed cls json_eqb i_is_empty a &&
                  spec_rules_ok cls json_eqb i_is_empty i_cat_of i_decomp i_reversible i_eqv_cap a)]
  | 4 =>
      let a := dec_bij d in
      L [enc_json (json_of_bij cls json_eqb cls_to_json i_cat_of a);
         enc_res enc_bij (bij_of_json cls json_eqb i_cls_of_json i_is_empty i_cat_of i_user_from_dict
                                      i_decomp i_reversible i_eqv_cap (dec_json j))]
  | _ => L []
  end.
End Inst.

(* input: (tables kind descriptor json descriptor2) *)
Definition run_c18_base (inp : sx) : sx :=
  run_op (dec_tables (sx_nth inp 0)) (sx_Z (sx_nth inp 1)) (sx_nth inp 2) (sx_nth inp 3) (sx_nth inp 4).

(* ------------------------------------------------------------------ per-instance verdict (gap G.1 #2)
   For a kind-4 (bijection) input the hypotheses of C18_bijection_roundtrip are DECIDED on the
   descriptor the case sends (Json/Deciders.v, `bij_wf_bits`: 4 conjuncts of `spec_wf` for each of the
   two specifications, distinct keys of the order map, distinct keys of the index data, keys of the
   index data among the keys of the order map) and the 11 bits are appended as one extra output field;
   kind 3 gets the 4 bits of `spec_wf`, kinds 0, 1, 2 the bits of `strat_ok`, `rule_ok` + `rule_strats_ok`,
   `pack_ok` (below); the existing fields are unchanged.  Soundness w.r.t. `bij_wf` at exactly this instantiation of the
   user-code variables: Props/C18.v, C18_run_bij_verdict_sound. *)
From CSS Require Import Json.Deciders.

Definition bij_wf_verdict (T : tables) (d : sx) : sx :=
  L (map of_bool
         (bij_wf_bits cls json_eqb (i_is_empty T) (i_cat_of T) (i_user_from_dict T)
                      (i_decomp T) (i_reversible T) (i_eqv_cap T) (dec_bij d))).

(* kind 3 (specification): the 4 conjuncts of `spec_wf` (distinct keys, spec_closed, every rule_ok,
   every strategy honours from_dict), appended in the same way; out[4] keeps its meaning
   (spec_closed && rule_ok && rule_plain).  Props/C18.v, C18_run_spec_verdict_sound. *)
Definition spec_wf_verdict (T : tables) (d : sx) : sx :=
  L (map of_bool
         (spec_wf_bits cls json_eqb (i_is_empty T) (i_cat_of T) (i_user_from_dict T)
                       (i_decomp T) (i_reversible T) (i_eqv_cap T) (dec_spec d))).

(* kinds 0, 1, 2 (strategy, rule, pack): `strat_ok` / `rule_ok` and `rule_strats_ok` / `pack_ok`, the
   hypotheses of C18_strategy_roundtrip / C18_rule_roundtrip / C18_pack_roundtrip.
   Props/C18.v, C18_run_small_verdicts_sound. *)
Definition strat_verdict (T : tables) (d : sx) : sx :=
  L [of_bool (strat_okb (i_cat_of T) (i_user_from_dict T) (dec_strat d))].
Definition rule_verdict (T : tables) (d : sx) : sx :=
  L [of_bool (rule_ok cls json_eqb (i_is_empty T) (i_cat_of T) (i_decomp T) (i_reversible T) (i_eqv_cap T) (dec_rule d));
     of_bool (rule_strats_okb cls (i_cat_of T) (i_user_from_dict T) (dec_rule d))].
Definition pack_verdict (T : tables) (d : sx) : sx :=
  L [of_bool (pack_okb (i_cat_of T) (i_user_from_dict T) (dec_pack d))].

Definition run_c18 (inp : sx) : sx :=
  let out := run_c18_base inp in
  let kind := sx_Z (sx_nth inp 1) in
  let T := dec_tables (sx_nth inp 0) in
  let d := sx_nth inp 2 in
  match kind with
  | 0 => L (sx_list out ++ [strat_verdict T d])
  | 1 => L (sx_list out ++ [rule_verdict T d])
  | 2 => L (sx_list out ++ [pack_verdict T d])
  | 3 => L (sx_list out ++ [spec_wf_verdict T d])
  | 4 => L (sx_list out ++ [bij_wf_verdict T d])
  | _ => out
  end.
