(* C18 — boolean deciders for the hypotheses of the round-trip theorems
   (`strat_ok`, `rule_strats_ok`, `spec_wf`, `bij_wf`) with soundness lemmas
   `decider = true -> hypothesis`.  `Json/Run.v` evaluates `bij_wf_bits` on every
   kind-4 input of `run_c18` and prints the verdict, so that a generated case is
   counted as covered by `C18_bijection_roundtrip` only when the hypotheses
   hold on THAT case. *)
From Coq Require Import ZArith List Bool Lia.
From CSS Require Import Base.PyList Json.Model Json.Proofs Json.SpecProofs Json.BijProofs.
Import ListNotations.
Open Scope Z_scope.

(* ------------------------------------------------------------------ json_eqb decides Leibniz equality *)
Lemma json_eqb_eq a : forall b, json_eqb a b = true -> a = b.
Proof.
  induction a using json_ind'; intros [| | | | |] E; simpl in E; try discriminate; auto.
  - apply eqb_prop in E. subst. reflexivity.
  - apply Z.eqb_eq in E. subst. reflexivity.
  - apply str_eqb_eq in E. subst. reflexivity.
  - f_equal. revert l0 E. induction H as [|x xs Hx Hxs IH]; intros [|y ys] E; try discriminate; auto.
    apply andb_true_iff in E. destruct E as [E1 E2]. f_equal; auto.
  - f_equal. revert kv0 E. induction H as [|[k x] xs Hx Hxs IH]; intros [|[k' y] ys] E; try discriminate; auto.
    apply andb_true_iff in E. destruct E as [E E3]. apply andb_true_iff in E. destruct E as [E1 E2].
    apply str_eqb_eq in E1. simpl in Hx. apply Hx in E2. subst. f_equal. auto.
Qed.

Lemma json_eqb_spec a b : json_eqb a b = true <-> a = b.
Proof. split; [apply json_eqb_eq|intros ->; apply json_eqb_refl]. Qed.

Lemma flags_eqb_eq a b : flags_eqb a b = true -> a = b.
Proof.
  destruct a as [[[[a1 a2] a3] a4]|], b as [[[[b1 b2] b3] b4]|]; simpl; intros E; try discriminate; auto.
  repeat (apply andb_true_iff in E; destruct E as [E ?E]).
  apply eqb_prop in E, E0, E1, E2. subst. reflexivity.
Qed.

(* reading back a list of printed bits *)
Lemma forallb_map_bits {A} (f : A -> bool) (g : bool -> A) :
  (forall b, f (g b) = b) ->
  forall l, forallb f (map g l) = true -> forallb (fun x => x) l = true.
Proof.
  intros Hfg l. induction l as [|b l IH]; simpl; auto.
  rewrite Hfg. intros H. apply andb_true_iff in H. destruct H as [-> H]. simpl. auto.
Qed.

Lemma bits1 {A} (f : A -> bool) (g : bool -> A) :
  (forall b, f (g b) = b) -> forall b, forallb f [g b] = true -> b = true.
Proof. intros Hfg b H. simpl in H. rewrite Hfg, andb_true_r in H. exact H. Qed.

Lemma bits2 {A} (f : A -> bool) (g : bool -> A) :
  (forall b, f (g b) = b) -> forall b1 b2, forallb f [g b1; g b2] = true -> b1 = true /\ b2 = true.
Proof.
  intros Hfg b1 b2 H. simpl in H. rewrite !Hfg, andb_true_r in H. apply andb_true_iff in H. exact H.
Qed.

Definition user_eqb (a b : list (str * json)) : bool := json_eqb (JObj a) (JObj b).

Lemma user_eqb_eq a b : user_eqb a b = true -> a = b.
Proof. intros E. apply json_eqb_eq in E. inversion E. reflexivity. Qed.

(* ------------------------------------------------------------------ strategies *)
Section StratDeciders.
Variable cat_of : str -> str -> option scat.
Variable user_from_dict : str -> str -> list (str * json) -> res (option flags * list (str * json)).

(* `strat_ok` (Json/Proofs.v), evaluated: the class's from_dict is RUN on what
   to_jsonable writes and the answer compared with the instance *)
Definition strat_okb (s : strat) : bool :=
  match cat cat_of s with
  | None => false
  | Some CAtom | Some CEmpty =>
      flags_eqb (s_flags s) fixed_flags && match s_user s with [] => true | _ => false end
  | Some c =>
      match user_from_dict (s_mod s) (s_name s) (base_entries c (s_flags s) ++ s_user s) with
      | Ok (f, u) => flags_eqb f (s_flags s) && user_eqb u (s_user s)
      | Err _ => false
      end
  end.

Lemma strat_okb_sound s : strat_okb s = true -> strat_ok cat_of user_from_dict s.
Proof.
  unfold strat_okb, strat_ok.
  assert (forall c,
    match user_from_dict (s_mod s) (s_name s) (base_entries c (s_flags s) ++ s_user s) with
    | Ok (f, u) => flags_eqb f (s_flags s) && user_eqb u (s_user s)
    | Err _ => false
    end = true ->
    user_from_dict (s_mod s) (s_name s) (base_entries c (s_flags s) ++ s_user s) = Ok (s_flags s, s_user s)) as Hu.
  { intros c. destruct (user_from_dict _ _ _) as [[f u]|e]; [|discriminate].
    intros E. apply andb_true_iff in E. destruct E as [E1 E2].
    apply flags_eqb_eq in E1. apply user_eqb_eq in E2. subst. reflexivity. }
  assert (flags_eqb (s_flags s) fixed_flags && match s_user s with [] => true | _ => false end = true ->
          s_flags s = fixed_flags /\ s_user s = []) as Hf.
  { intros E. apply andb_true_iff in E. destruct E as [E1 E2]. apply flags_eqb_eq in E1.
    split; auto. destruct (s_user s); [reflexivity|discriminate]. }
  destruct (cat cat_of s) as [[| | | |]|]; auto. discriminate.
Qed.

(* `pack_ok` (Json/SpecProofs.v): every strategy of the pack *)
Definition pack_okb (p : pack) : bool :=
  forallb strat_okb (p_initial p) && forallb strat_okb (p_inferral p) && forallb strat_okb (p_ver p) &&
  forallb (forallb strat_okb) (p_expansion p) && forallb strat_okb (p_symmetries p).

Lemma strats_okb_sound l : forallb strat_okb l = true -> Forall (strat_ok cat_of user_from_dict) l.
Proof.
  rewrite forallb_forall, Forall_forall. intros H x Hx. apply strat_okb_sound. apply H. exact Hx.
Qed.

Lemma pack_okb_sound p : pack_okb p = true -> pack_ok cat_of user_from_dict p.
Proof.
  unfold pack_okb, pack_ok. rewrite !andb_true_iff. intros ((((H1 & H2) & H3) & H4) & H5).
  csplit; try (apply strats_okb_sound; assumption).
  rewrite forallb_forall in H4. apply Forall_forall. intros l Hl. apply strats_okb_sound. apply H4. exact Hl.
Qed.
End StratDeciders.

(* ------------------------------------------------------------------ rules, specifications, bijections *)
Section Deciders.
Variable cls : Type.
Variable cls_eqb : cls -> cls -> bool.
Hypothesis cls_eqb_sound : forall a b, cls_eqb a b = true -> a = b.
Variable is_empty : cls -> bool.
Variable cat_of : str -> str -> option scat.
Variable user_from_dict : str -> str -> list (str * json) -> res (option flags * list (str * json)).
Variable decomp : strat -> cls -> option (list cls).
Variable reversible : strat -> cls -> bool.
Variable eqv_cap : strat -> cls -> option Z -> bool.

Notation strat_ok := (strat_ok cat_of user_from_dict).
Notation strat_okb := (strat_okb cat_of user_from_dict).
Notation rule := (rule cls).
Notation spec := (spec cls).
Notation rule_ok := (rule_ok cls cls_eqb is_empty cat_of decomp reversible eqv_cap).
Notation rule_strats_ok := (rule_strats_all cls strat_ok).
Notation spec_closed := (spec_closed cls cls_eqb is_empty).
Notation spec_wf := (spec_wf cls cls_eqb is_empty cat_of user_from_dict decomp reversible eqv_cap).
Notation bij_wf := (bij_wf cls cls_eqb is_empty cat_of user_from_dict decomp reversible eqv_cap).
Notation pair_eqb := (pair_eqb cls cls_eqb).

Fixpoint rule_strats_okb (r : rule) : bool :=
  match r with
  | RRule _ s _ _ | RVerif _ s _ _ => strat_okb s
  | REquiv _ r0 | RReverse _ r0 _ => rule_strats_okb r0
  | RPath _ rs => forallb rule_strats_okb rs
  end.

Lemma rule_strats_okb_sound r : rule_strats_okb r = true -> rule_strats_ok r.
Proof.
  induction r using (rule_ind' cls); cbn [rule_strats_okb]; intros E.
  - simpl. apply strat_okb_sound. exact E.
  - simpl. apply strat_okb_sound. exact E.
  - simpl. auto.
  - apply rule_strats_all_path. rewrite forallb_forall in E. rewrite Forall_forall in *.
    intros x Hx. apply H; auto.
  - simpl. auto.
Qed.

(* the four conjuncts of `spec_wf`, separately (printed one by one by run_c18) *)
Definition spec_nodupb (s : spec) : bool := keys_nodup cls_eqb (map fst (sp_rules cls s)).
Definition spec_rule_okb (s : spec) : bool := forallb (fun kr => rule_ok (snd kr)) (sp_rules cls s).
Definition spec_strats_okb (s : spec) : bool := forallb (fun kr => rule_strats_okb (snd kr)) (sp_rules cls s).

Definition spec_wf_bits (s : spec) : list bool :=
  [spec_nodupb s; spec_closed s; spec_rule_okb s; spec_strats_okb s].

Definition spec_wfb (s : spec) : bool := forallb (fun b => b) (spec_wf_bits s).

Lemma spec_wfb_sound s : spec_wfb s = true -> spec_wf s.
Proof.
  unfold spec_wfb, spec_wf_bits. cbn [forallb]. rewrite !andb_true_iff.
  intros (H1 & H2 & H3 & H4 & _). unfold SpecProofs.spec_wf. csplit; auto.
  unfold spec_rule_okb, spec_strats_okb in *. rewrite forallb_forall in H3, H4.
  apply Forall_forall. intros kr Hin. split; [apply H3|apply rule_strats_okb_sound, H4]; exact Hin.
Qed.

(* `bij_wf` (Json/BijProofs.v): both specifications, distinct keys of the order map and
   of the index data, every key of the index data is a key of the order map *)
Definition bij_order_nodupb (b : bij cls) : bool := keys_nodup pair_eqb (map fst (b_order cls b)).
Definition bij_data_nodupb (b : bij cls) : bool := keys_nodup pair_eqb (map fst (b_data cls b)).
Definition bij_data_subb (b : bij cls) : bool :=
  forallb (fun k => existsb (pair_eqb k) (map fst (b_order cls b))) (map fst (b_data cls b)).

(* 11 bits: spec_wf_bits of the domain specification, of the codomain specification, then the three above *)
Definition bij_wf_bits (b : bij cls) : list bool :=
  spec_wf_bits (b_spec cls b) ++ spec_wf_bits (b_other cls b) ++
  [bij_order_nodupb b; bij_data_nodupb b; bij_data_subb b].

Definition bij_wfb (b : bij cls) : bool := forallb (fun x => x) (bij_wf_bits b).

Lemma pair_eqb_sound a b : pair_eqb a b = true -> a = b.
Proof.
  destruct a as [a1 a2], b as [b1 b2]. unfold Model.pair_eqb. simpl.
  rewrite andb_true_iff. intros [H1 H2]. apply cls_eqb_sound in H1, H2. subst. reflexivity.
Qed.

Lemma bij_wfb_sound b : bij_wfb b = true -> bij_wf b.
Proof.
  unfold bij_wfb, bij_wf_bits. rewrite !forallb_app. rewrite !andb_true_iff.
  intros (H1 & H2 & H3). cbn [forallb] in H3. rewrite !andb_true_iff in H3.
  destruct H3 as (H3 & H4 & H5 & _).
  unfold BijProofs.bij_wf. csplit.
  - apply spec_wfb_sound. exact H1.
  - apply spec_wfb_sound. exact H2.
  - exact H3.
  - exact H4.
  - unfold bij_data_subb in H5. rewrite forallb_forall in H5. intros k Hk.
    apply H5 in Hk. apply existsb_exists in Hk. destruct Hk as (k' & Hin & E).
    apply pair_eqb_sound in E. subst. exact Hin.
Qed.

End Deciders.
