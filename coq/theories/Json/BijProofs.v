(* C18 — round trip of bijections: the order map and the index data survive the
   re-indexing through the `classes` array and the decimal object keys *)
From Coq Require Import ZArith List Bool Lia.
From CSS Require Import Base.PyList Json.Model Json.Proofs Json.SpecProofs.
Import ListNotations.
Open Scope Z_scope.

(* ------------------------------------------------------------------ decimal keys *)
Lemma dec_aux_nonempty f n acc : acc <> [] -> dec_aux f n acc <> [].
Proof.
  revert n acc. induction f as [|f IH]; intros n acc H; simpl; auto.
  destruct (n <? 10); [discriminate|]. apply IH. discriminate.
Qed.

Lemma dec_aux_parse f : forall n acc,
  0 <= n -> n < Z.of_nat f ->
  exists p, forall a, dec_parse (dec_aux f n acc) a = dec_parse acc (a * p + n).
Proof.
  induction f as [|f IH]; intros n acc H0 Hf; [lia|].
  cbn [dec_aux]. destruct (n <? 10) eqn:E.
  - apply Z.ltb_lt in E. exists 10. intros a. cbn [dec_parse].
    rewrite Z.mod_small by lia.
    replace ((48 <=? 48 + n) && (48 + n <=? 57)) with true
      by (symmetry; apply andb_true_iff; split; apply Z.leb_le; lia).
    f_equal. lia.
  - apply Z.ltb_ge in E.
    assert (0 <= n / 10) by (apply Z.div_pos; lia).
    assert (n / 10 < Z.of_nat f).
    { pose proof (Z.mul_div_le n 10 ltac:(lia)). lia. }
    destruct (IH (n / 10) ((48 + n mod 10) :: acc) H H1) as (p & Hp).
    exists (p * 10). intros a. rewrite Hp. cbn [dec_parse].
    pose proof (Z.mod_pos_bound n 10 ltac:(lia)).
    replace ((48 <=? 48 + n mod 10) && (48 + n mod 10 <=? 57)) with true
      by (symmetry; apply andb_true_iff; split; apply Z.leb_le; lia).
    f_equal. pose proof (Z.div_mod n 10 ltac:(lia)). lia.
Qed.

Lemma dec_roundtrip n : 0 <= n -> Z_of_dec (dec_of_Z n) = Some n.
Proof.
  intros H. unfold Z_of_dec, dec_of_Z.
  destruct (dec_aux_parse (S (Z.to_nat n)) n [] H ltac:(lia)) as (p & Hp).
  destruct (dec_aux (S (Z.to_nat n)) n []) eqn:E.
  - exfalso. cbn [dec_aux] in E. destruct (n <? 10); [discriminate|].
    revert E. apply dec_aux_nonempty. discriminate.
  - rewrite Hp. simpl. reflexivity.
Qed.

Section BijProofs.
Variable cls : Type.
Variable cls_eqb : cls -> cls -> bool.
Hypothesis cls_eqb_spec : forall a b, cls_eqb a b = true <-> a = b.
Variable cls_to_json : cls -> json.
Variable cls_of_json : json -> res cls.
Hypothesis cls_roundtrip : forall c, cls_of_json (cls_to_json c) = Ok c.
Variable is_empty : cls -> bool.
Variable cat_of : str -> str -> option scat.
Variable user_from_dict : str -> str -> list (str * json) -> res (option flags * list (str * json)).
Variable decomp : strat -> cls -> option (list cls).
Variable reversible : strat -> cls -> bool.
Variable eqv_cap : strat -> cls -> option Z -> bool.

Notation pair_eqb := (pair_eqb cls cls_eqb).
Notation id_of := (id_of cls cls_eqb).
Notation index_of := (index_of cls cls_eqb).
Notation class_at := (class_at cls).
Notation cmem := (cmem cls cls_eqb).
Notation classes_array := (classes_array cls cls_eqb).
Notation populate := (populate cls cls_eqb).
Notation unflatten := (unflatten cls cls_eqb).
Notation unflatten_sub := (unflatten_sub cls cls_eqb).
Notation spec_wf := (spec_wf cls cls_eqb is_empty cat_of user_from_dict decomp reversible eqv_cap).
Notation strip_spec := (strip_spec cls).
Notation json_of_spec := (json_of_spec cls cls_to_json cat_of).
Notation spec_of_json := (spec_of_json cls cls_eqb cls_of_json is_empty cat_of user_from_dict decomp reversible eqv_cap).
Notation json_of_bij := (json_of_bij cls cls_eqb cls_to_json cat_of).
Notation bij_of_json := (bij_of_json cls cls_eqb cls_of_json is_empty cat_of user_from_dict decomp reversible eqv_cap).

Lemma ceqb_refl c : cls_eqb c c = true.
Proof. apply cls_eqb_spec. reflexivity. Qed.

Lemma pair_eqb_spec a b : pair_eqb a b = true <-> a = b.
Proof.
  destruct a as [a1 a2], b as [b1 b2]. unfold Model.pair_eqb. simpl.
  rewrite andb_true_iff, !cls_eqb_spec. split; [intros [-> ->]; reflexivity|intros H; inversion H; auto].
Qed.

Lemma pair_eqb_false_l a1 a2 b1 b2 : cls_eqb a1 b1 = false -> pair_eqb (a1, a2) (b1, b2) = false.
Proof. intros H. unfold Model.pair_eqb. simpl. rewrite H. reflexivity. Qed.

Lemma pair_eqb_false_r a1 a2 b1 b2 : cls_eqb a2 b2 = false -> pair_eqb (a1, a2) (b1, b2) = false.
Proof. intros H. unfold Model.pair_eqb. simpl. rewrite H. apply andb_false_r. Qed.

(* ---- ids *)
Lemma index_of_nth c : forall l k n,
  index_of c l k = Some n -> k <= n /\ nth_error l (Z.to_nat (n - k)) = Some c.
Proof.
  induction l as [|x l IH]; intros k n H; simpl in H; [discriminate|].
  destruct (cls_eqb c x) eqn:E.
  - inversion H; subst. apply cls_eqb_spec in E. subst. split; [lia|]. rewrite Z.sub_diag. reflexivity.
  - apply IH in H. destruct H as [H1 H2]. split; [lia|].
    replace (Z.to_nat (n - k)) with (S (Z.to_nat (n - (k + 1)))) by lia. exact H2.
Qed.

Lemma index_of_some c l k : cmem c l = true -> exists n, index_of c l k = Some n.
Proof.
  revert k. induction l as [|x l IH]; intros k H; simpl in *; [discriminate|].
  destruct (cls_eqb c x); eauto.
Qed.

Lemma index_of_none c l k : cmem c l = false -> index_of c l k = None.
Proof.
  revert k. induction l as [|x l IH]; intros k H; simpl in *; auto.
  destruct (cls_eqb c x); [discriminate|]. apply IH. exact H.
Qed.

Section WithClasses.
Variable classes : list cls.

Lemma id_class_at c i : id_of classes c = Ok i -> class_at classes i = Ok c.
Proof.
  unfold Model.id_of, Model.class_at. destruct (index_of c classes 0) as [n|] eqn:E; simpl; [|discriminate].
  intros H. inversion H; subst. apply index_of_nth in E. destruct E as [E1 E2].
  rewrite dec_roundtrip by lia. simpl. rewrite py_nth_nonneg by lia.
  rewrite Z.sub_0_r in E2.
  assert (n < zlen classes).
  { unfold zlen. assert (nth_error classes (Z.to_nat n) <> None) by congruence.
    apply nth_error_Some in H0. lia. }
  destruct (n <? zlen classes) eqn:E3; [|lia]. rewrite E2. reflexivity.
Qed.

Lemma id_inj c c' i : id_of classes c = Ok i -> id_of classes c' = Ok i -> c = c'.
Proof. intros H1 H2. apply id_class_at in H1. apply id_class_at in H2. congruence. Qed.

Definition has_id (c : cls) : Prop := exists i, id_of classes c = Ok i.
Definition is_id (i : str) : Prop := exists c, id_of classes c = Ok i.

(* ---- nested maps *)
Section Values.
Context {A : Type}.
Variable enc : A -> json.
Variable dec : json -> res A.
Hypothesis dec_enc : forall a, dec (enc a) = Ok a.

Definition nget (i1 i2 : str) (m : nested A) : option A :=
  match dget str_eqb i1 m with Some sub => dget str_eqb i2 sub | None => None end.

Definition Nwf (m : nested A) : Prop :=
  keys_nodup str_eqb (map fst m) = true /\
  Forall (fun kv => is_id (fst kv) /\ keys_nodup str_eqb (map fst (snd kv)) = true /\
                    Forall (fun kv2 => is_id (fst kv2)) (snd kv)) m.

Lemma str_keys_snoc (l : list str) x :
  keys_nodup str_eqb l = true -> existsb (str_eqb x) l = false ->
  keys_nodup str_eqb (l ++ [x]) = true.
Proof.
  induction l as [|a l IH]; simpl; intros Hn Hx; auto.
  apply andb_true_iff in Hn. destruct Hn as [Ha Hn]. apply orb_false_iff in Hx. destruct Hx as [Hxa Hx].
  apply andb_true_iff. split; [|apply IH; auto].
  apply negb_true_iff. rewrite existsb_app. apply orb_false_iff. split.
  - apply negb_true_iff in Ha. exact Ha.
  - simpl. rewrite orb_false_r. destruct (str_eqb a x) eqn:E; auto.
    apply str_eqb_eq in E. subst. rewrite str_eqb_refl in Hxa. discriminate.
Qed.

Lemma dset_keys {V} k (v : V) d :
  map fst (dset str_eqb k v d) =
  if dmem str_eqb k d then map fst d else map fst d ++ [k].
Proof.
  unfold dmem. induction d as [|[k' v'] d IH]; simpl; auto.
  destruct (str_eqb k k') eqn:E; simpl; auto.
  rewrite IH. destruct (dget str_eqb k d); reflexivity.
Qed.

Lemma dset_keys_nodup {V} k (v : V) d :
  keys_nodup str_eqb (map fst d) = true -> keys_nodup str_eqb (map fst (dset str_eqb k v d)) = true.
Proof.
  intros H. rewrite dset_keys. unfold dmem. destruct (dget str_eqb k d) eqn:E; auto.
  apply str_keys_snoc; auto. apply (dget_none_iff str_eqb). exact E.
Qed.

Lemma dset_Forall {V} (P : str * V -> Prop) k v d :
  Forall P d -> P (k, v) -> (forall k' v', P (k', v') -> P (k', v)) -> Forall P (dset str_eqb k v d).
Proof.
  intros Hd Hk Hrepl. induction Hd as [|[k' v'] d Hx Hd IH]; simpl.
  - constructor; auto.
  - destruct (str_eqb k k') eqn:E.
    + constructor; auto. eapply Hrepl. exact Hx.
    + constructor; auto.
Qed.

Lemma Nwf_set i1 i2 v m : Nwf m -> is_id i1 -> is_id i2 -> Nwf (nested_set i1 i2 v m).
Proof.
  intros [Hn Hf] H1 H2. unfold nested_set. destruct (dget str_eqb i1 m) as [sub|] eqn:E.
  - split; [apply dset_keys_nodup; exact Hn|].
    clear Hn. revert E. induction Hf as [|[k s] m Hx Hm IH]; simpl; intros E; [discriminate|].
    destruct (str_eqb i1 k) eqn:E1.
    + inversion E; subst s. constructor; auto. simpl in *. destruct Hx as (Hx1 & Hx2 & Hx3). csplit; auto.
      * apply dset_keys_nodup; auto.
      * apply dset_Forall; auto.
    + constructor; auto.
  - split.
    + rewrite map_app. simpl. apply str_keys_snoc; auto. apply (dget_none_iff str_eqb). exact E.
    + apply Forall_app. split; auto. constructor; auto. simpl. csplit; auto.
Qed.

Lemma nget_set_same i1 i2 v m : nget i1 i2 (nested_set i1 i2 v m) = Some v.
Proof.
  unfold nget, nested_set. destruct (dget str_eqb i1 m) as [sub|] eqn:E.
  - rewrite (dget_dset_same str_eqb str_eqb_eq). apply (dget_dset_same str_eqb str_eqb_eq).
  - rewrite (dget_app_none str_eqb _ _ _ E). simpl. rewrite str_eqb_refl. simpl. rewrite str_eqb_refl. reflexivity.
Qed.

Lemma nget_set_other i1 i2 j1 j2 v m :
  (str_eqb j1 i1 = false \/ str_eqb j2 i2 = false) ->
  nget j1 j2 (nested_set i1 i2 v m) = nget j1 j2 m.
Proof.
  intros H. unfold nget, nested_set. destruct (dget str_eqb i1 m) as [sub|] eqn:E.
  - destruct (str_eqb j1 i1) eqn:E1.
    + apply str_eqb_eq in E1. subst j1. rewrite (dget_dset_same str_eqb str_eqb_eq). rewrite E.
      destruct H as [H|H]; [discriminate|].
      apply (dget_dset_other str_eqb str_eqb_eq). exact H.
    + rewrite (dget_dset_other str_eqb str_eqb_eq) by exact E1. reflexivity.
  - destruct (dget str_eqb j1 m) as [s|] eqn:E2.
    + rewrite (dget_app_some str_eqb _ _ _ _ E2). reflexivity.
    + rewrite (dget_app_none str_eqb _ _ _ E2). simpl.
      destruct (str_eqb j1 i1) eqn:E1; auto. simpl.
      destruct H as [H|H]; [discriminate|]. rewrite H. reflexivity.
Qed.

(* ---- _populate_json_map *)
Lemma populate_spec (tm : list ((cls * cls) * A)) : forall m,
  Nwf m ->
  Forall (fun kv => has_id (fst (fst kv)) /\ has_id (snd (fst kv))) tm ->
  keys_nodup pair_eqb (map fst tm) = true ->
  exists M, populate classes tm m = Ok M /\ Nwf M /\
    forall k1 k2 i1 i2, id_of classes k1 = Ok i1 -> id_of classes k2 = Ok i2 ->
      nget i1 i2 M = match dget pair_eqb (k1, k2) tm with
                     | Some a => Some a
                     | None => nget i1 i2 m
                     end.
Proof.
  induction tm as [|[[c1 c2] v] tm IH]; intros m Hm Hids Hn.
  - exists m. simpl. csplit; auto.
  - inversion Hids as [|? ? [[j1 Hj1] [j2 Hj2]] Hids']; subst. simpl in Hj1, Hj2.
    cbn [Model.populate]. rewrite Hj1, Hj2. cbn [bind].
    simpl in Hn. apply andb_true_iff in Hn. destruct Hn as [Hn1 Hn2].
    destruct (IH (nested_set j1 j2 v m)) as (M & HM & HwM & Hget); auto.
    { apply Nwf_set; auto; eexists; eauto. }
    exists M. csplit; auto. intros k1 k2 i1 i2 Hi1 Hi2. rewrite (Hget k1 k2 i1 i2 Hi1 Hi2).
    cbn [dget]. destruct (pair_eqb (k1, k2) (c1, c2)) eqn:E.
    + apply pair_eqb_spec in E. inversion E; subst k1 k2.
      assert (dget pair_eqb (c1, c2) tm = None) as ->.
      { apply (dget_none_iff pair_eqb). apply negb_true_iff in Hn1. exact Hn1. }
      assert (i1 = j1) by congruence. assert (i2 = j2) by congruence. subst.
      apply nget_set_same.
    + destruct (dget pair_eqb (k1, k2) tm); auto.
      apply nget_set_other.
      destruct (str_eqb i1 j1) eqn:E1; auto. destruct (str_eqb i2 j2) eqn:E2; auto.
      apply str_eqb_eq in E1, E2. subst. exfalso.
      rewrite (id_inj _ _ _ Hi1 Hj1), (id_inj _ _ _ Hi2 Hj2) in E.
      assert (pair_eqb (c1, c2) (c1, c2) = true) by (apply pair_eqb_spec; reflexivity). congruence.
Qed.

(* ---- from_dict's dictionary comprehension *)
Lemma unflatten_sub_spec c1 (sub : list (str * A)) : forall acc,
  keys_nodup str_eqb (map fst sub) = true ->
  Forall (fun kv2 => is_id (fst kv2)) sub ->
  exists R, unflatten_sub dec classes c1 (enc_sub enc sub) acc = Ok R /\
    forall k1 k2,
      dget pair_eqb (k1, k2) R =
      if cls_eqb k1 c1 then
        match id_of classes k2 with
        | Ok i2 => match dget str_eqb i2 sub with Some a => Some a | None => dget pair_eqb (k1, k2) acc end
        | Err _ => dget pair_eqb (k1, k2) acc
        end
      else dget pair_eqb (k1, k2) acc.
Proof.
  induction sub as [|[i2 a] sub IH]; intros acc Hn Hid.
  - exists acc. simpl. split; auto. intros k1 k2. destruct (cls_eqb k1 c1); auto.
    destruct (id_of classes k2); auto.
  - inversion Hid as [|? ? [c2 Hc2] Hid']; subst. simpl in Hc2.
    simpl in Hn. apply andb_true_iff in Hn. destruct Hn as [Hn1 Hn2].
    cbn [enc_sub map Model.unflatten_sub fst snd].
    rewrite (id_class_at _ _ Hc2). cbn [bind]. rewrite dec_enc. cbn [bind].
    destruct (IH (dset pair_eqb (c1, c2) a acc) Hn2 Hid') as (R & HR & Hget).
    exists R. split; [exact HR|]. intros k1 k2. rewrite Hget.
    destruct (cls_eqb k1 c1) eqn:E1.
    + apply cls_eqb_spec in E1. subst k1.
      destruct (id_of classes k2) as [j2|] eqn:Ej.
      * cbn [dget]. destruct (str_eqb j2 i2) eqn:E2.
        -- apply str_eqb_eq in E2. subst j2.
           assert (dget str_eqb i2 sub = None) as ->.
           { apply (dget_none_iff str_eqb). apply negb_true_iff in Hn1. exact Hn1. }
           rewrite (id_inj _ _ _ Ej Hc2). apply (dget_dset_same pair_eqb pair_eqb_spec).
        -- destruct (dget str_eqb j2 sub); auto.
           apply (dget_dset_other pair_eqb pair_eqb_spec). apply pair_eqb_false_r.
           destruct (cls_eqb k2 c2) eqn:E3; auto. apply cls_eqb_spec in E3. subst k2.
           rewrite Hc2 in Ej. inversion Ej; subst. rewrite str_eqb_refl in E2. discriminate.
      * apply (dget_dset_other pair_eqb pair_eqb_spec). apply pair_eqb_false_r.
        destruct (cls_eqb k2 c2) eqn:E3; auto. apply cls_eqb_spec in E3. subst k2. congruence.
    + apply (dget_dset_other pair_eqb pair_eqb_spec). apply pair_eqb_false_l. exact E1.
Qed.

Lemma unflatten_spec (m : nested A) : forall acc,
  Nwf m ->
  exists R, unflatten dec classes (enc_nested enc m) acc = Ok R /\
    forall k1 k2,
      dget pair_eqb (k1, k2) R =
      match id_of classes k1, id_of classes k2 with
      | Ok i1, Ok i2 => match nget i1 i2 m with Some a => Some a | None => dget pair_eqb (k1, k2) acc end
      | _, _ => dget pair_eqb (k1, k2) acc
      end.
Proof.
  induction m as [|[i1 sub] m IH]; intros acc [Hn Hf].
  - exists acc. simpl. split; auto. intros k1 k2.
    destruct (id_of classes k1); auto. destruct (id_of classes k2); auto.
  - inversion Hf as [|? ? ([c1 Hc1] & Hs1 & Hs2) Hf']; subst. simpl in Hc1, Hs1, Hs2.
    simpl in Hn. apply andb_true_iff in Hn. destruct Hn as [Hn1 Hn2].
    cbn [enc_nested map Model.unflatten fst snd as_obj bind].
    rewrite (id_class_at _ _ Hc1). cbn [bind].
    destruct (unflatten_sub_spec c1 sub acc Hs1 Hs2) as (acc' & Hacc' & Hget').
    rewrite Hacc'. cbn [bind].
    destruct (IH acc' (conj Hn2 Hf')) as (R & HR & Hget).
    exists R. split; [exact HR|]. intros k1 k2. rewrite Hget.
    assert (dget str_eqb i1 m = None) as Hnone.
    { apply (dget_none_iff str_eqb). apply negb_true_iff in Hn1. exact Hn1. }
    destruct (id_of classes k1) as [j1|] eqn:Ej1.
    + destruct (id_of classes k2) as [j2|] eqn:Ej2.
      * unfold nget. cbn [dget]. destruct (str_eqb j1 i1) eqn:E1.
        -- apply str_eqb_eq in E1. subst j1. rewrite Hnone.
           rewrite Hget'. rewrite (id_inj _ _ _ Ej1 Hc1). rewrite ceqb_refl. rewrite Ej2. reflexivity.
        -- destruct (dget str_eqb j1 m) as [s|]; [destruct (dget str_eqb j2 s); auto|].
           ++ rewrite Hget'. destruct (cls_eqb k1 c1) eqn:E3; auto.
              apply cls_eqb_spec in E3. subst k1. rewrite Hc1 in Ej1. inversion Ej1; subst.
              rewrite str_eqb_refl in E1. discriminate.
           ++ rewrite Hget'. destruct (cls_eqb k1 c1) eqn:E3; auto.
              apply cls_eqb_spec in E3. subst k1. rewrite Hc1 in Ej1. inversion Ej1; subst.
              rewrite str_eqb_refl in E1. discriminate.
      * rewrite Hget'. rewrite Ej2. destruct (cls_eqb k1 c1); reflexivity.
    + rewrite Hget'. destruct (cls_eqb k1 c1) eqn:E3; auto.
      apply cls_eqb_spec in E3. subst k1. congruence.
Qed.

(* dumping a tuple-keyed map and loading it back preserves every lookup *)
Lemma map_roundtrip (tm : list ((cls * cls) * A)) :
  Forall (fun kv => has_id (fst (fst kv)) /\ has_id (snd (fst kv))) tm ->
  keys_nodup pair_eqb (map fst tm) = true ->
  exists M R, populate classes tm [] = Ok M /\
    unflatten dec classes (enc_nested enc M) [] = Ok R /\
    forall k, dget pair_eqb k R = dget pair_eqb k tm.
Proof.
  intros Hids Hn.
  destruct (populate_spec tm [] (conj eq_refl (Forall_nil _)) Hids Hn) as (M & HM & HwM & Hget).
  destruct (unflatten_spec M [] HwM) as (R & HR & HgetR).
  exists M, R. csplit; auto. intros [k1 k2]. rewrite HgetR.
  destruct (id_of classes k1) as [i1|e1] eqn:E1.
  - destruct (id_of classes k2) as [i2|e2] eqn:E2.
    + rewrite (Hget k1 k2 i1 i2 E1 E2). destruct (dget pair_eqb (k1, k2) tm); reflexivity.
    + simpl. destruct (dget pair_eqb (k1, k2) tm) eqn:E; auto. exfalso.
      clear - E E2 Hids cls_eqb_spec. induction Hids as [|[[a1 a2] v] tm [_ [j Hj]] Hids IH]; simpl in E; [discriminate|].
      destruct (pair_eqb (k1, k2) (a1, a2)) eqn:Ep; auto.
      apply pair_eqb_spec in Ep. inversion Ep; subst. simpl in Hj. congruence.
  - simpl. destruct (dget pair_eqb (k1, k2) tm) eqn:E; auto. exfalso.
    clear - E E1 Hids cls_eqb_spec. induction Hids as [|[[a1 a2] v] tm [[j Hj] _] Hids IH]; simpl in E; [discriminate|].
    destruct (pair_eqb (k1, k2) (a1, a2)) eqn:Ep; auto.
    apply pair_eqb_spec in Ep. inversion Ep; subst. simpl in Hj. congruence.
Qed.
End Values.
End WithClasses.

(* ---- _classes_to_array *)
Lemma cmem_app c l1 l2 : cmem c (l1 ++ l2) = cmem c l1 || cmem c l2.
Proof. unfold Model.cmem. apply existsb_app. Qed.

Lemma cmem_snoc c l : cmem c (l ++ [c]) = true.
Proof. rewrite cmem_app. unfold Model.cmem. simpl. rewrite ceqb_refl. rewrite orb_true_r. reflexivity. Qed.

Lemma classes_array_mono keys : forall acc c, cmem c acc = true -> cmem c (classes_array keys acc) = true.
Proof.
  induction keys as [|[c1 c2] keys IH]; intros acc c H; simpl; auto.
  apply IH. destruct (cmem c1 acc) eqn:E1.
  - destruct (cmem c2 acc); auto. rewrite cmem_app, H. reflexivity.
  - destruct (cmem c2 (acc ++ [c1])); rewrite !cmem_app, H; reflexivity.
Qed.

Lemma classes_array_has keys : forall acc c1 c2,
  In (c1, c2) keys ->
  cmem c1 (classes_array keys acc) = true /\ cmem c2 (classes_array keys acc) = true.
Proof.
  induction keys as [|[a1 a2] keys IH]; intros acc c1 c2 Hin; [destruct Hin|].
  destruct Hin as [E|Hin]; [|simpl; apply IH; exact Hin].
  inversion E; subst. simpl.
  set (acc1 := if cmem c1 acc then acc else acc ++ [c1]).
  set (acc2 := if cmem c2 acc1 then acc1 else acc1 ++ [c2]).
  assert (cmem c1 acc1 = true) as H1.
  { unfold acc1. destruct (cmem c1 acc) eqn:E1; auto. apply cmem_snoc. }
  assert (cmem c2 acc2 = true) as H2.
  { unfold acc2. destruct (cmem c2 acc1) eqn:E2; auto. apply cmem_snoc. }
  assert (cmem c1 acc2 = true) as H3.
  { unfold acc2. destruct (cmem c2 acc1); auto. rewrite cmem_app, H1. reflexivity. }
  split; apply classes_array_mono; auto.
Qed.

Lemma has_id_of_cmem classes c : cmem c classes = true -> has_id classes c.
Proof.
  intros H. destruct (index_of_some c classes 0 H) as (n & Hn).
  exists (dec_of_Z n). unfold Model.id_of. rewrite Hn. reflexivity.
Qed.

Lemma Zs_roundtrip l : Zs_of_json (json_of_Zs l) = Ok l.
Proof.
  unfold Zs_of_json, json_of_Zs. cbn [as_arr bind].
  rewrite (mapM_map as_num JNum (fun x => x)); [rewrite map_id; reflexivity|].
  apply Forall_forall. intros; reflexivity.
Qed.

Definition bij_wf (b : bij cls) : Prop :=
  spec_wf (b_spec cls b) /\ spec_wf (b_other cls b) /\
  keys_nodup pair_eqb (map fst (b_order cls b)) = true /\
  keys_nodup pair_eqb (map fst (b_data cls b)) = true /\
  (forall k, In k (map fst (b_data cls b)) -> In k (map fst (b_order cls b))).

Theorem bij_roundtrip b :
  bij_wf b ->
  exists b', bij_of_json (json_of_bij b) = Ok b' /\
    b_spec cls b' = strip_spec (b_spec cls b) /\
    b_other cls b' = strip_spec (b_other cls b) /\
    (forall k, dget pair_eqb k (b_order cls b') = dget pair_eqb k (b_order cls b)) /\
    (forall k, dget pair_eqb k (b_data cls b') = dget pair_eqb k (b_data cls b)).
Proof.
  intros (Hs1 & Hs2 & Hn1 & Hn2 & Hsub).
  unfold Model.json_of_bij.
  set (classes := classes_array (map fst (b_order cls b)) []).
  assert (forall c1 c2, In (c1, c2) (map fst (b_order cls b)) ->
            has_id classes c1 /\ has_id classes c2) as Hhas.
  { intros c1 c2 Hin. destruct (classes_array_has _ [] c1 c2 Hin). split; apply has_id_of_cmem; auto. }
  assert (Forall (fun kv => has_id classes (fst (fst kv)) /\ has_id classes (snd (fst kv))) (b_order cls b)) as Ho.
  { apply Forall_forall. intros [[c1 c2] v] Hin. simpl. apply Hhas.
    apply in_map_iff. exists (c1, c2, v). auto. }
  assert (Forall (fun kv => has_id classes (fst (fst kv)) /\ has_id classes (snd (fst kv))) (b_data cls b)) as Hd.
  { apply Forall_forall. intros [[c1 c2] v] Hin. simpl. apply Hhas. apply Hsub.
    apply in_map_iff. exists (c1, c2, v). auto. }
  destruct (map_roundtrip classes json_of_Zs Zs_of_json Zs_roundtrip (b_order cls b) Ho Hn1)
    as (M1 & R1 & HM1 & HR1 & Hg1).
  destruct (map_roundtrip classes (fun x => x) (fun x => Ok x) (fun a => eq_refl) (b_data cls b) Hd Hn2)
    as (M2 & R2 & HM2 & HR2 & Hg2).
  rewrite HM1, HM2.
  exists (mkBij cls (strip_spec (b_spec cls b)) (strip_spec (b_other cls b)) R1 R2).
  csplit; auto.
  unfold Model.bij_of_json. cbn [as_obj bind].
  set (d := [(k_spec, _); _; _; _; _]).
  replace (jget k_spec d) with (Ok (json_of_spec (b_spec cls b))) by reflexivity. cbn [bind].
  rewrite (spec_roundtrip cls cls_eqb cls_eqb_spec cls_to_json cls_of_json cls_roundtrip) by exact Hs1.
  cbn [bind].
  replace (jget k_other d) with (Ok (json_of_spec (b_other cls b))) by reflexivity. cbn [bind].
  rewrite (spec_roundtrip cls cls_eqb cls_eqb_spec cls_to_json cls_of_json cls_roundtrip) by exact Hs2.
  cbn [bind].
  replace (jget k_classes d) with (Ok (JArr (map cls_to_json classes))) by reflexivity. cbn [bind as_arr].
  rewrite (mapM_map cls_of_json cls_to_json (fun x => x)) by (apply Forall_forall; intros; apply cls_roundtrip).
  rewrite map_id. cbn [bind].
  replace (jget k_order d) with (Ok (JObj (enc_nested json_of_Zs M1))) by reflexivity. cbn [bind as_obj].
  rewrite HR1. cbn [bind].
  replace (jget k_index_data d) with (Ok (JObj (enc_nested (fun x => x) M2))) by reflexivity. cbn [bind as_obj].
  rewrite HR2. cbn [bind]. reflexivity.
Qed.

End BijProofs.
