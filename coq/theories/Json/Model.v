(* C18 — JSON round trips.  Executable model of the (de)serialisation code of
   comb_spec_searcher, transcribed method by method:

     strategies/strategy.py   AbstractStrategy.to_jsonable / __eq__, strategy_from_dict,
                              VerificationStrategy / AtomStrategy / EmptyStrategy /
                              StrategyFactory .to_jsonable / .from_dict
     strategies/rule.py       AbstractRule / Rule / VerificationRule / EquivalenceRule /
                              EquivalencePathRule / ReverseRule  .to_jsonable / .from_dict /
                              __init__ (the derived comb_class / children / strategy and
                              the asserts of the constructors) / __eq__
     strategies/strategy_pack.py  StrategyPack.to_jsonable / from_dict / __eq__
     specification.py         CombinatorialSpecification.to_jsonable / from_dict /
                              __init__(group_equiv=False) (_set_subrules + get_rule's lazily
                              added empty rules) / __eq__
     isomorphism.py           Bijection.to_jsonable (_classes_to_array, _populate_json_map)
                              / from_dict

   User code is a Section variable: the class codec (to_jsonable / from_dict of
   the combinatorial class), is_empty, the table of strategy classes
   (`cat_of`: which library base class a (module, name) pair inherits its
   to_jsonable shape from; None = import / getattr fails), the user's from_dict
   (`user_from_dict`), decomposition_function (`decomp`), is_reversible and the
   "can be an equivalence" capability of strategy + constructor.

   A strategy instance is  (module, class name, flags, settings, extra_attrs):
   `s_flags`/`s_user` are the part of the instance __dict__ that to_jsonable
   writes and from_dict restores; `s_extra` are the other instance attributes
   (Python's __orig_class__, set when the instance was created through a
   subscripted generic alias such as EmptyStrategy[A, B]()).  __eq__ compares the
   __dict__ without the key "__orig_class__" (commit e507e93).

   No proofs here. *)
From Coq Require Import ZArith List Bool.
From CSS Require Import Base.PyList.
Import ListNotations.
Open Scope Z_scope.

(* ------------------------------------------------------------------ strings *)
Definition str := list Z.          (* code points *)

Fixpoint str_eqb (a b : str) : bool :=
  match a, b with
  | [], [] => true
  | x :: a', y :: b' => Z.eqb x y && str_eqb a' b'
  | _, _ => false
  end.

(* f"{n}" for n >= 0 and int(s) restricted to plain decimal digits *)
Fixpoint dec_aux (fuel : nat) (n : Z) (acc : str) : str :=
  match fuel with
  | O => acc
  | S f =>
      let acc' := (48 + n mod 10) :: acc in
      if n <? 10 then acc' else dec_aux f (n / 10) acc'
  end.
Definition dec_of_Z (n : Z) : str := dec_aux (S (Z.to_nat n)) n [].

Fixpoint dec_parse (s : str) (acc : Z) : option Z :=
  match s with
  | [] => Some acc
  | d :: r => if (48 <=? d) && (d <=? 57) then dec_parse r (acc * 10 + (d - 48)) else None
  end.
Definition Z_of_dec (s : str) : option Z :=
  match s with [] => None | _ => dec_parse s 0 end.

(* ------------------------------------------------------------------ json *)
Inductive json : Type :=
| JNull
| JBool (b : bool)
| JNum (z : Z)
| JStr (s : str)
| JArr (l : list json)
| JObj (kv : list (str * json)).

Fixpoint json_eqb (a b : json) {struct a} : bool :=
  match a, b with
  | JNull, JNull => true
  | JBool x, JBool y => Bool.eqb x y
  | JNum x, JNum y => Z.eqb x y
  | JStr x, JStr y => str_eqb x y
  | JArr xs, JArr ys =>
      (fix go (xs ys : list json) {struct xs} : bool :=
         match xs, ys with
         | [], [] => true
         | x :: xs', y :: ys' => json_eqb x y && go xs' ys'
         | _, _ => false
         end) xs ys
  | JObj xs, JObj ys =>
      (fix go (xs ys : list (str * json)) {struct xs} : bool :=
         match xs, ys with
         | [], [] => true
         | (k, x) :: xs', (k', y) :: ys' => str_eqb k k' && json_eqb x y && go xs' ys'
         | _, _ => false
         end) xs ys
  | _, _ => false
  end.

(* ------------------------------------------------------------------ results *)
Inductive err := EKey | EImport | EAttr | EAssert | EType | EIndex | EValue | ENotApply.
Inductive res (A : Type) : Type :=
| Ok (a : A)
| Err (e : err).
Arguments Ok {A} a.
Arguments Err {A} e.

Definition bind {A B} (x : res A) (f : A -> res B) : res B :=
  match x with Ok a => f a | Err e => Err e end.
Notation "x <- e ;; f" := (bind e (fun x => f)) (at level 61, e at next level, right associativity).

Definition is_ok {A} (x : res A) : bool := match x with Ok _ => true | Err _ => false end.
Definition of_opt {A} (e : err) (o : option A) : res A :=
  match o with Some a => Ok a | None => Err e end.
Definition assert (b : bool) : res unit := if b then Ok tt else Err EAssert.

Fixpoint mapM {A B} (f : A -> res B) (l : list A) : res (list B) :=
  match l with
  | [] => Ok []
  | x :: t => y <- f x ;; ys <- mapM f t ;; Ok (y :: ys)
  end.

Fixpoint sequence {A} (l : list (res A)) : res (list A) :=
  match l with
  | [] => Ok []
  | x :: t => y <- x ;; ys <- sequence t ;; Ok (y :: ys)
  end.

(* ------------------------------------------------------------------ dicts *)
Section Dict.
Context {K V : Type}.
Variable keqb : K -> K -> bool.

Fixpoint dget (k : K) (d : list (K * V)) : option V :=
  match d with
  | [] => None
  | (k', v) :: t => if keqb k k' then Some v else dget k t
  end.

(* del d[k] (keys of a dict are distinct: the first occurrence is the only one) *)
Fixpoint ddel (k : K) (d : list (K * V)) : list (K * V) :=
  match d with
  | [] => []
  | (k', v) :: t => if keqb k k' then t else (k', v) :: ddel k t
  end.

(* d[k] = v : an existing key keeps its position *)
Fixpoint dset (k : K) (v : V) (d : list (K * V)) : list (K * V) :=
  match d with
  | [] => [(k, v)]
  | (k', v') :: t => if keqb k k' then (k', v) :: t else (k', v') :: dset k v t
  end.

Definition dmem (k : K) (d : list (K * V)) : bool :=
  match dget k d with Some _ => true | None => false end.

(* dict.__eq__ : same number of keys, every key of a is in b with an equal value *)
Definition dict_eqb (veqb : V -> V -> bool) (a b : list (K * V)) : bool :=
  Nat.eqb (length a) (length b) &&
  forallb (fun kv => match dget (fst kv) b with
                     | Some v' => veqb (snd kv) v'
                     | None => false
                     end) a.
End Dict.

(* d.pop(k) on a JSON object : KeyError when absent *)
Definition jpop (k : str) (d : list (str * json)) : res (json * list (str * json)) :=
  match dget str_eqb k d with
  | Some v => Ok (v, ddel str_eqb k d)
  | None => Err EKey
  end.
Definition jget (k : str) (d : list (str * json)) : res json :=
  of_opt EKey (dget str_eqb k d).

Definition as_str (j : json) : res str := match j with JStr s => Ok s | _ => Err EType end.
Definition as_arr (j : json) : res (list json) := match j with JArr l => Ok l | _ => Err EType end.
Definition as_obj (j : json) : res (list (str * json)) := match j with JObj kv => Ok kv | _ => Err EType end.
Definition as_num (j : json) : res Z := match j with JNum z => Ok z | _ => Err EType end.
(* iterative=d.get(...) is stored as is; json true/false only in the model *)
Definition as_bool (j : json) : res bool := match j with JBool b => Ok b | _ => Err EType end.

(* apply f to the value stored under key k (first occurrence), structurally *)
Section AssocMap.
Context {B : Type}.
Variable f : json -> B.
Fixpoint assoc_map (k : str) (kv : list (str * json)) : option B :=
  match kv with
  | [] => None
  | (k', v) :: t => if str_eqb k k' then Some (f v) else assoc_map k t
  end.
End AssocMap.

(* ------------------------------------------------------------------ keys *)
Definition k_class_module : str := [99; 108; 97; 115; 115; 95; 109; 111; 100; 117; 108; 101].   (* "class_module" *)
Definition k_strategy_class : str := [115; 116; 114; 97; 116; 101; 103; 121; 95; 99; 108; 97; 115; 115].   (* "strategy_class" *)
Definition k_rule_class : str := [114; 117; 108; 101; 95; 99; 108; 97; 115; 115].   (* "rule_class" *)
Definition k_comb_class : str := [99; 111; 109; 98; 95; 99; 108; 97; 115; 115].   (* "comb_class" *)
Definition k_children : str := [99; 104; 105; 108; 100; 114; 101; 110].   (* "children" *)
Definition k_strategy : str := [115; 116; 114; 97; 116; 101; 103; 121].   (* "strategy" *)
Definition k_original_rule : str := [111; 114; 105; 103; 105; 110; 97; 108; 95; 114; 117; 108; 101].   (* "original_rule" *)
Definition k_rules : str := [114; 117; 108; 101; 115].   (* "rules" *)
Definition k_idx : str := [105; 100; 120].   (* "idx" *)
Definition k_ignore_parent : str := [105; 103; 110; 111; 114; 101; 95; 112; 97; 114; 101; 110; 116].   (* "ignore_parent" *)
Definition k_inferrable : str := [105; 110; 102; 101; 114; 114; 97; 98; 108; 101].   (* "inferrable" *)
Definition k_possibly_empty : str := [112; 111; 115; 115; 105; 98; 108; 121; 95; 101; 109; 112; 116; 121].   (* "possibly_empty" *)
Definition k_workable : str := [119; 111; 114; 107; 97; 98; 108; 101].   (* "workable" *)
Definition k_root : str := [114; 111; 111; 116].   (* "root" *)
Definition k_name : str := [110; 97; 109; 101].   (* "name" *)
Definition k_initial_strats : str := [105; 110; 105; 116; 105; 97; 108; 95; 115; 116; 114; 97; 116; 115].   (* "initial_strats" *)
Definition k_inferral_strats : str := [105; 110; 102; 101; 114; 114; 97; 108; 95; 115; 116; 114; 97; 116; 115].   (* "inferral_strats" *)
Definition k_ver_strats : str := [118; 101; 114; 95; 115; 116; 114; 97; 116; 115].   (* "ver_strats" *)
Definition k_expansion_strats : str := [101; 120; 112; 97; 110; 115; 105; 111; 110; 95; 115; 116; 114; 97; 116; 115].   (* "expansion_strats" *)
Definition k_symmetries : str := [115; 121; 109; 109; 101; 116; 114; 105; 101; 115].   (* "symmetries" *)
Definition k_iterative : str := [105; 116; 101; 114; 97; 116; 105; 118; 101].   (* "iterative" *)
Definition k_spec : str := [115; 112; 101; 99].   (* "spec" *)
Definition k_other : str := [111; 116; 104; 101; 114].   (* "other" *)
Definition k_order : str := [111; 114; 100; 101; 114].   (* "order" *)
Definition k_index_data : str := [105; 110; 100; 101; 120; 95; 100; 97; 116; 97].   (* "index_data" *)
Definition k_classes : str := [99; 108; 97; 115; 115; 101; 115].   (* "classes" *)
Definition k_orig_class : str := [95; 95; 111; 114; 105; 103; 95; 99; 108; 97; 115; 115; 95; 95].   (* "__orig_class__" *)

Definition rule_module : str := [99; 111; 109; 98; 95; 115; 112; 101; 99; 95; 115; 101; 97; 114; 99; 104; 101; 114; 46; 115; 116; 114; 97; 116; 101; 103; 105; 101; 115; 46; 114; 117; 108; 101].   (* "comb_spec_searcher.strategies.rule" *)
Definition n_Rule : str := [82; 117; 108; 101].   (* "Rule" *)
Definition n_VerificationRule : str := [86; 101; 114; 105; 102; 105; 99; 97; 116; 105; 111; 110; 82; 117; 108; 101].   (* "VerificationRule" *)
Definition n_EquivalenceRule : str := [69; 113; 117; 105; 118; 97; 108; 101; 110; 99; 101; 82; 117; 108; 101].   (* "EquivalenceRule" *)
Definition n_EquivalencePathRule : str := [69; 113; 117; 105; 118; 97; 108; 101; 110; 99; 101; 80; 97; 116; 104; 82; 117; 108; 101].   (* "EquivalencePathRule" *)
Definition n_ReverseRule : str := [82; 101; 118; 101; 114; 115; 101; 82; 117; 108; 101].   (* "ReverseRule" *)
Definition strategy_module : str := [99; 111; 109; 98; 95; 115; 112; 101; 99; 95; 115; 101; 97; 114; 99; 104; 101; 114; 46; 115; 116; 114; 97; 116; 101; 103; 105; 101; 115; 46; 115; 116; 114; 97; 116; 101; 103; 121].   (* "comb_spec_searcher.strategies.strategy" *)
Definition n_EmptyStrategy : str := [69; 109; 112; 116; 121; 83; 116; 114; 97; 116; 101; 103; 121].   (* "EmptyStrategy" *)

(* ------------------------------------------------------------------ strategies *)
Definition flags := (bool * bool * bool * bool)%type.   (* ignore_parent, inferrable, possibly_empty, workable *)

Record strat : Type := mkStrat {
  s_mod : str;                      (* type(self).__module__ *)
  s_name : str;                     (* type(self).__name__ *)
  s_flags : option flags;           (* _ignore_parent .. _workable in __dict__ (absent for factories) *)
  s_user : list (str * json);       (* the further settings in __dict__ *)
  s_extra : list (str * Z)          (* instance attributes that are not settings: __orig_class__ *)
}.

(* the instance the same constructor call creates when not going through a
   subscripted alias *)
Definition strip (s : strat) : strat := mkStrat (s_mod s) (s_name s) (s_flags s) (s_user s) [].
Definition plain (s : strat) : bool := match s_extra s with [] => true | _ => false end.

(* which library class provides to_jsonable / from_dict *)
Inductive scat := CStrategy | CVerif | CAtom | CEmpty | CFactory.

Definition flags_eqb (a b : option flags) : bool :=
  match a, b with
  | None, None => true
  | Some (a1, a2, a3, a4), Some (b1, b2, b3, b4) =>
      Bool.eqb a1 b1 && Bool.eqb a2 b2 && Bool.eqb a3 b3 && Bool.eqb a4 b4
  | _, _ => false
  end.

(* strategy.py _settings(strategy): the instance __dict__ without "__orig_class__" *)
Definition eq_extra (s : strat) : list (str * Z) :=
  filter (fun kv => negb (str_eqb (fst kv) k_orig_class)) (s_extra s).

(* AbstractStrategy.__eq__ / StrategyFactory.__eq__ :
     self.__class__ == other.__class__ and _settings(self) == _settings(other) *)
Definition strat_eq (a b : strat) : bool :=
  str_eqb (s_mod a) (s_mod b) && str_eqb (s_name a) (s_name b) &&
  flags_eqb (s_flags a) (s_flags b) &&
  dict_eqb str_eqb json_eqb (s_user a) (s_user b) &&
  dict_eqb str_eqb Z.eqb (eq_extra a) (eq_extra b).

(* the only attribute Python itself adds to an instance: set when it is created
   through a subscripted generic alias *)
Definition only_orig_class (s : strat) : bool :=
  forallb (fun kv => str_eqb (fst kv) k_orig_class) (s_extra s).

(* the same comparison restricted to what to_jsonable writes: kind and settings *)
Definition settings_eq (a b : strat) : bool :=
  str_eqb (s_mod a) (s_mod b) && str_eqb (s_name a) (s_name b) &&
  flags_eqb (s_flags a) (s_flags b) &&
  dict_eqb str_eqb json_eqb (s_user a) (s_user b).

(* the keys AbstractStrategy / VerificationStrategy / AtomStrategy /
   EmptyStrategy / StrategyFactory .to_jsonable write after class_module and
   strategy_class *)
Definition base_entries (c : scat) (f : option flags) : list (str * json) :=
  match c, f with
  | CStrategy, Some (a, b, c', d) =>
      [(k_ignore_parent, JBool a); (k_inferrable, JBool b);
       (k_possibly_empty, JBool c'); (k_workable, JBool d)]
  | CVerif, Some (a, _, _, _) => [(k_ignore_parent, JBool a)]
  | _, _ => []
  end.

Definition fixed_flags : option flags := Some (true, false, false, false).

(* ------------------------------------------------------------------ rules *)
Section Model.
Variable cls : Type.

Inductive rule : Type :=
| RRule (s : strat) (c : cls) (ch : list cls)       (* Rule *)
| RVerif (s : strat) (c : cls) (ch : list cls)      (* VerificationRule *)
| REquiv (r : rule)                                 (* EquivalenceRule(original_rule) *)
| RPath (rs : list rule)                            (* EquivalencePathRule(rules) *)
| RReverse (r : rule) (idx : Z).                    (* ReverseRule(original_rule, idx) *)

Variable cls_eqb : cls -> cls -> bool.
Variable cls_to_json : cls -> json.                 (* comb_class.to_jsonable() *)
Variable cls_of_json : json -> res cls.             (* CombinatorialClass.from_dict *)
Variable is_empty : cls -> bool.                    (* comb_class.is_empty() *)
Variable cat_of : str -> str -> option scat.        (* import_module + getattr + issubclass *)
Variable user_from_dict :                           (* StratClass.from_dict(d) of a user class *)
  str -> str -> list (str * json) -> res (option flags * list (str * json)).
Variable decomp : strat -> cls -> option (list cls).   (* strategy.decomposition_function(c) *)
Variable reversible : strat -> cls -> bool.            (* strategy.is_reversible(c) *)
Variable eqv_cap : strat -> cls -> option Z -> bool.   (* strategy.can_be_equivalent() and
                                                          (reverse) constructor.can_be_equivalent() *)

(* the library's own EmptyStrategy / AtomStrategy decide by the class *)
Definition empty_strategy : strat := mkStrat strategy_module n_EmptyStrategy fixed_flags [] [].

Definition cat (s : strat) : option scat := cat_of (s_mod s) (s_name s).

(* user behaviour never looks at __orig_class__ : always asked on the stripped instance *)
Definition decomp' (s : strat) (c : cls) : option (list cls) :=
  match cat s with
  | Some CEmpty => if is_empty c then Some [] else None     (* EmptyStrategy.verified *)
  | _ => decomp (strip s) c
  end.

(* ---- strategies: to_jsonable / from_dict *)
Definition json_of_strat (s : strat) : json :=
  match cat s with
  | None => JNull
  | Some c =>
      JObj ((k_class_module, JStr (s_mod s)) :: (k_strategy_class, JStr (s_name s)) ::
            base_entries c (s_flags s) ++
            match c with CAtom | CEmpty => [] | _ => s_user s end)
  end.

(* strategy_from_dict *)
Definition strat_of_json (j : json) : res strat :=
  d <- as_obj j ;;
  p1 <- jpop k_class_module d ;;
  m <- as_str (fst p1) ;;
  p2 <- jpop k_strategy_class (snd p1) ;;
  n <- as_str (fst p2) ;;
  match cat_of m n with
  | None => Err EImport
  | Some CAtom | Some CEmpty =>
      _ <- assert (match snd p2 with [] => true | _ => false end) ;;
      Ok (mkStrat m n fixed_flags [] [])
  | Some _ =>
      fu <- user_from_dict m n (snd p2) ;;
      Ok (mkStrat m n (fst fu) (snd fu) [])
  end.

Definition is_strategy_cat (s : strat) : bool :=
  match cat s with Some CStrategy => true | _ => false end.
Definition is_verif_cat (s : strat) : bool :=
  match cat s with Some CVerif | Some CAtom | Some CEmpty => true | _ => false end.

(* ---- rules: derived attributes set by the constructors *)
Definition is_rule_form (r : rule) : bool :=       (* isinstance(r, Rule) *)
  match r with RVerif _ _ _ => false | _ => true end.

(* Python slices l[:i] and l[i:] *)
Definition py_clip (len i : Z) : nat :=
  Z.to_nat (if i <? 0 then Z.max 0 (len + i) else Z.min i len).
Definition py_upto {A} (l : list A) (i : Z) : list A := firstn (py_clip (zlen l) i) l.
Definition py_from {A} (l : list A) (i : Z) : list A := skipn (py_clip (zlen l) i) l.

Definition non_empty (ch : list cls) : list cls := filter (fun c => negb (is_empty c)) ch.

Definition last_opt {A} (l : list A) : option A :=
  match rev l with x :: _ => Some x | [] => None end.

(* (strategy, comb_class, children) as passed to Rule.__init__ by each constructor;
   None where the constructor raises *)
Fixpoint rule_attrs (r : rule) : option (strat * cls * list cls) :=
  match r with
  | RRule s c ch | RVerif s c ch => Some (s, c, ch)
  | REquiv r0 =>                       (* (rule.strategy, rule.comb_class, (non_empty_children[0],)) *)
      match rule_attrs r0 with
      | Some (s, c, ch) =>
          match non_empty ch with x :: _ => Some (s, c, [x]) | [] => None end
      | None => None
      end
  | RPath rs =>                        (* (rules[0].strategy, rules[0].comb_class, rules[-1].children) *)
      let l := map rule_attrs rs in
      match hd_error l, last_opt l with
      | Some (Some (s, c, _)), Some (Some (_, _, ch)) => Some (s, c, ch)
      | _, _ => None
      end
  | RReverse r0 idx =>                 (* (strategy, children[idx], (comb_class, *children[:idx], *children[idx+1:])) *)
      match rule_attrs r0 with
      | Some (s, c, ch) =>
          match py_nth ch idx with
          | Some ci => Some (s, ci, c :: py_upto ch idx ++ py_from ch (idx + 1))
          | None => None
          end
      | None => None
      end
  end.

Definition rule_strat (r : rule) : option strat := option_map (fun x => fst (fst x)) (rule_attrs r).
Definition rule_class (r : rule) : option cls := option_map (fun x => snd (fst x)) (rule_attrs r).
Definition rule_children (r : rule) : option (list cls) := option_map snd (rule_attrs r).

(* Rule.is_equivalence / EquivalenceRule / EquivalencePathRule / VerificationRule *)
Definition is_equivalence (r : rule) : bool :=
  match r with
  | RRule s c ch => eqv_cap (strip s) c None && Nat.eqb (length (non_empty ch)) 1
  | RVerif _ _ _ => false
  | REquiv _ | RPath _ => true
  | RReverse r0 idx =>
      match rule_attrs r0, rule_attrs r with
      | Some (s, c, _), Some (_, _, ch) =>
          eqv_cap (strip s) c (Some idx) && Nat.eqb (length (non_empty ch)) 1
      | _, _ => false
      end
  end.

(* rule.is_reversible() = strategy.is_reversible(comb_class) *)
Definition is_reversible (r : rule) : bool :=
  match rule_attrs r with
  | Some (s, c, _) => reversible (strip s) c
  | None => false
  end.

(* ---- the constructors, with their asserts *)
(* Rule(strategy, comb_class) followed by rule.children *)
Definition mk_rule (s : strat) (c : cls) : res rule :=
  _ <- assert (is_strategy_cat s) ;;
  ch <- of_opt ENotApply (decomp' s c) ;;
  Ok (RRule s c ch).

(* strategy(comb_class) of a VerificationStrategy *)
Definition mk_verif (s : strat) (c : cls) : res rule :=
  _ <- assert (is_verif_cat s) ;;
  ch <- of_opt ENotApply (decomp' s c) ;;
  Ok (RVerif s c ch).

(* EquivalenceRule(rule) *)
Definition mk_equiv (r : rule) : res rule :=
  _ <- assert (is_rule_form r) ;;
  a <- of_opt ENotApply (rule_attrs r) ;;
  _ <- assert (is_equivalence r) ;;
  match non_empty (snd a) with
  | [] => Err EIndex
  | _ :: _ => Ok (REquiv r)
  end.

(* EquivalencePathRule(rules) *)
Definition mk_path (rs : list rule) : res rule :=
  _ <- assert (forallb is_rule_form rs) ;;
  _ <- assert (forallb is_equivalence rs) ;;
  _ <- assert (forallb (fun r => match rule_children r with
                                 | Some [_] => true
                                 | _ => false
                                 end) rs) ;;
  match rs with
  | [] => Err EIndex
  | _ :: _ => Ok (RPath rs)
  end.

(* ReverseRule(rule, idx) *)
Definition mk_reverse (r : rule) (idx : Z) : res rule :=
  _ <- assert (is_rule_form r) ;;
  _ <- assert (is_reversible r) ;;
  match rule_attrs (RReverse r idx) with
  | Some _ => Ok (RReverse r idx)
  | None => Err EIndex
  end.

Fixpoint list_eqb {A} (eqb : A -> A -> bool) (a b : list A) : bool :=
  match a, b with
  | [], [] => true
  | x :: a', y :: b' => eqb x y && list_eqb eqb a' b'
  | _, _ => false
  end.

(* the invariant every existing rule object satisfies: it went through its
   constructor, and the stored children are what the strategy produces *)
Fixpoint rule_ok (r : rule) : bool :=
  match r with
  | RRule s c ch =>
      is_strategy_cat s &&
      match decomp' s c with Some ch' => list_eqb cls_eqb ch ch' | None => false end
  | RVerif s c ch =>
      is_verif_cat s &&
      match decomp' s c with Some ch' => list_eqb cls_eqb ch ch' | None => false end
  | REquiv r0 => rule_ok r0 && is_ok (mk_equiv r0)
  | RPath rs => forallb rule_ok rs && is_ok (mk_path rs)
  | RReverse r0 idx => rule_ok r0 && is_ok (mk_reverse r0 idx)
  end.

(* every strategy instance in the rule was created plainly *)
Fixpoint rule_plain (r : rule) : bool :=
  match r with
  | RRule s _ _ | RVerif s _ _ => plain s
  | REquiv r0 | RReverse r0 _ => rule_plain r0
  | RPath rs => forallb rule_plain rs
  end.

Fixpoint strip_rule (r : rule) : rule :=
  match r with
  | RRule s c ch => RRule (strip s) c ch
  | RVerif s c ch => RVerif (strip s) c ch
  | REquiv r0 => REquiv (strip_rule r0)
  | RPath rs => RPath (map strip_rule rs)
  | RReverse r0 idx => RReverse (strip_rule r0) idx
  end.

(* ---- rules: to_jsonable *)
Definition rule_header (n : str) : list (str * json) :=
  [(k_class_module, JStr rule_module); (k_rule_class, JStr n)].

Fixpoint json_of_rule (r : rule) : json :=
  match r with
  | RRule s c ch =>
      JObj (rule_header n_Rule ++
            [(k_comb_class, cls_to_json c);
             (k_children, JArr (map cls_to_json ch));
             (k_strategy, json_of_strat s)])
  | RVerif s c _ =>
      JObj (rule_header n_VerificationRule ++
            [(k_comb_class, cls_to_json c); (k_strategy, json_of_strat s)])
  | REquiv r0 =>
      JObj (rule_header n_EquivalenceRule ++ [(k_original_rule, json_of_rule r0)])
  | RPath rs =>
      JObj (rule_header n_EquivalencePathRule ++ [(k_rules, JArr (map json_of_rule rs))])
  | RReverse r0 idx =>
      JObj (rule_header n_ReverseRule ++
            [(k_original_rule, json_of_rule r0); (k_idx, JNum idx)])
  end.

(* ---- rules: from_dict *)
Definition no_more (d : list (str * json)) : res unit :=      (* assert not d *)
  assert (match d with [] => true | _ => false end).

(* Rule.from_dict *)
Definition from_dict_Rule (d : list (str * json)) : res rule :=
  p1 <- jpop k_strategy d ;;
  s <- strat_of_json (fst p1) ;;
  _ <- assert (is_strategy_cat s) ;;
  p2 <- jpop k_comb_class (snd p1) ;;
  c <- cls_of_json (fst p2) ;;
  p3 <- jpop k_children (snd p2) ;;
  l <- as_arr (fst p3) ;;
  _ <- mapM cls_of_json l ;;                   (* saved children: only compared for a warning *)
  r <- mk_rule s c ;;
  _ <- no_more (snd p3) ;;
  Ok r.

(* VerificationRule.from_dict *)
Definition from_dict_Verif (d : list (str * json)) : res rule :=
  p1 <- jpop k_strategy d ;;
  s <- strat_of_json (fst p1) ;;
  _ <- assert (is_verif_cat s) ;;
  p2 <- jpop k_comb_class (snd p1) ;;
  c <- cls_of_json (fst p2) ;;
  _ <- no_more (snd p2) ;;
  mk_verif s c.

(* the part of AbstractRule.from_dict after the recursive calls: `sub` is the
   result of AbstractRule.from_dict(d["original_rule"]) and `subs` of the
   calls on the elements of d["rules"], when these keys exist *)
Definition rule_dispatch (kv : list (str * json))
           (sub : option (res rule)) (subs : option (res (list rule))) : res rule :=
  p1 <- jpop k_class_module kv ;;
  m <- as_str (fst p1) ;;
  _ <- (if str_eqb m rule_module then Ok tt else Err EImport) ;;
  p2 <- jpop k_rule_class (snd p1) ;;
  n <- as_str (fst p2) ;;
  let d := snd p2 in
  if str_eqb n n_Rule then from_dict_Rule d
  else if str_eqb n n_VerificationRule then from_dict_Verif d
  else if str_eqb n n_EquivalenceRule then
    r0 <- (match sub with Some x => x | None => Err EKey end) ;;
    _ <- assert (is_rule_form r0) ;;
    _ <- no_more (ddel str_eqb k_original_rule d) ;;
    mk_equiv r0
  else if str_eqb n n_EquivalencePathRule then
    rs <- (match subs with Some x => x | None => Err EKey end) ;;
    _ <- assert (forallb is_rule_form rs) ;;
    _ <- no_more (ddel str_eqb k_rules d) ;;
    mk_path rs
  else if str_eqb n n_ReverseRule then
    r0 <- (match sub with Some x => x | None => Err EKey end) ;;
    _ <- assert (is_rule_form r0) ;;
    p3 <- jpop k_idx (ddel str_eqb k_original_rule d) ;;
    idx <- as_num (fst p3) ;;
    _ <- no_more (snd p3) ;;
    mk_reverse r0 idx
  else Err EAttr.

(* AbstractRule.from_dict *)
Fixpoint rule_of_json (j : json) : res rule :=
  match j with
  | JObj kv =>
      rule_dispatch kv
        (assoc_map rule_of_json k_original_rule kv)
        (assoc_map (fun v => match v with
                             | JArr l => sequence (map rule_of_json l)
                             | _ => Err EType
                             end) k_rules kv)
  | _ => Err EType
  end.

(* AbstractRule.__eq__ : isinstance(other, self.__class__) and the comb_class
   and the strategy agree; EquivalencePathRule additionally compares the
   strategies along the path *)
Definition form_le (a b : rule) : bool :=
  match a, b with
  | RRule _ _ _, RVerif _ _ _ => false
  | RRule _ _ _, _ => true
  | RVerif _ _ _, RVerif _ _ _ => true
  | REquiv _, REquiv _ => true
  | RPath _, RPath _ => true
  | RReverse _ _, RReverse _ _ => true
  | _, _ => false
  end.

Definition opt_strat_eq (a b : option strat) : bool :=
  match a, b with Some x, Some y => strat_eq x y | _, _ => false end.

(* the method AbstractRule.__eq__ / EquivalencePathRule.__eq__ *)
Definition rule_eq_method (a b : rule) : bool :=
  form_le a b &&
  match rule_class a, rule_class b with Some x, Some y => cls_eqb x y | _, _ => false end &&
  opt_strat_eq (rule_strat a) (rule_strat b) &&
  match a, b with
  | RPath ra, RPath rb => list_eqb opt_strat_eq (map rule_strat ra) (map rule_strat rb)
  | _, _ => true
  end.

(* type(b) is a strict subclass of type(a) *)
Definition strict_subform (a b : rule) : bool :=
  match a, b with
  | RRule _ _ _, REquiv _ | RRule _ _ _, RPath _ | RRule _ _ _, RReverse _ _ => true
  | _, _ => false
  end.

(* the operator a == b : when the right operand's type is a strict subclass of
   the left operand's type, Python asks the right operand first (b.__eq__(a));
   __eq__ never answers NotImplemented between rules, so that answer stands *)
Definition rule_eq (a b : rule) : bool :=
  if strict_subform a b then rule_eq_method b a else rule_eq_method a b.

(* ------------------------------------------------------------------ packs *)
Record pack : Type := mkPack {
  p_name : str;
  p_initial : list strat;
  p_inferral : list strat;
  p_ver : list strat;
  p_expansion : list (list strat);
  p_symmetries : list strat;
  p_iterative : bool
}.

Definition json_of_strats (l : list strat) : json := JArr (map json_of_strat l).

(* StrategyPack.to_jsonable *)
Definition json_of_pack (p : pack) : json :=
  JObj [(k_name, JStr (p_name p));
        (k_initial_strats, json_of_strats (p_initial p));
        (k_inferral_strats, json_of_strats (p_inferral p));
        (k_ver_strats, json_of_strats (p_ver p));
        (k_expansion_strats, JArr (map json_of_strats (p_expansion p)));
        (k_symmetries, json_of_strats (p_symmetries p));
        (k_iterative, JBool (p_iterative p))].

Definition strats_of_json (j : json) : res (list strat) :=
  l <- as_arr j ;; mapM strat_of_json l.

(* StrategyPack.from_dict *)
Definition pack_of_json (j : json) : res pack :=
  d <- as_obj j ;;
  nj <- jget k_name d ;;
  name <- as_str nj ;;
  ij <- jget k_initial_strats d ;;
  initial <- strats_of_json ij ;;
  fj <- jget k_inferral_strats d ;;
  inferral <- strats_of_json fj ;;
  vj <- jget k_ver_strats d ;;
  ver <- strats_of_json vj ;;
  ej <- jget k_expansion_strats d ;;
  el <- as_arr ej ;;
  expansion <- mapM strats_of_json el ;;
  symmetries <- (match dget str_eqb k_symmetries d with
                 | Some sj => strats_of_json sj
                 | None => Ok []
                 end) ;;
  iterative <- (match dget str_eqb k_iterative d with
                | Some b => as_bool b
                | None => Ok false
                end) ;;
  Ok (mkPack name initial inferral ver expansion symmetries iterative).

(* StrategyPack.__eq__ : self.__dict__ == other.__dict__ *)
Definition pack_eq (a b : pack) : bool :=
  str_eqb (p_name a) (p_name b) &&
  list_eqb strat_eq (p_initial a) (p_initial b) &&
  list_eqb strat_eq (p_inferral a) (p_inferral b) &&
  list_eqb strat_eq (p_ver a) (p_ver b) &&
  list_eqb (list_eqb strat_eq) (p_expansion a) (p_expansion b) &&
  list_eqb strat_eq (p_symmetries a) (p_symmetries b) &&
  Bool.eqb (p_iterative a) (p_iterative b).

Definition strip_pack (p : pack) : pack :=
  mkPack (p_name p) (map strip (p_initial p)) (map strip (p_inferral p)) (map strip (p_ver p))
         (map (map strip) (p_expansion p)) (map strip (p_symmetries p)) (p_iterative p).

(* ------------------------------------------------------------------ specifications *)
Record spec : Type := mkSpec {
  sp_root : cls;
  sp_rules : list (cls * rule)          (* rules_dict, in insertion order *)
}.

(* CombinatorialSpecification.get_rule: a class without a rule must be empty
   and lazily receives  EmptyStrategy()(comb_class) *)
Definition get_rule (d : list (cls * rule)) (c : cls) : res (list (cls * rule)) :=
  if dmem cls_eqb c d then Ok d
  else
    _ <- assert (is_empty c) ;;
    r <- mk_verif empty_strategy c ;;
    Ok (d ++ [(c, r)]).

Fixpoint get_rules (d : list (cls * rule)) (cs : list cls) : res (list (cls * rule)) :=
  match cs with
  | [] => Ok d
  | c :: t => d' <- get_rule d c ;; get_rules d' t
  end.

(* _set_subrules: for rule in list(self): rule.set_subrecs(self.get_rule) *)
Fixpoint set_subrules (rs : list rule) (d : list (cls * rule)) : res (list (cls * rule)) :=
  match rs with
  | [] => Ok d
  | r :: t =>
      ch <- of_opt ENotApply (rule_children r) ;;
      d' <- get_rules d ch ;;
      set_subrules t d'
  end.

(* rules_dict = {rule.comb_class: rule for rule in rules} *)
Fixpoint rules_dict (rs : list rule) (d : list (cls * rule)) : res (list (cls * rule)) :=
  match rs with
  | [] => Ok d
  | r :: t =>
      c <- of_opt ENotApply (rule_class r) ;;
      rules_dict t (dset cls_eqb c r d)
  end.

(* CombinatorialSpecification(root, rules, group_equiv=False); _enforce_labels
   needs a rule for the root (KeyError) — labels themselves are not modelled *)
Definition spec_init (root : cls) (rules : list rule) : res spec :=
  d0 <- rules_dict rules [] ;;
  d1 <- set_subrules (map snd d0) d0 ;;
  _ <- (if dmem cls_eqb root d1 then Ok tt else Err EKey) ;;
  Ok (mkSpec root d1).

(* CombinatorialSpecification.to_jsonable *)
Definition json_of_spec (s : spec) : json :=
  JObj [(k_root, cls_to_json (sp_root s));
        (k_rules, JArr (map (fun kr => json_of_rule (snd kr)) (sp_rules s)))].

(* CombinatorialSpecification.from_dict *)
Definition spec_of_json (j : json) : res spec :=
  d <- as_obj j ;;
  p1 <- jpop k_root d ;;
  root <- cls_of_json (fst p1) ;;
  p2 <- jpop k_rules (snd p1) ;;
  l <- as_arr (fst p2) ;;
  rules <- mapM rule_of_json l ;;
  spec_init root rules.

(* CombinatorialSpecification.__eq__ : root and rules_dict (dict equality) *)
Definition spec_eq (a b : spec) : bool :=
  cls_eqb (sp_root a) (sp_root b) &&
  dict_eqb cls_eqb rule_eq (sp_rules a) (sp_rules b).

(* closed under children, keyed by the rules' own classes, root present *)
Definition spec_closed (s : spec) : bool :=
  forallb (fun kr =>
             match rule_class (snd kr), rule_children (snd kr) with
             | Some c, Some ch =>
                 cls_eqb c (fst kr) && forallb (fun x => dmem cls_eqb x (sp_rules s)) ch
             | _, _ => false
             end) (sp_rules s) &&
  dmem cls_eqb (sp_root s) (sp_rules s).

Definition spec_rules_ok (s : spec) : bool :=
  forallb (fun kr => rule_ok (snd kr) && rule_plain (snd kr)) (sp_rules s).

(* ------------------------------------------------------------------ bijections *)
Definition pair_eqb (a b : cls * cls) : bool := cls_eqb (fst a) (fst b) && cls_eqb (snd a) (snd b).

Record bij : Type := mkBij {
  b_spec : spec;
  b_other : spec;
  b_order : list ((cls * cls) * list Z);     (* _get_order *)
  b_data : list ((cls * cls) * json)         (* _index_data *)
}.

Definition cmem (c : cls) (l : list cls) : bool := existsb (cls_eqb c) l.

(* Bijection._classes_to_array : the classes array; the id of a class is its index *)
Fixpoint classes_array (keys : list (cls * cls)) (acc : list cls) : list cls :=
  match keys with
  | [] => acc
  | (c1, c2) :: t =>
      let acc1 := if cmem c1 acc then acc else acc ++ [c1] in
      let acc2 := if cmem c2 acc1 then acc1 else acc1 ++ [c2] in
      classes_array t acc2
  end.

Fixpoint index_of (c : cls) (l : list cls) (i : Z) : option Z :=
  match l with
  | [] => None
  | x :: t => if cls_eqb c x then Some i else index_of c t (i + 1)
  end.
Definition id_of (classes : list cls) (c : cls) : res str :=
  i <- of_opt EKey (index_of c classes 0) ;; Ok (dec_of_Z i).

(* Bijection._populate_json_map (values are stored as they are) *)
Definition nested (A : Type) := list (str * list (str * A)).
Definition nested_set {A} (i1 i2 : str) (v : A) (m : nested A) : nested A :=
  match dget str_eqb i1 m with
  | None => m ++ [(i1, [(i2, v)])]
  | Some sub => dset str_eqb i1 (dset str_eqb i2 v sub) m
  end.

Fixpoint populate {A} (classes : list cls)
         (tm : list ((cls * cls) * A)) (m : nested A) : res (nested A) :=
  match tm with
  | [] => Ok m
  | ((c1, c2), v) :: t =>
      i1 <- id_of classes c1 ;;
      i2 <- id_of classes c2 ;;
      populate classes t (nested_set i1 i2 v m)
  end.

Definition enc_sub {A} (enc : A -> json) (sub : list (str * A)) : list (str * json) :=
  map (fun kv => (fst kv, enc (snd kv))) sub.
Definition enc_nested {A} (enc : A -> json) (m : nested A) : list (str * json) :=
  map (fun kv => (fst kv, JObj (enc_sub enc (snd kv)))) m.

Definition json_of_Zs (l : list Z) : json := JArr (map JNum l).

(* Bijection.to_jsonable *)
Definition json_of_bij (b : bij) : json :=
  let classes := classes_array (map fst (b_order b)) [] in
  match populate classes (b_order b) [], populate classes (b_data b) [] with
  | Ok o, Ok dt =>
      JObj [(k_spec, json_of_spec (b_spec b));
            (k_other, json_of_spec (b_other b));
            (k_order, JObj (enc_nested json_of_Zs o));
            (k_index_data, JObj (enc_nested (fun x => x) dt));
            (k_classes, JArr (map cls_to_json classes))]
  | _, _ => JNull                      (* KeyError: index data for a pair of unknown classes *)
  end.

(* order[int(idx)] *)
Definition class_at (order : list cls) (idx : str) : res cls :=
  i <- of_opt EValue (Z_of_dec idx) ;;
  of_opt EIndex (py_nth order i).

(* {(order[int(idx1)], order[int(idx2)]): dec(v) for idx1, sub in m.items() for idx2, v in sub.items()} *)
Fixpoint unflatten_sub {A} (dec : json -> res A) (order : list cls) (c1 : cls)
         (sub : list (str * json)) (acc : list ((cls * cls) * A)) : res (list ((cls * cls) * A)) :=
  match sub with
  | [] => Ok acc
  | (i2, v) :: t =>
      c2 <- class_at order i2 ;;
      x <- dec v ;;
      unflatten_sub dec order c1 t (dset pair_eqb (c1, c2) x acc)
  end.

Fixpoint unflatten {A} (dec : json -> res A) (order : list cls)
         (m : list (str * json)) (acc : list ((cls * cls) * A)) : res (list ((cls * cls) * A)) :=
  match m with
  | [] => Ok acc
  | (i1, subj) :: t =>
      sub <- as_obj subj ;;
      c1 <- class_at order i1 ;;
      acc' <- unflatten_sub dec order c1 sub acc ;;
      unflatten dec order t acc'
  end.

Definition Zs_of_json (j : json) : res (list Z) := l <- as_arr j ;; mapM as_num l.

(* Bijection.from_dict *)
Definition bij_of_json (j : json) : res bij :=
  d <- as_obj j ;;
  sj <- jget k_spec d ;;
  spec1 <- spec_of_json sj ;;
  oj <- jget k_other d ;;
  spec2 <- spec_of_json oj ;;
  cj <- jget k_classes d ;;
  cl <- as_arr cj ;;
  order <- mapM cls_of_json cl ;;
  gj <- jget k_order d ;;
  gm <- as_obj gj ;;
  get_order <- unflatten Zs_of_json order gm [] ;;
  dj <- jget k_index_data d ;;
  dm <- as_obj dj ;;
  index_data <- unflatten (fun x => Ok x) order dm [] ;;
  Ok (mkBij spec1 spec2 get_order index_data).

End Model.
