(* C18 — round trips of strategy packs and specifications; equality is reflexive *)
From Coq Require Import ZArith List Bool Lia.
From CSS Require Import Base.PyList Json.Model Json.Proofs.
Import ListNotations.
Open Scope Z_scope.

Section SpecProofs.
Variable cls : Type.
Variable cls_eqb : cls -> cls -> bool.
Hypothesis cls_eqb_spec : forall a b, cls_eqb a b = true <-> a = b.
Variable cls_to_json : cls -> json.
Variable cls_of_json : json -> res cls.
Hypothesis cls_roundtrip : forall c, cls_of_json (cls_to_json c) = Ok c.
Variable is_empty : cls -> bool.
Variable cat_of : str -> str -> option scat.
Variable user_from_dict : str -> str -> list (str * json) -> res (option flags * list (str * json)).
Variable decomp : strat -> cls -> option (list cls).
Variable reversible : strat -> cls -> bool.
Variable eqv_cap : strat -> cls -> option Z -> bool.

Notation rule := (rule cls).
Notation spec := (spec cls).
Notation json_of_strat := (json_of_strat cat_of).
Notation strat_of_json := (strat_of_json cat_of user_from_dict).
Notation strat_ok := (strat_ok cat_of user_from_dict).
Notation rule_class := (rule_class cls is_empty).
Notation rule_strat := (rule_strat cls is_empty).
Notation rule_children := (rule_children cls is_empty).
Notation rule_ok := (rule_ok cls cls_eqb is_empty cat_of decomp reversible eqv_cap).
Notation rule_strats_ok := (rule_strats_all cls strat_ok).
Notation json_of_rule := (json_of_rule cls cls_to_json cat_of).
Notation rule_of_json := (rule_of_json cls cls_of_json is_empty cat_of user_from_dict decomp reversible eqv_cap).
Notation strip_rule := (strip_rule cls).
Notation json_of_pack := (json_of_pack cat_of).
Notation pack_of_json := (pack_of_json cat_of user_from_dict).
Notation json_of_spec := (json_of_spec cls cls_to_json cat_of).
Notation spec_of_json := (spec_of_json cls cls_eqb cls_of_json is_empty cat_of user_from_dict decomp reversible eqv_cap).
Notation spec_init := (spec_init cls cls_eqb is_empty cat_of decomp).
Notation rules_dict := (rules_dict cls cls_eqb is_empty).
Notation set_subrules := (set_subrules cls cls_eqb is_empty cat_of decomp).
Notation get_rules := (get_rules cls cls_eqb is_empty cat_of decomp).
Notation get_rule := (get_rule cls cls_eqb is_empty cat_of decomp).
Notation spec_closed := (spec_closed cls cls_eqb is_empty).
Notation spec_eq := (spec_eq cls cls_eqb is_empty).
Notation rule_eq := (rule_eq cls cls_eqb is_empty).

(* ------------------------------------------------------------------ packs *)
Definition pack_ok (p : pack) : Prop :=
  Forall strat_ok (p_initial p) /\ Forall strat_ok (p_inferral p) /\ Forall strat_ok (p_ver p) /\
  Forall (Forall strat_ok) (p_expansion p) /\ Forall strat_ok (p_symmetries p).

Lemma strats_roundtrip l :
  Forall strat_ok l -> strats_of_json cat_of user_from_dict (json_of_strats cat_of l) = Ok (map strip l).
Proof.
  intros H. unfold strats_of_json, json_of_strats. cbn [as_arr bind].
  apply mapM_map. eapply Forall_impl; [|exact H]. intros s Hs. apply strat_roundtrip. exact Hs.
Qed.

Theorem pack_roundtrip p : pack_ok p -> pack_of_json (json_of_pack p) = Ok (strip_pack p).
Proof.
  intros (H1 & H2 & H3 & H4 & H5).
  unfold Model.pack_of_json, Model.json_of_pack. cbn [as_obj bind].
  set (d := [(k_name, _); _; _; _; _; _; _]).
  replace (jget k_name d) with (Ok (JStr (p_name p))) by reflexivity. cbn [bind as_str].
  replace (jget k_initial_strats d) with (Ok (json_of_strats cat_of (p_initial p))) by reflexivity. cbn [bind].
  rewrite (strats_roundtrip _ H1). cbn [bind].
  replace (jget k_inferral_strats d) with (Ok (json_of_strats cat_of (p_inferral p))) by reflexivity. cbn [bind].
  rewrite (strats_roundtrip _ H2). cbn [bind].
  replace (jget k_ver_strats d) with (Ok (json_of_strats cat_of (p_ver p))) by reflexivity. cbn [bind].
  rewrite (strats_roundtrip _ H3). cbn [bind].
  replace (jget k_expansion_strats d)
    with (Ok (JArr (map (json_of_strats cat_of) (p_expansion p)))) by reflexivity. cbn [bind as_arr].
  rewrite (mapM_map (strats_of_json cat_of user_from_dict) (json_of_strats cat_of) (map strip)).
  2:{ eapply Forall_impl; [|exact H4]. intros l Hl. apply strats_roundtrip. exact Hl. }
  cbn [bind].
  replace (dget str_eqb k_symmetries d) with (Some (json_of_strats cat_of (p_symmetries p))) by reflexivity.
  rewrite (strats_roundtrip _ H5). cbn [bind].
  replace (dget str_eqb k_iterative d) with (Some (JBool (p_iterative p))) by reflexivity.
  cbn [as_bool bind]. reflexivity.
Qed.

(* ------------------------------------------------------------------ specifications *)
Definition strip_spec (s : spec) : spec :=
  mkSpec cls (sp_root cls s) (map (fun kr => (fst kr, strip_rule (snd kr))) (sp_rules cls s)).

Definition spec_wf (s : spec) : Prop :=
  keys_nodup cls_eqb (map fst (sp_rules cls s)) = true /\
  spec_closed s = true /\
  Forall (fun kr => rule_ok (snd kr) = true /\ rule_strats_ok (snd kr)) (sp_rules cls s).

Lemma cls_eqb_refl c : cls_eqb c c = true.
Proof. apply cls_eqb_spec. reflexivity. Qed.

Lemma existsb_cls_false c l :
  existsb (cls_eqb c) l = false -> forall x, In x l -> cls_eqb c x = false.
Proof.
  intros H x Hx. destruct (cls_eqb c x) eqn:E; auto.
  assert (existsb (cls_eqb c) l = true) by (apply existsb_exists; eauto). congruence.
Qed.

Lemma keys_nodup_app_inv (l1 l2 : list cls) :
  keys_nodup cls_eqb (l1 ++ l2) = true ->
  keys_nodup cls_eqb l2 = true /\ forall x, In x l1 -> existsb (cls_eqb x) l2 = false.
Proof.
  induction l1 as [|a l1 IH]; simpl; intros H.
  - split; auto. intros x [].
  - apply andb_true_iff in H. destruct H as [Ha Hn]. apply IH in Hn. destruct Hn as [Hn Hd].
    split; auto. intros x [->|Hx]; auto.
    apply negb_true_iff in Ha. rewrite existsb_app in Ha. apply orb_false_iff in Ha. tauto.
Qed.

Lemma keys_nodup_snoc (l : list cls) x :
  keys_nodup cls_eqb l = true -> existsb (cls_eqb x) l = false ->
  keys_nodup cls_eqb (l ++ [x]) = true.
Proof.
  induction l as [|a l IH]; simpl; intros Hn Hx; auto.
  apply andb_true_iff in Hn. destruct Hn as [Ha Hn]. apply orb_false_iff in Hx. destruct Hx as [Hxa Hx].
  apply andb_true_iff. split; [|apply IH; auto].
  apply negb_true_iff. rewrite existsb_app. apply orb_false_iff. split.
  - apply negb_true_iff in Ha. exact Ha.
  - simpl. rewrite orb_false_r. destruct (cls_eqb a x) eqn:E; auto.
    apply cls_eqb_spec in E. subst. rewrite cls_eqb_refl in Hxa. discriminate.
Qed.

(* rules_dict on rules whose classes are pairwise different appends them in order *)
Lemma rules_dict_build (l acc : list (cls * rule)) :
  (forall kr, In kr l -> rule_class (snd kr) = Some (fst kr)) ->
  keys_nodup cls_eqb (map fst acc ++ map fst l) = true ->
  rules_dict (map snd l) acc = Ok (acc ++ l).
Proof.
  revert acc. induction l as [|[k r] l IH]; intros acc Hc Hn; simpl.
  - rewrite app_nil_r. reflexivity.
  - pose proof (Hc (k, r) (or_introl eq_refl)) as Hk. simpl in Hk. rewrite Hk. cbn [of_opt bind fst snd].
    assert (dget cls_eqb k acc = None) as Hnone.
    { apply (dget_none_iff cls_eqb). simpl in Hn.
      destruct (existsb (cls_eqb k) (map fst acc)) eqn:E; auto. exfalso.
      apply existsb_exists in E. destruct E as (x & Hx & Hkx). apply cls_eqb_spec in Hkx. subst x.
      apply keys_nodup_app_inv in Hn. destruct Hn as [_ Hd]. specialize (Hd k Hx).
      simpl in Hd. rewrite cls_eqb_refl in Hd. discriminate. }
    rewrite (dset_absent cls_eqb k r acc Hnone).
    rewrite IH.
    + rewrite <- app_assoc. reflexivity.
    + intros kr Hkr. apply Hc. right. exact Hkr.
    + rewrite map_app. simpl. rewrite <- app_assoc. exact Hn.
Qed.

Lemma get_rules_present d ch :
  forallb (fun x => dmem cls_eqb x d) ch = true -> get_rules d ch = Ok d.
Proof.
  induction ch as [|c ch IH]; simpl; auto. intros H. apply andb_true_iff in H. destruct H as [H1 H2].
  unfold Model.get_rule. rewrite H1. cbn [bind]. apply IH. exact H2.
Qed.

Lemma set_subrules_closed rl d :
  Forall (fun r => match rule_children r with
                   | Some ch => forallb (fun x => dmem cls_eqb x d) ch = true
                   | None => False end) rl ->
  set_subrules rl d = Ok d.
Proof.
  induction 1 as [|r rl Hr Hrl IH]; simpl; auto.
  destruct (rule_children r) as [ch|]; [|tauto]. cbn [of_opt bind].
  rewrite (get_rules_present d ch Hr). cbn [bind]. exact IH.
Qed.

Lemma dget_map_values {A B} (f : A -> B) k (d : list (cls * A)) :
  dget cls_eqb k (map (fun kr => (fst kr, f (snd kr))) d) = option_map f (dget cls_eqb k d).
Proof.
  induction d as [|[k' v] d IH]; simpl; auto. destruct (cls_eqb k k'); auto.
Qed.

Lemma dmem_map_values {A B} (f : A -> B) k (d : list (cls * A)) :
  dmem cls_eqb k (map (fun kr => (fst kr, f (snd kr))) d) = dmem cls_eqb k d.
Proof. unfold dmem. rewrite dget_map_values. destruct (dget cls_eqb k d); reflexivity. Qed.

Theorem spec_roundtrip s : spec_wf s -> spec_of_json (json_of_spec s) = Ok (strip_spec s).
Proof.
  intros (Hn & Hc & Hr).
  unfold Model.spec_of_json, Model.json_of_spec. cbn [as_obj bind].
  rewrite jpop_hit. cbn [bind fst snd]. rewrite cls_roundtrip. cbn [bind].
  rewrite jpop_hit. cbn [bind fst snd as_arr].
  rewrite (mapM_map rule_of_json (fun kr => json_of_rule (snd kr)) (fun kr => strip_rule (snd kr))).
  2:{ eapply Forall_impl; [|exact Hr]. intros kr [H1 H2].
      apply (rule_roundtrip cls cls_eqb cls_eqb_spec cls_to_json cls_of_json cls_roundtrip); auto. }
  cbn [bind]. unfold Model.spec_init.
  set (rs' := map (fun kr => (fst kr, strip_rule (snd kr))) (sp_rules cls s)).
  assert (map (fun kr => strip_rule (snd kr)) (sp_rules cls s) = map snd rs') as ->.
  { unfold rs'. rewrite map_map. reflexivity. }
  unfold Model.spec_closed in Hc. apply andb_true_iff in Hc. destruct Hc as [Hc Hroot].
  rewrite forallb_forall in Hc.
  rewrite (rules_dict_build rs' []).
  2:{ intros kr Hkr. unfold rs' in Hkr. apply in_map_iff in Hkr. destruct Hkr as (kr0 & <- & Hin).
      simpl. rewrite rule_class_strip. specialize (Hc kr0 Hin).
      destruct (rule_class (snd kr0)) as [c|]; [|discriminate].
      destruct (rule_children (snd kr0)); [|discriminate].
      apply andb_true_iff in Hc. destruct Hc as [Hc _]. apply cls_eqb_spec in Hc. congruence. }
  2:{ simpl. unfold rs'. rewrite map_map. simpl. exact Hn. }
  cbn [app bind].
  rewrite set_subrules_closed.
  - cbn [bind]. unfold rs' at 1. rewrite dmem_map_values. rewrite Hroot. reflexivity.
  - apply Forall_forall. intros r Hin. apply in_map_iff in Hin. destruct Hin as (kr & <- & Hin).
    unfold rs' in Hin. apply in_map_iff in Hin. destruct Hin as (kr0 & <- & Hin). simpl.
    rewrite rule_children_strip. specialize (Hc kr0 Hin).
    destruct (rule_class (snd kr0)); [|discriminate].
    destruct (rule_children (snd kr0)) as [ch|]; [|discriminate].
    apply andb_true_iff in Hc. destruct Hc as [_ Hc].
    rewrite forallb_forall in *. intros x Hx. unfold rs'. rewrite dmem_map_values. apply Hc. exact Hx.
Qed.

(* a specification all of whose strategy instances were created plainly is
   reproduced identically *)
Definition spec_plain (s : spec) : bool :=
  forallb (fun kr => rule_plain cls (snd kr)) (sp_rules cls s).

Lemma strip_rule_plain r : rule_plain cls r = true -> strip_rule r = r.
Proof.
  induction r using (rule_ind' cls); simpl; intros Hp.
  - rewrite plain_strip; auto.
  - rewrite plain_strip; auto.
  - rewrite IHr; auto.
  - f_equal. rewrite forallb_forall in Hp. induction H; simpl; auto.
    rewrite H by (apply Hp; left; reflexivity). rewrite IHForall; auto.
    intros y Hy. apply Hp. right. exact Hy.
  - rewrite IHr; auto.
Qed.

Lemma strip_spec_plain s : spec_plain s = true -> strip_spec s = s.
Proof.
  destruct s as [root rules]. unfold spec_plain, strip_spec. simpl. intros H. f_equal.
  rewrite forallb_forall in H. induction rules as [|[k r] rules IH]; simpl; auto.
  rewrite strip_rule_plain by (apply (H (k, r)); left; reflexivity).
  rewrite IH; auto. intros x Hx. apply H. right. exact Hx.
Qed.

(* ---- the reloaded object is == the original (both directions) *)
(* the instance __dict__ is a dictionary, and nothing but Python's own
   __orig_class__ was added to the instance besides its settings *)
Definition strat_dict_ok (s : strat) : Prop :=
  keys_nodup str_eqb (map fst (s_user s)) = true /\ only_orig_class s = true.

Lemma settings_eq_refl s :
  keys_nodup str_eqb (map fst (s_user s)) = true -> settings_eq s s = true.
Proof.
  intros H1. unfold settings_eq. rewrite !str_eqb_refl.
  assert (flags_eqb (s_flags s) (s_flags s) = true) as ->.
  { destruct (s_flags s) as [[[[a b] c] d]|]; simpl; auto.
    destruct a, b, c, d; reflexivity. }
  rewrite (dict_eqb_refl str_eqb str_eqb_eq json_eqb) by (auto using json_eqb_refl).
  reflexivity.
Qed.

Lemma strat_eq_strip s :
  strat_dict_ok s -> strat_eq (strip s) s = true /\ strat_eq s (strip s) = true /\ strat_eq s s = true.
Proof.
  intros [H1 H2]. rewrite !strat_eq_settings by auto using only_orig_strip.
  rewrite settings_eq_strip_l, settings_eq_strip_r. rewrite settings_eq_refl by exact H1. auto.
Qed.

Notation rule_attrs := (rule_attrs cls is_empty).
Notation rule_strats_dict_ok := (rule_strats_all cls strat_dict_ok).

Lemma rule_ok_attrs r : rule_ok r = true -> exists a, rule_attrs r = Some a.
Proof.
  destruct r; simpl; intros H; eauto.
  - apply andb_true_iff in H. destruct H as [_ H]. unfold Model.mk_equiv in H.
    destruct (is_rule_form cls r); simpl in H; [|discriminate].
    destruct (rule_attrs r) as [[[s c] ch]|]; simpl in H; [|discriminate].
    destruct (Model.is_equivalence cls is_empty eqv_cap r); simpl in H; [|discriminate].
    destruct (non_empty cls is_empty ch); [discriminate|eauto].
  - apply andb_true_iff in H. destruct H as [_ H]. unfold Model.mk_path in H.
    destruct (forallb (is_rule_form cls) rs); simpl in H; [|discriminate].
    destruct (forallb (Model.is_equivalence cls is_empty eqv_cap) rs); simpl in H; [|discriminate].
    destruct (forallb _ rs) eqn:E; simpl in H; [|discriminate].
    destruct rs as [|r0 rs]; [discriminate|].
    assert (Forall (fun r => exists a, rule_attrs r = Some a) (r0 :: rs)) as Hall.
    { apply Forall_forall. intros x Hx. rewrite forallb_forall in E. specialize (E x Hx).
      unfold Model.rule_children in E. destruct (rule_attrs x); eauto. discriminate. }
    inversion Hall as [|? ? [[[s0 c0] ch0] H0] Hrest]; subst.
    simpl. rewrite H0. unfold last_opt. simpl.
    assert (exists a, hd_error (rev (map rule_attrs rs) ++ [Some (s0, c0, ch0)]) = Some (Some a)) as [[[s1 c1] ch1] Hl].
    { destruct (rev (map rule_attrs rs)) as [|y l] eqn:Er; simpl; eauto.
      assert (In y (map rule_attrs rs)) as Hy by (apply in_rev; rewrite Er; left; reflexivity).
      apply in_map_iff in Hy. destruct Hy as (x & <- & Hx).
      rewrite Forall_forall in Hrest. destruct (Hrest x Hx) as [a Ha]. rewrite Ha. eauto. }
    destruct (rev (map rule_attrs rs) ++ [Some (s0, c0, ch0)]) as [|y l]; [discriminate|].
    simpl in Hl. inversion Hl; subst. eauto.
  - apply andb_true_iff in H. destruct H as [_ H]. unfold Model.mk_reverse in H.
    destruct (is_rule_form cls r); simpl in H; [|discriminate].
    destruct (Model.is_reversible cls is_empty reversible r); simpl in H; [|discriminate].
    simpl in H. destruct (rule_attrs r) as [[[s c] ch]|]; [|discriminate].
    destruct (py_nth ch idx); [eauto|discriminate].
Qed.

(* the strategy attribute of a rule is the strategy of one of its base rules *)
Lemma rule_strat_in (P : strat -> Prop) r s :
  rule_strats_all cls P r -> rule_strat r = Some s -> P s.
Proof.
  unfold Model.rule_strat. revert s.
  induction r using (rule_ind' cls); intros s0 Hall Hs; simpl in *.
  - inversion Hs; subst; auto.
  - inversion Hs; subst; auto.
  - destruct (rule_attrs r) as [[[s1 c1] ch1]|]; [|discriminate].
    destruct (non_empty cls is_empty ch1); [discriminate|]. simpl in Hs. inversion Hs; subst.
    apply IHr; auto.
  - destruct rs as [|r0 rs]; [discriminate|]. simpl in Hs.
    destruct (rule_attrs r0) as [[[s1 c1] ch1]|] eqn:E0; [|discriminate].
    destruct (last_opt (Some (s1, c1, ch1) :: map rule_attrs rs)) as [[[[s2 c2] ch2]|]|]; try discriminate.
    simpl in Hs. inversion Hs; subst. inversion H; subst. apply H2; [tauto|rewrite E0; reflexivity].
  - destruct (rule_attrs r) as [[[s1 c1] ch1]|]; [|discriminate].
    destruct (py_nth ch1 idx); [|discriminate]. simpl in Hs. inversion Hs; subst. apply IHr; auto.
Qed.

Lemma form_le_strip_l r : form_le cls (strip_rule r) r = true.
Proof. destruct r; reflexivity. Qed.
Lemma form_le_strip_r r : form_le cls r (strip_rule r) = true.
Proof. destruct r; reflexivity. Qed.

Lemma path_strats_eq rs :
  Forall (fun r => rule_ok r = true /\ rule_strats_dict_ok r) rs ->
  list_eqb (opt_strat_eq) (map rule_strat (map strip_rule rs)) (map rule_strat rs) = true /\
  list_eqb (opt_strat_eq) (map rule_strat rs) (map rule_strat (map strip_rule rs)) = true.
Proof.
  induction 1 as [|r rs [Hok Hd] Hrs [IH1 IH2]]; simpl; auto.
  rewrite rule_strat_strip. destruct (rule_ok_attrs r Hok) as [[[s c] ch] Ha].
  assert (rule_strat r = Some s) as Hs by (unfold Model.rule_strat; rewrite Ha; reflexivity).
  rewrite Hs. simpl. destruct (strat_eq_strip s (rule_strat_in _ r s Hd Hs)) as (E1 & E2 & _).
  rewrite E1, E2, IH1, IH2. auto.
Qed.

Lemma rule_eq_strip r :
  rule_ok r = true -> rule_strats_dict_ok r ->
  rule_eq (strip_rule r) r = true /\ rule_eq r (strip_rule r) = true.
Proof.
  intros Hok Hd. unfold Model.rule_eq.
  assert (strict_subform cls (strip_rule r) r = false) as -> by (destruct r; reflexivity).
  assert (strict_subform cls r (strip_rule r) = false) as -> by (destruct r; reflexivity).
  unfold Model.rule_eq_method.
  rewrite form_le_strip_l, form_le_strip_r, rule_class_strip, rule_strat_strip.
  destruct (rule_ok_attrs r Hok) as [[[s c] ch] Ha].
  assert (rule_strat r = Some s) as Hs by (unfold Model.rule_strat; rewrite Ha; reflexivity).
  assert (rule_class r = Some c) as Hc by (unfold Model.rule_class; rewrite Ha; reflexivity).
  rewrite Hs, Hc. simpl. rewrite cls_eqb_refl.
  destruct (strat_eq_strip s (rule_strat_in _ r s Hd Hs)) as (E1 & E2 & _). rewrite E1, E2. simpl.
  destruct r; simpl; auto.
  apply path_strats_eq.
  simpl in Hok. apply andb_true_iff in Hok. destruct Hok as [Hok _]. rewrite forallb_forall in Hok.
  apply rule_strats_all_path in Hd. rewrite Forall_forall in *. intros x Hx. split; auto.
Qed.

Lemma dget_nodup_in {V} (l : list (cls * V)) k v :
  keys_nodup cls_eqb (map fst l) = true -> In (k, v) l -> dget cls_eqb k l = Some v.
Proof.
  induction l as [|[k' v'] l IH]; simpl; intros Hn Hin; [tauto|].
  apply andb_true_iff in Hn. destruct Hn as [Hn1 Hn2].
  destruct Hin as [E|Hin].
  - inversion E; subst. rewrite cls_eqb_refl. reflexivity.
  - destruct (cls_eqb k k') eqn:E; [|auto].
    apply cls_eqb_spec in E. subst k'. exfalso. apply negb_true_iff in Hn1.
    assert (existsb (cls_eqb k) (map fst l) = true); [|congruence].
    apply existsb_exists. exists k. split; [|apply cls_eqb_refl].
    apply in_map_iff. exists (k, v). auto.
Qed.

Definition spec_dicts_ok (s : spec) : Prop :=
  Forall (fun kr => rule_strats_dict_ok (snd kr)) (sp_rules cls s).

(* CombinatorialSpecification.__eq__ holds between the original and the reloaded
   specification, in both directions *)
Theorem spec_eq_strip s :
  spec_wf s -> spec_dicts_ok s ->
  spec_eq (strip_spec s) s = true /\ spec_eq s (strip_spec s) = true.
Proof.
  intros (Hn & _ & Hr) Hd. unfold Model.spec_eq, strip_spec. simpl. rewrite cls_eqb_refl. simpl.
  unfold dict_eqb. rewrite !map_length, Nat.eqb_refl. simpl.
  unfold spec_dicts_ok in Hd. rewrite Forall_forall in Hr, Hd.
  split; apply forallb_forall.
  - intros kr Hin. apply in_map_iff in Hin. destruct Hin as ([k r] & <- & Hin). simpl.
    rewrite (dget_nodup_in _ k r Hn Hin).
    destruct (Hr _ Hin) as [Hok _]. apply (rule_eq_strip r Hok (Hd _ Hin)).
  - intros [k r] Hin. simpl. rewrite dget_map_values.
    rewrite (dget_nodup_in _ k r Hn Hin). simpl.
    destruct (Hr _ Hin) as [Hok _]. apply (rule_eq_strip r Hok (Hd _ Hin)).
Qed.

(* StrategyPack.__eq__ between the original and the reloaded pack *)
Lemma strats_eq_strip l :
  Forall strat_dict_ok l ->
  list_eqb strat_eq (map strip l) l = true /\ list_eqb strat_eq l (map strip l) = true.
Proof.
  induction 1 as [|x l Hx Hl [IH1 IH2]]; simpl; auto.
  destruct (strat_eq_strip x Hx) as (E1 & E2 & _). rewrite E1, E2, IH1, IH2. auto.
Qed.

Definition pack_dicts_ok (p : pack) : Prop :=
  Forall strat_dict_ok (p_initial p) /\ Forall strat_dict_ok (p_inferral p) /\ Forall strat_dict_ok (p_ver p) /\
  Forall (Forall strat_dict_ok) (p_expansion p) /\ Forall strat_dict_ok (p_symmetries p).

Theorem pack_eq_strip p :
  pack_dicts_ok p -> pack_eq (strip_pack p) p = true /\ pack_eq p (strip_pack p) = true.
Proof.
  intros (H1 & H2 & H3 & H4 & H5). unfold pack_eq, strip_pack. simpl.
  rewrite str_eqb_refl.
  destruct (strats_eq_strip _ H1) as [-> ->]. destruct (strats_eq_strip _ H2) as [-> ->].
  destruct (strats_eq_strip _ H3) as [-> ->]. destruct (strats_eq_strip _ H5) as [-> ->].
  assert (list_eqb (list_eqb strat_eq) (map (map strip) (p_expansion p)) (p_expansion p) = true /\
          list_eqb (list_eqb strat_eq) (p_expansion p) (map (map strip) (p_expansion p)) = true) as [-> ->].
  { induction H4 as [|x l Hx Hl [IH1 IH2]]; simpl; auto.
    destruct (strats_eq_strip _ Hx) as [-> ->]. rewrite IH1, IH2. auto. }
  destruct (p_iterative p); auto.
Qed.

End SpecProofs.
