(* C18 — "the reloaded specification has the same counts / objects / equations", as a theorem.

   Two specification objects with the same structure - same root, the same classes in the same
   order, for every class a rule of the same form over the same classes with the same strategies
   UP TO the instance attribute __orig_class__ (same_structure) - evaluate identically under the
   recursive evaluation of Spec/Eval.v (`eval`: Rule.get_terms / _ensure_level through the
   children's rules), for ANY type of term tables (counts per parameter tuple, lists of objects,
   generating-function coefficients ..), any labelling of the classes, any fuel, class and size.

   What it assumes about strategies - and nothing else: the semantics `sem` that turns a rule
   object into its term operator (constructor, children, shifts: the strategy's constructor(),
   decomposition_function, shifts, the derived constructors of equivalence / reverse / path rules)
   is a DETERMINISTIC FUNCTION OF THE RULE FORM, THE CLASSES, idx, AND THE STRATEGIES' KIND
   (module, class name) AND SETTINGS (flags + further settings): it does not read __orig_class__
   (sem_settings), and the operator's answer depends on its providers only through the values they
   return (sem_ext; every operator satisfying Spec/Eval.v's `local` does).  A strategy whose
   behaviour depends on hidden state that to_jsonable does not write is outside the statement -
   its to_jsonable/from_dict would not honour the contract `strat_ok` either. *)
From Coq Require Import ZArith List Bool Lia.
From CSS Require Import Base.PyList Forest.Spec Spec.Eval Json.Model Json.Proofs Json.SpecProofs.
Import ListNotations.
Open Scope Z_scope.

Section SameEnum.
Variable cls : Type.
Variable terms : Type.
Variable dflt : terms.
Variable label : cls -> nat.                       (* the labels of the classes (any function) *)
Variable sem : rule cls -> option (srule terms).   (* the term operator of a rule object *)

Definition op_extensional (sr : srule terms) : Prop :=
  forall p p' o o' n, (forall i m, p i m = p' i m) -> (forall m, o m = o' m) ->
                      r_op terms sr p o n = r_op terms sr p' o' n.

(* the specification Spec/Eval.v evaluates: the rule stored for the class with that label *)
Definition espec (s : spec cls) (l : nat) : option (srule terms) :=
  match find (fun kr : cls * rule cls => Nat.eqb (label (fst kr)) l) (sp_rules cls s) with
  | Some kr => sem (snd kr)
  | None => None
  end.

Definition same_structure (a b : spec cls) : Prop :=
  sp_root cls a = sp_root cls b /\
  map fst (sp_rules cls a) = map fst (sp_rules cls b) /\
  map (fun kr : cls * rule cls => strip_rule cls (snd kr)) (sp_rules cls a)
  = map (fun kr : cls * rule cls => strip_rule cls (snd kr)) (sp_rules cls b).

Hypothesis sem_settings : forall r, sem (strip_rule cls r) = sem r.
Hypothesis sem_ext : forall r sr, sem r = Some sr -> op_extensional sr.

Lemma find_same (la lb : list (cls * rule cls)) l :
  map fst la = map fst lb ->
  map (fun kr : cls * rule cls => strip_rule cls (snd kr)) la
  = map (fun kr : cls * rule cls => strip_rule cls (snd kr)) lb ->
  match find (fun kr : cls * rule cls => Nat.eqb (label (fst kr)) l) la with
  | Some kr => sem (snd kr) | None => None end
  = match find (fun kr : cls * rule cls => Nat.eqb (label (fst kr)) l) lb with
    | Some kr => sem (snd kr) | None => None end.
Proof.
  revert lb. induction la as [|[ka ra] la IH]; intros [|[kb rb] lb] Hk Hr; simpl in *; try discriminate;
    [reflexivity|].
  inversion Hk; subst kb. inversion Hr as [[Hr1 Hr2]].
  destruct (Nat.eqb (label ka) l).
  - simpl. rewrite <- (sem_settings ra), <- (sem_settings rb), Hr1. reflexivity.
  - apply IH; assumption.
Qed.

Lemma espec_same a b : same_structure a b -> forall l, espec a l = espec b l.
Proof. intros (_ & Hk & Hr) l. unfold espec. apply find_same; assumption. Qed.

Lemma espec_ext s l sr : espec s l = Some sr -> op_extensional sr.
Proof.
  unfold espec. destruct (find _ (sp_rules cls s)) as [kr|]; [|discriminate].
  intros H. eapply sem_ext. eassumption.
Qed.

Lemma eval_pointwise (sp1 sp2 : nat -> option (srule terms)) :
  (forall l, sp1 l = sp2 l) -> (forall l sr, sp1 l = Some sr -> op_extensional sr) ->
  forall fuel c n, eval terms dflt sp1 fuel c n = eval terms dflt sp2 fuel c n.
Proof.
  intros He Hx. induction fuel as [|f IH]; intros c n; simpl; [reflexivity|].
  rewrite <- He. destruct (sp1 c) as [sr|] eqn:E; [|reflexivity].
  apply (Hx c sr E); intros; apply IH.
Qed.

(* specifications of the same structure enumerate the same *)
Theorem same_enumeration a b : same_structure a b ->
  forall fuel c n, eval terms dflt (espec a) fuel c n = eval terms dflt (espec b) fuel c n.
Proof.
  intros H. apply eval_pointwise; [apply espec_same; assumption|apply espec_ext].
Qed.

Lemma strip_rule_idem (r : rule cls) : strip_rule cls (strip_rule cls r) = strip_rule cls r.
Proof.
  induction r using (rule_ind' cls); simpl.
  - rewrite strip_idem. reflexivity.
  - rewrite strip_idem. reflexivity.
  - rewrite IHr. reflexivity.
  - f_equal. rewrite map_map. induction H as [|x l Hx HF IH]; simpl; [reflexivity|].
    rewrite Hx, IH. reflexivity.
  - rewrite IHr. reflexivity.
Qed.

(* what a JSON round trip returns (Json/SpecProofs.v: spec_roundtrip) has the structure of
   the original *)
Lemma strip_same_structure s : same_structure (strip_spec cls s) s.
Proof.
  unfold same_structure, strip_spec. simpl. split; [reflexivity|]. rewrite !map_map. simpl.
  split; [reflexivity|]. apply map_ext. intros kr. apply strip_rule_idem.
Qed.

(* every per-rule observable that does not read __orig_class__ (get_equation of the rule,
   its formal step, its constructor ..) is the same, class by class, in the same order *)
Lemma strip_same_observables {X} (obs : rule cls -> X) s :
  (forall r, obs (strip_rule cls r) = obs r) ->
  map (fun kr : cls * rule cls => (fst kr, obs (snd kr))) (sp_rules cls (strip_spec cls s))
  = map (fun kr : cls * rule cls => (fst kr, obs (snd kr))) (sp_rules cls s).
Proof.
  intros H. unfold strip_spec. simpl. rewrite map_map. simpl. apply map_ext. intros kr. rewrite H. reflexivity.
Qed.

End SameEnum.
