(* The lexicographic monomial order of the model (params_ltb, k_0 most significant), canonical
   tables (tnorm), leading terms, and: Z[k_0, k_1, ...] has no zero divisors, hence an exact
   quotient is unique (C09, Quotient with parameters).                                       *)
From Coq Require Import ZArith List Bool Lia Permutation.
From CSS Require Import Gen.Prelude Count.Terms Count.Constructors Count.TermsPoly.
Import ListNotations.
Open Scope Z_scope.

(* ---------------------------------------------------------------- the order *)
Lemma ltb_irrefl : forall a, params_ltb a a = false.
Proof. induction a as [|x a IH]; simpl; [reflexivity|]. rewrite IH, Z.ltb_irrefl, andb_false_r. reflexivity. Qed.

Lemma ltb_trans : forall a b c, params_ltb a b = true -> params_ltb b c = true -> params_ltb a c = true.
Proof.
  induction a as [|x a IH]; intros [|y b] [|z c] H1 H2; simpl in *; try discriminate; try reflexivity.
  apply orb_true_iff in H1. apply orb_true_iff in H2. apply orb_true_iff.
  destruct H1 as [H1|H1], H2 as [H2|H2].
  - left. lia.
  - apply andb_true_iff in H2. left. lia.
  - apply andb_true_iff in H1. left. lia.
  - apply andb_true_iff in H1. apply andb_true_iff in H2. destruct H1 as [E1 L1], H2 as [E2 L2].
    right. apply andb_true_iff. split; [lia|]. eapply IH; eauto.
Qed.

Lemma ltb_total : forall a b, params_ltb a b = true \/ a = b \/ params_ltb b a = true.
Proof.
  induction a as [|x a IH]; intros [|y b]; simpl; auto.
  destruct (Z.lt_trichotomy x y) as [H|[H|H]].
  - left. apply orb_true_iff. left. lia.
  - subst y. destruct (IH b) as [H|[H|H]].
    + left. rewrite H, Z.eqb_refl. apply orb_true_r.
    + right; left. congruence.
    + right; right. rewrite H, Z.eqb_refl. apply orb_true_r.
  - right; right. apply orb_true_iff. left. lia.
Qed.

Lemma ltb_asym a b : params_ltb a b = true -> params_ltb b a = true -> False.
Proof. intros H1 H2. pose proof (ltb_trans _ _ _ H1 H2) as H. rewrite ltb_irrefl in H. discriminate. Qed.

Lemma ltb_neq a b : params_ltb a b = true -> a <> b.
Proof. intros H ->. rewrite ltb_irrefl in H. discriminate. Qed.

(* the order is compatible with adding exponent tuples of the same length *)
Lemma ltb_add_r : forall a b c, length a = length b -> length c = length a ->
  params_ltb a b = true -> params_ltb (zip_add a c) (zip_add b c) = true.
Proof.
  induction a as [|x a IH]; intros [|y b] [|z c] H1 H2 H; simpl in *; try lia; try discriminate.
  apply orb_true_iff in H. apply orb_true_iff. destruct H as [H|H].
  - left. lia.
  - apply andb_true_iff in H. destruct H as [E L]. right. apply andb_true_iff. split; [lia|].
    apply IH; [lia|lia|exact L].
Qed.

Lemma ltb_add_l a b c : length a = length b -> length c = length a ->
  params_ltb a b = true -> params_ltb (zip_add c a) (zip_add c b) = true.
Proof. intros. rewrite (zip_add_comm c a), (zip_add_comm c b). apply ltb_add_r; assumption. Qed.

(* ---------------------------------------------------------------- canonical tables *)
Definition klen (L : nat) (t : terms) : Prop := forall k v, In (k, v) t -> length k = L.
Definition knonneg (t : terms) : Prop := forall k v, In (k, v) t -> Forall (fun x => 0 <= x) k.
Definition nozero (t : terms) : Prop := forall k v, In (k, v) t -> v <> 0.

Fixpoint ssorted (t : terms) : Prop :=
  match t with
  | [] => True
  | e :: r => (forall k v, In (k, v) r -> params_ltb (fst e) k = true) /\ ssorted r
  end.

Definition canon (t : terms) : Prop := ssorted t /\ nozero t.

Lemma ssorted_tl e t : ssorted (e :: t) -> ssorted t.
Proof. intros [_ H]. exact H. Qed.

Lemma tget_ssorted_lt t : forall k0 p, ssorted t ->
  (forall k v, In (k, v) t -> params_ltb k0 k = true) -> (p = k0 \/ params_ltb p k0 = true) -> tget t p = 0.
Proof.
  induction t as [|[k v] t IH]; intros k0 p Hs Hlt Hp; simpl; [reflexivity|].
  destruct Hs as [Hhd Hs]. simpl in Hhd.
  destruct (params_eqb k p) eqn:E.
  - apply params_eqb_eq in E. subst p. exfalso.
    pose proof (Hlt k v (or_introl eq_refl)) as H. destruct Hp as [->|Hp].
    + rewrite ltb_irrefl in H. discriminate.
    + eapply ltb_asym; eauto.
  - rewrite (IH k0 p Hs); [reflexivity| |exact Hp]. intros k' v' Hin. apply (Hlt k' v'). right. exact Hin.
Qed.

(* in a sorted table every key occurs once: terms[k] is the stored value *)
Lemma tget_ssorted_in t : forall k v, ssorted t -> In (k, v) t -> tget t k = v.
Proof.
  induction t as [|[k0 v0] t IH]; intros k v Hs Hin; [contradiction|]. destruct Hs as [Hhd Hs]. simpl in *.
  destruct Hin as [E|Hin].
  - inversion E; subst. rewrite params_eqb_refl.
    rewrite (tget_ssorted_lt t k k Hs); [lia| |left; reflexivity]. exact Hhd.
  - pose proof (Hhd k v Hin) as Hlt. destruct (params_eqb k0 k) eqn:E.
    + apply params_eqb_eq in E. subst. rewrite ltb_irrefl in Hlt. discriminate.
    + rewrite (IH k v Hs Hin). lia.
Qed.

Lemma tget_nonzero_in t p : tget t p <> 0 -> exists v, In (p, v) t.
Proof.
  induction t as [|[k v] t IH]; simpl; intros H; [lia|].
  destruct (params_eqb k p) eqn:E.
  - apply params_eqb_eq in E. subst. exists v. left. reflexivity.
  - destruct IH as (v' & Hin); [lia|]. exists v'. right. exact Hin.
Qed.

Lemma canon_in_iff t k v : canon t -> v <> 0 -> (In (k, v) t <-> tget t k = v).
Proof.
  intros [Hs Hnz] Hv. split.
  - apply tget_ssorted_in. exact Hs.
  - intros H. destruct (tget_nonzero_in t k) as (v' & Hin); [lia|].
    rewrite (tget_ssorted_in t k v' Hs Hin) in H. subst. exact Hin.
Qed.

Lemma canon_zero_nil t : canon t -> (forall p, tget t p = 0) -> t = [].
Proof.
  intros [Hs Hnz] H. destruct t as [|[k v] t]; [reflexivity|]. exfalso.
  apply (Hnz k v (or_introl eq_refl)). rewrite <- (tget_ssorted_in _ k v Hs (or_introl eq_refl)). apply H.
Qed.

Lemma ssorted_nodup_keys t : ssorted t -> NoDup (map fst t).
Proof.
  induction t as [|[k v] t IH]; intros Hs; simpl; [constructor|]. destruct Hs as [Hhd Hs]. simpl in Hhd.
  constructor; [|apply IH; exact Hs].
  intros Hin. apply in_map_iff in Hin. destruct Hin as ([k' v'] & E & Hin). simpl in E. subst k'.
  pose proof (Hhd k v' Hin) as H. rewrite ltb_irrefl in H. discriminate.
Qed.

(* ---------------------------------------------------------------- tinsert, tnorm *)
Lemma tget_tinsert k v t p :
  tget (tinsert k v t) p = (if params_eqb k p then v else 0) + tget t p.
Proof.
  induction t as [|[k' v'] t IH]; simpl; [lia|].
  destruct (params_eqb k k') eqn:E.
  - apply params_eqb_eq in E. subst k'. simpl. destruct (params_eqb k p); lia.
  - destruct (params_ltb k k'); simpl; [lia|]. rewrite IH. lia.
Qed.

Lemma tinsert_keys k v t k1 v1 : In (k1, v1) (tinsert k v t) -> k1 = k \/ exists v2, In (k1, v2) t.
Proof.
  induction t as [|[k' v'] t IH]; simpl.
  - intros [E|[]]. inversion E. auto.
  - destruct (params_eqb k k') eqn:E.
    + apply params_eqb_eq in E. subst k'. intros [H|H].
      * inversion H; subst. left. reflexivity.
      * right. exists v1. right. exact H.
    + destruct (params_ltb k k').
      * intros [H|H]; [inversion H; auto|]. right. exists v1. exact H.
      * intros [H|H].
        -- inversion H; subst. right. exists v1. left. reflexivity.
        -- destruct (IH H) as [->|(v2 & Hin)]; [auto|]. right. exists v2. right. exact Hin.
Qed.

Lemma ssorted_tinsert k v t : ssorted t -> ssorted (tinsert k v t).
Proof.
  induction t as [|[k' v'] t IH]; intros Hs; simpl.
  - split; [intros ? ? []|exact I].
  - destruct Hs as [Hhd Hs]. simpl in Hhd. destruct (params_eqb k k') eqn:E.
    + split; [exact Hhd|exact Hs].
    + destruct (params_ltb k k') eqn:L.
      * split; [|split; assumption]. simpl. intros k1 v1 [H|H].
        -- inversion H; subst. exact L.
        -- eapply ltb_trans; [exact L|]. apply (Hhd k1 v1 H).
      * split; [|apply IH; exact Hs]. simpl. intros k1 v1 Hin.
        destruct (tinsert_keys _ _ _ _ _ Hin) as [->|(v2 & Hin2)].
        -- destruct (ltb_total k k') as [H|[H|H]]; [congruence| |exact H].
           subst. rewrite params_eqb_refl in E. discriminate.
        -- apply (Hhd k1 v2 Hin2).
Qed.

Definition tfold (t : terms) : terms := fold_left (fun acc (e : entry) => tinsert (fst e) (snd e) acc) t [].

Lemma tfold_gen t : forall acc,
  ssorted acc ->
  let r := fold_left (fun acc (e : entry) => tinsert (fst e) (snd e) acc) t acc in
  ssorted r /\ (forall p, tget r p = tget acc p + tget t p) /\
  (forall k v, In (k, v) r -> exists v', In (k, v') (acc ++ t)).
Proof.
  induction t as [|[k v] t IH]; intros acc Hs; simpl.
  - split; [exact Hs|]. split; [intros; lia|]. intros k v Hin. exists v. rewrite app_nil_r. exact Hin.
  - destruct (IH (tinsert k v acc) (ssorted_tinsert k v acc Hs)) as (H1 & H2 & H3).
    split; [exact H1|]. split.
    + intros p. rewrite H2, tget_tinsert. lia.
    + intros k1 v1 Hin. destruct (H3 k1 v1 Hin) as (v' & Hin'). apply in_app_or in Hin'.
      destruct Hin' as [Hin'|Hin'].
      * destruct (tinsert_keys _ _ _ _ _ Hin') as [->|(v2 & Hin2)].
        -- exists v. apply in_or_app. right. left. reflexivity.
        -- exists v2. apply in_or_app. left. exact Hin2.
      * exists v'. apply in_or_app. right. right. exact Hin'.
Qed.

Lemma ssorted_filter (P : entry -> bool) t : ssorted t -> ssorted (filter P t).
Proof.
  induction t as [|e t IH]; intros Hs; simpl; [exact I|]. destruct Hs as [Hhd Hs].
  destruct (P e); [|apply IH; exact Hs]. split; [|apply IH; exact Hs].
  intros k v Hin. apply filter_In in Hin. apply (Hhd k v). tauto.
Qed.

Lemma tnorm_canon t : canon (tnorm t).
Proof.
  unfold tnorm. destruct (tfold_gen t [] I) as (H1 & _ & _). split.
  - apply ssorted_filter. exact H1.
  - intros k v Hin. apply filter_In in Hin. destruct Hin as [_ H]. simpl in H.
    destruct (Z.eqb_spec v 0); [discriminate|assumption].
Qed.

Lemma tnorm_teq t : teq (tnorm t) t.
Proof.
  intros p. unfold tnorm. rewrite tget_filter_nonzero.
  destruct (tfold_gen t [] I) as (_ & H2 & _). rewrite H2. simpl. lia.
Qed.

Lemma tnorm_keys t k v : In (k, v) (tnorm t) -> exists v', In (k, v') t.
Proof.
  unfold tnorm. intros Hin. apply filter_In in Hin. destruct Hin as [Hin _].
  destruct (tfold_gen t [] I) as (_ & _ & H3). apply (H3 k v Hin).
Qed.

Lemma tnorm_klen L t : klen L t -> klen L (tnorm t).
Proof. intros H k v Hin. destruct (tnorm_keys _ _ _ Hin) as (v' & Hin'). eapply H; eauto. Qed.

Lemma tnorm_knonneg t : knonneg t -> knonneg (tnorm t).
Proof. intros H k v Hin. destruct (tnorm_keys _ _ _ Hin) as (v' & Hin'). eapply H; eauto. Qed.

Lemma tnorm_value t k v : In (k, v) (tnorm t) -> tget t k = v /\ v <> 0.
Proof.
  intros Hin. destruct (tnorm_canon t) as [Hs Hnz]. split; [|eapply Hnz; eauto].
  rewrite <- (tnorm_teq t k). apply tget_ssorted_in; assumption.
Qed.

Lemma tnorm_nonneg t : (forall p, 0 <= tget t p) -> nonneg (tnorm t).
Proof. intros H k v Hin. destruct (tnorm_value _ _ _ Hin) as [<- _]. apply H. Qed.

(* ---------------------------------------------------------------- leading terms *)
Lemma lead_app_last t e : lead (t ++ [e]) = Some e.
Proof. unfold lead. rewrite map_app. simpl. apply last_last. Qed.

Lemma lead_nil : lead [] = None.
Proof. reflexivity. Qed.

Lemma list_last_case {A} (l : list A) : l = [] \/ exists l0 x, l = l0 ++ [x].
Proof. destruct l as [|y l]; [left; reflexivity|right]. destruct (exists_last (l := y :: l)) as (l0 & x & E); [discriminate|]. eauto. Qed.

Lemma ssorted_app_last (t : terms) k v : ssorted (t ++ [(k, v)]) ->
  ssorted t /\ forall k' v', In (k', v') t -> params_ltb k' k = true.
Proof.
  induction t as [|[k0 v0] t IH]; simpl; intros Hs.
  - split; [exact I|]. intros ? ? [].
  - destruct Hs as [Hhd Hs]. destruct (IH Hs) as [H1 H2]. split.
    + split; [|exact H1]. intros k' v' Hin. apply (Hhd k' v'). apply in_or_app. left. exact Hin.
    + intros k' v' [E|Hin].
      * inversion E; subst. apply (Hhd k v). apply in_or_app. right. left. reflexivity.
      * apply (H2 k' v' Hin).
Qed.

Lemma canon_app_last (t : terms) k v : canon (t ++ [(k, v)]) ->
  canon t /\ v <> 0 /\ (forall k' v', In (k', v') t -> params_ltb k' k = true).
Proof.
  intros [Hs Hnz]. destruct (ssorted_app_last _ _ _ Hs) as [H1 H2]. split; [split|split].
  - exact H1.
  - intros k' v' Hin. apply (Hnz k' v'). apply in_or_app. left. exact Hin.
  - apply (Hnz k v). apply in_or_app. right. left. reflexivity.
  - exact H2.
Qed.

(* the leading term of a product of two canonical polynomials: the product of the leading terms,
   and every other monomial of the product is smaller *)
Lemma lead_pmul L (b0 : terms) kb vb (c0 : terms) kc vc :
  canon (b0 ++ [(kb, vb)]) -> canon (c0 ++ [(kc, vc)]) ->
  klen L (b0 ++ [(kb, vb)]) -> klen L (c0 ++ [(kc, vc)]) ->
  tget (pmul (b0 ++ [(kb, vb)]) (c0 ++ [(kc, vc)])) (zip_add kb kc) = vb * vc /\
  forall p, tget (pmul (b0 ++ [(kb, vb)]) (c0 ++ [(kc, vc)])) p <> 0 ->
            p = zip_add kb kc \/ params_ltb p (zip_add kb kc) = true.
Proof.
  intros Hb Hc Lb Lc.
  destruct (canon_app_last _ _ _ Hb) as (_ & _ & Hbl). destruct (canon_app_last _ _ _ Hc) as (_ & _ & Hcl).
  assert (Lkb : length kb = L) by (apply (Lb kb vb); apply in_or_app; right; left; reflexivity).
  assert (Lkc : length kc = L) by (apply (Lc kc vc); apply in_or_app; right; left; reflexivity).
  assert (Lb0 : forall k v, In (k, v) b0 -> length k = L)
    by (intros k v Hin; apply (Lb k v); apply in_or_app; left; exact Hin).
  assert (Lc0 : forall k v, In (k, v) c0 -> length k = L)
    by (intros k v Hin; apply (Lc k v); apply in_or_app; left; exact Hin).
  (* any pair other than the two leading entries gives a strictly smaller exponent tuple *)
  assert (Hle : forall k1 v1 k2 v2, In (k1, v1) (b0 ++ [(kb, vb)]) -> In (k2, v2) (c0 ++ [(kc, vc)]) ->
            (k1 = kb /\ k2 = kc) \/ params_ltb (zip_add k1 k2) (zip_add kb kc) = true).
  { intros k1 v1 k2 v2 H1 H2. apply in_app_or in H1. apply in_app_or in H2.
    destruct H1 as [H1|[E1|[]]], H2 as [H2|[E2|[]]].
    - right. eapply ltb_trans.
      + apply ltb_add_r; [rewrite (Lb0 _ _ H1); symmetry; exact Lkb|rewrite (Lc0 _ _ H2), (Lb0 _ _ H1); reflexivity|].
        apply (Hbl k1 v1 H1).
      + apply ltb_add_l; [rewrite (Lc0 _ _ H2); symmetry; exact Lkc|rewrite (Lc0 _ _ H2); exact Lkb|].
        apply (Hcl k2 v2 H2).
    - inversion E2; subst k2 v2. right.
      apply ltb_add_r; [rewrite (Lb0 _ _ H1); symmetry; exact Lkb|rewrite (Lb0 _ _ H1); exact Lkc|].
      apply (Hbl k1 v1 H1).
    - inversion E1; subst k1 v1. right.
      apply ltb_add_l; [rewrite (Lc0 _ _ H2); symmetry; exact Lkc|rewrite (Lc0 _ _ H2); exact Lkb|].
      apply (Hcl k2 v2 H2).
    - inversion E1; inversion E2; subst. left. split; reflexivity. }
  split.
  - rewrite tget_pmul_pairs.
    set (F := fun ea eb : entry =>
                if params_eqb (zip_add (fst ea) (fst eb)) (zip_add kb kc) then snd ea * snd eb else 0).
    change (zsum (fun ea : entry => zsum (F ea) (c0 ++ [(kc, vc)])) (b0 ++ [(kb, vb)]) = vb * vc).
    rewrite zsum_app.
    assert (Z1 : zsum (fun ea : entry => zsum (F ea) (c0 ++ [(kc, vc)])) b0 = 0).
    { apply zsum_zero. intros [k1 v1] H1. apply zsum_zero. intros [k2 v2] H2. unfold F. simpl.
      destruct (params_eqb (zip_add k1 k2) (zip_add kb kc)) eqn:E; [|reflexivity]. exfalso.
      apply params_eqb_eq in E.
      destruct (Hle k1 v1 k2 v2 (in_or_app _ _ _ (or_introl H1)) H2) as [[-> _]|H].
      - pose proof (Hbl kb v1 H1) as H. rewrite ltb_irrefl in H. discriminate.
      - rewrite E, ltb_irrefl in H. discriminate. }
    assert (Z2 : zsum (F (kb, vb)) c0 = 0).
    { apply zsum_zero. intros [k2 v2] H2. unfold F. simpl.
      destruct (params_eqb (zip_add kb k2) (zip_add kb kc)) eqn:E; [|reflexivity]. exfalso.
      apply params_eqb_eq in E.
      assert (Hlast : In (kb, vb) (b0 ++ [(kb, vb)])) by (apply in_or_app; right; left; reflexivity).
      destruct (Hle kb vb k2 v2 Hlast (in_or_app _ _ _ (or_introl H2))) as [[_ ->]|H].
      - pose proof (Hcl kc v2 H2) as H. rewrite ltb_irrefl in H. discriminate.
      - rewrite E, ltb_irrefl in H. discriminate. }
    rewrite Z1. simpl. rewrite zsum_app, Z2. unfold F. simpl. rewrite params_eqb_refl. lia.
  - intros p Hp. rewrite tget_pmul_pairs in Hp.
    apply zsum_nonzero_term in Hp. destruct Hp as ([k1 v1] & H1 & Hp).
    apply zsum_nonzero_term in Hp. destruct Hp as ([k2 v2] & H2 & Hp). simpl in Hp.
    destruct (params_eqb (zip_add k1 k2) p) eqn:E; [|lia]. apply params_eqb_eq in E. subst p.
    destruct (Hle k1 v1 k2 v2 H1 H2) as [[-> ->]|H]; [left; reflexivity|right; exact H].
Qed.

(* ---------------------------------------------------------------- no zero divisors *)
Definition pzero (t : terms) : Prop := forall p, tget t p = 0.

Lemma canon_nonzero_last t : canon t -> ~ pzero t -> exists t0 k v, t = t0 ++ [(k, v)].
Proof.
  intros Hc Hnz. destruct (list_last_case t) as [->|(t0 & [k v] & ->)].
  - exfalso. apply Hnz. intros p. reflexivity.
  - eauto.
Qed.

Lemma pzero_tnorm t : pzero t <-> tnorm t = [].
Proof.
  split.
  - intros H. apply canon_zero_nil; [apply tnorm_canon|]. intros p. rewrite tnorm_teq. apply H.
  - intros H p. rewrite <- tnorm_teq, H. reflexivity.
Qed.

(* polynomials whose monomials all have L variables *)
Theorem pmul_no_zero_divisors L a b :
  klen L a -> klen L b -> pzero (pmul a b) -> pzero a \/ pzero b.
Proof.
  intros La Lb H.
  destruct (list_last_case (tnorm a)) as [Ea|(a0 & [ka va] & Ea)]; [left; apply pzero_tnorm; exact Ea|].
  destruct (list_last_case (tnorm b)) as [Eb|(b0 & [kb vb] & Eb)]; [right; apply pzero_tnorm; exact Eb|].
  exfalso.
  pose proof (tnorm_canon a) as Ca. pose proof (tnorm_canon b) as Cb. rewrite Ea in Ca. rewrite Eb in Cb.
  pose proof (tnorm_klen L a La) as La'. pose proof (tnorm_klen L b Lb) as Lb'. rewrite Ea in La'. rewrite Eb in Lb'.
  destruct (lead_pmul L a0 ka va b0 kb vb Ca Cb La' Lb') as [H1 _].
  assert (H1' : tget (pmul (tnorm a) (tnorm b)) (zip_add ka kb) = va * vb) by (rewrite Ea, Eb; exact H1).
  rewrite (pmul_teq (tnorm a) a (tnorm b) b (tnorm_teq a) (tnorm_teq b)) in H1'. rewrite H in H1'.
  destruct (canon_app_last _ _ _ Ca) as (_ & Hva & _). destruct (canon_app_last _ _ _ Cb) as (_ & Hvb & _). nia.
Qed.

(* the exact quotient is unique: q * d = p = q' * d and d <> 0 force q = q' *)
Theorem exact_quotient_unique L p d q q' :
  klen L d -> klen L q -> klen L q' -> ~ pzero d ->
  exact_quotient p d q -> exact_quotient p d q' -> teq q q'.
Proof.
  intros Ld Lq Lq' Hd H1 H2.
  assert (Hz : pzero (pmul (q ++ tneg q') d)).
  { intros x. rewrite pmul_app_l, tget_app. rewrite (H1 x).
    assert (E : tget (pmul (tneg q') d) x = - tget (pmul q' d) x).
    { rewrite !tget_pmul. unfold tneg. rewrite zsum_map.
      match goal with |- _ = - zsum ?f q' => transitivity (-1 * zsum f q'); [|lia] end.
      rewrite <- zsum_scale. apply zsum_ext. intros [k v] _. cbn [fst snd]. ring. }
    rewrite E, (H2 x). lia. }
  destruct (pmul_no_zero_divisors L (q ++ tneg q') d) as [H|H]; [| |exact Hz| |contradiction].
  - intros k v Hin. apply in_app_or in Hin. destruct Hin as [Hin|Hin]; [eapply Lq; eauto|].
    unfold tneg in Hin. apply in_map_iff in Hin. destruct Hin as ([k' v'] & E & Hin). inversion E; subst.
    eapply Lq'; eauto.
  - exact Ld.
  - intros x. pose proof (H x) as Hx. rewrite tget_app, tget_tneg in Hx. lia.
Qed.
