(* run_c08d = Count/SampleRun.v run_c08 plus ONE more command inside a (9 (command ...)) input:
     (8 classes descs)    classes = the C08 classes of a parameter-free specification (as in (2 ..) / (3 ..)),
                          descs   = the C07 descriptors of the SAME specification under the same labels
                          -> [describes_ok, rank_ok, closed_ok]
   describes_ok = Count/ParseTreesSampleDeciders.v describesb (hypothesis `describes` of C08_uniform_objects),
   rank_ok / closed_ok = Count/ParseTreesDeciders.v rankb / closedb on the C07 descriptors (its hypotheses `closed` and
   the rank certificate).  Every other command is answered by run_single unchanged. *)
From Coq Require Import ZArith List Bool.
From CSS Require Import Base.Sx Count.SampleModel Count.SampleRun Count.ParseTreesRun Count.ParseTreesSampleDeciders.
Import ListNotations.
Open Scope Z_scope.

Definition describes_verdict (cmd : sx) : sx :=
  let cds := map dec_cls (sx_list (sx_nth cmd 1)) in
  let descs := sx_list (sx_nth cmd 2) in
  let rv := rank_verdict descs in
  L [of_bool (describesb descs cds); sx_nth rv 0; sx_nth rv 1].

Definition run_single_d (cmd : sx) : sx :=
  if sx_Z (sx_nth cmd 0) =? 8 then describes_verdict cmd else run_single cmd.

Definition run_c08d (inp : sx) : sx :=
  match sx_Z (sx_nth inp 0) with
  | 9 => L (map run_single_d (sx_list (sx_nth inp 1)))
  | _ => run_single inp
  end.

Lemma run_c08d_extends inp :
  Forall (fun cmd => sx_Z (sx_nth cmd 0) <> 8) (sx_list (sx_nth inp 1)) -> run_c08d inp = run_c08 inp.
Proof.
  intros H. unfold run_c08d, run_c08. destruct (sx_Z (sx_nth inp 0)) as [|p|p]; try reflexivity.
  do 4 (destruct p as [p|p|]; try reflexivity).
  f_equal. apply map_ext_in. intros cmd Hin. rewrite Forall_forall in H. specialize (H cmd Hin).
  unfold run_single_d. destruct (Z.eqb_spec (sx_Z (sx_nth cmd 0)) 8); [contradiction|reflexivity].
Qed.
