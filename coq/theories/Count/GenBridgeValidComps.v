(* CartesianProduct._valid_compositions of the sampling model is the function of
   the SOURCE.  Gen/ProductRelianceProfile.v and Gen/ProductValidCompositions.v are
   re-translated on every run from strategies/constructor/cartesian.py:
     CartesianProduct.reliance_profile      (dictionary comprehension over the children)
     CartesianProduct._valid_compositions   (with its nested recursive generator _helper,
                                             itertools.product, dict(zip(..)), **kwargs)
   The source works on dictionaries keyed by parameter NAMES ("n" and the parent's
   extra parameters); the hand-written model (Count/SampleModel.v: profile_range,
   minmax_of, profile_nonempty, helper, valid_comps) on vectors indexed by the
   POSITION of the name in parent_parameters.  This file proves that, for every
   list pp of distinct names (its first element being the name of "n"), reading
   the dictionaries the generated function yields back as vectors gives exactly
   what the model enumerates, in the same order.  A source edit that changes the
   enumeration (a bound, the order of itertools.product, the profile) changes the
   generated definitions and breaks these lemmas, hence the obligations of
   Props/C08.v. *)
From Coq Require Import ZArith List Bool Lia.
From CSS Require Import Base.PyList Gen.Prelude Count.SampleModel Count.SampleComps.
From CSS Require Import Gen.ProductRelianceProfile Gen.ProductValidCompositions Gen.ProductMinSizes Gen.ProductMaxSizes.
Import ListNotations.
Open Scope Z_scope.

(* ------------------------------------------------------------------ vectors <-> dictionaries *)
Definition dict_of_vec (pp : list Z) (v : vec) : list (Z * Z) := combine pp v.
Definition vec_of_dict (pp : list Z) (m : list (Z * Z)) : vec := map (py_dget 0 m) pp.
(* a {name: (lo, hi)} dictionary *)
Definition minmax_dict (pp : list Z) (mm : list (Z * Z)) : list (Z * list Z) :=
  combine pp (map (fun ab : Z * Z => [fst ab; snd ab]) mm).
(* max_child_sizes[i]: only the bounded parameters are keys *)
Definition max_dict (pp : list Z) (mx : list (option Z)) : list (Z * Z) :=
  flat_map (fun kM : Z * option Z => match snd kM with Some M => [(fst kM, M)] | None => [] end)
           (combine pp mx).

(* ------------------------------------------------------------------ lists by position *)
Lemma list_by_pos {A} (d0 : A) (l : list A) : l = map (fun i => nth i l d0) (seq 0 (length l)).
Proof.
  induction l as [|x l IH]; [reflexivity|]. cbn [length seq map nth]. f_equal.
  rewrite <- seq_shift, map_map. exact IH.
Qed.

Lemma map_by_pos {B} (F : Z -> B) (G : nat -> B) (pp : list Z) d :
  length pp = d -> (forall i, (i < d)%nat -> F (nth i pp 0) = G i) ->
  map F pp = map G (idxs d).
Proof.
  intros Hl H. rewrite (list_by_pos 0 pp) at 1. rewrite map_map, Hl. unfold idxs.
  apply map_ext_in. intros i Hi. apply in_seq in Hi. apply H. lia.
Qed.

Lemma forallb_as_map {A} (F : A -> bool) l : forallb F l = forallb (fun b : bool => b) (map F l).
Proof. induction l as [|x l IH]; cbn; [reflexivity|]. now rewrite IH. Qed.

Lemma forallb_by_pos (F : Z -> bool) (G : nat -> bool) (pp : list Z) d :
  length pp = d -> (forall i, (i < d)%nat -> F (nth i pp 0) = G i) ->
  forallb F pp = forallb G (idxs d).
Proof.
  intros Hl H. rewrite (forallb_as_map F), (forallb_as_map G). f_equal. apply map_by_pos; assumption.
Qed.

(* ------------------------------------------------------------------ dictionaries *)
Lemma dget_notin {V} (d0 : V) (m : list (Z * V)) k : ~ In k (map fst m) -> py_dget d0 m k = d0.
Proof.
  induction m as [|[k' v] m IH]; cbn [py_dget map fst]; intros H; [reflexivity|].
  destruct (k' =? k) eqn:E; [apply Z.eqb_eq in E; exfalso; apply H; left; exact E|].
  apply IH. intros Hin. apply H. right. exact Hin.
Qed.

Lemma dmem_notin {V} (m : list (Z * V)) k : ~ In k (map fst m) -> py_dmem m k = false.
Proof.
  unfold py_dmem. induction m as [|[k' v] m IH]; cbn [existsb map fst]; intros H; [reflexivity|].
  destruct (k' =? k) eqn:E; [apply Z.eqb_eq in E; exfalso; apply H; left; exact E|].
  apply IH. intros Hin. apply H. right. exact Hin.
Qed.

(* d[k] on zip(names, values), by position *)
Lemma dget_combine_nth {V} (d0 : V) : forall (pp : list Z) (v : list V) i,
  NoDup pp -> (i < length pp)%nat -> (i < length v)%nat ->
  py_dget d0 (combine pp v) (nth i pp 0) = nth i v d0.
Proof.
  induction pp as [|k pp IH]; intros v i Hnd Hi Hv; [cbn in Hi; lia|].
  destruct v as [|x v]; [cbn in Hv; lia|]. inversion Hnd as [|? ? Hnotin Hnd']; subst.
  destruct i as [|i]; cbn [combine py_dget nth].
  - now rewrite Z.eqb_refl.
  - destruct (k =? nth i pp 0) eqn:E.
    + apply Z.eqb_eq in E. exfalso. apply Hnotin. rewrite E. apply nth_In. cbn in Hi. lia.
    + apply IH; [exact Hnd'|cbn in Hi; lia|cbn in Hv; lia].
Qed.

(* {k: f(k) for k in names} with distinct names is the table itself *)
Lemma dset_fresh {V} (m : list (Z * V)) k v : ~ In k (map fst m) -> py_dset m k v = m ++ [(k, v)].
Proof.
  induction m as [|[k' v'] m IH]; cbn [py_dset map fst app]; intros H; [reflexivity|].
  destruct (k' =? k) eqn:E; [apply Z.eqb_eq in E; exfalso; apply H; left; exact E|].
  rewrite IH; [reflexivity|]. intros Hin. apply H. right. exact Hin.
Qed.

Lemma dict_of_nodup_acc {V} : forall (l acc : list (Z * V)), NoDup (map fst (acc ++ l)) ->
  fold_left (fun m (kv : Z * V) => py_dset m (fst kv) (snd kv)) l acc = acc ++ l.
Proof.
  induction l as [|[k v] l IH]; intros acc Hnd; cbn [fold_left fst snd].
  - now rewrite app_nil_r.
  - rewrite dset_fresh.
    + rewrite IH; rewrite <- app_assoc; [reflexivity|exact Hnd].
    + rewrite map_app in Hnd. cbn [map fst] in Hnd. apply NoDup_remove_2 in Hnd.
      intros Hin. apply Hnd. apply in_or_app. left. exact Hin.
Qed.

Lemma dict_of_nodup {V} (l : list (Z * V)) : NoDup (map fst l) -> py_dict_of l = l.
Proof. intros H. unfold py_dict_of. apply (dict_of_nodup_acc l []). exact H. Qed.

Lemma map_fst_tab {V} (f : Z -> V) pp : map fst (map (fun k => (k, f k)) pp) = pp.
Proof. rewrite map_map. cbn. apply map_id. Qed.

Lemma dict_of_tab {V} (f : Z -> V) pp : NoDup pp ->
  py_dict_of (map (fun k => (k, f k)) pp) = map (fun k => (k, f k)) pp.
Proof. intros H. apply dict_of_nodup. now rewrite map_fst_tab. Qed.

Lemma dget_tab {V} (d0 : V) (f : Z -> V) pp k : In k pp -> py_dget d0 (map (fun k => (k, f k)) pp) k = f k.
Proof.
  induction pp as [|k' pp IH]; intros H; [destruct H|]. cbn [map py_dget].
  destruct (k' =? k) eqn:E; [apply Z.eqb_eq in E; now subst|].
  apply IH. destruct H as [H|H]; [apply Z.eqb_neq in E; congruence|exact H].
Qed.

Lemma map_fst_combine {V} : forall (pp : list Z) (v : list V), length v = length pp -> map fst (combine pp v) = pp.
Proof.
  induction pp as [|k pp IH]; intros [|x v] H; cbn in *; try reflexivity; try lia. f_equal. apply IH. lia.
Qed.

Lemma tab_is_combine {V} (f : Z -> V) pp : map (fun k => (k, f k)) pp = combine pp (map f pp).
Proof. induction pp as [|k pp IH]; cbn; [reflexivity|]. now rewrite IH. Qed.

Lemma dget_dset {V} (d0 : V) (m : list (Z * V)) k v k' :
  py_dget d0 (py_dset m k v) k' = if k =? k' then v else py_dget d0 m k'.
Proof.
  induction m as [|[a b] m IH]; cbn [py_dset py_dget].
  - destruct (k =? k'); reflexivity.
  - destruct (a =? k) eqn:E; cbn [py_dget].
    + apply Z.eqb_eq in E. subst a. destruct (k =? k'); reflexivity.
    + destruct (a =? k') eqn:E'; [|exact IH].
      apply Z.eqb_eq in E'. subst a. rewrite Z.eqb_sym in E. now rewrite E.
Qed.

(* reading a dictionary zip(names, values) back as a vector *)
Lemma vec_of_dict_of_vec pp v : NoDup pp -> length v = length pp -> vec_of_dict pp (combine pp v) = v.
Proof.
  intros Hnd Hl. unfold vec_of_dict.
  rewrite (map_by_pos (py_dget 0 (combine pp v)) (fun i => nth i v 0) pp (length pp) eq_refl).
  - rewrite <- Hl. unfold idxs. symmetry. apply list_by_pos.
  - intros i Hi. apply dget_combine_nth; [exact Hnd|exact Hi|lia].
Qed.

(* ------------------------------------------------------------------ small facts *)
Lemma py_product_is_cartesian : forall rs : list (list Z), py_product rs = cartesian rs.
Proof. induction rs as [|r rs IH]; cbn; [reflexivity|]. now rewrite IH. Qed.

Lemma cartesian_length : forall (rs : list (list Z)) v, In v (cartesian rs) -> length v = length rs.
Proof.
  induction rs as [|r rs IH]; cbn; intros v H.
  - destruct H as [<-|[]]. reflexivity.
  - apply in_flat_map in H. destruct H as (x & _ & H). apply in_map_iff in H.
    destruct H as (v' & <- & H). cbn. f_equal. apply IH. exact H.
Qed.

Lemma flat_map_ext_in {A B} (f g : A -> list B) l : (forall x, In x l -> f x = g x) -> flat_map f l = flat_map g l.
Proof.
  induction l as [|x l IH]; intros H; cbn; [reflexivity|].
  rewrite H by (left; reflexivity). rewrite IH; [reflexivity|]. intros y Hy. apply H. right. exact Hy.
Qed.

Lemma map_flat_map {A B C} (h : B -> C) (f : A -> list B) l :
  map h (flat_map f l) = flat_map (fun x => map h (f x)) l.
Proof. induction l as [|x l IH]; cbn; [reflexivity|]. now rewrite map_app, IH. Qed.

Lemma flat_map_singleton {A B} (f : A -> B) l : flat_map (fun x => [f x]) l = map f l.
Proof. induction l as [|x l IH]; cbn; [reflexivity|]. now rewrite IH. Qed.

(* a {name: (lo, hi)} dictionary read at the i-th name *)
Lemma minmax_dict_lo pp mm i : NoDup pp -> (i < length pp)%nat -> length mm = length pp ->
  py_get 0 (py_dget [] (minmax_dict pp mm) (nth i pp 0)) 0 = mm_lo mm i.
Proof.
  intros Hnd Hi Hl. unfold minmax_dict. rewrite dget_combine_nth by (rewrite ?map_length; assumption || lia).
  unfold mm_lo. rewrite (nth_indep _ [] [fst (0, 0); snd (0, 0)]) by (rewrite map_length; lia).
  rewrite (map_nth (fun ab : Z * Z => [fst ab; snd ab])). reflexivity.
Qed.

Lemma minmax_dict_hi pp mm i : NoDup pp -> (i < length pp)%nat -> length mm = length pp ->
  py_get 0 (py_dget [] (minmax_dict pp mm) (nth i pp 0)) 1 = mm_hi mm i.
Proof.
  intros Hnd Hi Hl. unfold minmax_dict. rewrite dget_combine_nth by (rewrite ?map_length; assumption || lia).
  unfold mm_hi. rewrite (nth_indep _ [] [fst (0, 0); snd (0, 0)]) by (rewrite map_length; lia).
  rewrite (map_nth (fun ab : Z * Z => [fst ab; snd ab])). reflexivity.
Qed.

Lemma py_sum_cons x l : py_sum (x :: l) = x + py_sum l.
Proof. reflexivity. Qed.

(* sum(minmax[k][j] for minmax in minmaxes[1:]) *)
Lemma col_lo_is_sum pp i : NoDup pp -> (i < length pp)%nat -> forall rest,
  Forall (fun mm : list (Z * Z) => length mm = length pp) rest ->
  py_sum (map (fun minmax : list (Z * list Z) => py_get 0 (py_dget [] minmax (nth i pp 0)) 0)
              (map (minmax_dict pp) rest)) = col_lo i rest.
Proof.
  intros Hnd Hi rest H. induction H as [|mm rest Hmm _ IH]; cbn [map col_lo]; [reflexivity|].
  now rewrite py_sum_cons, IH, minmax_dict_lo.
Qed.

Lemma col_hi_is_sum pp i : NoDup pp -> (i < length pp)%nat -> forall rest,
  Forall (fun mm : list (Z * Z) => length mm = length pp) rest ->
  py_sum (map (fun minmax : list (Z * list Z) => py_get 0 (py_dget [] minmax (nth i pp 0)) 1)
              (map (minmax_dict pp) rest)) = col_hi i rest.
Proof.
  intros Hnd Hi rest H. induction H as [|mm rest Hmm _ IH]; cbn [map col_hi]; [reflexivity|].
  now rewrite py_sum_cons, IH, minmax_dict_hi.
Qed.

(* ------------------------------------------------------------------ _helper *)
Section Helper.
Variable pp : list Z.                     (* self.parent_parameters, as integers *)
Variable d : nat.
Hypothesis pp_nodup : NoDup pp.           (* in-section *)
Hypothesis pp_len : length pp = d.        (* in-section *)

(* the keyword dictionary `parameters` holds the vector p *)
Definition holds (params : list (Z * Z)) (p : vec) : Prop :=
  forall i, (i < d)%nat -> py_dget 0 params (nth i pp 0) = vget p i.

Lemma holds_vec params p : holds params p -> vec_of_dict pp params = map (vget p) (idxs d).
Proof. intros H. unfold vec_of_dict. apply map_by_pos; [exact pp_len|exact H]. Qed.

Lemma helper_is_source : forall mms fuel params p,
  mms <> [] ->                            (* at least one child: minmaxes[0] exists *)
  Forall (fun mm : list (Z * Z) => length mm = d) mms ->
  holds params p -> (length mms < fuel)%nat ->
  map (map (vec_of_dict pp))
      (valid_compositions_helper_fuel fuel pp (map (minmax_dict pp) mms) params) =
  helper d mms p.
Proof.
  induction mms as [|mm rest IH]; intros fuel params p Hne Hwf Hp Hfuel; [contradiction|].
  destruct fuel as [|fuel]; [cbn in Hfuel; lia|].
    inversion Hwf as [|? ? Hmm Hrest]; subst.
    assert (Hmm' : length mm = length pp) by lia.
    assert (Hrest' : Forall (fun mm : list (Z * Z) => length mm = length pp) rest)
      by (rewrite pp_len; exact Hrest).
    cbn [valid_compositions_helper_fuel map].
    destruct rest as [|mm2 rest'].
    + (* the last child *)
      cbn [map helper]. change (zlen [minmax_dict pp mm] =? 1) with true. cbv iota.
      change (py_get [] [minmax_dict pp mm] 0) with (minmax_dict pp mm).
      rewrite (forallb_by_pos _ (fun k => (mm_lo mm k <=? vget p k) && (vget p k <=? mm_hi mm k)) pp d pp_len).
      * destruct (forallb _ (idxs d)); [|reflexivity]. cbn [map]. now rewrite (holds_vec _ _ Hp).
      * intros i Hi. rewrite minmax_dict_lo, minmax_dict_hi, (Hp i Hi) by (assumption || lia). reflexivity.
    + (* a child followed by others *)
      set (rest := mm2 :: rest') in *.
      replace (zlen (minmax_dict pp mm :: map (minmax_dict pp) rest) =? 1) with false.
      2:{ symmetry. apply Z.eqb_neq. unfold zlen, rest. cbn [length map]. lia. }
      cbn [skipn helper]. fold rest.
      change (py_get [] (minmax_dict pp mm :: map (minmax_dict pp) rest) 0) with (minmax_dict pp mm).
      rewrite !dict_of_tab by exact pp_nodup. rewrite !app_nil_r.
      rewrite py_product_is_cartesian.
      (* the ranges, by position *)
      rewrite (map_by_pos _
        (fun k => py_range (Z.max (mm_lo mm k) (vget p k - col_hi k rest))
                           (Z.min (mm_hi mm k) (vget p k - col_lo k rest) + 1)) pp d pp_len).
      2:{ intros i Hi. assert (Hin : In (nth i pp 0) pp) by (apply nth_In; lia).
          rewrite !dget_tab by exact Hin.
          rewrite col_lo_is_sum, col_hi_is_sum, minmax_dict_lo, minmax_dict_hi, (Hp i Hi)
            by (assumption || lia). reflexivity. }
      rewrite map_flat_map.
      apply flat_map_ext_in. intros values Hv.
      assert (Hlv : length values = length pp).
      { apply cartesian_length in Hv. rewrite map_length, idxs_length in Hv. lia. }
      rewrite app_nil_r, map_flat_map.
      rewrite dict_of_nodup by (rewrite map_fst_combine by exact Hlv; exact pp_nodup).
      rewrite (flat_map_ext_in _ (fun comp => [values :: map (vec_of_dict pp) comp])).
      2:{ intros comp _. cbn [map app]. now rewrite vec_of_dict_of_vec by assumption. }
      rewrite flat_map_singleton, <- map_map.
      f_equal. apply IH; [discriminate|exact Hrest| |cbn [length] in *; lia].
      intros i Hi. rewrite dict_of_tab by exact pp_nodup.
      rewrite dget_tab by (apply nth_In; lia).
      rewrite (Hp i Hi), dget_combine_nth by (assumption || lia).
      rewrite vget_map_idxs by exact Hi. reflexivity.
Qed.
End Helper.

(* ------------------------------------------------------------------ ranges *)
Lemma nonempty_range a b : py_nonempty (py_range a b) = (a <? b).
Proof.
  unfold py_range. destruct (Z.ltb_spec a b) as [H|H].
  - destruct (Z.to_nat (b - a)) eqn:E; [lia|reflexivity].
  - replace (Z.to_nat (b - a)) with 0%nat by lia. reflexivity.
Qed.

Lemma fold_min_lower : forall l x, (forall y, In y l -> x <= y) -> fold_left Z.min l x = x.
Proof.
  induction l as [|y l IH]; intros x H; cbn [fold_left]; [reflexivity|].
  rewrite Z.min_l by (apply H; left; reflexivity). apply IH. intros z Hz. apply H. right. exact Hz.
Qed.

Lemma min_range a b : a < b -> py_min_list (py_range a b) = a.
Proof.
  intros H. unfold py_range. destruct (Z.to_nat (b - a)) as [|m] eqn:E; [lia|].
  cbn [seq map py_min_list]. rewrite fold_min_lower; [lia|].
  intros y Hy. apply in_map_iff in Hy. destruct Hy as (j & <- & _). lia.
Qed.

Lemma fold_max_range a : forall m s x,
  fold_left Z.max (map (fun j => a + Z.of_nat j) (seq s m)) x =
  match m with O => x | S m' => Z.max x (a + Z.of_nat (s + m')) end.
Proof.
  induction m as [|m IH]; intros s x; [reflexivity|]. cbn [seq map fold_left]. rewrite IH.
  destruct m as [|m']; [f_equal; f_equal; f_equal; lia|]. lia.
Qed.

Lemma max_range a b : a < b -> py_max_list (py_range a b) = b - 1.
Proof.
  intros H. unfold py_range. destruct (Z.to_nat (b - a)) as [|m] eqn:E; [lia|].
  cbn [seq map py_max_list]. rewrite fold_max_range. destruct m as [|m']; lia.
Qed.

Lemma nth_map_idxs {B} (g : nat -> B) (d0 : B) dd i : (i < dd)%nat -> nth i (map g (idxs dd)) d0 = g i.
Proof.
  intros H. rewrite (nth_indep _ d0 (g 0%nat)) by (rewrite map_length, idxs_length; exact H).
  rewrite map_nth. unfold idxs. rewrite seq_nth by exact H. reflexivity.
Qed.

(* ------------------------------------------------------------------ max_child_sizes *)
Lemma max_dict_keys pp : forall mx k, In k (map fst (max_dict pp mx)) -> In k pp.
Proof.
  induction pp as [|a pp IH]; intros [|o mx] k H; try (cbn in H; contradiction).
  unfold max_dict in H. cbn [combine flat_map snd fst] in H. rewrite map_app in H.
  apply in_app_or in H. destruct H as [H|H].
  - destruct o; cbn in H; [destruct H as [<-|[]]; left; reflexivity|contradiction].
  - right. apply (IH mx). exact H.
Qed.

Lemma max_dict_nth : forall pp mx i,
  NoDup pp -> (i < length pp)%nat -> length mx = length pp ->
  py_dmem (max_dict pp mx) (nth i pp 0) = is_some (nth i mx None) /\
  py_dget 0 (max_dict pp mx) (nth i pp 0) = py_unopt (nth i mx None).
Proof.
  induction pp as [|a pp IH]; intros mx i Hnd Hi Hl; [cbn in Hi; lia|].
  destruct mx as [|o mx]; [cbn in Hl; lia|]. inversion Hnd as [|? ? Hnotin Hnd']; subst.
  change (max_dict (a :: pp) (o :: mx))
    with ((match o with Some M => [(a, M)] | None => [] end) ++ max_dict pp mx).
  destruct i as [|i]; cbn [nth].
  - destruct o as [M|]; cbn [app].
    + unfold py_dmem. cbn [existsb fst py_dget]. rewrite Z.eqb_refl. split; reflexivity.
    + assert (Hno : ~ In a (map fst (max_dict pp mx))) by (intros H; apply Hnotin, (max_dict_keys pp mx a H)).
      rewrite dmem_notin, dget_notin by exact Hno. split; reflexivity.
  - assert (Hneq : (a =? nth i pp 0) = false).
    { apply Z.eqb_neq. intros ->. apply Hnotin, nth_In. cbn in Hi. lia. }
    destruct (IH mx i Hnd') as [I1 I2]; [cbn in Hi; lia|cbn in Hl; lia|].
    destruct o as [M|]; cbn [app]; [|split; assumption].
    unfold py_dmem in *. cbn [existsb fst py_dget]. rewrite Hneq. cbn [orb]. split; assumption.
Qed.

(* ------------------------------------------------------------------ reliance_profile *)
Lemma combine_map2 {A B A' B'} (f : A -> A') (g : B -> B') : forall (l : list A) (l' : list B),
  combine (map f l) (map g l') = map (fun c => (f (fst c), g (snd c))) (combine l l').
Proof. induction l as [|x l IH]; intros [|y l']; cbn; try reflexivity. now rewrite IH. Qed.

Lemma forallb_map {A B} (f : B -> bool) (g : A -> B) l : forallb f (map g l) = forallb (fun x => f (g x)) l.
Proof. induction l as [|x l IH]; cbn; [reflexivity|]. now rewrite IH. Qed.

Lemma forallb_ext_in {A} (f g : A -> bool) l : (forall x, In x l -> f x = g x) -> forallb f l = forallb g l.
Proof.
  induction l as [|x l IH]; intros H; cbn; [reflexivity|].
  rewrite H by (left; reflexivity). rewrite IH; [reflexivity|]. intros y Hy. apply H. right. exact Hy.
Qed.

Lemma map_snd_combine {V} : forall (pp : list Z) (v : list V), length v = length pp -> map snd (combine pp v) = v.
Proof.
  induction pp as [|k pp IH]; intros [|x v] H; cbn in *; try reflexivity; try lia. f_equal. apply IH. lia.
Qed.

(* the ranges reliance_profile(n, **parameters)[i] holds, by position *)
Definition prof_ranges (d : nat) (pmins P mins : vec) (maxs : list (option Z)) : list (list Z) :=
  map (fun k => py_range (fst (profile_range pmins P mins maxs k)) (snd (profile_range pmins P mins maxs k)))
      (idxs d).

Section Outer.
Variable pp : list Z.
Variable d : nat.
Hypothesis pp_nodup : NoDup pp.           (* in-section *)
Hypothesis pp_len : length pp = d.        (* in-section *)
Hypothesis key_n : nth 0 pp 0 = 0.        (* in-section: "n" is parent_parameters[0] and is the key 0 *)

Variable pmins : vec.
Variable P : vec.
Variable params0 : list (Z * Z).          (* the keyword arguments: the parent's extra parameters *)
Hypothesis pmins_len : length pmins = d.  (* in-section *)
Hypothesis params0_ok : forall i, (0 < i < d)%nat -> py_dget 0 params0 (nth i pp 0) = vget P i. (* in-section *)

(* after parameters["n"] = n the dictionary holds the whole vector P *)
Lemma params_hold : holds pp d (py_dset params0 0 (vget P 0)) P.
Proof.
  intros i Hi. rewrite dget_dset. destruct i as [|i].
  - now rewrite key_n.
  - replace (0 =? nth (S i) pp 0) with false; [apply params0_ok; lia|].
    symmetry. apply Z.eqb_neq. intros E.
    assert (E2 : nth 0 pp 0 = nth (S i) pp 0) by (rewrite key_n; exact E).
    apply (proj1 (NoDup_nth pp 0) pp_nodup) in E2; lia.
Qed.

Lemma profile_is_source : forall mn mx, length mn = d -> length mx = d ->
  py_dict_of
    (map (fun k : Z =>
            (k, py_range (py_dget 0 (combine pp mn) k)
                  (py_min_list
                     ([py_dget 0 (py_dset params0 0 (vget P 0)) k - py_dget 0 (combine pp pmins) k
                       + py_dget 0 (combine pp mn) k + 1]
                      ++ (if py_dmem (max_dict pp mx) k then [py_dget 0 (max_dict pp mx) k + 1] else [])))))
         (map fst (combine pp mn))) =
  combine pp (prof_ranges d pmins P mn mx).
Proof.
  intros mn mx Hmn Hmx. rewrite map_fst_combine by lia. rewrite dict_of_tab by exact pp_nodup.
  rewrite tab_is_combine. f_equal. unfold prof_ranges. apply map_by_pos; [exact pp_len|].
  intros i Hi. rewrite (params_hold i Hi).
  rewrite !dget_combine_nth by (assumption || lia).
  destruct (max_dict_nth pp mx i pp_nodup) as [E1 E2]; [lia|lia|]. rewrite E1, E2.
  unfold profile_range, vget. cbn [fst snd].
  destruct (nth i mx None) as [M|]; cbn [is_some py_unopt app py_min_list fold_left]; reflexivity.
Qed.

Variable mins : list vec.
Variable maxs : list (list (option Z)).
Hypothesis mins_len : Forall (fun v : vec => length v = d) mins.                 (* in-section *)
Hypothesis maxs_len : Forall (fun v : list (option Z) => length v = d) maxs.     (* in-section *)

Lemma cm_lens : forall c, In c (combine mins maxs) -> length (fst c) = d /\ length (snd c) = d.
Proof.
  intros [mn mx] H. split.
  - apply in_combine_l in H. exact (proj1 (Forall_forall _ _) mins_len _ H).
  - apply in_combine_r in H. exact (proj1 (Forall_forall _ _) maxs_len _ H).
Qed.

(* CartesianProduct.reliance_profile on the dictionaries built from the model's vectors *)
Lemma reliance_profile_is_source :
  product_reliance_profile (combine pp pmins) (map (combine pp) mins) (map (max_dict pp) maxs)
                           (vget P 0) params0 =
  map (fun c : vec * list (option Z) => combine pp (prof_ranges d pmins P (fst c) (snd c)))
      (combine mins maxs).
Proof.
  unfold product_reliance_profile. cbv zeta. rewrite combine_map2, map_map.
  apply map_ext_in. intros c Hc. destruct (cm_lens c Hc) as [L1 L2]. destruct c as [mn mx].
  cbn [fst snd] in *. apply profile_is_source; assumption.
Qed.

Lemma prof_ranges_len mn mx : length (prof_ranges d pmins P mn mx) = length pp.
Proof. unfold prof_ranges. rewrite map_length, idxs_length. lia. Qed.

(* all(all(profile.values()) for profile in reliance_profile) *)
Lemma nonempty_is_source :
  forallb (fun profile : list (Z * list Z) => forallb py_nonempty (map snd profile))
          (map (fun c : vec * list (option Z) => combine pp (prof_ranges d pmins P (fst c) (snd c)))
               (combine mins maxs)) =
  forallb (fun c : vec * list (option Z) => profile_nonempty d pmins P (fst c) (snd c)) (combine mins maxs).
Proof.
  rewrite forallb_map. apply forallb_ext_in. intros [mn mx] _. cbn [fst snd].
  rewrite map_snd_combine by apply prof_ranges_len.
  unfold prof_ranges, profile_nonempty. rewrite forallb_map. apply forallb_ext_in. intros k _.
  rewrite nonempty_range. destruct (profile_range pmins P mn mx k); reflexivity.
Qed.

(* minmaxes *)
Lemma minmaxes_is_source : forall mn mx, length mn = d -> length mx = d ->
  profile_nonempty d pmins P mn mx = true ->
  py_dict_of
    (map (fun k : Z =>
            (k, [py_min_list (py_dget [] (combine pp (prof_ranges d pmins P mn mx)) k);
                 py_max_list (py_dget [] (combine pp (prof_ranges d pmins P mn mx)) k)])) pp) =
  minmax_dict pp (minmax_of d pmins P mn mx).
Proof.
  intros mn mx Hmn Hmx Hne. rewrite dict_of_tab by exact pp_nodup. rewrite tab_is_combine.
  unfold minmax_dict, minmax_of. f_equal. rewrite map_map. apply map_by_pos; [exact pp_len|].
  intros i Hi. rewrite dget_combine_nth by (rewrite ?prof_ranges_len; assumption || lia).
  unfold prof_ranges. rewrite nth_map_idxs by exact Hi.
  unfold profile_nonempty in Hne. rewrite forallb_forall in Hne.
  specialize (Hne i (proj2 (in_idxs d i) Hi)).
  destruct (profile_range pmins P mn mx i) as [a b]. cbn [fst snd]. apply Z.ltb_lt in Hne.
  now rewrite min_range, max_range by exact Hne.
Qed.

Lemma minmax_of_len mn mx : length (minmax_of d pmins P mn mx) = d.
Proof. unfold minmax_of. now rewrite map_length, idxs_length. Qed.

(* CartesianProduct._valid_compositions(n, **parameters) over reliance_profile(n, **parameters) *)
Theorem valid_comps_is_source :
  mins <> [] -> maxs <> [] ->
  map (map (vec_of_dict pp))
      (valid_compositions pp
         (product_reliance_profile (combine pp pmins) (map (combine pp) mins) (map (max_dict pp) maxs)
                                   (vget P 0) params0)
         (vget P 0) params0) =
  valid_comps d pmins mins maxs P.
Proof.
  intros Hm HM. unfold valid_compositions, valid_comps. cbv zeta.
  rewrite reliance_profile_is_source, nonempty_is_source.
  destruct (forallb _ (combine mins maxs)) eqn:E; [|reflexivity].
  rewrite app_nil_r. unfold valid_compositions_helper. rewrite map_map.
  rewrite (map_ext_in _ (fun c : vec * list (option Z) => minmax_dict pp (minmax_of d pmins P (fst c) (snd c)))).
  2:{ intros c Hc. destruct (cm_lens c Hc) as [L1 L2].
      apply minmaxes_is_source; [exact L1|exact L2|]. rewrite forallb_forall in E. exact (E c Hc). }
  rewrite <- (map_map (fun c : vec * list (option Z) => minmax_of d pmins P (fst c) (snd c)) (minmax_dict pp)).
  apply helper_is_source; try assumption.
  - destruct mins, maxs; try contradiction. discriminate.
  - apply Forall_forall. intros mm Hmm. apply in_map_iff in Hmm. destruct Hmm as (c & <- & _).
    apply minmax_of_len.
  - apply params_hold.
  - rewrite !map_length. lia.
Qed.
End Outer.

(* ------------------------------------------------------------------ min_sizes / max_sizes
   The bounds CartesianProduct.get_terms and get_sub_objects hand to utils.compositions
   (the properties min_sizes / max_sizes, Gen/ProductMinSizes.v, Gen/ProductMaxSizes.v) are
   column 0 (the size "n") of the vectors valid_comps works on: the compositions of
   C08_valid_compositions_get_terms are taken within the source's own bounds. *)
Lemma dfind_notin {V} (m : list (Z * V)) k : ~ In k (map fst m) -> py_dfind m k = None.
Proof.
  induction m as [|[k' v] m IH]; cbn [py_dfind map fst]; intros H; [reflexivity|].
  destruct (k' =? k) eqn:E; [apply Z.eqb_eq in E; exfalso; apply H; left; exact E|].
  apply IH. intros Hin. apply H. right. exact Hin.
Qed.

Lemma max_dict_find0 : forall pp mx, NoDup pp -> (0 < length pp)%nat -> length mx = length pp ->
  py_dfind (max_dict pp mx) (nth 0 pp 0) = nth 0 mx None.
Proof.
  intros [|a pp] [|o mx] Hnd Hl Hm; cbn in Hl, Hm; try lia.
  inversion Hnd as [|? ? Hnotin _]; subst.
  change (max_dict (a :: pp) (o :: mx))
    with ((match o with Some M => [(a, M)] | None => [] end) ++ max_dict pp mx).
  cbn [nth]. destruct o as [M|]; cbn [app py_dfind].
  - now rewrite Z.eqb_refl.
  - apply dfind_notin. intros H. apply Hnotin, (max_dict_keys pp mx a H).
Qed.

Section Bounds.
Variable pp : list Z.
Variable d : nat.
Hypothesis pp_nodup : NoDup pp.           (* in-section *)
Hypothesis pp_len : length pp = d.        (* in-section *)
Hypothesis key_n : nth 0 pp 0 = 0.        (* in-section *)
Hypothesis d_pos : (0 < d)%nat.           (* in-section *)

Lemma min_sizes_is_source : forall mins, Forall (fun v : vec => length v = d) mins ->
  product_min_sizes (map (combine pp) mins) = sizes_of mins.
Proof.
  intros mins H. unfold product_min_sizes, sizes_of. rewrite map_map. apply map_ext_in. intros v Hv.
  rewrite <- key_n at 2. rewrite dget_combine_nth; [reflexivity|exact pp_nodup|lia|].
  rewrite (proj1 (Forall_forall _ _) H v Hv). exact d_pos.
Qed.

Lemma max_sizes_is_source : forall maxs, Forall (fun v : list (option Z) => length v = d) maxs ->
  product_max_sizes (map (max_dict pp) maxs) = map (fun mx => nth 0 mx None) maxs.
Proof.
  intros maxs H. unfold product_max_sizes. rewrite map_map. apply map_ext_in. intros mx Hmx.
  rewrite <- key_n. apply max_dict_find0; [exact pp_nodup|lia|].
  rewrite (proj1 (Forall_forall _ _) H mx Hmx). lia.
Qed.
End Bounds.
