(* sx interface of the C10 model.

   (0 n k mins maxs)            -> the list of compositions, in order   (Gen.compositions)
   (1 0 shifts idx)             -> reverse_shifts           | -2 where Python raises IndexError
   (1 1 children)               -> product_shifts
   (1 2 children)               -> union_shifts
   (1 3 children idx)           -> (min_sizes max_sizes parent_shift) of Quotient.__init__ | -2
   (2 form children idx N)      -> (shifts (reads at 0) ... (reads at N)), reads as sorted sets
                                   form 0 union, 1 product, 2 reverse of union, 3 reverse of product
   (3 form strat d N)           -> (shifts (reads at 0) ... (reads at N)) of a DERIVED rule form:
                                   form 4 equivalence rule, 5 equivalence rule of the reverse rule,
                                   6 equivalence path; strat 0 a DisjointUnionStrategy, 1 a
                                   CartesianProductStrategy; d = (min_size is_atom) of the one class
                                   handed to strategy.shifts; N = -1 gives the shifts only
   children = ((min_size is_atom) ...), an absent bound is written ().                        *)
From Coq Require Import ZArith List Bool.
From CSS Require Import Base.Sx Gen.Prelude Gen.Compositions Gen.ReverseShifts Gen.ProductShifts
  Gen.UnionShifts Gen.QuotientParentShift Count.ReadsModel.
Import ListNotations.
Open Scope Z_scope.

Definition dec_child (s : sx) : Z * bool := (sx_Z (sx_nth s 0), sx_bool (sx_nth s 1)).
Definition dec_children (s : sx) : desc := map dec_child (sx_list s).
Definition dec_opts (s : sx) : list (option Z) := map sx_optZ (sx_list s).

Definition index_ok {A} (l : list A) (idx : Z) : bool := (- zlen l <=? idx) && (idx <? zlen l).
Definition INDEX_ERROR : sx := I (-2).

(* canonical (sorted, duplicate-free) form of a list of reads *)
Definition read_ltb (a b : read) : bool :=
  (fst a <? fst b) || ((fst a =? fst b) && (snd a <? snd b)).
Definition read_eqb (a b : read) : bool := (fst a =? fst b) && (snd a =? snd b).
Fixpoint insert_read (r : read) (l : list read) : list read :=
  match l with
  | [] => [r]
  | x :: t => if read_eqb r x then l else if read_ltb r x then r :: l else x :: insert_read r t
  end.
Definition canon_reads (l : list read) : list read := fold_right insert_read [] l.
Definition enc_reads (l : list read) : sx := L (map (fun r : read => L [I (fst r); I (snd r)]) (canon_reads l)).

Definition run_c10 (inp : sx) : sx :=
  match sx_Z (sx_nth inp 0) with
  | 0 =>
      let n := sx_Z (sx_nth inp 1) in
      let k := sx_Z (sx_nth inp 2) in
      L (map of_Zs (compositions n k (sx_Zs (sx_nth inp 3)) (dec_opts (sx_nth inp 4))))
  | 1 =>
      match sx_Z (sx_nth inp 1) with
      | 0 =>
          let s := sx_Zs (sx_nth inp 2) in
          let idx := sx_Z (sx_nth inp 3) in
          if index_ok s idx then of_Zs (reverse_shifts s idx) else INDEX_ERROR
      | 1 => of_Zs (product_shifts (dec_children (sx_nth inp 2)))
      | 2 => of_Zs (union_shifts (dec_children (sx_nth inp 2)))
      | _ =>
          let c := dec_children (sx_nth inp 2) in
          let idx := sx_Z (sx_nth inp 3) in
          if index_ok c idx
          then L [of_Zs (quotient_min_sizes c); L (map of_optZ (quotient_max_sizes c));
                  I (quotient_parent_shift c idx)]
          else INDEX_ERROR
      end
  | 3 =>
      let form := sx_Z (sx_nth inp 1) in
      let strat := sx_Z (sx_nth inp 2) in
      let d := dec_child (sx_nth inp 3) in
      let N := sx_Z (sx_nth inp 4) in
      L (of_Zs (derived_shifts strat d)
         :: map (fun n => enc_reads (derived_reads form d n)) (py_range 0 (N + 1)))
  | _ =>
      let form := sx_Z (sx_nth inp 1) in
      let c := dec_children (sx_nth inp 2) in
      let idx := sx_Z (sx_nth inp 3) in
      let N := sx_Z (sx_nth inp 4) in
      L (of_Zs (rule_shifts form c idx)
         :: map (fun n => enc_reads (rule_reads form c idx n)) (py_range 0 (N + 1)))
  end.
