(* C07 — per-constructor statements: the sub-object tuples enumerated by
   DisjointUnion.get_sub_objects / CartesianProduct.get_sub_objects followed by
   itertools.product are, without repetition, exactly the splits of the
   parent's objects; hence one level built by Rule._ensure_level_objects holds
   every object of the class with that size once, under its parameters.

   The combinatorial meaning is a Section variable: which objects belong to a
   class (In_cls), their size, their parameters in a class (par).  A rule's
   strategy maps (fwd, bwd) are constrained by a bijection contract. *)
From Coq Require Import ZArith List Bool Lia.
From CSS Require Import Base.PyList Gen.Prelude Gen.Compositions Count.CompositionsSpec
                        Count.ObjectsModel Count.ObjectsLists.
Import ListNotations.
Open Scope Z_scope.

Lemma NoDup_app_intro {A} (a b : list A) :
  NoDup a -> NoDup b -> (forall x, In x a -> ~ In x b) -> NoDup (a ++ b).
Proof.
  intros Ha Hb Hd. induction Ha as [|x a Hx Ha IH]; simpl; [assumption|].
  constructor.
  - rewrite in_app_iff. intros [H|H]; [contradiction|]. apply (Hd x); [left; reflexivity|assumption].
  - apply IH. intros y Hy. apply Hd. right. assumption.
Qed.

Lemma Forall2_length {A B} (R : A -> B -> Prop) l l' : Forall2 R l l' -> length l = length l'.
Proof. induction 1; simpl; congruence. Qed.

Section Sem.
Context {obj : Type}.
Variable size : obj -> Z.
Variable In_cls : nat -> obj -> Prop.
Variable par : nat -> obj -> params.

(* o is an object of class c with size n and parameters p *)
Definition isobj (c : nat) (n : Z) (p : params) (o : obj) : Prop :=
  In_cls c o /\ size o = n /\ par c o = p.

(* d holds exactly the objects of class c of size n, each once, under its parameters *)
Definition good (c : nat) (n : Z) (d : objects obj) : Prop :=
  NoDup (map fst d) /\
  forall p, NoDup (dict_get d p) /\ forall o, In o (dict_get d p) <-> isobj c n p o.

Lemma good_entry c n d p l :
  good c n d -> In (p, l) d -> NoDup l /\ forall o, In o l <-> isobj c n p o.
Proof.
  intros [Hk Hg] Hin. rewrite <- (dict_get_in d p l Hk Hin). apply Hg.
Qed.

Lemma good_entry_of_obj c n d p o :
  good c n d -> isobj c n p o -> exists l, In (p, l) d /\ In o l.
Proof.
  intros [Hk Hg] Ho. destruct (Hg p) as [_ Hm]. apply Hm in Ho.
  destruct (in_dec (list_eq_dec Z.eq_dec) p (map fst d)) as [Hin|Hnin].
  - apply in_map_iff in Hin. destruct Hin as ([p' l] & E & Hin). simpl in E. subst p'.
    exists l. split; [assumption|]. rewrite <- (dict_get_in d p l Hk Hin). assumption.
  - rewrite (dict_get_notin d p Hnin) in Ho. contradiction.
Qed.

(* ---------------------------------------------------------------- one level *)
(* the pairs visited by _ensure_level_objects are in bijection (through the
   rule's maps) with the objects of the parent of size n *)
Lemma build_level_good c n (bwd : subobj obj -> list obj) (fwd : obj -> subobj obj) (ys : list (yield obj)) :
  NoDup (pairs ys) ->
  (forall q t, In (q, t) (pairs ys) -> exists o, bwd t = [o] /\ isobj c n q o /\ fwd o = t) ->
  (forall q o, isobj c n q o -> In (q, fwd o) (pairs ys) /\ bwd (fwd o) = [o]) ->
  good c n (build_level bwd ys).
Proof.
  intros Hnd Hb Hc. split; [apply build_level_keys|].
  intros p. rewrite build_level_get. split.
  - apply NoDup_flat_map; [assumption| |].
    + intros [q t] Hin. simpl. destruct (params_eqb q p); [|constructor].
      destruct (Hb q t Hin) as (o & -> & _). constructor; [intros []|constructor].
    + intros [q t] [q' t'] y Hin Hin' Hy Hy'. simpl in Hy, Hy'.
      destruct (params_eqb q p) eqn:E; [|contradiction].
      destruct (params_eqb q' p) eqn:E'; [|contradiction].
      apply params_eqb_spec in E. apply params_eqb_spec in E'. subst q q'.
      destruct (Hb p t Hin) as (o & Hbt & _ & Hf). rewrite Hbt in Hy. destruct Hy as [<-|[]].
      destruct (Hb p t' Hin') as (o' & Hbt' & _ & Hf'). rewrite Hbt' in Hy'. destruct Hy' as [<-|[]].
      congruence.
  - intros o. rewrite in_flat_map. split.
    + intros ([q t] & Hin & Ho). simpl in Ho.
      destruct (params_eqb q p) eqn:E; [|contradiction]. apply params_eqb_spec in E. subst q.
      destruct (Hb p t Hin) as (o' & Hbt & Hiso & _). rewrite Hbt in Ho. destruct Ho as [<-|[]]. assumption.
    + intros Ho. destruct (Hc p o Ho) as [Hin Hbf].
      exists (p, fwd o). split; [assumption|]. simpl. rewrite params_eqb_refl, Hbf. left. reflexivity.
Qed.

(* ---------------------------------------------------------------- disjoint union *)
(* (q, t) is the split of an object of child i: t = (None,..,o,..,None), q = map_i(parameters of o) *)
Definition valid_u (kids : list nat) (maps : list pmap) (n : Z) (q : params) (t : subobj obj) : Prop :=
  exists i k p o, nth_error kids i = Some k /\ isobj k n p o /\
                  t = slot (length kids) i o /\ q = nth i maps (fun x => x) p.

Lemma pairs_app (a b : list (yield obj)) : pairs (a ++ b) = pairs a ++ pairs b.
Proof. unfold pairs. apply flat_map_app. Qed.

Lemma pairs_union_child K i (f : pmap) (d : objects obj) :
  (i < K)%nat ->
  pairs (map (fun e : params * list obj => (f (fst e), set_nth (repeat [None] K) i (map Some (snd e)))) d)
  = flat_map (fun e : params * list obj => map (fun o => (f (fst e), slot K i o)) (snd e)) d.
Proof.
  intros Hi. unfold pairs. rewrite flat_map_concat_map, map_map, <- flat_map_concat_map.
  apply flat_map_ext. intros [p l]. simpl.
  rewrite set_nth_repeat_cart by assumption. rewrite !map_map. reflexivity.
Qed.

Lemma union_child_spec K i (f : pmap) k n (d : objects obj) :
  (i < K)%nat -> good k n d ->
  let ps := flat_map (fun e : params * list obj => map (fun o => (f (fst e), slot K i o)) (snd e)) d in
  NoDup ps /\
  forall q t, In (q, t) ps <-> exists p o, isobj k n p o /\ t = slot K i o /\ q = f p.
Proof.
  intros Hi Hg ps. split.
  - apply NoDup_flat_map.
    + apply NoDup_map_fst_entries. apply Hg.
    + intros [p l] Hin. simpl. destruct (good_entry _ _ _ _ _ Hg Hin) as [Hl _].
      apply NoDup_map_inj; [assumption|]. intros a b _ _ E. inversion E as [[E1]].
      apply (slot_inj K i i a b Hi Hi E1).
    + intros [p l] [p' l'] y Hin Hin' Hy Hy'. simpl in Hy, Hy'.
      apply in_map_iff in Hy. destruct Hy as (o & <- & Ho).
      apply in_map_iff in Hy'. destruct Hy' as (o' & E & Ho').
      inversion E as [[E1 E2]]. apply (slot_inj K i i o' o Hi Hi) in E2. destruct E2 as [_ ->].
      destruct (good_entry _ _ _ _ _ Hg Hin) as [_ Hm]. destruct (good_entry _ _ _ _ _ Hg Hin') as [_ Hm'].
      apply Hm in Ho. apply Hm' in Ho'. destruct Ho as (_ & _ & <-). destruct Ho' as (_ & _ & <-).
      f_equal. eapply NoDup_fst_unique; [apply Hg|eassumption|eassumption].
  - intros q t. unfold ps. rewrite in_flat_map. split.
    + intros ([p l] & Hin & Ht). simpl in Ht. apply in_map_iff in Ht. destruct Ht as (o & E & Ho).
      inversion E; subst. exists p, o. split; [|split; reflexivity].
      destruct (good_entry _ _ _ _ _ Hg Hin) as [_ Hm]. apply Hm. assumption.
    + intros (p & o & Ho & -> & ->). destruct (good_entry_of_obj _ _ _ _ _ Hg Ho) as (l & Hin & Hol).
      exists (p, l). split; [assumption|]. simpl. apply in_map_iff. exists o. split; [reflexivity|assumption].
Qed.

Lemma union_from_spec K maps n : forall (subs : list (objects obj)) (kids' : list nat) (i : nat),
  (i + length subs = K)%nat ->
  Forall2 (fun k d => good k n d) kids' subs ->
  NoDup (pairs (union_yields_from K i maps subs)) /\
  forall q t, In (q, t) (pairs (union_yields_from K i maps subs)) <->
              exists j k p o, nth_error kids' j = Some k /\ isobj k n p o /\
                              t = slot K (i + j) o /\ q = nth (i + j) maps (fun x => x) p.
Proof.
  induction subs as [|d subs IH]; intros kids' i HK HF.
  - inversion HF as [E1 E2|]. simpl. split; [constructor|].
    intros q t. split; [intros []|]. intros (j & k & p & o & Hj & _). destruct j; discriminate.
  - revert HK. inversion HF as [|k d' kids'' subs' Hgd HF' E1 E2]; subst d' subs' kids'. intros HK. simpl in HK.
    assert (Hi : (i < K)%nat) by lia.
    simpl. rewrite pairs_app, pairs_union_child by assumption.
    destruct (union_child_spec K i (nth i maps (fun x => x)) k n d Hi Hgd) as [Hnd1 Hm1].
    destruct (IH kids'' (S i) ltac:(lia) HF') as [Hnd2 Hm2].
    split.
    + apply NoDup_app_intro; [assumption|assumption|].
      intros [q t] H1 H2. apply Hm1 in H1. apply Hm2 in H2.
      destruct H1 as (p & o & _ & Ht & _). destruct H2 as (j & k' & p' & o' & Hj & _ & Ht' & _).
      assert (Hj' : (j < length kids'')%nat) by (apply nth_error_Some; congruence).
      assert (Hlen : length kids'' = length subs) by (eapply Forall2_length; eassumption).
      rewrite Ht in Ht'. apply slot_inj in Ht'; lia.
    + intros q t. rewrite in_app_iff, Hm1, Hm2. split.
      * intros [(p & o & Ho & Ht & Hq)|(j & k' & p & o & Hj & Ho & Ht & Hq)].
        -- exists O, k, p, o. rewrite Nat.add_0_r. auto.
        -- exists (S j), k', p, o. rewrite <- plus_n_Sm. auto.
      * intros (j & k' & p & o & Hj & Ho & Ht & Hq). destruct j as [|j].
        -- left. simpl in Hj. inversion Hj; subst k'. rewrite Nat.add_0_r in *. eauto.
        -- right. simpl in Hj. exists j, k', p, o. rewrite <- plus_n_Sm in *. auto.
Qed.

(* C07_union_sub_objects *)
Theorem union_sub_objects_spec kids maps n (subs : list (objects obj)) :
  Forall2 (fun k d => good k n d) kids subs ->
  NoDup (pairs (union_yields maps subs)) /\
  forall q t, In (q, t) (pairs (union_yields maps subs)) <-> valid_u kids maps n q t.
Proof.
  intros HF. unfold union_yields.
  assert (Hlen : length kids = length subs) by (eapply Forall2_length; eassumption).
  destruct (union_from_spec (length subs) maps n subs kids O ltac:(lia) HF) as [Hnd Hm].
  split; [assumption|]. intros q t. rewrite Hm. unfold valid_u. rewrite Hlen. simpl. reflexivity.
Qed.

(* the contract of a disjoint-union rule (parent c): fwd/bwd are mutually
   inverse between the parent's objects and the tuples with one object of one
   child; size is kept, parameters go through the child's map *)
Definition union_contract (c : nat) (kids : list nat) (maps : list pmap)
           (fwd : obj -> subobj obj) (bwd : subobj obj -> list obj) : Prop :=
  (forall o, In_cls c o ->
     exists i k y, nth_error kids i = Some k /\ fwd o = slot (length kids) i y /\ In_cls k y /\
                   size y = size o /\ par c o = nth i maps (fun x => x) (par k y) /\
                   bwd (fwd o) = [o]) /\
  (forall i k y, nth_error kids i = Some k -> In_cls k y ->
     exists o, bwd (slot (length kids) i y) = [o] /\ In_cls c o /\ fwd o = slot (length kids) i y).

(* C07 per constructor: one level of a union rule *)
Theorem union_level_good c kids maps fwd bwd n (subs : list (objects obj)) :
  union_contract c kids maps fwd bwd ->
  Forall2 (fun k d => good k n d) kids subs ->
  good c n (build_level bwd (union_yields maps subs)).
Proof.
  intros [HU1 HU2] HF. destruct (union_sub_objects_spec kids maps n subs HF) as [Hnd Hm].
  apply build_level_good with (fwd := fwd); [assumption| |].
  - intros q t Hin. apply Hm in Hin. destruct Hin as (i & k & p & y & Hi & (Hy & Hs & Hp) & -> & ->).
    destruct (HU2 i k y Hi Hy) as (o & Hb & Ho & Hf). exists o. split; [assumption|]. split; [|assumption].
    destruct (HU1 o Ho) as (i' & k' & y' & Hi' & Hf' & Hy' & Hs' & Hp' & _).
    rewrite Hf in Hf'.
    assert (Hlt : (i < length kids)%nat) by (apply nth_error_Some; congruence).
    assert (Hlt' : (i' < length kids)%nat) by (apply nth_error_Some; congruence).
    apply slot_inj in Hf'; try assumption. destruct Hf' as [<- <-].
    rewrite Hi in Hi'. inversion Hi'; subst k'.
    repeat split; congruence.
  - intros q o (Ho & Hs & Hp). destruct (HU1 o Ho) as (i & k & y & Hi & Hf & Hy & Hsy & Hpy & Hb).
    split; [|assumption]. apply Hm. exists i, k, (par k y), y.
    repeat split; try assumption; congruence.
Qed.

(* ---------------------------------------------------------------- cartesian product *)
Definition pars_of (kids : list nat) (ys : list obj) : list params :=
  map (fun ky : nat * obj => par (fst ky) (snd ky)) (combine kids ys).

(* (q, t) is the split of a parent object: one object of every child, sizes
   adding up to n, parameters combined by _new_param *)
Definition valid_p (kids : list nat) (maps : list pmap) (n : Z) (q : params) (t : subobj obj) : Prop :=
  exists ys, Forall2 In_cls kids ys /\ t = map Some ys /\ py_sum (map size ys) = n /\
             q = new_param maps (pars_of kids ys).

(* the pairs contributed by one composition: ds = the children's dictionaries at the sizes *)
Definition comp_pairs (maps : list pmap) (ds : list (objects obj)) : list (params * subobj obj) :=
  flat_map (fun combo : list (params * list obj) =>
              map (pair (new_param maps (map fst combo)))
                  (cart (map (fun e : params * list obj => map Some (snd e)) combo)))
           (cart ds).

Lemma pairs_product_yields maps (per_comp : list (list (objects obj))) :
  pairs (product_yields maps per_comp) = flat_map (comp_pairs maps) per_comp.
Proof.
  unfold pairs, product_yields, comp_pairs.
  induction per_comp as [|ds rest IH]; simpl; [reflexivity|].
  rewrite flat_map_app. f_equal; [|exact IH].
  rewrite flat_map_concat_map, map_map, <- flat_map_concat_map. reflexivity.
Qed.

Definition goodks (ks : nat * Z) (d : objects obj) : Prop := good (fst ks) (snd ks) d.
Definition fits (ks : nat * Z) (y : obj) : Prop := In_cls (fst ks) y /\ size y = snd ks.

(* a choice of entries and of one object in each entry = a tuple of objects of the right sizes *)
Lemma combo_tuple_sound : forall KS ds, Forall2 goodks KS ds ->
  forall combo t,
    Forall2 (fun (d : objects obj) e => In e d) ds combo ->
    Forall2 (fun (l : list (option obj)) x => In x l) (map (fun e : params * list obj => map Some (snd e)) combo) t ->
    exists ys, t = map Some ys /\ Forall2 fits KS ys /\ map fst combo = pars_of (map fst KS) ys.
Proof.
  induction 1 as [|ks d KS ds Hg HF IH]; intros combo t Hc Ht.
  - inversion Hc; subst. simpl in Ht. inversion Ht; subst. exists []. repeat split; constructor.
  - inversion Hc as [|d' e ds' combo' He Hc' E1 E2]; subst. simpl in Ht.
    inversion Ht as [|l x ls t' Hx Ht' E1 E2]; subst.
    destruct (IH combo' t' Hc' Ht') as (ys & -> & Hys & Hp).
    apply in_map_iff in Hx. destruct Hx as (y & <- & Hy).
    destruct e as [p l]. simpl in *.
    destruct (good_entry _ _ _ _ _ Hg He) as [_ Hm]. apply Hm in Hy. destruct Hy as (Hy1 & Hy2 & Hy3).
    exists (y :: ys). split; [reflexivity|]. split; [constructor; [split; assumption|assumption]|].
    unfold pars_of in *. simpl. congruence.
Qed.

Lemma combo_tuple_complete : forall KS ds, Forall2 goodks KS ds ->
  forall ys, Forall2 fits KS ys ->
    exists combo,
      Forall2 (fun (d : objects obj) e => In e d) ds combo /\
      Forall2 (fun (l : list (option obj)) x => In x l) (map (fun e : params * list obj => map Some (snd e)) combo) (map Some ys) /\
      map fst combo = pars_of (map fst KS) ys.
Proof.
  induction 1 as [|ks d KS ds Hg HF IH]; intros ys Hys.
  - inversion Hys; subst. exists []. repeat split; constructor.
  - inversion Hys as [|ks' y KS' ys' [Hy1 Hy2] Hys' E1 E2]; subst.
    destruct (IH ys' Hys') as (combo & Hc & Ht & Hp).
    destruct (good_entry_of_obj (fst ks) (snd ks) d (par (fst ks) y) y Hg) as (l & Hin & Hyl).
    { repeat split; assumption. }
    exists ((par (fst ks) y, l) :: combo). split; [constructor; assumption|]. split.
    + simpl. constructor; [apply in_map; assumption|assumption].
    + unfold pars_of in *. simpl. congruence.
Qed.

Lemma combo_unique : forall KS ds, Forall2 goodks KS ds ->
  forall combo combo' t,
    Forall2 (fun (d : objects obj) e => In e d) ds combo ->
    Forall2 (fun (d : objects obj) e => In e d) ds combo' ->
    Forall2 (fun (l : list (option obj)) x => In x l) (map (fun e : params * list obj => map Some (snd e)) combo) t ->
    Forall2 (fun (l : list (option obj)) x => In x l) (map (fun e : params * list obj => map Some (snd e)) combo') t ->
    combo = combo'.
Proof.
  induction 1 as [|ks d KS ds Hg HF IH]; intros combo combo' t Hc Hc' Ht Ht'.
  - inversion Hc; inversion Hc'; subst. reflexivity.
  - inversion Hc as [|d1 e ds1 c1 He Hc1 E1 E2]; subst.
    inversion Hc' as [|d2 e' ds2 c2 He' Hc2 E1 E2]; subst.
    simpl in Ht, Ht'.
    inversion Ht as [|l x ls t1 Hx Ht1 E1 E2]; subst.
    inversion Ht' as [|l' x' ls' t2 Hx' Ht2 E1 E2]; subst.
    f_equal; [|eapply IH; eassumption].
    apply in_map_iff in Hx. destruct Hx as (y & <- & Hy).
    apply in_map_iff in Hx'. destruct Hx' as (y' & E & Hy'). inversion E; subst y'.
    destruct e as [p l]. destruct e' as [p' l']. simpl in *.
    destruct (good_entry _ _ _ _ _ Hg He) as [_ Hm]. destruct (good_entry _ _ _ _ _ Hg He') as [_ Hm'].
    apply Hm in Hy. apply Hm' in Hy'. destruct Hy as (_ & _ & <-). destruct Hy' as (_ & _ & <-).
    f_equal. eapply NoDup_fst_unique; [apply Hg|eassumption|eassumption].
Qed.

Lemma in_comp_pairs maps ds q t :
  In (q, t) (comp_pairs maps ds) <->
  exists combo, Forall2 (fun (d : objects obj) e => In e d) ds combo /\
                q = new_param maps (map fst combo) /\
                Forall2 (fun (l : list (option obj)) x => In x l) (map (fun e : params * list obj => map Some (snd e)) combo) t.
Proof.
  unfold comp_pairs. rewrite in_flat_map. split.
  - intros (combo & Hc & Hin). apply in_cart in Hc. apply in_map_iff in Hin.
    destruct Hin as (t' & E & Ht'). inversion E; subst. apply in_cart in Ht'. eauto.
  - intros (combo & Hc & -> & Ht). exists combo. split; [apply in_cart; assumption|].
    apply in_map. apply in_cart. assumption.
Qed.

Lemma comp_pairs_spec maps KS ds :
  Forall2 goodks KS ds ->
  NoDup (comp_pairs maps ds) /\
  forall q t, In (q, t) (comp_pairs maps ds) <->
              exists ys, Forall2 fits KS ys /\ t = map Some ys /\
                         q = new_param maps (pars_of (map fst KS) ys).
Proof.
  intros HF. split.
  - unfold comp_pairs. apply NoDup_flat_map.
    + apply NoDup_cart. clear - HF. induction HF as [|ks d KS ds Hg HF IH]; constructor; [|assumption].
      apply NoDup_map_fst_entries. apply Hg.
    + intros combo Hc. apply in_cart in Hc.
      apply NoDup_map_inj; [|intros a b _ _ E; congruence].
      apply NoDup_cart. clear - HF Hc. revert combo Hc.
      induction HF as [|ks d KS ds Hg HF IH]; intros combo Hc; inversion Hc; subst; simpl; constructor.
      * destruct y as [p l]. destruct (good_entry _ _ _ _ _ Hg H1) as [Hl _]. simpl.
        apply NoDup_map_inj; [assumption|]. intros a b _ _ E. congruence.
      * apply IH. assumption.
    + intros combo combo' [q t] Hc Hc' Hy Hy'. apply in_cart in Hc. apply in_cart in Hc'.
      apply in_map_iff in Hy. destruct Hy as (t1 & E1 & Ht1). inversion E1; subst.
      apply in_map_iff in Hy'. destruct Hy' as (t2 & E2 & Ht2). inversion E2; subst.
      apply in_cart in Ht1. apply in_cart in Ht2.
      eapply combo_unique; eassumption.
  - intros q t. rewrite in_comp_pairs. split.
    + intros (combo & Hc & -> & Ht).
      destruct (combo_tuple_sound KS ds HF combo t Hc Ht) as (ys & -> & Hys & Hp).
      exists ys. rewrite Hp. auto.
    + intros (ys & Hys & -> & ->).
      destruct (combo_tuple_complete KS ds HF ys Hys) as (combo & Hc & Ht & Hp).
      exists combo. rewrite Hp. auto.
Qed.

(* small facts about combine *)
Lemma flat_map_combine_snd {A B C} (g : B -> list C) : forall (a : list A) (b : list B),
  length a = length b -> flat_map g b = flat_map (fun x : A * B => g (snd x)) (combine a b).
Proof.
  induction a as [|x a IH]; intros [|y b] H; simpl in *; try discriminate; [reflexivity|].
  f_equal. apply IH. lia.
Qed.

Lemma map_fst_combine {A B} : forall (a : list A) (b : list B),
  length a = length b -> map fst (combine a b) = a.
Proof.
  induction a as [|x a IH]; intros [|y b] H; simpl in *; try discriminate; [reflexivity|].
  f_equal. apply IH. lia.
Qed.

Lemma map_snd_combine {A B} : forall (a : list A) (b : list B),
  length a = length b -> map snd (combine a b) = b.
Proof.
  induction a as [|x a IH]; intros [|y b] H; simpl in *; try discriminate; [reflexivity|].
  f_equal. apply IH. lia.
Qed.

Lemma Forall2_combine_in {A B} (R : A -> B -> Prop) a b x y :
  Forall2 R a b -> In (x, y) (combine a b) -> R x y.
Proof.
  induction 1 as [|a0 b0 a b H HF IH]; simpl; [intros []|].
  intros [E|Hin]; [inversion E; subst; assumption|apply IH; assumption].
Qed.

Lemma in_combine_exists {A B} : forall (a : list A) (b : list B) x,
  length a = length b -> In x a -> exists y, In (x, y) (combine a b).
Proof.
  induction a as [|x0 a IH]; intros [|y0 b] x H Hin; simpl in *; try discriminate; [contradiction|].
  destruct Hin as [->|Hin]; [exists y0; left; reflexivity|].
  destruct (IH b x ltac:(lia) Hin) as (y & Hy). exists y. right. assumption.
Qed.

Lemma Forall2_fits_sizes : forall kids sizes ys,
  length kids = length sizes ->
  Forall2 fits (combine kids sizes) ys -> Forall2 In_cls kids ys /\ map size ys = sizes.
Proof.
  induction kids as [|k kids IH]; intros [|s sizes] ys Hl HF; simpl in *; try discriminate.
  - inversion HF; subst. split; [constructor|reflexivity].
  - inversion HF as [|ks y KS ys' [Hy1 Hy2] HF' E1 E2]; subst. simpl in *.
    destruct (IH sizes ys' ltac:(lia) HF') as [H1 H2]. split; [constructor; assumption|congruence].
Qed.

Lemma Forall2_fits_intro : forall kids ys,
  Forall2 In_cls kids ys -> Forall2 fits (combine kids (map size ys)) ys.
Proof.
  induction 1 as [|k y kids ys Hy HF IH]; simpl; constructor; [split; [assumption|reflexivity]|assumption].
Qed.

Lemma Forall2_through {A B C} (R : A -> B -> Prop) (S : A -> C -> Prop) (T : B -> C -> Prop) :
  (forall a b c, R a b -> S a c -> T b c) ->
  forall la lb lc, Forall2 R la lb -> Forall2 S la lc -> Forall2 T lb lc.
Proof.
  intros H la lb lc HR. revert lc. induction HR as [|a b la lb Hab HR IH]; intros lc HS; inversion HS; subst; constructor.
  - eapply H; eassumption.
  - apply IH. assumption.
Qed.

Lemma Forall2_map_r {A B C} (R : A -> C -> Prop) (f : B -> C) la lb :
  Forall2 (fun a b => R a (f b)) la lb -> Forall2 R la (map f lb).
Proof. induction 1; simpl; constructor; assumption. Qed.

Lemma Forall2_map_l {A B C} (R : C -> B -> Prop) (f : A -> C) la lb :
  Forall2 (fun a b => R (f a) b) la lb -> Forall2 R (map f la) lb.
Proof. induction 1; simpl; constructor; assumption. Qed.

(* the sizes handed to compositions are sound for the children: every object
   of child i has size >= mins_i and, if maxs_i is given, <= maxs_i
   (CartesianProduct.min_sizes / max_sizes: minimum_size_of_object, is_atom) *)
Definition bounds_ok (kids : list nat) (mins : list Z) (maxs : list (option Z)) : Prop :=
  Forall2 (fun k m => forall y, In_cls k y -> m <= size y) kids mins /\
  Forall2 (fun k M => forall y, In_cls k y -> bounded (size y) M) kids maxs /\
  Forall (fun m => 0 <= m) mins /\ (1 <= length kids)%nat.

(* C07_product_sub_objects *)
Theorem product_sub_objects_spec kids mins maxs maps n (per_comp : list (list (objects obj))) :
  bounds_ok kids mins maxs ->
  Forall2 (fun sizes ds => Forall2 goodks (combine kids sizes) ds)
          (compositions n (zlen kids) mins maxs) per_comp ->
  NoDup (pairs (product_yields maps per_comp)) /\
  forall q t, In (q, t) (pairs (product_yields maps per_comp)) <-> valid_p kids maps n q t.
Proof.
  intros (Hmin & Hmax & Hnn & Hk) HF.
  set (comps := compositions n (zlen kids) mins maxs) in *.
  assert (Hlen : length comps = length per_comp) by (eapply Forall2_length; eassumption).
  assert (Hlmin : zlen mins = zlen kids).
  { unfold zlen. f_equal. symmetry. eapply Forall2_length; eassumption. }
  assert (Hlmax : zlen maxs = zlen kids).
  { unfold zlen. f_equal. symmetry. eapply Forall2_length; eassumption. }
  assert (Hcomp : forall sizes, In sizes comps -> is_comp n (zlen kids) mins maxs sizes).
  { intros sizes Hin. apply compositions_sound; assumption. }
  assert (Hsz : forall sizes, In sizes comps -> length kids = length sizes).
  { intros sizes Hin. destruct (Hcomp sizes Hin) as (Hz & _). unfold zlen in Hz. lia. }
  rewrite pairs_product_yields, (flat_map_combine_snd (comp_pairs maps) comps per_comp Hlen).
  assert (Hgood : forall sizes ds, In (sizes, ds) (combine comps per_comp) ->
                                   Forall2 goodks (combine kids sizes) ds).
  { intros sizes ds Hin. exact (Forall2_combine_in _ _ _ _ _ HF Hin). }
  split.
  - apply NoDup_flat_map.
    + apply NoDup_map_fst_entries. rewrite map_fst_combine by assumption. apply compositions_nodup.
    + intros [sizes ds] Hin. simpl. apply (comp_pairs_spec maps (combine kids sizes) ds). apply Hgood. assumption.
    + intros [sizes ds] [sizes' ds'] [q t] Hin Hin' Hy Hy'. simpl in Hy, Hy'.
      apply (comp_pairs_spec maps _ _ (Hgood _ _ Hin)) in Hy.
      apply (comp_pairs_spec maps _ _ (Hgood _ _ Hin')) in Hy'.
      destruct Hy as (ys & Hys & -> & _). destruct Hy' as (ys' & Hys' & E & _).
      assert (ys' = ys).
      { clear - E. revert ys' E. induction ys as [|y ys IH]; intros [|y' ys'] E; simpl in *; try discriminate; [reflexivity|].
        inversion E; subst. f_equal. apply IH. assumption. }
      subst ys'.
      assert (Hs : In sizes comps) by (eapply in_combine_l; eassumption).
      assert (Hs' : In sizes' comps) by (eapply in_combine_l; eassumption).
      apply Forall2_fits_sizes in Hys; [|apply Hsz; assumption].
      apply Forall2_fits_sizes in Hys'; [|apply Hsz; assumption].
      destruct Hys as [_ <-]. destruct Hys' as [_ <-].
      f_equal. eapply NoDup_fst_unique; [|eassumption|eassumption].
      rewrite map_fst_combine by assumption. apply compositions_nodup.
  - intros q t. rewrite in_flat_map. split.
    + intros ([sizes ds] & Hin & Hqt). simpl in Hqt.
      apply (comp_pairs_spec maps _ _ (Hgood _ _ Hin)) in Hqt. destruct Hqt as (ys & Hys & -> & ->).
      assert (Hs : In sizes comps) by (eapply in_combine_l; eassumption).
      pose proof (Hsz sizes Hs) as Hl.
      apply Forall2_fits_sizes in Hys; [|assumption]. destruct Hys as [Hys Hsizes].
      exists ys. split; [assumption|]. split; [reflexivity|]. split.
      * rewrite Hsizes. apply (Hcomp sizes Hs).
      * rewrite map_fst_combine by assumption. reflexivity.
    + intros (ys & Hys & -> & Hsum & ->).
      set (sizes := map size ys).
      assert (Hl : length kids = length sizes).
      { unfold sizes. rewrite map_length. eapply Forall2_length; eassumption. }
      assert (Hs : In sizes comps).
      { apply compositions_complete; [unfold zlen; lia|assumption|].
        unfold is_comp. split; [unfold zlen; lia|]. split; [assumption|]. split.
        - unfold sizes. apply Forall2_map_r.
          refine (Forall2_through _ _ _ _ kids mins ys Hmin Hys).
          intros k m y Hm Hy. apply Hm. assumption.
        - unfold sizes. apply Forall2_map_l.
          refine (Forall2_through _ _ _ _ kids ys maxs Hys Hmax).
          intros k y M Hy HM. apply HM. assumption. }
      destruct (in_combine_exists comps per_comp sizes Hlen Hs) as (ds & Hin).
      exists (sizes, ds). split; [assumption|]. simpl.
      apply (comp_pairs_spec maps _ _ (Hgood _ _ Hin)).
      exists ys. split; [apply Forall2_fits_intro; assumption|]. split; [reflexivity|].
      rewrite map_fst_combine by assumption. reflexivity.
Qed.

(* the contract of a cartesian-product rule (parent c): fwd/bwd are mutually
   inverse between the parent's objects and the tuples with one object of
   every child; sizes add up; parameters are combined by _new_param *)
Definition product_contract (c : nat) (kids : list nat) (maps : list pmap)
           (fwd : obj -> subobj obj) (bwd : subobj obj -> list obj) : Prop :=
  (forall o, In_cls c o ->
     exists ys, fwd o = map Some ys /\ Forall2 In_cls kids ys /\
                size o = py_sum (map size ys) /\ par c o = new_param maps (pars_of kids ys) /\
                bwd (fwd o) = [o]) /\
  (forall ys, Forall2 In_cls kids ys ->
     exists o, bwd (map Some ys) = [o] /\ In_cls c o /\ fwd o = map Some ys).

Lemma map_Some_inj (a b : list obj) : map Some a = map Some b -> a = b.
Proof.
  revert b. induction a as [|x a IH]; intros [|y b] E; simpl in *; try discriminate; [reflexivity|].
  inversion E; subst. f_equal. apply IH. assumption.
Qed.

(* C07 per constructor: one level of a product rule *)
Theorem product_level_good c kids mins maxs maps fwd bwd n (per_comp : list (list (objects obj))) :
  product_contract c kids maps fwd bwd ->
  bounds_ok kids mins maxs ->
  Forall2 (fun sizes ds => Forall2 goodks (combine kids sizes) ds)
          (compositions n (zlen kids) mins maxs) per_comp ->
  good c n (build_level bwd (product_yields maps per_comp)).
Proof.
  intros [HP1 HP2] Hb HF.
  destruct (product_sub_objects_spec kids mins maxs maps n per_comp Hb HF) as [Hnd Hm].
  apply build_level_good with (fwd := fwd); [assumption| |].
  - intros q t Hin. apply Hm in Hin. destruct Hin as (ys & Hys & -> & Hsum & ->).
    destruct (HP2 ys Hys) as (o & Hbo & Ho & Hf). exists o. split; [assumption|]. split; [|assumption].
    destruct (HP1 o Ho) as (ys' & Hf' & _ & Hs' & Hp' & _).
    rewrite Hf in Hf'. apply map_Some_inj in Hf'. subst ys'.
    repeat split; congruence.
  - intros q o (Ho & Hs & Hp). destruct (HP1 o Ho) as (ys & Hf & Hys & Hsz & Hpar & Hbf).
    split; [|assumption]. apply Hm. exists ys. repeat split; try assumption; congruence.
Qed.

End Sem.
