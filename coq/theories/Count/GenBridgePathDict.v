(* The dictionary EquivalencePathRule.constructor composes along a path is computed
   by the expressions of the SOURCE.  Re-translated from strategies/rule.py
   (EquivalencePathRule.constructor) on every run:
     Gen/PathDictInitial.v      {k: k for k in self.comb_class.extra_parameters}
     Gen/PathDictCompose.v      {parent_var: rules_parameters[child_var]
                                 for parent_var, child_var in extra_parameters.items()
                                 if child_var in rules_parameters}
     Gen/PathDictInvert.v       {b: a for a, b in rules_parameters.items()}     (a reversed step)
     Gen/PathDictDuplicates.v   len(set(rules_parameters.values())) != len(rules_parameters.values())
   This file proves that Count/Constructors.v (dict_compose, dict_injective, the
   inversion and the identity dictionary of path_step) computes exactly those, for
   dictionaries with distinct keys (Python dictionaries always have distinct keys).
   A source edit of any of the four expressions changes the generated definitions
   and breaks these lemmas, hence the obligations of Props/C09.v. *)
From Coq Require Import ZArith List Bool Lia.
From CSS Require Import Gen.Prelude Count.Terms Count.Constructors Count.GenBridgeValidComps.
From CSS Require Import Gen.PathDictInitial Gen.PathDictCompose Gen.PathDictInvert Gen.PathDictDuplicates.
Import ListNotations.
Open Scope Z_scope.

(* d[k] / k in d of the model against the Prelude's *)
Lemma dict_get_dmem (d : dict) k : py_dmem d k = match dict_get d k with Some _ => true | None => false end.
Proof.
  unfold py_dmem. induction d as [|[a b] d IH]; cbn [existsb dict_get fst]; [reflexivity|].
  destruct (a =? k); [reflexivity|exact IH].
Qed.

Lemma dict_get_dget (d : dict) k x : dict_get d k = Some x -> py_dget 0 d k = x.
Proof.
  induction d as [|[a b] d IH]; cbn [py_dget dict_get]; [discriminate|].
  destruct (a =? k); [intros H; now inversion H|exact IH].
Qed.

(* the identity dictionary the path starts from *)
Lemma path_initial_is_source : forall names, NoDup names ->
  map (fun k => (k, k)) names = path_dict_initial names.
Proof. intros names H. unfold path_dict_initial. symmetry. now apply dict_of_tab. Qed.

Lemma nodup_fst_filter (g : Z * Z -> bool) : forall e : dict, NoDup (map fst e) -> NoDup (map fst (filter g e)).
Proof.
  induction e as [|[a b] e IH]; intros H; cbn [filter map fst]; [constructor|].
  inversion H as [|? ? Hnotin Hnd]; subst.
  destruct (g (a, b)); cbn [map fst]; [|apply IH, Hnd].
  constructor; [|apply IH, Hnd]. intros Hin. apply Hnotin.
  apply in_map_iff in Hin. destruct Hin as (x & <- & Hx). apply filter_In in Hx.
  apply in_map. exact (proj1 Hx).
Qed.

(* one step of the composition *)
Lemma dict_compose_is_source : forall e rp, NoDup (map fst e) ->
  dict_compose e rp = path_dict_compose e rp.
Proof.
  intros e rp H. unfold path_dict_compose. rewrite dict_of_nodup.
  - unfold dict_compose. clear H. induction e as [|[pv cv] e IH]; cbn [flat_map filter map fst snd]; [reflexivity|].
    rewrite dict_get_dmem. destruct (dict_get rp cv) as [x|] eqn:E; cbn [map app]; [|exact IH].
    rewrite (dict_get_dget rp cv x E). f_equal. exact IH.
  - rewrite map_map. erewrite map_ext; [apply (nodup_fst_filter _ e H)|]. intros [a b]. reflexivity.
Qed.

(* injectivity test and inversion of a reversed step *)
Lemma of_nat_eqb a b : (Z.of_nat a =? Z.of_nat b) = Nat.eqb a b.
Proof. destruct (Nat.eqb_spec a b) as [->|H]; [apply Z.eqb_refl|apply Z.eqb_neq; lia]. Qed.

Lemma set_of_len l : (length (py_set_of l) <= length l)%nat.
Proof. induction l as [|x t IH]; cbn [py_set_of length]; [lia|]. destruct (existsb (Z.eqb x) t); cbn [length]; lia. Qed.

Lemma injective_values (l : list Z) :
  (zlen (py_set_of l) =? zlen l) =
  (fix go (l : list Z) : bool :=
     match l with
     | [] => true
     | x :: r => negb (existsb (Z.eqb x) r) && go r
     end) l.
Proof.
  unfold zlen. rewrite of_nat_eqb. induction l as [|x t IH]; [reflexivity|].
  cbn [py_set_of]. destruct (existsb (Z.eqb x) t) eqn:E; cbn [negb andb length].
  - apply Nat.eqb_neq. pose proof (set_of_len t). lia.
  - cbn [Nat.eqb]. exact IH.
Qed.

Lemma dict_injective_is_source : forall d, dict_injective d = negb (path_dict_duplicates d).
Proof. intros d. unfold path_dict_duplicates, dict_injective. now rewrite negb_involutive, injective_values. Qed.

Lemma injective_nodup : forall l : list Z,
  (fix go (l : list Z) : bool :=
     match l with
     | [] => true
     | x :: r => negb (existsb (Z.eqb x) r) && go r
     end) l = true -> NoDup l.
Proof.
  induction l as [|x t IH]; intros H; [constructor|]. apply andb_prop in H. destruct H as [H1 H2].
  constructor; [|apply IH, H2]. intros Hin. apply negb_true_iff in H1.
  assert (existsb (Z.eqb x) t = true) by (apply existsb_exists; exists x; split; [exact Hin|apply Z.eqb_refl]).
  congruence.
Qed.

Lemma dict_invert_is_source : forall d, dict_injective d = true ->
  map (fun ab : Z * Z => (snd ab, fst ab)) d = path_dict_invert d.
Proof.
  intros d H. unfold path_dict_invert. rewrite dict_of_nodup.
  - apply map_ext. intros [a b]. reflexivity.
  - rewrite map_map. erewrite map_ext; [apply (injective_nodup (map snd d)), H|]. intros [a b]. reflexivity.
Qed.

(* EquivalencePathRule.constructor, one rule of the path *)
Lemma path_dict_step_is_source : forall e rev pn kids idx, NoDup (map fst e) ->
  path_dict_step (Ok e) (rev, pn, kids, idx) =
  match first_nonempty kids with
  | None => Err E_ASSERT
  | Some ci =>
      let d := k_dict (nth ci kids default_kid) in
      if rev then
        (if path_dict_duplicates d then Err E_NOTIMPL
         else Ok (path_dict_compose e (path_dict_invert d)))
      else Ok (path_dict_compose e d)
  end.
Proof.
  intros e rev pn kids idx H. cbn [path_dict_step bind].
  destruct (first_nonempty kids) as [ci|]; [|reflexivity]. cbv zeta.
  destruct rev.
  - rewrite dict_injective_is_source.
    destruct (path_dict_duplicates (k_dict (nth ci kids default_kid))) eqn:E; cbn [negb]; [reflexivity|].
    rewrite dict_invert_is_source by (rewrite dict_injective_is_source, E; reflexivity).
    now rewrite dict_compose_is_source.
  - now rewrite dict_compose_is_source.
Qed.
