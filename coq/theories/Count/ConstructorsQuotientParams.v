(* C09, Quotient with parameters, part 2: Quotient.get_terms of the model with extra parameters
   (self._num_parent_params > 0: the branch `sympy.div(a_poly, c_poly, domain="ZZ")`, modelled by
   the exact division poly_div) returns the flipped child's TRUE TABLE at every size and
   parameter tuple, by induction over the cache levels (Rule._ensure_level).

   What the code does at level n >= min_idx (cartesian.py Quotient._a/_c/_b/get_terms):
     a = parent's table at n + _parent_shift  minus  all compositions with the flipped child < n
       = (flipped child's table at n, in parent coordinates) * c          [the only composition left]
     c = product of the siblings' tables at their MINIMUM sizes (the only composition of _parent_shift)
     b = a / c  exactly,   result = b re-keyed through the parent map (Quotient.param_map).      *)
From Coq Require Import ZArith List Bool Lia.
From CSS Require Import Gen.Prelude Gen.Compositions Gen.QuotientParentShift
  Count.CompositionsSpec Count.Terms Count.Constructors Count.ConstructorsUnionProduct
  Count.ConstructorsComplement Count.ConstructorsQuotient Count.TermsPoly Count.TermsPolyOrder
  Count.TermsPolyDiv Count.ConstructorsConv.
Import ListNotations.
Open Scope Z_scope.
Local Opaque Z.mul.

(* ---------------------------------------------------------------- tables at a composition *)
Lemma tabs_at_length : forall (tabs : list (Z -> terms)) t, length t = length tabs -> length (tabs_at tabs t) = length tabs.
Proof. induction tabs as [|tab tabs IH]; intros [|x t] H; simpl in *; try lia. unfold tabs_at in *. simpl. rewrite IH; lia. Qed.

Lemma nth_tabs_at : forall idx (tabs : list (Z -> terms)) t, (idx < length tabs)%nat -> length t = length tabs ->
  nth idx (tabs_at tabs t) [] = nth idx tabs (fun _ => []) (nth idx t 0).
Proof.
  induction idx as [|i IH]; intros [|tab tabs] [|x t] Hi Hl; simpl in *; try lia; [reflexivity|].
  apply IH; lia.
Qed.

Lemma remove_at_tabs_at : forall idx (tabs : list (Z -> terms)) t, length t = length tabs ->
  remove_at idx (tabs_at tabs t) = tabs_at (remove_at idx tabs) (remove_at idx t).
Proof.
  induction idx as [|i IH]; intros [|tab tabs] [|x t] Hl; simpl in Hl; try lia; try reflexivity.
  rewrite tabs_at_cons, !remove_at_S, tabs_at_cons, IH by lia. reflexivity.
Qed.

Lemma tabs_at_replace_teq : forall idx (tabs : list (Z -> terms)) own t,
  (idx < length tabs)%nat -> length t = length tabs ->
  teq (own (nth idx t 0)) (nth idx tabs (fun _ => []) (nth idx t 0)) ->
  Forall2 teq (tabs_at (replace_at idx own tabs) t) (tabs_at tabs t).
Proof.
  assert (R : forall (tabs : list (Z -> terms)) t, Forall2 teq (tabs_at tabs t) (tabs_at tabs t)).
  { induction tabs as [|tab tabs IH]; intros [|x t]; try constructor; [apply teq_refl|apply IH]. }
  induction idx as [|i IH]; intros [|tab tabs] own [|x t] Hi Hl Ho; simpl in Hi, Hl; try lia.
  - rewrite replace_at_0, !tabs_at_cons. constructor; [exact Ho|apply R].
  - rewrite replace_at_S, !tabs_at_cons. constructor; [apply teq_refl|]. apply IH; [lia|lia|exact Ho].
Qed.

Lemma Forall2_remove_at {A B} (P : A -> B -> Prop) idx l l' : Forall2 P l l' -> Forall2 P (remove_at idx l) (remove_at idx l').
Proof.
  intros H. revert idx. induction H as [|x y l l' Hxy H IH]; intros idx.
  - unfold remove_at. rewrite !firstn_nil, !skipn_nil. constructor.
  - destruct idx as [|i]; [rewrite !remove_at_0; exact H|]. rewrite !remove_at_S. constructor; [exact Hxy|apply IH].
Qed.

Lemma Forall2_nth {A B} (P : A -> B -> Prop) da db : forall idx l l', Forall2 P l l' -> (idx < length l)%nat ->
  P (nth idx l da) (nth idx l' db).
Proof.
  induction idx as [|i IH]; intros l l' H Hi; inversion H; subst; simpl in Hi; try lia; simpl; [assumption|].
  apply IH; [assumption|lia].
Qed.

Lemma tget_rev t p : tget (rev t) p = tget t p.
Proof. induction t as [|e t IH]; simpl; [reflexivity|]. rewrite tget_app, IH. simpl. lia. Qed.

Lemma nonneg_rev t : nonneg t -> nonneg (rev t).
Proof. intros H k v Hin. apply in_rev in Hin. eapply H; eauto. Qed.

(* ---------------------------------------------------------------- the final loop of get_terms *)
Lemma existsb_key_false (acc : terms) k : ~ In k (map fst acc) -> existsb (fun e : entry => params_eqb (fst e) k) acc = false.
Proof.
  intros H. induction acc as [|[k' v'] acc IH]; simpl; [reflexivity|].
  destruct (params_eqb k' k) eqn:E.
  - apply params_eqb_eq in E. subst. exfalso. apply H. left. reflexivity.
  - apply IH. intros Hin. apply H. right. exact Hin.
Qed.

Lemma collect_ok ppm (g : params -> params) : forall (b acc : terms),
  (forall k v, In (k, v) b -> ppm k = Ok (g k)) ->
  NoDup (map g (map fst b)) ->
  (forall k v, In (k, v) b -> ~ In (g k) (map fst acc)) ->
  quotient_collect ppm b acc = Ok (rev (rekey g b) ++ acc).
Proof.
  induction b as [|[k v] b IH]; intros acc Hp Hnd Hfresh; simpl; [reflexivity|].
  rewrite (Hp k v (or_introl eq_refl)). simpl.
  rewrite existsb_key_false by (apply (Hfresh k v); left; reflexivity).
  inversion Hnd as [|? ? Hnotin Hnd']; subst.
  rewrite IH.
  - rewrite <- app_assoc. reflexivity.
  - intros k' v' Hin. apply (Hp k' v'). right. exact Hin.
  - exact Hnd'.
  - intros k' v' Hin Hx. simpl in Hx. destruct Hx as [E|Hin'].
    + apply Hnotin. rewrite E. apply in_map. apply in_map_iff. exists (k', v'). auto.
    + apply (Hfresh k' v'); [right; exact Hin|exact Hin'].
Qed.

Lemma nodup_map_inj' {A B} (f : A -> B) (l : list A) :
  (forall x y, In x l -> In y l -> f x = f y -> x = y) -> NoDup l -> NoDup (map f l).
Proof.
  intros Hinj. induction 1 as [|x l Hx Hnd IH]; simpl; [constructor|].
  constructor.
  - rewrite in_map_iff. intros (y & E & Hy). apply Hinj in E; [subst; contradiction|right; exact Hy|left; reflexivity].
  - apply IH. intros a b Ha Hb. apply Hinj; right; assumption.
Qed.

Lemma tget_rekey_nonzero f t q : tget (rekey f t) q <> 0 -> exists k v, In (k, v) t /\ f k = q.
Proof.
  intros H. destruct (tget_nonzero_in _ _ H) as (v & Hin). unfold rekey in Hin. apply in_map_iff in Hin.
  destruct Hin as ([k v'] & E & Hin). inversion E; subst. eauto.
Qed.

Lemma quotient_divide_pos num a c : (1 <= num)%nat -> quotient_divide num a c = poly_div a c.
Proof. intros H. destruct num; [lia|reflexivity]. Qed.

(* ---------------------------------------------------------------- the quotient with parameters *)
Section QuotientParams.
  Variable fs : list (params -> params).     (* the children's maps (child tuple -> parent tuple) *)
  Variable ppm : params -> res params.       (* Quotient._parent_param_map (parent tuple -> flipped child's tuple) *)
  Variable num : nat.                        (* number of parent parameters *)
  Variable cs : list (Z * bool).             (* (minimum size, is_atom) of the original product's children *)
  Variable idx : nat.
  Variable TP : Z -> terms.                  (* the original parent's true tables *)
  Variable tabs : list (Z -> terms).         (* the original children's true tables *)
  Variable Nmax : Z.                         (* levels 0..Nmax are computed *)

  Let mins := quotient_min_sizes cs.
  Let maxs := quotient_max_sizes cs.
  Let psh := quotient_parent_shift cs (Z.of_nat idx).
  Let tab_i := nth idx tabs (fun _ : Z => @nil entry).
  Let f_i := nth idx fs (fun k : params => k).
  Let min_i := nth idx mins 0.

  Hypothesis Hidx : (idx < length cs)%nat.
  Hypothesis Hk2 : (2 <= length cs)%nat.
  Hypothesis Htabs : length tabs = length cs.
  Hypothesis Hfsl : length fs = length cs.
  Hypothesis Hnum : (1 <= num)%nat.
  (* every child map produces tuples with one entry per parent parameter *)
  Hypothesis Hflen : Forall (fun f : params -> params => forall k, length (f k) = num) fs.
  Hypothesis Hmins : Forall (fun m => 0 <= m) mins.
  Hypothesis Hvanish : Vanish tabs mins maxs.
  Hypothesis Hnn : Forall (fun tab : Z -> terms => forall m, nonneg (tab m)) tabs.
  (* parameter values are non-negative (they become exponents of the polynomials) *)
  Hypothesis Hknn : Forall2 (fun (f : params -> params) (tab : Z -> terms) =>
                               forall m k v, In (k, v) (tab m) -> Forall (fun y => 0 <= y) (f k)) fs tabs.
  (* the product rule is genuine at the sizes that are read *)
  Hypothesis Hgen : forall m, 0 <= m <= Nmax + psh -> product_genuine fs tabs (TP m) m.
  (* every sibling has an object of its minimum size *)
  Hypothesis Hsib : hprod (remove_at idx tabs) (remove_at idx mins) <> 0.
  (* the parent map sends the image of a tuple of the flipped child back to that tuple *)
  Hypothesis Hround : forall m k v, In (k, v) (tab_i m) -> ppm (f_i k) = Ok k.

  Let Lmins : length mins = length cs.
  Proof. unfold mins, quotient_min_sizes. apply map_length. Qed.
  Let Lmaxs : length maxs = length cs.
  Proof. unfold maxs, quotient_max_sizes. apply map_length. Qed.

  Let psh_eq : psh = py_sum mins - min_i.
  Proof. unfold psh, quotient_parent_shift. fold mins. rewrite ConstructorsQuotient.py_get_nat by lia. reflexivity. Qed.

  Let min_i_nonneg : 0 <= min_i.
  Proof. apply Forall_nth_nonneg. exact Hmins. Qed.

  Let psh_nonneg : 0 <= psh.
  Proof.
    rewrite psh_eq. unfold min_i. rewrite <- py_sum_remove_at by lia.
    assert (G : forall l, Forall (fun m => 0 <= m) l -> 0 <= py_sum l).
    { induction l as [|x l IHl]; intros H; [unfold py_sum; simpl; lia|]. inversion H; subst. rewrite py_sum_cons. specialize (IHl H3). lia. }
    apply G. apply Forall_remove_at. exact Hmins.
  Qed.

  Let Hidx_tabs : (idx < length tabs)%nat.
  Proof. rewrite Htabs. exact Hidx. Qed.

  Let zk : zlen tabs = Z.of_nat (length cs).
  Proof. unfold zlen. lia. Qed.

  Let fi_len : forall k, length (f_i k) = num.
  Proof. intros k. rewrite Forall_forall in Hflen. apply Hflen. unfold f_i. apply nth_In. lia. Qed.

  (* the parent's table = the sum over ALL compositions *)
  Let parent_table : forall m p, 0 <= m <= Nmax + psh ->
    tget (TP m) p = zsum (fun t => tget (comp_table fs tabs t) p)
                         (compositions m (zlen tabs) (zeros (zlen tabs)) (nones (zlen tabs))).
  Proof. intros m p Hm. rewrite (Hgen m Hm p). apply product_table_tget. Qed.

  (* the siblings' table at their minimum sizes *)
  Let c0 := ctab (remove_at idx fs) (tabs_at (remove_at idx tabs) (remove_at idx mins)).

  Let Hprops : Forall2 (fun (f : params -> params) (tab : Z -> terms) =>
                 forall m k0 v0, In (k0, v0) (tab m) -> length (f k0) = num /\ Forall (fun y => 0 <= y) (f k0)) fs tabs.
  Proof.
    clear -Hknn Hflen. induction Hknn as [|f tab fs' tabs' H HF IH]; [constructor|].
    inversion Hflen as [|? ? Hf1 Hf2]; subst. constructor; [|apply IH; assumption].
    intros m k0 v0 Hin. split; [apply Hf1|eapply H; eauto].
  Qed.

  Let tabs_at_props : forall (fl : list (params -> params)) (tl : list (Z -> terms)) sizes,
    Forall2 (fun (f : params -> params) (tab : Z -> terms) =>
               forall m k0 v0, In (k0, v0) (tab m) -> length (f k0) = num /\ Forall (fun y => 0 <= y) (f k0)) fl tl ->
    length sizes = length tl ->
    Forall2 (fun (f : params -> params) (t : terms) =>
               forall k0 v0, In (k0, v0) t -> length (f k0) = num /\ Forall (fun y => 0 <= y) (f k0)) fl (tabs_at tl sizes).
  Proof.
    intros fl tl sizes H. revert sizes. induction H as [|f tab fl' tl' Hf H IH]; intros [|s sizes] Hl; simpl in Hl; try lia.
    - constructor.
    - rewrite tabs_at_cons. constructor; [intros k0 v0 Hin; eapply Hf; eauto|apply IH; lia].
  Qed.

  Let c0_slen : slen num c0.
  Proof.
    intros k Hk. destruct (tget_nonzero_in _ _ Hk) as (v & Hin).
    apply (ctab_key_props num (remove_at idx fs) _ k v) in Hin; [tauto| | |].
    - rewrite tabs_at_length; pose proof (remove_at_length idx fs ltac:(lia));
        pose proof (remove_at_length idx tabs ltac:(lia)); pose proof (remove_at_length idx mins ltac:(lia)); lia.
    - rewrite tabs_at_length; pose proof (remove_at_length idx tabs ltac:(lia)); pose proof (remove_at_length idx mins ltac:(lia)); lia.
    - apply tabs_at_props; [apply Forall2_remove_at; exact Hprops|].
      pose proof (remove_at_length idx tabs ltac:(lia)); pose proof (remove_at_length idx mins ltac:(lia)); lia.
  Qed.

  Let c0_snonneg : snonneg c0.
  Proof.
    intros k Hk. destruct (tget_nonzero_in _ _ Hk) as (v & Hin).
    apply (ctab_key_props num (remove_at idx fs) _ k v) in Hin; [tauto| | |].
    - rewrite tabs_at_length; pose proof (remove_at_length idx fs ltac:(lia));
        pose proof (remove_at_length idx tabs ltac:(lia)); pose proof (remove_at_length idx mins ltac:(lia)); lia.
    - rewrite tabs_at_length; pose proof (remove_at_length idx tabs ltac:(lia)); pose proof (remove_at_length idx mins ltac:(lia)); lia.
    - apply tabs_at_props; [apply Forall2_remove_at; exact Hprops|].
      pose proof (remove_at_length idx tabs ltac:(lia)); pose proof (remove_at_length idx mins ltac:(lia)); lia.
  Qed.

  Let c0_nonneg : nonneg c0.
  Proof. unfold c0, ctab. apply combo_table_nonneg. apply tabs_at_nonneg. apply Forall_remove_at. exact Hnn. Qed.

  Let c0_nonzero : ~ pzero c0.
  Proof.
    intros H. apply Hsib. unfold hprod. rewrite <- (tsum_combo_table (remove_at idx fs)). apply pzero_tsum. exact H.
  Qed.

  Lemma quotient_level_p own n :
    0 <= n <= Nmax -> (forall m, nonneg (own m)) ->
    (forall m, 0 <= m < n -> teq (own m) (tab_i m)) ->
    exists r, quotient_get_terms fs ppm num cs idx TP (replace_at idx own tabs) n = Ok r /\
              nonneg r /\ teq r (tab_i n).
  Proof.
    intros Hn0 Hown_nn Hown.
    unfold quotient_get_terms. fold mins maxs psh.
    rewrite ConstructorsQuotient.py_get_nat by lia. fold min_i.
    destruct (n <? min_i) eqn:Hlt.
    - exists []. split; [reflexivity|]. split; [intros ? ? []|].
      intros p. simpl. symmetry. apply tget_allzero. unfold tab_i.
      eapply Vanish_nth; [exact Hvanish|lia|]. left. fold min_i. lia.
    - assert (Hge : min_i <= n) by lia. clear Hlt.
      set (tabs' := replace_at idx own tabs).
      set (N := n + psh).
      set (maxs_a := replace_at idx (Some (n - 1)) maxs).
      set (Ea := product_table fs mins maxs_a tabs' N).
      set (kk := zlen tabs).
      set (ALL := compositions N kk (zeros kk) (nones kk)).
      set (tstar := replace_at idx n mins).
      assert (HN : 0 <= N <= Nmax + psh) by (unfold N; lia).
      assert (Ltabs' : length tabs' = length cs) by (unfold tabs'; rewrite replace_at_length; lia).
      assert (Hzk' : zlen tabs' = kk) by (unfold kk, zlen; lia).
      assert (Hkk : kk = Z.of_nat (length cs)) by exact zk.
      assert (Hnn' : Forall (fun tab : Z -> terms => forall m, nonneg (tab m)) tabs')
        by (apply Forall_replace_at; assumption).
      (* the subtracted part, in terms of the TRUE tables *)
      assert (HEa : forall p, tget Ea p =
                zsum (fun t => if in_bounds mins maxs_a t then tget (comp_table fs tabs t) p else 0) ALL).
      { intros p. unfold Ea. rewrite product_table_tget, Hzk'.
        rewrite (zsum_compositions_pruned _ N kk mins maxs_a);
          [|lia|unfold zlen; lia|unfold zlen, maxs_a; rewrite replace_at_length; lia|exact Hmins].
        apply zsum_ext. intros t Hin. destruct (in_bounds mins maxs_a t) eqn:Hb; [|reflexivity].
        assert (Lt : length t = length tabs).
        { apply all_comps_length in Hin; [|lia]. unfold zlen in Hin. lia. }
        rewrite !comp_table_ctab. apply ctab_teq.
        - rewrite tabs_at_length; unfold tabs'; rewrite ?replace_at_length; lia.
        - unfold tabs'. apply tabs_at_replace_teq; [exact Hidx_tabs|exact Lt|]. fold tab_i. apply Hown.
          pose proof (in_bounds_replace_true idx mins maxs t (n - 1) Hb ltac:(lia)).
          pose proof (Forall2_le_nth idx mins t (in_bounds_lower _ _ _ Hb) ltac:(lia)). fold min_i in H0. lia. }
      (* what remains: the single composition with the flipped child at size n *)
      assert (Lstar : length tstar = length cs) by (unfold tstar; rewrite replace_at_length; lia).
      assert (Hstar_in : In tstar ALL).
      { unfold ALL. apply compositions_complete; [lia|apply Forall_zeros|].
        unfold is_comp. split; [unfold zlen; lia|]. split.
        - unfold tstar. rewrite py_sum_replace_at by lia. fold min_i. unfold N. lia.
        - split.
          + unfold zeros. rewrite Hkk, Nat2Z.id, <- Lstar.
            apply (Forall2_zeros_le tstar tstar); [|apply Forall2_le_refl].
            unfold tstar. apply Forall_replace_at; [lia|exact Hmins].
          + unfold nones. rewrite Hkk, Nat2Z.id, <- Lstar. apply Forall2_bounded_nones. }
      assert (HD : forall p, tget (TP N) p - tget Ea p = tget (comp_table fs tabs tstar) p).
      { intros p. rewrite parent_table by exact HN. rewrite HEa. fold kk. fold ALL. rewrite <- zsum_minus.
        rewrite (zsum_single _ ALL tstar); [| apply compositions_nodup | exact Hstar_in |].
        - destruct (in_bounds mins maxs_a tstar) eqn:Hb; [|lia].
          exfalso. pose proof (in_bounds_replace_true idx mins maxs tstar (n - 1) Hb ltac:(lia)) as H.
          unfold tstar in H. rewrite nth_replace_at in H by lia. lia.
        - intros y Hy Hne.
          assert (Ly : length y = length tabs).
          { apply all_comps_length in Hy; [|lia]. unfold zlen in Hy. lia. }
          destruct (in_bounds mins maxs_a y) eqn:Hb; [lia|].
          destruct (in_bounds mins maxs y) eqn:Hb0.
          + exfalso. apply Hne. unfold tstar. apply comp_is_special.
            * apply in_bounds_lower with (maxs := maxs). exact Hb0.
            * lia.
            * pose proof (in_bounds_replace_false idx mins maxs y (n - 1) Hb0 Hb ltac:(lia)). lia.
            * apply compositions_sound in Hy; [|apply zlen_repeat; lia|apply zlen_repeat; lia].
              destruct Hy as (_ & S & _). rewrite S. fold min_i. unfold N. lia.
          + rewrite (tget_allzero (comp_table fs tabs y) p); [lia|].
            unfold comp_table. apply combo_table_allzero. eapply Vanish_exists_zero; eauto. }
      (* that composition's table = (flipped child's table at n, in parent coordinates) * c0 *)
      set (B := rekey f_i (tab_i n)).
      assert (HBc : forall p, tget (comp_table fs tabs tstar) p = tget (pmul B c0) p).
      { intros p. rewrite comp_table_ctab.
        rewrite (ctab_extract num idx fs (tabs_at tabs tstar) p);
          [| rewrite tabs_at_length; lia | rewrite tabs_at_length; lia | rewrite tabs_at_length; lia | exact Hflen].
        rewrite nth_tabs_at by lia. unfold tstar at 1. rewrite nth_replace_at by lia.
        rewrite remove_at_tabs_at by lia. unfold tstar. rewrite remove_replace_at by lia. reflexivity. }
      assert (HB_nn : nonneg B).
      { unfold B. apply nonneg_rekey. unfold tab_i. rewrite Forall_forall in Hnn.
        destruct (nth_in_or_default idx tabs (fun _ : Z => @nil entry)) as [Hin|Hd].
        - apply (Hnn _ Hin).
        - rewrite Hd. intros ? ? []. }
      (* _a *)
      assert (HEa_nn : nonneg Ea) by (apply product_table_nonneg; exact Hnn').
      destruct (acc_entries_sub Ea (TP N) HEa_nn) as (a & Ha & Haq).
      { intros q. rewrite HD, HBc. apply tget_nonneg. apply nonneg_pmul; assumption. }
      rewrite Ha. simpl bind.
      (* _c *)
      destruct (Nat.eqb_spec (length cs) 1) as [Hone|_]; [lia|].
      set (Ec := product_table (remove_at idx fs) (remove_at idx mins) (remove_at idx maxs)
                   (remove_at idx tabs') psh).
      assert (Htabs'' : remove_at idx tabs' = remove_at idx tabs)
        by (unfold tabs'; apply remove_replace_at; lia).
      assert (HEc_nn : nonneg Ec).
      { apply product_table_nonneg. rewrite Htabs''. apply Forall_remove_at. exact Hnn. }
      destruct (acc_entries_add Ec [] HEc_nn) as (c & Hc & Hcq); [intros q; simpl; lia|].
      rewrite Hc. simpl bind.
      assert (HEc : forall q, tget Ec q = tget c0 q).
      { intros q. unfold Ec. rewrite product_table_tget, Htabs''.
        set (cs' := remove_at idx cs).
        assert (Emins : remove_at idx mins = quotient_min_sizes cs')
          by (unfold mins, quotient_min_sizes, cs'; symmetry; apply map_remove_at).
        assert (Emaxs : remove_at idx maxs = quotient_max_sizes cs')
          by (unfold maxs, quotient_max_sizes, cs'; symmetry; apply map_remove_at).
        assert (Lr : S (length (remove_at idx tabs)) = length cs) by (rewrite remove_at_length; lia).
        assert (Lm' : S (length (remove_at idx mins)) = length cs) by (rewrite remove_at_length; lia).
        assert (LM' : S (length (remove_at idx maxs)) = length cs) by (rewrite remove_at_length; lia).
        assert (Hsum' : py_sum (remove_at idx mins) = psh)
          by (rewrite py_sum_remove_at by lia; fold min_i; lia).
        assert (Hmins' : Forall (fun m => 0 <= m) (remove_at idx mins)) by (apply Forall_remove_at; exact Hmins).
        rewrite (zsum_single _ _ (remove_at idx mins)).
        - reflexivity.
        - apply compositions_nodup.
        - apply compositions_complete; [unfold zlen; lia|exact Hmins'|].
          unfold is_comp. split; [unfold zlen; lia|]. split; [exact Hsum'|]. split; [apply Forall2_le_refl|].
          rewrite Emins, Emaxs. apply Forall2_min_max_bounded.
        - intros y Hy Hne. exfalso. apply Hne.
          apply compositions_sound in Hy; [|unfold zlen; lia|unfold zlen; lia].
          destruct Hy as (_ & S & Hle & _). symmetry. apply Forall2_le_eq; [exact Hle|lia]. }
      assert (Hc0 : teq c c0) by (intros q; rewrite Hcq, HEc; simpl; lia).
      (* _b: the division is exact and returns B *)
      assert (Hdiv : exists b, quotient_divide num a c = Ok b /\ canon b /\ teq b B).
      { rewrite quotient_divide_pos by exact Hnum.
        apply (poly_div_exact num a c B).
        - intros k Hk. destruct (tget_rekey_nonzero _ _ _ Hk) as (k0 & v0 & _ & <-). apply fi_len.
        - eapply slen_teq; [apply teq_sym; exact Hc0|exact c0_slen].
        - intros k Hk. destruct (tget_rekey_nonzero _ _ _ Hk) as (k0 & v0 & Hin & <-).
          apply (Forall2_nth _ (fun k => k) (fun _ => []) idx fs tabs Hknn ltac:(lia) n k0 v0). exact Hin.
        - eapply snonneg_teq; [apply teq_sym; exact Hc0|exact c0_snonneg].
        - intros p. apply tget_nonneg. exact HB_nn.
        - intros p. rewrite (Hc0 p). apply tget_nonneg. exact c0_nonneg.
        - intros Hz. apply c0_nonzero. intros p. rewrite <- (Hc0 p). apply Hz.
        - intros p. rewrite Haq, HD, HBc. apply pmul_teq_r. apply teq_sym. exact Hc0. }
      destruct Hdiv as (b & Hb & Cb & HbB). rewrite Hb. simpl bind.
      (* the final loop: re-keying b through the parent map *)
      set (g := fun k : params => match ppm k with Ok k' => k' | Err _ => [] end).
      assert (Hkeys : forall k v, In (k, v) b -> exists k0 v0, In (k0, v0) (tab_i n) /\ f_i k0 = k).
      { intros k v Hin. apply (tget_rekey_nonzero f_i (tab_i n) k). fold B. rewrite <- (HbB k).
        rewrite (tget_ssorted_in b k v (proj1 Cb) Hin). apply (proj2 Cb k v Hin). }
      assert (Hg : forall k0 v0, In (k0, v0) (tab_i n) -> g (f_i k0) = k0).
      { intros k0 v0 Hin. unfold g. rewrite (Hround n k0 v0 Hin). reflexivity. }
      rewrite (collect_ok ppm g b []).
      + exists (rev (rekey g b) ++ []). split; [reflexivity|]. rewrite app_nil_r. split.
        * apply nonneg_rev. apply nonneg_rekey. intros k v Hin.
          rewrite <- (tget_ssorted_in b k v (proj1 Cb) Hin), (HbB k). apply tget_nonneg. exact HB_nn.
        * intros q. rewrite tget_rev. rewrite (tget_rekey_ext g b B HbB q). unfold B. rewrite rekey_rekey.
          rewrite (rekey_id_in (fun k => g (f_i k)) (tab_i n) Hg). reflexivity.
      + intros k v Hin. destruct (Hkeys k v Hin) as (k0 & v0 & Hin0 & <-).
        rewrite (Hround n k0 v0 Hin0). rewrite (Hg k0 v0 Hin0). reflexivity.
      + apply nodup_map_inj'; [|apply ssorted_nodup_keys; exact (proj1 Cb)].
        intros x y Hx Hy E. apply in_map_iff in Hx. destruct Hx as ([kx vx] & <- & Hx).
        apply in_map_iff in Hy. destruct Hy as ([ky vy] & <- & Hy). simpl in *.
        destruct (Hkeys kx vx Hx) as (k1 & v1 & H1 & <-). destruct (Hkeys ky vy Hy) as (k2 & v2 & H2 & <-).
        rewrite (Hg k1 v1 H1), (Hg k2 v2 H2) in E. subst. reflexivity.
      + intros k v _ [].
  Qed.

  (* Rule._ensure_level: every level is computed without an exception and is correct *)
  Definition qstep_p : (Z -> terms) -> Z -> res terms :=
    fun own n => quotient_get_terms fs ppm num cs idx TP (replace_at idx own tabs) n.

  Definition good_level_p (r : terms) (m : nat) : Prop := nonneg r /\ teq r (tab_i (Z.of_nat m)).

  Lemma quotient_levels_from_p : forall todo (cache : list terms) n,
    n = Z.of_nat (length cache) -> n + Z.of_nat todo <= Nmax + 1 ->
    (forall m, (m < length cache)%nat -> good_level_p (nth m cache []) m) ->
    exists tl : list terms, levels_from qstep_p cache n todo = (tl, None) /\
               length tl = (length cache + todo)%nat /\
               forall m, (m < length tl)%nat -> good_level_p (nth m tl []) m.
  Proof.
    induction todo as [|todo IH]; intros cache n Hn Hmax Hgood.
    - exists cache. simpl. split; [reflexivity|split; [lia|exact Hgood]].
    - simpl levels_from.
      match goal with |- context [qstep_p ?o n] => set (own := o) end.
      destruct (quotient_level_p own n) as (r & Hr & Hnnr & Hs).
      + lia.
      + intros m. unfold own. destruct (m <? 0); [intros ? ? []|].
        destruct (Nat.lt_ge_cases (Z.to_nat m) (length cache)) as [Hlt|Hge].
        * apply (Hgood _ Hlt).
        * rewrite nth_overflow by exact Hge. intros ? ? [].
      + intros m Hm. unfold own. replace (m <? 0) with false by lia.
        destruct (Hgood (Z.to_nat m) ltac:(lia)) as (_ & E). rewrite Z2Nat.id in E by lia. exact E.
      + unfold qstep_p at 1. rewrite Hr.
        destruct (IH (cache ++ [r]) (n + 1)) as (tl & Htl & Hlen & Hall).
        * rewrite app_length. simpl. lia.
        * lia.
        * intros m Hm. rewrite app_length in Hm. simpl in Hm.
          destruct (Nat.lt_ge_cases m (length cache)) as [Hlt|Hge].
          -- rewrite app_nth1 by exact Hlt. apply Hgood. exact Hlt.
          -- assert (m = length cache) by lia. subst m. rewrite app_nth2 by lia.
             rewrite Nat.sub_diag. simpl. split; [exact Hnnr|]. rewrite <- Hn. exact Hs.
        * exists tl. split; [exact Htl|]. split; [|exact Hall]. rewrite Hlen, app_length. simpl. lia.
  Qed.

  Theorem quotient_params_correct :
    0 <= Nmax ->
    exists tl : list terms, levels qstep_p Nmax = (tl, None) /\ length tl = Z.to_nat (Nmax + 1) /\
      forall m, (m < length tl)%nat -> teq (nth m tl []) (tab_i (Z.of_nat m)).
  Proof.
    intros HN. unfold levels.
    destruct (quotient_levels_from_p (Z.to_nat (Nmax + 1)) [] 0) as (tl & H1 & H2 & H3).
    - reflexivity.
    - lia.
    - intros m Hm. simpl in Hm. lia.
    - exists tl. split; [exact H1|]. split; [simpl in H2; exact H2|].
      intros m Hm. destruct (H3 m Hm) as (_ & B). exact B.
  Qed.
End QuotientParams.
