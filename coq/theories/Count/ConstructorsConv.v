(* C09, Quotient with parameters, part 1: the table CartesianProduct/Quotient build for ONE
   composition of sizes (all combinations of the children's entries, parameters added through
   the children's maps) read as a product of polynomials:
     - it only depends on the MEANING of the children's tables (ctab_teq),
     - the factor of any child idx can be pulled out:  table = (re-keyed table of child idx) * (table
       of the remaining children)   (ctab_extract).                                            *)
From Coq Require Import ZArith List Bool Lia.
From CSS Require Import Gen.Prelude Count.Terms Count.Constructors Count.ConstructorsUnionProduct
  Count.ConstructorsComplement Count.ConstructorsQuotient Count.TermsPoly.
Import ListNotations.
Open Scope Z_scope.

(* the entries for a fixed list of child tables *)
Definition ctab (fs : list (params -> params)) (tl : list terms) : terms := map (combo_entry fs) (combos tl).

Lemma comp_table_ctab fs tabs sizes : comp_table fs tabs sizes = ctab fs (tabs_at tabs sizes).
Proof. reflexivity. Qed.

Definition acc_key (fs : list (params -> params)) (ks : list params) (k0 : params) : params :=
  fold_left zip_add (map2 (fun f k => f k) fs ks) k0.

(* sum over all combinations, starting from the exponent tuple k0 *)
Fixpoint conv (fs : list (params -> params)) (tl : list terms) (k0 q : params) : Z :=
  match fs, tl with
  | f :: fs', t :: tl' => zsum (fun e : entry => snd e * conv fs' tl' (zip_add k0 (f (fst e))) q) t
  | _, _ => if params_eqb k0 q then 1 else 0
  end.

Lemma my_Forall2_length {A B} (R : A -> B -> Prop) l l' : Forall2 R l l' -> length l = length l'.
Proof. induction 1; simpl; lia. Qed.

Lemma zprod_cons v vs : zprod (v :: vs) = v * zprod vs.
Proof. reflexivity. Qed.

Lemma conv_spec : forall fs tl, length fs = length tl -> forall k0 v0 q,
  zsum (fun c : list entry => if params_eqb (acc_key fs (map fst c) k0) q then v0 * zprod (map snd c) else 0)
       (combos tl) = v0 * conv fs tl k0 q.
Proof.
  induction fs as [|f fs IH]; intros [|t tl] Hl k0 v0 q; simpl in Hl; try discriminate.
  - simpl. unfold acc_key, zprod. simpl. destruct (params_eqb k0 q); lia.
  - simpl combos. rewrite zsum_flat_map. simpl conv. rewrite <- zsum_scale.
    apply zsum_ext. intros [k v] _. rewrite zsum_map. simpl fst. simpl snd.
    transitivity ((v0 * v) * conv fs tl (zip_add k0 (f k)) q); [|ring].
    rewrite <- (IH tl ltac:(lia) (zip_add k0 (f k)) (v0 * v) q).
    apply zsum_ext. intros c _. simpl map. rewrite zprod_cons.
    change (acc_key (f :: fs) (k :: map fst c) k0) with (acc_key fs (map fst c) (zip_add k0 (f k))).
    destruct (params_eqb _ q); ring.
Qed.

Lemma tget_ctab f fs t tl q : length fs = length tl ->
  tget (ctab (f :: fs) (t :: tl)) q = zsum (fun e : entry => snd e * conv fs tl (f (fst e)) q) t.
Proof.
  intros Hl. unfold ctab. rewrite tget_zsum, zsum_map. simpl combos. rewrite zsum_flat_map.
  apply zsum_ext. intros [k v] _. rewrite zsum_map. simpl fst. simpl snd.
  rewrite <- (conv_spec fs tl Hl (f k) v q). apply zsum_ext. intros c _.
  unfold combo_entry. simpl fst. simpl snd. simpl map. reflexivity.
Qed.

Lemma conv_teq : forall fs tl tl' k0 q, Forall2 teq tl tl' -> conv fs tl k0 q = conv fs tl' k0 q.
Proof.
  induction fs as [|f fs IH]; intros tl tl' k0 q H.
  - destruct tl, tl'; reflexivity.
  - inversion H as [|t t' r r' Ht Hr]; subst; [reflexivity|]. simpl.
    transitivity (zsum (fun e : entry => snd e * conv fs r' (zip_add k0 (f (fst e))) q) t).
    + apply zsum_ext. intros e _. rewrite (IH r r' _ q Hr). reflexivity.
    + apply (zsum_lin_teq (fun k => conv fs r' (zip_add k0 (f k)) q) t t' Ht).
Qed.

(* the table only depends on what the children's tables mean *)
Lemma ctab_teq fs tl tl' : length fs = length tl -> Forall2 teq tl tl' -> teq (ctab fs tl) (ctab fs tl').
Proof.
  intros Hl H q. destruct fs as [|f fs].
  - destruct tl; [|discriminate]. inversion H; subst. reflexivity.
  - inversion H as [|t t' r r' Ht Hr E1 E2]; subst; [discriminate|]. simpl in Hl.
    assert (Hl' : length fs = length r') by (apply my_Forall2_length in Hr; lia).
    rewrite !tget_ctab by lia.
    transitivity (zsum (fun e : entry => snd e * conv fs r' (f (fst e)) q) t).
    + apply zsum_ext. intros e _. rewrite (conv_teq fs r r' _ q Hr). reflexivity.
    + apply (zsum_lin_teq (fun k => conv fs r' (f k) q) t t' Ht).
Qed.

Lemma zip_add_swap k0 a b : zip_add (zip_add k0 a) b = zip_add (zip_add k0 b) a.
Proof. rewrite !zip_add_assoc, (zip_add_comm a b). reflexivity. Qed.

(* pulling the factor of child idx out of the sum over all combinations *)
Lemma conv_extract : forall idx fs tl k0 q, length fs = length tl -> (idx < length tl)%nat ->
  conv fs tl k0 q =
  zsum (fun e : entry => snd e * conv (remove_at idx fs) (remove_at idx tl)
                                      (zip_add k0 (nth idx fs (fun k => k) (fst e))) q) (nth idx tl []).
Proof.
  induction idx as [|i IH]; intros [|f fs] [|t tl] k0 q Hl Hi; simpl in Hl, Hi; try lia.
  - reflexivity.
  - rewrite !remove_at_S. simpl nth. simpl conv at 1.
    transitivity (zsum (fun e : entry => zsum (fun e' : entry =>
        snd e * (snd e' * conv (remove_at i fs) (remove_at i tl)
                               (zip_add (zip_add k0 (f (fst e))) (nth i fs (fun k => k) (fst e'))) q)) (nth i tl [])) t).
    + apply zsum_ext. intros e _. rewrite (IH fs tl _ q) by lia. rewrite <- zsum_scale. reflexivity.
    + rewrite zsum_swap. apply zsum_ext. intros e' _. simpl conv. rewrite <- zsum_scale.
      apply zsum_ext. intros e _. rewrite (zip_add_swap k0 (f (fst e))). ring.
Qed.

Lemma fold_zip_add_shift : forall l x y, zip_add x (fold_left zip_add l y) = fold_left zip_add l (zip_add x y).
Proof. induction l as [|z l IH]; intros x y; simpl; [reflexivity|]. rewrite IH, zip_add_assoc. reflexivity. Qed.

(* multiplying by the table of a non-empty list of children *)
Lemma tget_pmul_ctab B f fs t tl p : length fs = length tl ->
  tget (pmul B (ctab (f :: fs) (t :: tl))) p = zsum (fun eb : entry => snd eb * conv (f :: fs) (t :: tl) (fst eb) p) B.
Proof.
  intros Hl. rewrite tget_pmul. apply zsum_ext. intros [kb vb] _. simpl fst. simpl snd. f_equal.
  assert (Hl' : length (f :: fs) = length (t :: tl)) by (simpl; lia).
  rewrite <- (Z.mul_1_l (conv (f :: fs) (t :: tl) kb p)), <- (conv_spec (f :: fs) (t :: tl) Hl' kb 1 p).
  unfold ctab, rekey. rewrite map_map, tget_zsum, zsum_map. simpl fst. simpl snd.
  apply zsum_ext. intros c Hc. apply combos_cons_inv in Hc. destruct Hc as ([k v] & c' & -> & _ & _).
  unfold combo_entry. simpl fst. simpl snd. simpl map.
  assert (E : zip_add kb (new_param (f :: fs) (k :: map fst c')) = acc_key (f :: fs) (k :: map fst c') kb).
  { unfold new_param, acc_key. simpl. apply fold_zip_add_shift. }
  rewrite E. destruct (params_eqb _ p); lia.
Qed.

Lemma nth_remove_at_cons {A} (l : list A) : forall idx, (idx < length l)%nat -> (2 <= length l)%nat ->
  exists x r, remove_at idx l = x :: r.
Proof.
  intros idx Hi H2. destruct (remove_at idx l) as [|x r] eqn:E; [|eauto].
  pose proof (remove_at_length idx l Hi) as H. rewrite E in H. simpl in H. lia.
Qed.

(* the table of all children = (re-keyed table of child idx) * (table of the other children),
   when every child map produces parameter tuples of the parent's length *)
Lemma ctab_extract num idx fs tl p :
  length fs = length tl -> (idx < length tl)%nat -> (2 <= length tl)%nat ->
  Forall (fun f : params -> params => forall k, length (f k) = num) fs ->
  tget (ctab fs tl) p =
  tget (pmul (rekey (nth idx fs (fun k => k)) (nth idx tl [])) (ctab (remove_at idx fs) (remove_at idx tl))) p.
Proof.
  intros Hl Hi H2 Hlen.
  assert (Hz : forall f, In f fs -> forall k, zip_add (repeat 0 num) (f k) = f k).
  { intros f Hf k. rewrite Forall_forall in Hlen. rewrite <- (Hlen f Hf k) at 1. apply zip_add_zero_l. }
  assert (E0 : tget (ctab fs tl) p = conv fs tl (repeat 0 num) p).
  { destruct fs as [|f fs], tl as [|t tl]; simpl in Hl, H2; try lia.
    rewrite tget_ctab by lia. simpl conv. apply zsum_ext. intros e _.
    rewrite (Hz f (or_introl eq_refl)). reflexivity. }
  rewrite E0, (conv_extract idx fs tl _ p Hl Hi).
  destruct (nth_remove_at_cons fs idx ltac:(lia) ltac:(lia)) as (f' & fs' & Ef).
  destruct (nth_remove_at_cons tl idx Hi H2) as (t' & tl' & Et).
  assert (Hl' : length fs' = length tl').
  { pose proof (remove_at_length idx fs ltac:(lia)) as A. pose proof (remove_at_length idx tl Hi) as B.
    rewrite Ef in A. rewrite Et in B. simpl in A, B. lia. }
  rewrite Ef, Et, tget_pmul_ctab by exact Hl'. unfold rekey. rewrite zsum_map. simpl fst. simpl snd.
  apply zsum_ext. intros e _. rewrite (Hz (nth idx fs (fun k => k))); [reflexivity|]. apply nth_In. lia.
Qed.

(* ---------------------------------------------------------------- shapes of keys *)
Lemma in_combos_Forall2 : forall (tl : list terms) (c : list entry), In c (combos tl) -> Forall2 (fun (e : entry) t => In e t) c tl.
Proof.
  induction tl as [|t tl IH]; intros c Hc.
  - simpl in Hc. destruct Hc as [<-|[]]. constructor.
  - apply combos_cons_inv in Hc. destruct Hc as (e & c' & -> & He & Hc'). constructor; [exact He|apply IH; exact Hc'].
Qed.

Lemma fold_zip_add_props num : forall l x,
  length x = num -> Forall (fun y => 0 <= y) x ->
  Forall (fun v : params => length v = num /\ Forall (fun y => 0 <= y) v) l ->
  length (fold_left zip_add l x) = num /\ Forall (fun y => 0 <= y) (fold_left zip_add l x).
Proof.
  induction l as [|v l IH]; intros x Hx Nx Hl; simpl; [split; assumption|].
  inversion Hl as [|? ? [Hv Nv] Hl']; subst. apply IH; [rewrite zip_add_length; lia| |exact Hl'].
  clear -Nx Nv. revert v Nv. induction Nx as [|a x Ha Nx IHx]; intros [|b v] Nv; simpl; try constructor.
  - inversion Nv; subst. lia.
  - inversion Nv; subst. apply IHx. assumption.
Qed.

(* every key of the table of a non-empty list of children has the parent's length and
   non-negative coordinates, when the children's mapped keys do *)
Lemma ctab_key_props num fs (tl : list terms) k v :
  length fs = length tl -> (1 <= length tl)%nat ->
  Forall2 (fun (f : params -> params) (t : terms) =>
             forall k0 v0, In (k0, v0) t -> length (f k0) = num /\ Forall (fun y => 0 <= y) (f k0)) fs tl ->
  In (k, v) (ctab fs tl) -> length k = num /\ Forall (fun y => 0 <= y) k.
Proof.
  intros Hl H1 HF Hin. unfold ctab in Hin. apply in_map_iff in Hin. destruct Hin as (c & E & Hc).
  unfold combo_entry in E. inversion E; subst. clear E.
  apply in_combos_Forall2 in Hc.
  assert (HP : Forall (fun v : params => length v = num /\ Forall (fun y => 0 <= y) v)
                      (map2 (fun f k => f k) fs (map fst c))).
  { clear H1 Hl. revert c Hc. induction HF as [|f t fs tl Hft HF IH]; intros c Hc; inversion Hc; subst; simpl; constructor.
    - destruct x as [k0 v0]. apply (Hft k0 v0). assumption.
    - apply IH. assumption. }
  unfold new_param. destruct (map2 (fun f k => f k) fs (map fst c)) as [|x r] eqn:E.
  - exfalso. destruct fs, tl; simpl in *; try lia. inversion Hc; subst. simpl in E. discriminate.
  - destruct (proj1 (Forall_cons_iff _ _ _) HP) as [[Hx Nx] Hr]. apply fold_zip_add_props; assumption.
Qed.

Lemma nonneg_pmul a b : nonneg a -> nonneg b -> nonneg (pmul a b).
Proof.
  intros Ha Hb k v Hin. unfold pmul in Hin. apply in_flat_map in Hin. destruct Hin as ([ka va] & H1 & Hin).
  apply in_map_iff in Hin. destruct Hin as ([kb vb] & E & H2). inversion E; subst. simpl.
  pose proof (Ha ka va H1). pose proof (Hb kb vb H2). nia.
Qed.

Lemma pzero_tsum t : (forall p, tget t p = 0) -> tsum t = 0.
Proof.
  intros H. rewrite tsum_zsum.
  transitivity (zsum (fun e : entry => snd e * 1) t); [apply zsum_ext; intros; lia|].
  rewrite (zsum_by_keys (fun _ => 1) t (nodup params_eq_dec (map fst t))).
  - apply zsum_zero. intros k _. rewrite H. lia.
  - apply NoDup_nodup.
  - intros k v Hin. apply nodup_In. apply in_map_iff. exists (k, v). auto.
Qed.
