(* C08 — end to end WITH extra parameters: the specification-level sampler
   (Count/SampleModelParams.v) called with a parameter assignment returns every parse tree
   of the root with that size and those parameter values with probability exactly
   1 / count(size, parameters). *)
From Coq Require Import ZArith List Bool Lia QArith Qfield.
From CSS Require Import Gen.Prelude Gen.Compositions Count.CompositionsSpec Count.Terms Count.Constructors
  Count.ConstructorsUnionProduct Count.ConstructorsDict
  Count.SampleModel Count.SampleWalk Count.SamplePick Count.SampleComps Count.SampleProb Count.SampleUniform
  Count.SampleModelParams Count.SampleParamsDict Count.SampleParamsSpec Count.SampleParamsUnion
  Count.SampleParamsSums Count.SampleParamsProduct.
Import ListNotations.
Open Scope Z_scope.

Lemma prob_draw_zero_range {A} (T : A -> bool) lo hi (k : Z -> rc A) :
  (forall r, lo <= r <= hi -> (prob T (k r) == 0)%Q) -> (prob T (Draw lo hi k) == 0)%Q.
Proof.
  intros H. simpl. destruct (hi <? lo); [reflexivity|].
  rewrite sumQ_zero; [apply Qdiv_zero|]. intros r Hr. apply in_py_range' in Hr. apply H. lia.
Qed.

Lemma wz_le_total {B} (weight : B -> res (option Z)) bs i b :
  weights_ok weight bs -> nth_error bs i = Some b -> wz weight b <= total_weight weight bs.
Proof.
  intros Hok Hn. pose proof (presum_S weight bs i b Hn). pose proof (presum_nonneg weight bs i Hok).
  pose proof (presum_le_total weight bs (S i) Hok). lia.
Qed.

Section PUniform.
  Variable rule_of : nat -> pcls.
  Variable tab : nat -> Z -> terms.
  Hypothesis Htab : tables_ok rule_of tab.
  Hypothesis Hcon : contract_ok rule_of tab.
  Hypothesis Hatom : forall c, pk_kind (rule_of c) = K_ATOM -> atom_ok rule_of tab c.
  Hypothesis Hunion : forall c, pk_kind (rule_of c) = K_UNION -> union_ok rule_of tab c.
  Hypothesis Hprod : forall c, pk_kind (rule_of c) = K_PRODUCT -> product_ok rule_of tab c.

  Notation pars := (pars rule_of).
  Notation ptsize := (ptsize rule_of).
  Notation tpar := (tpar rule_of).
  Notation pwf := (pwf rule_of).
  Notation pcnt := (pcnt tab).
  Notation psample := (psample rule_of tab).
  Notation dict_for := (dict_for rule_of).

  (* ---------------------------------------------------------------- one unfolding of the sampler *)
  Lemma pkind_tests c :
    (pk_kind (rule_of c) = K_ATOM -> (pk_kind (rule_of c) =? K_ATOM) = true) /\
    (pk_kind (rule_of c) = K_UNION ->
       (pk_kind (rule_of c) =? K_ATOM) = false /\ (pk_kind (rule_of c) =? K_EMPTY) = false /\
       (pk_kind (rule_of c) =? K_UNION) = true) /\
    (pk_kind (rule_of c) = K_PRODUCT ->
       (pk_kind (rule_of c) =? K_ATOM) = false /\ (pk_kind (rule_of c) =? K_EMPTY) = false /\
       (pk_kind (rule_of c) =? K_UNION) = false /\ (pk_kind (rule_of c) =? K_PRODUCT) = true).
  Proof. split; [|split]; intros ->; repeat (split; try reflexivity). Qed.

  Lemma pcount_dict c n P p : dict_for c P p -> pcount rule_of tab c n P = Ok (pcnt c n p).
  Proof. intros (_ & _ & Ht). unfold pcount. apply pcount_tuple; assumption. Qed.

  Lemma psample_atom f c n P : pk_kind (rule_of c) = K_ATOM ->
    psample (S f) c n P = if n =? pmin rule_of c then Ret (Leaf c) else Fail E_VALUE.
  Proof. intros Hk. simpl. rewrite (proj1 (pkind_tests c) Hk). reflexivity. Qed.

  Lemma psample_union f c n P p : pk_kind (rule_of c) = K_UNION -> dict_for c P p ->
    psample (S f) c n P =
    Draw 1 (pcnt c n p) (fun r =>
      match union_pick_dict (pars c) (map (kid_at rule_of tab n) (pk_kids (rule_of c)))
                            (pk_eps (rule_of c)) (pk_fixed (rule_of c)) n P r with
      | Err e => Fail e
      | Ok (i, q) =>
          match nth_error (pk_kids (rule_of c)) i with
          | None => Fail E_ASSERT
          | Some ci => bind (psample f ci n q) (fun t => choice1 (UNode c i t))
          end
      end).
  Proof.
    intros Hk HP. simpl. destruct (proj1 (proj2 (pkind_tests c)) Hk) as (-> & -> & ->).
    rewrite (pcount_dict c n P p HP). reflexivity.
  Qed.

  Lemma psample_product f c n P p : pk_kind (rule_of c) = K_PRODUCT -> dict_for c P p ->
    psample (S f) c n P =
    Draw 1 (pcnt c n p) (fun r =>
      match prod_pick_dict (pars c) (pmins_of (rule_of c))
                           (map (pkid rule_of tab n) (combine (pk_kids (rule_of c)) (pk_eps (rule_of c)))) n P r with
      | Err e => Fail e
      | Ok ex =>
          bind (mapM (fun a : nat * (Z * dict) => psample f (fst a) (fst (snd a)) (snd (snd a)))
                     (combine (pk_kids (rule_of c)) ex))
               (fun ts => choice1 (PNode c ts))
      end).
  Proof.
    intros Hk HP. simpl. destruct (proj2 (proj2 (pkind_tests c)) Hk) as (-> & -> & -> & ->).
    rewrite (pcount_dict c n P p HP). reflexivity.
  Qed.

  (* ---------------------------------------------------------------- the children of a node *)
  Lemma nth_ds_kid c i d : pk_kind (rule_of c) = K_UNION ->
    nth_error (kid_eps_fixed rule_of c) i = Some d ->
    nth_error (pk_kids (rule_of c)) i = Some (dkid d) /\ nth i (kid_eps rule_of c) (0%nat, []) = fst d.
  Proof.
    intros Hk Hn. pose proof (Hunion c Hk) as Hu. split.
    - rewrite <- (ds_kids rule_of tab c Hu). rewrite nth_error_map, Hn. reflexivity.
    - rewrite <- (ds_kid_eps rule_of tab c Hu).
      apply nth_error_nth. rewrite nth_error_map, Hn. reflexivity.
  Qed.

  Lemma kid_ds c i ci : pk_kind (rule_of c) = K_UNION -> nth_error (pk_kids (rule_of c)) i = Some ci ->
    exists d, nth_error (kid_eps_fixed rule_of c) i = Some d /\ dkid d = ci.
  Proof.
    intros Hk Hn. pose proof (Hunion c Hk) as Hu.
    rewrite <- (ds_kids rule_of tab c Hu) in Hn. rewrite nth_error_map in Hn.
    destruct (nth_error (kid_eps_fixed rule_of c) i) as [d|]; [|discriminate].
    exists d. split; [reflexivity|]. injection Hn as <-. reflexivity.
  Qed.

  (* the tuple of a parse tree has the arity of its class *)
  Lemma tpar_length : forall t c, pwf t c -> length (tpar t) = length (pars c).
  Proof.
    intros [c0|c0 i t|c0 ts] c Hwf; simpl in Hwf.
    - destruct Hwf as [-> _]. simpl. unfold avals. apply map_length.
    - destruct Hwf as (-> & _). simpl. unfold cmap. apply dict_sem_length.
    - destruct Hwf as (-> & Hk & Hall). simpl.
      pose proof (Hprod c Hk) as Hp. destruct Hp as (Hne & Hl & _).
      assert (Hlen : length (cmaps rule_of c) = length (map tpar ts)).
      { unfold cmaps, kid_eps. rewrite !map_length, combine_length. apply all2_length in Hall. lia. }
      assert (Hne' : cmaps rule_of c <> []).
      { unfold cmaps, kid_eps. destruct (pk_kids (rule_of c)); [congruence|].
        destruct (pk_eps (rule_of c)); [simpl in Hl; lia|discriminate]. }
      destruct (new_param_nth (cmaps rule_of c) (map tpar ts) (length (pars c)) 0%nat Hlen Hne') as [L _]; [|exact L].
      intros f k Hf. unfold cmaps in Hf. apply in_map_iff in Hf. destruct Hf as (ce & <- & _). apply cmap_length.
  Qed.

  Lemma dict_for_combine c p : length p = length (pars c) -> dict_for c (combine (pars c) p) p.
  Proof.
    intros Hl. destruct Htab as (Hpn & _). split; [rewrite combine_keys by exact Hl; apply Hpn|].
    split; [rewrite combine_keys by exact Hl; auto|]. apply tuple_of_combine; [apply Hpn|exact Hl].
  Qed.

  (* ---------------------------------------------------------------- the children of a product node *)
  (* sizes, tuples of the children of PNode c ts, aligned with the children of the rule *)
  Lemma product_children c ts : pk_kind (rule_of c) = K_PRODUCT -> all2 pwf ts (pk_kids (rule_of c)) ->
    length (map ptsize ts) = length (kid_eps rule_of c) /\
    Forall2 (fun (ce : nat * dict) q => length q = length (pars (fst ce))) (kid_eps rule_of c) (map tpar ts) /\
    all2 pwf ts (map fst (kid_eps rule_of c)).
  Proof.
    intros Hk Hall. pose proof (Hprod c Hk) as Hp.
    assert (Ek : map fst (kid_eps rule_of c) = pk_kids (rule_of c)).
    { destruct Hp as (_ & Hl & _). unfold kid_eps. apply map_fst_combine. lia. }
    rewrite <- Ek in Hall. split; [|split; [|exact Hall]].
    - rewrite map_length. apply all2_length in Hall. rewrite map_length in Hall. exact Hall.
    - revert Hall. generalize (kid_eps rule_of c). clear -Hprod. induction ts as [|t ts IH]; intros [|ce l] H; simpl in *; try tauto; constructor.
      + apply tpar_length. tauto.
      + apply IH. tauto.
  Qed.

  (* the children of a product node, one by one *)
  Lemma product_child_in : forall (l : list (nat * dict)) ts ce s q,
    all2 pwf ts (map fst l) ->
    In (ce, s, q) (combine (combine l (map ptsize ts)) (map tpar ts)) ->
    exists t, In t ts /\ pwf t (fst ce) /\ s = ptsize t /\ q = tpar t.
  Proof.
    induction l as [|ce0 l IH]; intros [|t ts] ce s q Hall Hin; simpl in *; try tauto.
    destruct Hin as [E|Hin].
    - injection E as <- <- <-. exists t. tauto.
    - destruct (IH ts ce s q (proj2 Hall) Hin) as (t' & Ht & H). exists t'. tauto.
  Qed.

  (* ---------------------------------------------------------------- every parse tree is counted *)
  Hypothesis Hhonest : forall c, pk_kind (rule_of c) = K_UNION -> fixed_honest rule_of tab c.

  Lemma honest_child c i d q' n : pk_kind (rule_of c) = K_UNION ->
    nth_error (kid_eps_fixed rule_of c) i = Some d -> 1 <= pcnt (dkid d) n q' ->
    forall k v, In (k, v) (dfx d) -> dget (combine (pars (dkid d)) q') k = Some v.
  Proof.
    intros Hk Hd Hc k v Hin. apply (Hhonest c Hk d (nth_error_In _ _ Hd) k v Hin n q'). unfold dkid in Hc. lia.
  Qed.

  Lemma pwf_counted : forall t c, pwf t c -> 1 <= pcnt c (ptsize t) (tpar t).
  Proof.
    induction t as [c0|c0 i t IH|c0 ts IH] using tree_ind'; intros c Hwf; simpl in Hwf.
    - destruct Hwf as [-> Hk]. simpl. destruct (Hatom c Hk) as [H1 _]. unfold SampleParamsSpec.pcnt in H1 |- *. lia.
    - destruct Hwf as (-> & Hk & ci & Hn & Hw). simpl.
      set (n := ptsize t). set (q' := tpar t).
      specialize (IH ci Hw). fold n q' in IH.
      destruct (kid_ds c i ci Hk Hn) as (d & Hd & Ed). subst ci.
      destruct (nth_ds_kid c i d Hk Hd) as [_ Ece]. rewrite Ece.
      set (p := cmap rule_of c (fst d) q').
      assert (HP : dict_for c (combine (pars c) p) p) by (apply dict_for_combine; apply cmap_length).
      destruct (union_walk_spec rule_of tab Htab c (Hunion c Hk) _ p n HP) as (extra & HF & Wok & Hle & _).
      destruct (union_tree_branch rule_of tab Htab c (Hunion c Hk) _ p n HP extra i d q' HF Hd
                  (tpar_length t _ Hw) eq_refl (honest_child c i d q' n Hk Hd IH)) as (Q & Hnb & _ & Hwz).
      pose proof (wz_le_total _ _ _ _ Wok Hnb) as Hle'. rewrite Hwz in Hle'. lia.
    - destruct Hwf as (-> & Hk & Hall). simpl.
      destruct (product_children c ts Hk Hall) as (Hl & HFq & Hall').
      set (n := py_sum (map ptsize ts)). set (p := new_param (cmaps rule_of c) (map tpar ts)).
      assert (Hp : length p = length (pars c)).
      { apply (tpar_length (PNode c ts) c). simpl. auto. }
      assert (Hcnt : forall ce s q, In (ce, s, q) (combine (combine (kid_eps rule_of c) (map ptsize ts)) (map tpar ts)) ->
                                    1 <= pcnt (fst ce) s q).
      { intros ce s q Hin. destruct (product_child_in _ ts ce s q Hall' Hin) as (t & Ht & Hw & -> & ->).
        rewrite Forall_forall in IH. apply IH; assumption. }
      destruct (tree_matrix rule_of tab Htab Hcon c n (Hprod c Hk) p Hp (map ptsize ts) (map tpar ts) Hl eq_refl HFq)
        as (Qs & HM & HR & HD & Ex & Ew); [intros ce s q Hin; specialize (Hcnt ce s q Hin); lia|reflexivity|].
      destruct (In_nth_error _ _ HM) as (j0 & Hj0).
      pose proof (wz_le_total _ _ _ _ (comps_weights_ok rule_of tab Htab Hcon c n (Hprod c Hk) p Hp) Hj0) as Hle.
      pose proof (product_total_le rule_of tab Htab Hcon c n (Hprod c Hk) p Hp) as Htot.
      unfold wz in Hle. rewrite Ew in Hle.
      rewrite cnts_rows_of in Hle by (try exact Hl; rewrite map_length in *; exact Hl).
      assert (1 <= zprod (map (fun x : (nat * dict) * Z * params => pcnt (fst (fst (fst x))) (snd (fst x)) (snd x))
                              (combine (combine (kid_eps rule_of c) (map ptsize ts)) (map tpar ts)))).
      { apply prodz_pos. apply Forall_forall. intros y Hy. apply in_map_iff in Hy.
        destruct Hy as ([[ce s] q] & <- & Hin). simpl. apply Hcnt. exact Hin. }
      fold n p. lia.
  Qed.

  (* ---------------------------------------------------------------- support *)
  Notation subcall f := (fun a : nat * (Z * dict) => psample f (fst a) (fst (snd a)) (snd (snd a))).

  (* a tuple of sub-samplers cannot return trees whose sizes / tuples differ from those asked *)
  Lemma mapM_calls_zero f : forall (calls : list call) (ts : list tree),
    (forall x t, In x calls -> (ptsize t <> cs x \/ tpar t <> cq x) ->
                 (prob (tree_eqb t) (psample f (cc x) (cs x) (cQ x)) == 0)%Q) ->
    (map ptsize ts <> map cs calls \/ map tpar ts <> map cq calls) ->
    (prob (fun ys => all2b tree_eqb ts ys) (mapM (subcall f) (map call_arg calls)) == 0)%Q.
  Proof.
    intros calls ts Hsup Hne.
    destruct (Nat.eq_dec (length (map call_arg calls)) (length ts)) as [E|E];
      [|apply prob_mapM_length; exact E].
    rewrite prob_mapM by exact E. apply prodQ_zero. rewrite map_length in E.
    revert ts Hne E. induction calls as [|x calls IH]; intros [|t ts] Hne E; simpl in *; try lia.
    - destruct Hne; congruence.
    - destruct (Z.eq_dec (ptsize t) (cs x)) as [E1|E1]; [destruct (params_eq_dec (tpar t) (cq x)) as [E2|E2]|].
      + destruct (IH (fun y t' Hy => Hsup y t' (or_intror Hy)) ts) as (v & Hv & Hz); [|lia|].
        * destruct Hne as [Hne|Hne]; [left|right]; congruence.
        * exists v. split; [right; exact Hv|exact Hz].
      + eexists. split; [left; reflexivity|]. simpl. apply Hsup; [left; reflexivity|right; exact E2].
      + eexists. split; [left; reflexivity|]. simpl. apply Hsup; [left; reflexivity|left; exact E1].
  Qed.

  (* the sampler of a class asked for (n, p) with count > 0 returns only trees of size n with tuple p *)
  Lemma psample_support : forall f c n P p t,
    dict_for c P p -> 0 < pcnt c n p -> (ptsize t <> n \/ tpar t <> p) ->
    (prob (tree_eqb t) (psample f c n P) == 0)%Q.
  Proof.
    induction f as [|f IH]; intros c n P p t HP Hpos Hne; [reflexivity|].
    destruct (Z.eq_dec (pk_kind (rule_of c)) K_ATOM) as [Ka|Ka];
      [|destruct (Z.eq_dec (pk_kind (rule_of c)) K_UNION) as [Ku|Ku];
        [|destruct (Z.eq_dec (pk_kind (rule_of c)) K_PRODUCT) as [Kp|Kp]]].
    - rewrite (psample_atom f c n P Ka). destruct (n =? pmin rule_of c) eqn:E; [|reflexivity].
      apply Z.eqb_eq in E. simpl. destruct (tree_eqb t (Leaf c)) eqn:Et; [|reflexivity].
      apply tree_eqb_eq in Et. subst t. exfalso. simpl in Hne.
      destruct (Hatom c Ka) as [_ Honly]. destruct (Honly n p) as [E1 E2]; [unfold SampleParamsSpec.pcnt in *; lia|].
      destruct Hne; congruence.
    - rewrite (psample_union f c n P p Ku HP). apply prob_draw_zero_range. intros r Hr.
      destruct (union_walk_spec rule_of tab Htab c (Hunion c Ku) P p n HP) as (extra & HF & Wok & _ & Hpick).
      rewrite Hpick.
      destruct (walk _ r 0 0%nat _) as [[j b]|e] eqn:W; [|reflexivity].
      destruct (union_picked rule_of tab Htab c (Hunion c Ku) P p n HP extra r j b HF Wok ltac:(lia) W)
        as (d & Q & q & Hd & Hb & Hdf & Hm & Hq & _).
      rewrite Hb. destruct (nth_ds_kid c j d Ku Hd) as [Hkid Ece]. rewrite Hkid.
      destruct t as [c'|c' i' t'|c' ts'].
      + apply prob_bind_zero. intros a. rewrite prob_choice1. reflexivity.
      + destruct (Nat.eqb c' c && Nat.eqb i' j) eqn:Ep.
        * apply andb_true_iff in Ep. destruct Ep as [Ec Ei]. apply Nat.eqb_eq in Ec. apply Nat.eqb_eq in Ei. subst c' i'.
          rewrite (prob_bind _ _ (tree_eqb t') _ 1%Q).
          -- rewrite (IH (dkid d) n Q q t' Hdf Hq); [ring|].
             simpl in Hne. rewrite Ece in Hne.
             destruct (Z.eq_dec (ptsize t') n) as [E1|E1]; [|left; exact E1].
             destruct (params_eq_dec (tpar t') q) as [E2|E2]; [|right; exact E2].
             exfalso. destruct Hne as [Hne|Hne]; [contradiction|]. apply Hne. rewrite E2. exact Hm.
          -- intros a. rewrite prob_choice1. simpl. rewrite !Nat.eqb_refl. simpl. reflexivity.
        * apply prob_bind_zero. intros a. rewrite prob_choice1. simpl. rewrite Ep. reflexivity.
      + apply prob_bind_zero. intros a. rewrite prob_choice1. reflexivity.
    - pose proof (Hprod c Kp) as Hpr.
      assert (Hp : length p = length (pars c)) by (destruct HP as (_ & _ & Ht); eapply tuple_of_length; exact Ht).
      rewrite (psample_product f c n P p Kp HP). apply prob_draw_zero_range. intros r Hr.
      fold (kid_eps rule_of c).
      rewrite (prod_pick_dict_walk rule_of tab Htab c n Hpr p Hp P r HP).
      destruct (walk _ r 0 0%nat _) as [[j M]|e] eqn:W; [|reflexivity].
      destruct (product_picked rule_of tab Htab Hcon c n Hpr p Hp r j M ltac:(lia) W)
        as (Qs & qs & _ & HR & Ex & _ & Hcalls & Hnp & Hsum).
      rewrite Ex.
      destruct (calls_spec rule_of tab c _ M Qs qs HR) as (Earg & Ecs & Ecq & _).
      rewrite <- (kidsl_kids rule_of tab c Hpr p Hp). rewrite Earg.
      destruct t as [c'|c' i' t'|c' ts'].
      + apply prob_bind_zero. intros a. rewrite prob_choice1. reflexivity.
      + apply prob_bind_zero. intros a. rewrite prob_choice1. reflexivity.
      + destruct (Nat.eqb c' c) eqn:Ec.
        * apply Nat.eqb_eq in Ec. subst c'.
          rewrite (prob_bind _ _ (fun ys => all2b tree_eqb ts' ys) _ 1%Q).
          -- rewrite mapM_calls_zero; [ring| |].
             ++ intros x t Hx Hxt. rewrite Forall_forall in Hcalls. destruct (Hcalls x Hx) as [Hdf Hc].
                apply (IH (cc x) (cs x) (cQ x) (cq x) t Hdf Hc Hxt).
             ++ rewrite Ecs, Ecq. simpl in Hne.
                destruct (list_eq_dec Z.eq_dec (map ptsize ts') (sizes_of M)) as [E1|E1]; [|left; exact E1].
                destruct (list_eq_dec params_eq_dec (map tpar ts') qs) as [E2|E2]; [|right; exact E2].
                exfalso. rewrite E1, E2 in Hne. destruct Hne as [Hne|Hne]; contradiction.
          -- intros ys. rewrite prob_choice1. simpl. rewrite Nat.eqb_refl. simpl. reflexivity.
        * apply prob_bind_zero. intros a. rewrite prob_choice1. simpl. rewrite Ec. reflexivity.
    - simpl.
      destruct (pk_kind (rule_of c) =? K_ATOM) eqn:E1; [apply Z.eqb_eq in E1; contradiction|].
      destruct (pk_kind (rule_of c) =? K_EMPTY); [reflexivity|].
      destruct (pk_kind (rule_of c) =? K_UNION) eqn:E3; [apply Z.eqb_eq in E3; contradiction|].
      destruct (pk_kind (rule_of c) =? K_PRODUCT) eqn:E4; [apply Z.eqb_eq in E4; contradiction|].
      reflexivity.
  Qed.

  (* ---------------------------------------------------------------- uniformity *)
  Lemma prodQ_calls_one f : forall (calls : list call) (ts : list tree),
    length calls = length ts ->
    (forall x t, In (x, t) (combine calls ts) ->
       1 <= pcnt (cc x) (cs x) (cq x) /\
       (prob (tree_eqb t) (psample f (cc x) (cs x) (cQ x)) == 1 / inject_Z (pcnt (cc x) (cs x) (cq x)))%Q) ->
    (inject_Z (zprod (map (fun x => pcnt (cc x) (cs x) (cq x)) calls)) *
     prodQ (map (fun a : (nat * (Z * dict)) * tree => prob (tree_eqb (snd a)) (subcall f (fst a)))
                (combine (map call_arg calls) ts)) == 1)%Q.
  Proof.
    induction calls as [|x calls IH]; intros [|t ts] Hl H; simpl in Hl; try lia.
    - simpl. reflexivity.
    - simpl combine. simpl map. simpl prodQ.
      change (zprod (pcnt (cc x) (cs x) (cq x) :: ?l)) with (pcnt (cc x) (cs x) (cq x) * zprod l).
      destruct (H x t (or_introl eq_refl)) as [Hpos Hp]. rewrite Hp. rewrite inject_Z_mult.
      specialize (IH ts ltac:(lia) (fun x' t' Hin => H x' t' (or_intror Hin))).
      set (X := inject_Z (zprod (map (fun x0 => pcnt (cc x0) (cs x0) (cq x0)) calls))) in *.
      set (Y := prodQ _) in *.
      assert (Hnz : ~ (inject_Z (pcnt (cc x) (cs x) (cq x)) == 0)%Q).
      { change 0%Q with (inject_Z 0). rewrite inject_Z_injective. lia. }
      transitivity (X * Y)%Q; [field; exact Hnz|exact IH].
  Qed.

  (* the calls made for the matrix of a product node are the children of the node *)
  Lemma calls_children c : forall (l : list (nat * dict)) (ts : list tree) (Qs : list dict) x t,
    all2 pwf ts (map fst l) -> length Qs = length l ->
    In (x, t) (combine (calls_of l (rows_of rule_of c l (map ptsize ts) (map tpar ts)) Qs (map tpar ts)) ts) ->
    cs x = ptsize t /\ cq x = tpar t /\ pwf t (cc x) /\ In t ts.
  Proof.
    induction l as [|ce l IH]; intros [|t0 ts] [|Q Qs] x t Hall Hl Hin; simpl in Hall, Hl; try tauto; try lia;
      try (simpl in Hin; tauto).
    unfold calls_of, rows_of in Hin. simpl in Hin.
    fold (rows_of rule_of c l (map ptsize ts) (map tpar ts)) in Hin.
    fold (calls_of l (rows_of rule_of c l (map ptsize ts) (map tpar ts)) Qs (map tpar ts)) in Hin.
    destruct Hin as [E|Hin].
    - injection E as <- <-. unfold cs, cq, cc, vget. simpl. repeat split; try reflexivity; [tauto|left; reflexivity].
    - destruct (IH ts Qs x t (proj2 Hall) ltac:(lia) Hin) as (A & B & C & D). repeat split; try assumption. right. exact D.
  Qed.

  Theorem psample_uniform : forall t c, pwf t c -> forall f, (height t < f)%nat ->
    forall P, dict_for c P (tpar t) ->
    (prob (tree_eqb t) (psample f c (ptsize t) P) == 1 / inject_Z (pcnt c (ptsize t) (tpar t)))%Q.
  Proof.
    induction t as [c0|c0 i t IH|c0 ts IH] using tree_ind'; intros c Hwf f Hf P HP;
      (destruct f as [|f]; [lia|]); pose proof (pwf_counted _ c Hwf) as Hpos; simpl in Hwf.
    - (* atom *)
      destruct Hwf as [-> Hk]. simpl ptsize in *. simpl tpar in *. rewrite (psample_atom f c _ P Hk). rewrite Z.eqb_refl.
      simpl. rewrite Nat.eqb_refl. destruct (Hatom c Hk) as [H1 _]. rewrite H1. reflexivity.
    - (* union *)
      destruct Hwf as (-> & Hk & ci & Hn & Hw). simpl ptsize in *. simpl tpar in *. simpl in Hf.
      set (n := ptsize t) in *. set (q' := tpar t) in *.
      destruct (kid_ds c i ci Hk Hn) as (d & Hd & Ed). subst ci.
      destruct (nth_ds_kid c i d Hk Hd) as [Hkid Ece]. rewrite Ece in *.
      set (p := cmap rule_of c (fst d) q') in *.
      pose proof (pwf_counted _ _ Hw) as Hci. fold n q' in Hci.
      destruct (union_walk_spec rule_of tab Htab c (Hunion c Hk) P p n HP) as (extra & HF & Wok & Hle & Hpick).
      destruct (union_tree_branch rule_of tab Htab c (Hunion c Hk) P p n HP extra i d q' HF Hd
                  (tpar_length t _ Hw) eq_refl (honest_child c i d q' n Hk Hd Hci)) as (Q & Hnb & Hdf & Hwz).
      specialize (IH (dkid d) Hw f ltac:(lia) Q Hdf). fold n q' in IH.
      rewrite (psample_union f c n P p Hk HP).
      set (w := union_weight n P) in *.
      set (bs := map (branch_of rule_of tab c n) (combine (kid_eps_fixed rule_of c) extra)) in *.
      set (b0 := branch_of rule_of tab c n (d, Some Q)) in *.
      assert (HS : presum w bs (S i) = presum w bs i + pcnt (dkid d) n q').
      { rewrite (presum_S _ bs i b0 Hnb). rewrite Hwz. reflexivity. }
      rewrite (prob_draw_interval _ _ (pcnt c n p) (presum w bs i) (presum w bs (S i))
                 (prob (tree_eqb t) (psample f (dkid d) n Q))).
      + rewrite HS, IH.
        replace (presum w bs i + pcnt (dkid d) n q' - presum w bs i) with (pcnt (dkid d) n q') by lia.
        assert (~ (inject_Z (pcnt (dkid d) n q') == 0)%Q) by (change 0%Q with (inject_Z 0); rewrite inject_Z_injective; lia).
        assert (~ (inject_Z (pcnt c n p) == 0)%Q) by (change 0%Q with (inject_Z 0); rewrite inject_Z_injective; lia).
        field. split; assumption.
      + apply presum_nonneg. exact Wok.
      + rewrite HS. lia.
      + pose proof (presum_le_total w bs (S i) Wok). lia.
      + lia.
      + intros r Hr. rewrite Hpick.
        destruct ((presum w bs i <? r) && (r <=? presum w bs (S i))) eqn:E.
        * apply andb_true_iff in E. destruct E as [E1 E2]. apply Z.ltb_lt in E1. apply Z.leb_le in E2.
          assert (W : walk w r 0 0%nat bs = Ok (i, b0)).
          { apply walk_iff; [exact Wok|lia|]. exists i. split; [reflexivity|]. split; [exact Hnb|lia]. }
          rewrite W. unfold b0. cbn [ub_extra branch_of snd]. rewrite Hkid.
          rewrite (prob_bind _ _ (tree_eqb t) _ 1%Q); [ring|].
          intros a. rewrite prob_choice1. simpl. rewrite !Nat.eqb_refl. simpl. reflexivity.
        * destruct (walk w r 0 0%nat bs) as [[j b]|e] eqn:W; [|reflexivity].
          assert (Hj : j <> i).
          { intros ->. apply walk_iff in W; [|exact Wok|lia]. destruct W as (j' & Hj' & _ & Hlo & Hhi).
            simpl in Hj'. subst j'. apply andb_false_iff in E.
            destruct E as [E|E]; [apply Z.ltb_ge in E|apply Z.leb_gt in E]; lia. }
          destruct (ub_extra b) as [qj|]; [|reflexivity].
          destruct (nth_error (pk_kids (rule_of c)) j) as [cj|]; [|reflexivity].
          apply prob_bind_zero. intros a. rewrite prob_choice1. simpl.
          replace (Nat.eqb i j) with false by (symmetry; apply Nat.eqb_neq; congruence).
          rewrite andb_false_r. reflexivity.
    - (* product *)
      destruct Hwf as (-> & Hk & Hall). simpl ptsize in *. simpl tpar in *. simpl in Hf.
      pose proof (Hprod c Hk) as Hpr.
      destruct (product_children c ts Hk Hall) as (Hl & HFq & Hall').
      set (n := py_sum (map ptsize ts)) in *. set (p := new_param (cmaps rule_of c) (map tpar ts)) in *.
      assert (Hp : length p = length (pars c)).
      { apply (tpar_length (PNode c ts) c). simpl. auto. }
      assert (Hcnt : forall ce s q, In (ce, s, q) (combine (combine (kid_eps rule_of c) (map ptsize ts)) (map tpar ts)) ->
                                    1 <= pcnt (fst ce) s q).
      { intros ce s q Hin. destruct (product_child_in _ ts ce s q Hall' Hin) as (t & Ht & Hw & -> & ->).
        apply pwf_counted. exact Hw. }
      destruct (tree_matrix rule_of tab Htab Hcon c n Hpr p Hp (map ptsize ts) (map tpar ts) Hl eq_refl HFq)
        as (Qs & HM & HR & HD & Ex & Ew); [intros ce s q Hin; specialize (Hcnt ce s q Hin); lia|reflexivity|].
      set (ces := kid_eps rule_of c) in *.
      set (M0 := rows_of rule_of c ces (map ptsize ts) (map tpar ts)) in *.
      destruct (calls_spec rule_of tab c ces M0 Qs (map tpar ts) HR) as (Earg & Ecs & Ecq & Ecnt).
      set (calls0 := calls_of ces M0 Qs (map tpar ts)) in *.
      pose proof (calls_dict_for rule_of c ces M0 Qs (map tpar ts) HR HD) as Hdfs. fold calls0 in Hdfs.
      assert (Hs0 : sizes_of M0 = map ptsize ts).
      { apply colsum0_rows_of; [exact Hl|]. rewrite map_length in *. exact Hl. }
      destruct (rows_rel_lengths rule_of c ces M0 Qs (map tpar ts) HR) as (LM & LQ & Lq).
      assert (Lc : length calls0 = length ts).
      { assert (X : length (map cq calls0) = length (map tpar ts)) by (rewrite Ecq; reflexivity).
        rewrite !map_length in X. exact X. }
      (* every call is the sampling of a child of the node *)
      assert (Hchild : forall x t, In (x, t) (combine calls0 ts) ->
                1 <= pcnt (cc x) (cs x) (cq x) /\
                (prob (tree_eqb t) (psample f (cc x) (cs x) (cQ x)) == 1 / inject_Z (pcnt (cc x) (cs x) (cq x)))%Q).
      { intros x t Hin.
        destruct (calls_children c ces ts Qs x t Hall' LQ Hin) as (A & B & C & D).
        rewrite A, B. split; [apply pwf_counted; exact C|].
        rewrite Forall_forall in IH. apply (IH t D (cc x) C).
        - pose proof (height_in t ts D). lia.
        - rewrite Forall_forall in Hdfs. rewrite <- B. apply Hdfs. eapply in_combine_l. exact Hin. }
      destruct (In_nth_error _ _ HM) as (j0 & Hj0).
      set (weight := prod_weight (pars c) (map (pkid rule_of tab n) ces)) in *.
      set (comps := prod_comps (pars c) (pmins_of (rule_of c)) (map (pkid rule_of tab n) ces) (n :: p)) in *.
      pose proof (comps_weights_ok rule_of tab Htab Hcon c n Hpr p Hp) as Wok. fold ces weight comps in Wok.
      pose proof (product_total_le rule_of tab Htab Hcon c n Hpr p Hp) as Htot. fold ces weight comps in Htot.
      set (W0 := zprod (map (fun x => pcnt (cc x) (cs x) (cq x)) calls0)).
      assert (Hwz : wz weight M0 = W0).
      { unfold wz. rewrite Ew. rewrite Ecnt. reflexivity. }
      assert (HS : presum weight comps (S j0) = presum weight comps j0 + W0).
      { rewrite <- Hwz. apply presum_S. exact Hj0. }
      assert (HW0 : 1 <= W0).
      { unfold W0. apply prodz_pos. apply Forall_forall. intros y Hy. apply in_map_iff in Hy.
        destruct Hy as (x & <- & Hx).
        destruct (In_nth _ _ x Hx) as (k & Hk' & Ek).
        assert (Hin : In (x, nth k ts (Leaf 0)) (combine calls0 ts)).
        { rewrite <- Ek. rewrite <- (combine_nth calls0 ts k x (Leaf 0)) by exact Lc. apply nth_In. rewrite combine_length. lia. }
        apply (Hchild _ _ Hin). }
      set (q := prodQ (map (fun a : (nat * (Z * dict)) * tree => prob (tree_eqb (snd a)) (subcall f (fst a)))
                           (combine (map call_arg calls0) ts))).
      rewrite (psample_product f c n P p Hk HP).
      fold (kid_eps rule_of c). fold ces.
      rewrite (prob_draw_interval _ _ (pcnt c n p) (presum weight comps j0) (presum weight comps (S j0)) q).
      + rewrite HS. replace (presum weight comps j0 + W0 - presum weight comps j0) with W0 by lia.
        pose proof (prodQ_calls_one f calls0 ts Lc Hchild) as Hone. fold W0 q in Hone.
        assert (~ (inject_Z (pcnt c n p) == 0)%Q) by (change 0%Q with (inject_Z 0); rewrite inject_Z_injective; lia).
        transitivity ((inject_Z W0 * q) / inject_Z (pcnt c n p))%Q; [field; assumption|].
        rewrite Hone. reflexivity.
      + apply presum_nonneg. exact Wok.
      + rewrite HS. lia.
      + pose proof (presum_le_total weight comps (S j0) Wok). lia.
      + lia.
      + intros r Hr.
        pose proof (prod_pick_dict_walk rule_of tab Htab c n Hpr p Hp P r HP) as Hpd. fold ces weight comps in Hpd.
        rewrite Hpd. clear Hpd.
        assert (Ekids : pk_kids (rule_of c) = map fst ces).
        { symmetry. apply (kidsl_kids rule_of tab c Hpr p Hp). }
        destruct ((presum weight comps j0 <? r) && (r <=? presum weight comps (S j0))) eqn:E.
        * apply andb_true_iff in E. destruct E as [E1 E2]. apply Z.ltb_lt in E1. apply Z.leb_le in E2.
          assert (W : walk weight r 0 0%nat comps = Ok (j0, M0)).
          { apply walk_iff; [exact Wok|lia|]. exists j0. split; [reflexivity|]. split; [exact Hj0|lia]. }
          rewrite W. fold ces in Ex. rewrite Ex. rewrite Ekids. rewrite <- Hs0. rewrite Earg. fold calls0.
          rewrite (prob_bind _ _ (fun ys => all2b tree_eqb ts ys) _ 1%Q).
          -- rewrite prob_mapM; [unfold q; ring|]. rewrite map_length. exact Lc.
          -- intros ys. rewrite prob_choice1. simpl. rewrite Nat.eqb_refl. simpl. reflexivity.
        * destruct (walk weight r 0 0%nat comps) as [[j M]|e] eqn:W; [|reflexivity].
          assert (Hj : j <> j0).
          { intros ->. apply walk_iff in W; [|exact Wok|lia]. destruct W as (j' & Hj' & _ & Hlo & Hhi).
            simpl in Hj'. subst j'. apply andb_false_iff in E.
            destruct E as [E|E]; [apply Z.ltb_ge in E|apply Z.leb_gt in E]; lia. }
          destruct (product_picked rule_of tab Htab Hcon c n Hpr p Hp r j M ltac:(lia) W)
            as (Qs' & qs' & HjM & HR' & Ex' & EM' & Hcalls' & _ & _).
          fold ces comps in HjM, HR', Ex', EM', Hcalls'.
          assert (HMne : M <> M0).
          { eapply NoDup_nth_error_neq; [unfold comps, prod_comps; apply valid_comps_nodup|exact HjM|exact Hj0|exact Hj]. }
          rewrite Ex'. rewrite Ekids.
          destruct (calls_spec rule_of tab c ces M Qs' qs' HR') as (Earg' & Ecs' & Ecq' & _).
          rewrite Earg'.
          rewrite (prob_bind _ _ (fun ys => all2b tree_eqb ts ys) _ 1%Q).
          -- rewrite mapM_calls_zero; [ring| |].
             ++ intros x t Hx Hxt. rewrite Forall_forall in Hcalls'. destruct (Hcalls' x Hx) as [Hdf Hc].
                apply (psample_support f (cc x) (cs x) (cQ x) (cq x) t Hdf Hc Hxt).
             ++ rewrite Ecs', Ecq'.
                destruct (list_eq_dec Z.eq_dec (map ptsize ts) (sizes_of M)) as [E1|E1]; [|left; exact E1].
                destruct (list_eq_dec params_eq_dec (map tpar ts) qs') as [E2|E2]; [|right; exact E2].
                exfalso. apply HMne. rewrite EM'. unfold M0. rewrite <- E1, <- E2. reflexivity.
          -- intros ys. rewrite prob_choice1. simpl. rewrite Nat.eqb_refl. simpl. reflexivity.
  Qed.

  (* the specification-level sampler *)
  Theorem pspec_sample_uniform t root f P : pwf t root -> (height t < f)%nat -> dict_for root P (tpar t) ->
    (prob (tree_eqb t) (pspec_sample rule_of tab f root (ptsize t) P)
     == 1 / inject_Z (pcnt root (ptsize t) (tpar t)))%Q.
  Proof.
    intros Hwf Hf HP. unfold pspec_sample. rewrite (pcount_dict root _ P _ HP).
    pose proof (pwf_counted t root Hwf).
    replace (0 <? pcnt root (ptsize t) (tpar t)) with true by (symmetry; apply Z.ltb_lt; lia).
    apply psample_uniform; assumption.
  Qed.
End PUniform.

(* count 0 => InvalidOperationError before any draw, whatever the draw sequence *)
Lemma pspec_sample_reject rule_of tab f root n P v draws :
  pcount rule_of tab root n P = Ok v -> v <= 0 ->
  pspec_sample rule_of tab f root n P = Fail E_INVALID_OP /\
  run (pspec_sample rule_of tab f root n P) draws = (Err E_INVALID_OP, [], draws).
Proof.
  intros Hc Hv. unfold pspec_sample. rewrite Hc.
  replace (0 <? v) with false by (symmetry; apply Z.ltb_ge; lia). split; reflexivity.
Qed.
