(* C20 — truncated multivariate power series as finite lists of terms.

   A monomial is an exponent function  variable id -> exponent  (variable 0 is x,
   the other ids are the names of the statistics); two monomials are compared on
   a finite list V of variables.  A polynomial is a finite list of
   (monomial, integer coefficient) pairs, NOT normalised: its meaning is its
   coefficient function  pcoef V p m = sum of the coefficients of the entries
   whose monomial agrees with m on V  (Python: a Counter).  A power series
   truncated at order N is such a list whose entries have x-exponent <= N;
   "equal up to order N" is equality of pcoef at every monomial of x-exponent
   <= N.  Multiplication is the list product with exponent addition (Cauchy
   product with parameter addition).  Only the ring laws the C20 theorems need
   are proved: all of them are statements about pcoef.                         *)
From Coq Require Import ZArith List Bool Lia FinFun.
Import ListNotations.
Open Scope Z_scope.

(* ------------------------------------------------------------ finite sums *)
Fixpoint psum {A} (f : A -> Z) (l : list A) : Z :=
  match l with [] => 0 | x :: t => f x + psum f t end.

Lemma psum_app {A} (f : A -> Z) l1 l2 : psum f (l1 ++ l2) = psum f l1 + psum f l2.
Proof. induction l1 as [|x t IH]; simpl; lia. Qed.

Lemma psum_ext {A} (f g : A -> Z) l : (forall x, In x l -> f x = g x) -> psum f l = psum g l.
Proof.
  induction l as [|x t IH]; simpl; intros H; auto.
  rewrite (H x), IH; auto.
Qed.

Lemma psum_zero {A} (f : A -> Z) l : (forall x, In x l -> f x = 0) -> psum f l = 0.
Proof. induction l as [|x t IH]; simpl; intros H; auto. rewrite (H x), IH; auto. Qed.

Lemma psum_map {A B} (h : A -> B) (f : B -> Z) l : psum f (map h l) = psum (fun x => f (h x)) l.
Proof. induction l as [|x t IH]; simpl; auto. rewrite IH; auto. Qed.

Lemma psum_add {A} (f g : A -> Z) l : psum (fun x => f x + g x) l = psum f l + psum g l.
Proof. induction l as [|x t IH]; simpl; lia. Qed.

Lemma psum_scale {A} (c : Z) (f : A -> Z) l : psum (fun x => c * f x) l = c * psum f l.
Proof. induction l as [|x t IH]; simpl; lia. Qed.

Lemma psum_scale_r {A} (c : Z) (f : A -> Z) l : psum (fun x => f x * c) l = psum f l * c.
Proof. induction l as [|x t IH]; simpl; lia. Qed.

Lemma psum_swap {A B} (f : A -> B -> Z) l1 l2 :
  psum (fun x => psum (fun y => f x y) l2) l1 = psum (fun y => psum (fun x => f x y) l1) l2.
Proof.
  induction l1 as [|x t IH]; simpl.
  - symmetry. apply psum_zero; auto.
  - rewrite IH, <- psum_add. reflexivity.
Qed.

Lemma psum_flat_map {A B} (h : A -> list B) (f : B -> Z) l :
  psum f (flat_map h l) = psum (fun x => psum f (h x)) l.
Proof. induction l as [|x t IH]; simpl; auto. rewrite psum_app, IH; auto. Qed.

(* a sum with exactly one contributing element of a duplicate-free list *)
Lemma psum_single {A} (f : A -> Z) (l : list A) (a : A) :
  NoDup l -> In a l -> (forall x, In x l -> x <> a -> f x = 0) -> psum f l = f a.
Proof.
  induction l as [|x t IH]; simpl; intros ND Hin H0; [tauto|].
  inversion ND as [|? ? Hnot ND']; subst.
  destruct Hin as [->|Hin].
  - rewrite (psum_zero f t); [lia|]. intros y Hy. apply H0; auto. intros ->; auto.
  - rewrite IH; auto. rewrite (H0 x); auto. intros ->; auto.
Qed.

(* integer ranges [lo, hi) *)
Definition zrange (lo hi : Z) : list Z := map (fun j => lo + Z.of_nat j) (seq 0 (Z.to_nat (hi - lo))).

Lemma in_zrange lo hi m : In m (zrange lo hi) <-> lo <= m < hi.
Proof.
  unfold zrange. rewrite in_map_iff. split.
  - intros (j & <- & Hj). apply in_seq in Hj. lia.
  - intros H. exists (Z.to_nat (m - lo)). split; [lia|]. apply in_seq. lia.
Qed.

Lemma zrange_nodup lo hi : NoDup (zrange lo hi).
Proof.
  unfold zrange. apply Injective_map_NoDup; [|apply seq_NoDup].
  intros a b H. lia.
Qed.

Lemma map_seq_shift {A} (f : nat -> A) s n :
  map f (seq s n) = map (fun j => f (s + j)%nat) (seq 0 n).
Proof.
  revert f. induction s as [|s IH]; intros f.
  - apply map_ext. intros a. reflexivity.
  - rewrite <- seq_shift, map_map, IH. apply map_ext. intros a. f_equal.
Qed.

Lemma zrange_split lo cut hi : lo <= cut <= hi -> zrange lo hi = zrange lo cut ++ zrange cut hi.
Proof.
  intros H. unfold zrange.
  replace (Z.to_nat (hi - lo)) with (Z.to_nat (cut - lo) + Z.to_nat (hi - cut))%nat by lia.
  rewrite seq_app, map_app. f_equal. rewrite map_seq_shift.
  apply map_ext. intros a. lia.
Qed.

(* ------------------------------------------------------------ monomials *)
Definition mono := Z -> Z.
Definition poly := list (mono * Z).

Definition meqb (V : list Z) (a b : mono) : bool := forallb (fun u => a u =? b u) V.
Definition madd (a b : mono) : mono := fun u => a u + b u.
Definition msub (a b : mono) : mono := fun u => a u - b u.
Definition mzero : mono := fun _ => 0.
Definition mvar (v : Z) : mono := fun u => if u =? v then 1 else 0.
Definition mscale (k : Z) (a : mono) : mono := fun u => k * a u.

Lemma meqb_ext V a b a' b' :
  (forall u, In u V -> (a u =? b u) = (a' u =? b' u)) -> meqb V a b = meqb V a' b'.
Proof.
  unfold meqb. induction V as [|v t IH]; simpl; intros H; auto.
  rewrite (H v), IH; auto.
Qed.

Lemma meqb_true V a b : meqb V a b = true <-> forall u, In u V -> a u = b u.
Proof.
  unfold meqb. rewrite forallb_forall. split; intros H u Hu.
  - apply Z.eqb_eq; auto.
  - apply Z.eqb_eq; auto.
Qed.

Lemma meqb_refl V a : meqb V a a = true.
Proof. apply meqb_true; auto. Qed.

(* ------------------------------------------------------------ polynomials *)
Definition pcoef (V : list Z) (p : poly) (m : mono) : Z :=
  psum (fun t => if meqb V (fst t) m then snd t else 0) p.

Definition padd (p q : poly) : poly := p ++ q.
Definition pneg (p : poly) : poly := map (fun t => (fst t, - snd t)) p.
Definition pmul (p q : poly) : poly :=
  flat_map (fun s => map (fun t => (madd (fst s) (fst t), snd s * snd t)) q) p.
Definition pconst (z : Z) : poly := [(mzero, z)].
Definition pone : poly := pconst 1.
Fixpoint ppow (p : poly) (k : nat) : poly :=
  match k with O => pone | S k' => pmul p (ppow p k') end.

(* same coefficient function *)
Definition peqv (V : list Z) (p q : poly) : Prop := forall m, pcoef V p m = pcoef V q m.

Lemma peqv_refl V p : peqv V p p.
Proof. intros m; reflexivity. Qed.
Lemma peqv_sym V p q : peqv V p q -> peqv V q p.
Proof. intros H m; symmetry; apply H. Qed.
Lemma peqv_trans V p q r : peqv V p q -> peqv V q r -> peqv V p r.
Proof. intros H1 H2 m; rewrite H1; apply H2. Qed.

Lemma pcoef_nil V m : pcoef V [] m = 0.
Proof. reflexivity. Qed.

Lemma pcoef_app V p q m : pcoef V (p ++ q) m = pcoef V p m + pcoef V q m.
Proof. unfold pcoef. apply psum_app. Qed.

Lemma pcoef_padd V p q m : pcoef V (padd p q) m = pcoef V p m + pcoef V q m.
Proof. apply pcoef_app. Qed.

Lemma pcoef_pneg V p m : pcoef V (pneg p) m = - pcoef V p m.
Proof.
  unfold pcoef, pneg. rewrite psum_map. simpl.
  induction p as [|t r IH]; simpl; auto.
  rewrite IH. destruct (meqb V (fst t) m); lia.
Qed.

Lemma pcoef_concat V (ps : list poly) m :
  pcoef V (concat ps) m = psum (fun p => pcoef V p m) ps.
Proof. induction ps as [|p t IH]; simpl; auto. rewrite pcoef_app, IH; auto. Qed.

(* entries may be replaced by entries whose monomials agree pointwise *)
Lemma pcoef_map_ext {A} V (f g : A -> mono) (h : A -> Z) (l : list A) m :
  (forall x, In x l -> forall u, In u V -> f x u = g x u) ->
  pcoef V (map (fun x => (f x, h x)) l) m = pcoef V (map (fun x => (g x, h x)) l) m.
Proof.
  intros H. unfold pcoef. rewrite !psum_map. simpl. apply psum_ext. intros x Hx.
  rewrite (meqb_ext V (f x) m (g x) m); auto.
  intros u Hu. rewrite (H x Hx u Hu). reflexivity.
Qed.

(* the target monomial only matters on V *)
Lemma pcoef_target_ext V p m m' :
  (forall u, In u V -> m u = m' u) -> pcoef V p m = pcoef V p m'.
Proof.
  intros H. unfold pcoef. apply psum_ext. intros t _.
  rewrite (meqb_ext V (fst t) m (fst t) m'); auto.
  intros u Hu. rewrite (H u Hu). reflexivity.
Qed.

(* the double-sum form of a product's coefficients *)
Lemma psum_pmul (g : mono * Z -> Z) p q :
  psum g (pmul p q) =
  psum (fun s => psum (fun t => g (madd (fst s) (fst t), snd s * snd t)) q) p.
Proof.
  unfold pmul. rewrite psum_flat_map. apply psum_ext. intros s _.
  rewrite psum_map. reflexivity.
Qed.

Lemma pcoef_pmul V p q m :
  pcoef V (pmul p q) m =
  psum (fun s => psum (fun t => if meqb V (madd (fst s) (fst t)) m then snd s * snd t else 0) q) p.
Proof. unfold pcoef. rewrite psum_pmul. reflexivity. Qed.

(* regrouping: coefficient of a product = sum over the entries of the left
   factor of  coefficient * (coefficient of the right factor at m - a) *)
Lemma pcoef_pmul_K V p q m :
  pcoef V (pmul p q) m = psum (fun s => snd s * pcoef V q (msub m (fst s))) p.
Proof.
  rewrite pcoef_pmul. apply psum_ext. intros s _.
  unfold pcoef. rewrite <- psum_scale. apply psum_ext. intros t _.
  rewrite (meqb_ext V (madd (fst s) (fst t)) m (fst t) (msub m (fst s))).
  - destruct (meqb V (fst t) (msub m (fst s))); lia.
  - intros u _. unfold madd, msub.
    destruct (Z.eqb_spec (fst s u + fst t u) (m u)), (Z.eqb_spec (fst t u) (m u - fst s u)); auto; lia.
Qed.

Lemma pmul_comm V p q : peqv V (pmul p q) (pmul q p).
Proof.
  intros m. rewrite !pcoef_pmul. rewrite psum_swap. apply psum_ext. intros t _.
  apply psum_ext. intros s _.
  rewrite (meqb_ext V (madd (fst s) (fst t)) m (madd (fst t) (fst s)) m).
  - rewrite Z.mul_comm. reflexivity.
  - intros u _. unfold madd. rewrite Z.add_comm. reflexivity.
Qed.

Lemma pmul_assoc V p q r : peqv V (pmul (pmul p q) r) (pmul p (pmul q r)).
Proof.
  intros m. unfold pcoef at 1. rewrite psum_pmul. rewrite psum_pmul.
  unfold pcoef. rewrite psum_pmul.
  apply psum_ext. intros a _. rewrite psum_pmul. apply psum_ext. intros b _.
  apply psum_ext. intros c _. simpl.
  rewrite (meqb_ext V (madd (madd (fst a) (fst b)) (fst c)) m (madd (fst a) (madd (fst b) (fst c))) m).
  - rewrite Z.mul_assoc. reflexivity.
  - intros u _. unfold madd. rewrite Z.add_assoc. reflexivity.
Qed.

Lemma pmul_congr_r V p q q' : peqv V q q' -> peqv V (pmul p q) (pmul p q').
Proof.
  intros H m. rewrite !pcoef_pmul_K. apply psum_ext. intros s _. rewrite H. reflexivity.
Qed.

Lemma pmul_congr_l V p p' q : peqv V p p' -> peqv V (pmul p q) (pmul p' q).
Proof.
  intros H. eapply peqv_trans; [apply pmul_comm|].
  eapply peqv_trans; [apply pmul_congr_r; exact H|]. apply pmul_comm.
Qed.

Lemma pmul_congr V p p' q q' : peqv V p p' -> peqv V q q' -> peqv V (pmul p q) (pmul p' q').
Proof.
  intros H1 H2. eapply peqv_trans; [apply pmul_congr_l; exact H1|]. apply pmul_congr_r; exact H2.
Qed.

Lemma pmul_one_l V p : peqv V (pmul pone p) p.
Proof.
  intros m. rewrite pcoef_pmul_K. unfold pone, pconst. cbn [psum fst snd].
  transitivity (pcoef V p (msub m mzero)); [lia|].
  apply pcoef_target_ext. intros u _. unfold msub, mzero. lia.
Qed.

Lemma pmul_one_r V p : peqv V (pmul p pone) p.
Proof. eapply peqv_trans; [apply pmul_comm|apply pmul_one_l]. Qed.

Lemma padd_congr V p p' q q' : peqv V p p' -> peqv V q q' -> peqv V (padd p q) (padd p' q').
Proof. intros H1 H2 m. rewrite !pcoef_padd, H1, H2. reflexivity. Qed.

(* products of a list of factors: the code's left fold  ((1*f1)*f2)*...  and the
   right fold  f1*(f2*(...*1))  have the same coefficients *)
Definition prod_left (fs : list poly) : poly := fold_left pmul fs pone.
Definition prod_right (fs : list poly) : poly := fold_right pmul pone fs.

Lemma fold_left_pmul_acc V fs acc : peqv V (fold_left pmul fs acc) (pmul acc (prod_right fs)).
Proof.
  revert acc. induction fs as [|f t IH]; intros acc; simpl.
  - apply peqv_sym, pmul_one_r.
  - eapply peqv_trans; [apply IH|]. apply pmul_assoc.
Qed.

Lemma prod_left_right V fs : peqv V (prod_left fs) (prod_right fs).
Proof.
  unfold prod_left. eapply peqv_trans; [apply fold_left_pmul_acc|]. apply pmul_one_l.
Qed.

Lemma prod_right_congr V fs gs :
  Forall2 (peqv V) fs gs -> peqv V (prod_right fs) (prod_right gs).
Proof.
  induction 1 as [|f g fs gs H _ IH]; simpl; [apply peqv_refl|].
  apply pmul_congr; auto.
Qed.

(* moving the factor at position i to the front *)
Lemma prod_right_move V (fs : list poly) (i : nat) (d : poly) :
  (i < length fs)%nat ->
  peqv V (prod_right fs) (pmul (nth i fs d) (prod_right (firstn i fs ++ skipn (S i) fs))).
Proof.
  revert i. induction fs as [|f t IH]; intros i Hi; simpl in Hi; [lia|].
  destruct i as [|i]; simpl.
  - apply peqv_refl.
  - eapply peqv_trans; [apply pmul_congr_r; apply (IH i); lia|].
    eapply peqv_trans; [apply peqv_sym, pmul_assoc|].
    eapply peqv_trans; [apply pmul_congr_l; apply pmul_comm|]. apply pmul_assoc.
Qed.
