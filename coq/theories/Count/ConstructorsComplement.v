(* C09, part 2: Complement.get_terms of the model returns the flipped child's true table. *)
From Coq Require Import ZArith List Bool Lia.
From CSS Require Import Gen.Prelude Count.Terms Count.Constructors Count.ConstructorsUnionProduct.
Import ListNotations.
Open Scope Z_scope.
Local Opaque Z.mul.

(* ---------------------------------------------------------------- entry-by-entry accumulation *)
Lemma acc_mapped_ok sgn mp h es : forall acc,
  maps_ok mp h es -> acc_mapped sgn mp acc es = acc_entries sgn acc (rekey h es).
Proof.
  unfold acc_entries. induction es as [|[k v] es IH]; intros acc H; simpl; [reflexivity|].
  rewrite (H k v (or_introl eq_refl)). simpl.
  destruct (0 <=? _); [|reflexivity]. apply IH. intros k' v' Hin. apply (H k' v'). right. exact Hin.
Qed.

Lemma acc_entries_app sgn a b : forall acc,
  acc_entries sgn acc (a ++ b) = bind (acc_entries sgn acc a) (fun r => acc_entries sgn r b).
Proof.
  unfold acc_entries. induction a as [|[k v] a IH]; intros acc; simpl; [reflexivity|].
  destruct (0 <=? _); [apply IH|reflexivity].
Qed.

Lemma tget_cons_same k v t : tget ((k, v) :: t) k = v + tget t k.
Proof. simpl. rewrite params_eqb_refl. reflexivity. Qed.

(* subtracting non-negative entries from a table that dominates them never trips the assertion *)
Lemma acc_entries_sub es : forall acc,
  nonneg es -> (forall q, 0 <= tget acc q - tget es q) ->
  exists r, acc_entries (-1) acc es = Ok r /\ forall q, tget r q = tget acc q - tget es q.
Proof.
  unfold acc_entries. induction es as [|[k v] es IH]; intros acc Hnn Hdom.
  - exists acc. split; [reflexivity|]. intros q. simpl. lia.
  - simpl acc_mapped.
    assert (Hes : nonneg es) by (intros k' v' Hin; apply (Hnn k' v'); right; exact Hin).
    assert (Hk : 0 <= tget acc k - v).
    { pose proof (Hdom k) as H. simpl in H. rewrite params_eqb_refl in H.
      pose proof (tget_nonneg es k Hes). lia. }
    rewrite params_eqb_refl.
    replace (0 <=? -1 * v + tget acc k) with true by lia.
    destruct (IH ((k, -1 * v) :: acc) Hes) as (r & Hr & Hq).
    + intros q. pose proof (Hdom q) as H. simpl in H. simpl.
      destruct (params_eqb k q); lia.
    + exists r. split; [exact Hr|]. intros q. rewrite Hq. simpl. destruct (params_eqb k q); lia.
Qed.

Lemma acc_entries_add es : forall acc,
  nonneg es -> (forall q, 0 <= tget acc q) ->
  exists r, acc_entries 1 acc es = Ok r /\ forall q, tget r q = tget acc q + tget es q.
Proof.
  unfold acc_entries. induction es as [|[k v] es IH]; intros acc Hnn Hacc.
  - exists acc. split; [reflexivity|]. intros q. simpl. lia.
  - simpl acc_mapped.
    assert (Hes : nonneg es) by (intros k' v' Hin; apply (Hnn k' v'); right; exact Hin).
    pose proof (Hnn k v (or_introl eq_refl)) as Hv. pose proof (Hacc k) as Hk.
    rewrite params_eqb_refl.
    replace (0 <=? 1 * v + tget acc k) with true by lia.
    destruct (IH ((k, 1 * v) :: acc) Hes) as (r & Hr & Hq).
    + intros q. pose proof (Hacc q). simpl. destruct (params_eqb k q); lia.
    + exists r. split; [exact Hr|]. intros q. rewrite Hq. simpl. destruct (params_eqb k q); lia.
Qed.

(* ---------------------------------------------------------------- union tables *)
Lemma union_table_cons f fs t ts : union_table (f :: fs) (t :: ts) = rekey f t ++ union_table fs ts.
Proof. reflexivity. Qed.

Lemma rekey_concat g l : rekey g (concat l) = concat (map (rekey g) l).
Proof. unfold rekey. rewrite concat_map. reflexivity. Qed.

Lemma rekey_union_table g fs ts :
  rekey g (union_table fs ts) = union_table (map (fun f k => g (f k)) fs) ts.
Proof.
  revert ts. induction fs as [|f fs IH]; intros [|t ts]; try reflexivity.
  rewrite union_table_cons, rekey_app, IH, rekey_rekey. reflexivity.
Qed.

Lemma nonneg_union_table fs ts : Forall nonneg ts -> nonneg (union_table fs ts).
Proof.
  revert ts. induction fs as [|f fs IH]; intros [|t ts] H; try (intros k v []).
  rewrite union_table_cons. inversion H; subst. apply nonneg_app; [apply nonneg_rekey; assumption|apply IH; assumption].
Qed.

(* the siblings' maps followed by the parent map succeed and compute h_j = g o f_j *)
Inductive CMapsOk (ppm : params -> res params) :
  list (params -> res params) -> list (params -> params) -> list terms -> Prop :=
| CMapsOk_nil : CMapsOk ppm [] [] []
| CMapsOk_cons pm h t pms hs ts :
    maps_ok (fun k => bind (pm k) ppm) h t -> CMapsOk ppm pms hs ts ->
    CMapsOk ppm (pm :: pms) (h :: hs) (t :: ts).

Lemma complement_subtract_ok ppm pms hs subs :
  CMapsOk ppm pms hs subs -> forall acc,
  complement_subtract ppm pms subs acc = acc_entries (-1) acc (union_table hs subs).
Proof.
  induction 1 as [|pm h t pms hs ts Hok _ IH]; intros acc; [reflexivity|].
  simpl complement_subtract. rewrite union_table_cons, acc_entries_app.
  rewrite (acc_mapped_ok (-1) _ h t acc Hok).
  destruct (acc_entries (-1) acc (rekey h t)); simpl; [apply IH|reflexivity].
Qed.

(* ---------------------------------------------------------------- the theorem *)
Lemma complement_correct ppm g pms fs fi (TP Ti : terms) (subs : list terms) :
  (* the original union rule is genuine: parent = flipped child + siblings, re-keyed *)
  teq TP (rekey fi Ti ++ union_table fs subs) ->
  (* tables are counts *)
  nonneg Ti -> Forall nonneg subs ->
  (* the parent map g (parent coordinates -> flipped child's coordinates) succeeds where used *)
  maps_ok ppm g (filter (fun e : entry => negb (snd e =? 0)) TP) ->
  CMapsOk ppm pms (map (fun f k => g (f k)) fs) subs ->
  (* every parameter tuple of the flipped child survives the round trip child -> parent -> child *)
  (forall k v, In (k, v) Ti -> g (fi k) = k) ->
  exists r, complement_get_terms ppm pms TP subs = Ok r /\ teq r Ti.
Proof.
  intros Hgen HnTi Hnsubs Hppm Hsib Hround.
  unfold complement_get_terms.
  rewrite (rekey_res_ok ppm g _ Hppm). simpl.
  rewrite (complement_subtract_ok ppm pms _ subs Hsib).
  set (TP' := filter (fun e : entry => negb (snd e =? 0)) TP).
  set (es := union_table (map (fun f k => g (f k)) fs) subs).
  assert (Hacc : forall q, tget (rekey g TP') q = tget Ti q + tget es q).
  { intros q.
    rewrite (tget_rekey_ext g TP' TP (fun p => tget_filter_nonzero TP p) q).
    rewrite (tget_rekey_ext g TP _ Hgen q).
    rewrite rekey_app, tget_app, rekey_rekey, rekey_union_table. fold es.
    rewrite (rekey_id_in (fun k => g (fi k)) Ti Hround). reflexivity. }
  assert (Hes : nonneg es) by (apply nonneg_union_table; exact Hnsubs).
  destruct (acc_entries_sub es (rekey g TP') Hes) as (r & Hr & Hq).
  - intros q. rewrite Hacc. pose proof (tget_nonneg Ti q HnTi). lia.
  - exists r. split; [exact Hr|]. intros q. rewrite Hq, Hacc. lia.
Qed.

(* the split form of genuineness follows from union_genuine over the original child order *)
Lemma map2_app {A B C} (f : A -> B -> C) a1 a2 b1 b2 :
  length a1 = length b1 -> map2 f (a1 ++ a2) (b1 ++ b2) = map2 f a1 b1 ++ map2 f a2 b2.
Proof.
  revert b1. induction a1 as [|x a1 IH]; intros [|y b1] H; simpl in *; try lia; [reflexivity|].
  rewrite IH; [reflexivity|lia].
Qed.

Lemma union_table_split fpre fi fpost tpre ti tpost :
  length fpre = length tpre ->
  teq (union_table (fpre ++ fi :: fpost) (tpre ++ ti :: tpost))
      (rekey fi ti ++ union_table (fpre ++ fpost) (tpre ++ tpost)).
Proof.
  intros Hlen q. unfold union_table.
  rewrite !(map2_app rekey) by exact Hlen. simpl map2.
  rewrite !concat_app. simpl concat. rewrite !tget_app. lia.
Qed.
