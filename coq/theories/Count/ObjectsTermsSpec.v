(* C07 — count_objects_of_size == len(generate_objects_of_size), end to end and WITHOUT
   assuming that the counts are right: get_terms through the level-by-level terms caches of a
   whole specification (Count/ObjectsTermsModel.v: tensure) against get_objects through the
   objects caches (Count/ObjectsModel.v: ensure).

   Invariant of a terms cache: level m of class c is a Counter (distinct keys) that answers,
   for every parameter tuple, with the number of objects some GOOD dictionary of (c, m) holds
   under that tuple (a good dictionary = what _ensure_level_objects builds, Count/ObjectsProofs.v).
   The step is count_union_step / count_product_step (Count/ObjectsCount.v) after replacing
   the children's Counters by the numbers of objects of their good dictionaries
   (Count/ObjectsTermsAlgebra.v); the induction is the one of Count/ObjectsSpec.v (rank
   certificate, no re-entry of a level in progress), redone for the terms caches. *)
From Coq Require Import ZArith List Bool Lia Permutation.
From CSS Require Import Base.PyList Gen.Prelude Gen.Compositions Count.CompositionsSpec
                        Count.ObjectsModel Count.ObjectsLists Count.ObjectsProofs Count.ObjectsSpec
                        Count.ObjectsCountModel Count.ObjectsCount
                        Count.ObjectsTermsModel Count.ObjectsTermsAlgebra.
Import ListNotations.
Open Scope Z_scope.

Section TSpec.
Context {obj : Type}.
Variable size : obj -> Z.
Variable In_cls : nat -> obj -> Prop.
Variable par : nat -> obj -> params.
Variable spec : nat -> option (rule obj).
Variable vterms : nat -> Z -> terms.       (* class -> strategy.get_terms(class, n) of its verification strategy *)

Notation good := (good size In_cls par).
Notation isobj := (isobj size In_cls par).
Notation goodks := (goodks size In_cls par).

(* the counting view of the specification *)
Notation tspec := (tspec_of spec vterms).

(* t counts the objects of class c of size n, for every parameter tuple *)
Definition tgood (c : nat) (n : Z) (t : terms) : Prop :=
  keys_ok t /\ exists d, good c n d /\ forall p, counter_get t p = zlen (dict_get d p).

Definition tgoodks (ks : nat * Z) (t : terms) : Prop := tgood (fst ks) (snd ks) t.

Lemma tgood_tagree c n t d :
  keys_ok t -> good c n d -> (forall p, counter_get t p = zlen (dict_get d p)) -> tagree t (terms_of d).
Proof.
  intros Hk Hg He. split; [assumption|]. split; [apply keys_terms_of; apply Hg|].
  intros p. rewrite He, counter_get_terms_of. reflexivity.
Qed.

(* choose the good dictionaries behind a list of good Counters *)
Lemma tgood_split : forall KS ts, Forall2 tgoodks KS ts ->
  exists ds : list (objects obj), Forall2 goodks KS ds /\ Forall2 tagree ts (map terms_of ds).
Proof.
  induction 1 as [|ks t KS ts (Hk & d & Hg & He) HF (ds & Hds & Hag)].
  - exists []. split; constructor.
  - exists (d :: ds). split; constructor; auto. eapply tgood_tagree; eassumption.
Qed.

Lemma tgood_split2 (kids : list nat) : forall comps pc,
  Forall2 (fun sizes ts => Forall2 tgoodks (combine kids sizes) ts) comps pc ->
  exists pcd : list (list (objects obj)),
    Forall2 (fun sizes ds => Forall2 goodks (combine kids sizes) ds) comps pcd /\
    Forall2 (Forall2 tagree) pc (map (map terms_of) pcd).
Proof.
  induction 1 as [|sizes ts comps pc Hts HF (pcd & Hpcd & Hag)].
  - exists []. split; constructor.
  - destruct (tgood_split _ _ Hts) as (ds & Hds & Hag1).
    exists (ds :: pcd). split; constructor; auto.
Qed.

(* one level of Rule._ensure_level, union rule: DisjointUnion.get_terms fed with good Counters
   of the children returns a good Counter of the parent *)
Theorem union_level_tgood c kids maps fwd bwd n (ts : list terms) :
  union_contract size In_cls par c kids maps fwd bwd ->
  Forall2 tgoodks (map (fun k => (k, n)) kids) ts ->
  tgood c n (union_terms maps ts).
Proof.
  intros HU HF. destruct (tgood_split _ _ HF) as (ds & Hds & Hag).
  apply Forall2_of_map_l in Hds. simpl in Hds.
  split; [apply counter_of_keys|].
  exists (build_level bwd (union_yields maps ds)). split; [eapply union_level_good; eassumption|].
  intros p. rewrite (union_terms_teq maps ts (map terms_of ds) Hag p).
  apply count_union_step. intros [q t] Hin. simpl.
  apply (union_sub_objects_spec size In_cls par kids maps n ds Hds) in Hin.
  destruct Hin as (i & k & p' & y & Hi & (Hy & _) & -> & _).
  destruct HU as [_ HU2]. destruct (HU2 i k y Hi Hy) as (o & Hb & _). rewrite Hb. reflexivity.
Qed.

(* ... product rule *)
Theorem product_level_tgood c kids mins maxs maps fwd bwd n (pc : list (list terms)) :
  product_contract size In_cls par c kids maps fwd bwd ->
  bounds_ok size In_cls kids mins maxs ->
  Forall2 (fun sizes ts => Forall2 tgoodks (combine kids sizes) ts)
          (compositions n (zlen kids) mins maxs) pc ->
  tgood c n (product_terms maps pc).
Proof.
  intros HP Hb HF. destruct (tgood_split2 kids _ _ HF) as (pcd & Hpcd & Hag).
  split; [apply counter_of_keys|].
  exists (build_level bwd (product_yields maps pcd)). split; [eapply product_level_good; eassumption|].
  intros p. rewrite (product_terms_teq maps pc (map (map terms_of) pcd) Hag p).
  apply count_product_step. intros [q t] Hin. simpl.
  apply (product_sub_objects_spec size In_cls par kids mins maxs maps n pcd Hb Hpcd) in Hin.
  destruct Hin as (ys & Hys & -> & _).
  destruct HP as [_ HP2]. destruct (HP2 ys Hys) as (o & Hbo & _). rewrite Hbo. reflexivity.
Qed.

(* ---------------------------------------------------------------- whole specification *)
Variable rank : nat -> Z -> nat.
Hypothesis all_ok : forall c r, spec c = Some r -> rule_ok size In_cls par c r.
Hypothesis closed : forall c r n c' m, spec c = Some r -> 0 <= n -> In (c', m) (reads r n) -> spec c' <> None.
Hypothesis rank_reads : forall c r n c' m, spec c = Some r -> 0 <= n -> In (c', m) (reads r n) ->
                                           0 <= m /\ (rank c' m < rank c n)%nat.
Hypothesis rank_mono : forall c m n, 0 <= m < n -> (rank c m < rank c n)%nat.
(* contract of a verification strategy: its get_terms is a Counter that counts what its
   get_objects lists *)
Hypothesis vterms_ok : forall c tbl, spec c = Some (RVerified tbl) -> forall n, 0 <= n ->
  keys_ok (vterms c n) /\ forall p, counter_get (vterms c n) p = zlen (dict_get (tbl n) p).

Definition TInv (s : tcache) : Prop := forall c m, 0 <= m < tclen s c -> tgood c m (tcget s c m).
Definition text (s s' : tcache) : Prop := forall c, exists tl, s' c = s c ++ tl.
Definition tbelow (s s' : tcache) (R : nat) : Prop :=
  forall c m, tclen s c <= m < tclen s' c -> (rank c m < R)%nat.

Lemma text_refl s : text s s.
Proof. intros c. exists []. rewrite app_nil_r. reflexivity. Qed.

Lemma text_trans s1 s2 s3 : text s1 s2 -> text s2 s3 -> text s1 s3.
Proof.
  intros H1 H2 c. destruct (H1 c) as [t1 E1]. destruct (H2 c) as [t2 E2].
  exists (t1 ++ t2). rewrite E2, E1, app_assoc. reflexivity.
Qed.

Lemma text_clen s s' c : text s s' -> tclen s c <= tclen s' c.
Proof. intros H. destruct (H c) as [tl E]. unfold tclen, zlen. rewrite E, app_length. lia. Qed.

Lemma tbelow_refl s R : tbelow s s R.
Proof. intros c m H. lia. Qed.

Lemma tbelow_trans s1 s2 s3 R : tbelow s1 s2 R -> tbelow s2 s3 R -> tbelow s1 s3 R.
Proof.
  intros H1 H2 c m Hm. destruct (Z_lt_le_dec m (tclen s2 c)); [apply H1|apply H2]; lia.
Qed.

Lemma tbelow_weaken s s' R R' : (R <= R')%nat -> tbelow s s' R -> tbelow s s' R'.
Proof. intros HR H c m Hm. specialize (H c m Hm). lia. Qed.

Lemma tclen_nonneg (s : tcache) c : 0 <= tclen s c.
Proof. unfold tclen, zlen. lia. Qed.

Lemma tmapM_ok {A B} (g : tcache -> A -> option (tcache * B)) (P : A -> B -> Prop) (R : nat) :
  forall l : list A,
  (forall a, In a l -> forall s, TInv s ->
     exists s' b, g s a = Some (s', b) /\ TInv s' /\ text s s' /\ tbelow s s' R /\ P a b) ->
  forall s, TInv s ->
    exists s' bs, tmapM g s l = Some (s', bs) /\ TInv s' /\ text s s' /\ tbelow s s' R /\ Forall2 P l bs.
Proof.
  induction l as [|a l IH]; intros Hg s Hs.
  - exists s, []. simpl. csplit; auto using text_refl, tbelow_refl.
  - destruct (Hg a (or_introl eq_refl) s Hs) as (s1 & b & E1 & Hs1 & Hx1 & Hb1 & HP).
    destruct (IH (fun a' Ha' => Hg a' (or_intror Ha')) s1 Hs1) as (s2 & bs & E2 & Hs2 & Hx2 & Hb2 & HF).
    exists s2, (b :: bs). simpl. rewrite E1, E2. csplit; auto.
    + eapply text_trans; eassumption.
    + eapply tbelow_trans; eassumption.
Qed.

(* AbstractRule.get_terms of the child's rule, as tlevel_with receives it *)
Definition tgetf (f : nat) (s : tcache) (cm : nat * Z) : option (tcache * terms) :=
  match tensure tspec f s (fst cm) (snd cm) with
  | Some s' => Some (s', tcget s' (fst cm) (snd cm))
  | None => None
  end.

Lemma tensure_S f s c n :
  tensure tspec (S f) s c n =
  if n <? tclen s c then Some s
  else match tspec c with
       | None => None
       | Some r =>
           match tlevel_with (tgetf f) r s (tclen s c) with
           | None => None
           | Some (s1, d) => tensure tspec f (tcappend s1 c d) c n
           end
       end.
Proof. reflexivity. Qed.

Definition TOK (f : nat) (cm : nat * Z) : Prop :=
  forall s, TInv s ->
    exists s', tensure tspec f s (fst cm) (snd cm) = Some s' /\ TInv s' /\ text s s' /\
               tbelow s s' (S (rank (fst cm) (snd cm))) /\ snd cm < tclen s' (fst cm).

Lemma tgetf_ok f cm R :
  0 <= snd cm -> (rank (fst cm) (snd cm) < R)%nat -> TOK f cm ->
  forall s, TInv s ->
    exists s' d, tgetf f s cm = Some (s', d) /\ TInv s' /\ text s s' /\ tbelow s s' R /\ tgoodks cm d.
Proof.
  intros Hm HR Hok s Hs. destruct (Hok s Hs) as (s' & E & Hs' & Hx & Hb & Hl).
  exists s', (tcget s' (fst cm) (snd cm)). unfold tgetf. rewrite E.
  csplit; auto.
  - eapply tbelow_weaken; [|eassumption]. lia.
  - apply Hs'. lia.
Qed.

Lemma tlevel_ok c r m f :
  spec c = Some r -> 0 <= m ->
  (forall cm, In cm (reads r m) -> TOK f cm) ->
  forall s, TInv s ->
    exists s1 d, tlevel_with (tgetf f) (trule_of r (vterms c)) s m = Some (s1, d) /\ TInv s1 /\ text s s1 /\
                 tbelow s s1 (rank c m) /\ tgood c m d.
Proof.
  intros Hr Hm Hreads s Hs. pose proof (all_ok c r Hr) as Hok.
  destruct r as [kids maps bwd|kids mins maxs maps bwd|tbl]; simpl in *.
  - destruct Hok as [fwd Hc].
    destruct (tmapM_ok (tgetf f) tgoodks (rank c m)
                       (map (fun k => (k, m)) kids)) with (s := s) as (s1 & subs & E & Hs1 & Hx & Hb & HF); auto.
    { intros cm Hin s0 Hs0. destruct (rank_reads c _ m (fst cm) (snd cm) Hr Hm) as [H0 Hrk].
      { simpl. destruct cm; assumption. }
      apply tgetf_ok; auto. }
    exists s1, (union_terms maps subs). rewrite E. csplit; auto.
    eapply union_level_tgood; eassumption.
  - destruct Hok as [[fwd Hc] Hbd].
    destruct (tmapM_ok (fun s' sizes => tmapM (tgetf f) s' (combine kids sizes))
                       (fun sizes ts => Forall2 tgoodks (combine kids sizes) ts)
                       (rank c m) (compositions m (zlen kids) mins maxs)) with (s := s)
      as (s1 & per_comp & E & Hs1 & Hx & Hb & HF); auto.
    { intros sizes Hsz s0 Hs0.
      apply (tmapM_ok (tgetf f) tgoodks (rank c m) (combine kids sizes)); auto.
      intros cm Hin s2 Hs2.
      assert (Hin' : In cm (flat_map (fun sizes => combine kids sizes) (compositions m (zlen kids) mins maxs))).
      { apply in_flat_map. exists sizes. split; assumption. }
      destruct (rank_reads c _ m (fst cm) (snd cm) Hr Hm) as [H0 Hrk].
      { simpl. destruct cm; assumption. }
      apply tgetf_ok; auto. }
    exists s1, (product_terms maps per_comp). rewrite E. csplit; auto.
    eapply product_level_tgood; eassumption.
  - exists s, (vterms c m). csplit; auto using text_refl, tbelow_refl.
    destruct (vterms_ok c tbl Hr m Hm) as [Hk He]. split; [assumption|].
    exists (tbl m). split; [apply Hok; assumption|assumption].
Qed.

Lemma TInv_cappend s c d :
  TInv s -> tgood c (tclen s c) d -> TInv (tcappend s c d).
Proof.
  intros Hs Hd c' m Hm. unfold tcappend, tclen, tcget in *.
  destruct (Nat.eqb_spec c' c) as [->|Hne].
  - unfold zlen in Hm. rewrite app_length in Hm. simpl in Hm.
    destruct (Z.eq_dec m (zlen (s c))) as [->|Hlt].
    + unfold zlen. rewrite Nat2Z.id. rewrite nth_middle. exact Hd.
    + rewrite app_nth1 by (unfold zlen in Hlt; lia). apply Hs. unfold tclen, zlen in *. lia.
  - apply Hs. exact Hm.
Qed.

Lemma text_cappend (s : tcache) c d : text s (tcappend s c d).
Proof.
  intros c'. unfold tcappend. destruct (Nat.eqb_spec c' c) as [->|Hne]; [exists [d]; reflexivity|].
  exists []. rewrite app_nil_r. reflexivity.
Qed.

Lemma tclen_cappend (s : tcache) c d c' :
  tclen (tcappend s c d) c' = if Nat.eqb c' c then tclen s c + 1 else tclen s c'.
Proof.
  unfold tclen, tcappend, zlen. destruct (Nat.eqb_spec c' c) as [->|Hne]; [|reflexivity].
  rewrite app_length. simpl. lia.
Qed.

Lemma tloop_ok c r n fL :
  spec c = Some r -> 0 <= n ->
  (forall m, 0 <= m <= n -> forall cm, In cm (reads r m) -> forall f, (fL <= f)%nat -> TOK f cm) ->
  forall (j : nat) f s, TInv s -> n + 1 - tclen s c <= Z.of_nat j -> (fL + 1 + j <= f)%nat ->
    exists s', tensure tspec f s c n = Some s' /\ TInv s' /\ text s s' /\
               tbelow s s' (S (rank c n)) /\ n < tclen s' c.
Proof.
  intros Hr Hn HL. induction j as [|j IH]; intros f s Hs Hj Hf.
  - destruct f as [|f]; [lia|]. rewrite tensure_S.
    destruct (Z.ltb_spec n (tclen s c)) as [Hlt|Hge]; [|lia].
    exists s. csplit; auto using text_refl, tbelow_refl.
  - destruct f as [|f]; [lia|]. rewrite tensure_S.
    destruct (Z.ltb_spec n (tclen s c)) as [Hlt|Hge].
    { exists s. csplit; auto using text_refl, tbelow_refl. }
    unfold tspec_of at 1. rewrite Hr. set (m := tclen s c) in *.
    assert (Hm : 0 <= m <= n) by (pose proof (tclen_nonneg s c); lia).
    destruct (tlevel_ok c r m f Hr ltac:(lia)) with (s := s) as (s1 & d & E & Hs1 & Hx1 & Hb1 & Hd); auto.
    { intros cm Hin. apply (HL m Hm cm Hin). lia. }
    rewrite E.
    assert (Hlen1 : tclen s1 c = m).
    { pose proof (text_clen s s1 c Hx1) as Hle. fold m in Hle.
      destruct (Z.eq_dec (tclen s1 c) m) as [|Hne]; [assumption|].
      specialize (Hb1 c m ltac:(fold m; lia)). lia. }
    set (s2 := tcappend s1 c d).
    assert (Hs2 : TInv s2) by (apply TInv_cappend; [assumption|rewrite Hlen1; assumption]).
    assert (Hrank_m : (rank c m <= rank c n)%nat).
    { destruct (Z.eq_dec m n) as [->|Hne]; [lia|]. pose proof (rank_mono c m n ltac:(lia)). lia. }
    destruct (IH f s2 Hs2) as (s' & E' & Hs' & Hx' & Hb' & Hl'); [| lia |].
    { unfold s2. rewrite tclen_cappend, Nat.eqb_refl. lia. }
    exists s'. rewrite E'. csplit; auto.
    + eapply text_trans; [eassumption|]. eapply text_trans; [apply text_cappend|eassumption].
    + eapply tbelow_trans; [eapply tbelow_weaken; [|eassumption]; lia|].
      eapply tbelow_trans; [|eassumption].
      intros c' m' Hm'. unfold s2 in Hm'. rewrite tclen_cappend in Hm'.
      destruct (Nat.eqb_spec c' c) as [->|Hne]; [|lia].
      assert (m' = m) by lia. subst m'. lia.
Qed.

Theorem tensure_total : forall (R : nat) c n,
  (rank c n <= R)%nat -> 0 <= n -> spec c <> None ->
  exists f0, forall f, (f0 <= f)%nat -> TOK f (c, n).
Proof.
  induction R as [R IHR] using lt_wf_ind. intros c n HR Hn Hc.
  destruct (spec c) as [r|] eqn:Hr; [|congruence].
  set (levels := map Z.of_nat (seq 0 (Z.to_nat n + 1))).
  set (allreads := flat_map (fun m => reads r m) levels).
  assert (Hall : forall m cm, 0 <= m <= n -> In cm (reads r m) -> In cm allreads).
  { intros m cm Hm Hin. apply in_flat_map. exists m. split; [|assumption].
    apply in_map_iff. exists (Z.to_nat m). split; [lia|]. apply in_seq. lia. }
  destruct (exists_fuel_list (fun cm f => TOK f cm) allreads) as [fL HfL].
  { intros [c' m'] Hin. apply in_flat_map in Hin. destruct Hin as (m & Hm & Hin).
    apply in_map_iff in Hm. destruct Hm as (k & <- & Hk). apply in_seq in Hk.
    destruct (rank_reads c r (Z.of_nat k) c' m' Hr ltac:(lia) Hin) as [H0 Hrk].
    assert (Hle : (rank c (Z.of_nat k) <= rank c n)%nat).
    { destruct (Z.eq_dec (Z.of_nat k) n) as [->|Hne]; [lia|].
      pose proof (rank_mono c (Z.of_nat k) n ltac:(lia)). lia. }
    apply (IHR (rank c' m') ltac:(lia) c' m' (le_n _) H0).
    eapply closed; [exact Hr| |exact Hin]. lia. }
  exists (fL + 1 + Z.to_nat (n + 1))%nat. intros f Hf s Hs. simpl.
  apply (tloop_ok c r n fL Hr Hn) with (j := Z.to_nat (n + 1)); auto.
  - intros m Hm cm Hin f' Hf'. apply HfL; [assumption|]. eapply Hall; eassumption.
  - pose proof (tclen_nonneg s c). lia.
Qed.

Lemma TInv_empty : TInv empty_tcache.
Proof. intros c m Hm. unfold tclen, empty_tcache, zlen in Hm. simpl in Hm. lia. Qed.

(* count_objects_of_size alone: from every consistent terms cache the answer is the number of
   objects of any duplicate-free enumeration of the class at that size and parameters *)
Theorem count_exact c n :
  spec c <> None -> 0 <= n ->
  exists f0, forall f, (f0 <= f)%nat -> forall t, TInv t -> forall p,
    exists t' k, count_objects_of_size tspec f t c n p = Some (t', k) /\ TInv t' /\
                 forall l, NoDup l -> (forall o, In o l <-> isobj c n p o) -> k = zlen l.
Proof.
  intros Hc Hn. destruct (tensure_total (rank c n) c n (le_n _) Hn Hc) as [f0 H0].
  exists f0. intros f Hf t Ht p. destruct (H0 f Hf t Ht) as (t' & E & Ht' & _ & _ & Hl). simpl in *.
  exists t', (counter_get (tcget t' c n) p). unfold count_objects_of_size, get_terms. rewrite E.
  split; [reflexivity|]. split; [assumption|].
  intros l Hnd Hm. destruct (Ht' c n ltac:(lia)) as (_ & d & Hg & He). rewrite He.
  destruct Hg as [_ Hg]. destruct (Hg p) as [Hnd' Hm'].
  unfold zlen. f_equal. apply Permutation_length. apply NoDup_Permutation; auto.
  intros o. rewrite Hm, Hm'. reflexivity.
Qed.

(* C07_count_eq_length *)
Theorem count_eq_length c n :
  spec c <> None -> 0 <= n ->
  exists f0, forall f, (f0 <= f)%nat ->
    forall t, TInv t -> forall s, Inv size In_cls par s -> forall p,
    exists t' k s' l, count_objects_of_size tspec f t c n p = Some (t', k) /\
                      generate_objects_of_size spec f s c n p = Some (s', l) /\
                      k = zlen l /\ TInv t' /\ Inv size In_cls par s'.
Proof.
  intros Hc Hn.
  destruct (count_exact c n Hc Hn) as [f1 H1].
  destruct (generate_exact size In_cls par spec rank all_ok closed rank_reads rank_mono c n Hc Hn) as [f2 H2].
  exists (Nat.max f1 f2). intros f Hf t Ht s Hs p.
  destruct (H1 f ltac:(lia) t Ht p) as (t' & k & E1 & Ht' & Hk).
  destruct (H2 f ltac:(lia) s Hs p) as (s' & l & E2 & Hs' & Hnd & Hm).
  exists t', k, s', l. csplit; auto.
Qed.

End TSpec.
