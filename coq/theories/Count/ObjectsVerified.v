(* C07 — the object cache of a verification rule.

   rule.py, VerificationRule._ensure_level_objects(n):
       while n >= len(self.objects_cache):
           objects = self.strategy.get_objects(self.comb_class, len(self.objects_cache))
           self.objects_cache.append(objects)
   is `ensure` of Count/ObjectsModel.v on a class whose rule is RVerified tbl
   (tbl k = strategy.get_objects(class, k)).  Whatever the ORDER in which sizes are
   requested - increasing, decreasing, the same class first reached as a factor of a
   product at its minimum size and later as a summand of a union at size 0 - level k of
   the cache holds tbl k: a request for size n appends exactly tbl (len), .., tbl n to
   this class's cache, touches no other cache, and needs no productivity hypothesis. *)
From Coq Require Import ZArith List Bool Lia.
From CSS Require Import Base.PyList Gen.Prelude Gen.Compositions Count.ObjectsModel.
Import ListNotations.
Open Scope Z_scope.

Section Verified.
Context {obj : Type}.
Variable spec : nat -> option (rule obj).
Variables (c : nat) (tbl : Z -> objects obj).
Hypothesis verified : spec c = Some (RVerified tbl).

(* the levels clen .. n, in order *)
Definition new_levels (from : Z) (n : Z) : list (objects obj) :=
  map (fun i => tbl (from + Z.of_nat i)) (seq 0 (Z.to_nat (n + 1 - from))).

Theorem verified_ensure : forall f s n s',
  ensure spec f s c n = Some s' ->
  (forall c', c' <> c -> s' c' = s c') /\ s' c = s c ++ new_levels (clen s c) n.
Proof.
  induction f as [|f IH]; intros s n s' E; [discriminate|].
  simpl in E. destruct (Z.ltb_spec n (clen s c)) as [Hlt|Hge].
  - inversion E; subst s'. split; [reflexivity|]. unfold new_levels.
    replace (Z.to_nat (n + 1 - clen s c)) with O by lia. simpl. rewrite app_nil_r. reflexivity.
  - rewrite verified in E. simpl in E.
    destruct (IH _ _ _ E) as [Hother Hc]. split.
    + intros c' Hne. rewrite (Hother c' Hne). unfold cappend.
      destruct (Nat.eqb_spec c' c); [contradiction|reflexivity].
    + rewrite Hc. unfold cappend at 1. rewrite Nat.eqb_refl. rewrite <- app_assoc. f_equal.
      assert (El : clen (cappend s c (tbl (clen s c))) c = clen s c + 1).
      { unfold clen, cappend, zlen. rewrite Nat.eqb_refl, app_length. simpl. lia. }
      rewrite El. unfold new_levels.
      replace (Z.to_nat (n + 1 - clen s c)) with (S (Z.to_nat (n + 1 - (clen s c + 1)))) by lia.
      cbn [seq map app]. rewrite Z.add_0_r. f_equal.
      rewrite <- seq_shift, map_map. apply map_ext. intros i. f_equal. lia.
Qed.

(* "level k of the cache holds strategy.get_objects(class, k)" *)
Definition vcons (s : cache) : Prop := forall k, 0 <= k < clen s c -> cget s c k = tbl k.

Lemma vcons_empty : vcons empty_cache.
Proof. intros k Hk. unfold clen, empty_cache, zlen in Hk. simpl in Hk. lia. Qed.

Theorem verified_levels : forall f s n s',
  vcons s -> ensure spec f s c n = Some s' ->
  vcons s' /\ (0 <= n -> n < clen s' c /\ cget s' c n = tbl n).
Proof.
  intros f s n s' Hs E. destruct (verified_ensure f s n s' E) as [_ Hc].
  assert (Hlen : clen s' c = clen s c + Z.of_nat (Z.to_nat (n + 1 - clen s c))).
  { unfold clen, zlen. rewrite Hc, app_length. unfold new_levels. rewrite map_length, seq_length.
    unfold clen, zlen. lia. }
  assert (Hv : vcons s').
  { intros k Hk. unfold cget. rewrite Hc.
    destruct (Z_lt_le_dec k (clen s c)) as [Hlt|Hge].
    - rewrite app_nth1 by (unfold clen, zlen in Hlt; lia). apply Hs. lia.
    - rewrite app_nth2 by (unfold clen, zlen in Hge; lia).
      unfold new_levels.
      set (i := (Z.to_nat k - length (s c))%nat).
      assert (Hi : (i < Z.to_nat (n + 1 - clen s c))%nat) by (unfold i, clen, zlen in *; lia).
      rewrite nth_indep with (d' := tbl (clen s c + Z.of_nat O)) by (rewrite map_length, seq_length; assumption).
      rewrite (map_nth (fun i => tbl (clen s c + Z.of_nat i)) (seq 0 (Z.to_nat (n + 1 - clen s c))) O i).
      rewrite seq_nth by assumption. f_equal. unfold i, clen, zlen in *. lia. }
  split; [assumption|]. intros Hn.
  assert (Hl : n < clen s' c).
  { destruct (Z_lt_le_dec n (clen s c)); lia. }
  split; [assumption|]. apply Hv. lia.
Qed.

(* get_objects(n) of a verification rule answers strategy.get_objects(class, n), from every
   state in which the levels already cached are the right ones (in particular the empty one),
   with two units of recursion depth more than levels to fill *)
Theorem verified_get_objects : forall s n, vcons s -> 0 <= n ->
  forall f, (Z.to_nat (n + 1 - clen s c) + 1 <= f)%nat ->
  exists s', get_objects spec f s c n = Some (s', tbl n) /\ vcons s'.
Proof.
  intros s n Hs Hn f Hf.
  assert (G : forall (j : nat) f s, (Z.to_nat (n + 1 - clen s c) <= j)%nat -> (j + 1 <= f)%nat ->
              exists s', ensure spec f s c n = Some s').
  { induction j as [|j IH]; intros f0 s0 Hj Hf0.
    - destruct f0 as [|f0]; [lia|]. simpl. destruct (Z.ltb_spec n (clen s0 c)); [eauto|lia].
    - destruct f0 as [|f0]; [lia|]. simpl. destruct (Z.ltb_spec n (clen s0 c)); [eauto|].
      rewrite verified. simpl. apply IH; [|lia].
      assert (El : clen (cappend s0 c (tbl (clen s0 c))) c = clen s0 c + 1).
      { unfold clen, cappend, zlen. rewrite Nat.eqb_refl, app_length. simpl. lia. }
      rewrite El. lia. }
  destruct (G (Z.to_nat (n + 1 - clen s c)) f s (le_n _) Hf) as [s' E].
  destruct (verified_levels f s n s' Hs E) as [Hv Hl]. destruct (Hl Hn) as [_ Hg].
  exists s'. unfold get_objects. rewrite E, Hg. split; [reflexivity|assumption].
Qed.

End Verified.
