(* C08 — executable model of the specification-level sampler WITH extra parameters.
   NO PROOFS HERE.  Built from the constructor-level pieces of Count/SampleModel.v
   (walk, union_extra / union_weight / union_branches, prod_comps / prod_weight /
   prod_extra): nothing of them is redefined.

   Transcribed (Python names in comments):
     strategies/rule.py        AbstractRule.count_objects_of_size(n, **parameters),
                               Rule.random_sample_object_of_size(n, **parameters)
                               (Rule, EquivalenceRule, EquivalencePathRule: the constructor is a
                               DisjointUnion; for the path rule it carries the composed dictionary
                               and fixed_values), EquivalencePathRule.constructor,
                               VerificationRule.random_sample_object_of_size
     strategies/constructor/   DisjointUnion / CartesianProduct .random_sample_sub_objects: the
                               sub-sampler chosen is called with the DICTIONARY extra_params
     specification.py          CombinatorialSpecification.random_sample_object_of_size(n, **parameters)

   A class is described by its rule: kind, minimum size, is_atom, children, its
   extra_parameters, get_minimum_value of each, and the constructor's dictionaries
   (extra_parameters[i] : parent variable -> child variable; fixed_values[i]).
   tab c n is rule.get_terms(n) of class c: a Counter as a list (parameter tuple, count).   *)
From Coq Require Import ZArith List Bool.
From CSS Require Import Gen.Prelude Count.SampleModel.
Import ListNotations.
Open Scope Z_scope.

Record pcls := {
  pk_kind : Z;                (* K_ATOM / K_EMPTY / K_UNION / K_PRODUCT *)
  pk_min : Z;                 (* comb_class.minimum_size_of_object() *)
  pk_atom : bool;             (* comb_class.is_atom() *)
  pk_kids : list nat;         (* labels of rule.children *)
  pk_params : list Z;         (* comb_class.extra_parameters *)
  pk_minval : dict;           (* variable -> comb_class.get_minimum_value(variable) *)
  pk_eps : list dict;         (* constructor.extra_parameters *)
  pk_fixed : list dict;       (* DisjointUnion.fixed_values (union rules) *)
}.

(* the entries of get_terms(n) as entries (n, tuple, count) of a child table *)
Definition sized (n : Z) (t : list (list Z * Z)) : list (Z * list Z * Z) :=
  map (fun e : list Z * Z => (n, fst e, snd e)) t.

(* the two walks again, returning the DICTIONARIES handed to the sub-samplers
   (union_pick / prod_pick return the tuples the token sub-samplers of the harness read off) *)
Definition union_pick_dict (pvars : list Z) (kids : list child) (eps fixed : list dict)
           (n : Z) (params : dict) (r : Z) : res (nat * dict) :=
  match union_extra eps fixed params with
  | Err e => Err e
  | Ok extra =>
      match walk (union_weight n params) r 0 0%nat (union_branches pvars kids eps extra) with
      | Err e => Err e
      | Ok (i, b) =>
          match ub_extra b with
          | None => Err E_ASSERT     (* unreachable: skipped branches are never returned *)
          | Some q => Ok (i, q)      (* subsampler(n=n, **extra_params) *)
          end
      end
  end.

Definition prod_pick_dict (pvars : list Z) (pmins : vec) (kids : list pchild) (n : Z) (params : dict) (r : Z)
  : res (list (Z * dict)) :=
  match kids with
  | [] => Err E_INDEX
  | _ :: _ =>
      match tuple_of pvars params with
      | None => Err E_ASSERT
      | Some pv =>
          if negb (Nat.eqb (length params) (length pvars)) then Err E_ASSERT else
          match walk (prod_weight pvars kids) r 0 0%nat (prod_comps pvars pmins kids (n :: pv)) with
          | Err e => Err e
          | Ok (_, comp) =>
              match prod_extra pvars kids comp with
              | Ok (Some ex) => Ok ex       (* subsampler(n=extra_params.pop("n"), **extra_params) for each child *)
              | Ok None => Err E_ASSERT     (* assert extra_parameters is not None *)
              | Err e => Err e
              end
          end
      end
  end.

(* EquivalencePathRule.constructor: the dictionaries of the chain (Complement steps already
   inverted by the caller) composed from the identity on the first class's parameters, and
   fixed_values = {k: 0 for k in last.extra_parameters if k not in composed.values()} *)
Definition path_compose (acc step : dict) : dict :=
  flat_map (fun pc : Z * Z => match dget step (snd pc) with
                              | Some x => [(fst pc, x)]
                              | None => []
                              end) acc.
Definition path_dict (first : list Z) (steps : list dict) : dict :=
  fold_left path_compose steps (map (fun k => (k, k)) first).
Definition path_fixed (last : list Z) (d : dict) : dict :=
  map (fun k => (k, 0)) (filter (fun k => negb (zmem k (map snd d))) last).

Section PSpec.
  Variable rule_of : nat -> pcls.
  Variable tab : nat -> Z -> list (list Z * Z).

  (* subrecs[i] = child_rule.count_objects_of_size as a table: what a union asks (size n only) *)
  Definition kid_at (n : Z) (ci : nat) : child :=
    {| ch_params := pk_params (rule_of ci); ch_table := sized n (tab ci n) |}.
  (* ... what a product asks (sizes 0..n) *)
  Definition kid_upto (n : Z) (ci : nat) : child :=
    {| ch_params := pk_params (rule_of ci);
       ch_table := flat_map (fun m => sized m (tab ci m)) (py_range 0 (n + 1)) |}.
  Definition pkid (n : Z) (ce : nat * dict) : pchild :=
    {| pc_child := kid_upto n (fst ce);
       pc_min := pk_min (rule_of (fst ce));
       pc_atom := pk_atom (rule_of (fst ce));
       pc_minval := pk_minval (rule_of (fst ce));
       pc_ep := snd ce |}.

  Definition minval_of (k : pcls) (v : Z) : Z := match dget (pk_minval k) v with Some m => m | None => 0 end.
  (* CartesianProduct.minimum_sizes as a vector ("n" first) *)
  Definition pmins_of (k : pcls) : vec := pk_min k :: map (minval_of k) (pk_params k).

  (* AbstractRule.count_objects_of_size(n, **parameters) *)
  Definition pcount (c : nat) (n : Z) (params : dict) : res Z := rec_count (kid_at n c) n params.

  (* <AbstractRule>.random_sample_object_of_size(n, **parameters) *)
  Fixpoint psample (fuel : nat) (c : nat) (n : Z) (params : dict) : rc tree :=
    match fuel with
    | O => Fail E_FUEL
    | S f =>
        let k := rule_of c in
        if pk_kind k =? K_ATOM then
          (* the verification strategy's sampler (AtomStrategy; with parameters a user strategy
             such as harness/universes/c08_stats.StatAtom): the parameters are not looked at *)
          if n =? pk_min k then Ret (Leaf c) else Fail E_VALUE
        else if pk_kind k =? K_EMPTY then Fail E_NOT_APPLY
        else if pk_kind k =? K_UNION then
          match pcount c n params with            (* total_count = self.count_objects_of_size(n=n, **parameters) *)
          | Err e => Fail e
          | Ok total =>
              Draw 1 total (fun r =>
                match union_pick_dict (pk_params k) (map (kid_at n) (pk_kids k)) (pk_eps k) (pk_fixed k) n params r with
                | Err e => Fail e
                | Ok (i, q) =>
                    match nth_error (pk_kids k) i with
                    | None => Fail E_ASSERT        (* unreachable: zip stops at the shortest *)
                    | Some ci => bind (psample f ci n q) (fun t => choice1 (UNode c i t))
                    end
                end)
          end
        else if pk_kind k =? K_PRODUCT then
          match pcount c n params with
          | Err e => Fail e
          | Ok total =>
              Draw 1 total (fun r =>
                match prod_pick_dict (pk_params k) (pmins_of k) (map (pkid n) (combine (pk_kids k) (pk_eps k)))
                                     n params r with
                | Err e => Fail e
                | Ok ex =>
                    bind (mapM (fun p : nat * (Z * dict) => psample f (fst p) (fst (snd p)) (snd (snd p)))
                               (combine (pk_kids k) ex))
                         (fun ts => choice1 (PNode c ts))
                end)
          end
        else Fail E_NOT_APPLY
    end.

  (* CombinatorialSpecification.random_sample_object_of_size(n, **parameters) *)
  Definition pspec_sample (fuel : nat) (root : nat) (n : Z) (params : dict) : rc tree :=
    match pcount root n params with
    | Err e => Fail e
    | Ok v => if 0 <? v then psample fuel root n params else Fail E_INVALID_OP
    end.
End PSpec.
