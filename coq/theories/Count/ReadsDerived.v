(* Proofs about the derived rule forms of Count/ReadsModel.v (equivalence rule of a union,
   equivalence rule of the reverse of a union, equivalence path): what they read, what they
   declare through the GENERATED union_shifts / product_shifts on the one class handed to
   strategy.shifts, consistency with the rules they are derived from, and the statement for
   all seven forms together. *)
From Coq Require Import ZArith List Bool Lia ZifyBool.
From CSS Require Import Gen.Prelude Gen.Compositions Gen.ReverseShifts Gen.ProductShifts
  Gen.UnionShifts Gen.QuotientParentShift Count.CompositionsSpec.
From CSS Require Export Count.Reads.
Import ListNotations.
Open Scope Z_scope.

(* ---------------------------------------------------------------- declared shifts *)
Lemma union_shifts_one (d : Z * bool) : union_shifts [d] = [0].
Proof. reflexivity. Qed.

Lemma product_shifts_one (d : Z * bool) : product_shifts [d] = [0].
Proof. unfold product_shifts. cbv zeta. cbn [map]. rewrite py_sum_cons. unfold py_sum. cbn [fold_right]. replace (fst d + 0 - fst d) with 0 by lia. reflexivity. Qed.

Lemma derived_shifts_eq strat d : derived_shifts strat d = [0].
Proof.
  unfold derived_shifts. destruct (strat =? 0).
  - apply union_shifts_one.
  - apply product_shifts_one.
Qed.

Lemma derived_shifts_length strat d : zlen (derived_shifts strat d) = 1.
Proof. rewrite derived_shifts_eq. reflexivity. Qed.

(* ---------------------------------------------------------------- reads *)
Lemma derived_reads_eq form d n : 4 <= form <= 6 -> derived_reads form d n = [(0, n)].
Proof.
  intros Hf. assert (E : form = 4 \/ form = 5 \/ form = 6) by lia.
  destruct E as [-> | [-> | ->]]; reflexivity.
Qed.

Lemma derived_reads_respect_shifts form strat d :
  4 <= form <= 6 ->
  zlen (derived_shifts strat d) = 1 /\
  forall n p m, In (p, m) (derived_reads form d n) ->
    p = 0 /\ p <> SELF /\ m <= n - nth 0 (derived_shifts strat d) 0 /\
    m = n /\ nth 0 (derived_shifts strat d) 0 = 0.
Proof.
  intros Hf. split; [apply derived_shifts_length|].
  intros n p m H.
  (* through the specifications of the constructor reads they are defined by *)
  assert (Hpm : m = n /\ p = 0).
  { assert (E : form = 4 \/ form = 5 \/ form = 6) by lia.
    destruct E as [-> | [-> | ->]]; unfold derived_reads in H.
    - apply reads_union_spec in H. destruct H as [Hm Hp]. split; [exact Hm|].
      change (zlen [d]) with 1 in Hp. lia.
    - apply reads_complement_spec in H. destruct H as [Hm Hp]. split; [exact Hm|].
      change (zlen [d]) with 1 in Hp. lia.
    - apply reads_union_spec in H. destruct H as [Hm Hp]. split; [exact Hm|].
      change (zlen [d]) with 1 in Hp. lia. }
  destruct Hpm as [-> ->]. rewrite derived_shifts_eq. cbn [nth]. unfold SELF.
  repeat split; lia.
Qed.

Lemma derived_reads_child_is_read form d n : 4 <= form <= 6 -> In (0, n) (derived_reads form d n).
Proof. intros Hf. rewrite derived_reads_eq by exact Hf. left. reflexivity. Qed.

(* ---------------------------------------------------------------- consistency with the rules they come from *)
(* form 4 of a union: the shift the equivalence rule declares for its one child is the shift the
   original union rule declares for that child (position ci among the original children c) *)
Lemma equiv_union_shift_consistent (c : desc) ci d0 :
  0 <= ci < zlen c ->
  nth 0 (derived_shifts 0 (nth (Z.to_nat ci) c d0)) 0 = nth (Z.to_nat ci) (union_shifts c) 0.
Proof.
  intros _. rewrite derived_shifts_eq. cbn [nth].
  symmetry. apply nth_Forall_zero. apply union_shifts_zero.
Qed.

(* form 5: the shift the equivalence rule of the reverse rule declares for its one child, the
   ORIGINAL parent (descriptor dp, any), is the shift the reverse rule declares for provider 0 *)
Lemma equiv_reverse_shift_consistent (c : desc) idx dp :
  nth 0 (derived_shifts 0 dp) 0 = nth 0 (reverse_shifts (union_shifts c) idx) 0.
Proof.
  rewrite derived_shifts_eq. cbn [nth].
  symmetry. apply nth_Forall_zero. apply complement_shifts_zero.
Qed.

(* the same at the level of reads: the original union rule reads child ci at the size n at which its
   equivalence rule reads its one child, and the reverse rule reads the original parent (provider 0)
   at the size n at which the equivalence rule of the reverse rule does; the providers dropped by
   the equivalence rules are the empty siblings *)
Lemma in_enumerate_from_nth {A} (d : A) : forall (l : list A) s (j : nat),
  (j < length l)%nat -> In (s + Z.of_nat j, nth j l d) (py_enumerate_from s l).
Proof.
  induction l as [|x l IH]; intros s j H; simpl in H; [lia|].
  destruct j as [|j].
  - left. simpl. f_equal. lia.
  - right. replace (s + Z.of_nat (S j)) with ((s + 1) + Z.of_nat j) by lia. apply IH. lia.
Qed.

Lemma derived_reads_are_original_reads (c : desc) ci idx d n :
  0 <= ci < zlen c ->
  (In (0, n) (derived_reads 4 d n) /\ In (ci, n) (reads_union c n)) /\
  (In (0, n) (derived_reads 5 d n) /\ In (0, n) (reads_complement c idx n)).
Proof.
  intros H. rewrite zlen_length in H. split; split.
  - left. reflexivity.
  - unfold reads_union, py_enumerate. apply in_map_iff.
    exists (ci, nth (Z.to_nat ci) c (0, false)). split; [reflexivity|].
    rewrite <- (Z2Nat.id ci) at 1 by lia.
    apply (in_enumerate_from_nth (0, false) c 0 (Z.to_nat ci)). lia.
  - left. reflexivity.
  - left. reflexivity.
Qed.

(* the same two questions for a CartesianProductStrategy: the original product rule declares for
   child ci the sum of the minimum sizes of the OTHER children; the equivalence rule, asking the
   strategy about (parent, (child ci,)) only, declares 0 *)
Lemma product_min_sizes_remove_at (c : desc) (i : nat) :
  product_min_sizes (remove_at (Z.of_nat i) c) = firstn i (product_min_sizes c) ++ skipn (S i) (product_min_sizes c).
Proof. rewrite remove_at_nat. unfold product_min_sizes. apply map_remove_at. Qed.

Lemma equiv_product_shift_vs_original (c : desc) ci d0 :
  0 <= ci < zlen c ->
  nth (Z.to_nat ci) (product_shifts c) 0 =
  nth 0 (derived_shifts 1 (nth (Z.to_nat ci) c d0)) 0 + py_sum (product_min_sizes (remove_at ci c)).
Proof.
  intros H. rewrite zlen_length in H.
  rewrite derived_shifts_eq. cbn [nth].
  rewrite <- (Z2Nat.id ci) at 2 by lia.
  rewrite product_min_sizes_remove_at.
  assert (L : length (product_min_sizes c) = length c) by (unfold product_min_sizes; apply map_length).
  rewrite sum_remove_at by lia.
  rewrite product_shifts_nth by lia. lia.
Qed.

(* form 6: the shift a path declares is the sum of the shifts its steps declare (every step is
   an equivalence rule, form 4 or 5, on some strategy and class) *)
Lemma path_shift_is_sum_of_steps (steps : list (Z * (Z * bool))) strat d :
  nth 0 (derived_shifts strat d) 0 =
  py_sum (map (fun s : Z * (Z * bool) => nth 0 (derived_shifts (fst s) (snd s)) 0) steps).
Proof.
  rewrite derived_shifts_eq. cbn [nth].
  induction steps as [|s steps IH]; [reflexivity|].
  cbn [map]. rewrite py_sum_cons, <- IH, derived_shifts_eq. reflexivity.
Qed.

(* ---------------------------------------------------------------- all seven forms *)
Lemma rd_shifts_length r : rd_wf r -> zlen (rd_shifts r) = rd_nchildren r.
Proof.
  destruct r as [form c idx | form strat d]; cbn [rd_wf rd_shifts rd_nchildren].
  - intros [Hf Hidx]. apply rule_shifts_length; assumption.
  - intros _. apply derived_shifts_length.
Qed.

Lemma rd_reads_respect_shifts r n p m :
  rd_wf r ->
  In (p, m) (rd_reads r n) ->
  (p = SELF /\ m < n) \/
  (0 <= p < rd_nchildren r /\ m <= n - nth (Z.to_nat p) (rd_shifts r) 0).
Proof.
  destruct r as [form c idx | form strat d]; cbn [rd_wf rd_reads rd_shifts rd_nchildren].
  - intros [Hf Hidx] H. apply rule_reads_respect_shifts; assumption.
  - intros Hf H. right.
    destruct (derived_reads_respect_shifts form strat d Hf) as [_ Hr].
    destruct (Hr n p m H) as (-> & _ & Hm & _). split; [lia|]. exact Hm.
Qed.
