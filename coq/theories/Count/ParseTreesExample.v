(* Objects <-> parse trees: two concrete specifications meeting every hypothesis of the bijection
   (non-vacuity for C07_objects_are_parse_trees, C08_uniform_objects, C12_constructed_bijection_objects).
   Objects are the words a^k (k : nat) over one letter.
   Side A = Count/ObjectsExample.v (the grammar of Props/C12.v exA):
       0 -> 1 + 2,  2 -> 3 x 0,  1 = {eps}, 3 = {a}
   Side B (the grammar of Props/C12.v exB): an equivalence step in front, the union's children in another
   order with an EMPTY third child, the factors of the product exchanged:
       5 -> 0 (equivalence),  0 -> 2 + 1 + 9,  2 -> 0 x 3,  1 = {eps}, 3 = {a}, 9 = {}            *)
From Coq Require Import ZArith List Bool Lia.
From CSS Require Import Base.PyList Gen.Prelude Gen.Compositions Count.CompositionsSpec
                        Count.ObjectsModel Count.ObjectsLists Count.ObjectsProofs Count.ObjectsSpec
                        Count.ObjectsExample Count.SampleModel Count.ParseTrees Count.ParseTreesProofs.
Import ListNotations.
Open Scope Z_scope.

(* ---------------------------------------------------------------- side A *)
Definition ex_atomo (c : nat) : option nat :=
  match c with 1%nat => Some 0%nat | 3%nat => Some 1%nat | _ => None end.
Definition ex_fwd (c : nat) : nat -> subobj nat :=
  match c with 0%nat => ex_fwdU | 2%nat => ex_fwdP | _ => fun _ => [] end.

Lemma ex_node_ok : forall c, node_ok ex_size ex_in ex_par ex_spec ex_atomo ex_fwd c.
Proof.
  intros c. unfold node_ok. destruct c as [|[|[|[|c]]]]; simpl; auto.
  - apply ex_union_contract.
  - intros o. tauto.
  - split; [apply ex_product_contract|apply ex_bounds].
  - intros o. tauto.
Qed.

Lemma ex_size_nonneg : forall c o, ex_in c o -> 0 <= ex_size o.
Proof. intros c o _. unfold ex_size. lia. Qed.

(* ---------------------------------------------------------------- side B *)
Definition exb_in (c : nat) (o : nat) : Prop :=
  match c with
  | 5%nat => True
  | 0%nat => True
  | 1%nat => o = 0%nat
  | 2%nat => (1 <= o)%nat
  | 3%nat => o = 1%nat
  | _ => False
  end.
Definition exb_fwdE (o : nat) : subobj nat := [Some o].
Definition exb_bwdE (t : subobj nat) : list nat := match t with [Some x] => [x] | _ => [] end.
Definition exb_fwdU (o : nat) : subobj nat :=
  match o with O => [None; Some O; None] | S _ => [Some o; None; None] end.
Definition exb_bwdU (t : subobj nat) : list nat :=
  match t with
  | [Some x; None; None] => [x]
  | [None; Some x; None] => [x]
  | _ => []
  end.
Definition exb_fwdP (o : nat) : subobj nat := [Some (o - 1)%nat; Some 1%nat].
Definition exb_bwdP (t : subobj nat) : list nat :=
  match t with [Some x; Some y] => [(x + y)%nat] | _ => [] end.

Definition exb_spec (c : nat) : option (rule nat) :=
  match c with
  | 5%nat => Some (RUnion [0%nat] [pid] exb_bwdE)
  | 0%nat => Some (RUnion [2%nat; 1%nat; 9%nat] [pid; pid; pid] exb_bwdU)
  | 1%nat => Some (RVerified (ex_atom 0 0%nat))
  | 2%nat => Some (RProduct [0%nat; 3%nat] [0; 1] [None; Some 1] [pid; pid] exb_bwdP)
  | 3%nat => Some (RVerified (ex_atom 1 1%nat))
  | 9%nat => Some (RVerified (fun _ => []))
  | _ => None
  end.
Definition exb_atomo (c : nat) : option nat :=
  match c with 1%nat => Some 0%nat | 3%nat => Some 1%nat | _ => None end.
Definition exb_fwd (c : nat) : nat -> subobj nat :=
  match c with 5%nat => exb_fwdE | 0%nat => exb_fwdU | 2%nat => exb_fwdP | _ => fun _ => [] end.
Definition exb_rank (c : nat) (n : Z) : nat :=
  (8 * Z.to_nat n + match c with 5 => 4 | 0 => 3 | 2 => 2 | _ => 0 end)%nat.

Lemma exb_eq_contract : union_contract ex_size exb_in ex_par 5%nat [0%nat] [pid] exb_fwdE exb_bwdE.
Proof.
  split.
  - intros o _. exists 0%nat, 0%nat, o. repeat split.
  - intros i k y Hi _. destruct i as [|i]; [|destruct i; discriminate]. exists y. repeat split.
Qed.

Lemma exb_union_contract :
  union_contract ex_size exb_in ex_par 0%nat [2%nat; 1%nat; 9%nat] [pid; pid; pid] exb_fwdU exb_bwdU.
Proof.
  split.
  - intros o _. destruct o as [|o].
    + exists 1%nat, 1%nat, 0%nat. repeat split.
    + exists 0%nat, 2%nat, (S o). repeat split. simpl. lia.
  - intros i k y Hi Hy. destruct i as [|[|[|i]]]; simpl in Hi.
    + inversion Hi; subst k. simpl in Hy. exists y. destruct y as [|y]; [lia|]. repeat split.
    + inversion Hi; subst k. simpl in Hy. subst y. exists 0%nat. repeat split.
    + inversion Hi; subst k. destruct Hy.
    + destruct i; discriminate.
Qed.

Lemma exb_product_contract :
  product_contract ex_size exb_in ex_par 2%nat [0%nat; 3%nat] [pid; pid] exb_fwdP exb_bwdP.
Proof.
  split.
  - intros o Ho. simpl in Ho. exists [(o - 1)%nat; 1%nat]. split; [reflexivity|].
    split; [repeat constructor|]. split.
    + unfold ex_size, py_sum. cbn [map fold_right]. lia.
    + split; [reflexivity|]. unfold exb_fwdP, exb_bwdP. f_equal. lia.
  - intros ys Hys. inversion Hys as [|k y ks ys' Hy Hys' E1 E2]; subst.
    inversion Hys' as [|k2 z ks2 ys2 Hz Hys2 E1 E2]; subst. inversion Hys2; subst.
    simpl in Hz. subst z. exists (y + 1)%nat. split; [reflexivity|]. split; [simpl; lia|].
    unfold exb_fwdP. simpl. replace (y + 1 - 1)%nat with y by lia. reflexivity.
Qed.

Lemma exb_bounds : bounds_ok ex_size exb_in [0%nat; 3%nat] [0; 1] [None; Some 1].
Proof.
  split; [|split; [|split]].
  - constructor; [intros y _; unfold ex_size; lia|].
    constructor; [intros y Hy; simpl in Hy; subst; unfold ex_size; simpl; lia|constructor].
  - constructor; [intros y _; exact I|].
    constructor; [intros y Hy; simpl in Hy; subst; unfold ex_size; simpl; lia|constructor].
  - repeat constructor; lia.
  - simpl. lia.
Qed.

Lemma exb_node_ok : forall c, node_ok ex_size exb_in ex_par exb_spec exb_atomo exb_fwd c.
Proof.
  intros c. unfold node_ok.
  destruct c as [|[|[|[|[|[|[|[|[|[|c]]]]]]]]]]; simpl; auto.
  - apply exb_union_contract.
  - intros o. tauto.
  - split; [apply exb_product_contract|apply exb_bounds].
  - intros o. tauto.
  - apply exb_eq_contract.
Qed.

Lemma exb_product_reads n c' m :
  In (c', m) (flat_map (fun sizes => combine [0%nat; 3%nat] sizes)
                       (compositions n (zlen [0%nat; 3%nat]) [0; 1] [None; Some 1])) ->
  (c' = 0%nat /\ m = n - 1 /\ 1 <= n) \/ (c' = 3%nat /\ m = 1 /\ 1 <= n).
Proof.
  intros H. apply in_flat_map in H. destruct H as (sizes & Hs & Hin).
  apply compositions_sound in Hs; [|reflexivity|reflexivity].
  destruct Hs as (Hl & Hsum & Hmin & Hmax).
  inversion Hmin as [|m1 s1 ms ss H1 Hmin' E1 E2]; subst.
  inversion Hmin' as [|m2 s2 ms2 ss2 H2 Hmin'' E1 E2]; subst. inversion Hmin''; subst.
  inversion Hmax as [|s1' M1 ss' Ms Hb1 Hmax' E1 E2]; subst.
  inversion Hmax' as [|s2' M2 ss'' Ms' Hb2 Hmax'' E1 E2]; subst. simpl in Hb2.
  unfold py_sum. cbn [fold_right]. simpl in Hin.
  destruct Hin as [E|[E|[]]]; inversion E; subst; [left|right]; repeat split; lia.
Qed.

Lemma exb_closed : forall c r n c' m,
  exb_spec c = Some r -> 0 <= n -> In (c', m) (reads r n) -> exb_spec c' <> None.
Proof.
  intros c r n c' m H Hn Hin.
  destruct c as [|[|[|[|[|[|[|[|[|[|c]]]]]]]]]]; simpl in H; inversion H; subst; simpl in Hin; try contradiction.
  - destruct Hin as [E|[E|[E|[]]]]; inversion E; subst; discriminate.
  - apply exb_product_reads in Hin. destruct Hin as [(-> & _)|(-> & _)]; discriminate.
  - destruct Hin as [E|[]]; inversion E; subst; discriminate.
Qed.

Lemma exb_rank_reads : forall c r n c' m,
  exb_spec c = Some r -> 0 <= n -> In (c', m) (reads r n) ->
  0 <= m /\ (exb_rank c' m < exb_rank c n)%nat.
Proof.
  intros c r n c' m H Hn Hin.
  destruct c as [|[|[|[|[|[|[|[|[|[|c]]]]]]]]]]; simpl in H; inversion H; subst; simpl in Hin; try contradiction.
  - destruct Hin as [E|[E|[E|[]]]]; inversion E; subst; unfold exb_rank; split; lia.
  - apply exb_product_reads in Hin. unfold exb_rank.
    destruct Hin as [(-> & -> & H1)|(-> & -> & H1)]; split; lia.
  - destruct Hin as [E|[]]; inversion E; subst; unfold exb_rank; split; lia.
Qed.

Lemma exb_size_nonneg : forall c o, exb_in c o -> 0 <= ex_size o.
Proof. intros c o _. unfold ex_size. lia. Qed.

(* the model computes: the tree of "aa" in both specifications, and back *)
Example ex_parse_values :
  parse ex_spec ex_atomo ex_fwd 20 0%nat 2%nat
    = Some (UNode 0 1 (PNode 2 [Leaf 3; UNode 0 1 (PNode 2 [Leaf 3; UNode 0 0 (Leaf 1)])])) /\
  parse exb_spec exb_atomo exb_fwd 20 5%nat 2%nat
    = Some (UNode 5 0 (UNode 0 0 (PNode 2 [UNode 0 0 (PNode 2 [UNode 0 1 (Leaf 1); Leaf 3]); Leaf 3]))) /\
  unparse exb_spec exb_atomo
    (UNode 5 0 (UNode 0 0 (PNode 2 [UNode 0 0 (PNode 2 [UNode 0 1 (Leaf 1); Leaf 3]); Leaf 3]))) = Some 2%nat.
Proof. vm_compute. repeat split; reflexivity. Qed.

(* ---------------------------------------------------------------- words over {a, b} (a = false, b = true) *)
(* the grammar of Props/C08.v Module Ex:  0 = eps + a.0 + b.0   (1 = eps, 2 = a.0, 3 = a, 4 = b.0, 5 = b) *)
Definition wab_size (w : list bool) : Z := zlen w.
Definition wab_in (c : nat) (w : list bool) : Prop :=
  match c with
  | 0%nat => True
  | 1%nat => w = []
  | 2%nat => exists t, w = false :: t
  | 3%nat => w = [false]
  | 4%nat => exists t, w = true :: t
  | 5%nat => w = [true]
  | _ => False
  end.
Definition wab_par (c : nat) (w : list bool) : params := [].
Definition wab_fwdU (w : list bool) : subobj (list bool) :=
  match w with
  | [] => [Some []; None; None]
  | false :: _ => [None; Some w; None]
  | true :: _ => [None; None; Some w]
  end.
Definition wab_bwdU (t : subobj (list bool)) : list (list bool) :=
  match t with
  | [Some x; None; None] => [x]
  | [None; Some x; None] => [x]
  | [None; None; Some x] => [x]
  | _ => []
  end.
Definition wab_fwdP (w : list bool) : subobj (list bool) := [Some (firstn 1 w); Some (tl w)].
Definition wab_bwdP (t : subobj (list bool)) : list (list bool) :=
  match t with [Some x; Some y] => [x ++ y] | _ => [] end.
Definition wab_atom (m : Z) (o : list bool) : Z -> objects (list bool) :=
  fun n => if n =? m then [([], [o])] else [].
Definition wab_spec (c : nat) : option (rule (list bool)) :=
  match c with
  | 0%nat => Some (RUnion [1%nat; 2%nat; 4%nat] [pid; pid; pid] wab_bwdU)
  | 1%nat => Some (RVerified (wab_atom 0 []))
  | 2%nat => Some (RProduct [3%nat; 0%nat] [1; 0] [Some 1; None] [pid; pid] wab_bwdP)
  | 3%nat => Some (RVerified (wab_atom 1 [false]))
  | 4%nat => Some (RProduct [5%nat; 0%nat] [1; 0] [Some 1; None] [pid; pid] wab_bwdP)
  | 5%nat => Some (RVerified (wab_atom 1 [true]))
  | _ => None
  end.
Definition wab_atomo (c : nat) : option (list bool) :=
  match c with 1%nat => Some [] | 3%nat => Some [false] | 5%nat => Some [true] | _ => None end.
Definition wab_fwd (c : nat) : list bool -> subobj (list bool) :=
  match c with 0%nat => wab_fwdU | 2%nat => wab_fwdP | 4%nat => wab_fwdP | _ => fun _ => [] end.
Definition wab_rank (c : nat) (n : Z) : nat :=
  (8 * Z.to_nat n + match c with 0 => 3 | 2 => 2 | 4 => 2 | _ => 0 end)%nat.
Fixpoint wab_eqb (a b : list bool) : bool :=
  match a, b with
  | [], [] => true
  | x :: a', y :: b' => Bool.eqb x y && wab_eqb a' b'
  | _, _ => false
  end.
Lemma wab_eqb_eq a b : wab_eqb a b = true <-> a = b.
Proof.
  revert b. induction a as [|x a IH]; intros [|y b]; simpl; try (split; [discriminate|intros E; discriminate]).
  - split; reflexivity.
  - rewrite andb_true_iff, IH, Bool.eqb_true_iff. split; [intros [-> ->]; reflexivity|intros E; inversion E; auto].
Qed.

Lemma wab_union_contract :
  union_contract wab_size wab_in wab_par 0%nat [1%nat; 2%nat; 4%nat] [pid; pid; pid] wab_fwdU wab_bwdU.
Proof.
  split.
  - intros o _. destruct o as [|[|] t].
    + exists 0%nat, 1%nat, []. repeat split.
    + exists 2%nat, 4%nat, (true :: t). repeat split. exists t. reflexivity.
    + exists 1%nat, 2%nat, (false :: t). repeat split. exists t. reflexivity.
  - intros i k y Hi Hy. destruct i as [|[|[|i]]]; simpl in Hi.
    + inversion Hi; subst k. simpl in Hy. subst y. exists []. repeat split.
    + inversion Hi; subst k. destruct Hy as [t ->]. exists (false :: t). repeat split.
    + inversion Hi; subst k. destruct Hy as [t ->]. exists (true :: t). repeat split.
    + destruct i; discriminate.
Qed.

Lemma wab_product_contract (b : bool) (c ka : nat) :
  (forall w, wab_in c w <-> exists t, w = b :: t) -> (forall w, wab_in ka w <-> w = [b]) ->
  product_contract wab_size wab_in wab_par c [ka; 0%nat] [pid; pid] wab_fwdP wab_bwdP.
Proof.
  intros Hc Hka. split.
  - intros o Ho. apply Hc in Ho. destruct Ho as [t ->]. exists [[b]; t]. split; [reflexivity|].
    split; [constructor; [apply Hka; reflexivity|constructor; [exact I|constructor]]|]. split.
    + unfold wab_size, zlen, py_sum. cbn [map fold_right length]. lia.
    + split; reflexivity.
  - intros ys Hys. inversion Hys as [|k y ks ys' Hy Hys' E1 E2]; subst.
    inversion Hys' as [|k2 z ks2 ys2 Hz Hys2 E1 E2]; subst. inversion Hys2; subst.
    apply Hka in Hy. subst y. exists (b :: z). split; [reflexivity|]. split; [apply Hc; exists z; reflexivity|].
    reflexivity.
Qed.

Lemma wab_bounds (ka : nat) (b : bool) : (forall w, wab_in ka w <-> w = [b]) ->
  bounds_ok wab_size wab_in [ka; 0%nat] [1; 0] [Some 1; None].
Proof.
  intros Hka. split; [|split; [|split]].
  - constructor; [intros y Hy; apply Hka in Hy; subst; unfold wab_size, zlen; simpl; lia|].
    constructor; [intros y _; unfold wab_size, zlen; lia|constructor].
  - constructor; [intros y Hy; apply Hka in Hy; subst; unfold wab_size, zlen; simpl; lia|].
    constructor; [intros y _; exact I|constructor].
  - repeat constructor; lia.
  - simpl. lia.
Qed.

Lemma wab_node_ok : forall c, node_ok wab_size wab_in wab_par wab_spec wab_atomo wab_fwd c.
Proof.
  intros c. unfold node_ok. destruct c as [|[|[|[|[|[|c]]]]]]; simpl; auto.
  - apply wab_union_contract.
  - intros o. tauto.
  - split; [apply (wab_product_contract false)|apply (wab_bounds 3%nat false)]; intros w; simpl; tauto.
  - intros o. tauto.
  - split; [apply (wab_product_contract true)|apply (wab_bounds 5%nat true)]; intros w; simpl; tauto.
  - intros o. tauto.
Qed.

Lemma wab_product_reads (ka kb : nat) n c' m :
  In (c', m) (flat_map (fun sizes => combine [ka; kb] sizes)
                       (compositions n (zlen [ka; kb]) [1; 0] [Some 1; None])) ->
  (c' = ka /\ m = 1 /\ 1 <= n) \/ (c' = kb /\ m = n - 1 /\ 1 <= n).
Proof.
  intros H. apply in_flat_map in H. destruct H as (sizes & Hs & Hin).
  apply compositions_sound in Hs; [|reflexivity|reflexivity].
  destruct Hs as (Hl & Hsum & Hmin & Hmax).
  inversion Hmin as [|m1 s1 ms ss H1 Hmin' E1 E2]; subst.
  inversion Hmin' as [|m2 s2 ms2 ss2 H2 Hmin'' E1 E2]; subst. inversion Hmin''; subst.
  inversion Hmax as [|s1' M1 ss' Ms Hb1 Hmax' E1 E2]; subst. simpl in Hb1.
  unfold py_sum. cbn [fold_right]. simpl in Hin.
  destruct Hin as [E|[E|[]]]; inversion E; subst; [left|right]; repeat split; lia.
Qed.

Lemma wab_closed : forall c r n c' m,
  wab_spec c = Some r -> 0 <= n -> In (c', m) (reads r n) -> wab_spec c' <> None.
Proof.
  intros c r n c' m H Hn Hin.
  destruct c as [|[|[|[|[|[|c]]]]]]; simpl in H; inversion H; subst; simpl in Hin; try contradiction.
  - destruct Hin as [E|[E|[E|[]]]]; inversion E; subst; discriminate.
  - apply wab_product_reads in Hin. destruct Hin as [(-> & _)|(-> & _)]; discriminate.
  - apply wab_product_reads in Hin. destruct Hin as [(-> & _)|(-> & _)]; discriminate.
Qed.

Lemma wab_rank_reads : forall c r n c' m,
  wab_spec c = Some r -> 0 <= n -> In (c', m) (reads r n) ->
  0 <= m /\ (wab_rank c' m < wab_rank c n)%nat.
Proof.
  intros c r n c' m H Hn Hin.
  destruct c as [|[|[|[|[|[|c]]]]]]; simpl in H; inversion H; subst; simpl in Hin; try contradiction.
  - destruct Hin as [E|[E|[E|[]]]]; inversion E; subst; unfold wab_rank; split; lia.
  - apply wab_product_reads in Hin. unfold wab_rank.
    destruct Hin as [(-> & -> & H1)|(-> & -> & H1)]; split; lia.
  - apply wab_product_reads in Hin. unfold wab_rank.
    destruct Hin as [(-> & -> & H1)|(-> & -> & H1)]; split; lia.
Qed.

Lemma wab_size_nonneg : forall c o, wab_in c o -> 0 <= wab_size o.
Proof. intros c o _. unfold wab_size, zlen. lia. Qed.
