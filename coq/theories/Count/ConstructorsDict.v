(* C09, part 5: what the parameter maps BUILT FROM THE DICTIONARIES compute.
   For a well-formed extra_parameters dictionary d : parent_var -> child_var,
   Constructor.param_map over _build_children_param_map(...) sends a child tuple k to
     parent statistic pv  |->  k[position of d[pv] in the child]   (0 when pv is not a key)
   (dict_sem).  DisjointUnion.param_map agrees with it, and composing dictionaries as
   EquivalencePathRule.constructor does composes these maps.                         *)
From Coq Require Import ZArith List Bool Lia.
From CSS Require Import Gen.Prelude Count.Terms Count.Constructors Count.ConstructorsUnionProduct
  Count.ConstructorsComplement Count.ConstructorsDerived.
Import ListNotations.
Open Scope Z_scope.

Definition dict_val (cnames : list Z) (d : dict) (k : params) (pv : Z) : Z :=
  match dict_get d pv with
  | Some cv => match pos_of cnames cv with Some i => nth i k 0 | None => 0 end
  | None => 0
  end.

Definition dict_sem (pnames cnames : list Z) (d : dict) (k : params) : params :=
  map (dict_val cnames d k) pnames.

(* well-formed: distinct parameter names, a dictionary with distinct keys among the parent's names *)
Definition wf_dict (pnames cnames : list Z) (d : dict) : Prop :=
  NoDup pnames /\ NoDup cnames /\ NoDup (map fst d) /\ (forall a b, In (a, b) d -> In a pnames).

(* ---------------------------------------------------------------- pos_of *)
Lemma pos_of_from_none names x : forall s, ~ In x names -> pos_of_from s names x = None.
Proof.
  induction names as [|nm r IH]; intros s H; simpl; [reflexivity|].
  rewrite IH by (intros Hin; apply H; right; exact Hin).
  destruct (nm =? x) eqn:E; [|reflexivity]. apply Z.eqb_eq in E. exfalso. apply H. left. exact E.
Qed.

Lemma pos_of_from_nth : forall names s q,
  NoDup names -> (q < length names)%nat -> pos_of_from s names (nth q names 0) = Some (s + q)%nat.
Proof.
  induction names as [|nm r IH]; intros s q Hnd Hq; simpl in Hq; [lia|].
  inversion Hnd as [|? ? Hnotin Hnd']; subst. destruct q as [|q]; simpl.
  - rewrite pos_of_from_none by exact Hnotin. rewrite Z.eqb_refl. f_equal. lia.
  - rewrite (IH (S s) q Hnd') by lia. f_equal. lia.
Qed.

Lemma pos_of_nth names q : NoDup names -> (q < length names)%nat -> pos_of names (nth q names 0) = Some q.
Proof. intros. unfold pos_of. rewrite pos_of_from_nth by assumption. reflexivity. Qed.

Lemma pos_of_in names x : NoDup names -> In x names ->
  exists q, (q < length names)%nat /\ nth q names 0 = x /\ pos_of names x = Some q.
Proof.
  intros Hnd Hin. destruct (In_nth names x 0 Hin) as (q & Hq & E). exists q. repeat split; try assumption.
  rewrite <- E. apply pos_of_nth; assumption.
Qed.

Lemma pos_of_notin names x : ~ In x names -> pos_of names x = None.
Proof. apply pos_of_from_none. Qed.

(* ---------------------------------------------------------------- Constructor.param_map, pointwise *)
Lemma upd_length {A} (l : list A) p f : length (upd l p f) = length l.
Proof. revert p. induction l as [|x l IH]; intros [|p]; simpl; auto. Qed.

Lemma nth_upd_same {A} (l : list A) p f d : (p < length l)%nat -> nth p (upd l p f) d = f (nth p l d).
Proof. revert p. induction l as [|x l IH]; intros [|p] H; simpl in *; try lia; auto. apply IH. lia. Qed.

Definition hit (q : nat) (pz : nat * Z) : Z := if Nat.eqb (fst pz) q then snd pz else 0.

Lemma fold_sum_nth (flat : list (nat * Z)) : forall s q,
  (q < length s)%nat ->
  nth q (fold_left (fun acc (pz : nat * Z) => upd acc (fst pz) (fun x => x + snd pz)) flat s) 0 =
  nth q s 0 + zsum (hit q) flat.
Proof.
  induction flat as [|[p v] flat IH]; intros s q Hq; simpl; [lia|].
  rewrite IH by (rewrite upd_length; exact Hq). unfold hit at 2. simpl.
  destruct (Nat.eqb p q) eqn:E.
  - apply Nat.eqb_eq in E. subst. rewrite nth_upd_same by exact Hq. lia.
  - apply Nat.eqb_neq in E. rewrite nth_upd_other by exact E. lia.
Qed.

Lemma fold_sum_length (flat : list (nat * Z)) : forall s,
  length (fold_left (fun acc (pz : nat * Z) => upd acc (fst pz) (fun x => x + snd pz)) flat s) = length s.
Proof. induction flat as [|[p v] flat IH]; intros s; simpl; [reflexivity|]. rewrite IH, upd_length. reflexivity. Qed.

Lemma sum_param_map_visits pm num k :
  sum_param_map pm num k =
  fold_left (fun acc (pz : nat * Z) => upd acc (fst pz) (fun x => x + snd pz)) (visits pm k) (repeat 0 num).
Proof.
  unfold sum_param_map. rewrite (fold_visits (fun acc p v => upd acc p (fun x => x + v))). reflexivity.
Qed.

Lemma sum_param_map_length pm num k : length (sum_param_map pm num k) = num.
Proof. rewrite sum_param_map_visits, fold_sum_length. apply repeat_length. Qed.

Lemma nth_repeat_zero q num : nth q (repeat 0 num) 0 = 0.
Proof. revert q. induction num as [|n IH]; intros [|q]; simpl; auto. Qed.

Lemma sum_param_map_nth pm num k q :
  (q < num)%nat -> nth q (sum_param_map pm num k) 0 = zsum (hit q) (visits pm k).
Proof.
  intros Hq. rewrite sum_param_map_visits, fold_sum_nth by (rewrite repeat_length; exact Hq).
  rewrite nth_repeat_zero. lia.
Qed.

(* ---------------------------------------------------------------- the built position map *)
Lemma mapM_ok {A B} (f : A -> res B) (g : A -> B) l :
  (forall x, In x l -> f x = Ok (g x)) -> mapM f l = Ok (map g l).
Proof.
  induction l as [|x l IH]; intros H; simpl; [reflexivity|].
  rewrite (H x (or_introl eq_refl)). simpl. rewrite IH; [reflexivity|]. intros y Hy. apply H. right. exact Hy.
Qed.

Definition posn (names : list Z) (x : Z) : nat := match pos_of names x with Some p => p | None => 0%nat end.
Definition keys_for (d : dict) (cp : Z) : list Z := map fst (filter (fun e : Z * Z => snd e =? cp) d).

Lemma keys_for_in d cp a : In a (keys_for d cp) -> In (a, cp) d.
Proof.
  unfold keys_for. rewrite in_map_iff. intros ([a' b] & E & Hin). simpl in E. subst a'.
  apply filter_In in Hin. destruct Hin as [Hin Hb]. simpl in Hb. apply Z.eqb_eq in Hb. subst. exact Hin.
Qed.

Lemma child_pos_map_ok pnames cnames d :
  wf_dict pnames cnames d ->
  child_pos_map pnames cnames d = Ok (map (fun cp => map (posn pnames) (keys_for d cp)) cnames).
Proof.
  intros (Hp & Hc & Hk & Hsub). unfold child_pos_map. apply mapM_ok. intros cp _.
  fold (keys_for d cp). apply mapM_ok. intros a Ha. apply keys_for_in in Ha. apply Hsub in Ha.
  destruct (pos_of_in pnames a Hp Ha) as (q & _ & _ & E).
  unfold pos_or_keyerror, posn. rewrite E. reflexivity.
Qed.

(* number of dictionary entries (x, y) *)
Lemma dict_count (d : dict) x y :
  NoDup (map fst d) ->
  zsum (fun e : Z * Z => if (fst e =? x) && (snd e =? y) then 1 else 0) d =
  match dict_get d x with Some b => if b =? y then 1 else 0 | None => 0 end.
Proof.
  induction d as [|[a b] d IH]; intros Hnd; simpl; [reflexivity|].
  inversion Hnd as [|? ? Hnotin Hnd']; subst.
  destruct (a =? x) eqn:E.
  - apply Z.eqb_eq in E. subst a. simpl.
    rewrite zsum_zero; [destruct (b =? y); lia|].
    intros [a' b'] Hin. simpl. destruct (a' =? x) eqn:E'; [|reflexivity].
    apply Z.eqb_eq in E'. subst. exfalso. apply Hnotin. apply in_map_iff. exists (x, b'). auto.
  - simpl. rewrite IH by exact Hnd'. lia.
Qed.

Lemma zsum_combine_pick : forall (cnames : list Z) (k : params) i,
  NoDup cnames -> (i < length cnames)%nat -> length k = length cnames ->
  zsum (fun cz : Z * Z => if fst cz =? nth i cnames 0 then snd cz else 0) (combine cnames k) = nth i k 0.
Proof.
  induction cnames as [|c cnames IH]; intros k i Hnd Hi Hl; simpl in Hi; [lia|].
  destruct k as [|v k]; simpl in Hl; [lia|]. inversion Hnd as [|? ? Hnotin Hnd']; subst.
  destruct i as [|i]; simpl.
  - rewrite Z.eqb_refl. rewrite zsum_zero; [lia|].
    intros [c' v'] Hin. simpl. destruct (c' =? c) eqn:E; [|reflexivity].
    apply Z.eqb_eq in E. subst. exfalso. apply Hnotin. eapply in_combine_l; eauto.
  - destruct (c =? nth i cnames 0) eqn:E.
    + apply Z.eqb_eq in E. exfalso. apply Hnotin. rewrite E. apply nth_In. lia.
    + rewrite IH by (try assumption; lia). lia.
Qed.

Lemma zsum_combine_none (cnames : list Z) (k : params) cv :
  ~ In cv cnames -> zsum (fun cz : Z * Z => if fst cz =? cv then snd cz else 0) (combine cnames k) = 0.
Proof.
  intros H. apply zsum_zero. intros [c v] Hin. simpl. destruct (c =? cv) eqn:E; [|reflexivity].
  apply Z.eqb_eq in E. subst. exfalso. apply H. eapply in_combine_l; eauto.
Qed.

Lemma combine_map_l {A B C} (f : A -> B) (l : list A) (k : list C) :
  combine (map f l) k = map (fun ac => (f (fst ac), snd ac)) (combine l k).
Proof. revert k. induction l as [|x l IH]; intros [|y k]; simpl; try reflexivity. f_equal. apply IH. Qed.

(* the value Constructor.param_map puts at parent position q *)
Lemma built_map_nth pnames cnames d k q :
  wf_dict pnames cnames d -> length k = length cnames -> (q < length pnames)%nat ->
  zsum (hit q) (visits (map (fun cp => map (posn pnames) (keys_for d cp)) cnames) k) =
  dict_val cnames d k (nth q pnames 0).
Proof.
  intros (Hp & Hc & Hk & Hsub) Hl Hq. set (pn := nth q pnames 0).
  unfold visits. rewrite zsum_flat_map, combine_map_l, zsum_map. simpl.
  (* per child parameter: its value times the number of its keys sitting at position q *)
  transitivity (zsum (fun cz : Z * Z =>
      snd cz * match dict_get d pn with Some b => if b =? fst cz then 1 else 0 | None => 0 end) (combine cnames k)).
  - apply zsum_ext. intros [cp v] _. simpl. rewrite zsum_map. unfold hit. simpl.
    rewrite <- (dict_count d pn cp Hk). unfold keys_for. rewrite !zsum_map, zsum_filter.
    rewrite <- zsum_scale. apply zsum_ext. intros [a b] Hin. simpl.
    destruct (b =? cp) eqn:Eb; [|rewrite andb_false_r; lia].
    rewrite andb_true_r.
    pose proof (Hsub a b Hin) as Ha. destruct (pos_of_in pnames a Hp Ha) as (qa & Hqa & Ena & Epa).
    unfold posn. rewrite Epa.
    destruct (Nat.eqb qa q) eqn:Eq.
    + apply Nat.eqb_eq in Eq. subst qa. fold pn in Ena. subst a. rewrite Z.eqb_refl. lia.
    + destruct (a =? pn) eqn:Ea; [|lia]. apply Z.eqb_eq in Ea. exfalso.
      pose proof (pos_of_nth pnames q Hp Hq) as Eq'. fold pn in Eq'. rewrite <- Ea, Epa in Eq'.
      inversion Eq'. subst qa. rewrite Nat.eqb_refl in Eq. discriminate.
  - unfold dict_val. fold pn. destruct (dict_get d pn) as [cv|].
    + destruct (in_dec Z.eq_dec cv cnames) as [Hin|Hnin].
      * destruct (pos_of_in cnames cv Hc Hin) as (i & Hi & Eni & Epi). rewrite Epi.
        rewrite <- (zsum_combine_pick cnames k i Hc Hi Hl). rewrite Eni.
        apply zsum_ext. intros [cp v] _. simpl. rewrite (Z.eqb_sym cv cp). destruct (cp =? cv); lia.
      * rewrite pos_of_notin by exact Hnin.
        apply zsum_zero. intros [cp v] Hin. simpl. destruct (cv =? cp) eqn:E; [|lia].
        apply Z.eqb_eq in E. subst. exfalso. apply Hnin. eapply in_combine_l; eauto.
    + apply zsum_zero. intros. lia.
Qed.

(* Constructor.param_map over the built positions = the dictionary semantics *)
Lemma built_sum_map_sem pnames cnames d k :
  wf_dict pnames cnames d -> length k = length cnames ->
  sum_param_map (map (fun cp => map (posn pnames) (keys_for d cp)) cnames) (length pnames) k =
  dict_sem pnames cnames d k.
Proof.
  intros Hwf Hl. apply (nth_ext _ _ 0 0).
  - rewrite sum_param_map_length. unfold dict_sem. rewrite map_length. reflexivity.
  - intros q Hq. rewrite sum_param_map_length in Hq.
    rewrite sum_param_map_nth by exact Hq. rewrite built_map_nth by assumption.
    unfold dict_sem.
    rewrite (nth_indep (map (dict_val cnames d k) pnames) 0 (dict_val cnames d k 0)).
    2:{ rewrite map_length. exact Hq. }
    rewrite map_nth. reflexivity.
Qed.

(* ---------------------------------------------------------------- DisjointUnion.param_map on built positions *)
Lemma nodup_app {A} (l1 l2 : list A) :
  NoDup l1 -> NoDup l2 -> (forall x, In x l1 -> ~ In x l2) -> NoDup (l1 ++ l2).
Proof.
  induction 1 as [|x l1 Hx H1 IH]; intros H2 Hd; simpl; [exact H2|].
  constructor.
  - rewrite in_app_iff. intros [H|H]; [contradiction|]. apply (Hd x (or_introl eq_refl) H).
  - apply IH; [exact H2|]. intros y Hy. apply Hd. right. exact Hy.
Qed.

Lemma nodup_map_inj {A B} (f : A -> B) (l : list A) :
  (forall x y, In x l -> In y l -> f x = f y -> x = y) -> NoDup l -> NoDup (map f l).
Proof.
  intros Hinj. induction 1 as [|x l Hx Hnd IH]; simpl; [constructor|].
  constructor.
  - rewrite in_map_iff. intros (y & E & Hy). apply Hinj in E; [subst; contradiction|right; exact Hy|left; reflexivity].
  - apply IH. intros a b Ha Hb. apply Hinj; right; assumption.
Qed.

Lemma dict_key_unique (d : dict) a b b' : NoDup (map fst d) -> In (a, b) d -> In (a, b') d -> b = b'.
Proof.
  induction d as [|[x y] d IH]; intros Hnd H1 H2; [contradiction|].
  inversion Hnd as [|? ? Hnotin Hnd']; subst. simpl in Hnotin.
  destruct H1 as [E1|H1], H2 as [E2|H2].
  - congruence.
  - inversion E1; subst. exfalso. apply Hnotin. apply in_map_iff. exists (a, b'). auto.
  - inversion E2; subst. exfalso. apply Hnotin. apply in_map_iff. exists (a, b). auto.
  - apply IH; assumption.
Qed.

Lemma keys_for_nodup d cp : NoDup (map fst d) -> NoDup (keys_for d cp).
Proof.
  unfold keys_for. induction d as [|[a b] d IH]; intros Hk; simpl; [constructor|].
  inversion Hk as [|? ? Hnotin Hk']; subst. destruct (b =? cp); simpl; [|apply IH; exact Hk'].
  constructor; [|apply IH; exact Hk'].
  intros Hin. apply Hnotin. apply in_map_iff in Hin. destruct Hin as (e & E & Hin).
  apply filter_In in Hin. apply in_map_iff. exists e. tauto.
Qed.

Lemma NoDup_concat_built pnames cnames d :
  wf_dict pnames cnames d -> NoDup (concat (map (fun cp => map (posn pnames) (keys_for d cp)) cnames)).
Proof.
  intros (Hp & Hc & Hk & Hsub).
  assert (E : concat (map (fun cp => map (posn pnames) (keys_for d cp)) cnames) =
              map (posn pnames) (flat_map (keys_for d) cnames)).
  { clear. induction cnames as [|cp cnames IH]; simpl; [reflexivity|]. rewrite map_app, IH. reflexivity. }
  rewrite E. apply nodup_map_inj.
  - intros a a' Ha Ha' Eq. apply in_flat_map in Ha. destruct Ha as (cp & _ & Ha). apply keys_for_in in Ha.
    apply in_flat_map in Ha'. destruct Ha' as (cp' & _ & Ha'). apply keys_for_in in Ha'.
    destruct (pos_of_in pnames a Hp (Hsub _ _ Ha)) as (q & _ & En & Ep).
    destruct (pos_of_in pnames a' Hp (Hsub _ _ Ha')) as (q' & _ & En' & Ep').
    unfold posn in Eq. rewrite Ep, Ep' in Eq. subst. reflexivity.
  - clear Hp Hsub E. induction Hc as [|cp cnames Hnotin Hc IH]; simpl; [constructor|].
    apply nodup_app; [apply keys_for_nodup; exact Hk|exact IH|].
    intros a Ha Hin. apply keys_for_in in Ha. apply in_flat_map in Hin. destruct Hin as (cp' & Hcp' & Ha').
    apply keys_for_in in Ha'. rewrite (dict_key_unique d a cp cp' Hk Ha Ha') in Hnotin. contradiction.
Qed.

(* on tuples of the child, the union's (first-wins) map never asserts and is the dictionary semantics *)
Lemma built_du_map_sem pnames cnames d k :
  wf_dict pnames cnames d -> length k = length cnames ->
  exists pm, child_pos_map pnames cnames d = Ok pm /\
             du_param_map pm (length pnames) k = Ok (dict_sem pnames cnames d k) /\
             sum_param_map pm (length pnames) k = dict_sem pnames cnames d k.
Proof.
  intros Hwf Hl. eexists. split; [apply child_pos_map_ok; exact Hwf|]. split.
  - rewrite du_param_map_sum'.
    + rewrite built_sum_map_sem by assumption. reflexivity.
    + rewrite map_length. exact Hl.
    + apply NoDup_concat_built. exact Hwf.
  - apply built_sum_map_sem; assumption.
Qed.

(* ---------------------------------------------------------------- composing dictionaries *)
Lemma dict_get_in (d : dict) a b : dict_get d a = Some b -> In (a, b) d.
Proof.
  induction d as [|[x y] d IH]; simpl; [discriminate|].
  destruct (x =? a) eqn:E; intros H.
  - apply Z.eqb_eq in E. inversion H; subst. left. reflexivity.
  - right. apply IH. exact H.
Qed.

Lemma dict_get_none_notin (d : dict) a : dict_get d a = None -> ~ In a (map fst d).
Proof.
  induction d as [|[x y] d IH]; simpl; [intros _ []|].
  destruct (x =? a) eqn:E; [discriminate|]. intros H [Hx|Hin]; [apply Z.eqb_neq in E; contradiction|].
  apply IH; assumption.
Qed.

Lemma dict_get_compose (e rp : dict) a :
  NoDup (map fst e) ->
  dict_get (dict_compose e rp) a =
  match dict_get e a with Some m => dict_get rp m | None => None end.
Proof.
  unfold dict_compose. induction e as [|[x y] e IH]; intros Hnd; simpl; [reflexivity|].
  inversion Hnd as [|? ? Hnotin Hnd']; subst. simpl in Hnotin.
  destruct (x =? a) eqn:E.
  - apply Z.eqb_eq in E. subst x. destruct (dict_get rp y) as [z|] eqn:Ey; simpl.
    + rewrite Z.eqb_refl. reflexivity.
    + rewrite IH by exact Hnd'.
      destruct (dict_get e a) as [m|] eqn:Ea; [|reflexivity].
      exfalso. apply Hnotin. apply dict_get_in in Ea. apply in_map_iff. exists (a, m). auto.
  - destruct (dict_get rp y) as [z|]; simpl; [rewrite E|]; apply IH; exact Hnd'.
Qed.

(* the map of the composed dictionary is the composition of the maps
   (parent names p, middle names m, child names c) *)
Lemma dict_sem_compose p m c (d1 d2 : dict) k :
  NoDup m -> NoDup (map fst d1) -> (forall a b, In (a, b) d2 -> In a m) ->
  dict_sem p c (dict_compose d1 d2) k = dict_sem p m d1 (dict_sem m c d2 k).
Proof.
  intros Hm Hk1 Hsub2. unfold dict_sem. apply map_ext. intros a.
  change (dict_val m d1 (map (dict_val c d2 k) m) a) with
    (match dict_get d1 a with
     | Some cv => match pos_of m cv with Some i => nth i (map (dict_val c d2 k) m) 0 | None => 0 end
     | None => 0 end).
  unfold dict_val at 1. rewrite dict_get_compose by exact Hk1.
  destruct (dict_get d1 a) as [mv|]; [|reflexivity].
  destruct (in_dec Z.eq_dec mv m) as [Hin|Hnin].
  - destruct (pos_of_in m mv Hm Hin) as (i & Hi & En & Ep). rewrite Ep.
    rewrite (nth_indep (map (dict_val c d2 k) m) 0 (dict_val c d2 k 0)).
    2:{ rewrite map_length. exact Hi. }
    rewrite map_nth, En. reflexivity.
  - rewrite (pos_of_notin m mv Hnin).
    destruct (dict_get d2 mv) as [cv|] eqn:E2; [|reflexivity].
    exfalso. apply Hnin. apply dict_get_in in E2. apply (Hsub2 _ _ E2).
Qed.

(* ---------------------------------------------------------------- EquivalencePathRule *)
Definition id_dict (names : list Z) : dict := map (fun k => (k, k)) names.

Lemma dict_get_id names a : In a names -> dict_get (id_dict names) a = Some a.
Proof.
  unfold id_dict. induction names as [|x names IH]; intros H; [contradiction|]. simpl.
  destruct (x =? a) eqn:E; [apply Z.eqb_eq in E; subst; reflexivity|].
  apply IH. destruct H as [H|H]; [apply Z.eqb_neq in E; contradiction|exact H].
Qed.

Lemma dict_sem_id names k : NoDup names -> length k = length names -> dict_sem names names (id_dict names) k = k.
Proof.
  intros Hnd Hl. apply (nth_ext _ _ 0 0).
  - unfold dict_sem. rewrite map_length. lia.
  - intros q Hq. unfold dict_sem in *. rewrite map_length in Hq.
    rewrite (nth_indep (map (dict_val names (id_dict names) k) names) 0 (dict_val names (id_dict names) k 0)).
    2:{ rewrite map_length. exact Hq. }
    rewrite map_nth. unfold dict_val. rewrite dict_get_id by (apply nth_In; exact Hq).
    rewrite pos_of_nth by assumption. reflexivity.
Qed.

Lemma compose_keys_in (e rp : dict) a : In a (map fst (dict_compose e rp)) -> In a (map fst e).
Proof.
  unfold dict_compose. induction e as [|[x y] e IH]; simpl; [intros []|].
  rewrite map_app, in_app_iff. intros [H|H].
  - destruct (dict_get rp y); simpl in H; [destruct H as [H|[]]; left; exact H|contradiction].
  - right. apply IH. exact H.
Qed.

Lemma compose_keys_nodup (e rp : dict) : NoDup (map fst e) -> NoDup (map fst (dict_compose e rp)).
Proof.
  unfold dict_compose. induction e as [|[x y] e IH]; intros Hnd; simpl; [constructor|].
  inversion Hnd as [|? ? Hnotin Hnd']; subst. rewrite map_app.
  destruct (dict_get rp y); simpl; [|apply IH; exact Hnd'].
  constructor; [|apply IH; exact Hnd'].
  intros Hin. apply Hnotin. apply (compose_keys_in e rp). exact Hin.
Qed.

(* a chain of one-child rules: class (n, T) --d--> class (n', T') --...;
   each link is genuine through the semantics of its dictionary (for a reverse
   step: of the inverted dictionary) *)
Inductive chain_ok : list Z -> terms -> list (list Z * dict * terms) -> Prop :=
| chain_nil n T : chain_ok n T []
| chain_cons n T n' d T' rest :
    NoDup n -> (forall a b, In (a, b) d -> In a n) ->
    teq T (rekey (dict_sem n n' d) T') ->
    chain_ok n' T' rest -> chain_ok n T ((n', d, T') :: rest).

Fixpoint chain_end (n : list Z) (T : terms) (steps : list (list Z * dict * terms)) : list Z * terms :=
  match steps with
  | [] => (n, T)
  | (n', _, T') :: rest => chain_end n' T' rest
  end.

Lemma chain_end_cons n T s rest : chain_end n T (s :: rest) = chain_end (fst (fst s)) (snd s) rest.
Proof. destruct s as [[n' d] T']. reflexivity. Qed.

Lemma path_compose_genuine first T0 : forall steps n T D,
  chain_ok n T steps -> NoDup (map fst D) ->
  teq T0 (rekey (dict_sem first n D) T) ->
  teq T0 (rekey (dict_sem first (fst (chain_end n T steps))
                   (fold_left dict_compose (map (fun s => snd (fst s)) steps) D))
                (snd (chain_end n T steps))).
Proof.
  induction steps as [|[[n' d] T'] rest IH]; intros n T D Hc HD H0.
  - exact H0.
  - inversion Hc as [|? ? ? ? ? ? Hn Hsub Hlink Hrest]; subst.
    rewrite chain_end_cons. simpl fst. simpl snd. simpl fold_left.
    apply IH; [exact Hrest|apply compose_keys_nodup; exact HD|].
    eapply teq_trans; [exact H0|].
    eapply teq_trans; [apply tget_rekey_ext; exact Hlink|].
    rewrite rekey_rekey. intros q. f_equal. apply rekey_ext_in. intros k v _.
    symmetry. apply dict_sem_compose; assumption.
Qed.

(* EquivalencePathRule: the union built from the composed dictionary counts the first class *)
Lemma path_union_correct first T0 steps :
  NoDup first -> (forall k v, In (k, v) T0 -> length k = length first) ->
  chain_ok first T0 steps ->
  let D := fold_left dict_compose (map (fun s => snd (fst s)) steps) (id_dict first) in
  let lastn := fst (chain_end first T0 steps) in
  let Tlast := snd (chain_end first T0 steps) in
  wf_dict first lastn D -> (forall k v, In (k, v) Tlast -> length k = length lastn) ->
  exists pm r, child_pos_map first lastn D = Ok pm /\
               union_get_terms [du_param_map pm (length first)] [Tlast] = Ok r /\ teq r T0.
Proof.
  intros Hf Hlen0 Hc D lastn Tlast Hwf HlenL.
  exists (map (fun cp => map (posn first) (keys_for D cp)) lastn).
  exists (union_table [dict_sem first lastn D] [Tlast]).
  split; [apply child_pos_map_ok; exact Hwf|]. split.
  - apply union_get_terms_ok. constructor; [|constructor].
    intros k v Hin. destruct (built_du_map_sem first lastn D k Hwf (HlenL k v Hin)) as (pm & E1 & E2 & _).
    rewrite child_pos_map_ok in E1 by exact Hwf. inversion E1. subst pm. exact E2.
  - apply teq_sym. unfold union_table. simpl. rewrite app_nil_r.
    apply (path_compose_genuine first T0 steps first T0 (id_dict first) Hc).
    + unfold id_dict. rewrite map_map. simpl. rewrite map_id. exact Hf.
    + intros q. f_equal. symmetry. apply rekey_id_in. intros k v Hin. apply dict_sem_id; [exact Hf|].
      apply (Hlen0 k v Hin).
Qed.

(* ---------------------------------------------------------------- reverse steps: the inverted dictionary *)
Definition inv_dict (d : dict) : dict := map (fun ab : Z * Z => (snd ab, fst ab)) d.

Lemma dict_get_of_in (d : dict) a b : NoDup (map fst d) -> In (a, b) d -> dict_get d a = Some b.
Proof.
  induction d as [|[x y] d IH]; intros Hnd Hin; [contradiction|].
  inversion Hnd as [|? ? Hnotin Hnd']; subst. simpl in *.
  destruct Hin as [E|Hin].
  - inversion E; subst. rewrite Z.eqb_refl. reflexivity.
  - destruct (x =? a) eqn:Ex.
    + apply Z.eqb_eq in Ex. subst. exfalso. apply Hnotin. apply in_map_iff. exists (a, b). auto.
    + apply IH; assumption.
Qed.

Lemma inv_dict_in d a b : In (a, b) (inv_dict d) <-> In (b, a) d.
Proof.
  unfold inv_dict. rewrite in_map_iff. split.
  - intros ([x y] & E & Hin). simpl in E. inversion E; subst. exact Hin.
  - intros Hin. exists (b, a). auto.
Qed.

Lemma inv_dict_keys d : map fst (inv_dict d) = map snd d.
Proof. unfold inv_dict. rewrite map_map. reflexivity. Qed.

(* child -> parent -> child is the identity when the dictionary is injective and
   every child parameter is the image of a parent parameter *)
Lemma dict_round_trip pn cn d k :
  NoDup pn -> NoDup cn -> NoDup (map fst d) -> NoDup (map snd d) ->
  (forall a b, In (a, b) d -> In a pn) ->
  (forall cv, In cv cn -> In cv (map snd d)) ->
  length k = length cn ->
  dict_sem cn pn (inv_dict d) (dict_sem pn cn d k) = k.
Proof.
  intros Hpn Hcn Hk Hv Hsub Hcov Hl.
  rewrite <- dict_sem_compose; [|exact Hpn|rewrite inv_dict_keys; exact Hv|exact Hsub].
  apply (nth_ext _ _ 0 0).
  - unfold dict_sem. rewrite map_length. lia.
  - intros q Hq. unfold dict_sem in *. rewrite map_length in Hq.
    set (D := dict_compose (inv_dict d) d).
    rewrite (nth_indep (map (dict_val cn D k) cn) 0 (dict_val cn D k 0)).
    2:{ rewrite map_length. exact Hq. }
    rewrite map_nth. unfold dict_val, D.
    rewrite dict_get_compose by (rewrite inv_dict_keys; exact Hv).
    set (cv := nth q cn 0).
    assert (Hin : In cv (map snd d)) by (apply Hcov; apply nth_In; exact Hq).
    apply in_map_iff in Hin. destruct Hin as ([pv cv'] & E & Hin). simpl in E. subst cv'.
    rewrite (dict_get_of_in (inv_dict d) cv pv); [|rewrite inv_dict_keys; exact Hv|apply inv_dict_in; exact Hin].
    rewrite (dict_get_of_in d pv cv Hk Hin).
    unfold cv. rewrite pos_of_nth by assumption. reflexivity.
Qed.

(* a genuine one-child union read backwards is a genuine link through the inverted dictionary *)
Lemma reverse_link pn cn d (TP TC : terms) :
  NoDup pn -> NoDup cn -> NoDup (map fst d) -> NoDup (map snd d) ->
  (forall a b, In (a, b) d -> In a pn) ->
  (forall cv, In cv cn -> In cv (map snd d)) ->
  (forall k v, In (k, v) TC -> length k = length cn) ->
  union_genuine [dict_sem pn cn d] [TC] TP ->
  teq TC (rekey (dict_sem cn pn (inv_dict d)) TP).
Proof.
  intros Hpn Hcn Hk Hv Hsub Hcov Hlen Hg.
  apply teq_sym.
  eapply teq_trans; [apply tget_rekey_ext; exact Hg|].
  unfold union_table. simpl. rewrite app_nil_r, rekey_rekey.
  intros q. f_equal. apply rekey_id_in. intros k v Hin.
  apply dict_round_trip; try assumption. apply (Hlen k v Hin).
Qed.

(* ---------------------------------------------------------------- the model's path dictionary *)
(* the dictionary one step contributes in EquivalencePathRule.constructor *)
Definition step_dict (s : step_desc) : option dict :=
  let '(rev, _, kids, _) := s in
  match first_nonempty kids with
  | None => None
  | Some ci =>
      let d := k_dict (nth ci kids default_kid) in
      if rev then (if dict_injective d then Some (inv_dict d) else None) else Some d
  end.

Lemma path_dict_fold : forall steps ds,
  map step_dict steps = map Some ds ->
  forall D, fold_left path_dict_step steps (Ok D) = Ok (fold_left dict_compose ds D).
Proof.
  induction steps as [|s steps IH]; intros [|d ds] H D; simpl in H; try discriminate; [reflexivity|].
  inversion H as [[Hs Hrest]].
  change (fold_left path_dict_step (s :: steps) (Ok D)) with (fold_left path_dict_step steps (path_dict_step (Ok D) s)).
  change (fold_left dict_compose (d :: ds) D) with (fold_left dict_compose ds (dict_compose D d)).
  assert (E : path_dict_step (Ok D) s = Ok (dict_compose D d)).
  { unfold path_dict_step. simpl. destruct s as [[[rev pn] kids] idx]. unfold step_dict in Hs.
    destruct (first_nonempty kids) as [ci|]; [|discriminate].
    destruct rev.
    - destruct (dict_injective (k_dict (nth ci kids default_kid))); [|discriminate].
      inversion Hs. reflexivity.
    - inversion Hs. reflexivity. }
  rewrite E. apply IH. exact Hrest.
Qed.

(* ---------------------------------------------------------------- the parent map of Complement / Quotient *)
Lemma inv_keys_for (d : dict) pv :
  NoDup (map fst d) ->
  keys_for (inv_dict d) pv = match dict_get d pv with Some cv => [cv] | None => [] end.
Proof.
  unfold keys_for, inv_dict. induction d as [|[a b] d IH]; intros Hnd; simpl; [reflexivity|].
  inversion Hnd as [|? ? Hnotin Hnd']; subst. simpl in Hnotin.
  destruct (a =? pv) eqn:E; simpl.
  - apply Z.eqb_eq in E. subst a. rewrite IH by exact Hnd'.
    destruct (dict_get d pv) as [cv|] eqn:Eg; [|reflexivity].
    exfalso. apply Hnotin. apply dict_get_in in Eg. apply in_map_iff. exists (pv, cv). auto.
  - apply IH. exact Hnd'.
Qed.

(* _build_parent_param_map is _build_children_param_map of the inverted dictionary *)
Lemma parent_pos_map_inv pn cn d :
  NoDup (map fst d) -> parent_pos_map pn cn d = child_pos_map cn pn (inv_dict d).
Proof.
  intros Hnd. unfold parent_pos_map, child_pos_map.
  induction pn as [|pv pn IH]; simpl; [reflexivity|].
  rewrite IH. fold (keys_for (inv_dict d) pv). rewrite inv_keys_for by exact Hnd.
  destruct (dict_get d pv) as [cv|]; simpl; [|reflexivity].
  destruct (pos_or_keyerror cn cv); reflexivity.
Qed.

(* for an injective dictionary whose values are parameters of the flipped child, the parent
   map of Complement never asserts on parent tuples and is the semantics of the inverted dictionary *)
Lemma complement_parent_map_sem pn cn d k :
  NoDup pn -> NoDup cn -> NoDup (map fst d) -> NoDup (map snd d) ->
  (forall a b, In (a, b) d -> In b cn) ->
  length k = length pn ->
  exists pm, parent_pos_map pn cn d = Ok pm /\
             du_param_map pm (length cn) k = Ok (dict_sem cn pn (inv_dict d) k).
Proof.
  intros Hpn Hcn Hk Hv Hsub Hl.
  rewrite parent_pos_map_inv by exact Hk.
  assert (Hwf : wf_dict cn pn (inv_dict d)).
  { unfold wf_dict. repeat split; try assumption.
    - rewrite inv_dict_keys. exact Hv.
    - intros a b Hin. apply (proj1 (inv_dict_in d a b)) in Hin. apply (Hsub _ _ Hin). }
  destruct (built_du_map_sem cn pn (inv_dict d) k Hwf Hl) as (pm & E1 & E2 & _).
  exists pm. split; assumption.
Qed.
