(* C20 — executable model of the equations a specification emits.

   Transcribed from /repo/comb_spec_searcher:
     combinatorial_class.py  CombinatorialClass.get_function
     strategies/constructor/disjoint.py   DisjointUnion.get_equation (repaired, fix FIXHASH_EQ; the method
                                          before the fix: union_equation_old), Complement.get_equation
     strategies/constructor/cartesian.py  CartesianProduct.get_equation (repaired; before: product_equation_old),
                                          Quotient.get_equation
     strategies/rule.py      Rule.get_equation, ReverseRule.get_equation (fallback to the
                             original rule), EquivalenceRule.constructor,
                             EquivalencePathRule.constructor, VerificationRule.get_equation
     strategies/strategy.py  AtomStrategy.get_genf, EmptyStrategy.get_genf
     specification.py        get_equations (NotImplementedError -> NOTIMPLEMENTED(x))

   Variables are integers: 0 is x, every other id is the NAME of a statistic
   (sympy symbols are global by name).  A class label l has the parameter list
   pars l.  Dictionaries are association lists in insertion order.  sympy
   performs substitutions eagerly, so `subs` is a function on expressions.
   No proofs in this file.                                                    *)
From Coq Require Import ZArith List Bool Lia.
From CSS Require Import Count.Series.
Import ListNotations.
Open Scope Z_scope.

Inductive expr : Type :=
| Var (v : Z)
| Const (z : Z)
| Fun (l : Z) (args : list expr)      (* F_l(args) *)
| Add (a b : expr)
| Sub (a b : expr)
| Mul (a b : expr)
| Div (a b : expr)
| Pow (a : expr) (k : Z)
| Opaque (l : Z).                     (* closed form returned by a user verification strategy for class l *)

(* ------------------------------------------------------------ dictionaries *)
Fixpoint alookup {X} (k : Z) (l : list (Z * X)) : option X :=
  match l with
  | [] => None
  | (k', v) :: t => if k' =? k then Some v else alookup k t
  end.

(* d[k] = f(d[k]) for a present key *)
Fixpoint aupdate {X} (l : list (Z * X)) (k : Z) (f : X -> X) : list (Z * X) :=
  match l with
  | [] => []
  | (k', v) :: t => if k' =? k then (k', f v) :: t else (k', v) :: aupdate t k f
  end.

(* d[k] = v : overwrite in place, else append (dict insertion order) *)
Definition aset {X} (l : list (Z * X)) (k : Z) (v : X) : list (Z * X) :=
  match alookup k l with
  | Some _ => aupdate l k (fun _ => v)
  | None => l ++ [(k, v)]
  end.

Definition aget (l : list (Z * Z)) (k : Z) : Z :=
  match alookup k l with Some v => v | None => 0 end.

(* ------------------------------------------------------------ sympy .subs(..., simultaneous=True) *)
Fixpoint subs (sg : list (Z * expr)) (e : expr) : expr :=
  match e with
  | Var v => match alookup v sg with Some r => r | None => Var v end
  | Const z => Const z
  | Fun l args => Fun l (map (subs sg) args)
  | Add a b => Add (subs sg a) (subs sg b)
  | Sub a b => Sub (subs sg a) (subs sg b)
  | Mul a b => Mul (subs sg a) (subs sg b)
  | Div a b => Div (subs sg a) (subs sg b)
  | Pow a k => Pow (subs sg a) k
  | Opaque l => Opaque l
  end.

Section Model.
Variable pars : Z -> list Z.          (* comb_class.extra_parameters, as variable ids *)

(* CombinatorialClass.get_function: F_label(x, *extra_parameters) *)
Definition cfun (l : Z) : expr := Fun l (Var 0 :: map Var (pars l)).

(* DisjointUnion.get_equation, the substitution of one child:
     for parent, child in extra_parameters.items():
         if child in subs: subs[child] *= var(parent)  else: subs[child] = var(parent) *)
Definition union_step (sg : list (Z * expr)) (pc : Z * Z) : list (Z * expr) :=
  let (q, c) := pc in
  match alookup c sg with
  | Some _ => aupdate sg c (fun e => Mul e (Var q))
  | None => sg ++ [(c, Var q)]
  end.
Definition union_subs (ep : list (Z * Z)) : list (Z * expr) := fold_left union_step ep [].

(* CartesianProduct.get_equation: {child: parent for parent, child in extra_parameters.items()} *)
Definition prod_step (sg : list (Z * expr)) (pc : Z * Z) : list (Z * expr) :=
  let (q, c) := pc in aset sg c (Var q).
Definition prod_subs (ep : list (Z * Z)) : list (Z * expr) := fold_left prod_step ep [].

Inductive result : Type :=
| Ok (lhs rhs : expr)
| NotImpl                 (* NotImplementedError *)
| IndexErr.               (* IndexError / malformed descriptor (outside every theorem) *)

(* THE REPAIRED get_equation of DisjointUnion and CartesianProduct (fix FIXHASH_EQ).
   After the dictionary has been turned into the substitution  child name -> product of the parent
   variables mapped to it  (both constructors now build it the same way:
       DisjointUnion:     if child in subs: subs[child] *= var(parent) else: subs[child] = var(parent)
       CartesianProduct:  subs[child] = subs.get(child, 1) * var(parent)                         ),
   every parameter of the child that no parent parameter is mapped to is summed out:
       for arg in rhs_func.args[1:]:
           if isinstance(arg, sympy.Symbol) and arg.name not in subs: subs[arg.name] = Integer(1) *)
Definition fix_step (sg : list (Z * expr)) (a : expr) : list (Z * expr) :=
  match a with
  | Var v => match alookup v sg with Some _ => sg | None => sg ++ [(v, Const 1)] end
  | _ => sg
  end.
Definition fix_unmapped (f : expr) (sg : list (Z * expr)) : list (Z * expr) :=
  match f with
  | Fun _ (_ :: args) => fold_left fix_step args sg
  | _ => sg
  end.
Definition full_subs (f : expr) (ep : list (Z * Z)) : list (Z * expr) := fix_unmapped f (union_subs ep).

(* DisjointUnion.get_equation: res = 0; for rhs_func, ep in zip(rhs_funcs, eps): res += rhs_func.subs(...) *)
Definition union_equation (lhs : expr) (rhs_funcs : list expr) (eps : list (list (Z * Z))) : result :=
  Ok lhs (fold_left (fun res fe => Add res (subs (full_subs (fst fe) (snd fe)) (fst fe)))
                    (combine rhs_funcs eps) (Const 0)).

(* CartesianProduct.get_equation: res = 1; for ep, rhs_func in zip(eps, rhs_funcs): res *= rhs_func.subs(...) *)
Definition product_equation (lhs : expr) (rhs_funcs : list expr) (eps : list (list (Z * Z))) : result :=
  Ok lhs (fold_left (fun res ef => Mul res (subs (full_subs (snd ef) (fst ef)) (snd ef)))
                    (combine eps rhs_funcs) (Const 1)).

(* HISTORY -- the two methods BEFORE the fix: an unmapped child parameter kept its own variable, and the
   product inverted the dictionary ({child: parent ...}: of several parents of one child parameter only
   the last survived).  Kept for the refutation theorems and for running the check on a tree that does
   not have the fix yet. *)
Definition union_equation_old (lhs : expr) (rhs_funcs : list expr) (eps : list (list (Z * Z))) : result :=
  Ok lhs (fold_left (fun res fe => Add res (subs (union_subs (snd fe)) (fst fe)))
                    (combine rhs_funcs eps) (Const 0)).
Definition product_equation_old (lhs : expr) (rhs_funcs : list expr) (eps : list (list (Z * Z))) : result :=
  Ok lhs (fold_left (fun res ef => Mul res (subs (prod_subs (fst ef)) (snd ef)))
                    (combine eps rhs_funcs) (Const 1)).

(* any(self.extra_parameters): some dictionary is non-empty *)
Definition any_params (eps : list (list (Z * Z))) : bool :=
  existsb (fun ep => match ep with [] => false | _ => true end) eps.

(* Complement.get_equation / Quotient.get_equation *)
Definition complement_equation (lhs : expr) (rhs_funcs : list expr) (eps : list (list (Z * Z))) : result :=
  if any_params eps then NotImpl
  else match rhs_funcs with [] => IndexErr | f0 :: rest => Ok lhs (fold_left Sub rest f0) end.

Definition quotient_equation (lhs : expr) (rhs_funcs : list expr) (eps : list (list (Z * Z))) : result :=
  if any_params eps then NotImpl
  else match rhs_funcs with [] => IndexErr | f0 :: rest => Ok lhs (fold_left Div rest f0) end.

(* PROPOSED (findings/c20_reverse_equation_unmapped_child_parameter.diff, not in /repo): Complement / Quotient
   also refuse when any of the functions carries a parameter -- the literal equation F_c = F_p - .. is only
   right without parameters (a child parameter nobody is mapped to would stay free on both sides) *)
Definition has_args (f : expr) : bool := match f with Fun _ (_ :: _ :: _) => true | _ => false end.
Definition complement_equation_g (lhs : expr) (rhs_funcs : list expr) (eps : list (list (Z * Z))) : result :=
  if existsb has_args (lhs :: rhs_funcs) then NotImpl else complement_equation lhs rhs_funcs eps.
Definition quotient_equation_g (lhs : expr) (rhs_funcs : list expr) (eps : list (list (Z * Z))) : result :=
  if existsb has_args (lhs :: rhs_funcs) then NotImpl else quotient_equation lhs rhs_funcs eps.

(* ------------------------------------------------------------ rules *)
(* the rule a strategy produced: parent, children, strategy.extra_parameters *)
Record orule : Type := mkorule { o_parent : Z; o_children : list Z; o_eps : list (list (Z * Z)) }.

Inductive rule : Type :=
| RUnion (o : orule)                      (* Rule with a DisjointUnion constructor *)
| RProduct (o : orule)                    (* Rule with a CartesianProduct constructor *)
| RRevUnion (o : orule) (idx : nat)       (* ReverseRule(rule, idx): Complement *)
| RRevProduct (o : orule) (idx : nat)     (* ReverseRule(rule, idx): Quotient *)
| REquivUnion (o : orule) (cidx : nat)    (* EquivalenceRule(union rule), child_idx = cidx; also EquivalenceRule of a
                                             product rule with a SINGLE factor (fix 25e10f1: it counts like a union
                                             with a single child, the constructor is DisjointUnion(.., (ep[0],))) *)
| REquivRev (c p : Z) (ep : list (Z * Z)) (* EquivalenceRule(ReverseRule(union rule)): class c = class p *)
| REquivRevProduct (c p : Z)              (* EquivalenceRule(ReverseRule(product rule with a single factor)): the
                                             original constructor is a Quotient, EquivalenceRule.constructor raises
                                             NotImplementedError whatever the dictionaries *)
| RPath (p : Z) (steps : list (bool * list (Z * Z))) (c : Z)
                                          (* EquivalencePathRule: per step (constructor is Complement or Quotient?,
                                             extra_parameters[0]); a single-factor product step is composed like a
                                             union step, its reverse like a Complement step (fix 25e10f1) *)
| RPathNoCtor (p c : Z)                   (* EquivalencePathRule one of whose steps has no constructor
                                             (EquivalenceRule of a reversed single-factor product):
                                             EquivalencePathRule.constructor raises NotImplementedError *)
| RAtom (c : Z) (m : Z)                   (* VerificationRule, AtomStrategy, minimum size m *)
| REmpty (c : Z)                          (* VerificationRule, EmptyStrategy *)
| RVerified (c : Z).                      (* VerificationRule of a user strategy with its own get_genf *)

Definition rule_class (r : rule) : Z :=
  match r with
  | RUnion o | RProduct o | REquivUnion o _ => o_parent o
  | RRevUnion o idx | RRevProduct o idx => nth idx (o_children o) (-1)
  | REquivRev c _ _ => c
  | REquivRevProduct c _ => c
  | RPath p _ _ => p
  | RPathNoCtor p _ => p
  | RAtom c _ | REmpty c | RVerified c => c
  end.

Definition remove_nth {A} (i : nat) (l : list A) : list A := firstn i l ++ skipn (S i) l.

Fixpoint has_dup (l : list Z) : bool :=
  match l with [] => false | x :: t => existsb (Z.eqb x) t || has_dup t end.

(* EquivalencePathRule.constructor: compose the parameter dictionaries along the path *)
Definition path_step (acc : option (list (Z * Z))) (st : bool * list (Z * Z)) : option (list (Z * Z)) :=
  match acc with
  | None => None
  | Some ep =>
      let (is_compl, rp) := st in
      if is_compl && has_dup (map snd rp) then None    (* NotImplementedError *)
      else
        let rp' := if is_compl then map (fun ab => (snd ab, fst ab)) rp else rp in
        Some (flat_map (fun pc => match alookup (snd pc) rp' with
                                  | Some x => [(fst pc, x)]
                                  | None => []
                                  end) ep)
  end.
Definition path_eps (ppars : list Z) (steps : list (bool * list (Z * Z))) : option (list (Z * Z)) :=
  fold_left path_step steps (Some (map (fun k => (k, k)) ppars)).

(* Rule.get_equation and its overrides, over the two constructor equations *)
Definition rule_equation_with (ueq peq ceq qeq : expr -> list expr -> list (list (Z * Z)) -> result) (r : rule) : result :=
  match r with
  | RUnion o => ueq (cfun (o_parent o)) (map cfun (o_children o)) (o_eps o)
  | RProduct o => peq (cfun (o_parent o)) (map cfun (o_children o)) (o_eps o)
  | RRevUnion o idx =>
      (* try: Rule.get_equation with the Complement constructor;
         except NotImplementedError: original_rule.get_equation *)
      match ceq (cfun (nth idx (o_children o) (-1)))
              (map cfun (o_parent o :: remove_nth idx (o_children o))) (o_eps o) with
      | NotImpl => ueq (cfun (o_parent o)) (map cfun (o_children o)) (o_eps o)
      | res => res
      end
  | RRevProduct o idx =>
      match qeq (cfun (nth idx (o_children o) (-1)))
              (map cfun (o_parent o :: remove_nth idx (o_children o))) (o_eps o) with
      | NotImpl => peq (cfun (o_parent o)) (map cfun (o_children o)) (o_eps o)
      | res => res
      end
  | REquivUnion o cidx =>
      (* DisjointUnion(comb_class, (child,), (extra_parameters[child_idx],)) *)
      ueq (cfun (o_parent o)) [cfun (nth cidx (o_children o) (-1))] [nth cidx (o_eps o) []]
  | REquivRev c p ep =>
      (* Complement(children[0], (comb_class,), 0, (ep,)); no fallback *)
      ceq (cfun c) [cfun p] [ep]
  | REquivRevProduct _ _ => NotImpl
  | RPath p steps c =>
      match path_eps (pars p) steps with
      | None => NotImpl
      | Some ep => ueq (cfun p) [cfun c] [ep]
      end
  | RPathNoCtor _ _ => NotImpl
  | RAtom c m =>
      match pars c with [] => Ok (cfun c) (Pow (Var 0) m) | _ => NotImpl end
  | REmpty c => Ok (cfun c) (Const 0)
  | RVerified c => Ok (cfun c) (Opaque c)
  end.

(* the code as it is (repaired) / as it was before the fix *)
Definition rule_equation : rule -> result :=
  rule_equation_with union_equation product_equation complement_equation quotient_equation.
Definition rule_equation_old : rule -> result :=
  rule_equation_with union_equation_old product_equation_old complement_equation quotient_equation.
(* with the proposed guard of the reverse constructors *)
Definition rule_equation_guarded : rule -> result :=
  rule_equation_with union_equation product_equation complement_equation_g quotient_equation_g.

(* CombinatorialSpecification.get_equations: one equation per rule; a rule
   whose equation is not implemented yields  F = NOTIMPLEMENTED(x)  (label -1) *)
Definition placeholder (r : rule) (res : result) : result :=
  match res with
  | NotImpl => Ok (cfun (rule_class r)) (Fun (-1) [Var 0])
  | res => res
  end.
Definition spec_equation (r : rule) : result := placeholder r (rule_equation r).
Definition spec_equation_old (r : rule) : result := placeholder r (rule_equation_old r).

End Model.

(* ------------------------------------------------------------ semantics *)
(* Expressions denote truncated power series (Count/Series.v).  F_l(a_0, a_1, ...)
   is the class's series with its j-th own variable replaced by the MONOMIAL a_j:
   an entry (n :: c_1 .. c_k, count) of the class's table becomes the monomial
   a_0^n a_1^{c_1} ... a_k^{c_k}.  Division has no direct meaning: an equation
   l = a / b_1 / .. / b_k is read as  l * b_1 * .. * b_k = a  (undiv). *)
Section Sem.
Variable S : Z -> list (list Z * Z).   (* label -> truncated table, entries (n :: parameters, count) *)
Variable O : Z -> poly.                (* label -> series of the user verification strategy *)

Fixpoint amono (e : expr) : option mono :=
  match e with
  | Var v => Some (mvar v)
  | Const z => if z =? 1 then Some mzero else None
  | Mul a b => match amono a, amono b with
               | Some x, Some y => Some (madd x y)
               | _, _ => None
               end
  | _ => None
  end.

Fixpoint amonos (args : list expr) : option (list mono) :=
  match args with
  | [] => Some []
  | a :: t => match amono a, amonos t with
              | Some m, Some r => Some (m :: r)
              | _, _ => None
              end
  end.

Definition lincomb (c : list Z) (ms : list mono) : mono :=
  fun u => psum (fun cm => fst cm * snd cm u) (combine c ms).

Definition lift2 (f : poly -> poly -> poly) (a b : option poly) : option poly :=
  match a, b with Some p, Some q => Some (f p q) | _, _ => None end.

Fixpoint sem (e : expr) : option poly :=
  match e with
  | Var v => Some [(mvar v, 1)]
  | Const z => Some (pconst z)
  | Fun l args =>
      match amonos args with
      | Some ms => Some (map (fun t => (lincomb (fst t) ms, snd t)) (S l))
      | None => None
      end
  | Add a b => lift2 padd (sem a) (sem b)
  | Sub a b => lift2 (fun p q => padd p (pneg q)) (sem a) (sem b)
  | Mul a b => lift2 pmul (sem a) (sem b)
  | Div _ _ => None
  | Pow a k => if k <? 0 then None
               else match sem a with Some p => Some (ppow p (Z.to_nat k)) | None => None end
  | Opaque l => Some (O l)
  end.

(* l = a / b  is read as  l * b = a *)
Fixpoint undiv (l r : expr) : expr * expr :=
  match r with
  | Div a b => let (l', r') := undiv l a in (Mul l' b, r')
  | _ => (l, r)
  end.

(* the equation holds coefficient-wise up to order N (in x), compared on the variables V *)
Definition holds (V : list Z) (N : Z) (lhs rhs : expr) : Prop :=
  exists p q, sem (fst (undiv lhs rhs)) = Some p /\ sem (snd (undiv lhs rhs)) = Some q /\
    forall m : mono, 0 <= m 0 <= N -> pcoef V p m = pcoef V q m.

End Sem.

(* the table of a class truncated at order N, from its terms per size
   (Python: comb_class.get_terms(n), a Counter parameters -> count) *)
Definition tbl (N : Z) (Tl : Z -> list (list Z * Z)) : list (list Z * Z) :=
  flat_map (fun n => map (fun t => (n :: fst t, snd t)) (Tl n)) (zrange 0 (N + 1)).
