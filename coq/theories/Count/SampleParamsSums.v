(* C08 with extra parameters — finite sums used to compare the sampling weights of a
   product rule with the table CartesianProduct.get_terms computes. *)
From Coq Require Import ZArith List Bool Lia.
From CSS Require Import Gen.Prelude Count.CompositionsSpec Count.Terms Count.Constructors Count.ConstructorsUnionProduct.
Import ListNotations.
Open Scope Z_scope.

Lemma py_sum_zsum {A} (f : A -> Z) l : py_sum (map f l) = zsum f l.
Proof. induction l as [|x l IH]; [reflexivity|]. simpl map. rewrite py_sum_cons. simpl. lia. Qed.

Lemma zsum_le {A} (f g : A -> Z) l : (forall x, In x l -> f x <= g x) -> zsum f l <= zsum g l.
Proof.
  induction l as [|x l IH]; intros H; simpl; [lia|].
  pose proof (H x (or_introl eq_refl)). pose proof (IH (fun y Hy => H y (or_intror Hy))). lia.
Qed.

Lemma zsum_ge_member {A} (f : A -> Z) l a : (forall x, In x l -> 0 <= f x) -> In a l -> f a <= zsum f l.
Proof.
  induction l as [|x l IH]; intros H Hin; [destruct Hin|]. simpl.
  pose proof (H x (or_introl eq_refl)).
  pose proof (zsum_nonneg f l (fun y Hy => H y (or_intror Hy))).
  destruct Hin as [->|Hin]; [lia|]. pose proof (IH (fun y Hy => H y (or_intror Hy)) Hin). lia.
Qed.

(* at most one member of a duplicate-free list equals a *)
Lemma zsum_indicator_le {B} (eqb : B -> B -> bool) (a : B) (v : Z) (L : list B) :
  (forall x y, eqb x y = true <-> x = y) -> NoDup L -> 0 <= v ->
  zsum (fun M => if eqb a M then v else 0) L <= v.
Proof.
  intros Heq Hnd Hv. induction Hnd as [|M L HM Hnd IH]; simpl; [lia|].
  destruct (eqb a M) eqn:E.
  - apply Heq in E. subst M. rewrite zsum_zero; [lia|].
    intros y Hy. destruct (eqb a y) eqn:E'; [|reflexivity]. apply Heq in E'. subst y. contradiction.
  - lia.
Qed.

(* summing, over a duplicate-free list L of targets, the mass of the fibres of psi is at most the
   whole mass *)
Lemma zsum_fiber_le {A B} (eqb : B -> B -> bool) (psi : A -> B) (g : A -> Z) (L : list B) (Y : list A) :
  (forall x y, eqb x y = true <-> x = y) -> NoDup L -> (forall y, In y Y -> 0 <= g y) ->
  zsum (fun M => zsum (fun y => if eqb (psi y) M then g y else 0) Y) L <= zsum g Y.
Proof.
  intros Heq Hnd. induction Y as [|y Y IH]; intros Hg.
  - simpl. rewrite zsum_zero; [lia|]. intros; reflexivity.
  - simpl. rewrite zsum_plus.
    pose proof (zsum_indicator_le eqb (psi y) (g y) L Heq Hnd (Hg y (or_introl eq_refl))).
    pose proof (IH (fun z Hz => Hg z (or_intror Hz))). lia.
Qed.

(* equality of lists of parameter tuples *)
Fixpoint pl_eqb (a b : list params) : bool :=
  match a, b with
  | [], [] => true
  | x :: a', y :: b' => params_eqb x y && pl_eqb a' b'
  | _, _ => false
  end.

Lemma pl_eqb_eq a b : pl_eqb a b = true <-> a = b.
Proof.
  revert b. induction a as [|x a IH]; intros [|y b]; simpl; split; intros H;
    try discriminate; try reflexivity.
  - apply andb_true_iff in H. destruct H as [H1 H2]. apply params_eqb_eq in H1. apply IH in H2. subst. reflexivity.
  - injection H as -> ->. apply andb_true_iff. split; [apply params_eqb_refl|]. apply IH. reflexivity.
Qed.

(* the product of the children's counts at given tuples = the mass of the combinations of table
   entries carrying exactly these tuples (itertools.product over the items of the Counters) *)
Lemma zprod_tget_combos : forall (Ts : list terms) (qs : list params),
  length Ts = length qs ->
  zsum (fun cmb : list entry => if pl_eqb (map fst cmb) qs then zprod (map snd cmb) else 0) (combos Ts)
  = zprod (map2 tget Ts qs).
Proof.
  induction Ts as [|T Ts IH]; intros [|q qs] Hl; simpl in Hl; try lia.
  - simpl. unfold zprod. simpl. lia.
  - simpl combos. rewrite zsum_flat_map.
    transitivity (zsum (fun e : entry => (if params_eqb (fst e) q then snd e else 0) * zprod (map2 tget Ts qs)) T).
    + apply zsum_ext. intros e _. rewrite zsum_map. rewrite <- (IH qs) by lia.
      rewrite <- zsum_scale. apply zsum_ext. intros cmb _. simpl.
      destruct (params_eqb (fst e) q); simpl; [|lia].
      destruct (pl_eqb (map fst cmb) qs); [|lia]. unfold zprod. simpl. lia.
    + simpl map2. unfold zprod at 2. simpl. fold (zprod (map2 tget Ts qs)).
      rewrite (tget_zsum T q). rewrite (Z.mul_comm (zsum _ T)). rewrite <- zsum_scale.
      apply zsum_ext. intros e _. lia.
Qed.

(* tget of the table of one composition of sizes *)
Lemma comp_table_tget fs tabs sizes p :
  tget (comp_table fs tabs sizes) p
  = zsum (fun cmb : list entry => if params_eqb (new_param fs (map fst cmb)) p then zprod (map snd cmb) else 0)
         (combos (tabs_at tabs sizes)).
Proof. unfold comp_table. rewrite tget_zsum, zsum_map. reflexivity. Qed.
