(* C07 — round trips of the derived rule forms: EquivalenceRule, ReverseRule of
   an equivalence, EquivalenceRule of such a ReverseRule, EquivalencePathRule.
   The strategy's own maps (fwd, bwd of the plain rule) satisfy the union
   contract of Count/ObjectsProofs.v; the derived maps are the transcriptions
   in Count/ObjectsModel.v. *)
From Coq Require Import ZArith List Bool Lia.
From CSS Require Import Base.PyList Count.ObjectsModel Count.ObjectsLists Count.ObjectsProofs.
Import ListNotations.
Open Scope Z_scope.

Lemma nth_error_ext_local {A} : forall (a b : list A),
  (forall i, nth_error a i = nth_error b i) -> a = b.
Proof.
  induction a as [|x a IH]; intros [|y b] H.
  - reflexivity.
  - specialize (H O). discriminate.
  - specialize (H O). discriminate.
  - pose proof (H O) as H0. simpl in H0. inversion H0; subst. f_equal.
    apply IH. intros i. exact (H (S i)).
Qed.

Section Forms.
Context {obj : Type}.
Variable size : obj -> Z.
Variable In_cls : nat -> obj -> Prop.
Variable par : nat -> obj -> params.

(* a unary rule form from class A to class B: forward sends an object of A to
   one object of B, and backward of that returns the object *)
Definition link (A B : nat) (f : obj -> option (subobj obj)) (b : subobj obj -> option (list obj)) : Prop :=
  forall o, In_cls A o -> exists y, In_cls B y /\ f o = Some [Some y] /\ b [Some y] = Some [o].

Lemma nth_slot K j (y : obj) : (j < K)%nat -> nth j (slot K j y) None = Some y.
Proof.
  intros Hj. unfold slot. apply nth_error_nth.
  apply nth_error_set_nth_same. rewrite repeat_length. assumption.
Qed.

Lemma slot_as_map K j (y : obj) :
  (j < K)%nat ->
  map (fun i => if Nat.eqb i j then Some y else None) (seq 0 K) = slot K j y.
Proof.
  intros Hj. apply nth_error_ext_local. intros i.
  unfold slot. rewrite nth_error_set_nth_repeat by assumption.
  rewrite nth_error_map.
  destruct (Nat.ltb_spec i K) as [Hi|Hi].
  - rewrite nth_error_nth' with (d := O) by (rewrite seq_length; assumption).
    rewrite seq_nth by assumption. simpl.
    destruct (Nat.eqb i j); reflexivity.
  - assert (E : nth_error (seq 0 K) i = None) by (apply nth_error_None; rewrite seq_length; assumption).
    rewrite E. simpl. destruct (Nat.eqb_spec i j); [lia|reflexivity].
Qed.

Lemma slot_first K (o : obj) : (1 <= K)%nat -> slot K 0 o = Some o :: repeat None (K - 1).
Proof. intros H. destruct K as [|K]; [lia|]. unfold slot. simpl. rewrite Nat.sub_0_r. reflexivity. Qed.

Section OneRule.
Variables (c : nat) (kids : list nat) (maps : list pmap).
Variables (fwd : obj -> subobj obj) (bwd : subobj obj -> list obj).
Hypothesis contract : union_contract size In_cls par c kids maps fwd bwd.
(* Rule.forward_map / backward_map of the plain rule never raise on the class's objects *)
Let pf (o : obj) : option (subobj obj) := Some (fwd o).
Let pb (t : subobj obj) : option (list obj) := Some (bwd t).

(* the rule is an equivalence: child j is the only non-empty child *)
Variables (j kj : nat).
Hypothesis child_j : nth_error kids j = Some kj.
Hypothesis others_empty : forall i k y, nth_error kids i = Some k -> In_cls k y -> i = j.

Lemma j_lt : (j < length kids)%nat.
Proof. apply nth_error_Some. congruence. Qed.

(* EquivalenceRule(rule): parent c, child kids[j] *)
Theorem equivalence_link :
  link c kj (eqv_forward pf j) (eqv_backward pb j (length kids)).
Proof.
  intros o Ho. destruct contract as [HU1 _].
  destruct (HU1 o Ho) as (i & k & y & Hi & Hf & Hy & _ & _ & Hb).
  assert (i = j) by (eapply others_empty; eassumption). subst i.
  rewrite child_j in Hi. inversion Hi; subst k.
  exists y. split; [assumption|]. unfold eqv_forward, eqv_backward, pf, pb. split.
  - rewrite Hf, nth_slot by apply j_lt. reflexivity.
  - simpl nth. rewrite slot_as_map by apply j_lt. rewrite <- Hf, Hb. reflexivity.
Qed.

(* ReverseRule(rule, j): parent kids[j], first child c.  Its forward map
   returns (o, None, ..) of the length of the original rule's children. *)
Theorem reverse_roundtrip : forall y, In_cls kj y ->
  exists o, In_cls c o /\
    rev_forward pb j (length kids) true y = Some (Some o :: repeat None (length kids - 1)) /\
    rev_backward pf j true (Some o :: repeat None (length kids - 1)) = Some [y].
Proof.
  intros y Hy. destruct contract as [_ HU2].
  destruct (HU2 j kj y child_j Hy) as (o & Hb & Ho & Hf).
  exists o. split; [assumption|]. unfold rev_forward, rev_backward, pf, pb. simpl negb. cbv iota.
  fold (slot (length kids) j y). rewrite Hb. split; [reflexivity|].
  simpl tl. simpl nth.
  assert (Hall : forallb (fun x : option obj => match x with None => true | Some _ => false end)
                         (repeat None (length kids - 1)) = true).
  { generalize (length kids - 1)%nat. induction n; simpl; auto. }
  rewrite Hall. simpl. rewrite Hf, nth_slot by apply j_lt. reflexivity.
Qed.

(* a ReverseRule whose original rule has a single child is used as it is *)
Theorem reverse_single_link : length kids = 1%nat ->
  link kj c (rev_forward pb j (length kids) true) (rev_backward pf j true).
Proof.
  intros H1 y Hy. destruct (reverse_roundtrip y Hy) as (o & Ho & Hf & Hb).
  exists o. rewrite H1 in *. simpl in *. auto.
Qed.

(* EquivalenceRule(ReverseRule(rule, j)): its child index is 0 and it has as
   many "actual children" as the original rule *)
Theorem reverse_equivalence_link :
  link kj c (eqv_forward (rev_forward pb j (length kids) true) 0)
            (eqv_backward (rev_backward pf j true) 0 (length kids)).
Proof.
  intros y Hy. destruct (reverse_roundtrip y Hy) as (o & Ho & Hf & Hb).
  exists o. split; [assumption|]. unfold eqv_forward, eqv_backward. rewrite Hf. simpl nth.
  split; [reflexivity|].
  pose proof j_lt as Hj.
  rewrite (slot_as_map (length kids) 0 o) by lia. rewrite slot_first by lia. assumption.
Qed.

End OneRule.

(* a plain rule with a single child is itself a unary form *)
Theorem plain_single_link c k maps fwd bwd :
  union_contract size In_cls par c [k] maps fwd bwd ->
  link c k (fun o => Some (fwd o)) (fun t => Some (bwd t)).
Proof.
  intros [HU1 _] o Ho. destruct (HU1 o Ho) as (i & k' & y & Hi & Hf & Hy & _ & _ & Hb).
  destruct i as [|i]; [|destruct i; discriminate]. simpl in Hi. inversion Hi; subst k'.
  exists y. split; [assumption|]. unfold slot in Hf. simpl in Hf. rewrite <- Hf, Hb. auto.
Qed.

(* ---------------------------------------------------------------- EquivalencePathRule *)
Definition form := ((obj -> option (subobj obj)) * (subobj obj -> option (list obj)))%type.

Inductive chain : nat -> list form -> nat -> Prop :=
| chain_nil : forall A, chain A [] A
| chain_cons : forall A B C f b rest, link A B f b -> chain B rest C -> chain A ((f, b) :: rest) C.

Lemma path_backward_rev_app : forall (l1 l2 : list (subobj obj -> option (list obj))) z o',
  path_backward_rev l1 [Some z] = Some [o'] ->
  path_backward_rev (l1 ++ l2) [Some z] = path_backward_rev l2 [Some o'].
Proof.
  induction l1 as [|b l1 IH]; intros l2 z o' H; simpl in *.
  - inversion H; subst. reflexivity.
  - destruct (b [Some z]) as [[|x xs]|]; try discriminate. apply IH. assumption.
Qed.

Theorem path_roundtrip : forall A fbs C, chain A fbs C ->
  forall o, In_cls A o ->
  exists z, In_cls C z /\ path_forward (map fst fbs) o = Some [Some z] /\
            path_backward (map snd fbs) [Some z] = Some [o].
Proof.
  induction 1 as [A|A B C f b rest Hl Hc IH]; intros o Ho.
  - exists o. split; [assumption|]. split; reflexivity.
  - destruct (Hl o Ho) as (y & Hy & Hf & Hb).
    destruct (IH y Hy) as (z & Hz & Hpf & Hpb).
    exists z. split; [assumption|]. split.
    + simpl. rewrite Hf. simpl. assumption.
    + unfold path_backward in *. simpl. rewrite (path_backward_rev_app _ [b] z y Hpb).
      simpl. rewrite Hb. reflexivity.
Qed.

End Forms.
