(* C09, fix 25e10f1: a product rule with a SINGLE factor as an equivalence step and in reverse.
     one_factor_genuine_iff            a one-factor product is genuine iff the one-child union over the
                                       same dictionary is: "counts like a union with a single child"
     equiv_product_step_correct        form 7 (EquivalenceRule of a one-factor product) returns the
                                       parent's true table
     quotient_no_sibling_correct       form 3 with ONE kid (Quotient without sibling: _c = 1, nothing of
                                       the rule's own earlier terms is read): every level is the child's
                                       true table
     path_step_k_correct               form 6 with typed steps: raw one-factor product rules / their
                                       ReverseRules contribute the dictionary of their only factor
     one_factor_product_link           ... and such a step is a genuine link of the chain            *)
From Coq Require Import ZArith List Bool Lia.
From CSS Require Import Gen.Prelude Gen.Compositions Gen.QuotientParentShift
  Count.CompositionsSpec Count.Terms Count.Constructors Count.ConstructorsUnionProduct
  Count.ConstructorsComplement Count.ConstructorsQuotient Count.ConstructorsDerived Count.ConstructorsDict
  Count.TermsPoly Count.TermsPolyOrder Count.TermsPolyDiv Count.ConstructorsConv Count.ConstructorsQuotientParams
  Count.ConstructorsSteps Count.ConstructorsStepsQuotient.
Import ListNotations.
Open Scope Z_scope.

(* ---------------------------------------------------------------- compositions into one part *)
Lemma nil_of_no_member {A} (l : list A) : (forall x, ~ In x l) -> l = [].
Proof. destruct l as [|x l]; intros H; [reflexivity|]. exfalso. apply (H x). left. reflexivity. Qed.

Lemma comp_one_inv n mins maxs t : zlen mins = 1 -> zlen maxs = 1 ->
  In t (compositions n 1 mins maxs) -> t = [n] /\ Forall2 Z.le mins [n] /\ Forall2 bounded [n] maxs.
Proof.
  intros Hm HM Hin. apply compositions_sound in Hin; [|exact Hm|exact HM].
  destruct Hin as (L & S & Hle & Hb). destruct (zlen_1_inv _ L) as (x & ->).
  rewrite py_sum_cons in S. unfold py_sum in S. simpl in S. assert (x = n) by lia. subst x. auto.
Qed.

(* _a of a Quotient without sibling subtracts nothing: the flipped child would have to be smaller than n *)
Lemma compositions_one_capped n m0 : compositions n 1 [m0] [Some (n - 1)] = [].
Proof.
  apply nil_of_no_member. intros t Hin. apply comp_one_inv in Hin; [|reflexivity|reflexivity].
  destruct Hin as (_ & _ & Hb). inversion Hb as [|? ? ? ? Hx _]; subst. simpl in Hx. lia.
Qed.

(* ---------------------------------------------------------------- the one-factor convolution *)
Lemma comp_table_one f (t : terms) :
  map (combo_entry [f]) (combos [t]) = map (fun e : entry => (f (fst e), snd e * 1)) t.
Proof.
  simpl combos. induction t as [|e t IH]; [reflexivity|].
  simpl flat_map. simpl map at 1. rewrite IH. reflexivity.
Qed.

Lemma tget_mul1 f (t : terms) q : tget (map (fun e : entry => (f (fst e), snd e * 1)) t) q = tget (rekey f t) q.
Proof.
  unfold rekey. induction t as [|[k v] t IH]; [reflexivity|]. simpl. rewrite IH. rewrite Z.mul_1_r. reflexivity.
Qed.

Lemma one_factor_product_table f (tab : Z -> terms) n q : 0 <= n ->
  tget (product_table [f] (zeros 1) (nones 1) [tab] n) q = tget (rekey f (tab n)) q.
Proof.
  intros Hn. rewrite product_table_tget. change (zlen [tab]) with 1.
  rewrite (zsum_single _ _ [n]).
  - unfold comp_table. rewrite tabs_at_cons. change (tabs_at [] []) with (@nil terms).
    rewrite comp_table_one. apply tget_mul1.
  - apply compositions_nodup.
  - apply compositions_complete; [lia|apply Forall_zeros|].
    unfold is_comp. split; [reflexivity|]. split; [unfold py_sum; simpl; lia|].
    split; [constructor; [lia|constructor]|constructor; [exact I|constructor]].
  - intros y Hy Hne. exfalso. apply Hne. apply comp_one_inv in Hy; [tauto|reflexivity|reflexivity].
Qed.

(* a product with a single factor counts like a union with a single child *)
Theorem one_factor_genuine_iff f (tab : Z -> terms) Tp n : 0 <= n ->
  product_genuine [f] [tab] Tp n <-> union_genuine [f] [tab n] Tp.
Proof.
  intros Hn. unfold product_genuine, union_genuine, union_table. simpl map2. simpl concat. rewrite app_nil_r.
  change (zlen [tab]) with 1.
  split; intros H q; rewrite (H q); [apply one_factor_product_table|symmetry; apply one_factor_product_table]; exact Hn.
Qed.

(* ---------------------------------------------------------------- form 7: EquivalenceRule of a one-factor product *)
(* the constructor 25e10f1 builds IS the one-child DisjointUnion of form 4 *)
Theorem equiv_product_step_is_equiv_union_step pnames k ktabs own n :
  equiv_product_step pnames [k] ktabs own n = equiv_union_step pnames [k] ktabs own n.
Proof.
  unfold equiv_product_step, equiv_union_step, first_nonempty. simpl. destruct (k_empty k); reflexivity.
Qed.

(* more than one factor: EquivalenceRule.constructor has no branch *)
Lemma equiv_product_step_not_implemented pnames k1 k2 kids ktabs own n ci :
  first_nonempty (k1 :: k2 :: kids) = Some ci ->
  equiv_product_step pnames (k1 :: k2 :: kids) ktabs own n = Err E_NOTIMPL.
Proof. intros H. unfold equiv_product_step. rewrite H. reflexivity. Qed.

Theorem equiv_product_step_correct pnames k ktab Tp own n :
  0 <= n -> k_empty k = false -> kid_wf pnames k -> kid_keys k (tab_at ktab n) ->
  product_genuine [kid_sem pnames k] [tab_at ktab] Tp n ->
  exists r, equiv_product_step pnames [k] [ktab] own n = Ok r /\ teq r Tp.
Proof.
  intros Hn He Hwf Hk Hg. rewrite equiv_product_step_is_equiv_union_step.
  apply (equiv_union_step_correct pnames [k] [ktab] Tp own n 0%nat).
  - unfold first_nonempty. simpl. rewrite He. reflexivity.
  - reflexivity.
  - exact Hwf.
  - exact Hk.
  - intros j Hj Hlt. simpl in Hlt. lia.
  - simpl map. apply (proj1 (one_factor_genuine_iff _ _ _ _ Hn)). exact Hg.
Qed.

(* ---------------------------------------------------------------- form 3 with one kid: Quotient without sibling *)
Lemma pmul_one (B : terms) num : (forall k v, In (k, v) B -> length k = num) ->
  teq (pmul B [(repeat 0 num, 1)]) B.
Proof.
  intros H q. induction B as [|[k v] B IH]; [reflexivity|].
  change ((k, v) :: B) with ([(k, v)] ++ B) at 1. rewrite pmul_app_l, tget_app.
  rewrite IH by (intros k' v' Hin; apply (H k' v'); right; exact Hin).
  assert (E : zip_add k (repeat 0 num) = k).
  { specialize (H k v (or_introl eq_refl)). clear -H. revert num H.
    induction k as [|x k IHk]; intros [|num] H; simpl in *; try discriminate; [reflexivity|].
    rewrite Z.add_0_r. f_equal. apply IHk. lia. }
  unfold pmul. simpl flat_map. simpl fst. simpl snd. rewrite E, Z.mul_1_r. simpl. lia.
Qed.

Lemma acc_entries_nil sgn acc : acc_entries sgn acc [] = Ok acc.
Proof. reflexivity. Qed.

Section NoSibling.
  Variable f : params -> params.             (* the only factor's map (child tuple -> parent tuple) *)
  Variable ppm : params -> res params.       (* Quotient._parent_param_map *)
  Variable num : nat.
  Variable m0 : Z.
  Variable atom : bool.
  Variable TP : Z -> terms.                  (* the original parent's true tables *)
  Variable tab : Z -> terms.                 (* the factor's true tables *)

  Hypothesis Hnum : (1 <= num)%nat.
  Hypothesis Hvanish : forall m, m < m0 -> allzero (tab m).      (* minimum_size_of_object *)
  Hypothesis Hkeys : forall m k v, In (k, v) (tab m) -> length (f k) = num /\ Forall (fun y => 0 <= y) (f k).
  Hypothesis Hnn : forall m, nonneg (tab m).
  Hypothesis Hround : forall m k v, In (k, v) (tab m) -> ppm (f k) = Ok k.

  (* NOTHING of the rule's own earlier terms is read: `own` is arbitrary *)
  Lemma quotient_no_sibling_level own n :
    0 <= n -> product_genuine [f] [tab] (TP n) n ->
    exists r, quotient_get_terms [f] ppm num [(m0, atom)] 0 TP [own] n = Ok r /\ teq r (tab n).
  Proof.
    intros Hn Hg. apply (proj1 (one_factor_genuine_iff _ _ _ _ Hn)) in Hg.
    unfold union_genuine, union_table in Hg. simpl in Hg. rewrite app_nil_r in Hg.
    unfold quotient_get_terms.
    assert (Epsh : quotient_parent_shift [(m0, atom)] (Z.of_nat 0) = 0)
      by (unfold quotient_parent_shift, py_sum, py_get; simpl; lia).
    rewrite Epsh. change (py_get 0 (quotient_min_sizes [(m0, atom)]) (Z.of_nat 0)) with m0.
    destruct (n <? m0) eqn:Hlt.
    - exists []. split; [reflexivity|]. intros p. simpl. symmetry. apply tget_allzero. apply Hvanish. lia.
    - rewrite Z.add_0_r.
      change (replace_at 0 (Some (n - 1)) (quotient_max_sizes [(m0, atom)])) with [Some (n - 1)].
      change (quotient_min_sizes [(m0, atom)]) with [m0].
      unfold product_table at 1. change (zlen [own]) with 1. rewrite compositions_one_capped.
      simpl flat_map. rewrite acc_entries_nil. cbn [bind].
      change (length [(m0, atom)] =? 1)%nat with true. cbv iota. cbn [bind].
      set (c := [(repeat 0 num, 1)]).
      set (B := rekey f (tab n)).
      assert (HBl : forall k v, In (k, v) B -> length k = num).
      { intros k v Hin. unfold B, rekey in Hin. apply in_map_iff in Hin. destruct Hin as ([k0 v0] & E & Hin).
        simpl in E. injection E as E1 E2. subst k. apply (Hkeys n k0 v0 Hin). }
      assert (HB_nn : nonneg B) by (apply nonneg_rekey; apply Hnn).
      assert (Hdiv : exists b, quotient_divide num (TP n) c = Ok b /\ canon b /\ teq b B).
      { rewrite quotient_divide_pos by exact Hnum.
        apply (poly_div_exact num (TP n) c B).
        - intros k Hk. destruct (tget_rekey_nonzero _ _ _ Hk) as (k0 & v0 & Hin & <-). apply (Hkeys n k0 v0 Hin).
        - intros k Hk. unfold c in Hk. simpl in Hk. destruct (params_eqb (repeat 0 num) k) eqn:E; [|lia].
          apply params_eqb_eq in E. subst k. apply repeat_length.
        - intros k Hk. destruct (tget_rekey_nonzero _ _ _ Hk) as (k0 & v0 & Hin & <-). apply (Hkeys n k0 v0 Hin).
        - intros k Hk. unfold c in Hk. simpl in Hk. destruct (params_eqb (repeat 0 num) k) eqn:E; [|lia].
          apply params_eqb_eq in E. subst k. clear. induction num; simpl; constructor; [lia|assumption].
        - intros p. apply tget_nonneg. exact HB_nn.
        - intros p. unfold c. simpl. destruct (params_eqb (repeat 0 num) p); lia.
        - intros Hz. specialize (Hz (repeat 0 num)). unfold c in Hz. simpl in Hz. rewrite params_eqb_refl in Hz. lia.
        - eapply teq_trans; [exact Hg|]. apply teq_sym. apply pmul_one. exact HBl. }
      destruct Hdiv as (b & Hb & Cb & HbB). rewrite Hb. cbn [bind].
      set (g := fun k : params => match ppm k with Ok k' => k' | Err _ => [] end).
      assert (Hkb : forall k v, In (k, v) b -> exists k0 v0, In (k0, v0) (tab n) /\ f k0 = k).
      { intros k v Hin. apply (tget_rekey_nonzero f (tab n) k). fold B. rewrite <- (HbB k).
        rewrite (tget_ssorted_in b k v (proj1 Cb) Hin). apply (proj2 Cb k v Hin). }
      assert (Hgk : forall k0 v0, In (k0, v0) (tab n) -> g (f k0) = k0).
      { intros k0 v0 Hin. unfold g. rewrite (Hround n k0 v0 Hin). reflexivity. }
      rewrite (collect_ok ppm g b []).
      + exists (rev (rekey g b) ++ []). split; [reflexivity|]. rewrite app_nil_r.
        intros q. rewrite tget_rev. rewrite (tget_rekey_ext g b B HbB q). unfold B. rewrite rekey_rekey.
        rewrite (rekey_id_in (fun k => g (f k)) (tab n) Hgk). reflexivity.
      + intros k v Hin. destruct (Hkb k v Hin) as (k0 & v0 & Hin0 & <-).
        rewrite (Hround n k0 v0 Hin0). rewrite (Hgk k0 v0 Hin0). reflexivity.
      + apply nodup_map_inj'; [|apply ssorted_nodup_keys; exact (proj1 Cb)].
        intros x y Hx Hy E. apply in_map_iff in Hx. destruct Hx as ([kx vx] & <- & Hx).
        apply in_map_iff in Hy. destruct Hy as ([ky vy] & <- & Hy). simpl in *.
        destruct (Hkb kx vx Hx) as (k1 & v1 & H1 & <-). destruct (Hkb ky vy Hy) as (k2 & v2 & H2 & <-).
        rewrite (Hgk k1 v1 H1), (Hgk k2 v2 H2) in E. subst. reflexivity.
      + intros k v _ [].
  Qed.
End NoSibling.

(* end to end: the executable step run_c09 dispatches to, ONE kid, with parameters *)
Theorem quotient_no_sibling_correct pnames k ptabs ktab N :
  (1 <= length pnames)%nat -> kid_wf pnames k ->
  (forall a b, In (a, b) (k_dict k) -> In b (k_names k)) ->
  (forall cv, In cv (k_names k) -> In cv (map snd (k_dict k))) ->
  (forall m, kid_keys k (tab_at ktab m)) -> (forall m, nonneg (tab_at ktab m)) ->
  (forall m key v, In (key, v) (tab_at ktab m) -> Forall (fun y => 0 <= y) key) ->
  (forall m, m < k_min k -> allzero (tab_at ktab m)) ->
  (forall m, 0 <= m <= N -> product_genuine [kid_sem pnames k] [tab_at ktab] (tab_at ptabs m) m) ->
  0 <= N ->
  exists tl : list terms, levels (quotient_step pnames [k] 0 ptabs [ktab]) N = (tl, None) /\
    length tl = Z.to_nat (N + 1) /\
    forall m, (m < length tl)%nat -> teq (nth m tl []) (tab_at ktab (Z.of_nat m)).
Proof.
  intros Hnum Hwf Hvals Hcov Hk Hnn Hknn Hvan Hgen HN.
  apply (levels_pointwise (quotient_step pnames [k] 0 ptabs [ktab]) (fun m r => teq r (tab_at ktab m)) N HN).
  intros own m Hm.
  unfold quotient_step. simpl nth.
  rewrite (mapM_sum_maps pnames [k]) by (constructor; [exact Hwf|constructor]). cbn [bind].
  rewrite (parent_pos_map_ok pnames (k_names k) (k_dict k) Hvals (proj1 (proj2 Hwf))). cbn [bind].
  simpl map. change (replace_at 0 own [tab_at ktab]) with [own].
  change (kid_descs [k]) with [(k_min k, k_atom k)].
  assert (Hagree : forall m' key v, In (key, v) (tab_at ktab m') -> kid_sum pnames k key = kid_sem pnames k key).
  { intros m' key v Hin. apply kid_sum_sem; [exact Hwf|]. apply (Hk m' key v Hin). }
  apply (quotient_no_sibling_level (kid_sum pnames k) _ (length pnames) (k_min k) (k_atom k)
           (tab_at ptabs) (tab_at ktab)).
  - exact Hnum.
  - exact Hvan.
  - intros m' key v Hin. rewrite (Hagree m' key v Hin). split; [apply kid_sem_length|].
    apply kid_sem_nonneg. apply (Hknn m' key v Hin).
  - exact Hnn.
  - intros m' key v Hin. rewrite (Hagree m' key v Hin).
    apply (quotient_parent_map_round_trip pnames (k_names k) (k_dict k) key Hwf Hvals Hcov). apply (Hk m' key v Hin).
  - lia.
  - unfold product_genuine. change (zlen [tab_at ktab]) with 1.
    intros q. rewrite (Hgen m Hm q). unfold product_genuine. change (zlen [tab_at ktab]) with 1.
    rewrite !one_factor_product_table by lia. unfold rekey.
    f_equal. apply map_ext_in. intros [key v] Hin. simpl. rewrite (Hagree m key v Hin). reflexivity.
Qed.

(* ---------------------------------------------------------------- form 6 with typed steps *)
(* union kinds: the typed path IS the path of the lowered steps *)
Lemma kstep_lower_union kind pn kids idx : kind < 2 ->
  kstep_lower (kind, pn, kids, idx) = Ok (negb (kind =? 0), pn, kids, idx).
Proof. intros H. unfold kstep_lower. replace (kind <? 2) with true by lia. reflexivity. Qed.

(* a raw one-factor product rule / its reverse is described like the one-child union over the same kid *)
Lemma kstep_lower_product kind pn k idx : 2 <= kind ->
  kstep_lower (kind, pn, [k], idx) = Ok (negb (kind =? 2), pn, [k], 0%nat).
Proof. intros H. unfold kstep_lower. replace (kind <? 2) with false by lia. reflexivity. Qed.

(* EquivalencePathRule.__init__ asserts len(rule.children) == 1 *)
Lemma kstep_lower_product_asserts kind pn k1 k2 kids idx : 2 <= kind ->
  kstep_lower (kind, pn, k1 :: k2 :: kids, idx) = Err E_ASSERT.
Proof. intros H. unfold kstep_lower. replace (kind <? 2) with false by lia. reflexivity. Qed.

Theorem path_step_k_is_path_step ksteps steps tabs own n :
  mapM kstep_lower ksteps = Ok steps ->
  path_step_k ksteps tabs own n = path_step steps tabs own n.
Proof. intros H. unfold path_step_k. rewrite H. reflexivity. Qed.

(* the dictionary a product step contributes is the dictionary of its only factor (inverted, if
   injective, for the reverse): extra_parameters[0] of CartesianProduct / Quotient *)
Lemma step_dict_product_forward pn k idx :
  k_empty k = false -> step_dict (false, pn, [k], idx) = Some (k_dict k).
Proof. intros H. unfold step_dict, first_nonempty. simpl. rewrite H. reflexivity. Qed.

Lemma step_dict_product_reverse pn k idx :
  k_empty k = false -> dict_injective (k_dict k) = true ->
  step_dict (true, pn, [k], idx) = Some (inv_dict (k_dict k)).
Proof. intros H Hi. unfold step_dict, first_nonempty. simpl. rewrite H, Hi. reflexivity. Qed.

(* a genuine one-factor product is a genuine LINK of the chain (the hypothesis chain_ok asks for) *)
Theorem one_factor_product_link pnames k (tab : Z -> terms) Tp n :
  0 <= n -> product_genuine [kid_sem pnames k] [tab] Tp n ->
  teq Tp (rekey (dict_sem pnames (k_names k) (k_dict k)) (tab n)).
Proof.
  intros Hn Hg. apply (proj1 (one_factor_genuine_iff _ _ _ _ Hn)) in Hg.
  unfold union_genuine, union_table in Hg. simpl in Hg. rewrite app_nil_r in Hg. exact Hg.
Qed.

Theorem path_step_k_correct ks0 ksteps s0 steps chain (T0 : terms) tabs own n :
  mapM kstep_lower (ks0 :: ksteps) = Ok (s0 :: steps) ->
  let first := step_source s0 in
  let lastn := step_target (last (s0 :: steps) s0) in
  NoDup first -> klen (length first) T0 ->
  chain_ok first T0 chain ->
  map step_dict (s0 :: steps) = map Some (map (fun s : list Z * dict * terms => snd (fst s)) chain) ->
  fst (chain_end first T0 chain) = lastn ->
  snd (chain_end first T0 chain) = tab_at tabs n ->
  wf_dict first lastn (fold_left dict_compose (map (fun s : list Z * dict * terms => snd (fst s)) chain) (id_dict first)) ->
  klen (length lastn) (tab_at tabs n) ->
  exists r, path_step_k (ks0 :: ksteps) tabs own n = Ok r /\ teq r T0.
Proof.
  intros Hl first lastn H1 H2 H3 H4 H5 H6 H7 H8.
  rewrite (path_step_k_is_path_step _ _ _ _ _ Hl).
  apply (path_step_correct s0 steps chain T0 tabs own n); assumption.
Qed.

(* a path made of ONE raw one-factor product rule: counted from the factor's true table *)
Theorem path_single_product_step_correct pnames k ktab Tp own n :
  0 <= n -> k_empty k = false -> kid_wf pnames k -> kid_keys k (tab_at ktab n) ->
  klen (length pnames) Tp ->
  product_genuine [kid_sem pnames k] [tab_at ktab] Tp n ->
  exists r, path_step_k [(2, pnames, [k], 0%nat)] ktab own n = Ok r /\ teq r Tp.
Proof.
  intros Hn He Hwf Hk HkT Hg.
  pose proof Hwf as (Hpn & Hcn & Hkd & Hsub).
  apply (path_step_k_correct (2, pnames, [k], 0%nat) [] (false, pnames, [k], 0%nat) []
           [(k_names k, k_dict k, tab_at ktab n)] Tp ktab own n).
  - reflexivity.
  - exact Hpn.
  - exact HkT.
  - constructor; [exact Hpn|exact Hsub| |constructor].
    apply (one_factor_product_link pnames k (tab_at ktab) Tp n Hn Hg).
  - cbn [map]. rewrite step_dict_product_forward by exact He. reflexivity.
  - simpl. unfold first_nonempty. simpl. rewrite He. reflexivity.
  - reflexivity.
  - simpl fold_left. simpl step_source.
    unfold wf_dict. split; [exact Hpn|]. split.
    + simpl. unfold first_nonempty. simpl. rewrite He. exact Hcn.
    + split.
      * apply compose_keys_nodup. unfold id_dict. rewrite map_map. simpl. rewrite map_id. exact Hpn.
      * intros a b Hin.
        assert (Hin' : In a (map fst (dict_compose (id_dict pnames) (k_dict k))))
          by (apply in_map_iff; exists (a, b); split; [reflexivity|exact Hin]).
        apply (compose_keys_in (id_dict pnames) (k_dict k)) in Hin'.
        unfold id_dict in Hin'. rewrite map_map in Hin'. simpl in Hin'. rewrite map_id in Hin'. exact Hin'.
  - simpl. unfold first_nonempty. simpl. rewrite He. exact Hk.
Qed.
