(* The three parameter-map functions of the counting model are the functions of
   the SOURCE.  Gen/ConstructorParamMap.v, Gen/UnionParamMap.v and
   Gen/QuotientParamMap.v are re-translated on every run from
     strategies/constructor/base.py      Constructor.param_map
     strategies/constructor/disjoint.py  DisjointUnion.param_map
     strategies/constructor/cartesian.py Quotient.param_map
   (nested loops over enumerate(param) / child_pos_to_parent_pos[pos] updating
   the list new_params; `assert` = the result None).  This file proves that the
   hand-written definitions of Count/Constructors.v (sum_param_map,
   du_param_map, q_param_map: folds over zip(child_pos_to_parent_pos, param)
   with positions in nat) compute exactly those, for ALL arguments.  A source
   edit that changes what a parameter map computes (`+=` to `=`, dropping the
   assertion, a different default) changes the generated definition and breaks
   these lemmas, hence the obligations of Props/C09.v. *)
From Coq Require Import ZArith List Bool Lia.
From CSS Require Import Base.PyList Gen.Prelude Count.Terms Count.Constructors.
From CSS Require Import Gen.ConstructorParamMap Gen.UnionParamMap Gen.QuotientParamMap.
Import ListNotations.
Open Scope Z_scope.

(* positions are naturals in the model, Python integers in the source *)
Definition zpos (pm : list (list nat)) : list (list Z) := map (map Z.of_nat) pm.

(* an AssertionError of the source is the result None of the generated definition *)
Definition res_of_option {A} (o : option A) : res A :=
  match o with Some a => Ok a | None => Err E_ASSERT end.

(* ---------------------------------------------------------------- list primitives *)
Lemma zlen_nonneg {A} (l : list A) : 0 <= zlen l.
Proof. unfold zlen. lia. Qed.

Lemma py_get_of_nat {A} (d : A) (l : list A) (p : nat) : py_get d l (Z.of_nat p) = nth p l d.
Proof.
  unfold py_get, zlen.
  destruct (0 <=? Z.of_nat p) eqn:E0; [|apply Z.leb_gt in E0; lia].
  destruct (Z.of_nat p <? Z.of_nat (length l)) eqn:E1; cbn [andb].
  - now rewrite Nat2Z.id.
  - destruct (Z.of_nat p <? 0) eqn:E2; [apply Z.ltb_lt in E2; lia|]. cbn [andb].
    apply Z.ltb_ge in E1. symmetry. apply nth_overflow. lia.
Qed.

Lemma set_nth_upd {A} (l : list A) (p : nat) (v : A) : set_nth l p v = upd l p (fun _ => v).
Proof. revert p. induction l as [|x l IH]; intros [|p]; cbn; try reflexivity. now rewrite IH. Qed.

Lemma upd_overflow {A} (l : list A) (p : nat) f : (length l <= p)%nat -> upd l p f = l.
Proof.
  revert p. induction l as [|x l IH]; intros [|p] H; cbn in *; try reflexivity; try lia.
  now rewrite IH by lia.
Qed.

Lemma py_setitem_of_nat {A} (l : list A) (p : nat) (v : A) :
  py_setitem l (Z.of_nat p) v = upd l p (fun _ => v).
Proof.
  unfold py_setitem, py_set, zlen.
  destruct (0 <=? Z.of_nat p) eqn:E0; [|apply Z.leb_gt in E0; lia].
  destruct (Z.of_nat p <? Z.of_nat (length l)) eqn:E1; cbn [andb].
  - now rewrite Nat2Z.id, set_nth_upd.
  - destruct (Z.of_nat p <? 0) eqn:E2; [apply Z.ltb_lt in E2; lia|]. cbn [andb].
    apply Z.ltb_ge in E1. symmetry. apply upd_overflow. lia.
Qed.

Lemma upd_const_fun {A} (l : list A) (p : nat) (f : A -> A) (d : A) :
  upd l p (fun _ => f (nth p l d)) = upd l p f.
Proof. revert p. induction l as [|x l IH]; intros [|p]; cbn; try reflexivity. now rewrite IH. Qed.

Lemma init_list {A} (a : A) (num : nat) :
  map (fun _ : Z => a) (py_range 0 (Z.of_nat num)) = repeat a num.
Proof.
  unfold py_range. rewrite Z.sub_0_r, Nat2Z.id, map_map.
  generalize 0%nat. induction num as [|n IH]; intros s; cbn; [reflexivity|]. now rewrite IH.
Qed.

(* `for pos, value in enumerate(param): ... child_pos_to_parent_pos[pos] ...` is the
   walk over zip(child_pos_to_parent_pos, param); a parameter tuple longer than
   the position map is an IndexError in Python: both sides then ignore the rest *)
Section Walk.
Context {St : Type}.
Variable innerZ : St -> Z -> Z -> St.         (* one visit in the source: state, value, position *)
Variable inner : St -> Z -> nat -> St.        (* one visit in the model *)
Hypothesis inner_eq : forall st v p, innerZ st v (Z.of_nat p) = inner st v p. (* in-section *)

Lemma walk_enumerate : forall (param : list Z) (pm : list (list nat)) (i : nat) (st : St),
  fold_left (fun (st : St) (x_ : Z * Z) =>
               let '(pos, value) := x_ in
               fold_left (fun st p => innerZ st value p) (py_get [] (zpos pm) pos) st)
            (py_enumerate_from (Z.of_nat i) param) st =
  fold_left (fun (st : St) (pv : list nat * Z) =>
               fold_left (fun st p => inner st (snd pv) p) (fst pv) st)
            (combine (skipn i pm) param) st.
Proof.
  induction param as [|v param IH]; intros pm i st.
  - destruct (skipn i pm); reflexivity.
  - cbn [py_enumerate_from fold_left].
    replace (Z.of_nat i + 1) with (Z.of_nat (S i)) by lia. rewrite IH.
    unfold zpos. rewrite py_get_of_nat.
    destruct (skipn i pm) as [|ps rest] eqn:E.
    + assert (Hlen : (length pm <= i)%nat).
      { destruct (Nat.le_gt_cases (length pm) i) as [H|H]; [exact H|].
        apply (f_equal (@length _)) in E. rewrite skipn_length in E. cbn in E. lia. }
      rewrite nth_overflow by (rewrite map_length; exact Hlen). cbn [fold_left].
      rewrite (skipn_all2 pm) by lia. reflexivity.
    + assert (Hi : (i < length pm)%nat).
      { destruct (Nat.le_gt_cases (length pm) i) as [H|H]; [|exact H].
        rewrite skipn_all2 in E by exact H. discriminate. }
      assert (Hnth : nth i (map (map Z.of_nat) pm) [] = map Z.of_nat ps).
      { rewrite <- (firstn_skipn i pm) at 1. rewrite E, map_app, app_nth2; rewrite map_length, firstn_length.
        - replace (i - Nat.min i (length pm))%nat with 0%nat by lia. reflexivity.
        - lia. }
      rewrite Hnth. cbn [combine fold_left fst snd].
      assert (Hs : skipn (S i) pm = rest).
      { clear - E. revert pm E. induction i as [|i IHi]; intros [|q pm] E; cbn in *; try discriminate.
        - now inversion E.
        - apply IHi. exact E. }
      rewrite Hs. f_equal.
      clear - inner_eq. revert st. induction ps as [|p ps IHp]; intros st; cbn [map fold_left]; [reflexivity|].
      rewrite inner_eq. apply IHp.
Qed.
End Walk.

(* ---------------------------------------------------------------- Constructor.param_map *)
Lemma sum_visit : forall (st : list Z) (v : Z) (p : nat),
  py_setitem st (Z.of_nat p) (py_get 0 st (Z.of_nat p) + v) = upd st p (fun x => x + v).
Proof.
  intros st v p. rewrite py_setitem_of_nat, py_get_of_nat.
  apply (upd_const_fun st p (fun x => x + v) 0).
Qed.

Lemma sum_param_map_is_source : forall pm num param,
  sum_param_map pm num param = constructor_param_map (zpos pm) (Z.of_nat num) param.
Proof.
  intros pm num param. unfold sum_param_map, constructor_param_map. rewrite init_list.
  unfold py_enumerate. symmetry.
  exact (walk_enumerate (fun st v p => py_setitem st p (py_get 0 st p + v))
                        (fun st v p => upd st p (fun x => x + v))
                        sum_visit param pm 0%nat (repeat 0 num)).
Qed.

(* ---------------------------------------------------------------- folds *)
Lemma fold_left_ext {A B} (f g : A -> B -> A) : (forall a b, f a b = g a b) ->
  forall l a, fold_left f l a = fold_left g l a.
Proof. intros H l. induction l as [|b l IH]; intros a; cbn; [reflexivity|]. now rewrite H, IH. Qed.

(* two folds over the same list that keep a relation between their states *)
Lemma fold_left_rel {A A' B} (R : A -> A' -> Prop) (f : A -> B -> A) (g : A' -> B -> A') :
  (forall a a' b, R a a' -> R (f a b) (g a' b)) ->
  forall l a a', R a a' -> R (fold_left f l a) (fold_left g l a').
Proof. intros H l. induction l as [|b l IH]; intros a a' Ha; cbn; [exact Ha|]. apply IH, H, Ha. Qed.

Lemma unnone_is_map : forall l, unnone l = map py_unopt l.
Proof. intros l. unfold unnone. apply map_ext. intros [v|]; reflexivity. Qed.

(* ---------------------------------------------------------------- DisjointUnion.param_map *)
(* one visit of the generated loop body, positions in nat *)
Definition du_visit (st : list (option Z) * bool) (v : Z) (p : nat) : list (option Z) * bool :=
  let '(l, ok) := st in
  match nth p l None with
  | None => (upd l p (fun _ => Some v), ok)
  | Some w => (l, ok && (w =? v))
  end.

(* model state (a result) against source state (list, no assertion failed so far) *)
Definition du_rel (acc : res (list (option Z))) (st : list (option Z) * bool) : Prop :=
  match acc with
  | Ok l => st = (l, true)
  | Err c => c = E_ASSERT /\ snd st = false
  end.

Lemma du_visit_rel : forall acc st v p, du_rel acc st -> du_rel (du_set acc p v) (du_visit st v p).
Proof.
  intros [l|c] [l' ok] v p H; cbn in H.
  - inversion H; subst. cbn. destruct (nth p l None) as [w|]; cbn; [|reflexivity].
    destruct (w =? v); cbn; auto.
  - destruct H as [-> Hok]. cbn in Hok. subst ok. cbn.
    destruct (nth p l' None); cbn; auto.
Qed.

(* one visit, positions in Z, as a function of what the list holds at the position *)
Definition du_visitZ (st : list (option Z) * bool) (v : Z) (p : Z) : list (option Z) * bool :=
  let '(l, ok) := st in
  match py_get None l p with
  | None => (py_setitem l p (Some v), ok)
  | Some w => (l, ok && (w =? v))
  end.

Lemma du_param_map_is_source : forall pm num param,
  du_param_map pm num param = res_of_option (union_param_map (zpos pm) (Z.of_nat num) param).
Proof.
  intros pm num param. unfold du_param_map, union_param_map. rewrite init_list.
  unfold py_enumerate.
  (* the generated loops, visit by visit (robust against renaming of locals, swapped
     branches of the `if`, swapped sides of `==`) *)
  erewrite (fold_left_ext _
    (fun (st : list (option Z) * bool) (x_ : Z * Z) =>
       let '(pos, value) := x_ in
       fold_left (fun st p => du_visitZ st value p) (py_get [] (zpos pm) pos) st)).
  2:{ intros [np ok] [pos value]. cbn beta iota zeta.
      erewrite (fold_left_ext _ (fun st p => du_visitZ st value p)).
      - destruct (fold_left _ _ _); reflexivity.
      - intros [a1 a2] b. cbn beta iota zeta. unfold du_visitZ.
        destruct (py_get None a1 b) as [w|]; cbn; try reflexivity; rewrite Z.eqb_sym; reflexivity. }
  change (py_enumerate_from 0 param) with (py_enumerate_from (Z.of_nat 0) param).
  rewrite (walk_enumerate du_visitZ du_visit).
  2:{ intros [l ok] v p. unfold du_visitZ, du_visit. rewrite py_get_of_nat, py_setitem_of_nat.
      destruct (nth p l None); reflexivity. }
  cbn [skipn].
  (* model fold against source fold *)
  assert (R : du_rel
    (fold_left (fun acc (pv : list nat * Z) => fold_left (fun acc2 p => du_set acc2 p (snd pv)) (fst pv) acc)
               (combine pm param) (Ok (repeat None num)))
    (fold_left (fun st (pv : list nat * Z) => fold_left (fun st p => du_visit st (snd pv) p) (fst pv) st)
               (combine pm param) (repeat None num, true))).
  { apply fold_left_rel; [|reflexivity]. intros a a' [ps v] Ha. cbn [fst snd].
    apply fold_left_rel; [|exact Ha]. intros b b' p Hb. apply du_visit_rel, Hb. }
  destruct (fold_left _ (combine pm param) (Ok (repeat None num))) as [l|c];
    destruct (fold_left _ (combine pm param) (repeat None num, true)) as [l' ok]; cbn in R.
  - inversion R; subst. cbn. f_equal. unfold unnone. apply map_ext. intros [v|]; reflexivity.
  - destruct R as [-> Hok]. cbn in Hok. subst ok. reflexivity.
Qed.

(* ---------------------------------------------------------------- Quotient.param_map *)
Definition q_visit (st : list (option Z) * bool) (v : Z) (p : nat) : list (option Z) * bool :=
  let '(l, ok) := st in
  (upd l p (fun _ => Some v), ok && match nth p l None with None => true | Some w => w =? v end).

Definition q_rel (acc : res (list (option Z))) (st : list (option Z) * bool) : Prop :=
  match acc with
  | Ok l => st = (l, true)
  | Err c => c = E_ASSERT /\ snd st = false
  end.

Lemma q_visit_rel : forall acc st v p, q_rel acc st -> q_rel (q_set acc p v) (q_visit st v p).
Proof.
  intros [l|c] [l' ok] v p H; cbn in H.
  - inversion H; subst. cbn. destruct (nth p l None) as [w|]; cbn; [|reflexivity].
    destruct (w =? v); cbn; auto.
  - destruct H as [-> Hok]. cbn in Hok. subst ok. cbn. auto.
Qed.

Definition q_visitZ (st : list (option Z) * bool) (v : Z) (p : Z) : list (option Z) * bool :=
  let '(l, ok) := st in
  (py_setitem l p (Some v), ok && match py_get None l p with None => true | Some w => w =? v end).

Lemma q_param_map_is_source : forall pm num param,
  q_param_map pm num param = res_of_option (quotient_param_map (zpos pm) (Z.of_nat num) param).
Proof.
  intros pm num param. unfold q_param_map, quotient_param_map. rewrite init_list.
  unfold py_enumerate.
  erewrite (fold_left_ext _
    (fun (st : list (option Z) * bool) (x_ : Z * Z) =>
       let '(pos, value) := x_ in
       fold_left (fun st p => q_visitZ st value p) (py_get [] (zpos pm) pos) st)).
  2:{ intros [np ok] [pos value]. cbn beta iota zeta.
      erewrite (fold_left_ext _ (fun st p => q_visitZ st value p)).
      - destruct (fold_left _ _ _); reflexivity.
      - intros [a1 a2] b. cbn beta iota zeta. unfold q_visitZ.
        destruct (py_get None a1 b) as [w|]; cbn; try reflexivity; rewrite Z.eqb_sym; reflexivity. }
  change (py_enumerate_from 0 param) with (py_enumerate_from (Z.of_nat 0) param).
  rewrite (walk_enumerate q_visitZ q_visit).
  2:{ intros [l ok] v p. unfold q_visitZ, q_visit. rewrite py_get_of_nat, py_setitem_of_nat.
      destruct (nth p l None); reflexivity. }
  cbn [skipn].
  assert (R : q_rel
    (fold_left (fun acc (pv : list nat * Z) => fold_left (fun acc2 p => q_set acc2 p (snd pv)) (fst pv) acc)
               (combine pm param) (Ok (repeat None num)))
    (fold_left (fun st (pv : list nat * Z) => fold_left (fun st p => q_visit st (snd pv) p) (fst pv) st)
               (combine pm param) (repeat None num, true))).
  { apply fold_left_rel; [|reflexivity]. intros a a' [ps v] Ha. cbn [fst snd].
    apply fold_left_rel; [|exact Ha]. intros b b' p Hb. apply q_visit_rel, Hb. }
  destruct (fold_left _ (combine pm param) (Ok (repeat None num))) as [l|c];
    destruct (fold_left _ (combine pm param) (repeat None num, true)) as [l' ok]; cbn in R.
  - inversion R; subst. cbn [bind andb].
    destruct (forallb (fun o : option Z => is_some o) l) eqn:E.
    + cbn. f_equal; try apply unnone_is_map.
    + reflexivity.
  - destruct R as [-> Hok]. cbn in Hok. subst ok. reflexivity.
Qed.
