(* C08 with extra parameters — the walk's total EQUALS the count at a union rule (so that every
   draw r in 1..count returns a child: no RuntimeError), under fixed_honest and with tables
   whose keys have the arity of their class.  Without fixed_honest it is only <= (SampleParamsUnion.v):
   that gap is the RuntimeError of the open finding. *)
From Coq Require Import ZArith List Bool Lia.
From CSS Require Import Gen.Prelude Count.Terms Count.Constructors Count.ConstructorsUnionProduct
  Count.ConstructorsDict Count.SampleModel Count.SampleWalk Count.SamplePick Count.SampleComps Count.SampleModelParams
  Count.SampleParamsDict Count.SampleParamsSpec Count.SampleParamsUnion Count.SampleParamsSums Count.SampleParamsProduct
  Gen.Compositions Count.CompositionsSpec.
Import ListNotations.
Open Scope Z_scope.

(* the keys that carry objects have the arity of the class *)
Definition arity_ok (rule_of : nat -> pcls) (tab : nat -> Z -> terms) : Prop :=
  forall c n q, pcnt tab c n q <> 0 -> length q = length (pars rule_of c).

Lemma tget_entry (T : terms) q v : NoDup (map fst T) -> In (q, v) T -> tget T q = v.
Proof.
  induction T as [|[k w] T IH]; intros Hnd Hin; [destruct Hin|]. simpl in *.
  inversion Hnd as [|? ? Hk Hnd']; subst. destruct Hin as [E|Hin].
  - injection E as -> ->. rewrite params_eqb_refl.
    assert (tget T q = 0).
    { clear -Hk. induction T as [|[k' v'] T IH]; simpl; [reflexivity|].
      destruct (params_eqb k' q) eqn:E; [apply params_eqb_eq in E; subst; exfalso; apply Hk; left; reflexivity|].
      rewrite IH; [lia|]. intros H. apply Hk. right. exact H. }
    lia.
  - assert (params_eqb k q = false).
    { apply params_eqb_neq. intros ->. apply Hk. apply in_map_iff. exists (q, v). split; [reflexivity|exact Hin]. }
    rewrite H. rewrite (IH Hnd' Hin). lia.
Qed.

Section UnionTotal.
  Variable rule_of : nat -> pcls.
  Variable tab : nat -> Z -> terms.
  Hypothesis Htab : tables_ok rule_of tab.
  Hypothesis Har : arity_ok rule_of tab.
  Variable c : nat.
  Variables (P : dict) (p : params) (n : Z).
  Hypothesis HP : dict_for rule_of c P p.

  (* one child: the weight of its branch is ALL the mass its table sends to p *)
  Lemma branch_wz_eq d o :
    union_child_ok rule_of c d -> union_child_params (dep d) P (dfx d) = Ok o ->
    (forall k v, In (k, v) (dfx d) -> forall q, pcnt tab (dkid d) n q <> 0 ->
                 dget (combine (pars rule_of (dkid d)) q) k = Some v) ->
    wz (union_weight n P) (branch_of rule_of tab c n (d, o)) = tget (rekey (cmap rule_of c (fst d)) (tab (dkid d) n)) p.
  Proof.
    intros Hd Ho Hhon. pose proof Htab as (Hpn & Hnd & Hnn).
    set (T := tab (dkid d) n). set (f := cmap rule_of c (fst d)).
    (* every entry sent to p with objects forces the branch to be asked with exactly that tuple *)
    assert (Hforce : forall q v, In (q, v) T -> v <> 0 -> f q = p ->
              exists Q, o = Some Q /\ union_zero_skip (union_zeroes (pars rule_of c) (dep d)) P = false /\
                        tuple_of (pars rule_of (dkid d)) Q = Some q).
    { intros q v Hin Hv Hf.
      assert (Hc : pcnt tab (dkid d) n q <> 0) by (unfold pcnt; fold T; rewrite (tget_entry T q v (Hnd _ _) Hin); exact Hv).
      destruct (union_child_forward rule_of c d (Hpn c) (Hpn _) Hd P p HP q (Har _ _ _ Hc) Hf
                  (fun k w Hkw => Hhon k w Hkw q Hc)) as (Q & HQ & Hdf & Hz).
      exists Q. unfold dep, dfx in Ho. rewrite HQ in Ho. injection Ho as <-.
      split; [reflexivity|]. split; [exact Hz|]. destruct Hdf as (_ & _ & Ht). exact Ht. }
    pose proof (branch_weight rule_of tab Htab c P p n HP d o Hd Ho) as Hw.
    unfold wz. rewrite tget_zsum. unfold rekey. rewrite zsum_map. cbn [fst snd].
    destruct o as [Q|].
    - destruct (union_zero_skip (union_zeroes (pars rule_of c) (dep d)) P) eqn:Ez.
      + rewrite Hw. symmetry. apply zsum_zero. intros [q v] Hin. simpl.
        destruct (params_eqb (f q) p) eqn:E; [|reflexivity]. apply params_eqb_eq in E.
        destruct (Z.eq_dec v 0) as [->|Hv]; [reflexivity|].
        destruct (Hforce q v Hin Hv E) as (Q' & _ & Hz & _). congruence.
      + destruct Hw as (q0 & Hq0 & Hm & _ & ->).
        unfold pcnt. fold T. rewrite (tget_zsum T q0). apply zsum_ext. intros [q v] Hin. simpl.
        destruct (Z.eq_dec v 0) as [->|Hv]; [destruct (params_eqb q q0), (params_eqb (f q) p); reflexivity|].
        destruct (params_eqb (f q) p) eqn:E.
        * apply params_eqb_eq in E. destruct (Hforce q v Hin Hv E) as (Q' & EQ & _ & Ht).
          injection EQ as <-. rewrite Hq0 in Ht. injection Ht as <-. rewrite params_eqb_refl. reflexivity.
        * destruct (params_eqb q q0) eqn:E'; [|reflexivity]. apply params_eqb_eq in E'. subst q.
          fold f in Hm. rewrite Hm, params_eqb_refl in E. discriminate.
    - rewrite Hw. symmetry. apply zsum_zero. intros [q v] Hin. simpl.
      destruct (params_eqb (f q) p) eqn:E; [|reflexivity]. apply params_eqb_eq in E.
      destruct (Z.eq_dec v 0) as [->|Hv]; [reflexivity|].
      destruct (Hforce q v Hin Hv E) as (Q' & EQ & _). discriminate.
  Qed.

  Lemma union_total_eq : forall ds extra,
    Forall (union_child_ok rule_of c) ds ->
    Forall2 (fun d o => union_child_params (dep d) P (dfx d) = Ok o) ds extra ->
    (forall d, In d ds -> forall k v, In (k, v) (dfx d) -> forall q, pcnt tab (dkid d) n q <> 0 ->
               dget (combine (pars rule_of (dkid d)) q) k = Some v) ->
    total_weight (union_weight n P) (map (branch_of rule_of tab c n) (combine ds extra))
    = tget (union_table (map (cmap rule_of c) (map fst ds)) (map (fun ci => tab ci n) (map dkid ds))) p.
  Proof.
    intros ds extra Hds HF. revert Hds.
    induction HF as [|d o ds extra Ho HF IH]; intros Hds Hhon; simpl.
    - reflexivity.
    - inversion Hds as [|? ? Hd Hds']; subst.
      rewrite union_table_cons, tget_app.
      change (total_weight (union_weight n P) (branch_of rule_of tab c n (d, o) :: map (branch_of rule_of tab c n) (combine ds extra)))
        with (wz (union_weight n P) (branch_of rule_of tab c n (d, o))
              + total_weight (union_weight n P) (map (branch_of rule_of tab c n) (combine ds extra))).
      rewrite (branch_wz_eq d o Hd Ho (Hhon d (or_introl eq_refl))).
      rewrite (IH Hds' (fun d' Hd' => Hhon d' (or_intror Hd'))). unfold dkid. reflexivity.
  Qed.
End UnionTotal.

(* at a union rule of a specification with honest fixed values: the walk's total IS the count *)
Lemma union_total_params (rule_of : nat -> pcls) (tab : nat -> Z -> terms) c P p n :
  tables_ok rule_of tab -> arity_ok rule_of tab -> union_ok rule_of tab c -> fixed_honest rule_of tab c ->
  dict_for rule_of c P p ->
  exists extra,
    union_extra (pk_eps (rule_of c)) (pk_fixed (rule_of c)) P = Ok extra /\
    let bs := union_branches (pars rule_of c) (map (kid_at rule_of tab n) (pk_kids (rule_of c)))
                             (pk_eps (rule_of c)) extra in
    weights_ok (union_weight n P) bs /\ total_weight (union_weight n P) bs = pcnt tab c n p.
Proof.
  intros Ht Har Hu Hhon HP. pose proof Hu as (L1 & L2 & Hds & Hteq).
  destruct (union_extra_map rule_of tab Ht c P p HP _ Hds) as (extra & Ee & HF).
  exists extra. rewrite <- (ds_eps rule_of tab c Hu), <- (ds_fixed rule_of tab c Hu), <- (ds_kids rule_of tab c Hu).
  split; [exact Ee|].
  rewrite (union_branches_map rule_of tab c n _ extra) by (eapply Forall2_len; exact HF).
  destruct (union_total_le rule_of tab Ht c P p n HP _ extra Hds HF) as [Wok _].
  split; [exact Wok|]. unfold pcnt at 1. rewrite (Hteq n p).
  rewrite (union_total_eq rule_of tab Ht Har c P p n HP _ extra Hds HF).
  - rewrite (ds_kid_eps rule_of tab c Hu), (ds_kids rule_of tab c Hu). reflexivity.
  - intros d Hd k v Hkv q Hq. apply (Hhon d Hd k v Hkv n q Hq).
Qed.

(* ------------------------------------------------------------------ products: total = count *)
Lemma zsum_swap {A B} (h : A -> B -> Z) (Y : list A) (L : list B) :
  zsum (fun y => zsum (fun M => h y M) L) Y = zsum (fun M => zsum (fun y => h y M) Y) L.
Proof.
  induction Y as [|y Y IH]; simpl.
  - symmetry. apply zsum_zero. intros; reflexivity.
  - rewrite IH. rewrite <- zsum_plus. reflexivity.
Qed.

Lemma in_combos_Forall2 : forall (Ts : list terms) (cmb : list entry),
  In cmb (combos Ts) -> Forall2 (fun (e : entry) (T : terms) => In e T) cmb Ts.
Proof.
  induction Ts as [|T Ts IH]; intros cmb H.
  - simpl in H. destruct H as [<-|[]]. constructor.
  - apply combos_cons_inv in H. destruct H as (e & c' & -> & He & Hc). constructor; [exact He|apply IH; exact Hc].
Qed.

Lemma zprod_cons x l : zprod (x :: l) = x * zprod l.
Proof. reflexivity. Qed.

Section ProductTotal.
  Variable rule_of : nat -> pcls.
  Variable tab : nat -> Z -> terms.
  Hypothesis Htab : tables_ok rule_of tab.
  Hypothesis Hcon : contract_ok rule_of tab.
  Hypothesis Har : arity_ok rule_of tab.
  Variable c : nat.
  Variable n : Z.
  Hypothesis Hprod : product_ok rule_of tab c.
  Variable p : params.
  Hypothesis Hp : length p = length (pars rule_of c).

  Notation ces := (kid_eps rule_of c).
  Notation pk := (pkid rule_of tab n).
  Notation comps := (prod_comps (pars rule_of c) (pmins_of (rule_of c)) (map pk (kid_eps rule_of c)) (n :: p)).
  Notation weight := (prod_weight (pars rule_of c) (map pk (kid_eps rule_of c))).

  (* what an entry combination with non-zero product says about the children *)
  Lemma combo_children : forall (l : list (nat * dict)) (ss : list Z) (cmb : list entry),
    length ss = length l ->
    In cmb (combos (tabs_at (map tab (map fst l)) ss)) -> zprod (map snd cmb) <> 0 ->
    Forall2 (fun (ce : nat * dict) q => length q = length (pars rule_of (fst ce))) l (map fst cmb) /\
    (forall ce s q, In (ce, s, q) (combine (combine l ss) (map fst cmb)) -> pcnt tab (fst ce) s q <> 0) /\
    cnts tab l (rows_of rule_of c l ss (map fst cmb)) (map fst cmb) = map snd cmb.
  Proof.
    destruct Htab as (_ & Hnd & _).
    induction l as [|ce l IH]; intros [|s ss] cmb Hl Hin Hz; simpl in Hl; try lia.
    - unfold tabs_at in Hin. simpl in Hin. destruct Hin as [<-|[]]. simpl. split; [constructor|]. split; [intros ? ? ? []|reflexivity].
    - unfold tabs_at in Hin. simpl in Hin. fold (tabs_at (map tab (map fst l)) ss) in Hin.
      apply combos_cons_inv in Hin. destruct Hin as ([q v] & cmb' & -> & He & Hc).
      simpl map in *. rewrite zprod_cons in Hz.
      assert (Hv : v <> 0) by (intros ->; apply Hz; lia).
      assert (Hz' : zprod (map snd cmb') <> 0) by (intros E; apply Hz; rewrite E; lia).
      destruct (IH ss cmb' ltac:(lia) Hc Hz') as (I1 & I2 & I3).
      assert (Hcnt : pcnt tab (fst ce) s q = v) by (apply tget_entry; [apply Hnd|exact He]).
      split; [constructor; [apply Har with (n := s); rewrite Hcnt; exact Hv|exact I1]|]. split.
      + intros ce' s' q' [E|Hin]; [injection E as <- <- <-; rewrite Hcnt; exact Hv|apply I2; exact Hin].
      + unfold cnts, rows_of in *. simpl. unfold vget at 1. simpl. f_equal; [exact Hcnt|exact I3].
  Qed.

  (* a combination of mass <> 0 at p: its matrix is enumerated, with weight the combination's product *)
  Lemma mass_matrix ss cmb :
    In ss (compositions n (zlen (map tab (map fst ces))) (map (pmin rule_of) (map fst ces)) (map (pmax rule_of) (map fst ces))) ->
    In cmb (combos (tabs_at (map tab (map fst ces)) ss)) ->
    combi_mass rule_of c p (ss, cmb) <> 0 ->
    In (combi_matrix rule_of c (ss, cmb)) comps /\
    weight (combi_matrix rule_of c (ss, cmb)) = Ok (Some (zprod (map snd cmb))) /\
    exists Qs, rows_rel rule_of c ces (combi_matrix rule_of c (ss, cmb)) Qs (map fst cmb).
  Proof.
    intros Hss Hcmb Hm. unfold combi_mass in Hm. cbn [fst snd] in Hm.
    destruct (params_eqb (new_param (cmaps rule_of c) (map fst cmb)) p) eqn:Enp; [|congruence].
    apply params_eqb_eq in Enp.
    apply compositions_sound in Hss; [|unfold zlen; rewrite !map_length; reflexivity|unfold zlen; rewrite !map_length; reflexivity].
    destruct Hss as (Hz & Hsum & _ & _).
    assert (Hl : length ss = length ces) by (unfold zlen in Hz; rewrite !map_length in Hz; lia).
    destruct (combo_children ces ss cmb Hl Hcmb Hm) as (HFq & Hcnt & Ecn).
    destruct (tree_matrix rule_of tab Htab Hcon c n Hprod p Hp ss (map fst cmb) Hl Hsum HFq Hcnt Enp)
      as (Qs & HM & HR & _ & _ & Ew).
    unfold combi_matrix. cbn [fst snd]. split; [exact HM|]. split; [rewrite Ew, Ecn; reflexivity|].
    exists Qs. exact HR.
  Qed.

  (* the mass of the combinations having the matrix M is at most the weight of M *)
  Lemma fiber_le_weight M : In M comps ->
    zsum (fun y => if pl_eqb (combi_matrix rule_of c y) M then combi_mass rule_of c p y else 0) (combis rule_of tab c n)
    <= wz weight M.
  Proof.
    intros HM.
    pose proof (wz_nonneg weight M comps (comps_weights_ok rule_of tab Htab Hcon c n Hprod p Hp) HM) as Hw0.
    unfold combis. rewrite zsum_flat_map.
    (* only the block of sizes_of M contributes, and there only the combinations carrying the tuples of M *)
    pose proof (zsum_indicator_le (fun a b : list Z => zs_eqb a b) (sizes_of M) (wz weight M)
                  (compositions n (zlen (map tab (map fst ces))) (map (pmin rule_of) (map fst ces)) (map (pmax rule_of) (map fst ces)))
                  zs_eqb_eq (compositions_nodup _ _ _ _) Hw0) as Hind.
    etransitivity; [|exact Hind]. clear Hind.
    apply zsum_le. intros ss Hss. rewrite zsum_map.
    destruct (comps_weight rule_of tab Htab Hcon c n Hprod p Hp M HM) as [E|(Qs & qs & HR & _ & E)].
    - (* M is skipped: no combination of non-zero mass has this matrix *)
      assert (Z0 : zsum (fun cmb => if pl_eqb (combi_matrix rule_of c (ss, cmb)) M then combi_mass rule_of c p (ss, cmb) else 0)
                        (combos (tabs_at (map tab (map fst ces)) ss)) = 0).
      { apply zsum_zero. intros cmb Hc. destruct (pl_eqb _ M) eqn:Em; [|reflexivity]. apply pl_eqb_eq in Em.
        destruct (Z.eq_dec (combi_mass rule_of c p (ss, cmb)) 0) as [E0|E0]; [exact E0|].
        destruct (mass_matrix ss cmb Hss Hc E0) as (_ & Ew & _). rewrite Em in Ew. congruence. }
      rewrite Z0. destruct (zs_eqb (sizes_of M) ss); lia.
    - assert (Ewz : wz weight M = zprod (cnts tab ces M qs)) by (unfold wz; rewrite E; reflexivity).
      destruct (zs_eqb (sizes_of M) ss) eqn:Es.
      + apply zs_eqb_eq in Es. subst ss. rewrite Ewz. rewrite (cnts_map2 rule_of tab c ces M Qs qs HR).
        destruct (rows_rel_lengths rule_of c ces M Qs qs HR) as (LM & _ & Lq).
        rewrite <- zprod_tget_combos
          by (rewrite (tabs_at_length rule_of tab c p Hp) by (rewrite map_length; unfold sizes_of; rewrite map_length; exact LM);
              rewrite map_length; lia).
        apply zsum_le. intros cmb Hc.
        destruct (pl_eqb (combi_matrix rule_of c (sizes_of M, cmb)) M) eqn:Em.
        * apply pl_eqb_eq in Em.
          destruct (Z.eq_dec (combi_mass rule_of c p (sizes_of M, cmb)) 0) as [E0|E0].
          -- rewrite E0. destruct (pl_eqb (map fst cmb) qs); [|lia].
             eapply combos_nonneg; [|exact Hc]. apply (tabs_at_nonneg rule_of tab Htab).
          -- destruct (mass_matrix (sizes_of M) cmb Hss Hc E0) as (_ & _ & Qs' & HR'). rewrite Em in HR'.
             destruct (rows_rel_fun rule_of c _ _ _ _ _ _ HR HR') as [_ Eq]. subst qs.
             replace (pl_eqb (map fst cmb) (map fst cmb)) with true by (symmetry; apply pl_eqb_eq; reflexivity).
             unfold combi_mass. cbn [fst snd]. destruct (params_eqb _ p); [lia|].
             eapply combos_nonneg; [|exact Hc]. apply (tabs_at_nonneg rule_of tab Htab).
        * destruct (pl_eqb (map fst cmb) qs); [|lia].
          eapply combos_nonneg; [|exact Hc]. apply (tabs_at_nonneg rule_of tab Htab).
      + (* another composition of sizes: its matrices are not M *)
        apply Z.eq_le_incl. apply zsum_zero. intros cmb Hc.
        destruct (pl_eqb (combi_matrix rule_of c (ss, cmb)) M) eqn:Em; [|reflexivity]. apply pl_eqb_eq in Em.
        destruct (Z.eq_dec (combi_mass rule_of c p (ss, cmb)) 0) as [E0|E0]; [exact E0|]. exfalso.
        destruct (mass_matrix ss cmb Hss Hc E0) as (HM' & _ & Qs' & HR').
        apply compositions_sound in Hss; [|unfold zlen; rewrite !map_length; reflexivity|unfold zlen; rewrite !map_length; reflexivity].
        destruct Hss as (Hz & _).
        assert (Hl : length ss = length ces) by (unfold zlen in Hz; rewrite !map_length in Hz; lia).
        destruct (rows_rel_lengths rule_of c ces _ Qs' (map fst cmb) HR') as (_ & _ & Lq).
        assert (Esz : sizes_of (combi_matrix rule_of c (ss, cmb)) = ss).
        { unfold combi_matrix. cbn [fst snd]. apply colsum0_rows_of; [exact Hl|exact Lq]. }
        rewrite Em in Esz. rewrite Esz in Es.
        assert (zs_eqb ss ss = true) by (apply zs_eqb_eq; reflexivity). congruence.
  Qed.

  (* THE OTHER HALF: what CartesianProduct.get_terms counts at p is at most the walk's total *)
  Lemma product_total_ge : pcnt tab c n p <= total_weight weight comps.
  Proof.
    pose proof Hprod as (_ & _ & _ & _ & Hteq).
    unfold pcnt. rewrite (Hteq n p). rewrite <- (kidsl_kids rule_of tab c Hprod p Hp).
    rewrite <- (combis_total rule_of tab c n p).
    unfold total_weight. rewrite py_sum_zsum.
    etransitivity; [|apply zsum_le; intros M HM; apply fiber_le_weight; exact HM].
    rewrite <- zsum_swap.
    apply zsum_le. intros y Hy.
    destruct (Z.eq_dec (combi_mass rule_of c p y) 0) as [E0|E0].
    - rewrite E0. apply Z.eq_le_incl. symmetry. apply zsum_zero. intros M _. destruct (pl_eqb _ M); reflexivity.
    - destruct y as [ss cmb]. unfold combis in Hy. apply in_flat_map in Hy. destruct Hy as (ss' & Hss & Hy).
      apply in_map_iff in Hy. destruct Hy as (cmb' & E & Hc). injection E as <- <-.
      destruct (mass_matrix ss' cmb' Hss Hc E0) as (HM & _).
      rewrite (zsum_single _ comps (combi_matrix rule_of c (ss', cmb'))).
      + replace (pl_eqb _ _) with true by (symmetry; apply pl_eqb_eq; reflexivity). lia.
      + unfold prod_comps. apply valid_comps_nodup.
      + exact HM.
      + intros M _ Hne. destruct (pl_eqb (combi_matrix rule_of c (ss', cmb')) M) eqn:Em; [|reflexivity].
        apply pl_eqb_eq in Em. congruence.
  Qed.

  Lemma product_total_eq : total_weight weight comps = pcnt tab c n p.
  Proof.
    pose proof (product_total_le rule_of tab Htab Hcon c n Hprod p Hp). pose proof product_total_ge. lia.
  Qed.
End ProductTotal.

(* ------------------------------------------------------------------ every draw in range returns *)
(* union rule, honest fixed values: for every r in 1..count the walk returns a child and the
   dictionary it is asked with (no RuntimeError, no other exception); above the count: RuntimeError *)
Lemma union_pick_returns (rule_of : nat -> pcls) (tab : nat -> Z -> terms) c P p n :
  tables_ok rule_of tab -> arity_ok rule_of tab -> union_ok rule_of tab c -> fixed_honest rule_of tab c ->
  dict_for rule_of c P p ->
  (forall r, 1 <= r <= pcnt tab c n p ->
     exists i q, union_pick_dict (pars rule_of c) (map (kid_at rule_of tab n) (pk_kids (rule_of c)))
                                 (pk_eps (rule_of c)) (pk_fixed (rule_of c)) n P r = Ok (i, q)) /\
  (forall r, pcnt tab c n p < r ->
     union_pick_dict (pars rule_of c) (map (kid_at rule_of tab n) (pk_kids (rule_of c)))
                     (pk_eps (rule_of c)) (pk_fixed (rule_of c)) n P r = Err E_RUNTIME).
Proof.
  intros Ht Har Hu Hhon HP.
  destruct (union_total_params rule_of tab c P p n Ht Har Hu Hhon HP) as (extra & Ee & Wok & Htot).
  split.
  - intros r Hr. unfold union_pick_dict. rewrite Ee.
    destruct (walk_returns _ _ r 0 0%nat Wok ltac:(lia)) as (j & b & W & _). rewrite W.
    apply walk_weighted in W. destruct W as (w & Hw). unfold union_weight in Hw.
    destruct (ub_extra b) as [q|]; [|discriminate]. eexists. eexists. reflexivity.
  - intros r Hr. unfold union_pick_dict. rewrite Ee. rewrite (walk_over _ _ r 0 0%nat Wok ltac:(lia)). reflexivity.
Qed.

Lemma prod_pick_returns (rule_of : nat -> pcls) (tab : nat -> Z -> terms) c P p n :
  tables_ok rule_of tab -> contract_ok rule_of tab -> arity_ok rule_of tab -> product_ok rule_of tab c ->
  dict_for rule_of c P p ->
  (forall r, 1 <= r <= pcnt tab c n p ->
     exists ex, prod_pick_dict (pars rule_of c) (pmins_of (rule_of c))
                               (map (pkid rule_of tab n) (kid_eps rule_of c)) n P r = Ok ex) /\
  (forall r, pcnt tab c n p < r ->
     prod_pick_dict (pars rule_of c) (pmins_of (rule_of c))
                    (map (pkid rule_of tab n) (kid_eps rule_of c)) n P r = Err E_RUNTIME).
Proof.
  intros Ht Hc Har Hpr HP.
  assert (Hp : length p = length (pars rule_of c)) by (destruct HP as (_ & _ & Hx); eapply tuple_of_length; exact Hx).
  pose proof (product_total_eq rule_of tab Ht Hc Har c n Hpr p Hp) as Htot.
  pose proof (comps_weights_ok rule_of tab Ht Hc c n Hpr p Hp) as Wok.
  split.
  - intros r Hr. rewrite (prod_pick_dict_walk rule_of tab Ht c n Hpr p Hp P r HP).
    destruct (walk_returns _ _ r 0 0%nat Wok ltac:(lia)) as (j & M & W & _). simpl in W. rewrite W.
    destruct (product_picked rule_of tab Ht Hc c n Hpr p Hp r j M ltac:(lia) W) as (Qs & qs & _ & _ & Ex & _).
    rewrite Ex. eexists. reflexivity.
  - intros r Hr. rewrite (prod_pick_dict_walk rule_of tab Ht c n Hpr p Hp P r HP).
    rewrite (walk_over _ _ r 0 0%nat Wok ltac:(lia)). reflexivity.
Qed.
