(* run_c07p is a conservative extension of run_c07: on inputs without queries of the new kinds 5 and 6 the two
   functions agree, so everything the correspondence compared before is still compared, by the same functions. *)
From Coq Require Import ZArith List Bool.
From CSS Require Import Base.Sx Base.PyList Count.ObjectsModel Count.ObjectsTermsModel Count.ObjectsRun
                        Count.ParseTreesRun.
Import ListNotations.
Open Scope Z_scope.

Definition old_kind (q : sx) : Prop :=
  let k := sx_Z (nth 0 (sx_list q) (I 0)) in k <> 5 /\ k <> 6.

Lemma run_queries_p_old rules descs : forall qs s t,
  Forall old_kind qs -> run_queries_p rules descs s t qs = run_queries rules s t qs.
Proof.
  induction qs as [|q r IH]; intros s t HF; [reflexivity|].
  inversion HF as [|? ? [H5 H6] Hr]; subst. simpl.
  destruct (Z.eqb_spec (sx_Z (nth 0 (sx_list q) (I 0))) 5) as [E|_]; [contradiction|].
  destruct (Z.eqb_spec (sx_Z (nth 0 (sx_list q) (I 0))) 6) as [E|_]; [contradiction|]. simpl.
  destruct (sx_Z (nth 0 (sx_list q) (I 0)) =? 4).
  - destruct (get_terms _ _ _ _ _) as [[t' tm]|]; rewrite IH by assumption; reflexivity.
  - destruct (run_query rules s q) as [s' ans]. rewrite IH by assumption. reflexivity.
Qed.

Theorem run_c07p_extends : forall inp,
  Forall old_kind (sx_list (sx_nth inp 1)) -> run_c07p inp = run_c07 inp.
Proof. intros inp H. unfold run_c07p, run_c07. rewrite run_queries_p_old by assumption. reflexivity. Qed.
