(* run_c07p is a conservative extension of run_c07: on inputs without queries of the new kinds 5, 6 and 7 the two
   functions agree, so everything the correspondence compared before is still compared, by the same functions. *)
From Coq Require Import ZArith List Bool.
From CSS Require Import Base.Sx Base.PyList Count.ObjectsModel Count.ObjectsTermsModel Count.ObjectsRun
                        Count.ParseTreesRun.
Import ListNotations.
Open Scope Z_scope.

Definition old_kind (q : sx) : Prop :=
  let k := sx_Z (nth 0 (sx_list q) (I 0)) in k <> 5 /\ k <> 6 /\ k <> 7.

Lemma run_queries_p_old rules descs : forall qs s t,
  Forall old_kind qs -> run_queries_p rules descs s t qs = run_queries rules s t qs.
Proof.
  induction qs as [|q r IH]; intros s t HF; [reflexivity|].
  inversion HF as [|? ? [H5 [H6 H7]] Hr]; subst. simpl.
  destruct (Z.eqb_spec (sx_Z (nth 0 (sx_list q) (I 0))) 5) as [E|_]; [contradiction|].
  destruct (Z.eqb_spec (sx_Z (nth 0 (sx_list q) (I 0))) 6) as [E|_]; [contradiction|].
  destruct (Z.eqb_spec (sx_Z (nth 0 (sx_list q) (I 0))) 7) as [E|_]; [contradiction|]. simpl.
  destruct (sx_Z (nth 0 (sx_list q) (I 0)) =? 4).
  - destruct (get_terms _ _ _ _ _) as [[t' tm]|]; rewrite IH by assumption; reflexivity.
  - destruct (run_query rules s q) as [s' ans]. rewrite IH by assumption. reflexivity.
Qed.

Theorem run_c07p_extends : forall inp,
  Forall old_kind (sx_list (sx_nth inp 1)) -> run_c07p inp = run_c07 inp.
Proof. intros inp H. unfold run_c07p, run_c07. rewrite run_queries_p_old by assumption. reflexivity. Qed.

(* ---------------------------------------------------------------- run_c07d: the verdict field
   run_c07d only APPENDS one field to the output of run_c07p; a verdict 1 in its first / second component
   gives the rank certificate / closedness of the specification the run decodes (spec_of (map dec_rule descs)). *)
From CSS Require Import Count.ObjectsSpec Count.ParseTreesDeciders Count.ParseTreesDecidersProofs.

Lemma run_c07d_extends inp :
  exists v, run_c07d inp = L (sx_list (run_c07p inp) ++ [v]).
Proof. eexists. reflexivity. Qed.

Lemma spec_of_lspec (descs : list sx) (c : nat) :
  spec_of (map dec_rule descs) c = lspec (rules_of_descs descs) c.
Proof.
  unfold spec_of, lspec, rules_of_descs. rewrite !nth_error_map.
  destruct (nth_error descs c) as [d|]; simpl; [destruct (dec_rule d); reflexivity|reflexivity].
Qed.

Lemma rank_verdict_rank descs :
  sx_nth (rank_verdict descs) 0 = I 1 ->
  exists rank, productive_reads (spec_of (map dec_rule descs)) rank /\ productive_levels rank.
Proof.
  unfold rank_verdict, sx_nth. simpl. intros H.
  assert (Hb : rankb (rules_of_descs descs) = true).
  { unfold rankb. destruct (check_pos _ _); [reflexivity|discriminate]. }
  destruct (rankb_sound _ Hb) as (rank & H1 & H2). exists rank. split; [|assumption].
  intros c r n c' m Hc. rewrite spec_of_lspec in Hc. apply H1. assumption.
Qed.

Lemma rank_verdict_closed descs :
  sx_nth (rank_verdict descs) 1 = I 1 -> closed (spec_of (map dec_rule descs)).
Proof.
  unfold rank_verdict, sx_nth. simpl. intros H.
  assert (Hb : closedb (rules_of_descs descs) = true).
  { destruct (closedb _); [reflexivity|discriminate]. }
  intros c r n c' m Hc Hn Hin. rewrite spec_of_lspec in Hc. rewrite spec_of_lspec.
  exact (closedb_sound _ Hb c r n c' m Hc Hn Hin).
Qed.
