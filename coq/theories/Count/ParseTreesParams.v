(* Objects <-> parse trees, WITH extra parameters: the object-returning sampler.  DEFINITIONS ONLY.
   opsample = Count/SampleModelParams.v psample (Rule.random_sample_object_of_size(n, **parameters)) with the
   sub-samplers returning OBJECTS and  objs = tuple(self.backward_map(subobjs)); random.choice(objs)  on the way
   up (rule.py:531-543) - the same change as Count/ParseTrees.v osample makes to sample. *)
From Coq Require Import ZArith List Bool.
From CSS Require Import Base.PyList Gen.Prelude Count.ObjectsModel Count.SampleModel Count.SampleModelParams
                        Count.ParseTrees.
Import ListNotations.
Open Scope Z_scope.

Section OPSample.
  Context {obj : Type}.
  Variable spec : nat -> option (rule obj).
  Variable atom : nat -> option obj.
  Variable rule_of : nat -> pcls.
  Variable tab : nat -> Z -> list (list Z * Z).

  Fixpoint opsample (fuel : nat) (c : nat) (n : Z) (params : dict) : rc obj :=
    match fuel with
    | O => Fail E_FUEL
    | S f =>
        let k := rule_of c in
        if pk_kind k =? K_ATOM then
          if n =? pk_min k then (match atom c with Some a => Ret a | None => Fail E_NOT_APPLY end) else Fail E_VALUE
        else if pk_kind k =? K_EMPTY then Fail E_NOT_APPLY
        else if pk_kind k =? K_UNION then
          match pcount rule_of tab c n params with
          | Err e => Fail e
          | Ok total =>
              Draw 1 total (fun r =>
                match union_pick_dict (pk_params k) (map (kid_at rule_of tab n) (pk_kids k)) (pk_eps k) (pk_fixed k) n params r with
                | Err e => Fail e
                | Ok (i, q) =>
                    match nth_error (pk_kids k) i with
                    | None => Fail E_ASSERT
                    | Some ci => bind (opsample f ci n q)
                                      (fun y => choice (bwd_of spec c (slot (length (pk_kids k)) i y)))
                    end
                end)
          end
        else if pk_kind k =? K_PRODUCT then
          match pcount rule_of tab c n params with
          | Err e => Fail e
          | Ok total =>
              Draw 1 total (fun r =>
                match prod_pick_dict (pk_params k) (pmins_of k) (map (pkid rule_of tab n) (combine (pk_kids k) (pk_eps k)))
                                     n params r with
                | Err e => Fail e
                | Ok ex =>
                    bind (mapM (fun p : nat * (Z * dict) => opsample f (fst p) (fst (snd p)) (snd (snd p)))
                               (combine (pk_kids k) ex))
                         (fun ys => choice (bwd_of spec c (map Some ys)))
                end)
          end
        else Fail E_NOT_APPLY
    end.

  (* CombinatorialSpecification.random_sample_object_of_size(n, **parameters) *)
  Definition opspec_sample (fuel : nat) (root : nat) (n : Z) (params : dict) : rc obj :=
    match pcount rule_of tab root n params with
    | Err e => Fail e
    | Ok v => if 0 <? v then opsample fuel root n params else Fail E_INVALID_OP
    end.
End OPSample.
