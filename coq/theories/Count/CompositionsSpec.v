(* Specification of utils.compositions, proved about the GENERATED definition
   Gen/Compositions.v (re-translated from /repo/comb_spec_searcher/utils.py on
   every run): membership characterisation, no duplicates, and the fuel of the
   generated wrapper is always sufficient. *)
From Coq Require Import ZArith List Bool Lia ZifyBool.
From CSS Require Import Gen.Prelude Gen.Compositions.
Import ListNotations.
Open Scope Z_scope.

(* ---------------------------------------------------------------- primitives *)
Arguments py_sum : simpl never.
Arguments zlen : simpl never.

Lemma in_py_range a b i : In i (py_range a b) <-> a <= i < b.
Proof.
  unfold py_range. rewrite in_map_iff. split.
  - intros (j & <- & Hj). apply in_seq in Hj. lia.
  - intros H. exists (Z.to_nat (i - a)). split; [lia|]. apply in_seq. lia.
Qed.

Lemma NoDup_py_range a b : NoDup (py_range a b).
Proof.
  unfold py_range. generalize (Z.to_nat (b - a)) as m. intros m.
  assert (H : forall s, NoDup (map (fun j : nat => a + Z.of_nat j) (seq s m))).
  { induction m as [|m IH]; intros s; simpl; constructor.
    - rewrite in_map_iff. intros (j & E & Hj). apply in_seq in Hj. lia.
    - apply IH. }
  apply H.
Qed.

Lemma zlen_cons {A} (x : A) l : zlen (x :: l) = 1 + zlen l.
Proof. unfold zlen. simpl length. lia. Qed.

Lemma zlen_nonneg {A} (l : list A) : 0 <= zlen l.
Proof. unfold zlen. lia. Qed.

Lemma zlen_nil_inv {A} (l : list A) : zlen l = 0 -> l = [].
Proof. destruct l; [reflexivity|]. rewrite zlen_cons. pose proof (zlen_nonneg l). lia. Qed.

Lemma zlen_1_inv {A} (l : list A) : zlen l = 1 -> exists x, l = [x].
Proof.
  destruct l as [|x [|y l]]; rewrite ?zlen_cons; intros H.
  - unfold zlen in H. simpl in H. lia.
  - exists x. reflexivity.
  - pose proof (zlen_nonneg l). lia.
Qed.

Lemma zlen_pos_inv {A} (l : list A) : 1 <= zlen l -> exists x l', l = x :: l'.
Proof.
  destruct l as [|x l]; intros H; [unfold zlen in H; simpl in H; lia|]. eauto.
Qed.

Lemma py_get_0_cons {A} (d x : A) l : py_get d (x :: l) 0 = x.
Proof.
  unfold py_get. rewrite zlen_cons. pose proof (zlen_nonneg l).
  replace ((0 <=? 0) && (0 <? 1 + zlen l)) with true by lia. reflexivity.
Qed.

Lemma py_sum_cons x l : py_sum (x :: l) = x + py_sum l.
Proof. reflexivity. Qed.

Lemma py_sum_app a b : py_sum (a ++ b) = py_sum a + py_sum b.
Proof. unfold py_sum. induction a as [|x a IH]; simpl; lia. Qed.

(* ---------------------------------------------------------------- the spec *)
(* part x respects an optional upper bound *)
Definition bounded (x : Z) (o : option Z) : Prop :=
  match o with Some M => x <= M | None => True end.

(* t is a composition of n into k parts, part i between mins_i and maxs_i *)
Definition is_comp (n k : Z) (mins : list Z) (maxs : list (option Z)) (t : list Z) : Prop :=
  zlen t = k /\ py_sum t = n /\ Forall2 Z.le mins t /\ Forall2 bounded t maxs.

Lemma Forall2_le_sum mins t : Forall2 Z.le mins t -> py_sum mins <= py_sum t.
Proof. induction 1; [lia|]. rewrite !py_sum_cons. lia. Qed.

Lemma Forall2_le_nonneg mins t :
  Forall (fun m => 0 <= m) mins -> Forall2 Z.le mins t -> 0 <= py_sum t.
Proof.
  intros H0 H. induction H as [|m x mins t Hmx H IH]; [unfold py_sum; simpl; lia|].
  inversion H0 as [|? ? Hm Hrest]; subst. rewrite py_sum_cons. specialize (IH Hrest). lia.
Qed.

Lemma bounded_sum t maxs :
  Forall2 bounded t maxs -> forallb (fun s : option Z => is_some s) maxs = true ->
  py_sum t <= py_sum (map py_unopt maxs).
Proof.
  induction 1 as [|x o t maxs Hb H IH]; intros Hall; simpl; [lia|].
  simpl in Hall. apply andb_true_iff in Hall. destruct Hall as [Ho Hall].
  rewrite !py_sum_cons. specialize (IH Hall).
  destruct o as [M|]; simpl in *; [lia|discriminate].
Qed.

Lemma NoDup_flat_map_cons (g : Z -> list (list Z)) l :
  NoDup l -> (forall i, NoDup (g i)) ->
  NoDup (flat_map (fun i : Z => map (fun t_ => [i] ++ t_) (g i) ++ []) l).
Proof.
  intros Hl Hg. induction Hl as [|x l Hx Hl IH]; simpl; [constructor|].
  rewrite app_nil_r.
  assert (Hnot : forall t, In (x :: t) (flat_map (fun i : Z => map (fun t_ => [i] ++ t_) (g i) ++ []) l) -> False).
  { intros t Ht. apply in_flat_map in Ht. destruct Ht as (i & Hi & Ht).
    rewrite app_nil_r in Ht. apply in_map_iff in Ht. destruct Ht as (t' & E & _).
    simpl in E. inversion E; subst. contradiction. }
  pose proof (Hg x) as Hgx. induction Hgx as [|u gx Hu Hgx IHg]; simpl; [exact IH|].
  constructor; [|exact IHg].
  rewrite in_app_iff. intros [Hin|Hin].
  - apply in_map_iff in Hin. destruct Hin as (t' & E & Ht'). simpl in E. inversion E; subst. contradiction.
  - apply (Hnot u Hin).
Qed.

(* one unfolding of the generated Fixpoint *)
Lemma compositions_fuel_S f n k mins maxs :
  compositions_fuel (S f) n k mins maxs =
  (if ((n <? 0) || (k <=? 0) || (n <? (py_sum mins)) || ((forallb (fun (s : option Z) => (is_some s)) maxs) && ((py_sum (map py_unopt maxs)) <? n)))
   then []
   else (if (k =? 1)
   then (py_assert (((is_none (py_get None maxs 0)) || (n <=? (py_unopt (py_get None maxs 0)))) && ((py_get 0 mins 0) <=? n)) ([n] :: []))
   else (let max_size := (if (is_some (py_get None maxs 0)) then (py_unopt (py_get None maxs 0)) else n) in
    (flat_map (fun (i : Z) => ((map (fun t_ => [i] ++ t_) (compositions_fuel f (n - i) (k - 1) (skipn 1%nat mins) (skipn 1%nat maxs))) ++ []))
      (py_range (py_get 0 mins 0) (max_size + 1)) ++ [])))).
Proof. reflexivity. Qed.

(* soundness: everything produced is a composition (no assumption on the bounds) *)
Lemma compositions_fuel_sound : forall f n k mins maxs t,
  zlen mins = k -> zlen maxs = k ->
  In t (compositions_fuel f n k mins maxs) -> is_comp n k mins maxs t.
Proof.
  induction f as [|f IH]; intros n k mins maxs t Hmins Hmaxs Hin; [contradiction|].
  rewrite compositions_fuel_S in Hin.
  destruct ((n <? 0) || (k <=? 0) || (n <? (py_sum mins)) || _) eqn:G; [contradiction|].
  apply orb_false_iff in G. destruct G as [G _].
  apply orb_false_iff in G. destruct G as [G _].
  apply orb_false_iff in G. destruct G as [_ Gk].
  destruct (k =? 1) eqn:K1.
  - assert (Hk1 : k = 1) by lia. rewrite Hk1 in Hmins, Hmaxs.
    apply zlen_1_inv in Hmins. destruct Hmins as (m & ->).
    apply zlen_1_inv in Hmaxs. destruct Hmaxs as (M & ->). subst k.
    rewrite !py_get_0_cons in Hin. unfold py_assert in Hin.
    destruct (_ && _) eqn:C in Hin; [|contradiction].
    destruct Hin as [<-|[]].
    apply andb_true_iff in C. destruct C as [C1 C2].
    unfold is_comp. repeat split.
    + rewrite py_sum_cons. unfold py_sum. simpl. lia.
    + constructor; [lia|constructor].
    + constructor; [|constructor]. destruct M as [M|]; simpl in *; [lia|exact I].
  - cbv zeta in Hin. rewrite app_nil_r in Hin.
    apply in_flat_map in Hin. destruct Hin as (i & Hi & Ht).
    rewrite app_nil_r in Ht. apply in_map_iff in Ht. destruct Ht as (t' & <- & Ht').
    destruct (zlen_pos_inv mins ltac:(lia)) as (m & mins' & ->).
    destruct (zlen_pos_inv maxs ltac:(lia)) as (M & maxs' & ->).
    rewrite !py_get_0_cons in Hi. simpl skipn in Ht'.
    rewrite zlen_cons in Hmins. rewrite zlen_cons in Hmaxs.
    apply IH in Ht'; [|lia|lia].
    destruct Ht' as (L & S & Hle & Hb).
    apply in_py_range in Hi.
    unfold is_comp. simpl app. repeat split.
    + rewrite zlen_cons. lia.
    + rewrite py_sum_cons. lia.
    + constructor; [lia|exact Hle].
    + constructor; [|exact Hb]. destruct M as [M|]; simpl in *; [lia|exact I].
Qed.

(* completeness: every composition is produced, provided the fuel covers k
   and the minimum sizes are non-negative (they are lengths of objects) *)
Lemma compositions_fuel_complete : forall f n k mins maxs t,
  1 <= k -> (Z.to_nat k <= f)%nat ->
  Forall (fun m => 0 <= m) mins ->
  is_comp n k mins maxs t -> In t (compositions_fuel f n k mins maxs).
Proof.
  induction f as [|f IH]; intros n k mins maxs t Hk Hf Hnn (L & S & Hle & Hb); [lia|].
  subst n k.
  rewrite compositions_fuel_S.
  pose proof (Forall2_le_sum _ _ Hle) as Hs.
  pose proof (Forall2_le_nonneg _ _ Hnn Hle) as H0.
  match goal with |- In _ (if ?g then _ else _) => assert (G : g = false) end.
  { apply orb_false_iff. split; [apply orb_false_iff; split; [apply orb_false_iff; split|]|]; try lia.
    destruct (forallb _ maxs) eqn:A; [|reflexivity]. simpl.
    pose proof (bounded_sum _ _ Hb A). lia. }
  rewrite G.
  destruct (zlen t =? 1) eqn:K1.
  - assert (L : zlen t = 1) by lia.
    apply zlen_1_inv in L. destruct L as (x & ->).
    inversion Hle as [|m x' mins' t' Hmx Hle' E1 E2]; subst. inversion Hle'; subst.
    inversion Hb as [|x' M t' maxs' HxM Hb' E1 E2]; subst. inversion Hb'; subst.
    rewrite !py_get_0_cons. rewrite py_sum_cons in *. unfold py_sum in *. simpl in *.
    replace (x + 0) with x by lia.
    unfold py_assert.
    assert (C : (is_none M || (x + 0 <=? py_unopt M)) && (m <=? x + 0) = true).
    { apply andb_true_iff. split; [|lia]. destruct M as [M|]; simpl in *; [lia|reflexivity]. }
    replace (x + 0) with x in C by lia. rewrite C. left. reflexivity.
  - cbv zeta. rewrite app_nil_r.
    destruct (zlen_pos_inv t ltac:(lia)) as (i & t' & ->).
    inversion Hle as [|m x' mins' t'' Hmx Hle' E1 E2]; subst.
    inversion Hb as [|x' M t'' maxs' HxM Hb' E1 E2]; subst.
    inversion Hnn as [|? ? Hm0 Hnn']; subst.
    rewrite zlen_cons in *. rewrite py_sum_cons in *.
    pose proof (Forall2_le_nonneg _ _ Hnn' Hle') as Ht0.
    pose proof (zlen_nonneg t').
    apply in_flat_map. exists i. split.
    + rewrite !py_get_0_cons. apply in_py_range.
      destruct M as [M|]; simpl in *; lia.
    + rewrite app_nil_r. apply in_map_iff. exists t'. split; [reflexivity|].
      simpl skipn. apply IH; try lia; try assumption.
      unfold is_comp. repeat split; try assumption; lia.
Qed.

Lemma compositions_fuel_nodup : forall f n k mins maxs,
  NoDup (compositions_fuel f n k mins maxs).
Proof.
  induction f as [|f IH]; intros n k mins maxs; [constructor|].
  rewrite compositions_fuel_S.
  destruct (_ || _); [constructor|].
  destruct (k =? 1).
  - unfold py_assert. destruct (_ && _); [|constructor].
    constructor; [intros []|constructor].
  - cbv zeta. rewrite app_nil_r.
    apply (NoDup_flat_map_cons (fun i => compositions_fuel f (n - i) (k - 1) (skipn 1 mins) (skipn 1 maxs))).
    + apply NoDup_py_range.
    + intros i. apply IH.
Qed.

(* ---------------------------------------------------------------- wrapper *)
Lemma compositions_sound n k mins maxs t :
  zlen mins = k -> zlen maxs = k ->
  In t (compositions n k mins maxs) -> is_comp n k mins maxs t.
Proof. unfold compositions. apply compositions_fuel_sound. Qed.

Lemma compositions_complete n k mins maxs t :
  1 <= k -> Forall (fun m => 0 <= m) mins ->
  is_comp n k mins maxs t -> In t (compositions n k mins maxs).
Proof. intros Hk. unfold compositions. apply compositions_fuel_complete; lia. Qed.

Lemma compositions_nodup n k mins maxs : NoDup (compositions n k mins maxs).
Proof. apply compositions_fuel_nodup. Qed.

(* the code's answer for k <= 0 is "no composition", even for n = 0, k = 0
   (where mathematically the empty composition exists) *)
Lemma compositions_no_parts n k mins maxs : k <= 0 -> compositions n k mins maxs = [].
Proof.
  intros Hk. unfold compositions. replace (Z.to_nat k + 1)%nat with 1%nat by lia.
  rewrite compositions_fuel_S.
  replace (k <=? 0) with true by lia. rewrite orb_true_r. reflexivity.
Qed.

(* consequences used by Count/Reads.v *)
Lemma nth_le_of_comp : forall mins t, Forall2 Z.le mins t ->
  forall j, (j < length t)%nat ->
  nth j t 0 <= py_sum t - (py_sum mins - nth j mins 0).
Proof.
  induction 1 as [|m x mins t Hmx H IH]; intros j Hj; simpl in Hj; [lia|].
  rewrite !py_sum_cons. pose proof (Forall2_le_sum _ _ H).
  destruct j as [|j]; simpl; [lia|].
  specialize (IH j ltac:(lia)). lia.
Qed.

Lemma nth_bounded_of_comp : forall t maxs, Forall2 bounded t maxs ->
  forall j M, nth_error maxs j = Some (Some M) -> nth j t 0 <= M.
Proof.
  induction 1 as [|x o t maxs Hb H IH]; intros j M Hj; destruct j; simpl in *; try discriminate.
  - inversion Hj; subst. exact Hb.
  - eapply IH; eauto.
Qed.
