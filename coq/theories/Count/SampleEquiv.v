(* C08 — equivalence rules and equivalence paths in the parameter-free theorem.

   EquivalenceRule (constructor: DisjointUnion(parent, (child,), ...)) and EquivalencePathRule
   (constructor: DisjointUnion(first, (last,), ...); backward map = the composed bijections) are
   one-child unions: class kind K_UNION with a single child, so C08_uniform already covers
   specifications containing them.  Made explicit here: such a step changes neither the count nor
   the distribution — the parent's sampler returns  UNode c 0 t  exactly as often as the child's
   returns t — and so does a whole chain of them. *)
From Coq Require Import ZArith List Bool Lia QArith Qfield.
From CSS Require Import Gen.Prelude Gen.Compositions Count.CompositionsSpec
  Count.SampleModel Count.SampleWalk Count.SampleComps Count.SampleProb Count.SampleUniform.
Import ListNotations.
Open Scope Z_scope.

Section Equiv.
  Variable rule_of : nat -> cls.
  Variable cnt : nat -> Z -> Z.
  Hypothesis cnt_nonneg : forall c n, 0 <= cnt c n.
  Hypothesis cnt_union : forall c n, c_kind (rule_of c) = K_UNION ->
    cnt c n = py_sum (map (fun ci => cnt ci n) (c_kids (rule_of c))).

  Definition unary (c ci : nat) : Prop := c_kind (rule_of c) = K_UNION /\ c_kids (rule_of c) = [ci].

  Lemma unary_count c ci n : unary c ci -> cnt c n = cnt ci n.
  Proof. intros [Hk Hc]. rewrite (cnt_union c n Hk), Hc. unfold py_sum. simpl. lia. Qed.

  Lemma unary_step f c ci n t : unary c ci -> 1 <= cnt ci n ->
    (prob (tree_eqb (UNode c 0 t)) (sample rule_of cnt (S f) c n) == prob (tree_eqb t) (sample rule_of cnt f ci n))%Q.
  Proof.
    intros Hu Hpos. pose proof (unary_count c ci n Hu) as Ec. destruct Hu as [Hk Hc].
    assert (E : sample rule_of cnt (S f) c n =
                Draw 1 (cnt c n) (fun r =>
                  match walk (spec_union_weight cnt n) r 0 0%nat [ci] with
                  | Err e => Fail e
                  | Ok (i, cj) => bind (sample rule_of cnt f cj n) (fun t => choice1 (UNode c i t))
                  end)).
    { simpl. rewrite Hk, Hc. reflexivity. }
    rewrite E.
    rewrite (prob_draw_interval _ _ (cnt c n) 0 (cnt ci n) (prob (tree_eqb t) (sample rule_of cnt f ci n))); try lia.
    - rewrite Ec. replace (cnt ci n - 0) with (cnt ci n) by lia.
      assert (~ (inject_Z (cnt ci n) == 0)%Q) by (change 0%Q with (inject_Z 0); rewrite inject_Z_injective; lia).
      field. assumption.
    - intros r Hr. simpl. unfold spec_union_weight. simpl.
      replace (0 <? r) with true by (symmetry; apply Z.ltb_lt; lia).
      destruct (r <=? cnt ci n) eqn:E1.
      + simpl. rewrite (prob_bind _ _ (tree_eqb t) _ 1%Q); [ring|].
        intros a. rewrite prob_choice1. simpl. rewrite Nat.eqb_refl. simpl. reflexivity.
      + apply Z.leb_gt in E1. lia.
  Qed.

  (* a chain of equivalence steps  c0 -> c1 -> ... -> ck  (the rules an EquivalencePathRule collapses) *)
  Fixpoint chain (c : nat) (path : list nat) (last : nat) : Prop :=
    match path with
    | [] => c = last
    | c' :: rest => unary c c' /\ chain c' rest last
    end.
  Fixpoint wrap (c : nat) (path : list nat) (t : tree) : tree :=
    match path with
    | [] => t
    | c' :: rest => UNode c 0 (wrap c' rest t)
    end.

  Lemma chain_count : forall path c last n, chain c path last -> cnt c n = cnt last n.
  Proof.
    induction path as [|c' rest IH]; intros c last n H; simpl in H; [subst; reflexivity|].
    destruct H as [Hu Hc]. rewrite (unary_count c c' n Hu). apply IH. exact Hc.
  Qed.

  Lemma chain_steps : forall path c last f n t, chain c path last -> 1 <= cnt last n ->
    (prob (tree_eqb (wrap c path t)) (sample rule_of cnt (length path + f) c n)
     == prob (tree_eqb t) (sample rule_of cnt f last n))%Q.
  Proof.
    induction path as [|c' rest IH]; intros c last f n t H Hpos; simpl in H.
    - subst. simpl. reflexivity.
    - destruct H as [Hu Hc]. simpl length. simpl wrap.
      change (S (length rest) + f)%nat with (S (length rest + f)).
      rewrite (unary_step _ c c' n _ Hu); [|rewrite (chain_count rest c' last n Hc); exact Hpos].
      apply IH; assumption.
  Qed.
End Equiv.
