(* C09, part 3: Quotient.get_terms of the model, parameter-free case
   (self._num_parent_params = 0: the integer branch `a_poly // c_poly`), returns the
   flipped child's true counts at every size, by induction over the cache levels. *)
From Coq Require Import ZArith List Bool Lia.
From CSS Require Import Gen.Prelude Gen.Compositions Gen.QuotientParentShift
  Count.CompositionsSpec Count.Terms Count.Constructors Count.ConstructorsUnionProduct
  Count.ConstructorsComplement.
Import ListNotations.
Open Scope Z_scope.
Local Opaque Z.mul.

(* ---------------------------------------------------------------- list surgery *)
Lemma replace_at_S {A} i (x y : A) l : replace_at (S i) x (y :: l) = y :: replace_at i x l.
Proof. reflexivity. Qed.
Lemma replace_at_0 {A} (x y : A) l : replace_at 0 x (y :: l) = x :: l.
Proof. reflexivity. Qed.
Lemma remove_at_S {A} i (y : A) l : remove_at (S i) (y :: l) = y :: remove_at i l.
Proof. reflexivity. Qed.
Lemma remove_at_0 {A} (y : A) l : remove_at 0 (y :: l) = l.
Proof. reflexivity. Qed.

Lemma remove_replace_at {A} i (x : A) l : (i < length l)%nat -> remove_at i (replace_at i x l) = remove_at i l.
Proof.
  revert l. induction i as [|i IH]; intros [|y l] H; simpl in H; try lia.
  - reflexivity.
  - rewrite replace_at_S, !remove_at_S, IH; [reflexivity|lia].
Qed.

Lemma replace_at_length {A} i (x : A) l : (i < length l)%nat -> length (replace_at i x l) = length l.
Proof.
  revert l. induction i as [|i IH]; intros [|y l] H; simpl in H; try lia.
  - reflexivity.
  - rewrite replace_at_S. simpl. rewrite IH; lia.
Qed.

Lemma remove_at_length {A} i (l : list A) : (i < length l)%nat -> S (length (remove_at i l)) = length l.
Proof.
  revert l. induction i as [|i IH]; intros [|y l] H; simpl in H; try lia.
  - reflexivity.
  - rewrite remove_at_S. simpl. rewrite IH; lia.
Qed.

Lemma nth_replace_at {A} i (x d : A) l : (i < length l)%nat -> nth i (replace_at i x l) d = x.
Proof.
  revert l. induction i as [|i IH]; intros [|y l] H; simpl in H; try lia.
  - reflexivity.
  - rewrite replace_at_S. simpl. apply IH. lia.
Qed.

Lemma map_remove_at {A B} (f : A -> B) i l : map f (remove_at i l) = remove_at i (map f l).
Proof. unfold remove_at. rewrite map_app, firstn_map, skipn_map. reflexivity. Qed.

Lemma py_sum_remove_at i l : (i < length l)%nat -> py_sum (remove_at i l) = py_sum l - nth i l 0.
Proof.
  revert l. induction i as [|i IH]; intros [|y l] H; simpl in H; try lia.
  - rewrite remove_at_0, py_sum_cons. simpl. lia.
  - rewrite remove_at_S, !py_sum_cons, IH by lia. simpl. lia.
Qed.

Lemma py_sum_replace_at i x l : (i < length l)%nat -> py_sum (replace_at i x l) = py_sum l - nth i l 0 + x.
Proof.
  revert l. induction i as [|i IH]; intros [|y l] H; simpl in H; try lia.
  - rewrite replace_at_0, !py_sum_cons. simpl. lia.
  - rewrite replace_at_S, !py_sum_cons, IH by lia. simpl. lia.
Qed.

Lemma py_get_nat {A} (d : A) l i : (i < length l)%nat -> py_get d l (Z.of_nat i) = nth i l d.
Proof.
  intros H. unfold py_get, zlen.
  replace ((0 <=? Z.of_nat i) && (Z.of_nat i <? Z.of_nat (length l))) with true by lia.
  rewrite Nat2Z.id. reflexivity.
Qed.

(* ---------------------------------------------------------------- bounds and the special composition *)
Lemma Forall2_le_eq a b : Forall2 Z.le a b -> py_sum b <= py_sum a -> a = b.
Proof.
  induction 1 as [|x y a b Hxy H IH]; intros Hs; [reflexivity|].
  rewrite !py_sum_cons in Hs. pose proof (Forall2_le_sum _ _ H).
  assert (x = y) by lia. subst. f_equal. apply IH. lia.
Qed.

(* within the lower bounds, part idx at least n, and the total not above the
   lower bounds' total + (n - lower bound idx): it is the lower bounds with n at idx *)
Lemma comp_is_special : forall idx mins t n,
  Forall2 Z.le mins t -> (idx < length mins)%nat -> n <= nth idx t 0 ->
  py_sum t <= py_sum mins - nth idx mins 0 + n ->
  t = replace_at idx n mins.
Proof.
  induction idx as [|i IH]; intros mins t n Hle Hi Hn Hs.
  - inversion Hle as [|m x mins' t' Hmx Hle' E1 E2]; subst; simpl in Hi; [lia|].
    simpl in Hn, Hs. rewrite !py_sum_cons in Hs. pose proof (Forall2_le_sum _ _ Hle').
    rewrite replace_at_0. assert (x = n) by lia. subst.
    f_equal. symmetry. apply Forall2_le_eq; [exact Hle'|lia].
  - inversion Hle as [|m x mins' t' Hmx Hle' E1 E2]; subst; simpl in Hi; [lia|].
    simpl in Hn, Hs. rewrite !py_sum_cons in Hs.
    assert (Ht' : t' = replace_at i n mins') by (apply IH; [exact Hle'|lia|exact Hn|lia]).
    rewrite replace_at_S. rewrite Ht' in Hs. rewrite py_sum_replace_at in Hs by lia.
    assert (x = m) by lia. congruence.
Qed.

Lemma in_bounds_replace_true : forall idx mins maxs t M,
  in_bounds mins (replace_at idx (Some M) maxs) t = true -> (idx < length maxs)%nat ->
  nth idx t 0 <= M.
Proof.
  induction idx as [|i IH]; intros mins maxs t M Hb Hi; destruct maxs as [|hi maxs]; simpl in Hi; try lia.
  - rewrite replace_at_0 in Hb. destruct mins as [|lo mins], t as [|x t]; simpl in Hb; try discriminate.
    simpl. apply andb_true_iff in Hb. destruct Hb as [Hb _]. apply andb_true_iff in Hb. lia.
  - rewrite replace_at_S in Hb. destruct mins as [|lo mins], t as [|x t]; simpl in Hb; try discriminate.
    simpl. apply andb_true_iff in Hb. destruct Hb as [_ Hb]. apply (IH _ _ _ _ Hb). lia.
Qed.

Lemma in_bounds_replace_false : forall idx mins maxs t M,
  in_bounds mins maxs t = true -> in_bounds mins (replace_at idx (Some M) maxs) t = false ->
  (idx < length maxs)%nat -> M < nth idx t 0.
Proof.
  induction idx as [|i IH]; intros mins maxs t M Hb Hf Hi; destruct maxs as [|hi maxs]; simpl in Hi; try lia.
  - rewrite replace_at_0 in Hf. destruct mins as [|lo mins], t as [|x t]; simpl in Hb, Hf; try discriminate.
    simpl. apply andb_true_iff in Hb. destruct Hb as [Hb Hb3]. apply andb_true_iff in Hb. destruct Hb as [Hb1 Hb2].
    rewrite Hb1, Hb3 in Hf. simpl in Hf. rewrite andb_true_r in Hf. lia.
  - rewrite replace_at_S in Hf. destruct mins as [|lo mins], t as [|x t]; simpl in Hb, Hf; try discriminate.
    simpl. apply andb_true_iff in Hb. destruct Hb as [Hb Hb3]. rewrite Hb in Hf. simpl in Hf.
    apply (IH _ _ _ _ Hb3 Hf). lia.
Qed.

Lemma in_bounds_lower mins maxs t : in_bounds mins maxs t = true -> Forall2 Z.le mins t.
Proof. intros H. apply in_bounds_spec in H. tauto. Qed.

(* ---------------------------------------------------------------- products of counts *)
Definition hprod (tabs : list (Z -> terms)) (t : list Z) : Z := zprod (map tsum (tabs_at tabs t)).

Lemma tabs_at_cons tab tabs x t : tabs_at (tab :: tabs) (x :: t) = tab x :: tabs_at tabs t.
Proof. reflexivity. Qed.

Lemma hprod_cons tab tabs x t : hprod (tab :: tabs) (x :: t) = tsum (tab x) * hprod tabs t.
Proof. reflexivity. Qed.

Lemma comp_table_tsum fs tabs t : tsum (comp_table fs tabs t) = hprod tabs t.
Proof. unfold comp_table, hprod. apply tsum_combo_table. Qed.

Lemma hprod_replace_own : forall idx tabs own t,
  (idx < length tabs)%nat -> length t = length tabs ->
  tsum (own (nth idx t 0)) = tsum (nth idx tabs (fun _ => []) (nth idx t 0)) ->
  hprod (replace_at idx own tabs) t = hprod tabs t.
Proof.
  induction idx as [|i IH]; intros tabs own t Hi Hl Ho; destruct tabs as [|tab tabs], t as [|x t];
    simpl in Hi, Hl; try lia.
  - rewrite replace_at_0, !hprod_cons. simpl in Ho. rewrite Ho. reflexivity.
  - rewrite replace_at_S, !hprod_cons. simpl in Ho. rewrite IH; [reflexivity|lia|lia|exact Ho].
Qed.

Lemma hprod_special : forall idx tabs mins n,
  (idx < length tabs)%nat -> length mins = length tabs ->
  hprod tabs (replace_at idx n mins) =
  tsum (nth idx tabs (fun _ => []) n) * hprod (remove_at idx tabs) (remove_at idx mins).
Proof.
  induction idx as [|i IH]; intros tabs mins n Hi Hl; destruct tabs as [|tab tabs], mins as [|m mins];
    simpl in Hi, Hl; try lia.
  - rewrite replace_at_0, !remove_at_0, hprod_cons. reflexivity.
  - rewrite replace_at_S, !remove_at_S, !hprod_cons, IH by lia. simpl nth. lia.
Qed.

Lemma hprod_zero tabs mins maxs t :
  Vanish tabs mins maxs -> length t = length tabs -> in_bounds mins maxs t = false -> hprod tabs t = 0.
Proof.
  intros Hv Hl Hb. rewrite <- (comp_table_tsum []). apply tsum_allzero.
  unfold comp_table. apply combo_table_allzero. eapply Vanish_exists_zero; eauto.
Qed.

Lemma hprod_nonneg : forall tabs t, Forall (fun tab : Z -> terms => forall m, nonneg (tab m)) tabs -> 0 <= hprod tabs t.
Proof.
  induction tabs as [|tab tabs IH]; intros t H.
  - unfold hprod, tabs_at, zprod. destruct t; simpl; lia.
  - destruct t as [|x t]; [unfold hprod, tabs_at, zprod; simpl; lia|].
    inversion H; subst. rewrite hprod_cons. pose proof (tsum_nonneg (tab x) (H2 x)). pose proof (IH t H3). nia.
Qed.

Lemma tabs_at_nonneg : forall tabs t, Forall (fun tab : Z -> terms => forall m, nonneg (tab m)) tabs ->
  Forall nonneg (tabs_at tabs t).
Proof.
  induction tabs as [|tab tabs IH]; intros t H; destruct t as [|x t]; try constructor.
  - inversion H; subst. apply H2.
  - inversion H; subst. apply IH. assumption.
Qed.

(* ---------------------------------------------------------------- keys in the parameter-free case *)
Definition const_nil (f : params -> params) : Prop := forall k, f k = [].

Lemma fold_zip_add_nil l : fold_left zip_add l [] = [].
Proof. induction l as [|x l IH]; simpl; [reflexivity|exact IH]. Qed.

Lemma new_param_nil fs ks : Forall const_nil fs -> new_param fs ks = [].
Proof.
  intros H. unfold new_param. destruct fs as [|f fs], ks as [|k ks]; simpl; try reflexivity.
  inversion H; subst. rewrite (H2 k). apply fold_zip_add_nil.
Qed.

Lemma product_table_nokeys fs mins maxs tabs n : Forall const_nil fs -> nokeys (product_table fs mins maxs tabs n).
Proof.
  intros H k v Hin. unfold product_table in Hin. apply in_flat_map in Hin. destruct Hin as (t & _ & Hin).
  apply in_map_iff in Hin. destruct Hin as (c & E & _). unfold combo_entry in E. inversion E; subst.
  apply new_param_nil. exact H.
Qed.

Lemma product_table_nonneg fs mins maxs tabs n :
  Forall (fun tab : Z -> terms => forall m, nonneg (tab m)) tabs -> nonneg (product_table fs mins maxs tabs n).
Proof.
  intros H k v Hin. unfold product_table in Hin. apply in_flat_map in Hin. destruct Hin as (t & _ & Hin).
  revert k v Hin. apply combo_table_nonneg. apply tabs_at_nonneg. exact H.
Qed.

Lemma my_in_firstn {A} n (l : list A) x : In x (firstn n l) -> In x l.
Proof. intros H. rewrite <- (firstn_skipn n l). apply in_or_app. left. exact H. Qed.
Lemma my_in_skipn {A} n (l : list A) x : In x (skipn n l) -> In x l.
Proof. intros H. rewrite <- (firstn_skipn n l). apply in_or_app. right. exact H. Qed.

Lemma Forall_remove_at {A} (P : A -> Prop) i l : Forall P l -> Forall P (remove_at i l).
Proof.
  intros H. unfold remove_at. apply Forall_app. split.
  - apply Forall_forall. intros x Hx. rewrite Forall_forall in H. apply H. eapply my_in_firstn; eauto.
  - apply Forall_forall. intros x Hx. rewrite Forall_forall in H. apply H. eapply my_in_skipn; eauto.
Qed.

Lemma Forall_replace_at {A} (P : A -> Prop) i x l : P x -> Forall P l -> Forall P (replace_at i x l).
Proof.
  intros Hx H. unfold replace_at. apply Forall_app. split; [|apply Forall_app; split].
  - apply Forall_forall. intros y Hy. rewrite Forall_forall in H. apply H. eapply my_in_firstn; eauto.
  - constructor; [exact Hx|constructor].
  - apply Forall_forall. intros y Hy. rewrite Forall_forall in H. apply H. eapply my_in_skipn; eauto.
Qed.

(* the sum of the stored values after entry-by-entry accumulation *)
Lemma acc_entries_tsum sgn es : forall acc r, acc_entries sgn acc es = Ok r -> tsum r = tsum acc + sgn * tsum es.
Proof.
  unfold acc_entries. induction es as [|[k v] es IH]; intros acc r H; simpl in H.
  - inversion H; subst. simpl. lia.
  - destruct (0 <=? _) in H; [|discriminate]. apply IH in H. rewrite H. simpl. lia.
Qed.

Lemma acc_entries_nokeys sgn es : forall acc r, nokeys acc -> nokeys es -> acc_entries sgn acc es = Ok r -> nokeys r.
Proof.
  unfold acc_entries. induction es as [|[k v] es IH]; intros acc r Ha He H; simpl in H.
  - inversion H; subst. exact Ha.
  - destruct (0 <=? _) in H; [|discriminate]. apply IH in H; [exact H| |].
    + intros k' v' [E|Hin]; [inversion E; subst; apply (He k' v); left; reflexivity|apply (Ha k' v' Hin)].
    + intros k' v' Hin. apply (He k' v'). right. exact Hin.
Qed.

(* ---------------------------------------------------------------- more helpers *)
Lemma Vanish_nth : forall idx tabs mins maxs,
  Vanish tabs mins maxs -> (idx < length tabs)%nat ->
  forall m, (m < nth idx mins 0 \/ ~ bounded m (nth idx maxs None)) ->
  allzero (nth idx tabs (fun _ => []) m).
Proof.
  induction idx as [|i IH]; intros tabs mins maxs Hv Hi m Hm; inversion Hv; subst; simpl in Hi; try lia.
  - simpl in *. apply H. exact Hm.
  - simpl in *. eapply IH; eauto. lia.
Qed.

Lemma Forall2_le_nth : forall idx mins t,
  Forall2 Z.le mins t -> (idx < length mins)%nat -> nth idx mins 0 <= nth idx t 0.
Proof.
  induction idx as [|i IH]; intros mins t H Hi; inversion H; subst; simpl in Hi; try lia.
  - simpl. assumption.
  - simpl. apply IH; [assumption|lia].
Qed.

Lemma Forall2_le_refl l : Forall2 Z.le l l.
Proof. induction l; constructor; [lia|assumption]. Qed.

Lemma Forall2_min_max_bounded cs : Forall2 bounded (quotient_min_sizes cs) (quotient_max_sizes cs).
Proof.
  unfold quotient_min_sizes, quotient_max_sizes.
  induction cs as [|[m a] cs IH]; simpl; constructor; [|exact IH].
  destruct a; simpl; [lia|exact I].
Qed.

Lemma Forall_nth_nonneg idx (l : list Z) : Forall (fun m => 0 <= m) l -> 0 <= nth idx l 0.
Proof.
  intros H. destruct (Nat.lt_ge_cases idx (length l)) as [Hlt|Hge].
  - rewrite Forall_forall in H. apply H. apply nth_In. exact Hlt.
  - rewrite nth_overflow by exact Hge. lia.
Qed.

(* ---------------------------------------------------------------- the parameter-free quotient *)
Section QuotientNoParams.
  Variable fs : list (params -> params).
  Variable ppm : params -> res params.
  Variable cs : list (Z * bool).
  Variable idx : nat.
  Variable TP : Z -> terms.
  Variable tabs : list (Z -> terms).
  Variable Nmax : Z.                         (* levels 0..Nmax are computed *)

  Let mins := quotient_min_sizes cs.
  Let maxs := quotient_max_sizes cs.
  Let psh := quotient_parent_shift cs (Z.of_nat idx).
  Let tab_i := nth idx tabs (fun _ : Z => @nil entry).
  Let min_i := nth idx mins 0.
  Let C := hprod (remove_at idx tabs) (remove_at idx mins).

  Hypothesis Hidx : (idx < length cs)%nat.
  Hypothesis Hk2 : (2 <= length cs)%nat.
  Hypothesis Htabs : length tabs = length cs.
  Hypothesis Hfs : Forall const_nil fs.
  Hypothesis Hmins : Forall (fun m => 0 <= m) mins.
  Hypothesis Hvanish : Vanish tabs mins maxs.
  Hypothesis Hnn : Forall (fun tab : Z -> terms => forall m, nonneg (tab m)) tabs.
  Hypothesis HTPkeys : forall m, nokeys (TP m).
  (* the product rule is genuine at the sizes that are read: up to Nmax + _parent_shift *)
  Hypothesis Hgen : forall m, 0 <= m <= Nmax + psh -> product_genuine fs tabs (TP m) m.
  Hypothesis Hsib : C <> 0.
  Hypothesis Hppm : ppm [] = Ok [].

  Let Lmins : length mins = length cs.
  Proof. unfold mins, quotient_min_sizes. apply map_length. Qed.
  Let Lmaxs : length maxs = length cs.
  Proof. unfold maxs, quotient_max_sizes. apply map_length. Qed.

  Let psh_eq : psh = py_sum mins - min_i.
  Proof.
    unfold psh, quotient_parent_shift. fold mins. rewrite py_get_nat by lia. reflexivity.
  Qed.

  Let min_i_nonneg : 0 <= min_i.
  Proof. apply Forall_nth_nonneg. exact Hmins. Qed.

  Let psh_nonneg : 0 <= psh.
  Proof.
    rewrite psh_eq. unfold min_i. rewrite <- py_sum_remove_at by lia.
    assert (G : forall l, Forall (fun m => 0 <= m) l -> 0 <= py_sum l).
    { induction l as [|x l IHl]; intros H; [unfold py_sum; simpl; lia|]. inversion H; subst. rewrite py_sum_cons. specialize (IHl H3). lia. }
    apply G. apply Forall_remove_at. exact Hmins.
  Qed.

  Let Hidx_tabs : (idx < length tabs)%nat.
  Proof. rewrite Htabs. exact Hidx. Qed.

  Let zk : zlen tabs = Z.of_nat (length cs).
  Proof. unfold zlen. lia. Qed.

  (* number of objects of the parent = full convolution of the children's numbers *)
  Let parent_count : forall m, 0 <= m <= Nmax + psh ->
    tsum (TP m) = zsum (hprod tabs) (compositions m (zlen tabs) (zeros (zlen tabs)) (nones (zlen tabs))).
  Proof.
    intros m Hm. rewrite <- (tget_nokeys (TP m) (HTPkeys m)). rewrite (Hgen m Hm []).
    rewrite tget_nokeys by (apply product_table_nokeys; exact Hfs).
    rewrite product_table_tsum. apply zsum_ext. intros t _. apply comp_table_tsum.
  Qed.

  Lemma quotient_level own n :
    0 <= n <= Nmax -> (forall m, nonneg (own m)) ->
    (forall m, 0 <= m < n -> tsum (own m) = tsum (tab_i m)) ->
    exists r, quotient_get_terms fs ppm 0 cs idx TP (replace_at idx own tabs) n = Ok r /\
              nokeys r /\ nonneg r /\ tsum r = tsum (tab_i n).
  Proof.
    intros Hn0 Hown_nn Hown.
    unfold quotient_get_terms. fold mins maxs psh.
    rewrite py_get_nat by lia. fold min_i.
    destruct (n <? min_i) eqn:Hlt.
    - exists []. repeat split; try (intros ? ? []).
      simpl. symmetry. apply tsum_allzero. unfold tab_i.
      eapply Vanish_nth; [exact Hvanish|lia|]. left. fold min_i. lia.
    - assert (Hge : min_i <= n) by lia. clear Hlt.
      set (tabs' := replace_at idx own tabs).
      set (N := n + psh).
      set (maxs_a := replace_at idx (Some (n - 1)) maxs).
      set (Ea := product_table fs mins maxs_a tabs' N).
      set (kk := zlen tabs).
      set (ALL := compositions N kk (zeros kk) (nones kk)).
      set (tstar := replace_at idx n mins).
      assert (Ltabs' : length tabs' = length cs) by (unfold tabs'; rewrite replace_at_length; lia).
      assert (Hzk' : zlen tabs' = kk) by (unfold kk, zlen; lia).
      assert (Hkk : kk = Z.of_nat (length cs)) by exact zk.
      assert (Hnn' : Forall (fun tab : Z -> terms => forall m, nonneg (tab m)) tabs')
        by (apply Forall_replace_at; assumption).
      (* the subtracted part *)
      assert (HEa : tsum Ea = zsum (fun t => if in_bounds mins maxs_a t then hprod tabs t else 0) ALL).
      { unfold Ea. rewrite product_table_tsum, Hzk'.
        rewrite (zsum_compositions_pruned _ N kk mins maxs_a);
          [|lia|unfold zlen; lia|unfold zlen, maxs_a; rewrite replace_at_length; lia|exact Hmins].
        apply zsum_ext. intros t Hin. destruct (in_bounds mins maxs_a t) eqn:Hb; [|reflexivity].
        rewrite comp_table_tsum. unfold tabs'.
        assert (Lt : length t = length tabs).
        { apply all_comps_length in Hin; [|lia]. unfold zlen in Hin. lia. }
        apply hprod_replace_own; [exact Hidx_tabs|exact Lt|]. fold tab_i. apply Hown.
        pose proof (in_bounds_replace_true idx mins maxs t (n - 1) Hb ltac:(lia)).
        pose proof (Forall2_le_nth idx mins t (in_bounds_lower _ _ _ Hb) ltac:(lia)). fold min_i in H0. lia. }
      (* what remains: the single composition with the flipped child at size n *)
      assert (Lstar : length tstar = length cs) by (unfold tstar; rewrite replace_at_length; lia).
      assert (Hstar_in : In tstar ALL).
      { unfold ALL. apply compositions_complete; [lia|apply Forall_zeros|].
        unfold is_comp. split; [unfold zlen; lia|]. split.
        - unfold tstar. rewrite py_sum_replace_at by lia. fold min_i. unfold N. lia.
        - split.
          + unfold zeros. rewrite Hkk, Nat2Z.id, <- Lstar.
            apply (Forall2_zeros_le tstar tstar); [|apply Forall2_le_refl].
            unfold tstar. apply Forall_replace_at; [lia|exact Hmins].
          + unfold nones. rewrite Hkk, Nat2Z.id, <- Lstar. apply Forall2_bounded_nones. }
      assert (HD : tsum (TP N) - tsum Ea = tsum (tab_i n) * C).
      { rewrite parent_count by (unfold N; lia). rewrite HEa. fold kk. fold ALL. rewrite <- zsum_minus.
        rewrite (zsum_single _ ALL tstar); [| apply compositions_nodup | exact Hstar_in |].
        - destruct (in_bounds mins maxs_a tstar) eqn:Hb.
          + exfalso. pose proof (in_bounds_replace_true idx mins maxs tstar (n - 1) Hb ltac:(lia)) as H.
            unfold tstar in H. rewrite nth_replace_at in H by lia. lia.
          + unfold tstar, C, tab_i. rewrite hprod_special by lia. lia.
        - intros y Hy Hne.
          assert (Ly : length y = length tabs).
          { apply all_comps_length in Hy; [|lia]. unfold zlen in Hy. lia. }
          destruct (in_bounds mins maxs_a y) eqn:Hb; [lia|].
          destruct (in_bounds mins maxs y) eqn:Hb0.
          + exfalso. apply Hne. unfold tstar. apply comp_is_special.
            * apply in_bounds_lower with (maxs := maxs). exact Hb0.
            * lia.
            * pose proof (in_bounds_replace_false idx mins maxs y (n - 1) Hb0 Hb ltac:(lia)). lia.
            * apply compositions_sound in Hy; [|apply zlen_repeat; lia|apply zlen_repeat; lia].
              destruct Hy as (_ & S & _). rewrite S. fold min_i. unfold N. lia.
          + rewrite (hprod_zero tabs mins maxs y Hvanish Ly Hb0). lia. }
      assert (HT : 0 <= tsum (tab_i n)).
      { apply tsum_nonneg. unfold tab_i. rewrite Forall_forall in Hnn.
        destruct (nth_in_or_default idx tabs (fun _ : Z => @nil entry)) as [Hin|Hd].
        - apply (Hnn _ Hin).
        - rewrite Hd. intros ? ? []. }
      assert (HC : 0 <= C) by (apply hprod_nonneg; apply Forall_remove_at; exact Hnn).
      (* _a *)
      assert (HEa_keys : nokeys Ea) by (apply product_table_nokeys; exact Hfs).
      assert (HEa_nn : nonneg Ea) by (apply product_table_nonneg; exact Hnn').
      destruct (acc_entries_sub Ea (TP N) HEa_nn) as (a & Ha & _).
      { intros q. destruct q as [|x q].
        - rewrite !tget_nokeys by (try apply HTPkeys; exact HEa_keys). rewrite HD. nia.
        - rewrite !tget_nokeys_other by (try apply HTPkeys; try exact HEa_keys; discriminate). lia. }
      rewrite Ha. simpl bind.
      pose proof (acc_entries_tsum _ _ _ _ Ha) as Hta.
      (* _c *)
      destruct (Nat.eqb_spec (length cs) 1) as [Hone|_]; [lia|].
      set (Ec := product_table (remove_at idx fs) (remove_at idx mins) (remove_at idx maxs)
                   (remove_at idx tabs') psh).
      assert (Htabs'' : remove_at idx tabs' = remove_at idx tabs)
        by (unfold tabs'; apply remove_replace_at; lia).
      assert (HEc_nn : nonneg Ec).
      { apply product_table_nonneg. rewrite Htabs''. apply Forall_remove_at. exact Hnn. }
      destruct (acc_entries_add Ec [] HEc_nn) as (c & Hc & _); [intros q; simpl; lia|].
      rewrite Hc. simpl bind.
      pose proof (acc_entries_tsum _ _ _ _ Hc) as Htc.
      assert (HEc : tsum Ec = C).
      { unfold Ec. rewrite product_table_tsum, Htabs''.
        set (cs' := remove_at idx cs).
        assert (Emins : remove_at idx mins = quotient_min_sizes cs')
          by (unfold mins, quotient_min_sizes, cs'; symmetry; apply map_remove_at).
        assert (Emaxs : remove_at idx maxs = quotient_max_sizes cs')
          by (unfold maxs, quotient_max_sizes, cs'; symmetry; apply map_remove_at).
        assert (Lr : S (length (remove_at idx tabs)) = length cs) by (rewrite remove_at_length; lia).
        assert (Lm' : S (length (remove_at idx mins)) = length cs) by (rewrite remove_at_length; lia).
        assert (LM' : S (length (remove_at idx maxs)) = length cs) by (rewrite remove_at_length; lia).
        assert (Hsum' : py_sum (remove_at idx mins) = psh)
          by (rewrite py_sum_remove_at by lia; fold min_i; lia).
        assert (Hmins' : Forall (fun m => 0 <= m) (remove_at idx mins)) by (apply Forall_remove_at; exact Hmins).
        rewrite (zsum_single _ _ (remove_at idx mins)).
        - rewrite comp_table_tsum. reflexivity.
        - apply compositions_nodup.
        - apply compositions_complete; [unfold zlen; lia|exact Hmins'|].
          unfold is_comp. split; [unfold zlen; lia|]. split; [exact Hsum'|]. split; [apply Forall2_le_refl|].
          rewrite Emins, Emaxs. apply Forall2_min_max_bounded.
        - intros y Hy Hne. exfalso. apply Hne.
          apply compositions_sound in Hy; [|unfold zlen; lia|unfold zlen; lia].
          destruct Hy as (_ & S & Hle & _). symmetry. apply Forall2_le_eq; [exact Hle|lia]. }
      (* _b: the integer division is exact *)
      assert (Hai : tsum a = tsum (tab_i n) * C) by lia.
      assert (Hci : tsum c = C) by (simpl in Htc; lia).
      unfold quotient_divide. rewrite Hai, Hci.
      replace (C =? 0) with false by lia.
      rewrite Z.mod_mul by exact Hsib. simpl (0 =? 0). cbv iota.
      rewrite Z.div_mul by exact Hsib.
      destruct (tsum (tab_i n) =? 0) eqn:HT0.
      + exists []. simpl. repeat split; try (intros ? ? []). lia.
      + simpl. rewrite Hppm. simpl.
        exists [([], tsum (tab_i n))]. repeat split.
        * intros k' v' [E|[]]. inversion E. reflexivity.
        * intros k' v' [E|[]]. inversion E. subst. exact HT.
        * simpl. lia.
  Qed.

  (* Rule._ensure_level: every level is computed without an exception and is correct *)
  Definition qstep : (Z -> terms) -> Z -> res terms :=
    fun own n => quotient_get_terms fs ppm 0 cs idx TP (replace_at idx own tabs) n.

  Definition good_level (r : terms) (m : nat) : Prop :=
    nokeys r /\ nonneg r /\ tsum r = tsum (tab_i (Z.of_nat m)).

  Lemma quotient_levels_from : forall todo (cache : list terms) n,
    n = Z.of_nat (length cache) -> n + Z.of_nat todo <= Nmax + 1 ->
    (forall m, (m < length cache)%nat -> good_level (nth m cache []) m) ->
    exists tl : list terms, levels_from qstep cache n todo = (tl, None) /\
               length tl = (length cache + todo)%nat /\
               forall m, (m < length tl)%nat -> good_level (nth m tl []) m.
  Proof.
    induction todo as [|todo IH]; intros cache n Hn Hmax Hgood.
    - exists cache. simpl. split; [reflexivity|split; [lia|exact Hgood]].
    - simpl levels_from.
      match goal with |- context [qstep ?o n] => set (own := o) end.
      destruct (quotient_level own n) as (r & Hr & Hk & Hnnr & Hs).
      + lia.
      + intros m. unfold own. destruct (m <? 0); [intros ? ? []|].
        destruct (Nat.lt_ge_cases (Z.to_nat m) (length cache)) as [Hlt|Hge].
        * apply (Hgood _ Hlt).
        * rewrite nth_overflow by exact Hge. intros ? ? [].
      + intros m Hm. unfold own. replace (m <? 0) with false by lia.
        destruct (Hgood (Z.to_nat m) ltac:(lia)) as (_ & _ & E). rewrite E. rewrite Z2Nat.id by lia. reflexivity.
      + unfold qstep at 1. rewrite Hr.
        destruct (IH (cache ++ [r]) (n + 1)) as (tl & Htl & Hlen & Hall).
        * rewrite app_length. simpl. lia.
        * lia.
        * intros m Hm. rewrite app_length in Hm. simpl in Hm.
          destruct (Nat.lt_ge_cases m (length cache)) as [Hlt|Hge].
          -- rewrite app_nth1 by exact Hlt. apply Hgood. exact Hlt.
          -- assert (m = length cache) by lia. subst m. rewrite app_nth2 by lia.
             rewrite Nat.sub_diag. simpl. split; [exact Hk|]. split; [exact Hnnr|]. rewrite Hs. rewrite Hn. reflexivity.
        * exists tl. split; [exact Htl|]. split; [|exact Hall]. rewrite Hlen, app_length. simpl. lia.
  Qed.

  Theorem quotient_nopar_correct :
    0 <= Nmax ->
    exists tl : list terms, levels qstep Nmax = (tl, None) /\ length tl = Z.to_nat (Nmax + 1) /\
      forall m, (m < length tl)%nat ->
        nokeys (nth m tl []) /\ tsum (nth m tl []) = tsum (tab_i (Z.of_nat m)).
  Proof.
    intros HN. unfold levels.
    destruct (quotient_levels_from (Z.to_nat (Nmax + 1)) [] 0) as (tl & H1 & H2 & H3).
    - reflexivity.
    - lia.
    - intros m Hm. simpl in Hm. lia.
    - exists tl. split; [exact H1|]. split; [simpl in H2; exact H2|].
      intros m Hm. destruct (H3 m Hm) as (A & _ & B). split; assumption.
  Qed.
End QuotientNoParams.
