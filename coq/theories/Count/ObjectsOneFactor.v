(* C07 - a CartesianProduct rule with ONE factor is a unary union step.

   Since fix 25e10f1 the searcher uses a one-factor CartesianProduct rule as an equivalence step of
   EquivalencePathRules (forwards and, through ReverseRule, backwards).  For C07 such a rule is a
   product_contract c [k] [m]; the path / reverse / round-trip theorems (cchain, reverse_single_contract,
   plain_single_link) are stated over union_contract c [k] [m].  The two contracts coincide for one child:
     map Some [y]            = slot 1 0 y                 (the tuple with the one part)
     py_sum (map size [y])   = size y                     (sizes "add up" = size kept)
     new_param [m] [p]       = m p = nth 0 [m] id p       (CartesianProduct._new_param with one child is the
                                                           child's map, as DisjointUnion's parameter law)
   so every theorem about unary union steps covers one-factor product steps.  (With a list of maps that is not
   of length 1 the two differ - new_param [] [p] = [] but nth 0 [] id p = p - hence the hypothesis on maps.) *)
From Coq Require Import ZArith List Bool Lia.
From CSS Require Import Base.PyList Gen.Prelude Count.ObjectsModel Count.ObjectsLists Count.ObjectsProofs
                        Count.ObjectsForms Count.ObjectsReverse Count.ParseTreesForms.
Import ListNotations.
Open Scope Z_scope.

Section OneFactor.
Context {obj : Type}.
Variable size : obj -> Z.
Variable In_cls : nat -> obj -> Prop.
Variable par : nat -> obj -> params.

Lemma new_param1 (m : pmap) (p : params) : new_param [m] [p] = m p.
Proof. reflexivity. Qed.

Lemma Forall2_single (R : nat -> obj -> Prop) k ys : Forall2 R [k] ys -> exists y, ys = [y] /\ R k y.
Proof.
  intros H. inversion H as [|? y ? ys' Hy Hr]; subst. inversion Hr; subst. exists y. split; [reflexivity|assumption].
Qed.

(* the lemma named in CLAUSES.md C07 (c)3; maps = [m] *)
Lemma product1_union_contract c k (m : pmap) fwd bwd :
  product_contract size In_cls par c [k] [m] fwd bwd -> union_contract size In_cls par c [k] [m] fwd bwd.
Proof.
  intros [P1 P2]. apply unary_contract_intro.
  - intros o Ho. destruct (P1 o Ho) as (ys & Hf & Hys & Hs & Hp & Hb).
    apply Forall2_single in Hys. destruct Hys as (y & -> & Hy). unfold py_sum in Hs. simpl in *.
    exists y. split; [assumption|]. split; [assumption|]. split; [lia|]. split; [assumption|].
    rewrite <- Hf. assumption.
  - intros y Hy. destruct (P2 [y]) as (o & Hb & Ho & Hf); [constructor; [assumption|constructor]|].
    simpl in *. exists o. auto.
Qed.

(* ... for any list of maps of length 1 *)
Lemma product1_union_contract_maps c k (maps : list pmap) fwd bwd :
  length maps = 1%nat ->
  product_contract size In_cls par c [k] maps fwd bwd -> union_contract size In_cls par c [k] maps fwd bwd.
Proof.
  intros Hl. destruct maps as [|m [|m2 r]]; try discriminate. apply product1_union_contract.
Qed.

(* and back: nothing is lost *)
Lemma union1_product_contract c k (m : pmap) fwd bwd :
  union_contract size In_cls par c [k] [m] fwd bwd -> product_contract size In_cls par c [k] [m] fwd bwd.
Proof.
  intros H. apply unary_contract_elim in H. destruct H as [U1 U2]. split.
  - intros o Ho. destruct (U1 o Ho) as (y & Hf & Hy & Hs & Hp & Hb).
    exists [y]. simpl. split; [assumption|]. split; [constructor; [assumption|constructor]|].
    split; [unfold py_sum; simpl; lia|]. split; [assumption|]. rewrite Hf. assumption.
  - intros ys Hys. apply Forall2_single in Hys. destruct Hys as (y & -> & Hy). simpl.
    destruct (U2 y Hy) as (o & Hb & Ho & Hf). exists o. auto.
Qed.

(* consumers: a one-factor product step at the head of a chain of an EquivalencePathRule *)
Lemma product1_cchain_step A B C (m : pmap) fwd bwd rest :
  product_contract size In_cls par A [B] [m] fwd bwd ->
  cchain size In_cls par B rest C ->
  cchain size In_cls par A ((fun o => Some (fwd o), fun t => Some (bwd t), m) :: rest) C.
Proof.
  intros HP Hc. apply cchain_cons with (B := B); [|assumption].
  exact (product1_union_contract A B m fwd bwd HP).
Qed.

(* the ReverseRule of a one-factor product, used as it is (what an EquivalencePathRule holds for a reversed step) *)
Lemma product1_reverse_single_contract c k (m m' : pmap) fwd bwd :
  product_contract size In_cls par c [k] [m] fwd bwd ->
  (forall y, In_cls k y -> m' (m (par k y)) = par k y) ->
  union_contract size In_cls par k [c] [m']
    (tot_fwd (rev_forward (fun t => Some (bwd t)) 0 1 true))
    (tot_bwd (rev_backward (fun o => Some (fwd o)) 0 true)).
Proof.
  intros HP Hinv.
  apply (reverse_single_contract size In_cls par c [k] [m] fwd bwd (product1_union_contract c k m fwd bwd HP)
           0%nat k eq_refl).
  - intros [|i] k' y Hi _; [reflexivity|destruct i; discriminate].
  - intros y Hy. simpl. apply Hinv. assumption.
  - reflexivity.
Qed.

(* the round trip of the plain one-factor product rule, as a link *)
Lemma product1_link c k (m : pmap) fwd bwd :
  product_contract size In_cls par c [k] [m] fwd bwd ->
  link In_cls c k (fun o => Some (fwd o)) (fun t => Some (bwd t)).
Proof.
  intros HP. eapply plain_single_link. exact (product1_union_contract c k m fwd bwd HP).
Qed.

End OneFactor.
