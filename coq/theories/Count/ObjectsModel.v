(* C07 — executable model of object generation.  No proofs here.

   Transcribed from /repo/comb_spec_searcher:
     strategies/constructor/disjoint.py   DisjointUnion.get_sub_objects, DisjointUnion.param_map
     strategies/constructor/cartesian.py  CartesianProduct.get_sub_objects, _new_param,
                                          params_value_pairs_combinations
     strategies/constructor/base.py       Constructor.param_map
     strategies/rule.py                   Rule._ensure_level_objects, AbstractRule.get_objects,
                                          generate_objects_of_size, VerificationRule._ensure_level_objects,
                                          EquivalenceRule / ReverseRule / EquivalencePathRule
                                          forward_map and backward_map
     specification.py                     generate_objects_of_size, get_objects

   `Objects` (a defaultdict(list) keyed by parameter tuples) is an association
   list in insertion order.  A tuple handed to a backward map is a list of
   `option obj` (None = Python's None).  utils.compositions is NOT transcribed
   here: the definition regenerated from the source on every run
   (Gen/Compositions.v) is used. *)
From Coq Require Import ZArith List Bool.
From CSS Require Import Base.PyList Gen.Prelude Gen.Compositions.
Import ListNotations.
Open Scope Z_scope.

Definition params := list Z.

Fixpoint params_eqb (a b : params) : bool :=
  match a, b with
  | [], [] => true
  | x :: a', y :: b' => Z.eqb x y && params_eqb a' b'
  | _, _ => false
  end.

Section Model.
Context {obj : Type}.

Definition subobj := list (option obj).            (* argument of a backward map *)
Definition objects := list (params * list obj).    (* typing.Objects *)
Definition pmap := params -> params.               (* typing.ParametersMap *)

(* objects[p] on a defaultdict(list) (a missing key reads as []) *)
Fixpoint dict_get (d : objects) (p : params) : list obj :=
  match d with
  | [] => []
  | (q, l) :: d' => if params_eqb q p then l else dict_get d' p
  end.

(* objects[p].extend(l) on a defaultdict(list) *)
Fixpoint dict_extend (d : objects) (p : params) (l : list obj) : objects :=
  match d with
  | [] => [(p, l)]
  | (q, l0) :: d' => if params_eqb q p then (q, l0 ++ l) :: d' else (q, l0) :: dict_extend d' p l
  end.

(* itertools.product( *ls): the rightmost factor varies fastest *)
Fixpoint cart {A} (ls : list (list A)) : list (list A) :=
  match ls with
  | [] => [[]]
  | l :: r => flat_map (fun x => map (cons x) (cart r)) l
  end.

(* what a constructor's get_sub_objects yields: (parameters, tuple of lists) *)
Definition yield := (params * list (list (option obj)))%type.

(* (None, .., Some o at position i, .., None) *)
Definition slot (k i : nat) (o : obj) : subobj := set_nth (repeat None k) i (Some o).

(* DisjointUnion.get_sub_objects(subobjs, n); `subs` are the values subobj(n)
   of the children in order:
       res = [[None] for _ in range(self.number_of_children)]
       for i, subobj in enumerate(subobjs):
           param_map = self._children_param_maps[i]
           for param, comb_objs in subobj(n).items():
               res[i] = comb_objs
               yield (param_map(param), tuple(res))
           res[i] = [None]                                                     *)
Fixpoint union_yields_from (k i : nat) (maps : list pmap) (subs : list objects) : list yield :=
  match subs with
  | [] => []
  | d :: rest =>
      map (fun e : params * list obj =>
             (nth i maps (fun p => p) (fst e), set_nth (repeat [None] k) i (map Some (snd e)))) d
      ++ union_yields_from k (S i) maps rest
  end.
Definition union_yields (maps : list pmap) (subs : list objects) : list yield :=
  union_yields_from (length subs) 0 maps subs.

(* CartesianProduct._new_param: column sums of the mapped child parameters
   (zip( *mapped) truncates to the shortest; no child gives ()) *)
Fixpoint zip_add (a b : params) : params :=
  match a, b with
  | x :: a', y :: b' => (x + y) :: zip_add a' b'
  | _, _ => []
  end.
Fixpoint apply_maps (maps : list pmap) (ps : list params) : list params :=
  match maps, ps with
  | f :: maps', p :: ps' => f p :: apply_maps maps' ps'
  | _, _ => []
  end.
Definition new_param (maps : list pmap) (ps : list params) : params :=
  match apply_maps maps ps with
  | [] => []
  | m :: ms => fold_left zip_add ms m
  end.

(* CartesianProduct.get_sub_objects(subobjs, n); per_comp lists, for every
   composition `sizes` of utils.compositions(n, len(subobjs), min_sizes, max_sizes)
   in order, the values [sg(s) for sg, s in zip(subobjs, sizes)]:
       for sizes in size_compositions:
           for param_objs_pairs in product( *(c.items() for c in children_values)):
               new_param = self._new_param( *(p for p, _ in param_objs_pairs))
               yield (new_param, tuple(objs for _, objs in param_objs_pairs))   *)
Definition product_yields (maps : list pmap) (per_comp : list (list objects)) : list yield :=
  flat_map (fun ds : list objects =>
     map (fun combo : list (params * list obj) =>
            (new_param maps (map fst combo), map (fun e => map Some (snd e)) combo))
         (cart ds)) per_comp.

(* the (parameters, sub_objs) pairs visited by the two nested loops of
   Rule._ensure_level_objects:
       for parameters, subobjects in self.constructor.get_sub_objects(..):
           for sub_objs in product( *subobjects):                               *)
Definition pairs (ys : list yield) : list (params * subobj) :=
  flat_map (fun y : yield => map (pair (fst y)) (cart (snd y))) ys.

(*             objects[parameters].extend(self.backward_map(sub_objs))         *)
Definition build_level (bwd : subobj -> list obj) (ys : list yield) : objects :=
  fold_left (fun d (qt : params * subobj) => dict_extend d (fst qt) (bwd (snd qt))) (pairs ys) [].

(* ---------------------------------------------------------------- rule forms *)
(* maps of derived rules; None = the Python code raises *)

(* EquivalenceRule.forward_map / backward_map *)
Definition eqv_forward (ofwd : obj -> option subobj) (child_idx : nat) (o : obj) : option subobj :=
  match ofwd o with
  | Some t => Some [nth child_idx t None]
  | None => None
  end.
Definition eqv_backward (obwd : subobj -> option (list obj)) (child_idx nchildren : nat)
           (objs : subobj) : option (list obj) :=
  obwd (map (fun i => if Nat.eqb i child_idx then nth 0 objs None else None) (seq 0 nchildren)).

(* ReverseRule.backward_map / forward_map; one_nonempty is
   len(self.original_rule.non_empty_children()) == 1 *)
Definition rev_backward (ofwd : obj -> option subobj) (idx : nat) (one_nonempty : bool)
           (objs : subobj) : option (list obj) :=
  if negb one_nonempty then None
  else if negb (forallb (fun x : option obj => match x with None => true | Some _ => false end) (tl objs))
  then None
  else match nth 0 objs None with
       | None => None
       | Some o =>
           match ofwd o with
           | None => None
           | Some t => match nth idx t None with Some r => Some [r] | None => None end
           end
       end.
Definition rev_forward (obwd : subobj -> option (list obj)) (idx nchildren : nat) (one_nonempty : bool)
           (o : obj) : option subobj :=
  if negb one_nonempty then None
  else match obwd (set_nth (repeat None nchildren) idx (Some o)) with
       | Some [r] => Some (Some r :: repeat None (nchildren - 1))
       | _ => None
       end.

(* EquivalencePathRule.forward_map:
       res = obj
       for rule in self.rules: res = rule.forward_map(res)[0]
       return (res,)
   (a None part is passed on to the next forward map, which the real code
   cannot handle: modelled as raising) *)
Fixpoint path_forward (fwds : list (obj -> option subobj)) (o : obj) : option subobj :=
  match fwds with
  | [] => Some [Some o]
  | f :: rest =>
      match f o with
      | Some t => match nth 0 t None with Some o' => path_forward rest o' | None => None end
      | None => None
      end
  end.

(* EquivalencePathRule.backward_map:
       res = objs
       for rule in reversed(self.rules):
           try: res = (next(rule.backward_map(res)),)
           except StopIteration: return
       yield res[0]                                                            *)
Fixpoint path_backward_rev (rbwds : list (subobj -> option (list obj))) (res : subobj) : option (list obj) :=
  match rbwds with
  | [] => match nth 0 res None with Some o => Some [o] | None => None end
  | b :: rest =>
      match b res with
      | None => None
      | Some [] => Some []
      | Some (o :: _) => path_backward_rev rest [Some o]
      end
  end.
Definition path_backward (bwds : list (subobj -> option (list obj))) (objs : subobj) : option (list obj) :=
  path_backward_rev (rev bwds) objs.

(* ---------------------------------------------------------------- specification *)
(* what object generation needs to know of a rule.  Equivalence, reverse and
   path rules are unions with one child whose backward map is one of the
   derived maps above. *)
Inductive rule :=
| RUnion (kids : list nat) (maps : list pmap) (bwd : subobj -> list obj)
| RProduct (kids : list nat) (mins : list Z) (maxs : list (option Z)) (maps : list pmap)
           (bwd : subobj -> list obj)
| RVerified (tbl : Z -> objects).          (* VerificationRule: strategy.get_objects(comb_class, n) *)

Variable spec : nat -> option rule.        (* CombinatorialSpecification.rules_dict, classes as labels *)

(* the objects_cache of every rule *)
Definition cache := nat -> list objects.
Definition clen (s : cache) (c : nat) : Z := zlen (s c).
Definition cget (s : cache) (c : nat) (n : Z) : objects := nth (Z.to_nat n) (s c) [].
Definition cappend (s : cache) (c : nat) (d : objects) : cache :=
  fun c' => if Nat.eqb c' c then s c ++ [d] else s c'.

(* sequencing of calls that may extend the caches; None = no answer
   (recursion too deep / a class without rule) *)
Fixpoint mapM {A B} (g : cache -> A -> option (cache * B)) (s : cache) (l : list A)
  : option (cache * list B) :=
  match l with
  | [] => Some (s, [])
  | a :: l' =>
      match g s a with
      | None => None
      | Some (s1, b) =>
          match mapM g s1 l' with
          | None => None
          | Some (s2, bs) => Some (s2, b :: bs)
          end
      end
  end.

(* one level of a rule, given get_objects of the children's rules *)
Definition level_with (getf : cache -> nat * Z -> option (cache * objects))
           (r : rule) (s : cache) (n : Z) : option (cache * objects) :=
  match r with
  | RUnion kids maps bwd =>
      match mapM getf s (map (fun k => (k, n)) kids) with
      | None => None
      | Some (s1, subs) => Some (s1, build_level bwd (union_yields maps subs))
      end
  | RProduct kids mins maxs maps bwd =>
      match mapM (fun s' sizes => mapM getf s' (combine kids sizes)) s
                 (compositions n (zlen kids) mins maxs) with
      | None => None
      | Some (s1, per_comp) => Some (s1, build_level bwd (product_yields maps per_comp))
      end
  | RVerified tbl => Some (s, tbl n)
  end.

(* Rule._ensure_level_objects / VerificationRule._ensure_level_objects:
       while n >= len(self.objects_cache):
           objects = <level len(self.objects_cache)>
           self.objects_cache.append(objects)
   fuel bounds the depth of nested calls plus the number of iterations. *)
Fixpoint ensure (fuel : nat) (s : cache) (c : nat) (n : Z) {struct fuel} : option cache :=
  match fuel with
  | O => None
  | S f =>
      if n <? clen s c then Some s
      else match spec c with
           | None => None
           | Some r =>
               match level_with
                       (fun s' (cm : nat * Z) =>
                          match ensure f s' (fst cm) (snd cm) with
                          | Some s'' => Some (s'', cget s'' (fst cm) (snd cm))
                          | None => None
                          end) r s (clen s c) with
               | None => None
               | Some (s1, d) => ensure f (cappend s1 c d) c n
               end
           end
  end.

(* AbstractRule.get_objects(n) *)
Definition get_objects (fuel : nat) (s : cache) (c : nat) (n : Z) : option (cache * objects) :=
  match ensure fuel s c n with
  | Some s' => Some (s', cget s' c n)
  | None => None
  end.

(* AbstractRule.generate_objects_of_size(n, **parameters) /
   CombinatorialSpecification.generate_objects_of_size *)
Definition generate_objects_of_size (fuel : nat) (s : cache) (c : nat) (n : Z) (p : params)
  : option (cache * list obj) :=
  match get_objects fuel s c n with
  | Some (s', d) => Some (s', dict_get d p)
  | None => None
  end.

Definition empty_cache : cache := fun _ => [].

End Model.

Arguments rule : clear implicits.
Arguments objects : clear implicits.
Arguments subobj : clear implicits.
Arguments yield : clear implicits.

(* ---------------------------------------------------------------- parameter maps *)
(* Constructor.param_map(child_pos_to_parent_pos, num_parent_params, param):
       new_params = [0 for _ in range(num_parent_params)]
       for pos, value in enumerate(param):
           for p in child_pos_to_parent_pos[pos]: new_params[p] += value        *)
Definition param_map_sum (c2p : list (list nat)) (num : nat) (param : params) : params :=
  fold_left (fun acc (pv : list nat * Z) =>
               fold_left (fun acc' p => set_nth acc' p (nth p acc' 0 + snd pv)) (fst pv) acc)
            (combine c2p param) (repeat 0 num).

(* DisjointUnion.param_map: first value wins (a later different value is an
   AssertionError in Python; outside the contract), unset positions are 0 *)
Definition param_map_first (c2p : list (list nat)) (num : nat) (param : params) : params :=
  map (fun o : option Z => match o with Some v => v | None => 0 end)
      (fold_left (fun acc (pv : list nat * Z) =>
                    fold_left (fun acc' p => match nth p acc' None with
                                             | None => set_nth acc' p (Some (snd pv))
                                             | Some _ => acc'
                                             end) (fst pv) acc)
                 (combine c2p param) (repeat None num)).
