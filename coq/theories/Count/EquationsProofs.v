(* C20 — the emitted equations hold for genuine rules.

   For UNION rules genuineness is stated on the term tables (Python: Counter
   parameters -> count) POSITIONALLY, the way get_terms re-keys them: an entry
   (c_1..c_k) of child i contributes to the parent entry whose q-th component is the
   value of the child parameter that extra_parameters[i] maps the q-th parent
   parameter to (0 if it is not mapped; a child parameter nobody is mapped to is
   summed out).  For PRODUCT rules it is stated on series coefficients
   (product_genuine, Count/EquationsRules.v).  The theorems turn the re-keying into
   the identity between generating series that the emitted expression denotes, where
   the re-keying is done by SUBSTITUTING variables.  A child parameter nobody is
   mapped to keeps its own variable in the emitted expression: harmless exactly when
   it is 0 on every object of the child (cw_cover, second alternative).        *)
From Coq Require Import ZArith List Bool Lia.
From CSS Require Import Count.Series Count.Equations.
Import ListNotations.
Open Scope Z_scope.

(* ------------------------------------------------------------ dictionaries *)
Lemma alookup_app {X} k (l l' : list (Z * X)) :
  alookup k (l ++ l') = match alookup k l with Some v => Some v | None => alookup k l' end.
Proof.
  induction l as [|[k' v] t IH]; simpl; auto. destruct (k' =? k); auto.
Qed.

Lemma alookup_aupdate_same {X} k (l : list (Z * X)) f :
  alookup k (aupdate l k f) = option_map f (alookup k l).
Proof.
  induction l as [|[k' v] t IH]; simpl; auto.
  destruct (k' =? k) eqn:E; simpl; rewrite E; auto.
Qed.

Lemma alookup_aupdate_other {X} k k' (l : list (Z * X)) f :
  k' <> k -> alookup k' (aupdate l k f) = alookup k' l.
Proof.
  intros Hne. induction l as [|[k0 v] t IH]; simpl; auto.
  destruct (k0 =? k) eqn:E; simpl.
  - apply Z.eqb_eq in E. subst k0. destruct (k =? k') eqn:E'; auto. apply Z.eqb_eq in E'. congruence.
  - destruct (k0 =? k'); auto.
Qed.

Lemma alookup_none_notin {X} k (l : list (Z * X)) : alookup k l = None <-> ~ In k (map fst l).
Proof.
  induction l as [|[k' v] t IH]; simpl; [tauto|].
  destruct (Z.eqb_spec k' k); split; intros H; try discriminate.
  - exfalso. apply H. auto.
  - intros [E|E]; [congruence|]. apply IH in H. auto.
  - apply IH. tauto.
Qed.

Lemma alookup_in {X} k (l : list (Z * X)) v : alookup k l = Some v -> In (k, v) l.
Proof.
  induction l as [|[k' v'] t IH]; simpl; [discriminate|].
  destruct (Z.eqb_spec k' k); intros H.
  - inversion H; subst. auto.
  - right; auto.
Qed.

(* ------------------------------------------------------------ counting parents of a child variable *)
Definition par_count (ep : list (Z * Z)) (cv u : Z) : Z :=
  psum (fun qc => if (snd qc =? cv) && (fst qc =? u) then 1 else 0) ep.
Definition has_par (ep : list (Z * Z)) (cv : Z) : bool := existsb (fun qc => snd qc =? cv) ep.

Lemma par_count_app a b cv u : par_count (a ++ b) cv u = par_count a cv u + par_count b cv u.
Proof. apply psum_app. Qed.

Lemma has_par_app a b cv : has_par (a ++ b) cv = has_par a cv || has_par b cv.
Proof. apply existsb_app. Qed.

Lemma par_count_no_par ep cv u : has_par ep cv = false -> par_count ep cv u = 0.
Proof.
  intros H. apply psum_zero. intros [q c] Hin. simpl.
  destruct (c =? cv) eqn:E; auto. exfalso.
  assert (has_par ep cv = true) as Ht; [|congruence].
  apply existsb_exists. exists (q, c). auto.
Qed.

Lemma par_count_no_key ep cv u : ~ In u (map fst ep) -> par_count ep cv u = 0.
Proof.
  intros H. apply psum_zero. intros [q c] Hin. simpl.
  destruct (Z.eqb_spec q u) as [->|]; [|rewrite andb_false_r; auto].
  exfalso. apply H. apply in_map_iff. exists (u, c). auto.
Qed.

(* with distinct keys (a dict) a parent variable counts for the child variable it is mapped to *)
Lemma par_count_lookup ep cv u :
  NoDup (map fst ep) ->
  par_count ep cv u = match alookup u ep with Some c => if c =? cv then 1 else 0 | None => 0 end.
Proof.
  induction ep as [|[q c] t IH]; simpl; intros ND; auto.
  inversion ND as [|? ? Hnot ND']; subst.
  unfold par_count in *. simpl. destruct (Z.eqb_spec q u) as [->|Hne].
  - rewrite andb_true_r. fold (par_count t cv u). rewrite par_count_no_key; auto. lia.
  - rewrite andb_false_r. rewrite IH; auto.
Qed.

(* ------------------------------------------------------------ the substitution built by DisjointUnion.get_equation *)
Section Subst.
Variable S : Z -> list (list Z * Z).
Variable O : Z -> poly.

Definition good (sg : list (Z * expr)) (done : list (Z * Z)) : Prop :=
  forall cv, match alookup cv sg with
             | Some e => has_par done cv = true /\
                         exists f, amono e = Some f /\ forall u, f u = par_count done cv u
             | None => has_par done cv = false
             end.

Lemma good_step sg done q c : good sg done -> good (union_step sg (q, c)) (done ++ [(q, c)]).
Proof.
  intros G cv. unfold union_step.
  assert (forall u, par_count [(q, c)] cv u = if (c =? cv) && (q =? u) then 1 else 0) as P1.
  { intros u. unfold par_count. simpl. lia. }
  assert (has_par [(q, c)] cv = (c =? cv)) as H1.
  { unfold has_par. simpl. apply orb_false_r. }
  pose proof (G c) as Gc. pose proof (G cv) as Gcv.
  destruct (alookup c sg) as [e0|] eqn:Ec.
  - destruct (Z.eq_dec cv c) as [->|Hne].
    + rewrite alookup_aupdate_same, Ec. simpl.
      destruct Gc as [Hp [f [Hf Hfu]]]. split.
      * rewrite has_par_app, Hp. reflexivity.
      * exists (madd f (mvar q)). split; [rewrite Hf; reflexivity|].
        intros u. unfold madd, mvar. rewrite Hfu, par_count_app, P1, Z.eqb_refl. simpl.
        rewrite (Z.eqb_sym u q). reflexivity.
    + rewrite alookup_aupdate_other by auto.
      destruct (alookup cv sg) as [e|].
      * destruct Gcv as [Hp [f [Hf Hfu]]]. split.
        -- rewrite has_par_app, Hp. reflexivity.
        -- exists f. split; auto. intros u. rewrite Hfu, par_count_app, P1.
           destruct (Z.eqb_spec c cv); [congruence|]. simpl. lia.
      * rewrite has_par_app, Gcv, H1. destruct (Z.eqb_spec c cv); [congruence|reflexivity].
  - rewrite alookup_app. destruct (Z.eq_dec cv c) as [->|Hne].
    + rewrite Ec. simpl. rewrite Z.eqb_refl. split.
      * rewrite has_par_app, H1, Z.eqb_refl. apply orb_true_r.
      * exists (mvar q). split; auto. intros u.
        rewrite par_count_app, P1, Z.eqb_refl, (par_count_no_par done c u Gc). simpl.
        unfold mvar. rewrite (Z.eqb_sym u q). reflexivity.
    + destruct (alookup cv sg) as [e|] eqn:Ecv.
      * destruct Gcv as [Hp [f [Hf Hfu]]]. split.
        -- rewrite has_par_app, Hp. reflexivity.
        -- exists f. split; auto. intros u. rewrite Hfu, par_count_app, P1.
           destruct (Z.eqb_spec c cv); [congruence|]. simpl. lia.
      * simpl. destruct (Z.eqb_spec c cv); [congruence|].
        rewrite has_par_app, Gcv, H1. destruct (Z.eqb_spec c cv); [congruence|reflexivity].
Qed.

Lemma good_fold ep : forall sg done, good sg done -> good (fold_left union_step ep sg) (done ++ ep).
Proof.
  induction ep as [|[q c] t IH]; intros sg done G; simpl.
  - rewrite app_nil_r. exact G.
  - replace (done ++ (q, c) :: t) with ((done ++ [(q, c)]) ++ t) by (rewrite <- app_assoc; reflexivity).
    apply IH. apply good_step. exact G.
Qed.

Lemma good_union_subs ep : good (union_subs ep) ep.
Proof.
  unfold union_subs. apply (good_fold ep [] []). intros cv. reflexivity.
Qed.

(* a product's dictionary inversion builds the same substitution when no two
   parent parameters are mapped to the same child parameter *)
Lemma prod_subs_eq_union ep : NoDup (map snd ep) -> prod_subs ep = union_subs ep.
Proof.
  unfold prod_subs, union_subs.
  assert (forall ep sg, NoDup (map snd ep) -> (forall c, In c (map snd ep) -> alookup c sg = None) ->
            fold_left prod_step ep sg = fold_left union_step ep sg) as G.
  { clear ep. induction ep as [|[q c] t IH]; intros sg ND Hn; simpl; auto.
    inversion ND as [|? ? Hnot ND']; subst.
    assert (alookup c sg = None) as Ec by (apply Hn; simpl; auto).
    unfold aset. rewrite Ec. apply IH; auto.
    intros c' Hc'. rewrite alookup_app, (Hn c') by (simpl; auto). simpl.
    destruct (Z.eqb_spec c c'); [subst; contradiction|reflexivity]. }
  intros ND. apply G; auto.
Qed.

(* ------------------------------------------------------------ the series a function application denotes *)
Lemma amonos_vars l : amonos (map Var l) = Some (map mvar l).
Proof. induction l as [|v t IH]; simpl; auto. rewrite IH. reflexivity. Qed.

(* the monomial of a table entry in the class's own variable names: x^n * prod p_j^{e_j} *)
Definition fm (ps : list Z) (k : list Z) : mono := lincomb k (mvar 0 :: map mvar ps).
Definition cser (ps : list Z) (tb : list (list Z * Z)) : poly := map (fun t => (fm ps (fst t), snd t)) tb.

Lemma sem_cfun pars l : sem S O (cfun pars l) = Some (cser (pars l) (S l)).
Proof. unfold cfun. simpl. rewrite amonos_vars. reflexivity. Qed.

Lemma lincomb_ext c ms ms' u :
  Forall2 (fun m m' : mono => m u = m' u) ms ms' -> lincomb c ms u = lincomb c ms' u.
Proof.
  intros H. unfold lincomb. revert c. induction H as [|m m' ms ms' Hm _ IH]; intros c.
  - destruct c; reflexivity.
  - destruct c as [|x c]; simpl; auto. rewrite Hm, IH. reflexivity.
Qed.

Lemma lincomb_cons x c m ms u : lincomb (x :: c) (m :: ms) u = x * m u + lincomb c ms u.
Proof. reflexivity. Qed.

Lemma lincomb_map_ind (vals keys : list Z) (ind : Z -> Z -> Z) (u : Z) :
  lincomb vals (map (fun k => (fun w => ind k w) : mono) keys) u =
  psum (fun vk => fst vk * ind (snd vk) u) (combine vals keys).
Proof.
  unfold lincomb. revert vals. induction keys as [|k t IH]; intros [|v vals]; simpl; auto.
  rewrite IH. reflexivity.
Qed.

(* sum of the values whose key is u = the dictionary's value at u, for distinct keys *)
Lemma psum_select_nodup (keys vals : list Z) (u : Z) :
  NoDup keys ->
  psum (fun vk => if snd vk =? u then fst vk else 0) (combine vals keys) = aget (combine keys vals) u.
Proof.
  revert vals. induction keys as [|k t IH]; intros vals ND.
  - destruct vals; reflexivity.
  - destruct vals as [|v vals]; [reflexivity|].
    inversion ND as [|? ? Hnot ND']; subst. simpl. unfold aget. simpl.
    destruct (Z.eqb_spec k u) as [->|Hne].
    + rewrite psum_zero; [lia|]. intros [v' k'] Hin. simpl.
      destruct (Z.eqb_spec k' u); auto. subst. exfalso. apply Hnot.
      apply in_combine_r in Hin. exact Hin.
    + fold (aget (combine t vals) u). rewrite <- IH by auto. lia.
Qed.

Lemma fm_value ps n e u :
  NoDup ps -> ~ In 0 ps ->
  fm ps (n :: e) u = if u =? 0 then n else aget (combine ps e) u.
Proof.
  intros ND H0. unfold fm. rewrite lincomb_cons.
  assert (lincomb e (map mvar ps) u = aget (combine ps e) u) as E.
  { rewrite <- psum_select_nodup by auto.
    change (map mvar ps) with (map (fun k => (fun w => (fun k' w' => if w' =? k' then 1 else 0) k w) : mono) ps).
    rewrite lincomb_map_ind. apply psum_ext. intros [v k] _. simpl.
    rewrite (Z.eqb_sym u k). destruct (k =? u); lia. }
  rewrite E. unfold mvar. destruct (Z.eqb_spec u 0) as [->|Hne]; [|lia].
  rewrite Z.mul_1_r. unfold aget.
  destruct (alookup 0 (combine ps e)) as [v|] eqn:El; [|lia].
  exfalso. apply H0. apply alookup_in in El. apply in_combine_l in El. exact El.
Qed.

(* positional re-keying of a child entry to the parent's parameters *)
Definition rk (ppars cpars : list Z) (ep : list (Z * Z)) (c : list Z) : list Z :=
  map (fun q => match alookup q ep with Some cv => aget (combine cpars c) cv | None => 0 end) ppars.
Definition rekey (ppars cpars : list Z) (ep : list (Z * Z)) (tb : list (list Z * Z)) : list (list Z * Z) :=
  map (fun t => (hd 0 (fst t) :: rk ppars cpars ep (tl (fst t)), snd t)) tb.

Lemma aget_combine_map (ks : list Z) (h : Z -> Z) u :
  aget (combine ks (map h ks)) u = if in_dec Z.eq_dec u ks then h u else 0.
Proof.
  unfold aget. induction ks as [|k t IH]; simpl; auto.
  destruct (Z.eqb_spec k u) as [->|Hne].
  - destruct (Z.eq_dec u u); [reflexivity|congruence].
  - destruct (Z.eq_dec k u); [congruence|]. rewrite IH. destruct (in_dec Z.eq_dec u t); reflexivity.
Qed.

(* what a child must satisfy for the substitution to realise the re-keying *)
Record child_wf (ppars : list Z) (pars : Z -> list Z) (k : Z * list (Z * Z)) : Prop := {
  cw_keys : NoDup (map fst (snd k));                       (* a dict *)
  cw_dom : incl (map fst (snd k)) ppars;                   (* keys are parent parameters *)
  cw_ran : incl (map snd (snd k)) (pars (fst k));          (* values are child parameters *)
  cw_cover : forall cv, In cv (pars (fst k)) ->
             has_par (snd k) cv = true \/
             (forall t n c, In t (S (fst k)) -> fst t = n :: c -> aget (combine (pars (fst k)) c) cv = 0);
                                                           (* every child parameter is mapped to, or is 0 on
                                                              every object of the child (the variable then
                                                              stays free in the equation, harmlessly) *)
  cw_nodup : NoDup (pars (fst k));
  cw_x : ~ In 0 (pars (fst k));
  cw_tab : forall t, In t (S (fst k)) ->
           exists n c, fst t = n :: c /\ length c = length (pars (fst k))
}.

(* what the substituted argument list of a child denotes: a mapped child variable becomes the
   product of its parent variables, an unmapped one stays itself *)
Definition arg_ok (ep : list (Z * Z)) (m : mono) (cv : Z) : Prop :=
  if has_par ep cv then forall u, m u = par_count ep cv u else m = mvar cv.

Lemma child_args ppars pars k :
  child_wf ppars pars k ->
  exists ms, amonos (map (subs (union_subs (snd k))) (Var 0 :: map Var (pars (fst k)))) = Some (mvar 0 :: ms) /\
             Forall2 (arg_ok (snd k)) ms (pars (fst k)).
Proof.
  intros W. destruct k as [c ep]. simpl in *.
  pose proof (good_union_subs ep) as G.
  assert (alookup 0 (union_subs ep) = None) as E0.
  { pose proof (G 0) as G0. destruct (alookup 0 (union_subs ep)); auto.
    destruct G0 as [Hp _]. exfalso. apply (cw_x _ _ _ W). apply (cw_ran _ _ _ W). simpl.
    unfold has_par in Hp. apply existsb_exists in Hp. destruct Hp as [[q c'] [Hin Hc]]. simpl in Hc.
    apply Z.eqb_eq in Hc. subst. apply in_map_iff. exists (q, 0). auto. }
  assert (forall l, exists ms, amonos (map (subs (union_subs ep)) (map Var l)) = Some ms /\
                       Forall2 (arg_ok ep) ms l) as A.
  { induction l as [|cv t IH].
    - exists []. split; [reflexivity|constructor].
    - destruct IH as [ms [Hms HF]].
      pose proof (G cv) as Gcv. unfold arg_ok.
      simpl. destruct (alookup cv (union_subs ep)) as [e|].
      + destruct Gcv as [Hc [f [Hf Hfu]]]. exists (f :: ms). rewrite Hf, Hms. split; auto.
        constructor; auto. rewrite Hc. exact Hfu.
      + exists (mvar cv :: ms). simpl. rewrite Hms. split; auto.
        constructor; auto. rewrite Gcv. reflexivity. }
  destruct (A (pars c)) as [ms [Hms HF]].
  exists ms. split; auto. simpl. rewrite E0. simpl. simpl in Hms. rewrite Hms. reflexivity.
Qed.

(* replacing the argument monomials by the parent-count monomials changes nothing on an entry whose
   unmapped components are 0 *)
Lemma lincomb_args ep u : forall ps c ms,
  NoDup ps -> length c = length ps -> Forall2 (arg_ok ep) ms ps ->
  (forall cv, In cv ps -> has_par ep cv = false -> aget (combine ps c) cv = 0) ->
  lincomb c ms u = lincomb c (map (fun cv => (fun w => par_count ep cv w) : mono) ps) u.
Proof.
  intros ps c ms ND Hl HF. revert c ND Hl.
  induction HF as [|m cv ms' ps' Hm _ IH]; intros c ND Hl Hz.
  - destruct c; reflexivity.
  - destruct c as [|x c']; [discriminate|]. inversion ND as [|? ? Hnot ND']; subst.
    cbn [map]. rewrite !lincomb_cons. f_equal.
    + unfold arg_ok in Hm. destruct (has_par ep cv) eqn:Hc.
      * rewrite Hm. reflexivity.
      * assert (x = 0) as ->.
        { specialize (Hz cv (or_introl eq_refl) Hc). unfold aget in Hz. simpl in Hz.
          rewrite Z.eqb_refl in Hz. exact Hz. }
        lia.
    + apply IH; auto.
      intros cv' Hin Hc. specialize (Hz cv' (or_intror Hin) Hc). unfold aget in *. simpl in Hz.
      destruct (Z.eqb_spec cv cv'); [subst; contradiction|exact Hz].
Qed.

(* the key computation: substituting  child variable := product of its parent
   variables  turns the child's monomial into the monomial of the re-keyed entry *)
Lemma child_mono ppars pars k ms n c u :
  child_wf ppars pars k -> NoDup ppars -> ~ In 0 ppars ->
  Forall2 (arg_ok (snd k)) ms (pars (fst k)) ->
  length c = length (pars (fst k)) ->
  (forall cv, In cv (pars (fst k)) -> has_par (snd k) cv = false -> aget (combine (pars (fst k)) c) cv = 0) ->
  lincomb (n :: c) (mvar 0 :: ms) u = fm ppars (n :: rk ppars (pars (fst k)) (snd k) c) u.
Proof.
  intros W NDp H0p HF Hlen Hz. destruct k as [cl ep]. simpl in *.
  rewrite fm_value by auto. rewrite lincomb_cons.
  rewrite (lincomb_args ep u (pars cl) c ms (cw_nodup _ _ _ W) Hlen HF Hz), lincomb_map_ind.
  unfold rk. rewrite aget_combine_map.
  unfold mvar. destruct (Z.eqb_spec u 0) as [->|Hu0].
  - (* x: no parent variable is x *)
    rewrite psum_zero; [lia|]. intros [v cv] _. simpl.
    rewrite par_count_no_key; [lia|]. intros Hin. apply H0p. apply (cw_dom _ _ _ W). exact Hin.
  - rewrite Z.mul_0_r, Z.add_0_l.
    transitivity (psum (fun vk : Z * Z => fst vk *
                    match alookup u ep with Some c' => if c' =? snd vk then 1 else 0 | None => 0 end)
                    (combine c (pars cl))).
    { apply psum_ext. intros [v cv] _. simpl. rewrite (par_count_lookup ep cv u (cw_keys _ _ _ W)). reflexivity. }
    destruct (alookup u ep) as [c'|] eqn:El.
    + destruct (in_dec Z.eq_dec u ppars) as [Hin|Hnin].
      * rewrite <- (psum_select_nodup (pars cl) c c') by (apply (cw_nodup _ _ _ W)).
        apply psum_ext. intros [v cv] _. simpl. rewrite (Z.eqb_sym c' cv). destruct (cv =? c'); lia.
      * exfalso. apply Hnin. apply (cw_dom _ _ _ W). apply alookup_in in El.
        apply in_map_iff. exists (u, c'). auto.
    + rewrite psum_zero; [destruct (in_dec Z.eq_dec u ppars); reflexivity|].
      intros [v cv] _. simpl. lia.
Qed.

(* the series denoted by a child's (substituted) function *)
Lemma sem_child ppars pars k V :
  child_wf ppars pars k -> NoDup ppars -> ~ In 0 ppars ->
  exists P, sem S O (subs (union_subs (snd k)) (cfun pars (fst k))) = Some P /\
            peqv V P (cser ppars (rekey ppars (pars (fst k)) (snd k) (S (fst k)))).
Proof.
  intros W NDp H0p. destruct (child_args ppars pars k W) as [ms [Hms HF]].
  unfold cfun. cbn [subs]. cbn [sem]. rewrite Hms.
  eexists. split; [reflexivity|].
  intros m. unfold cser, rekey. rewrite map_map. cbn [fst snd].
  apply (pcoef_map_ext V
           (fun t => lincomb (fst t) (mvar 0 :: ms))
           (fun t => fm ppars (hd 0 (fst t) :: rk ppars (pars (fst k)) (snd k) (tl (fst t))))
           snd (S (fst k)) m).
  intros t Ht u _. destruct (cw_tab _ _ _ W t Ht) as [n [c [Et Hl]]]. rewrite Et. cbn [hd tl].
  apply child_mono; auto.
  intros cv Hin Hc. destruct (cw_cover _ _ _ W cv Hin) as [Hc'|Hz]; [congruence|].
  exact (Hz t n c Ht Et).
Qed.

(* ------------------------------------------------------------ the REPAIRED substitution (fix FIXHASH_EQ) *)
(* full_subs f ep = union_subs ep extended by  child name := 1  for every parameter of the child that no
   parent parameter is mapped to.  No cover condition is left: a dictionary that maps parameters of the
   parent to parameters of the child is enough. *)
Record child_wfd (ppars : list Z) (pars : Z -> list Z) (k : Z * list (Z * Z)) : Prop := {
  cd_keys : NoDup (map fst (snd k));                       (* a dict *)
  cd_dom : incl (map fst (snd k)) ppars;                   (* keys are parent parameters *)
  cd_ran : incl (map snd (snd k)) (pars (fst k));          (* values are child parameters *)
  cd_nodup : NoDup (pars (fst k));
  cd_x : ~ In 0 (pars (fst k));
  cd_tab : forall t, In t (S (fst k)) ->
           exists n c, fst t = n :: c /\ length c = length (pars (fst k))
}.

Lemma child_wf_wfd ppars pars k : child_wf ppars pars k -> child_wfd ppars pars k.
Proof. intros W. constructor; apply W. Qed.

Lemma fix_fold_keep cv e args : forall sg,
  alookup cv sg = Some e -> alookup cv (fold_left fix_step args sg) = Some e.
Proof.
  induction args as [|a t IH]; intros sg H; simpl; auto.
  apply IH. destruct a; simpl; auto.
  destruct (alookup v sg) eqn:E; auto.
  rewrite alookup_app, H. reflexivity.
Qed.

Lemma fix_fold_vars cv (l : list Z) : forall sg,
  alookup cv sg = None ->
  alookup cv (fold_left fix_step (map Var l) sg) = if in_dec Z.eq_dec cv l then Some (Const 1) else None.
Proof.
  induction l as [|v t IH]; intros sg H; simpl; auto.
  destruct (alookup v sg) eqn:E.
  - destruct (Z.eq_dec v cv) as [->|Hne]; [congruence|].
    rewrite IH by auto. destruct (in_dec Z.eq_dec cv t); reflexivity.
  - destruct (Z.eq_dec v cv) as [->|Hne].
    + rewrite (fix_fold_keep cv (Const 1)); [reflexivity|].
      rewrite alookup_app, H. simpl. rewrite Z.eqb_refl. reflexivity.
    + rewrite IH.
      * destruct (in_dec Z.eq_dec cv t); reflexivity.
      * rewrite alookup_app, H. simpl. destruct (Z.eqb_spec v cv); [congruence|reflexivity].
Qed.

Lemma full_subs_cfun pars c ep :
  full_subs (cfun pars c) ep = fold_left fix_step (map Var (pars c)) (union_subs ep).
Proof. reflexivity. Qed.

Lemma child_args_full ppars pars k :
  child_wfd ppars pars k ->
  exists ms, amonos (map (subs (full_subs (cfun pars (fst k)) (snd k))) (Var 0 :: map Var (pars (fst k)))) =
               Some (mvar 0 :: ms) /\
             Forall2 (fun (m : mono) cv => forall u, m u = par_count (snd k) cv u) ms (pars (fst k)).
Proof.
  intros W. destruct k as [c ep]. cbn [fst snd] in *. rewrite full_subs_cfun.
  pose proof (good_union_subs ep) as G.
  set (sg := fold_left fix_step (map Var (pars c)) (union_subs ep)).
  assert (alookup 0 (union_subs ep) = None) as E0.
  { pose proof (G 0) as G0. destruct (alookup 0 (union_subs ep)); auto.
    destruct G0 as [Hp _]. exfalso. apply (cd_x _ _ _ W). apply (cd_ran _ _ _ W). simpl.
    unfold has_par in Hp. apply existsb_exists in Hp. destruct Hp as [[q c'] [Hin Hc]]. simpl in Hc.
    apply Z.eqb_eq in Hc. subst. apply in_map_iff. exists (q, 0). auto. }
  assert (alookup 0 sg = None) as E0'.
  { unfold sg. rewrite fix_fold_vars by auto.
    destruct (in_dec Z.eq_dec 0 (pars c)) as [Hin|]; [|reflexivity]. exfalso. apply (cd_x _ _ _ W). exact Hin. }
  assert (forall l, incl l (pars c) ->
            exists ms, amonos (map (subs sg) (map Var l)) = Some ms /\
                       Forall2 (fun (m : mono) cv => forall u, m u = par_count ep cv u) ms l) as A.
  { induction l as [|cv t IH]; intros Hl.
    - exists []. split; [reflexivity|constructor].
    - destruct IH as [ms [Hms HF]]; [intros z Hz; apply Hl; right; auto|].
      pose proof (G cv) as Gcv. simpl.
      destruct (alookup cv (union_subs ep)) as [e|] eqn:Ecv.
      + destruct Gcv as [_ [f [Hf Hfu]]].
        unfold sg at 1. rewrite (fix_fold_keep cv e _ _ Ecv). fold sg. rewrite Hf, Hms.
        exists (f :: ms). split; auto.
      + unfold sg at 1. rewrite (fix_fold_vars cv (pars c) _ Ecv). fold sg.
        destruct (in_dec Z.eq_dec cv (pars c)) as [_|Hn]; [|exfalso; apply Hn, Hl; left; auto].
        simpl. rewrite Hms. exists (mzero :: ms). split; auto. constructor; auto.
        intros u. rewrite (par_count_no_par ep cv u Gcv). reflexivity. }
  destruct (A (pars c) (incl_refl _)) as [ms [Hms HF]].
  exists ms. split; auto. simpl. rewrite E0'. simpl. simpl in Hms. rewrite Hms. reflexivity.
Qed.

(* substituting  child variable := product of its parent variables (1 if it has none)  turns the child's
   monomial into the monomial of the re-keyed entry: unmapped components are summed out *)
Lemma child_mono_full ppars pars k ms n c u :
  child_wfd ppars pars k -> NoDup ppars -> ~ In 0 ppars ->
  Forall2 (fun (m : mono) cv => forall u, m u = par_count (snd k) cv u) ms (pars (fst k)) ->
  length c = length (pars (fst k)) ->
  lincomb (n :: c) (mvar 0 :: ms) u = fm ppars (n :: rk ppars (pars (fst k)) (snd k) c) u.
Proof.
  intros W NDp H0p HF Hlen. destruct k as [cl ep]. simpl in *.
  rewrite fm_value by auto. rewrite lincomb_cons.
  assert (lincomb c ms u = lincomb c (map (fun cv => (fun w => par_count ep cv w) : mono) (pars cl)) u) as E1.
  { apply lincomb_ext. clear Hlen. induction HF as [|m cv ms' l' Hm _ IH]; simpl; constructor; auto. }
  rewrite E1, lincomb_map_ind. clear E1.
  unfold rk. rewrite aget_combine_map.
  unfold mvar. destruct (Z.eqb_spec u 0) as [->|Hu0].
  - rewrite psum_zero; [lia|]. intros [v cv] _. simpl.
    rewrite par_count_no_key; [lia|]. intros Hin. apply H0p. apply (cd_dom _ _ _ W). exact Hin.
  - rewrite Z.mul_0_r, Z.add_0_l.
    transitivity (psum (fun vk : Z * Z => fst vk *
                    match alookup u ep with Some c' => if c' =? snd vk then 1 else 0 | None => 0 end)
                    (combine c (pars cl))).
    { apply psum_ext. intros [v cv] _. simpl. rewrite (par_count_lookup ep cv u (cd_keys _ _ _ W)). reflexivity. }
    destruct (alookup u ep) as [c'|] eqn:El.
    + destruct (in_dec Z.eq_dec u ppars) as [Hin|Hnin].
      * rewrite <- (psum_select_nodup (pars cl) c c') by (apply (cd_nodup _ _ _ W)).
        apply psum_ext. intros [v cv] _. simpl. rewrite (Z.eqb_sym c' cv). destruct (cv =? c'); lia.
      * exfalso. apply Hnin. apply (cd_dom _ _ _ W). apply alookup_in in El.
        apply in_map_iff. exists (u, c'). auto.
    + rewrite psum_zero; [destruct (in_dec Z.eq_dec u ppars); reflexivity|].
      intros [v cv] _. simpl. lia.
Qed.

(* the series denoted by a child's function under the repaired substitution *)
Lemma sem_child_full ppars pars k V :
  child_wfd ppars pars k -> NoDup ppars -> ~ In 0 ppars ->
  exists P, sem S O (subs (full_subs (cfun pars (fst k)) (snd k)) (cfun pars (fst k))) = Some P /\
            peqv V P (cser ppars (rekey ppars (pars (fst k)) (snd k) (S (fst k)))).
Proof.
  intros W NDp H0p. destruct (child_args_full ppars pars k W) as [ms [Hms HF]].
  unfold cfun at 2. cbn [subs]. cbn [sem]. rewrite Hms.
  eexists. split; [reflexivity|].
  intros m. unfold cser, rekey. rewrite map_map. cbn [fst snd].
  apply (pcoef_map_ext V
           (fun t => lincomb (fst t) (mvar 0 :: ms))
           (fun t => fm ppars (hd 0 (fst t) :: rk ppars (pars (fst k)) (snd k) (tl (fst t))))
           snd (S (fst k)) m).
  intros t Ht u _. destruct (cd_tab _ _ _ W t Ht) as [n [c [Et Hl]]]. rewrite Et. cbn [hd tl].
  apply child_mono_full; auto.
Qed.

End Subst.
