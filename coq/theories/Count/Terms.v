(* Term tables with Counter semantics, and finite sums — the vocabulary of C09.

   A term table (Python: Counter / Dict[Parameters, int]) is a list of
   (parameter tuple, value) entries; its MEANING is the function
   tget t p = sum of the values stored under p (a missing key counts 0), so
   `new_terms[key] += value` is just consing an entry.  Every statement of C09
   is about tget, i.e. about what `terms[p]` returns.                        *)
From Coq Require Import ZArith List Bool Lia Permutation.
Import ListNotations.
Open Scope Z_scope.

Definition params := list Z.
Definition entry := (params * Z)%type.
Definition terms := list entry.

Fixpoint params_eqb (a b : params) : bool :=
  match a, b with
  | [], [] => true
  | x :: a', y :: b' => (x =? y) && params_eqb a' b'
  | _, _ => false
  end.

Lemma params_eqb_eq a b : params_eqb a b = true <-> a = b.
Proof.
  revert b; induction a as [|x a IH]; intros [|y b]; simpl; split; intros H;
    try discriminate; try reflexivity.
  - apply andb_true_iff in H. destruct H as [H1 H2]. apply Z.eqb_eq in H1.
    apply IH in H2. subst. reflexivity.
  - inversion H; subst. apply andb_true_iff. split; [apply Z.eqb_refl|]. apply IH. reflexivity.
Qed.

Lemma params_eqb_refl a : params_eqb a a = true.
Proof. apply params_eqb_eq. reflexivity. Qed.

Lemma params_eqb_neq a b : params_eqb a b = false <-> a <> b.
Proof.
  split.
  - intros H E. apply params_eqb_eq in E. congruence.
  - intros H. destruct (params_eqb a b) eqn:E; [|reflexivity]. apply params_eqb_eq in E. contradiction.
Qed.

Lemma params_eq_dec (a b : params) : {a = b} + {a <> b}.
Proof. apply list_eq_dec. apply Z.eq_dec. Qed.

(* terms[p] *)
Fixpoint tget (t : terms) (p : params) : Z :=
  match t with
  | [] => 0
  | e :: r => (if params_eqb (fst e) p then snd e else 0) + tget r p
  end.

(* sum(terms.values()) *)
Fixpoint tsum (t : terms) : Z :=
  match t with
  | [] => 0
  | e :: r => snd e + tsum r
  end.

(* re-keying a table through a parameter map *)
Definition rekey (f : params -> params) (t : terms) : terms :=
  map (fun e : entry => (f (fst e), snd e)) t.

Definition allzero (t : terms) : Prop := forall k v, In (k, v) t -> v = 0.
Definition nonneg (t : terms) : Prop := forall k v, In (k, v) t -> 0 <= v.
Definition nokeys (t : terms) : Prop := forall k v, In (k, v) t -> k = [].

(* two tables mean the same *)
Definition teq (a b : terms) : Prop := forall p, tget a p = tget b p.

(* ---------------------------------------------------------------- finite sums *)
Fixpoint zsum {A} (f : A -> Z) (l : list A) : Z :=
  match l with
  | [] => 0
  | x :: r => f x + zsum f r
  end.

Lemma zsum_app {A} (f : A -> Z) a b : zsum f (a ++ b) = zsum f a + zsum f b.
Proof. induction a as [|x a IH]; simpl; lia. Qed.

Lemma zsum_ext {A} (f g : A -> Z) l : (forall x, In x l -> f x = g x) -> zsum f l = zsum g l.
Proof.
  induction l as [|x l IH]; intros H; simpl; [reflexivity|].
  rewrite (H x (or_introl eq_refl)), IH; [reflexivity|]. intros y Hy. apply H. right. exact Hy.
Qed.

Lemma zsum_zero {A} (f : A -> Z) l : (forall x, In x l -> f x = 0) -> zsum f l = 0.
Proof.
  induction l as [|x l IH]; intros H; simpl; [reflexivity|].
  rewrite (H x (or_introl eq_refl)), IH; [reflexivity|]. intros y Hy. apply H. right. exact Hy.
Qed.

Lemma zsum_nonneg {A} (f : A -> Z) l : (forall x, In x l -> 0 <= f x) -> 0 <= zsum f l.
Proof.
  induction l as [|x l IH]; intros H; simpl; [lia|].
  pose proof (H x (or_introl eq_refl)). assert (0 <= zsum f l) by (apply IH; intros y Hy; apply H; right; exact Hy). lia.
Qed.

Lemma zsum_plus {A} (f g : A -> Z) l : zsum (fun x => f x + g x) l = zsum f l + zsum g l.
Proof. induction l as [|x l IH]; simpl; lia. Qed.

Lemma zsum_minus {A} (f g : A -> Z) l : zsum (fun x => f x - g x) l = zsum f l - zsum g l.
Proof. induction l as [|x l IH]; simpl; lia. Qed.

Lemma zsum_scale {A} (f : A -> Z) c l : zsum (fun x => c * f x) l = c * zsum f l.
Proof. induction l as [|x l IH]; simpl; lia. Qed.

Lemma zsum_perm {A} (f : A -> Z) l l' : Permutation l l' -> zsum f l = zsum f l'.
Proof. induction 1; simpl; lia. Qed.

Lemma zsum_filter {A} (f : A -> Z) (P : A -> bool) l :
  zsum f (filter P l) = zsum (fun x => if P x then f x else 0) l.
Proof. induction l as [|x l IH]; simpl; [reflexivity|]. destruct (P x); simpl; lia. Qed.

Lemma zsum_map {A B} (f : B -> Z) (g : A -> B) l : zsum f (map g l) = zsum (fun x => f (g x)) l.
Proof. induction l as [|x l IH]; simpl; lia. Qed.

Lemma zsum_flat_map {A B} (f : B -> Z) (g : A -> list B) l :
  zsum f (flat_map g l) = zsum (fun x => zsum f (g x)) l.
Proof. induction l as [|x l IH]; simpl; [reflexivity|]. rewrite zsum_app. lia. Qed.

(* a sum over a duplicate-free list with a single possibly non-zero summand *)
Lemma zsum_single {A} (f : A -> Z) l x :
  NoDup l -> In x l -> (forall y, In y l -> y <> x -> f y = 0) -> zsum f l = f x.
Proof.
  induction 1 as [|y l Hy Hnd IH]; intros Hin Hz; [contradiction|]. simpl.
  destruct Hin as [->|Hin].
  - rewrite zsum_zero; [lia|]. intros z Hz'. apply Hz; [right; exact Hz'|]. intros ->. contradiction.
  - rewrite IH; [|exact Hin|intros z Hz' Hne; apply Hz; [right; exact Hz'|exact Hne]].
    rewrite (Hz y (or_introl eq_refl)); [lia|]. intros ->. contradiction.
Qed.

(* sub-list selected by a decidable predicate: both duplicate-free *)
Lemma zsum_sublist {A} (f : A -> Z) (P : A -> bool) l1 l2 :
  NoDup l1 -> NoDup l2 -> (forall x, In x l1 <-> (In x l2 /\ P x = true)) ->
  zsum f l1 = zsum (fun x => if P x then f x else 0) l2.
Proof.
  intros H1 H2 H. rewrite <- zsum_filter. apply zsum_perm.
  apply NoDup_Permutation; [exact H1|apply NoDup_filter; exact H2|].
  intros x. rewrite filter_In. apply H.
Qed.

(* ---------------------------------------------------------------- tget *)
Lemma tget_app a b p : tget (a ++ b) p = tget a p + tget b p.
Proof. induction a as [|e a IH]; simpl; lia. Qed.

Lemma tget_zsum t p : tget t p = zsum (fun e : entry => if params_eqb (fst e) p then snd e else 0) t.
Proof. induction t as [|e t IH]; simpl; lia. Qed.

Lemma tsum_zsum t : tsum t = zsum (fun e : entry => snd e) t.
Proof. induction t as [|e t IH]; simpl; lia. Qed.

Lemma tsum_app a b : tsum (a ++ b) = tsum a + tsum b.
Proof. induction a as [|e a IH]; simpl; lia. Qed.

Lemma tget_flat_map {A} (g : A -> terms) l p :
  tget (flat_map g l) p = zsum (fun x => tget (g x) p) l.
Proof. induction l as [|x l IH]; simpl; [reflexivity|]. rewrite tget_app. lia. Qed.

Lemma tsum_flat_map {A} (g : A -> terms) l :
  tsum (flat_map g l) = zsum (fun x => tsum (g x)) l.
Proof. induction l as [|x l IH]; simpl; [reflexivity|]. rewrite tsum_app. lia. Qed.

Lemma tget_allzero t p : allzero t -> tget t p = 0.
Proof.
  induction t as [|[k v] t IH]; intros H; simpl; [reflexivity|].
  rewrite IH; [|intros k' v' Hin; apply (H k' v'); right; exact Hin].
  rewrite (H k v (or_introl eq_refl)). destruct (params_eqb k p); reflexivity.
Qed.

Lemma tsum_allzero t : allzero t -> tsum t = 0.
Proof.
  induction t as [|[k v] t IH]; intros H; simpl; [reflexivity|].
  rewrite IH; [|intros k' v' Hin; apply (H k' v'); right; exact Hin].
  rewrite (H k v (or_introl eq_refl)). reflexivity.
Qed.

Lemma tget_nonneg t p : nonneg t -> 0 <= tget t p.
Proof.
  induction t as [|[k v] t IH]; intros H; simpl; [lia|].
  assert (0 <= tget t p) by (apply IH; intros k' v' Hin; apply (H k' v'); right; exact Hin).
  pose proof (H k v (or_introl eq_refl)). destruct (params_eqb k p); lia.
Qed.

Lemma tsum_nonneg t : nonneg t -> 0 <= tsum t.
Proof.
  induction t as [|[k v] t IH]; intros H; simpl; [lia|].
  assert (0 <= tsum t) by (apply IH; intros k' v' Hin; apply (H k' v'); right; exact Hin).
  pose proof (H k v (or_introl eq_refl)). lia.
Qed.

Lemma tget_nokeys t : nokeys t -> tget t [] = tsum t.
Proof.
  induction t as [|[k v] t IH]; intros H; simpl; [reflexivity|].
  rewrite IH; [|intros k' v' Hin; apply (H k' v'); right; exact Hin].
  rewrite (H k v (or_introl eq_refl)). reflexivity.
Qed.

Lemma tget_nokeys_other t p : nokeys t -> p <> [] -> tget t p = 0.
Proof.
  induction t as [|[k v] t IH]; intros H Hp; simpl; [reflexivity|].
  rewrite IH; [|intros k' v' Hin; apply (H k' v'); right; exact Hin|exact Hp].
  rewrite (H k v (or_introl eq_refl)).
  destruct p; [congruence|reflexivity].
Qed.

Lemma nonneg_app a b : nonneg a -> nonneg b -> nonneg (a ++ b).
Proof. intros Ha Hb k v Hin. apply in_app_or in Hin. destruct Hin; [eapply Ha|eapply Hb]; eauto. Qed.

Lemma allzero_nonneg t : allzero t -> nonneg t.
Proof. intros H k v Hin. rewrite (H k v Hin). lia. Qed.

Lemma rekey_app f a b : rekey f (a ++ b) = rekey f a ++ rekey f b.
Proof. apply map_app. Qed.

Lemma rekey_rekey f g t : rekey f (rekey g t) = rekey (fun k => f (g k)) t.
Proof. unfold rekey. rewrite map_map. reflexivity. Qed.

Lemma rekey_ext_in f g t : (forall k v, In (k, v) t -> f k = g k) -> rekey f t = rekey g t.
Proof.
  intros H. unfold rekey. apply map_ext_in. intros [k v] Hin. simpl. rewrite (H k v Hin). reflexivity.
Qed.

Lemma rekey_id_in f t : (forall k v, In (k, v) t -> f k = k) -> rekey f t = t.
Proof.
  intros H. unfold rekey. rewrite <- (map_id t) at 2. apply map_ext_in. intros [k v] Hin. simpl.
  rewrite (H k v Hin). reflexivity.
Qed.

Lemma nonneg_rekey f t : nonneg t -> nonneg (rekey f t).
Proof.
  intros H k v Hin. unfold rekey in Hin. apply in_map_iff in Hin. destruct Hin as ([k' v'] & E & Hin).
  simpl in E. inversion E; subst. eapply H; eauto.
Qed.

Lemma tsum_rekey f t : tsum (rekey f t) = tsum t.
Proof. induction t as [|e t IH]; simpl; lia. Qed.

(* terms[q] after re-keying, as a sum over any duplicate-free key list covering the table *)
Lemma zsum_indicator (K : list params) k c :
  NoDup K -> In k K -> zsum (fun x => if params_eqb k x then c else 0) K = c.
Proof.
  intros Hnd Hin.
  rewrite (zsum_single (fun x => if params_eqb k x then c else 0) K k Hnd Hin).
  - rewrite params_eqb_refl. reflexivity.
  - intros y _ Hne. destruct (params_eqb k y) eqn:E; [|reflexivity].
    apply params_eqb_eq in E. congruence.
Qed.

Lemma tget_rekey_keys f t q (K : list params) :
  NoDup K -> (forall k v, In (k, v) t -> In k K) ->
  tget (rekey f t) q = zsum (fun k => if params_eqb (f k) q then tget t k else 0) K.
Proof.
  intros Hnd. induction t as [|[k v] t IH]; intros Hcov.
  - simpl. rewrite zsum_zero; [reflexivity|]. intros x _. destruct (params_eqb (f x) q); reflexivity.
  - simpl. rewrite IH; [|intros k' v' Hin; apply (Hcov k' v'); right; exact Hin].
    assert (HkK : In k K) by (apply (Hcov k v); left; reflexivity).
    transitivity (zsum (fun x => (if params_eqb k x then (if params_eqb (f k) q then v else 0) else 0)
                               + (if params_eqb (f x) q then tget t x else 0)) K).
    + rewrite zsum_plus. rewrite zsum_indicator; [reflexivity|exact Hnd|exact HkK].
    + apply zsum_ext. intros x _.
      destruct (params_eqb k x) eqn:E.
      * apply params_eqb_eq in E. subst x. destruct (params_eqb (f k) q); lia.
      * destruct (params_eqb (f x) q); lia.
Qed.

(* re-keying respects the meaning of tables *)
Lemma tget_rekey_ext f a b : teq a b -> teq (rekey f a) (rekey f b).
Proof.
  intros H q.
  set (K := nodup params_eq_dec (map fst a ++ map fst b)).
  assert (Hnd : NoDup K) by apply NoDup_nodup.
  assert (Ha : forall k v, In (k, v) a -> In k K).
  { intros k v Hin. apply nodup_In. apply in_or_app. left. apply in_map_iff. exists (k, v). auto. }
  assert (Hb : forall k v, In (k, v) b -> In k K).
  { intros k v Hin. apply nodup_In. apply in_or_app. right. apply in_map_iff. exists (k, v). auto. }
  rewrite (tget_rekey_keys f a q K Hnd Ha), (tget_rekey_keys f b q K Hnd Hb).
  apply zsum_ext. intros k _. rewrite (H k). reflexivity.
Qed.

Lemma teq_refl a : teq a a. Proof. intros p. reflexivity. Qed.
Lemma teq_sym a b : teq a b -> teq b a. Proof. intros H p. symmetry. apply H. Qed.
Lemma teq_trans a b c : teq a b -> teq b c -> teq a c.
Proof. intros H1 H2 p. rewrite H1. apply H2. Qed.
Lemma teq_app a a' b b' : teq a a' -> teq b b' -> teq (a ++ b) (a' ++ b').
Proof. intros H1 H2 p. rewrite !tget_app, H1, H2. reflexivity. Qed.

(* dropping zero-valued entries does not change the meaning *)
Lemma tget_filter_nonzero t p :
  tget (filter (fun e : entry => negb (snd e =? 0)) t) p = tget t p.
Proof.
  induction t as [|[k v] t IH]; simpl; [reflexivity|].
  destruct (v =? 0) eqn:E; simpl; rewrite IH.
  - apply Z.eqb_eq in E. subst. destruct (params_eqb k p); reflexivity.
  - reflexivity.
Qed.
