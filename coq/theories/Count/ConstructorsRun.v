(* sx interface of the C09 model.

   (form idx N pnames kids ptabs ktabs)        form 0 union rule, 1 product rule,
        2 reverse of the union w.r.t. idx (Complement), 3 reverse of the product (Quotient),
        4 equivalence rule of the union, 5 equivalence rule of the reverse (w.r.t. idx) of the union,
        7 equivalence rule of the product (one factor: fix 25e10f1), 8 equivalence rule of the reverse of the product
     pnames = extra_parameters of the ORIGINAL rule's parent (names are integers)
     kids   = ((names dict min_size is_atom is_empty) ...), dict = ((parent_var child_var) ...)
     ptabs  = (table_0 table_1 ...) true terms of the original parent by size,
     ktabs  = one such list per original child; table = ((params value) ...) in iteration order
   (6 0 N steps tabs)    EquivalencePathRule: steps = ((kind pnames kids idx) ...) original
                         rules of the chain (kind 0 union, 1 reverse of a union, 2 RAW one-factor
                         product rule, 3 its RAW reverse), tabs = true terms of the last class
   answer: ((canonical table of level 0, 1, ...) error) — levels computed before the
   first exception, error = () or the exception code                                    *)
From Coq Require Import ZArith List Bool.
From CSS Require Import Base.Sx Gen.Prelude Count.Terms Count.Constructors.
Import ListNotations.
Open Scope Z_scope.

Definition dec_entry (s : sx) : entry := (sx_Zs (sx_nth s 0), sx_Z (sx_nth s 1)).
Definition dec_table (s : sx) : terms := map dec_entry (sx_list s).
Definition dec_tables (s : sx) : list terms := map dec_table (sx_list s).
Definition dec_dict (s : sx) : dict := map (fun e => (sx_Z (sx_nth e 0), sx_Z (sx_nth e 1))) (sx_list s).
Definition dec_kid (s : sx) : kid :=
  mkKid (sx_Zs (sx_nth s 0)) (dec_dict (sx_nth s 1)) (sx_Z (sx_nth s 2))
        (sx_bool (sx_nth s 3)) (sx_bool (sx_nth s 4)).
Definition dec_kids (s : sx) : list kid := map dec_kid (sx_list s).
Definition dec_step (s : sx) : step_desc :=
  (sx_bool (sx_nth s 0), sx_Zs (sx_nth s 1), dec_kids (sx_nth s 2), sx_nat (sx_nth s 3)).
(* typed steps (fix 25e10f1): the first field is the kind 0..3 *)
Definition dec_kstep (s : sx) : kstep :=
  (sx_Z (sx_nth s 0), sx_Zs (sx_nth s 1), dec_kids (sx_nth s 2), sx_nat (sx_nth s 3)).

Definition enc_table (t : terms) : sx :=
  L (map (fun e : entry => L [of_Zs (fst e); I (snd e)]) (tnorm t)).

Definition enc_levels (r : list terms * option Z) : sx :=
  L [L (map enc_table (fst r)); of_optZ (snd r)].

Definition run_c09 (inp : sx) : sx :=
  let form := sx_Z (sx_nth inp 0) in
  let idx := sx_nat (sx_nth inp 1) in
  let N := sx_Z (sx_nth inp 2) in
  if form =? 6 then
    enc_levels (levels (path_step_k (map dec_kstep (sx_list (sx_nth inp 3))) (dec_tables (sx_nth inp 4))) N)
  else
    let pnames := sx_Zs (sx_nth inp 3) in
    let kids := dec_kids (sx_nth inp 4) in
    let ptabs := dec_tables (sx_nth inp 5) in
    let ktabs := map dec_tables (sx_list (sx_nth inp 6)) in
    let step :=
      match form with
      | 0 => union_step pnames kids ktabs
      | 1 => product_step pnames kids ktabs
      | 2 => complement_step pnames kids idx ptabs ktabs
      | 3 => quotient_step pnames kids idx ptabs ktabs
      | 4 => equiv_union_step pnames kids ktabs
      | 7 => equiv_product_step pnames kids ktabs
      | 8 => equiv_quotient_step
      | _ => equiv_complement_step pnames kids idx ptabs
      end in
    enc_levels (levels step N).
