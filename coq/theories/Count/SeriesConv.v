(* C20 — univariate series: coefficients of products as explicit convolutions,
   and pruning of the convolution by minimum sizes (what the declared shifts of a
   product rule promise).                                                      *)
From Coq Require Import ZArith List Bool Lia.
From CSS Require Import Count.Series.
Import ListNotations.
Open Scope Z_scope.

Definition xmono (n : Z) : mono := fun u => if u =? 0 then n else 0.
(* the polynomial  sum_{lo <= m < hi} f(m) x^m *)
Definition utab (f : Z -> Z) (lo hi : Z) : poly := map (fun m => (xmono m, f m)) (zrange lo hi).
Definition zsum (lo hi : Z) (g : Z -> Z) : Z := psum g (zrange lo hi).

Lemma zsum_ext lo hi g g' : (forall m, lo <= m < hi -> g m = g' m) -> zsum lo hi g = zsum lo hi g'.
Proof. intros H. apply psum_ext. intros m Hm. apply H, in_zrange, Hm. Qed.

Lemma zsum_zero lo hi g : (forall m, lo <= m < hi -> g m = 0) -> zsum lo hi g = 0.
Proof. intros H. apply psum_zero. intros m Hm. apply H, in_zrange, Hm. Qed.

Lemma zsum_split lo cut hi g : lo <= cut <= hi -> zsum lo hi g = zsum lo cut g + zsum cut hi g.
Proof. intros H. unfold zsum. rewrite (zrange_split lo cut hi H). apply psum_app. Qed.

Lemma zsum_empty lo hi g : hi <= lo -> zsum lo hi g = 0.
Proof. intros H. apply zsum_zero. intros; lia. Qed.

(* two ranges give the same sum when the summand vanishes outside their intersection *)
Lemma zsum_restrict lo hi lo' hi' g :
  (forall m, lo <= m < hi -> ~ (lo' <= m < hi') -> g m = 0) ->
  (forall m, lo' <= m < hi' -> ~ (lo <= m < hi) -> g m = 0) ->
  zsum lo hi g = zsum lo' hi' g.
Proof.
  intros H1 H2.
  set (h := fun m => if (lo <=? m) && (m <? hi) && ((lo' <=? m) && (m <? hi')) then g m else 0).
  assert (zsum lo hi g = zsum lo hi h) as E1.
  { apply zsum_ext. intros m Hm. unfold h.
    destruct (lo <=? m) eqn:A; [|lia]. destruct (m <? hi) eqn:B; [|lia]. simpl.
    destruct ((lo' <=? m) && (m <? hi')) eqn:C; auto. apply H1; auto. intros [X Y].
    apply andb_false_iff in C. destruct C as [C|C]; lia. }
  assert (zsum lo' hi' g = zsum lo' hi' h) as E2.
  { apply zsum_ext. intros m Hm. unfold h.
    destruct (lo' <=? m) eqn:A; [|lia]. destruct (m <? hi') eqn:B; [|lia]. simpl.
    rewrite andb_true_r. destruct ((lo <=? m) && (m <? hi)) eqn:C; auto. apply H2; auto. intros [X Y].
    apply andb_false_iff in C. destruct C as [C|C]; lia. }
  rewrite E1, E2.
  (* both are the sum of h over [min lo lo', max hi hi') *)
  set (a := Z.min lo lo'). set (b := Z.max (Z.max hi hi') a).
  assert (forall x y, a <= x -> x <= y -> y <= b ->
            (forall m, a <= m < b -> ~ (x <= m < y) -> h m = 0) -> zsum x y h = zsum a b h) as K.
  { intros x y Hx Hxy Hy Hz.
    rewrite (zsum_split a x b h) by lia. rewrite (zsum_split x y b h) by lia.
    rewrite (zsum_zero a x), (zsum_zero y b); [lia| |]; intros m Hm; apply Hz; lia. }
  destruct (Z_lt_le_dec lo hi) as [L1|L1]; destruct (Z_lt_le_dec lo' hi') as [L2|L2].
  - rewrite (K lo hi), (K lo' hi'); auto; try (unfold a, b; lia);
      intros m Hm Hn; unfold h;
      destruct (lo <=? m) eqn:A; destruct (m <? hi) eqn:B; destruct (lo' <=? m) eqn:C; destruct (m <? hi') eqn:D;
      simpl; auto; lia.
  - rewrite (zsum_empty lo' hi') by lia. apply zsum_zero. intros m Hm. unfold h.
    destruct (lo' <=? m) eqn:C; destruct (m <? hi') eqn:D; try lia; rewrite ?andb_false_r; auto.
  - rewrite (zsum_empty lo hi) by lia. symmetry. apply zsum_zero. intros m Hm. unfold h.
    destruct (lo <=? m) eqn:C; destruct (m <? hi) eqn:D; try lia; auto.
  - rewrite !zsum_empty by lia. reflexivity.
Qed.

(* the coefficient of x^n in a product of finitely many tabulated factors *)
Fixpoint conv (fs : list (Z -> Z)) (rs : list (Z * Z)) (n : Z) : Z :=
  match fs, rs with
  | [], _ => if n =? 0 then 1 else 0
  | f :: fs', (lo, hi) :: rs' => zsum lo hi (fun m => f m * conv fs' rs' (n - m))
  | _ :: _, [] => 0
  end.

Fixpoint utabs (fs : list (Z -> Z)) (rs : list (Z * Z)) : list poly :=
  match fs, rs with
  | f :: fs', (lo, hi) :: rs' => utab f lo hi :: utabs fs' rs'
  | _, _ => []
  end.

Lemma conv_pcoef fs : forall rs n, length rs = length fs ->
  pcoef [0] (prod_right (utabs fs rs)) (xmono n) = conv fs rs n.
Proof.
  induction fs as [|f fs IH]; intros rs n Hl.
  - destruct rs; [|discriminate]. cbn [utabs prod_right fold_right conv].
    unfold pcoef, pone, pconst, meqb, mzero, xmono. cbn [psum fst snd forallb].
    change (0 =? 0) with true. cbn iota. rewrite (Z.eqb_sym 0 n). destruct (n =? 0); reflexivity.
  - destruct rs as [|[lo hi] rs]; [discriminate|]. simpl in Hl.
    cbn [utabs prod_right fold_right conv]. rewrite pcoef_pmul_K.
    unfold utab, zsum. rewrite psum_map. apply psum_ext. intros m _. cbn [fst snd].
    f_equal. rewrite <- (IH rs (n - m)) by lia.
    apply pcoef_target_ext. intros u [<-|[]]. unfold msub, xmono. simpl. reflexivity.
Qed.

(* every contributing tuple has sizes at least the lower ends: nothing below their sum *)
Lemma conv_below fs : forall rs n, length rs = length fs ->
  n < fold_right Z.add 0 (map fst rs) -> conv fs rs n = 0.
Proof.
  induction fs as [|f fs IH]; intros rs n Hl Hn.
  - destruct rs; [|discriminate]. simpl in *. destruct (Z.eqb_spec n 0); [lia|reflexivity].
  - destruct rs as [|[lo hi] rs]; [discriminate|]. simpl in *.
    apply zsum_zero. intros m Hm. rewrite IH; [lia|lia|lia].
Qed.

(* the factors may be changed where they are not read *)
Lemma conv_ext fs fs' : forall rs n,
  Forall2 (fun ff r => forall m, fst r <= m < snd r -> fst ff m = snd ff m) (combine fs fs') rs ->
  length fs = length fs' ->
  conv fs rs n = conv fs' rs n.
Proof.
  revert fs'. induction fs as [|f fs IH]; intros fs' rs n HF Hl.
  - destruct fs'; [reflexivity|discriminate].
  - destruct fs' as [|f' fs']; [discriminate|]. simpl in HF.
    inversion HF as [|ff r l l' H1 H2]; subst. destruct r as [lo hi]. simpl in *.
    apply zsum_ext. intros m Hm. rewrite (H1 m Hm). f_equal. apply IH; auto.
Qed.

(* lower ends may be raised to the minimum sizes, upper ends lowered to
   n - (sum of the OTHER minimum sizes), without changing the coefficient of x^n *)
Lemma conv_prune fs : forall rs rs' n,
  length rs = length fs -> length rs' = length fs ->
  map fst rs' = map fst rs ->
  (let L := fold_right Z.add 0 (map fst rs) in
   Forall (fun r => n - (L - fst r) + 1 <= snd r) rs /\ Forall (fun r => n - (L - fst r) + 1 <= snd r) rs') ->
  conv fs rs n = conv fs rs' n.
Proof.
  induction fs as [|f fs IH]; intros rs rs' n Hl Hl' Hlo [Hu Hu'].
  - destruct rs, rs'; try discriminate. reflexivity.
  - destruct rs as [|[lo hi] rs]; [discriminate|]. destruct rs' as [|[lo' hi'] rs']; [discriminate|].
    simpl in Hlo. injection Hlo as Elo Hlo. subst lo'. simpl in *.
    inversion Hu as [|? ? Hh Hu1]; subst. inversion Hu' as [|? ? Hh' Hu1']; subst. simpl in *.
    set (L' := fold_right Z.add 0 (map fst rs)) in *.
    assert (forall m, n - L' < m -> conv fs rs (n - m) = 0) as Z1.
    { intros m Hm. apply conv_below; [lia|]. fold L'. lia. }
    assert (forall m, n - L' < m -> conv fs rs' (n - m) = 0) as Z2.
    { intros m Hm. apply conv_below; [lia|]. rewrite Hlo. fold L'. lia. }
    transitivity (zsum lo hi (fun m => f m * conv fs rs' (n - m))).
    + apply zsum_ext. intros m Hm. destruct (Z_lt_le_dec (n - L') m) as [Hb|Hb].
      * rewrite Z1, Z2 by lia. reflexivity.
      * f_equal. apply IH; try lia; auto. cbv zeta. fold L'. split.
        -- eapply Forall_impl; [|exact Hu1]. intros r Hr. simpl in *. lia.
        -- eapply Forall_impl; [|exact Hu1']. intros r Hr. simpl in *. lia.
    + apply zsum_restrict; intros m Hm Hn; rewrite Z2; lia.
Qed.

(* raising the lower ends where the factors vanish *)
Lemma conv_raise fs : forall rs rs' n,
  length rs = length fs -> length rs' = length fs -> map snd rs' = map snd rs ->
  Forall2 (fun f rr => fst (fst rr) <= fst (snd rr) /\ forall m, fst (fst rr) <= m < fst (snd rr) -> f m = 0)
          fs (combine rs rs') ->
  conv fs rs n = conv fs rs' n.
Proof.
  induction fs as [|f fs IH]; intros rs rs' n Hl Hl' Hhi HF.
  - destruct rs, rs'; try discriminate. reflexivity.
  - destruct rs as [|[lo hi] rs]; [discriminate|]. destruct rs' as [|[lo' hi'] rs']; [discriminate|].
    simpl in Hhi. injection Hhi as Ehi Hhi. subst hi'. simpl in HF.
    inversion HF as [|? ? ? ? [H1 H2] H3]; subst. simpl in *.
    transitivity (zsum lo hi (fun m => f m * conv fs rs' (n - m))).
    + apply zsum_ext. intros m _. f_equal. apply IH; auto; lia.
    + apply zsum_restrict; intros m Hm Hn; rewrite H2; lia.
Qed.

Lemma coef_utab f lo hi n : lo <= n < hi -> pcoef [0] (utab f lo hi) (xmono n) = f n.
Proof.
  intros Hn. unfold pcoef, utab. rewrite psum_map. cbn [fst snd].
  rewrite (psum_single _ (zrange lo hi) n).
  - rewrite meqb_refl. reflexivity.
  - apply zrange_nodup.
  - apply in_zrange. exact Hn.
  - intros m _ Hne. destruct (meqb [0] (xmono m) (xmono n)) eqn:E; auto.
    rewrite meqb_true in E. specialize (E 0 (or_introl eq_refl)). unfold xmono in E. simpl in E. congruence.
Qed.
