(* Deciders for the two hypotheses of the end-to-end C07 theorems that are decidable on the finite data the
   harness sends (definitions only; the soundness proofs are in Count/ParseTreesDecidersProofs.v).

   The specification is a LIST of rules, class label c = position c (what Count/ObjectsRun.v spec_of builds from the
   descriptors): lspec rules c = nth_error rules c.

     rankb rules     the productivity certificate `rank` of C07_generate_exact / C07_generate_perm /
                     C07_objects_are_parse_trees EXISTS, for ALL sizes n (not only up to the size bound of a case).
                     Criterion (sufficient, not necessary): every product rule has as many minimum and maximum sizes
                     as children and minima >= 0, and the SAME-SIZE class graph
                        c -> k   for k a child of a union rule of c
                        c -> k   for k a child of a product rule of c whose OTHER children's minima add up to 0
                     is acyclic.  A child of a product whose siblings' minima add up to >= 1 is only ever read at a
                     strictly smaller size (utils.compositions keeps every part >= its minimum and the parts add up
                     to n), so the certificate is  rank c n = n * (L+1) + pos c  with pos a topological numbering of
                     the same-size graph, pos <= L = number of rules.
                     pos is COMPUTED (L+1 rounds of longest-path relaxation, find_pos) and then CHECKED (check_pos):
                     soundness only depends on the check.
                     Conservative where a maximum size forbids a read that the minima allow (then the verdict may be
                     false although the actual reads are acyclic).
     closedb rules   every child label of every union / product rule is a position of the list. *)
From Coq Require Import ZArith List Bool Arith.
From CSS Require Import Base.PyList Gen.Prelude Count.ObjectsModel.
Import ListNotations.
Open Scope Z_scope.

Section Deciders.
Context {obj : Type}.

Definition lspec (rules : list (rule obj)) (c : nat) : option (rule obj) := nth_error rules c.

(* a child with minimum mn of a product with minima mins is read at sizes <= n - (sum mins - mn) *)
Definition strict_kid (mins : list Z) (mn : Z) : bool := 1 <=? py_sum mins - mn.

Definition same_size_kids (r : rule obj) : list nat :=
  match r with
  | RUnion kids _ _ => kids
  | RProduct kids mins _ _ _ =>
      map fst (filter (fun km : nat * Z => negb (strict_kid mins (snd km))) (combine kids mins))
  | RVerified _ => []
  end.

Definition shape_okb (r : rule obj) : bool :=
  match r with
  | RProduct kids mins maxs _ _ =>
      Nat.eqb (length mins) (length kids) && Nat.eqb (length maxs) (length kids) &&
      forallb (fun m => 0 <=? m) mins
  | _ => true
  end.

Definition pos_of (pos : list nat) (c : nat) : nat := nth c pos 0%nat.

Definition node_rankb (pos : list nat) (c : nat) (r : rule obj) : bool :=
  shape_okb r && forallb (fun k => Nat.ltb (pos_of pos k) (pos_of pos c)) (same_size_kids r).

Definition check_pos (rules : list (rule obj)) (pos : list nat) : bool :=
  forallb (fun p => Nat.leb p (length rules)) pos &&
  forallb (fun cr : nat * rule obj => node_rankb pos (fst cr) (snd cr)) (combine (seq 0 (length rules)) rules).

(* longest-path relaxation on the same-size graph *)
Definition step_pos (rules : list (rule obj)) (pos : list nat) : list nat :=
  map (fun r => match same_size_kids r with
                | [] => 0%nat
                | ks => S (fold_right Nat.max 0%nat (map (pos_of pos) ks))
                end) rules.

Definition find_pos (rules : list (rule obj)) : list nat :=
  Nat.iter (S (length rules)) (step_pos rules) (map (fun _ => 0%nat) rules).

Definition rankb (rules : list (rule obj)) : bool := check_pos rules (find_pos rules).

(* the certificate itself *)
Definition rank_of (rules : list (rule obj)) (pos : list nat) (c : nat) (n : Z) : nat :=
  (Z.to_nat n * S (length rules) + pos_of pos c)%nat.

Definition kids_of (r : rule obj) : list nat :=
  match r with
  | RUnion kids _ _ => kids
  | RProduct kids _ _ _ _ => kids
  | RVerified _ => []
  end.

Definition closedb (rules : list (rule obj)) : bool :=
  forallb (fun r => forallb (fun k => Nat.ltb k (length rules)) (kids_of r)) rules.

End Deciders.
