(* Objects <-> parse trees: the shared development of C07 / C08 / C12.  DEFINITIONS ONLY (no proofs):
   the proofs are in Count/ParseTreesProofs.v (the bijection), ParseTreesForms.v (derived rule forms),
   ParseTreesSample.v (C08) and Iso/ParseTreesIso.v (C12).

   Vocabulary.  A specification is C07's  spec : nat -> option (rule obj)  (Count/ObjectsModel.v: a
   union rule with the children's parameter maps and the backward map, a product rule with its size
   bounds, a verification rule).  Two more pieces of data are needed to TALK about parse trees:
     atom c   the single object of class c when the rule of c is a verification rule of an atom
              (AtomStrategy); None for every other class (EmptyStrategy: no object at all);
     fwd c    Rule.forward_map of the rule of class c.
   Parse trees are those of the samplers' model (Count/SampleModel.v: Leaf c / UNode c i t / PNode c ts):
     Leaf c         the object of the atom c
     UNode c i t    the object of the union (equivalence, path) rule of c whose forward image is
                    (None, .., y, .., None) with y, the object of t, at position i
     PNode c ts     the object of the product rule of c whose forward image is the objects of ts.

   unparse t   the object a tree stands for: Leaf -> the atom; inner node -> backward_map of the tuple of
               the children's objects, REQUIRED to yield exactly one object (None otherwise).  This is the
               composition of backward maps Rule.random_sample_object_of_size performs bottom-up
               (objs = tuple(self.backward_map(subobjs)); random.choice(objs)) and ParseTreeMap.map_rec
               performs (next(rule2.indexed_backward_map(..))).
   parse f c o the tree of an object, top-down through forward_map (fuel f bounds the depth): what
               ParseTreeMap.map_rec reads off an object (rule1.indexed_forward_map) and what
               harness/props/c12.py Desc.tree computes on real objects. *)
From Coq Require Import ZArith List Bool.
From CSS Require Import Base.PyList Gen.Prelude Count.ObjectsModel Count.SampleModel.
Import ListNotations.
Open Scope Z_scope.

Section Lists.
Context {A B : Type}.
(* [f x for x in l], None as soon as one is None *)
Fixpoint omap (f : A -> option B) (l : list A) : option (list B) :=
  match l with
  | [] => Some []
  | x :: r => match f x, omap f r with
              | Some y, Some ys => Some (y :: ys)
              | _, _ => None
              end
  end.
End Lists.

Section PT.
Context {obj : Type}.

(* the tuple holds exactly one object *)
Definition only (l : list obj) : option obj := match l with [o] => Some o | _ => None end.

(* position and value of the first part that is not None *)
Fixpoint first_some (t : subobj obj) (i : nat) : option (nat * obj) :=
  match t with
  | [] => None
  | Some y :: _ => Some (i, y)
  | None :: r => first_some r (S i)
  end.

(* all parts, when none is None *)
Definition all_some (t : subobj obj) : option (list obj) := omap (fun x => x) t.

Variable spec : nat -> option (rule obj).
Variable atom : nat -> option obj.
Variable fwd : nat -> obj -> subobj obj.

Fixpoint unparse (t : tree) : option obj :=
  match t with
  | Leaf c => match spec c with Some (RVerified _) => atom c | _ => None end
  | UNode c i t' =>
      match spec c with
      | Some (RUnion kids _ bwd) =>
          match unparse t' with
          | Some y => only (bwd (slot (length kids) i y))
          | None => None
          end
      | _ => None
      end
  | PNode c ts =>
      match spec c with
      | Some (RProduct _ _ _ _ bwd) =>
          match (fix go (l : list tree) : option (list obj) :=
                   match l with
                   | [] => Some []
                   | x :: r => match unparse x, go r with
                               | Some y, Some ys => Some (y :: ys)
                               | _, _ => None
                               end
                   end) ts with
          | Some ys => only (bwd (map Some ys))
          | None => None
          end
      | _ => None
      end
  end.

Fixpoint parse (fuel : nat) (c : nat) (o : obj) {struct fuel} : option tree :=
  match fuel with
  | O => None
  | S f =>
      match spec c with
      | Some (RVerified _) => match atom c with Some _ => Some (Leaf c) | None => None end
      | Some (RUnion kids _ _) =>
          match first_some (fwd c o) 0 with
          | Some (i, y) =>
              match nth_error kids i with
              | Some ci => match parse f ci y with Some t => Some (UNode c i t) | None => None end
              | None => None
              end
          | None => None
          end
      | Some (RProduct kids _ _ _ _) =>
          match all_some (fwd c o) with
          | Some ys =>
              if negb (Nat.eqb (length ys) (length kids)) then None
              else match omap (fun ky : nat * obj => parse f (fst ky) (snd ky)) (combine kids ys) with
                   | Some ts => Some (PNode c ts)
                   | None => None
                   end
          | None => None
          end
      | None => None
      end
  end.

(* ---------------------------------------------------------------- the samplers on OBJECTS *)
(* random.choice(objs) on a tuple: one draw of an index.  (choice1 of Count/SampleModel.v is the case of a
   tuple known to hold one element.) *)
Definition choice (l : list obj) : rc obj :=
  Draw 0 (zlen l - 1) (fun i => match nth_error l (Z.to_nat i) with
                                | Some o => if i <? 0 then Fail E_INDEX else Ret o
                                | None => Fail E_INDEX
                                end).

(* <AbstractRule>.random_sample_object_of_size(n) of Count/SampleModel.v (sample), with the sub-samplers
   returning objects and the backward maps applied on the way up, exactly as rule.py:531-543 does *)
Section OSample.
  Variable rule_of : nat -> cls.
  Variable cnt : nat -> Z -> Z.

  Definition bwd_of (c : nat) (t : subobj obj) : list obj :=
    match spec c with
    | Some (RUnion _ _ b) => b t
    | Some (RProduct _ _ _ _ b) => b t
    | _ => []
    end.

  Fixpoint osample (fuel : nat) (c : nat) (n : Z) : rc obj :=
    match fuel with
    | O => Fail E_FUEL
    | S f =>
        let k := rule_of c in
        if c_kind k =? K_ATOM then
          if n =? c_min k then (match atom c with Some a => Ret a | None => Fail E_NOT_APPLY end) else Fail E_VALUE
        else if c_kind k =? K_EMPTY then Fail E_NOT_APPLY
        else if c_kind k =? K_UNION then
          Draw 1 (cnt c n) (fun r =>
            match walk (spec_union_weight cnt n) r 0 0%nat (c_kids k) with
            | Err e => Fail e
            | Ok (i, ci) =>
                bind (osample f ci n) (fun y => choice (bwd_of c (slot (length (c_kids k)) i y)))
            end)
        else if c_kind k =? K_PRODUCT then
          Draw 1 (cnt c n) (fun r =>
            match walk (spec_prod_weight cnt (c_kids k)) r 0 0%nat (spec_comps rule_of c n) with
            | Err e => Fail e
            | Ok (_, comp) =>
                bind (mapM (fun p : nat * Z => osample f (fst p) (snd p)) (combine (c_kids k) (comp_sizes comp)))
                     (fun ys => choice (bwd_of c (map Some ys)))
            end)
        else Fail E_NOT_APPLY
    end.

  (* CombinatorialSpecification.random_sample_object_of_size(n) *)
  Definition ospec_sample (fuel : nat) (root : nat) (n : Z) : rc obj :=
    if 0 <? cnt root n then osample fuel root n else Fail E_INVALID_OP.
End OSample.

End PT.
