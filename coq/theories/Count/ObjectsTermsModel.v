(* C07 — the COUNTING side of a whole specification, transcribed so that
   "count_objects_of_size(n, **params) == len(list(generate_objects_of_size(n, **params)))"
   can be stated through the level-by-level caches of both sides (no proofs here).

   Transcribed from /repo/comb_spec_searcher/strategies/rule.py:
     Rule._ensure_level
         while n >= len(self.terms_cache):
             terms = self.constructor.get_terms(self.get_terms, self.subterms, len(self.terms_cache))
             self.terms_cache.append(terms)
     VerificationRule._ensure_level
         while n >= len(self.terms_cache):
             terms = self.strategy.get_terms(self.comb_class, len(self.terms_cache))
             self.terms_cache.append(terms)
     AbstractRule.get_terms(n)              self._ensure_level(n); return self.terms_cache[n]
     AbstractRule.count_objects_of_size     terms = self.get_terms(n); return terms[params_tuple]
   (subterms = the children's rules' get_terms, set by set_subrecs; specification.py's
   count_objects_of_size / get_terms call the root rule's).  The constructors' get_terms are the
   transcriptions of Count/ObjectsCountModel.v (union_terms, product_terms); utils.compositions is the
   definition regenerated from the source (Gen/Compositions.v), as on the objects side. *)
From Coq Require Import ZArith List Bool.
From CSS Require Import Base.PyList Gen.Prelude Gen.Compositions Count.ObjectsModel Count.ObjectsCountModel.
Import ListNotations.
Open Scope Z_scope.

(* what counting needs to know of a rule (the same children, size bounds and parameter maps
   as the objects side: both get_terms and get_sub_objects read self._children_param_maps,
   self.min_sizes, self.max_sizes) *)
Inductive trule :=
| TUnion (kids : list nat) (maps : list pmap)
| TProduct (kids : list nat) (mins : list Z) (maxs : list (option Z)) (maps : list pmap)
| TVerified (tbl : Z -> terms).            (* VerificationRule: strategy.get_terms(comb_class, n) *)

(* the terms_cache of every rule *)
Definition tcache := nat -> list terms.
Definition tclen (s : tcache) (c : nat) : Z := zlen (s c).
Definition tcget (s : tcache) (c : nat) (n : Z) : terms := nth (Z.to_nat n) (s c) [].
Definition tcappend (s : tcache) (c : nat) (d : terms) : tcache :=
  fun c' => if Nat.eqb c' c then s c ++ [d] else s c'.
Definition empty_tcache : tcache := fun _ => [].

(* sequencing of calls that may extend the caches *)
Fixpoint tmapM {A B} (g : tcache -> A -> option (tcache * B)) (s : tcache) (l : list A)
  : option (tcache * list B) :=
  match l with
  | [] => Some (s, [])
  | a :: l' =>
      match g s a with
      | None => None
      | Some (s1, b) =>
          match tmapM g s1 l' with
          | None => None
          | Some (s2, bs) => Some (s2, b :: bs)
          end
      end
  end.

Section TermsModel.
Variable tspec : nat -> option trule.

(* one level of a rule, given get_terms of the children's rules *)
Definition tlevel_with (getf : tcache -> nat * Z -> option (tcache * terms))
           (r : trule) (s : tcache) (n : Z) : option (tcache * terms) :=
  match r with
  | TUnion kids maps =>
      match tmapM getf s (map (fun k => (k, n)) kids) with
      | None => None
      | Some (s1, subs) => Some (s1, union_terms maps subs)
      end
  | TProduct kids mins maxs maps =>
      match tmapM (fun s' sizes => tmapM getf s' (combine kids sizes)) s
                  (compositions n (zlen kids) mins maxs) with
      | None => None
      | Some (s1, per_comp) => Some (s1, product_terms maps per_comp)
      end
  | TVerified tbl => Some (s, tbl n)
  end.

(* Rule._ensure_level / VerificationRule._ensure_level; fuel bounds the depth of nested
   calls plus the number of iterations *)
Fixpoint tensure (fuel : nat) (s : tcache) (c : nat) (n : Z) {struct fuel} : option tcache :=
  match fuel with
  | O => None
  | S f =>
      if n <? tclen s c then Some s
      else match tspec c with
           | None => None
           | Some r =>
               match tlevel_with
                       (fun s' (cm : nat * Z) =>
                          match tensure f s' (fst cm) (snd cm) with
                          | Some s'' => Some (s'', tcget s'' (fst cm) (snd cm))
                          | None => None
                          end) r s (tclen s c) with
               | None => None
               | Some (s1, d) => tensure f (tcappend s1 c d) c n
               end
           end
  end.

(* AbstractRule.get_terms(n) *)
Definition get_terms (fuel : nat) (s : tcache) (c : nat) (n : Z) : option (tcache * terms) :=
  match tensure fuel s c n with
  | Some s' => Some (s', tcget s' c n)
  | None => None
  end.

(* AbstractRule.count_objects_of_size(n, **parameters) /
   CombinatorialSpecification.count_objects_of_size *)
Definition count_objects_of_size (fuel : nat) (s : tcache) (c : nat) (n : Z) (p : params)
  : option (tcache * Z) :=
  match get_terms fuel s c n with
  | Some (s', t) => Some (s', counter_get t p)
  | None => None
  end.

End TermsModel.

(* the counting view of a rule of the objects side: same children, bounds and maps; for a
   verification rule the strategy's get_terms table is separate user code *)
Definition trule_of {obj} (r : rule obj) (vt : Z -> terms) : trule :=
  match r with
  | RUnion kids maps _ => TUnion kids maps
  | RProduct kids mins maxs maps _ => TProduct kids mins maxs maps
  | RVerified _ => TVerified vt
  end.

(* the counting view of a specification; vterms c n = strategy.get_terms(class c, n) of the
   verification strategy of class c *)
Definition tspec_of {obj} (spec : nat -> option (rule obj)) (vterms : nat -> Z -> terms) (c : nat)
  : option trule :=
  match spec c with Some r => Some (trule_of r (vterms c)) | None => None end.
