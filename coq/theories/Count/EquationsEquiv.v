(* C20 — equivalence rules in both directions, equivalence paths whose end class tracks a
   statistic the start class does not (EquivalencePathRule.constructor: fixed_values = {k: 0}),
   the placeholder equation, and the unmapped-child-parameter defect.

   What the code emits (strategies/rule.py, as it is now):
   * EquivalenceRule(rule) of a union rule: DisjointUnion(parent, (child,), (ep[child_idx],)) —
     REquivUnion, the union equation with one child.
   * EquivalenceRule(ReverseRule(rule)) of a union rule: Complement(child, (parent,), 0, (ep,)) —
     REquivRev c p ep.  Complement.get_equation raises NotImplementedError when `any(ep)`, and
     EquivalenceRule (unlike ReverseRule) has NO fallback to the original rule: with a non-empty
     dictionary the rule has no equation (CombinatorialSpecification.get_equations then emits the
     placeholder  F_c(..) = NOTIMPLEMENTED(x)).  With the empty dictionary it emits  F_c = F_p.
   * EquivalenceRule of a product rule with a SINGLE factor (fix 25e10f1): DisjointUnion(parent,
     (child,), (ep[0],)) — REquivUnion again; of its reverse: NotImplementedError, always —
     REquivRevProduct.  Inside an EquivalencePathRule a single-factor product step is composed like
     a union step and its reverse (Quotient) like a Complement step.
   * EquivalencePathRule: DisjointUnion(start, (end,), (composed ep,), (fixed_values,)) where
     fixed_values = {k: 0 for the end class's parameters no start parameter is mapped to}.
     DisjointUnion.get_equation never reads fixed_values: the end class's own variable stays in
     the equation.  That is right exactly when the statistic is 0 on every object of the end
     class (zero_on), which is what fixed_values asserts; it is wrong when the statistic is a
     genuine one that get_terms sums out (union_unmapped_refuted below; open finding).      *)
From Coq Require Import ZArith List Bool Lia.
From CSS Require Import Count.Series Count.Equations Count.EquationsProofs Count.EquationsRules.
Import ListNotations.
Open Scope Z_scope.

Lemma subs_nil_vars l : map (subs []) (map Var l) = map Var l.
Proof. induction l as [|v t IH]; simpl; auto. rewrite IH. reflexivity. Qed.

Lemma subs_nil_cfun pars l : subs [] (cfun pars l) = cfun pars l.
Proof. unfold cfun. cbn [subs map alookup]. rewrite subs_nil_vars. reflexivity. Qed.

Section Equiv.
Variable pars : Z -> list Z.
Variable T : Z -> Z -> list (list Z * Z).
Variable O : Z -> poly.
Variable V : list Z.

(* EquivalenceRule of a union rule; unmapped child parameters may be identically 0 *)
Theorem equiv_equation_holds0 o cidx N :
  let p := o_parent o in let c := nth cidx (o_children o) (-1) in let ep := nth cidx (o_eps o) [] in
  class_wf pars T p -> kid_wf0 pars T (pars p) (c, ep) -> union_genuine pars T p [(c, ep)] ->
  match rule_equation pars (REquivUnion o cidx) with
  | Ok lhs rhs => holds (SN T N) O V N lhs rhs
  | _ => False
  end.
Proof.
  intros p c ep Wp Wk G.
  exact (union_equation_holds0 pars T O V p [(c, ep)] N Wp (Forall_cons _ Wk (Forall_nil _)) G).
Qed.

(* EquivalencePathRule whose end class may track statistics that no start parameter is mapped
   to, provided they are 0 on every object of the end class: the fixed_values case *)
Theorem path_equation_holds0 p steps c ep N :
  path_eps (pars p) steps = Some ep ->
  class_wf pars T p -> kid_wf0 pars T (pars p) (c, ep) -> union_genuine pars T p [(c, ep)] ->
  match rule_equation pars (RPath p steps c) with
  | Ok lhs rhs => holds (SN T N) O V N lhs rhs
  | _ => False
  end.
Proof.
  intros E Wp Wk G. cbn [rule_equation]. rewrite E.
  exact (union_equation_holds0 pars T O V p [(c, ep)] N Wp (Forall_cons _ Wk (Forall_nil _)) G).
Qed.

(* EquivalenceRule(ReverseRule(union rule p -> (.., c, ..))) with the EMPTY dictionary:
   F_c(x, c's parameters) = F_p(x, p's parameters).  The original rule's genuineness forces
   p's parameters to be 0 on every object (they are not mapped: DisjointUnion.zeroes); c's
   parameters must be 0 on every object too (kid_wf0 with the empty dictionary), in particular
   c may have none. *)
Theorem equiv_rev_equation_holds c p N :
  class_wf pars T p -> kid_wf0 pars T (pars p) (c, []) -> union_genuine pars T p [(c, [])] ->
  match rule_equation pars (REquivRev c p []) with
  | Ok lhs rhs => holds (SN T N) O V N lhs rhs
  | _ => False
  end.
Proof.
  intros Wp Wk G.
  pose proof (union_equation_holds0 pars T O V p [(c, [])] N Wp (Forall_cons _ Wk (Forall_nil _)) G) as H.
  cbn [union_equation map fst snd combine fold_left] in H.
  change (union_subs []) with (@nil (Z * expr)) in H. rewrite subs_nil_cfun in H.
  unfold holds in H. cbn [undiv fst snd] in H.
  destruct H as [a [q [Ha [Hq H]]]]. rewrite sem_cfun in Ha. injection Ha as <-.
  cbn [sem] in Hq. rewrite sem_cfun in Hq. cbn [lift2] in Hq. injection Hq as <-.
  cbn [rule_equation complement_equation any_params existsb orb fold_left].
  unfold holds. unfold cfun at 1 2. cbn [undiv fst snd]. fold (cfun pars c). fold (cfun pars p).
  eexists. eexists. split; [apply sem_cfun|]. split; [apply sem_cfun|].
  intros m Hm. rewrite (H m Hm).
  change ((mzero, 0) :: cser (pars c) (SN T N c)) with (padd (pconst 0) (cser (pars c) (SN T N c))).
  rewrite pcoef_padd.
  assert (pcoef V (pconst 0) m = 0) as Z0.
  { unfold pcoef, pconst. simpl. destruct (meqb V mzero m); reflexivity. }
  rewrite Z0. lia.
Qed.

(* ... and with a non-empty dictionary there is no equation: no fallback *)
Theorem equiv_rev_with_parameters c p ep :
  ep <> [] ->
  rule_equation pars (REquivRev c p ep) = NotImpl /\
  spec_equation pars (REquivRev c p ep) = Ok (cfun pars c) (Fun (-1) [Var 0]).
Proof.
  intros Hne. unfold spec_equation. cbn [rule_equation rule_class].
  unfold complement_equation. destruct ep as [|a t]; [congruence|]. cbn [any_params existsb orb].
  split; reflexivity.
Qed.

End Equiv.

(* ------------------------------------------------------------ without parameters every rule has an equation *)
(* every dictionary of the rule is empty (a specification without catalytic variables) *)
Definition rule_plain (pars : Z -> list Z) (r : rule) : Prop :=
  match r with
  | RUnion o | RProduct o | RRevUnion o _ | RRevProduct o _ | REquivUnion o _ => any_params (o_eps o) = false
  | REquivRev _ _ ep => ep = []
  | REquivRevProduct _ _ => False       (* never has an equation; never stands alone in a specification: an
                                           equivalence rule is grouped into an EquivalencePathRule, where the
                                           Quotient step is composed like a Complement step *)
  | RPath _ steps _ => Forall (fun st => snd st = []) steps
  | RPathNoCtor _ _ => False            (* a path holding a WRAPPED reversed single-factor product step *)
  | RAtom c _ => pars c = []
  | REmpty _ | RVerified _ => True
  end.

Lemma path_eps_plain steps : forall ep,
  Forall (fun st : bool * list (Z * Z) => snd st = []) steps ->
  exists ep', fold_left path_step steps (Some ep) = Some ep'.
Proof.
  induction steps as [|[b rp] t IH]; intros ep HF; simpl.
  - eauto.
  - inversion HF as [|? ? H1 H2]; subst. simpl in H1. subst rp. simpl. rewrite andb_false_r.
    apply IH. exact H2.
Qed.

(* get_equations never emits the placeholder for such a rule: in particular the system
   get_genf solves (it refuses specifications with catalytic variables) contains none *)
Theorem plain_rule_has_equation pars r :
  rule_plain pars r -> rule_equation pars r <> NotImpl /\ spec_equation pars r = rule_equation pars r.
Proof.
  intros H.
  assert (rule_equation pars r <> NotImpl) as A.
  { destruct r as [o|o|o idx|o idx|o cidx|c p ep|c p|p steps c|p c|c m|c|c]; cbn [rule_equation rule_plain] in *;
      try discriminate; try contradiction.
    - unfold complement_equation. rewrite H. cbn [map]. discriminate.
    - unfold quotient_equation. rewrite H. cbn [map]. discriminate.
    - subst ep. discriminate.
    - unfold path_eps. destruct (path_eps_plain steps (map (fun k => (k, k)) (pars p)) H) as [ep' ->].
      discriminate.
    - rewrite H. discriminate. }
  split; [exact A|]. unfold spec_equation. destruct (rule_equation pars r); auto. congruence.
Qed.

(* ------------------------------------------------------------ the unmapped-child-parameter defect *)
(* parent 0 tracks k = number of a's (variable 1); child 1 = the same words, tracking k and
   additionally e = number of b's (variable 2); extra_parameters = {k: k}.  One word, "ab".
   get_terms sums e out: the rule is genuine.  DisjointUnion.get_equation emits
   F_0(x,k) = 0 + F_1(x,k,e): the coefficient of x^2*k*e is 0 on the left and 1 on the right.
   (With e := 1 the equation would hold.)  Same for the path  0 -> 1, whose constructor has
   fixed_values = {e: 0}. *)
Definition um_pars (l : Z) : list Z := match l with 0 => [1] | 1 => [1; 2] | _ => [] end.
Definition um_T (l n : Z) : list (list Z * Z) :=
  match l, n with
  | 0, 2 => [([1], 1)]
  | 1, 2 => [([1; 1], 1)]
  | _, _ => []
  end.
Definition um_kids : list (Z * list (Z * Z)) := [(1, [(1, 1)])].
Definition um_V : list Z := [0; 1; 2].

Lemma um_tab l n t : In t (um_T l n) -> length (fst t) = length (um_pars l).
Proof.
  destruct l as [|[p|p|]|p]; simpl; try tauto;
    destruct n as [|[[p'|p'|]|[p'|p'|]|]|p']; simpl; try tauto; intros [<-|[]]; reflexivity.
Qed.

Lemma um_class_wf l : l = 0 \/ l = 1 -> class_wf um_pars um_T l.
Proof.
  intros Hl. split; [|split].
  - destruct Hl; subst l; simpl; repeat constructor; simpl; intuition discriminate.
  - destruct Hl; subst l; simpl; intuition discriminate.
  - intros n t. apply um_tab.
Qed.

Lemma um_genuine : union_genuine um_pars um_T 0 um_kids.
Proof.
  intros n Hn e. cbn [um_kids psum fst snd].
  destruct n as [|[[p'|p'|]|[p'|p'|]|]|p']; try reflexivity.
  unfold cnt. simpl. unfold aget. simpl. lia.
Qed.

Theorem union_unmapped_refuted :
  class_wf um_pars um_T 0 /\ class_wf um_pars um_T 1 /\
  NoDup (map fst (snd (1, [(1, 1)]))) /\ incl [1] (um_pars 0) /\ incl [1] (um_pars 1) /\
  union_genuine um_pars um_T 0 um_kids /\
  ~ match union_equation (cfun um_pars 0) (map (cfun um_pars) (map fst um_kids)) (map snd um_kids) with
    | Ok lhs rhs => holds (SN um_T 2) (fun _ => []) um_V 2 lhs rhs
    | _ => False
    end /\
  rule_equation um_pars (RPath 0 [(false, [(1, 1)])] 1) =
    union_equation (cfun um_pars 0) (map (cfun um_pars) (map fst um_kids)) (map snd um_kids).
Proof.
  split; [apply um_class_wf; auto|]. split; [apply um_class_wf; auto|].
  split; [repeat constructor; simpl; tauto|].
  split; [intros x [<-|[]]; simpl; auto|]. split; [intros x [<-|[]]; simpl; auto|].
  split; [exact um_genuine|]. split; [|reflexivity].
  intros [p [q [Hp [Hq H]]]]. vm_compute in Hp, Hq.
  injection Hp as <-. injection Hq as <-.
  specialize (H (fun u => if u =? 0 then 2 else if u <=? 2 then 1 else 0)).
  vm_compute in H. assert (0 = 1) as E by (apply H; split; discriminate). discriminate E.
Qed.

(* ------------------------------------------------------------ rule forms of a specification without parameters *)
(* In a specification every equivalence rule is grouped into an EquivalencePathRule.  Without
   parameters its equation is the one-child union's, and the reverse equivalence's equation is
   the one-child complement's: the harness maps them to UUnion [c] / UComplement p [c] 0 of
   Count/SeriesUnique.v when it builds the univariate specification of a real one. *)
Lemma path_eps_nil steps : forall ep,
  Forall (fun st : bool * list (Z * Z) => snd st = []) steps -> ep = [] ->
  fold_left path_step steps (Some ep) = Some [].
Proof.
  induction steps as [|[b rp] t IH]; intros ep HF ->; simpl; auto.
  inversion HF as [|? ? H1 H2]; subst. simpl in H1. subst rp. simpl. rewrite andb_false_r.
  apply IH; auto.
Qed.

Theorem plain_path_is_union pars p steps c :
  pars p = [] -> Forall (fun st : bool * list (Z * Z) => snd st = []) steps ->
  rule_equation pars (RPath p steps c) = rule_equation pars (RUnion (mkorule p [c] [[]])).
Proof.
  intros Hp HF. cbn [rule_equation o_parent o_children o_eps map]. unfold path_eps. rewrite Hp.
  cbn [map]. rewrite (path_eps_nil steps [] HF eq_refl). reflexivity.
Qed.

Theorem plain_equiv_rev_is_complement pars c p :
  rule_equation pars (REquivRev c p []) = rule_equation pars (RRevUnion (mkorule p [c] [[]]) 0).
Proof. reflexivity. Qed.
