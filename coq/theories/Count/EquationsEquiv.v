(* C20 — equivalence rules in both directions, equivalence paths whose end class tracks a
   statistic the start class does not (EquivalencePathRule.constructor: fixed_values = {k: 0}),
   the placeholder equation, and the unmapped-child-parameter defect.

   What the code emits (strategies/rule.py, as it is now):
   * EquivalenceRule(rule) of a union rule: DisjointUnion(parent, (child,), (ep[child_idx],)) —
     REquivUnion, the union equation with one child.
   * EquivalenceRule(ReverseRule(rule)) of a union rule: Complement(child, (parent,), 0, (ep,)) —
     REquivRev c p ep.  Complement.get_equation raises NotImplementedError when `any(ep)`, and
     EquivalenceRule (unlike ReverseRule) has NO fallback to the original rule: with a non-empty
     dictionary the rule has no equation (CombinatorialSpecification.get_equations then emits the
     placeholder  F_c(..) = NOTIMPLEMENTED(x)).  With the empty dictionary it emits  F_c = F_p.
   * EquivalenceRule of a product rule with a SINGLE factor (fix 25e10f1): DisjointUnion(parent,
     (child,), (ep[0],)) — REquivUnion again; of its reverse: NotImplementedError, always —
     REquivRevProduct.  Inside an EquivalencePathRule a single-factor product step is composed like
     a union step and its reverse (Quotient) like a Complement step.
   * EquivalencePathRule: DisjointUnion(start, (end,), (composed ep,), (fixed_values,)) where
     fixed_values = {k: 0 for the end class's parameters no start parameter is mapped to}.
     DisjointUnion.get_equation never reads fixed_values.  Since fix FIXHASH_EQ it sets the variable
     of such a parameter to 1 (the statistic is summed out, as get_terms does): right for every
     genuine rule (path_equation_holds, Count/EquationsRules.v).  BEFORE the fix the end class's own
     variable stayed in the equation: right exactly when the statistic is 0 on every object of the
     end class (zero_on; path_equation_old_holds0), wrong when it is a genuine one
     (union_unmapped_refuted below; the finding repaired by the fix).                        *)
From Coq Require Import ZArith List Bool Lia.
From CSS Require Import Count.Series Count.Equations Count.EquationsProofs Count.EquationsRules.
Import ListNotations.
Open Scope Z_scope.

Lemma subs_nil_vars l : map (subs []) (map Var l) = map Var l.
Proof. induction l as [|v t IH]; simpl; auto. rewrite IH. reflexivity. Qed.

Lemma subs_nil_cfun pars l : subs [] (cfun pars l) = cfun pars l.
Proof. unfold cfun. cbn [subs map alookup]. rewrite subs_nil_vars. reflexivity. Qed.

Section Equiv.
Variable pars : Z -> list Z.
Variable T : Z -> Z -> list (list Z * Z).
Variable O : Z -> poly.
Variable V : list Z.

(* HISTORY (the method before the fix): EquivalenceRule of a union rule; unmapped child parameters had to
   be identically 0 *)
Theorem equiv_equation_old_holds0 o cidx N :
  let p := o_parent o in let c := nth cidx (o_children o) (-1) in let ep := nth cidx (o_eps o) [] in
  class_wf pars T p -> kid_wf0 pars T (pars p) (c, ep) -> union_genuine pars T p [(c, ep)] ->
  match rule_equation_old pars (REquivUnion o cidx) with
  | Ok lhs rhs => holds (SN T N) O V N lhs rhs
  | _ => False
  end.
Proof.
  intros p c ep Wp Wk G.
  exact (union_equation_old_holds0 pars T O V p [(c, ep)] N Wp (Forall_cons _ Wk (Forall_nil _)) G).
Qed.

(* HISTORY: EquivalencePathRule whose end class may track statistics that no start parameter is mapped
   to, provided they are 0 on every object of the end class: the fixed_values case before the fix *)
Theorem path_equation_old_holds0 p steps c ep N :
  path_eps (pars p) steps = Some ep ->
  class_wf pars T p -> kid_wf0 pars T (pars p) (c, ep) -> union_genuine pars T p [(c, ep)] ->
  match rule_equation_old pars (RPath p steps c) with
  | Ok lhs rhs => holds (SN T N) O V N lhs rhs
  | _ => False
  end.
Proof.
  intros E Wp Wk G. unfold rule_equation_old. cbn [rule_equation_with]. rewrite E.
  exact (union_equation_old_holds0 pars T O V p [(c, ep)] N Wp (Forall_cons _ Wk (Forall_nil _)) G).
Qed.

(* EquivalenceRule(ReverseRule(union rule p -> (.., c, ..))) with the EMPTY dictionary:
   F_c(x, c's parameters) = F_p(x, p's parameters).  The original rule's genuineness forces
   p's parameters to be 0 on every object (they are not mapped: DisjointUnion.zeroes); c's
   parameters must be 0 on every object too (kid_wf0 with the empty dictionary), in particular
   c may have none. *)
Theorem equiv_rev_equation_holds c p N :
  class_wf pars T p -> kid_wf0 pars T (pars p) (c, []) -> union_genuine pars T p [(c, [])] ->
  match rule_equation pars (REquivRev c p []) with
  | Ok lhs rhs => holds (SN T N) O V N lhs rhs
  | _ => False
  end.
Proof.
  intros Wp Wk G.
  pose proof (union_equation_old_holds0 pars T O V p [(c, [])] N Wp (Forall_cons _ Wk (Forall_nil _)) G) as H.
  cbn [union_equation_old map fst snd combine fold_left] in H.
  change (union_subs []) with (@nil (Z * expr)) in H. rewrite subs_nil_cfun in H.
  unfold holds in H. cbn [undiv fst snd] in H.
  destruct H as [a [q [Ha [Hq H]]]]. rewrite sem_cfun in Ha. injection Ha as <-.
  cbn [sem] in Hq. rewrite sem_cfun in Hq. cbn [lift2] in Hq. injection Hq as <-.
  unfold rule_equation. cbn [rule_equation_with complement_equation any_params existsb orb fold_left].
  unfold holds. unfold cfun at 1 2. cbn [undiv fst snd]. fold (cfun pars c). fold (cfun pars p).
  eexists. eexists. split; [apply sem_cfun|]. split; [apply sem_cfun|].
  intros m Hm. rewrite (H m Hm).
  change ((mzero, 0) :: cser (pars c) (SN T N c)) with (padd (pconst 0) (cser (pars c) (SN T N c))).
  rewrite pcoef_padd.
  assert (pcoef V (pconst 0) m = 0) as Z0.
  { unfold pcoef, pconst. simpl. destruct (meqb V mzero m); reflexivity. }
  rewrite Z0. lia.
Qed.

(* ... and with a non-empty dictionary there is no equation: no fallback *)
Theorem equiv_rev_with_parameters c p ep :
  ep <> [] ->
  rule_equation pars (REquivRev c p ep) = NotImpl /\
  spec_equation pars (REquivRev c p ep) = Ok (cfun pars c) (Fun (-1) [Var 0]).
Proof.
  intros Hne. unfold spec_equation, placeholder, rule_equation. cbn [rule_equation_with rule_class].
  unfold complement_equation. destruct ep as [|a t]; [congruence|]. cbn [any_params existsb orb].
  split; reflexivity.
Qed.

End Equiv.

(* ------------------------------------------------------------ without parameters every rule has an equation *)
(* every dictionary of the rule is empty (a specification without catalytic variables) *)
Definition rule_plain (pars : Z -> list Z) (r : rule) : Prop :=
  match r with
  | RUnion o | RProduct o | RRevUnion o _ | RRevProduct o _ | REquivUnion o _ => any_params (o_eps o) = false
  | REquivRev _ _ ep => ep = []
  | REquivRevProduct _ _ => False       (* never has an equation; never stands alone in a specification: an
                                           equivalence rule is grouped into an EquivalencePathRule, where the
                                           Quotient step is composed like a Complement step *)
  | RPath _ steps _ => Forall (fun st => snd st = []) steps
  | RPathNoCtor _ _ => False            (* a path holding a WRAPPED reversed single-factor product step *)
  | RAtom c _ => pars c = []
  | REmpty _ | RVerified _ => True
  end.

Lemma path_eps_plain steps : forall ep,
  Forall (fun st : bool * list (Z * Z) => snd st = []) steps ->
  exists ep', fold_left path_step steps (Some ep) = Some ep'.
Proof.
  induction steps as [|[b rp] t IH]; intros ep HF; simpl.
  - eauto.
  - inversion HF as [|? ? H1 H2]; subst. simpl in H1. subst rp. simpl. rewrite andb_false_r.
    apply IH. exact H2.
Qed.

(* get_equations never emits the placeholder for such a rule: in particular the system
   get_genf solves (it refuses specifications with catalytic variables) contains none *)
Theorem plain_rule_has_equation pars r :
  rule_plain pars r -> rule_equation pars r <> NotImpl /\ spec_equation pars r = rule_equation pars r.
Proof.
  intros H.
  assert (rule_equation pars r <> NotImpl) as A.
  { unfold rule_equation.
    destruct r as [o|o|o idx|o idx|o cidx|c p ep|c p|p steps c|p c|c m|c|c]; cbn [rule_equation_with rule_plain] in *;
      try discriminate; try contradiction.
    - unfold complement_equation. rewrite H. cbn [map]. discriminate.
    - unfold quotient_equation. rewrite H. cbn [map]. discriminate.
    - subst ep. discriminate.
    - unfold path_eps. destruct (path_eps_plain steps (map (fun k => (k, k)) (pars p)) H) as [ep' ->].
      discriminate.
    - rewrite H. discriminate. }
  split; [exact A|]. unfold spec_equation, placeholder. destruct (rule_equation pars r); auto. congruence.
Qed.

(* ------------------------------------------------------------ the unmapped-child-parameter defect *)
(* parent 0 tracks k = number of a's (variable 1); child 1 = the same words, tracking k and
   additionally e = number of b's (variable 2); extra_parameters = {k: k}.  One word, "ab".
   get_terms sums e out: the rule is genuine.  DisjointUnion.get_equation BEFORE the fix emitted
   F_0(x,k) = 0 + F_1(x,k,e): the coefficient of x^2*k*e is 0 on the left and 1 on the right.
   (With e := 1, as the repaired method writes it, the equation holds: union_equation_holds.)  Same for the path  0 -> 1, whose constructor has
   fixed_values = {e: 0}. *)
Definition um_pars (l : Z) : list Z := match l with 0 => [1] | 1 => [1; 2] | _ => [] end.
Definition um_T (l n : Z) : list (list Z * Z) :=
  match l, n with
  | 0, 2 => [([1], 1)]
  | 1, 2 => [([1; 1], 1)]
  | _, _ => []
  end.
Definition um_kids : list (Z * list (Z * Z)) := [(1, [(1, 1)])].
Definition um_V : list Z := [0; 1; 2].

Lemma um_tab l n t : In t (um_T l n) -> length (fst t) = length (um_pars l).
Proof.
  destruct l as [|[p|p|]|p]; simpl; try tauto;
    destruct n as [|[[p'|p'|]|[p'|p'|]|]|p']; simpl; try tauto; intros [<-|[]]; reflexivity.
Qed.

Lemma um_class_wf l : l = 0 \/ l = 1 -> class_wf um_pars um_T l.
Proof.
  intros Hl. split; [|split].
  - destruct Hl; subst l; simpl; repeat constructor; simpl; intuition discriminate.
  - destruct Hl; subst l; simpl; intuition discriminate.
  - intros n t. apply um_tab.
Qed.

Lemma um_genuine : union_genuine um_pars um_T 0 um_kids.
Proof.
  intros n Hn e. cbn [um_kids psum fst snd].
  destruct n as [|[[p'|p'|]|[p'|p'|]|]|p']; try reflexivity.
  unfold cnt. simpl. unfold aget. simpl. lia.
Qed.

Theorem union_unmapped_refuted :
  class_wf um_pars um_T 0 /\ class_wf um_pars um_T 1 /\
  NoDup (map fst (snd (1, [(1, 1)]))) /\ incl [1] (um_pars 0) /\ incl [1] (um_pars 1) /\
  union_genuine um_pars um_T 0 um_kids /\
  ~ match union_equation_old (cfun um_pars 0) (map (cfun um_pars) (map fst um_kids)) (map snd um_kids) with
    | Ok lhs rhs => holds (SN um_T 2) (fun _ => []) um_V 2 lhs rhs
    | _ => False
    end /\
  rule_equation_old um_pars (RPath 0 [(false, [(1, 1)])] 1) =
    union_equation_old (cfun um_pars 0) (map (cfun um_pars) (map fst um_kids)) (map snd um_kids).
Proof.
  split; [apply um_class_wf; auto|]. split; [apply um_class_wf; auto|].
  split; [repeat constructor; simpl; tauto|].
  split; [intros x [<-|[]]; simpl; auto|]. split; [intros x [<-|[]]; simpl; auto|].
  split; [exact um_genuine|]. split; [|reflexivity].
  intros [p [q [Hp [Hq H]]]]. vm_compute in Hp, Hq.
  injection Hp as <-. injection Hq as <-.
  specialize (H (fun u => if u =? 0 then 2 else if u <=? 2 then 1 else 0)).
  vm_compute in H. assert (0 = 1) as E by (apply H; split; discriminate). discriminate E.
Qed.

(* ------------------------------------------------------------ rule forms of a specification without parameters *)
(* In a specification every equivalence rule is grouped into an EquivalencePathRule.  Without
   parameters its equation is the one-child union's, and the reverse equivalence's equation is
   the one-child complement's: the harness maps them to UUnion [c] / UComplement p [c] 0 of
   Count/SeriesUnique.v when it builds the univariate specification of a real one. *)
Lemma path_eps_nil steps : forall ep,
  Forall (fun st : bool * list (Z * Z) => snd st = []) steps -> ep = [] ->
  fold_left path_step steps (Some ep) = Some [].
Proof.
  induction steps as [|[b rp] t IH]; intros ep HF ->; simpl; auto.
  inversion HF as [|? ? H1 H2]; subst. simpl in H1. subst rp. simpl. rewrite andb_false_r.
  apply IH; auto.
Qed.

Theorem plain_path_is_union pars p steps c :
  pars p = [] -> Forall (fun st : bool * list (Z * Z) => snd st = []) steps ->
  rule_equation pars (RPath p steps c) = rule_equation pars (RUnion (mkorule p [c] [[]])).
Proof.
  intros Hp HF. unfold rule_equation. cbn [rule_equation_with o_parent o_children o_eps map]. unfold path_eps. rewrite Hp.
  cbn [map]. rewrite (path_eps_nil steps [] HF eq_refl). reflexivity.
Qed.

Theorem plain_equiv_rev_is_complement pars c p :
  rule_equation pars (REquivRev c p []) = rule_equation pars (RRevUnion (mkorule p [c] [[]]) 0).
Proof. reflexivity. Qed.

(* ------------------------------------------------------------ HISTORY: where the fix changed nothing *)
(* When every parameter of a child is the image of a parent parameter the repaired substitution is the old
   union substitution, and when in addition no two parent parameters share a child parameter the old
   product substitution is the same too: on such rules the methods before and after the fix emit the SAME
   equation (so every theorem about the repaired code also speaks about the code before the fix there). *)
Definition covered (pars : Z -> list Z) (k : Z * list (Z * Z)) : Prop :=
  forall cv, In cv (pars (fst k)) -> has_par (snd k) cv = true.

Lemma fix_fold_covered (ep : list (Z * Z)) (l : list Z) :
  (forall cv, In cv l -> has_par ep cv = true) ->
  fold_left fix_step (map Var l) (union_subs ep) = union_subs ep.
Proof.
  intros H. induction l as [|v t IH]; simpl; auto.
  pose proof (good_union_subs ep v) as G.
  destruct (alookup v (union_subs ep)) eqn:E.
  - apply IH. intros cv Hcv. apply H. right; auto.
  - rewrite (H v (or_introl eq_refl)) in G. discriminate.
Qed.

Lemma full_subs_covered pars k : covered pars k -> full_subs (cfun pars (fst k)) (snd k) = union_subs (snd k).
Proof. intros H. rewrite full_subs_cfun. apply fix_fold_covered. exact H. Qed.

Lemma fold_left_ext_in {A B} (f g : A -> B -> A) (l : list B) :
  (forall a x, In x l -> f a x = g a x) -> forall a, fold_left f l a = fold_left g l a.
Proof.
  induction l as [|x t IH]; intros H a; simpl; auto.
  rewrite H by (left; auto). apply IH. intros a' x' Hx'. apply H. right; auto.
Qed.

Theorem union_equation_old_same pars lhs kids :
  Forall (covered pars) kids ->
  union_equation_old lhs (map (cfun pars) (map fst kids)) (map snd kids) =
  union_equation lhs (map (cfun pars) (map fst kids)) (map snd kids).
Proof.
  intros HF. unfold union_equation, union_equation_old. f_equal.
  assert (combine (map (cfun pars) (map fst kids)) (map snd kids) =
          map (fun k => (cfun pars (fst k), snd k)) kids) as E.
  { clear. induction kids as [|[a b] t IH]; simpl; auto. rewrite IH. reflexivity. }
  rewrite E. apply fold_left_ext_in. intros a x Hx. apply in_map_iff in Hx. destruct Hx as [k [<- Hk]].
  cbn [fst snd]. rewrite full_subs_covered; auto. rewrite Forall_forall in HF. auto.
Qed.

Theorem product_equation_old_same pars lhs kids :
  Forall (fun k => covered pars k /\ NoDup (map snd (snd k))) kids ->
  product_equation_old lhs (map (cfun pars) (map fst kids)) (map snd kids) =
  product_equation lhs (map (cfun pars) (map fst kids)) (map snd kids).
Proof.
  intros HF. unfold product_equation, product_equation_old. f_equal.
  assert (combine (map snd kids) (map (cfun pars) (map fst kids)) =
          map (fun k => (snd k, cfun pars (fst k))) kids) as E.
  { clear. induction kids as [|[a b] t IH]; simpl; auto. rewrite IH. reflexivity. }
  rewrite E. apply fold_left_ext_in. intros a x Hx. apply in_map_iff in Hx. destruct Hx as [k [<- Hk]].
  cbn [fst snd]. rewrite Forall_forall in HF. destruct (HF k Hk) as [Hc Hi].
  rewrite full_subs_covered by auto. rewrite prod_subs_eq_union by auto. reflexivity.
Qed.

(* ------------------------------------------------------------ the PROPOSED guard of the reverse constructors *)
(* With the guard (Complement / Quotient refuse as soon as a function carries a parameter) the reverse of EVERY
   genuine union / product rule with well-formed dictionaries has a satisfied equation: the literal one exactly
   when nothing has parameters, the original rule's otherwise. *)
Lemma has_args_cfun pars l : has_args (cfun pars l) = match pars l with [] => false | _ => true end.
Proof. unfold cfun. destruct (pars l); reflexivity. Qed.

Lemma any_params_false_plain (kids : list (Z * list (Z * Z))) :
  any_params (map snd kids) = false -> kids = plain_kids (map fst kids).
Proof.
  induction kids as [|[c ep] t IH]; simpl; auto. destruct ep; [|discriminate].
  simpl. intros H. rewrite <- IH by auto. reflexivity.
Qed.

Lemma In_nth_or_removed {A} (l : list A) i d x : (i < length l)%nat -> In x l -> x = nth i l d \/ In x (remove_nth i l).
Proof.
  unfold remove_nth. revert i. induction l as [|a t IH]; intros i Hi Hx; [destruct Hx|].
  destruct i as [|i]; simpl in *.
  - destruct Hx as [<-|Hx]; auto.
  - destruct Hx as [<-|Hx]; [right; left; reflexivity|].
    destruct (IH i ltac:(lia) Hx) as [E|E]; [left; exact E|right; right; exact E].
Qed.

Section Guarded.
Variable pars : Z -> list Z.
Variable T : Z -> Z -> list (list Z * Z).
Variable O : Z -> poly.
Variable V : list Z.

Lemma guard_no_params p cs idx :
  (idx < length cs)%nat ->
  existsb has_args (cfun pars (nth idx cs (-1)) :: map (cfun pars) (p :: remove_nth idx cs)) = false ->
  no_params pars p cs.
Proof.
  intros Hidx H. cbn [existsb map] in H. apply orb_false_iff in H. destruct H as [H1 H].
  apply orb_false_iff in H. destruct H as [H2 H3].
  rewrite has_args_cfun in H1, H2.
  split; [destruct (pars p); [reflexivity|discriminate]|].
  intros c Hc. destruct (In_nth_or_removed cs idx (-1) c Hidx Hc) as [->|Hr].
  - destruct (pars (nth idx cs (-1))); [reflexivity|discriminate].
  - assert (has_args (cfun pars c) = false) as Hf.
    { destruct (has_args (cfun pars c)) eqn:E; auto.
      assert (existsb has_args (map (cfun pars) (remove_nth idx cs)) = true) as X.
      { apply existsb_exists. exists (cfun pars c). split; auto. apply in_map. exact Hr. }
      congruence. }
    rewrite has_args_cfun in Hf. destruct (pars c); [reflexivity|discriminate].
Qed.

Theorem reverse_union_guarded_holds p kids idx N :
  class_wf pars T p -> Forall (kid_wfd pars T (pars p)) kids -> union_genuine pars T p kids ->
  (idx < length kids)%nat ->
  match rule_equation_guarded pars (RRevUnion (mkorule p (map fst kids) (map snd kids)) idx) with
  | Ok lhs rhs => holds (SN T N) O V N lhs rhs
  | _ => False
  end.
Proof.
  intros Wp Wk G Hidx. unfold rule_equation_guarded. cbn [rule_equation_with o_parent o_children o_eps].
  pose proof (union_equation_holds pars T O V p kids N Wp Wk G) as U.
  unfold complement_equation_g.
  destruct (existsb has_args _) eqn:Eg; [exact U|].
  unfold complement_equation at 1. destruct (any_params (map snd kids)) eqn:Ea; [exact U|].
  assert (idx < length (map fst kids))%nat as Hidx' by (rewrite map_length; exact Hidx).
  pose proof (guard_no_params p (map fst kids) idx Hidx' Eg) as NP.
  pose proof (any_params_false_plain kids Ea) as Ek.
  assert (forall c, In c (map fst kids) -> class_wf pars T c) as Wc.
  { intros c Hc. apply in_map_iff in Hc. destruct Hc as [k [<- Hk]]. rewrite Forall_forall in Wk. apply (Wk k Hk). }
  rewrite Ek in G.
  pose proof (complement_equation_holds pars T O V p (map fst kids) idx N NP Wp Wc G Hidx') as C.
  rewrite <- Ek in C. unfold complement_equation in C. rewrite Ea in C. exact C.
Qed.

Theorem reverse_product_guarded_holds p kids idx N :
  class_wf pars T p -> Forall (kid_wfd pars T (pars p)) kids -> product_genuine pars T V p kids N ->
  (idx < length kids)%nat ->
  match rule_equation_guarded pars (RRevProduct (mkorule p (map fst kids) (map snd kids)) idx) with
  | Ok lhs rhs => holds (SN T N) O V N lhs rhs
  | _ => False
  end.
Proof.
  intros Wp Wk G Hidx. unfold rule_equation_guarded. cbn [rule_equation_with o_parent o_children o_eps].
  pose proof (product_equation_holds pars T O V p kids N Wp Wk G) as U.
  unfold quotient_equation_g.
  destruct (existsb has_args _) eqn:Eg; [exact U|].
  unfold quotient_equation at 1. destruct (any_params (map snd kids)) eqn:Ea; [exact U|].
  assert (idx < length (map fst kids))%nat as Hidx' by (rewrite map_length; exact Hidx).
  pose proof (guard_no_params p (map fst kids) idx Hidx' Eg) as NP.
  pose proof (any_params_false_plain kids Ea) as Ek.
  assert (forall c, In c (map fst kids) -> class_wf pars T c) as Wc.
  { intros c Hc. apply in_map_iff in Hc. destruct Hc as [k [<- Hk]]. rewrite Forall_forall in Wk. apply (Wk k Hk). }
  rewrite Ek in G.
  pose proof (quotient_equation_holds pars T O V p (map fst kids) idx N NP Wp Wc G Hidx') as C.
  rewrite <- Ek in C. unfold quotient_equation in C. rewrite Ea in C. exact C.
Qed.

End Guarded.

(* ------------------------------------------------------------ what the fix leaves: the literal reverse equation *)
(* parent 0 tracks nothing, its only child 1 = the same words tracking e (variable 2); dictionary {}.  The
   rule is genuine.  Complement.get_equation (the dictionaries are empty, so it does not refuse) emits
   F_1(x,e) = F_0(x): coefficient of x^2*e is 1 on the left, 0 on the right.  With the proposed guard the
   reverse rule falls back to F_0(x) = 0 + F_1(x,1). *)
Definition rv_pars (l : Z) : list Z := match l with 1 => [2] | _ => [] end.
Definition rv_T (l n : Z) : list (list Z * Z) :=
  match l, n with
  | 0, 2 => [([], 1)]
  | 1, 2 => [([1], 1)]
  | _, _ => []
  end.
Lemma rv_class_wf l : l = 0 \/ l = 1 -> class_wf rv_pars rv_T l.
Proof.
  intros Hl. split; [|split].
  - destruct Hl; subst l; simpl; repeat constructor; simpl; intuition discriminate.
  - destruct Hl; subst l; simpl; intuition discriminate.
  - intros n t. destruct Hl; subst l; destruct n as [|[[p'|p'|]|[p'|p'|]|]|p']; simpl; try tauto;
      intros [<-|[]]; reflexivity.
Qed.
Lemma rv_kids_wfd : Forall (kid_wfd rv_pars rv_T (rv_pars 0)) [(1, [])].
Proof.
  constructor; [|constructor]. split; [apply rv_class_wf; auto|]. cbn [fst snd map].
  split; [constructor|]. split; intros x [].
Qed.
Lemma rv_genuine : union_genuine rv_pars rv_T 0 [(1, [])].
Proof.
  intros n Hn e. cbn [psum fst snd].
  destruct n as [|[[p'|p'|]|[p'|p'|]|]|p']; try reflexivity.
  unfold cnt. simpl. lia.
Qed.
Theorem reverse_unmapped_refuted :
  rule_equation rv_pars (RRevUnion (mkorule 0 [1] [[]]) 0) = Ok (Fun 1 [Var 0; Var 2]) (Fun 0 [Var 0]) /\
  ~ match rule_equation rv_pars (RRevUnion (mkorule 0 [1] [[]]) 0) with
    | Ok lhs rhs => holds (SN rv_T 2) (fun _ => []) [0; 2] 2 lhs rhs
    | _ => False
    end.
Proof.
  split; [reflexivity|].
  intros [p [q [Hp [Hq H]]]]. vm_compute in Hp, Hq.
  injection Hp as <-. injection Hq as <-.
  specialize (H (fun u => if u =? 0 then 2 else if u =? 2 then 1 else 0)).
  vm_compute in H. assert (1 = 0) as E by (apply H; split; discriminate). discriminate E.
Qed.
