(* C08 with extra parameters — one product rule: the rows of the matrices enumerated by
   _valid_compositions, what CartesianProduct.get_extra_parameters hands to the children, the
   weight of a matrix, and why the cumulative thresholds never exceed the count
   CartesianProduct.get_terms computes (the walk's weights are masses of disjoint sets of the
   combinations get_terms sums over). *)
From Coq Require Import ZArith List Bool Lia.
From CSS Require Import Gen.Prelude Gen.Compositions Count.CompositionsSpec Count.Terms Count.Constructors
  Count.ConstructorsUnionProduct Count.ConstructorsDict
  Count.SampleModel Count.SampleWalk Count.SamplePick Count.SampleComps Count.SampleModelParams
  Count.SampleParamsDict Count.SampleParamsSpec Count.SampleParamsUnion Count.SampleParamsSums.
Import ListNotations.
Open Scope Z_scope.

(* ------------------------------------------------------------------ rows *)
Definition rowvals (pvars : list Z) (v : vec) : list Z := map (vget v) (seq 1 (length pvars)).

Lemma rowvals_length pvars v : length (rowvals pvars v) = length pvars.
Proof. unfold rowvals. rewrite map_length, seq_length. reflexivity. Qed.

Lemma rowvals_nth pvars v j : (j < length pvars)%nat -> nth j (rowvals pvars v) 0 = vget v (S j).
Proof.
  intros Hj. unfold rowvals. rewrite (nth_indep _ 0 (vget v 0)) by (rewrite map_length, seq_length; exact Hj).
  rewrite map_nth, seq_nth by exact Hj. reflexivity.
Qed.

Lemma row_split pvars (v : vec) : length v = S (length pvars) -> v = vget v 0 :: rowvals pvars v.
Proof.
  intros Hl. apply vec_ext.
  - simpl. rewrite rowvals_length. exact Hl.
  - intros k Hk. destruct k as [|k]; [reflexivity|]. unfold vget at 2. simpl.
    rewrite rowvals_nth by lia. reflexivity.
Qed.

Lemma rowvals_cons pvars s (w : list Z) : length w = length pvars -> rowvals pvars (s :: w) = w.
Proof.
  intros Hl. apply (nth_ext _ _ 0 0).
  - rewrite rowvals_length. lia.
  - intros j Hj. rewrite rowvals_length in Hj. rewrite rowvals_nth by exact Hj. reflexivity.
Qed.

Lemma tuple_of_row_dict pvars v : NoDup pvars -> tuple_of pvars (row_dict pvars v) = Some (rowvals pvars v).
Proof. intros Hnd. apply tuple_of_combine; [exact Hnd|apply rowvals_length]. Qed.

Lemma in_combine_seq (pvars : list Z) j s : (j < length pvars)%nat ->
  In ((s + j)%nat, nth j pvars 0) (combine (seq s (length pvars)) pvars).
Proof.
  revert j s. induction pvars as [|x pvars IH]; intros j s Hj; simpl in Hj; [lia|].
  simpl. destruct j as [|j]; [left; f_equal; lia|]. right.
  replace (s + S j)%nat with (S s + j)%nat by lia. apply IH. lia.
Qed.

Lemma in_combine_seq_inv (pvars : list Z) k pv s :
  In (k, pv) (combine (seq s (length pvars)) pvars) ->
  exists j, (j < length pvars)%nat /\ k = (s + j)%nat /\ pv = nth j pvars 0.
Proof.
  revert s. induction pvars as [|x pvars IH]; intros s H; simpl in H; [destruct H|].
  destruct H as [E|H].
  - injection E as <- <-. exists 0%nat. simpl. split; [lia|]. split; [lia|reflexivity].
  - destruct (IH (S s) H) as (j & Hj & -> & ->). exists (S j). simpl. split; [lia|]. split; [lia|reflexivity].
Qed.

(* ------------------------------------------------------------------ one child of a product *)
Section ProductChild.
  Variable rule_of : nat -> pcls.
  Variable c : nat.
  Variable ce : nat * dict.
  Let ci := fst ce.
  Let ep := snd ce.
  Let pvars := pars rule_of c.
  Hypothesis Hpn : NoDup pvars.
  Hypothesis Hcn : NoDup (pars rule_of ci).
  Hypothesis Hep : ep_ok rule_of c ce.
  Hypothesis Htr : forall cv, In cv (pars rule_of ci) -> In cv (map snd ep).

  (* a product child is a union child without fixed values *)
  Lemma pchild_union_ok : union_child_ok rule_of c (ce, []).
  Proof.
    split; [exact Hep|]. split; [constructor|]. split; [intros k []|].
    intros cv Hcv. left. apply Htr. exact Hcv.
  Qed.

  Lemma dict_for_row v : dict_for rule_of c (row_dict pvars v) (rowvals pvars v).
  Proof.
    split; [rewrite row_dict_keys; exact Hpn|]. split; [rewrite row_dict_keys; auto|].
    apply tuple_of_row_dict. exact Hpn.
  Qed.

  (* the entries of a row at the parent parameters the child's dictionary does not mention are 0 *)
  Definition zero_off (v : vec) : Prop :=
    forall j, (j < length pvars)%nat -> dget ep (nth j pvars 0) = None -> vget v (S j) = 0.

  Lemma zero_off_assert v : zero_off v -> prod_assert_zero pvars ep v = true.
  Proof.
    intros H. unfold prod_assert_zero. apply forallb_forall. intros [k pv] Hin.
    destruct (in_combine_seq_inv pvars k pv 1 Hin) as (j & Hj & -> & ->). simpl.
    unfold dmem. destruct (dget ep (nth j pvars 0)) eqn:E; [reflexivity|]. simpl.
    apply Z.eqb_eq. apply H; assumption.
  Qed.

  Lemma zero_off_skip v : zero_off v -> union_zero_skip (union_zeroes pvars ep) (row_dict pvars v) = false.
  Proof.
    intros H. apply union_zero_skip_false. intros k val Hin Hz.
    apply union_zeroes_in in Hz. destruct Hz as [Hk E].
    destruct (In_nth _ _ 0 Hk) as (j & Hj & Ej).
    assert (Hv : dget (row_dict pvars v) k = Some val).
    { apply dget_nodup; [rewrite row_dict_keys; exact Hpn|exact Hin]. }
    rewrite <- Ej in Hv. rewrite (row_dict_nth pvars v j Hpn Hj) in Hv. injection Hv as <-.
    apply H; [exact Hj|rewrite Ej; exact E].
  Qed.

  Lemma prod_child_noerr v : exists o, prod_child_params ep pvars v [] = Ok o.
  Proof.
    rewrite prod_child_params_row.
    exact (union_child_no_error rule_of c (ce, []) Hpn pchild_union_ok _ _ (dict_for_row v)).
  Qed.

  Lemma prod_child_tuple v Q : prod_child_params ep pvars v [] = Ok (Some Q) ->
    exists q, tuple_of (pars rule_of ci) Q = Some q.
  Proof.
    rewrite prod_child_params_row. intros H.
    exact (union_child_tuple rule_of c (ce, []) pchild_union_ok _ Q H).
  Qed.

  (* a row whose dictionary is consistent IS the row of the tuple the child is asked with *)
  Lemma prod_child_back v Q q :
    length v = S (length pvars) -> zero_off v ->
    prod_child_params ep pvars v [] = Ok (Some Q) -> tuple_of (pars rule_of ci) Q = Some q ->
    v = vget v 0 :: cmap rule_of c ce q /\ dict_for rule_of ci Q q.
  Proof.
    intros Hl Hz HQ Hq. rewrite prod_child_params_row in HQ.
    destruct (union_child_back rule_of c (ce, []) Hpn Hcn pchild_union_ok _ _ (dict_for_row v) Q q HQ
                               (zero_off_skip v Hz) Hq) as [Hm Hdf].
    split; [|exact Hdf]. simpl in Hm. rewrite Hm. apply row_split. exact Hl.
  Qed.

  Lemma cmap_length q : length (cmap rule_of c ce q) = length pvars.
  Proof. unfold cmap. apply dict_sem_length. Qed.

  (* the row of a tuple of the right arity is consistent and hands the child exactly that tuple *)
  Lemma prod_child_forward s q :
    length q = length (pars rule_of ci) ->
    zero_off (s :: cmap rule_of c ce q) /\
    exists Q, prod_child_params ep pvars (s :: cmap rule_of c ce q) [] = Ok (Some Q) /\ dict_for rule_of ci Q q.
  Proof.
    intros Hl. set (v := s :: cmap rule_of c ce q).
    assert (Hz : zero_off v).
    { intros j Hj E. unfold v, vget. simpl. unfold cmap. fold ci ep pvars.
      rewrite dict_sem_nth by exact Hj. apply dict_val_nokey. exact E. }
    split; [exact Hz|]. rewrite prod_child_params_row.
    assert (Hrv : rowvals pvars v = cmap rule_of c ce q) by (apply rowvals_cons; apply cmap_length).
    pose proof (dict_for_row v) as Hdf. rewrite Hrv in Hdf.
    destruct (union_child_forward rule_of c (ce, []) Hpn Hcn pchild_union_ok _ _ Hdf q Hl eq_refl) as (Q & HQ & HdQ & _).
    - intros k val [].
    - exists Q. split; [exact HQ|exact HdQ].
  Qed.
End ProductChild.

(* ------------------------------------------------------------------ the whole product rule *)
Lemma Forall2_map_l {A B C} (R : B -> C -> Prop) (f : A -> B) l l' :
  Forall2 R (map f l) l' <-> Forall2 (fun x y => R (f x) y) l l'.
Proof.
  revert l'. induction l as [|x l IH]; intros l'; simpl.
  - split; intros H; inversion H; constructor.
  - split; intros H; inversion H; subst; constructor; try assumption; apply IH; assumption.
Qed.

Lemma combine_map_both {A B C} (f : A -> B) (g : A -> C) l :
  combine (map f l) (map g l) = map (fun x => (f x, g x)) l.
Proof. induction l as [|x l IH]; simpl; [reflexivity|]. f_equal. exact IH. Qed.

Lemma nth_map_default {A} (g : A -> Z) (l : list A) (a : A) j : (j < length l)%nat -> nth j (map g l) 0 = g (nth j l a).
Proof. intros H. rewrite (nth_indep _ 0 (g a)) by (rewrite map_length; exact H). apply map_nth. Qed.

Lemma nth_map_default_o {A} (g : A -> option Z) (l : list A) (a : A) j :
  (j < length l)%nat -> nth j (map g l) None = g (nth j l a).
Proof. intros H. rewrite (nth_indep _ None (g a)) by (rewrite map_length; exact H). apply map_nth. Qed.

(* one call of a sub-sampler: child, size, the dictionary handed over, the tuple it holds *)
Definition call := (nat * Z * dict * params)%type.
Definition cc (x : call) : nat := fst (fst (fst x)).
Definition cs (x : call) : Z := snd (fst (fst x)).
Definition cQ (x : call) : dict := snd (fst x).
Definition cq (x : call) : params := snd x.
Definition call_arg (x : call) : nat * (Z * dict) := (cc x, (cs x, cQ x)).

Lemma zprod_pos_all l : Forall (fun x => 0 <= x) l -> 0 < zprod l -> Forall (fun x => 0 < x) l.
Proof.
  induction 1 as [|x l Hx Hl IH]; intros Hp; [constructor|].
  unfold zprod in *. simpl in Hp.
  assert (0 <= fold_right Z.mul 1 l).
  { clear -Hl. induction Hl as [|y l Hy _ IH]; simpl; [lia|nia]. }
  constructor; [nia|]. apply IH. nia.
Qed.

Section ProductRule.
  Variable rule_of : nat -> pcls.
  Variable tab : nat -> Z -> terms.
  Hypothesis Htab : tables_ok rule_of tab.
  Hypothesis Hcon : contract_ok rule_of tab.
  Variable c : nat.
  Variable n : Z.

  Notation pvars := (pars rule_of c).
  Notation d := (S (length (pars rule_of c))).
  Notation pk := (pkid rule_of tab n).

  Definition child_ok (ce : nat * dict) : Prop :=
    ep_ok rule_of c ce /\ forall cv, In cv (pars rule_of (fst ce)) -> In cv (map snd (snd ce)).

  (* what the reliance profile guarantees of a row *)
  Definition row_good (ce : nat * dict) (v : vec) : Prop :=
    length v = d /\ zero_off rule_of c ce v /\
    pmin rule_of (fst ce) <= vget v 0 /\ (pk_atom (rule_of (fst ce)) = true -> vget v 0 <= pmin rule_of (fst ce)).

  Lemma pc_mins_minrow ce : pc_mins pvars (pk ce) = minrow rule_of c ce.
  Proof. reflexivity. Qed.

  Lemma profile_row_good pmins P ce v :
    in_profile d pmins P (pc_mins pvars (pk ce)) (pc_maxs pvars (pk ce)) v -> row_good ce v.
  Proof.
    intros [Hl H]. split; [exact Hl|]. split; [|split].
    - intros j Hj E. destruct (H (S j)) as (H1 & _ & H3); [lia|].
      unfold pc_mins, pc_maxs, vget in H1, H3. simpl in H1, H3.
      rewrite (nth_map_default _ pvars 0 j Hj) in H1. rewrite (nth_map_default_o _ pvars 0 j Hj) in H3.
      rewrite E in H1, H3. specialize (H3 0 eq_refl). unfold vget in *. lia.
    - destruct (H 0%nat) as (H1 & _ & _); [lia|]. exact H1.
    - intros Ha. destruct (H 0%nat) as (_ & _ & H3); [lia|].
      apply H3. unfold pc_maxs. simpl. rewrite Ha. reflexivity.
  Qed.

  (* the rows of a matrix, the dictionaries built for the children and the tuples they read *)
  Inductive rows_rel : list (nat * dict) -> list vec -> list dict -> list params -> Prop :=
  | rows_nil : rows_rel [] [] [] []
  | rows_cons (ce : nat * dict) (v : vec) (Q : dict) (q : params) ces M Qs qs :
      prod_child_params (snd ce) pvars v [] = Ok (Some Q) ->
      tuple_of (pars rule_of (fst ce)) Q = Some q ->
      rows_rel ces M Qs qs -> rows_rel (ce :: ces) (v :: M) (Q :: Qs) (q :: qs).

  Lemma rows_rel_lengths ces M Qs qs : rows_rel ces M Qs qs ->
    length M = length ces /\ length Qs = length ces /\ length qs = length ces.
  Proof. induction 1; simpl; lia. Qed.

  (* CartesianProduct.get_extra_parameters: never an exception on rows in the profile *)
  Lemma prod_extra_rows : forall ces M,
    Forall child_ok ces -> Forall2 row_good ces M ->
    prod_extra pvars (map pk ces) M = Ok None \/
    exists Qs qs, rows_rel ces M Qs qs /\ prod_extra pvars (map pk ces) M = Ok (Some (combine (sizes_of M) Qs)).
  Proof.
    destruct Htab as (Hpn & _).
    intros ces M Hok HF. induction HF as [|ce v ces M Hg HF IH]; simpl.
    - right. exists [], []. split; [constructor|reflexivity].
    - inversion Hok as [|? ? [Hep Htr] Hok']; subst.
      destruct Hg as (Hl & Hz & _).
      rewrite (zero_off_assert rule_of c ce v Hz). simpl.
      destruct (prod_child_noerr rule_of c ce (Hpn c) Hep Htr v) as (o & Ho). rewrite Ho.
      destruct o as [Q|]; [|left; reflexivity].
      destruct (prod_child_tuple rule_of c ce Hep Htr v Q Ho) as (q & Hq).
      destruct (IH Hok') as [E|(Qs & qs & HR & E)]; rewrite E; [left; reflexivity|].
      right. exists (Q :: Qs), (q :: qs). split; [constructor; assumption|reflexivity].
  Qed.

  (* subrecs of a product child on the sizes a composition can give it *)
  Lemma kid_upto_count ci s Q q : 0 <= s <= n -> tuple_of (pars rule_of ci) Q = Some q ->
    rec_count (kid_upto rule_of tab n ci) s Q = Ok (pcnt tab ci s q).
  Proof.
    intros Hs Hq. unfold rec_count. simpl. fold (pars rule_of ci). rewrite Hq.
    destruct Htab as (_ & Hnd & _).
    rewrite (table_get_flat (tab ci) s q (py_range 0 (n + 1))).
    - rewrite table_get_sized by apply Hnd. reflexivity.
    - apply NoDup_py_range'.
    - apply in_py_range'. lia.
  Qed.

  (* the children's counts at the sizes and tuples of a matrix *)
  Definition cnts (ces : list (nat * dict)) (M : list vec) (qs : list params) : list Z :=
    map (fun x : (nat * dict) * vec * params => pcnt tab (fst (fst (fst x))) (vget (snd (fst x)) 0) (snd x))
        (combine (combine ces M) qs).

  Lemma cnts_nonneg ces M qs : Forall (fun x => 0 <= x) (cnts ces M qs).
  Proof.
    apply Forall_forall. intros x Hx. unfold cnts in Hx. apply in_map_iff in Hx. destruct Hx as (y & <- & _).
    apply tget_nonneg. destruct Htab as (_ & _ & Hnn). apply Hnn.
  Qed.

  Lemma prod_weight_from_rows : forall ces M Qs qs tmp,
    rows_rel ces M Qs qs -> Forall (fun v => 0 <= vget v 0 <= n) M ->
    prod_weight_from tmp (map pk ces) (combine (sizes_of M) Qs) = Ok (tmp * zprod (cnts ces M qs)).
  Proof.
    intros ces M Qs qs tmp HR. revert tmp. induction HR as [|ce v Q q ces M Qs qs HQ Hq HR IH]; intros tmp HM.
    - simpl. unfold zprod. simpl. f_equal. lia.
    - inversion HM as [|? ? Hv HM']; subst.
      assert (Ec : zprod (cnts (ce :: ces) (v :: M) (q :: qs)) = pcnt tab (fst ce) (vget v 0) q * zprod (cnts ces M qs))
        by reflexivity.
      rewrite Ec. simpl.
      match goal with |- context [rec_count ?a ?b ?c] =>
        replace (rec_count a b c) with (@Ok Z (pcnt tab (fst ce) (vget v 0) q))
          by (symmetry; apply kid_upto_count; assumption) end.
      destruct (tmp * pcnt tab (fst ce) (vget v 0) q =? 0) eqn:E.
      + apply Z.eqb_eq in E. f_equal. rewrite Z.mul_assoc, E. lia.
      + rewrite (IH _ HM'). f_equal. lia.
  Qed.

  (* ---------------------------------------------------------------- a matrix is the matrix of its tuples *)
  Definition rows_of (ces : list (nat * dict)) (ss : list Z) (qs : list params) : list vec :=
    map (fun x : (nat * dict) * Z * params => snd (fst x) :: cmap rule_of c (fst (fst x)) (snd x))
        (combine (combine ces ss) qs).

  Lemma rows_rel_rows_of : forall ces M Qs qs,
    Forall child_ok ces -> Forall2 row_good ces M -> rows_rel ces M Qs qs ->
    M = rows_of ces (sizes_of M) qs /\
    Forall2 (fun (cq : (nat * dict) * params) Q => dict_for rule_of (fst (fst cq)) Q (snd cq)) (combine ces qs) Qs.
  Proof.
    destruct Htab as (Hpn & _).
    intros ces M Qs qs Hok HF HR. revert Hok HF.
    induction HR as [|ce v Q q ces M Qs qs HQ Hq HR IH]; intros Hok HF.
    - split; [reflexivity|constructor].
    - inversion Hok as [|? ? [Hep Htr] Hok']; subst. inversion HF as [|? ? ? ? Hg HF']; subst.
      destruct Hg as (Hl & Hz & _).
      destruct (prod_child_back rule_of c ce (Hpn c) (Hpn _) Hep Htr v Q q Hl Hz HQ Hq) as [Ev Hdf].
      destruct (IH Hok' HF') as [EM HFQ]. split.
      + unfold rows_of. simpl. fold (rows_of ces (sizes_of M) qs). rewrite <- EM. f_equal. exact Ev.
      + simpl. constructor; assumption.
  Qed.

  Lemma colsum_rows_of : forall ces ss qs k, length ss = length ces -> length qs = length ces ->
    colsum (S k) (rows_of ces ss qs)
    = zsum (fun fk : (params -> params) * params => nth k (fst fk (snd fk)) 0) (combine (map (cmap rule_of c) ces) qs).
  Proof.
    induction ces as [|ce ces IH]; intros [|s ss] [|q qs] k H1 H2; simpl in *; try lia.
    unfold rows_of in *. simpl. rewrite (IH ss qs k) by lia. unfold vget. simpl. reflexivity.
  Qed.

  Lemma colsum0_rows_of : forall ces ss qs, length ss = length ces -> length qs = length ces ->
    sizes_of (rows_of ces ss qs) = ss.
  Proof.
    induction ces as [|ce ces IH]; intros [|s ss] [|q qs] H1 H2; simpl in *; try lia.
    - reflexivity.
    - unfold rows_of in *. simpl. f_equal. apply IH; lia.
  Qed.

  (* the tuples of a matrix whose columns sum to (n, p) are sent to p by _new_param *)
  Lemma rows_new_param ces ss qs (p : params) :
    ces <> [] -> length ss = length ces -> length qs = length ces -> length p = length pvars ->
    (forall k, (k < d)%nat -> colsum k (rows_of ces ss qs) = vget (n :: p) k) ->
    new_param (map (cmap rule_of c) ces) qs = p.
  Proof.
    intros Hne H1 H2 Hp Hc.
    assert (HL : forall f k, In f (map (cmap rule_of c) ces) -> length (f k) = length pvars).
    { intros f k Hf. apply in_map_iff in Hf. destruct Hf as (ce & <- & _). apply cmap_length. }
    assert (Hne' : map (cmap rule_of c) ces <> []) by (destruct ces; [congruence|discriminate]).
    assert (Hlen : length (map (cmap rule_of c) ces) = length qs) by (rewrite map_length; lia).
    apply (nth_ext _ _ 0 0).
    - destruct (new_param_nth _ qs (length pvars) 0%nat Hlen Hne' HL) as [L _]. lia.
    - intros j Hj.
      destruct (new_param_nth _ qs (length pvars) j Hlen Hne' HL) as [L N]. rewrite L in Hj.
      rewrite N. rewrite <- colsum_rows_of with (ss := ss) by assumption.
      rewrite Hc by lia. reflexivity.
  Qed.

  Lemma cnts_rows_of : forall l ss qs, length ss = length l -> length qs = length l ->
    cnts l (rows_of l ss qs) qs
    = map (fun x : (nat * dict) * Z * params => pcnt tab (fst (fst (fst x))) (snd (fst x)) (snd x))
          (combine (combine l ss) qs).
  Proof.
    induction l as [|ce l IH]; intros [|s ss] [|q qs] H1 H2; simpl in *; try lia.
    - reflexivity.
    - unfold cnts, rows_of in *. simpl. f_equal. apply IH; lia.
  Qed.

  Lemma cnts_map2 : forall ces M Qs qs, rows_rel ces M Qs qs ->
    cnts ces M qs = map2 tget (tabs_at (map tab (map fst ces)) (sizes_of M)) qs.
  Proof.
    induction 1 as [|ce v Q q ces M Qs qs HQ Hq HR IH]; [reflexivity|].
    unfold cnts in *. simpl. f_equal. exact IH.
  Qed.

  (* ---------------------------------------------------------------- the matrices _valid_compositions enumerates *)
  Hypothesis Hprod : product_ok rule_of tab c.
  Variable p : params.
  Hypothesis Hp : length p = length pvars.

  Notation ces := (kid_eps rule_of c).
  Notation kidsl := (map fst (kid_eps rule_of c)).
  Notation comps := (prod_comps pvars (pmins_of (rule_of c)) (map pk (kid_eps rule_of c)) (n :: p)).
  Notation weight := (prod_weight pvars (map pk (kid_eps rule_of c))).
  Notation Tabs := (map tab (map fst (kid_eps rule_of c))).

  Lemma ces_ne : ces <> [].
  Proof.
    destruct Hprod as (Hne & Hl & _). unfold kid_eps.
    destruct (pk_kids (rule_of c)) as [|k ks]; [congruence|].
    destruct (pk_eps (rule_of c)); [simpl in Hl; lia|discriminate].
  Qed.

  Lemma ces_ok : Forall child_ok ces.
  Proof. destruct Hprod as (_ & _ & H & _). exact H. Qed.

  Lemma kidsl_kids : kidsl = pk_kids (rule_of c).
  Proof. destruct Hprod as (_ & Hl & _). unfold kid_eps. apply map_fst_combine. lia. Qed.

  Lemma mins_maxs_combine :
    combine (map (pc_mins pvars) (map pk ces)) (map (pc_maxs pvars) (map pk ces))
    = map (fun ce => (pc_mins pvars (pk ce), pc_maxs pvars (pk ce))) ces.
  Proof. rewrite !map_map. apply combine_map_both. Qed.

  Lemma comps_spec M : In M comps ->
    Forall2 row_good ces M /\ forall k, (k < d)%nat -> colsum k M = vget (n :: p) k.
  Proof.
    intros H. unfold prod_comps in H. apply valid_comps_spec in H.
    - destruct H as [HF Hc]. split; [|exact Hc].
      rewrite mins_maxs_combine in HF. apply Forall2_map_l in HF.
      clear -HF. induction HF as [|ce v l M H _ IH]; constructor; [|exact IH].
      simpl in H. eapply profile_row_good. exact H.
    - rewrite mins_maxs_combine. pose proof ces_ne. destruct ces; [congruence|discriminate].
  Qed.

  Lemma rows_sizes_bounds M : In M comps -> Forall (fun v => 0 <= vget v 0 <= n) M.
  Proof.
    intros H. destruct (comps_spec M H) as [HF Hc].
    specialize (Hc 0%nat ltac:(lia)). unfold vget at 1 in Hc. simpl in Hc.
    assert (H0 : Forall (fun v => 0 <= vget v 0) M).
    { clear Hc H. revert HF. generalize ces. intros l HF.
      induction HF as [|ce v l M' (_ & _ & Hm & _) _ IH]; constructor; [|exact IH].
      destruct Hcon as (Hmin & _). specialize (Hmin (fst ce)). lia. }
    clear HF H. revert Hc. generalize n. induction H0 as [|v M' Hv H0 IH]; intros n0 Hc; constructor.
    - simpl in Hc. assert (0 <= colsum 0 M').
      { clear -H0. induction H0; simpl; lia. }
      lia.
    - simpl in Hc. specialize (IH (colsum 0 M') eq_refl).
      assert (0 <= vget v 0) by exact Hv.
      eapply Forall_impl; [|exact IH]. intros a Ha. simpl in Ha. lia.
  Qed.

  Lemma comps_weight M : In M comps ->
    weight M = Ok None \/
    exists Qs qs, rows_rel ces M Qs qs /\ prod_extra pvars (map pk ces) M = Ok (Some (combine (sizes_of M) Qs)) /\
                  weight M = Ok (Some (zprod (cnts ces M qs))).
  Proof.
    intros H. destruct (comps_spec M H) as [HF _].
    unfold prod_weight.
    destruct (prod_extra_rows ces M ces_ok HF) as [E|(Qs & qs & HR & E)]; rewrite E; [left; reflexivity|].
    right. exists Qs, qs. split; [exact HR|]. split; [reflexivity|].
    rewrite (prod_weight_from_rows ces M Qs qs 1 HR (rows_sizes_bounds M H)).
    f_equal. f_equal. lia.
  Qed.

  Lemma zprod_nonneg l : Forall (fun x => 0 <= x) l -> 0 <= zprod l.
  Proof. induction 1 as [|x l Hx _ IH]; unfold zprod in *; simpl; [lia|nia]. Qed.

  Lemma comps_weights_ok : weights_ok weight comps.
  Proof.
    intros M HM. destruct (comps_weight M HM) as [E|(Qs & qs & _ & _ & E)]; rewrite E.
    - exists None. split; [reflexivity|discriminate].
    - eexists. split; [reflexivity|]. intros w Ew. injection Ew as <-. apply zprod_nonneg. apply cnts_nonneg.
  Qed.

  (* ---------------------------------------------------------------- the sizes of a matrix are a composition get_terms visits *)
  Lemma comps_sizes_in M : In M comps ->
    In (sizes_of M) (compositions n (zlen Tabs) (map (pmin rule_of) kidsl) (map (pmax rule_of) kidsl)).
  Proof.
    intros H. destruct (comps_spec M H) as [HF Hc].
    specialize (Hc 0%nat ltac:(lia)). rewrite colsum0_sizes in Hc. unfold vget in Hc. simpl in Hc.
    destruct Hcon as (Hmin & _).
    apply compositions_complete.
    - unfold zlen. rewrite !map_length. pose proof ces_ne. destruct ces; [congruence|simpl; lia].
    - apply Forall_forall. intros m Hm. apply in_map_iff in Hm. destruct Hm as (ci & <- & _). apply Hmin.
    - split; [|split; [exact Hc|]].
      + unfold zlen, sizes_of. rewrite !map_length. f_equal. symmetry. eapply Forall2_len. exact HF.
      + clear Hc H. revert HF. generalize ces. intros l HF.
        induction HF as [|ce v l M' (_ & _ & Hm & Ha) _ IH]; simpl; [split; constructor|].
        destruct IH as [I1 I2]. split; constructor; try assumption.
        unfold pmax. destruct (pk_atom (rule_of (fst ce))); simpl; [apply Ha; reflexivity|exact I].
  Qed.

  Lemma tabs_at_nonneg : forall (ks : list nat) ss, Forall nonneg (tabs_at (map tab ks) ss).
  Proof.
    destruct Htab as (_ & _ & Hnn).
    induction ks as [|k ks IH]; intros [|s ss]; unfold tabs_at; simpl; constructor; [apply Hnn|apply IH].
  Qed.

  Lemma tabs_at_length : forall (ks : list nat) ss, length ss = length ks -> length (tabs_at (map tab ks) ss) = length ks.
  Proof.
    induction ks as [|k ks IH]; intros [|s ss] Hl; unfold tabs_at in *; simpl in *; try lia. f_equal. apply IH. lia.
  Qed.

  (* ---------------------------------------------------------------- weights against get_terms *)
  (* the combinations CartesianProduct.get_terms sums over: a composition of sizes and one entry
     of each child's table; its matrix; its contribution to the parent's count at p *)
  Definition combis : list (list Z * list entry) :=
    flat_map (fun ss => map (pair ss) (combos (tabs_at Tabs ss)))
             (compositions n (zlen Tabs) (map (pmin rule_of) kidsl) (map (pmax rule_of) kidsl)).
  Definition combi_matrix (y : list Z * list entry) : list vec := rows_of ces (fst y) (map fst (snd y)).
  Definition combi_mass (y : list Z * list entry) : Z :=
    if params_eqb (new_param (cmaps rule_of c) (map fst (snd y))) p then zprod (map snd (snd y)) else 0.

  Lemma combi_mass_nonneg y : In y combis -> 0 <= combi_mass y.
  Proof.
    intros Hy. unfold combis in Hy. apply in_flat_map in Hy. destruct Hy as (ss & _ & Hy).
    apply in_map_iff in Hy. destruct Hy as (cmb & <- & Hc). unfold combi_mass. simpl.
    destruct (params_eqb _ p); [|lia]. eapply combos_nonneg; [|exact Hc]. apply tabs_at_nonneg.
  Qed.

  Lemma combis_total :
    zsum combi_mass combis
    = tget (product_table (cmaps rule_of c) (map (pmin rule_of) kidsl) (map (pmax rule_of) kidsl) Tabs n) p.
  Proof.
    unfold combis. rewrite zsum_flat_map. rewrite product_table_tget. apply zsum_ext. intros ss _.
    rewrite zsum_map. rewrite comp_table_tget. reflexivity.
  Qed.

  (* the weight of a matrix is at most the mass of the combinations having that matrix *)
  Lemma weight_le_fiber M : In M comps ->
    wz weight M <= zsum (fun y => if pl_eqb (combi_matrix y) M then combi_mass y else 0) combis.
  Proof.
    intros HM.
    assert (H0 : 0 <= zsum (fun y => if pl_eqb (combi_matrix y) M then combi_mass y else 0) combis).
    { apply zsum_nonneg. intros y Hy. destruct (pl_eqb _ M); [apply combi_mass_nonneg; exact Hy|lia]. }
    unfold wz. destruct (comps_weight M HM) as [E|(Qs & qs & HR & _ & E)]; rewrite E; [exact H0|].
    destruct (comps_spec M HM) as [HF Hc].
    destruct (rows_rel_rows_of ces M Qs qs ces_ok HF HR) as [EM _].
    destruct (rows_rel_lengths ces M Qs qs HR) as (LM & _ & Lq).
    assert (Lss : length (sizes_of M) = length ces) by (unfold sizes_of; rewrite map_length; exact LM).
    assert (Hnp : new_param (cmaps rule_of c) qs = p).
    { apply (rows_new_param ces (sizes_of M) qs p ces_ne Lss Lq Hp). rewrite <- EM. exact Hc. }
    (* the block of the composition sizes_of M *)
    unfold combis. rewrite zsum_flat_map.
    etransitivity; [|apply (zsum_ge_member _ _ (sizes_of M))].
    - cbv beta. rewrite zsum_map. cbn [fst snd combi_matrix combi_mass].
      rewrite (cnts_map2 ces M Qs qs HR).
      rewrite <- zprod_tget_combos
        by (rewrite tabs_at_length by (rewrite map_length; exact Lss); rewrite map_length; lia).
      apply zsum_le. intros cmb Hc'. unfold combi_matrix, combi_mass. cbn [fst snd].
      destruct (pl_eqb (map fst cmb) qs) eqn:Eq.
      + apply pl_eqb_eq in Eq. rewrite Eq. rewrite <- EM.
        replace (pl_eqb M M) with true by (symmetry; apply pl_eqb_eq; reflexivity).
        rewrite Hnp, params_eqb_refl. lia.
      + destruct (pl_eqb _ M); [|lia]. destruct (params_eqb _ p); [|lia].
        eapply combos_nonneg; [|exact Hc']. apply tabs_at_nonneg.
    - intros ss _. rewrite zsum_map. apply zsum_nonneg. intros cmb Hc'.
      destruct (pl_eqb _ M); [|lia]. unfold combi_mass. cbn [snd]. destruct (params_eqb _ p); [|lia].
      eapply combos_nonneg; [|exact Hc']. apply tabs_at_nonneg.
    - apply comps_sizes_in. exact HM.
  Qed.

  (* THE LINK: the walk's total over _valid_compositions is at most the count get_terms computes *)
  Lemma product_total_le : total_weight weight comps <= pcnt tab c n p.
  Proof.
    destruct Hprod as (_ & _ & _ & _ & Hteq).
    unfold pcnt. rewrite (Hteq n p). rewrite <- kidsl_kids. rewrite <- combis_total.
    unfold total_weight. rewrite py_sum_zsum.
    etransitivity; [apply zsum_le; intros M HM; apply weight_le_fiber; exact HM|].
    apply zsum_fiber_le.
    - apply pl_eqb_eq.
    - unfold prod_comps. apply valid_comps_nodup.
    - apply combi_mass_nonneg.
  Qed.

  (* ---------------------------------------------------------------- the matrix of given children tuples *)
  Lemma rows_rel_fun : forall l M Qs qs Qs' qs', rows_rel l M Qs qs -> rows_rel l M Qs' qs' -> Qs = Qs' /\ qs = qs'.
  Proof.
    intros l M Qs qs Qs' qs' H. revert Qs' qs'. induction H as [|ce v Q q l M Qs qs HQ Hq HR IH]; intros Qs' qs' H'.
    - inversion H'. split; reflexivity.
    - inversion H' as [|? ? Q' q' ? ? Qs'' qs'' HQ' Hq' HR']; subst.
      rewrite HQ in HQ'. injection HQ' as <-. rewrite Hq in Hq'. injection Hq' as <-.
      destruct (IH _ _ HR') as [-> ->]. split; reflexivity.
  Qed.

  Lemma rows_rel_extra_not_none : forall l M Qs qs, rows_rel l M Qs qs -> prod_extra pvars (map pk l) M <> Ok None.
  Proof.
    intros l M Qs qs HR. induction HR as [|ce v Q q l M Qs qs HQ Hq HR IH]; simpl; [discriminate|].
    destruct (negb (prod_assert_zero pvars (snd ce) v)); [discriminate|]. rewrite HQ.
    destruct (prod_extra pvars (map pk l) M) as [[ex|]|e] eqn:Ee; try discriminate. congruence.
  Qed.

  Lemma rows_forward : forall l ss qs,
    Forall child_ok l -> length ss = length l ->
    Forall2 (fun (ce : nat * dict) q => length q = length (pars rule_of (fst ce))) l qs ->
    exists Qs, rows_rel l (rows_of l ss qs) Qs qs /\
               Forall2 (fun (cq : (nat * dict) * params) Q => dict_for rule_of (fst (fst cq)) Q (snd cq)) (combine l qs) Qs.
  Proof.
    destruct Htab as (Hpn & _).
    intros l ss qs Hok Hl HF. revert ss Hl Hok.
    induction HF as [|ce q l qs Hq HF IH]; intros [|s ss] Hl Hok; simpl in Hl; try lia.
    - exists []. split; constructor.
    - inversion Hok as [|? ? [Hep Htr] Hok']; subst.
      destruct (IH ss ltac:(lia) Hok') as (Qs & HR & HD).
      destruct (prod_child_forward rule_of c ce (Hpn c) (Hpn _) Hep Htr s q Hq) as (_ & Q & HQ & HdQ).
      exists (Q :: Qs). split.
      + unfold rows_of. simpl. fold (rows_of l ss qs). constructor; [exact HQ| |exact HR].
        destruct HdQ as (_ & _ & Ht). exact Ht.
      + simpl. constructor; assumption.
  Qed.

  Lemma row_in_bounds ce s q :
    child_ok ce -> length q = length (pars rule_of (fst ce)) -> pcnt tab (fst ce) s q <> 0 ->
    in_bounds d (pc_mins pvars (pk ce)) (pc_maxs pvars (pk ce)) (s :: cmap rule_of c ce q).
  Proof.
    destruct Htab as (Hpn & _). destruct Hcon as (_ & Hc).
    intros [[Hwf Hval] Htr] Hl Hne. destruct (Hc (fst ce) s q Hne) as (C1 & C2 & C3).
    split; [simpl; rewrite cmap_length; reflexivity|].
    intros k Hk. destruct k as [|j].
    - unfold vget, pc_mins, pc_maxs. simpl. split; [exact C1|].
      intros Mx E. destruct (pk_atom (rule_of (fst ce))); [|discriminate]. injection E as <-. apply C2. reflexivity.
    - assert (Hj : (j < length pvars)%nat) by lia.
      unfold vget, pc_mins, pc_maxs. simpl.
      rewrite (nth_map_default _ pvars 0 j Hj). rewrite (nth_map_default_o _ pvars 0 j Hj).
      unfold cmap. rewrite dict_sem_nth by exact Hj.
      destruct (dget (snd ce) (nth j pvars 0)) as [cv|] eqn:E.
      + assert (Hcv : In cv (pars rule_of (fst ce))) by (apply (Hval (nth j pvars 0)); apply dget_In; exact E).
        destruct (pos_of_in _ _ (Hpn (fst ce)) Hcv) as (i & Hi & Ei & Ep).
        assert (Ev : dict_val (pars rule_of (fst ce)) (snd ce) q (nth j pvars 0) = nth i q 0).
        { unfold dict_val. pose proof (dget_dict_get (snd ce) (nth j pvars 0)) as X. rewrite E in X. rewrite <- X, Ep. reflexivity. }
        rewrite Ev. destruct (C3 i Hi) as [D1 D2]. rewrite Ei in D1, D2.
        split; [exact D1|]. intros Mx Ex. destruct (pk_atom (rule_of (fst ce))); [|discriminate].
        injection Ex as <-. apply D2. reflexivity.
      + rewrite dict_val_nokey by exact E. split; [lia|]. intros Mx Ex. injection Ex as <-. lia.
  Qed.

  (* the children of a parse tree: sizes ss, tuples qs, all really counted.  Their matrix is
     enumerated, its weight is the product of the children's counts, and the children are asked
     with dictionaries holding exactly these tuples. *)
  Lemma tree_matrix ss qs :
    length ss = length ces -> py_sum ss = n ->
    Forall2 (fun (ce : nat * dict) q => length q = length (pars rule_of (fst ce))) ces qs ->
    (forall ce s q, In (ce, s, q) (combine (combine ces ss) qs) -> pcnt tab (fst ce) s q <> 0) ->
    new_param (cmaps rule_of c) qs = p ->
    exists Qs,
      In (rows_of ces ss qs) comps /\
      rows_rel ces (rows_of ces ss qs) Qs qs /\
      Forall2 (fun (cq : (nat * dict) * params) Q => dict_for rule_of (fst (fst cq)) Q (snd cq)) (combine ces qs) Qs /\
      prod_extra pvars (map pk ces) (rows_of ces ss qs) = Ok (Some (combine ss Qs)) /\
      weight (rows_of ces ss qs) = Ok (Some (zprod (cnts ces (rows_of ces ss qs) qs))).
  Proof.
    intros Hl Hsum HF Hcnt Hnp.
    assert (Lq : length qs = length ces) by (symmetry; eapply Forall2_len; exact HF).
    destruct (rows_forward ces ss qs ces_ok Hl HF) as (Qs & HR & HD).
    assert (HM : In (rows_of ces ss qs) comps).
    { unfold prod_comps. apply valid_comps_complete.
      - rewrite mins_maxs_combine. pose proof ces_ne. destruct ces; [congruence|discriminate].
      - intros k Hk. rewrite mins_maxs_combine, map_map. simpl.
        destruct Hprod as (_ & _ & _ & Hmins & _). apply Hmins. lia.
      - rewrite mins_maxs_combine. apply Forall2_map_l. simpl.
        pose proof ces_ok as Hok. clear HR HD Hsum Hnp Lq. revert Hl HF Hcnt Hok. generalize ces.
        intros l Hl HF. revert ss Hl. induction HF as [|ce q l qs Hq HF IH]; intros [|s ss] Hl Hcnt Hok; simpl in Hl; try lia.
        + constructor.
        + inversion Hok; subst. unfold rows_of. simpl. fold (rows_of l ss qs). constructor.
          * apply row_in_bounds; [assumption|exact Hq|]. apply (Hcnt ce s q). left. reflexivity.
          * apply IH; [lia| |assumption]. intros ce' s' q' Hin. apply Hcnt. right. exact Hin.
      - intros k Hk. destruct k as [|j].
        + rewrite colsum0_sizes, colsum0_rows_of by assumption. unfold vget. simpl. exact Hsum.
        + rewrite colsum_rows_of by assumption. unfold vget. simpl. rewrite <- Hnp.
          assert (HL : forall f k, In f (cmaps rule_of c) -> length (f k) = length pvars).
          { intros f k Hf. apply in_map_iff in Hf. destruct Hf as (ce & <- & _). apply cmap_length. }
          assert (Hne' : cmaps rule_of c <> []).
          { unfold cmaps. pose proof ces_ne. destruct ces; [congruence|discriminate]. }
          assert (Hlen : length (cmaps rule_of c) = length qs) by (unfold cmaps; rewrite map_length; lia).
          destruct (new_param_nth _ qs (length pvars) j Hlen Hne' HL) as [_ N]. rewrite N. reflexivity. }
    exists Qs. split; [exact HM|]. split; [exact HR|]. split; [exact HD|].
    destruct (comps_weight _ HM) as [E|(Qs' & qs' & HR' & Ex & Ew)].
    - (* not skipped: get_extra_parameters succeeds on this matrix *)
      exfalso. destruct (comps_spec _ HM) as [HFg _].
      destruct (prod_extra_rows ces _ ces_ok HFg) as [E'|(Qs' & qs' & HR' & E')].
      + exact (rows_rel_extra_not_none _ _ _ _ HR E').
      + unfold prod_weight in E. rewrite E' in E.
        rewrite (prod_weight_from_rows ces _ Qs' qs' 1 HR' (rows_sizes_bounds _ HM)) in E. discriminate.
    - destruct (rows_rel_fun _ _ _ _ _ _ HR HR') as [<- <-].
      rewrite colsum0_rows_of in Ex by assumption. split; [exact Ex|exact Ew].
  Qed.

  (* ---------------------------------------------------------------- the sub-sampler calls of a matrix *)
  Definition calls_of (l : list (nat * dict)) (M : list vec) (Qs : list dict) (qs : list params) : list call :=
    map (fun x : (nat * dict) * vec * dict * params =>
           (fst (fst (fst (fst x))), vget (snd (fst (fst x))) 0, snd (fst x), snd x))
        (combine (combine (combine l M) Qs) qs).

  Lemma calls_spec : forall l M Qs qs, rows_rel l M Qs qs ->
    combine (map fst l) (combine (sizes_of M) Qs) = map call_arg (calls_of l M Qs qs) /\
    map cs (calls_of l M Qs qs) = sizes_of M /\
    map cq (calls_of l M Qs qs) = qs /\
    cnts l M qs = map (fun x => pcnt tab (cc x) (cs x) (cq x)) (calls_of l M Qs qs).
  Proof.
    induction 1 as [|ce v Q q l M Qs qs HQ Hq HR (I1 & I2 & I3 & I4)]; [repeat split; reflexivity|].
    change (calls_of (ce :: l) (v :: M) (Q :: Qs) (q :: qs)) with ((fst ce, vget v 0, Q, q) :: calls_of l M Qs qs).
    change (cnts (ce :: l) (v :: M) (q :: qs)) with (pcnt tab (fst ce) (vget v 0) q :: cnts l M qs).
    repeat split.
    - simpl. f_equal. exact I1.
    - simpl. f_equal. exact I2.
    - simpl. f_equal. exact I3.
    - simpl. f_equal. exact I4.
  Qed.

  Lemma calls_dict_for : forall l M Qs qs, rows_rel l M Qs qs ->
    Forall2 (fun (cq0 : (nat * dict) * params) Q => dict_for rule_of (fst (fst cq0)) Q (snd cq0)) (combine l qs) Qs ->
    Forall (fun x => dict_for rule_of (cc x) (cQ x) (cq x)) (calls_of l M Qs qs).
  Proof.
    induction 1 as [|ce v Q q l M Qs qs HQ Hq HR IH]; intros HF; [constructor|].
    simpl in HF. inversion HF; subst.
    change (calls_of (ce :: l) (v :: M) (Q :: Qs) (q :: qs)) with ((fst ce, vget v 0, Q, q) :: calls_of l M Qs qs).
    constructor; [assumption|]. apply IH. assumption.
  Qed.

  Lemma dict_for_length P : dict_for rule_of c P p -> tuple_of pvars P = Some p /\ length P = length pvars.
  Proof.
    intros (Hnd & Hin & Ht). split; [exact Ht|].
    destruct Htab as (Hpn & _).
    assert (L1 : (length (map fst P) <= length pvars)%nat) by (apply NoDup_incl_length; [exact Hnd|exact Hin]).
    assert (L2 : (length pvars <= length (map fst P))%nat).
    { apply NoDup_incl_length; [apply Hpn|]. intros k Hk. eapply tuple_of_keys; eassumption. }
    rewrite map_length in *. lia.
  Qed.

  Lemma prod_pick_dict_walk P r : dict_for rule_of c P p ->
    prod_pick_dict pvars (pmins_of (rule_of c)) (map pk ces) n P r
    = match walk weight r 0 0%nat comps with
      | Err e => Err e
      | Ok (_, M) => match prod_extra pvars (map pk ces) M with
                     | Ok (Some ex) => Ok ex
                     | Ok None => Err E_ASSERT
                     | Err e => Err e
                     end
      end.
  Proof.
    intros HP. destruct (dict_for_length P HP) as [Ht Hl]. unfold prod_pick_dict.
    pose proof ces_ne. destruct ces as [|ce0 l] eqn:Ec; [congruence|]. simpl map at 1.
    rewrite Ht, Hl, Nat.eqb_refl. reflexivity.
  Qed.

  (* the matrix the walk returns for a threshold r >= 1 *)
  Lemma product_picked r j M :
    0 < r -> walk weight r 0 0%nat comps = Ok (j, M) ->
    exists Qs qs,
      nth_error comps j = Some M /\
      rows_rel ces M Qs qs /\
      prod_extra pvars (map pk ces) M = Ok (Some (combine (sizes_of M) Qs)) /\
      M = rows_of ces (sizes_of M) qs /\
      Forall (fun x => dict_for rule_of (cc x) (cQ x) (cq x) /\ 0 < pcnt tab (cc x) (cs x) (cq x)) (calls_of ces M Qs qs) /\
      new_param (cmaps rule_of c) qs = p /\ py_sum (sizes_of M) = n.
  Proof.
    intros Hr W. apply walk_iff in W; [|exact comps_weights_ok|exact Hr].
    destruct W as (j' & Ej & Hn & Hlo & Hhi). simpl in Ej. subst j'.
    rewrite (presum_S _ _ _ _ Hn) in Hhi. assert (Hpos : 0 < wz weight M) by lia.
    pose proof (nth_error_In _ _ Hn) as HM.
    unfold wz in Hpos. destruct (comps_weight M HM) as [E|(Qs & qs & HR & Ex & Ew)]; rewrite E in Hpos || rewrite Ew in Hpos; [lia|].
    destruct (comps_spec M HM) as [HF Hc].
    destruct (rows_rel_rows_of ces M Qs qs ces_ok HF HR) as [EM HD].
    destruct (rows_rel_lengths ces M Qs qs HR) as (LM & _ & Lq).
    assert (Lss : length (sizes_of M) = length ces) by (unfold sizes_of; rewrite map_length; exact LM).
    exists Qs, qs. split; [exact Hn|]. split; [exact HR|]. split; [exact Ex|]. split; [exact EM|].
    split; [|split].
    - destruct (calls_spec ces M Qs qs HR) as (_ & _ & _ & Ec).
      pose proof (calls_dict_for ces M Qs qs HR HD) as Hdf.
      rewrite Ec in Hpos. pose proof (cnts_nonneg ces M qs) as Hnn. rewrite Ec in Hnn.
      pose proof (zprod_pos_all _ Hnn Hpos) as Hall.
      rewrite Forall_map in Hall.
      clear -Hdf Hall. induction Hdf as [|x l Hx _ IH]; [constructor|].
      inversion Hall; subst. constructor; [split; assumption|apply IH; assumption].
    - apply (rows_new_param ces (sizes_of M) qs p ces_ne Lss Lq Hp). rewrite <- EM. exact Hc.
    - specialize (Hc 0%nat ltac:(lia)). rewrite colsum0_sizes in Hc. exact Hc.
  Qed.
End ProductRule.
