(* Objects <-> parse trees with a parameter: the words over {a, b} with the statistic k = number of a's
   (a = false), in the numbering of Count/SampleParamsExample.v (0 = eps + a.0 + b.0, 1 = eps, 2 = a.0, 3 = a,
   4 = b.0, 5 = b).  Every hypothesis of C08_uniform_objects_params holds. *)
From Coq Require Import ZArith List Bool Lia.
From CSS Require Import Base.PyList Gen.Prelude Gen.Compositions Count.CompositionsSpec
                        Count.ObjectsModel Count.ObjectsLists Count.ObjectsProofs Count.ObjectsSpec
                        Count.ObjectsExample Count.ParseTrees Count.ParseTreesProofs Count.ParseTreesExample.
From CSS Require Import Count.Terms Count.Constructors Count.ConstructorsDict Count.SampleModel Count.SampleModelParams
                        Count.SampleParamsSpec Count.SampleParamsExample Count.ParseTreesSample
                        Count.ParseTreesSampleParams.
Import ListNotations.
Open Scope Z_scope.

(* the two transcriptions of _new_param agree *)
Lemma zip_add_agree : forall a b, ObjectsModel.zip_add a b = Constructors.zip_add a b.
Proof. reflexivity. Qed.

Lemma fold_zip_add_agree : forall r x, fold_left ObjectsModel.zip_add r x = fold_left Constructors.zip_add r x.
Proof. induction r as [|y r IH]; intros x; simpl; [reflexivity|]. rewrite zip_add_agree. apply IH. Qed.

Lemma apply_maps_map2 : forall fs ks, apply_maps fs ks = map2 (fun f k => f k) fs ks.
Proof. induction fs as [|f fs IH]; intros [|k ks]; simpl; try reflexivity. rewrite IH. reflexivity. Qed.

Lemma new_param_agree fs ks : ObjectsModel.new_param fs ks = Constructors.new_param fs ks.
Proof.
  unfold ObjectsModel.new_param, Constructors.new_param. rewrite apply_maps_map2.
  unfold pmap, ObjectsModel.params, Terms.params in *.
  destruct (map2 (fun (f : list Z -> list Z) (k : list Z) => f k) fs ks); [reflexivity|apply fold_zip_add_agree].
Qed.

Fixpoint na (w : list bool) : Z := match w with [] => 0 | x :: r => (if x then 0 else 1) + na r end.
Definition wabk_par (c : nat) (w : list bool) : ObjectsModel.params := [na w].

Definition wabk_spec (c : nat) : option (rule (list bool)) :=
  match c with
  | 0%nat => Some (RUnion [1%nat; 2%nat; 4%nat] [f1; f1; f1] wab_bwdU)
  | 1%nat => Some (RVerified (wab_atom 0 []))
  | 2%nat => Some (RProduct [3%nat; 0%nat] [1; 0] [Some 1; None] [f1; f1] wab_bwdP)
  | 3%nat => Some (RVerified (wab_atom 1 [false]))
  | 4%nat => Some (RProduct [5%nat; 0%nat] [1; 0] [Some 1; None] [f1; f1] wab_bwdP)
  | 5%nat => Some (RVerified (wab_atom 1 [true]))
  | _ => None
  end.

Lemma wabk_union_contract :
  union_contract wab_size wab_in wabk_par 0%nat [1%nat; 2%nat; 4%nat] [f1; f1; f1] wab_fwdU wab_bwdU.
Proof.
  split.
  - intros o _. destruct o as [|[|] t].
    + exists 0%nat, 1%nat, []. repeat split.
    + exists 2%nat, 4%nat, (true :: t). repeat split. exists t. reflexivity.
    + exists 1%nat, 2%nat, (false :: t). repeat split. exists t. reflexivity.
  - intros i k y Hi Hy. destruct i as [|[|[|i]]]; simpl in Hi.
    + inversion Hi; subst k. simpl in Hy. subst y. exists []. repeat split.
    + inversion Hi; subst k. destruct Hy as [t ->]. exists (false :: t). repeat split.
    + inversion Hi; subst k. destruct Hy as [t ->]. exists (true :: t). repeat split.
    + destruct i; discriminate.
Qed.

Lemma wabk_product_contract (b : bool) (c ka : nat) :
  (forall w, wab_in c w <-> exists t, w = b :: t) -> (forall w, wab_in ka w <-> w = [b]) ->
  product_contract wab_size wab_in wabk_par c [ka; 0%nat] [f1; f1] wab_fwdP wab_bwdP.
Proof.
  intros Hc Hka. split.
  - intros o Ho. apply Hc in Ho. destruct Ho as [t ->]. exists [[b]; t]. split; [reflexivity|].
    split; [constructor; [apply Hka; reflexivity|constructor; [exact I|constructor]]|]. split.
    + unfold wab_size, zlen, py_sum. cbn [map fold_right length]. lia.
    + split; [|reflexivity]. unfold wabk_par, pars_of, ObjectsModel.new_param. simpl.
      unfold dict_val. simpl. f_equal. lia.
  - intros ys Hys. inversion Hys as [|k y ks ys' Hy Hys' E1 E2]; subst.
    inversion Hys' as [|k2 z ks2 ys2 Hz Hys2 E1 E2]; subst. inversion Hys2; subst.
    apply Hka in Hy. subst y. exists (b :: z). split; [reflexivity|]. split; [apply Hc; exists z; reflexivity|].
    reflexivity.
Qed.

Lemma wabk_node_ok : forall c, node_ok wab_size wab_in wabk_par wabk_spec wab_atomo wab_fwd c.
Proof.
  intros c. unfold node_ok. destruct c as [|[|[|[|[|[|c]]]]]]; simpl; auto.
  - apply wabk_union_contract.
  - intros o. tauto.
  - split; [apply (wabk_product_contract false)|apply (wab_bounds 3%nat false)]; intros w; simpl; tauto.
  - intros o. tauto.
  - split; [apply (wabk_product_contract true)|apply (wab_bounds 5%nat true)]; intros w; simpl; tauto.
  - intros o. tauto.
Qed.

Lemma wabk_closed : forall c r n c' m,
  wabk_spec c = Some r -> 0 <= n -> In (c', m) (reads r n) -> wabk_spec c' <> None.
Proof.
  intros c r n c' m H Hn Hin.
  destruct c as [|[|[|[|[|[|c]]]]]]; simpl in H; inversion H; subst; simpl in Hin; try contradiction.
  - destruct Hin as [E|[E|[E|[]]]]; inversion E; subst; discriminate.
  - apply wab_product_reads in Hin. destruct Hin as [(-> & _)|(-> & _)]; discriminate.
  - apply wab_product_reads in Hin. destruct Hin as [(-> & _)|(-> & _)]; discriminate.
Qed.

Lemma wabk_rank_reads : forall c r n c' m,
  wabk_spec c = Some r -> 0 <= n -> In (c', m) (reads r n) ->
  0 <= m /\ (wab_rank c' m < wab_rank c n)%nat.
Proof.
  intros c r n c' m H Hn Hin.
  destruct c as [|[|[|[|[|[|c]]]]]]; simpl in H; inversion H; subst; simpl in Hin; try contradiction.
  - destruct Hin as [E|[E|[E|[]]]]; inversion E; subst; unfold wab_rank; split; lia.
  - apply wab_product_reads in Hin. unfold wab_rank.
    destruct Hin as [(-> & -> & H1)|(-> & -> & H1)]; split; lia.
  - apply wab_product_reads in Hin. unfold wab_rank.
    destruct Hin as [(-> & -> & H1)|(-> & -> & H1)]; split; lia.
Qed.

(* the C08 descriptor with parameters of Count/SampleParamsExample.v describes the same rules *)
Lemma wabk_pdescribes : pdescribes wab_size wabk_par wabk_spec wab_atomo (ex_rule false).
Proof.
  intros c. unfold pdesc_at. destruct c as [|[|[|[|[|[|c]]]]]].
  7:{ assert (E : ex_rule false (S (S (S (S (S (S c)))))) = empty_cls) by (destruct c; reflexivity).
      rewrite E. simpl. split; [reflexivity|]. split; [reflexivity|]. split; [|exact I].
      intros a Hk. discriminate Hk. }
  all: simpl; (split; [reflexivity|]); (split; [reflexivity|]); split;
    try (intros a Hk Ha; try discriminate Hk; inversion Ha; subst; split; reflexivity); try exact I.
  - intros i ci Hi q _. destruct i as [|[|[|i]]]; simpl in Hi; try discriminate; try reflexivity.
    destruct i; discriminate.
  - intros qs _. apply new_param_agree.
  - intros qs _. apply new_param_agree.
Qed.
