(* C09, end to end: the EXECUTABLE step functions that Count/ConstructorsRun.v runs against the
   implementation (union_step, product_step, complement_step, quotient_step, equiv_union_step,
   equiv_complement_step, path_step — each builds the position maps from the extra_parameters
   dictionaries and then calls the constructor's get_terms) compute what the per-constructor
   theorems talk about:
     *_step_is_*      refinement: for well-formed dictionaries the step IS the constructor-level
                      get_terms applied to the maps  du_param_map / sum_param_map  of the built
                      position maps (no exception while building them);
     *_step_correct   end to end: fed with the children's true tables the step returns the true
                      table, the genuineness identity being stated through the dictionary
                      semantics dict_sem (Count/ConstructorsDict.v).                              *)
From Coq Require Import ZArith List Bool Lia.
From CSS Require Import Gen.Prelude Gen.Compositions Gen.QuotientParentShift
  Count.CompositionsSpec Count.Terms Count.Constructors Count.ConstructorsUnionProduct
  Count.ConstructorsComplement Count.ConstructorsQuotient Count.ConstructorsDerived Count.ConstructorsDict
  Count.TermsPoly Count.TermsPolyOrder Count.TermsPolyDiv Count.ConstructorsConv Count.ConstructorsQuotientParams.
Import ListNotations.
Open Scope Z_scope.

(* ---------------------------------------------------------------- vocabulary *)
Definition kid_wf (pnames : list Z) (k : kid) : Prop := wf_dict pnames (k_names k) (k_dict k).
(* what the child's map means: child tuple -> parent tuple *)
Definition kid_sem (pnames : list Z) (k : kid) : params -> params := dict_sem pnames (k_names k) (k_dict k).
(* the position map _build_children_param_map(s) builds for the child *)
Definition kid_pm (pnames : list Z) (k : kid) : list (list nat) :=
  map (fun cp => map (posn pnames) (keys_for (k_dict k) cp)) (k_names k).
Definition kid_du (pnames : list Z) (k : kid) : params -> res params := du_param_map (kid_pm pnames k) (length pnames).
Definition kid_sum (pnames : list Z) (k : kid) : params -> params := sum_param_map (kid_pm pnames k) (length pnames).
(* every key of the table has one entry per parameter of the class *)
Definition kid_keys (k : kid) (t : terms) : Prop := klen (length (k_names k)) t.

Lemma mapM_du_maps pnames kids : Forall (kid_wf pnames) kids ->
  mapM (fun k => du_map_of (child_pos_map pnames (k_names k) (k_dict k)) (length pnames)) kids
  = Ok (map (kid_du pnames) kids).
Proof.
  intros H. apply mapM_ok. intros k Hk. rewrite Forall_forall in H.
  unfold du_map_of. rewrite (child_pos_map_ok _ _ _ (H k Hk)). reflexivity.
Qed.

Lemma mapM_sum_maps pnames kids : Forall (kid_wf pnames) kids ->
  mapM (fun k => sum_map_of (child_pos_map pnames (k_names k) (k_dict k)) (length pnames)) kids
  = Ok (map (kid_sum pnames) kids).
Proof.
  intros H. apply mapM_ok. intros k Hk. rewrite Forall_forall in H.
  unfold sum_map_of. rewrite (child_pos_map_ok _ _ _ (H k Hk)). reflexivity.
Qed.

Lemma kid_du_sem pnames k key : kid_wf pnames k -> length key = length (k_names k) ->
  kid_du pnames k key = Ok (kid_sem pnames k key).
Proof.
  intros Hwf Hl. destruct (built_du_map_sem pnames (k_names k) (k_dict k) key Hwf Hl) as (pm & E1 & E2 & _).
  rewrite (child_pos_map_ok _ _ _ Hwf) in E1. inversion E1. subst pm. exact E2.
Qed.

Lemma kid_sum_sem pnames k key : kid_wf pnames k -> length key = length (k_names k) ->
  kid_sum pnames k key = kid_sem pnames k key.
Proof. intros Hwf Hl. apply built_sum_map_sem; assumption. Qed.

Lemma kid_sem_length pnames k key : length (kid_sem pnames k key) = length pnames.
Proof. unfold kid_sem, dict_sem. apply map_length. Qed.

Lemma MapsOk_kids pnames : forall kids tabs,
  Forall (kid_wf pnames) kids -> Forall2 kid_keys kids tabs ->
  MapsOk (map (kid_du pnames) kids) (map (kid_sem pnames) kids) tabs.
Proof.
  intros kids tabs Hwf H. induction H as [|k t kids tabs Hk H IH]; simpl; [constructor|].
  inversion Hwf; subst. constructor; [|apply IH; assumption].
  intros key v Hin. apply kid_du_sem; [assumption|]. apply (Hk key v Hin).
Qed.

Lemma tab_at_nil n : tab_at [] n = [].
Proof. unfold tab_at. destruct (n <? 0); [reflexivity|]. destruct (Z.to_nat n); reflexivity. Qed.

Lemma nth_map_tab_at n : forall (l : list (list terms)) j, nth j (map (fun t => tab_at t n) l) [] = tab_at (nth j l []) n.
Proof.
  induction l as [|t l IH]; intros [|j]; simpl; try (symmetry; apply tab_at_nil); [reflexivity|apply IH].
Qed.

(* ================================================================ form 0: union *)
Theorem union_step_is_union_get_terms pnames kids ktabs own n :
  Forall (kid_wf pnames) kids ->
  union_step pnames kids ktabs own n =
  union_get_terms (map (kid_du pnames) kids) (map (fun t => tab_at t n) ktabs).
Proof. intros H. unfold union_step. rewrite (mapM_du_maps _ _ H). reflexivity. Qed.

Theorem union_step_correct pnames kids ktabs Tp own n :
  Forall (kid_wf pnames) kids ->
  Forall2 kid_keys kids (map (fun t => tab_at t n) ktabs) ->
  union_genuine (map (kid_sem pnames) kids) (map (fun t => tab_at t n) ktabs) Tp ->
  exists r, union_step pnames kids ktabs own n = Ok r /\ teq r Tp.
Proof.
  intros Hwf Hk Hg. rewrite union_step_is_union_get_terms by exact Hwf.
  eapply union_correct; [apply MapsOk_kids; eassumption|exact Hg].
Qed.

(* ================================================================ form 1: product *)
Definition kid_mins (kids : list kid) : list Z := map k_min kids.
Definition kid_maxs (kids : list kid) : list (option Z) :=
  map (fun k => if k_atom k then Some (k_min k) else None) kids.

Theorem product_step_is_product_get_terms pnames kids ktabs own n :
  Forall (kid_wf pnames) kids ->
  product_step pnames kids ktabs own n =
  Ok (product_get_terms (map (kid_sum pnames) kids) (kid_mins kids) (kid_maxs kids) (map tab_at ktabs) n).
Proof. intros H. unfold product_step. rewrite (mapM_sum_maps _ _ H). reflexivity. Qed.

(* two lists of maps that agree on the keys present give the same entries *)
Inductive MapsAgree : list (params -> params) -> list (params -> params) -> list terms -> Prop :=
| MapsAgree_nil : MapsAgree [] [] []
| MapsAgree_cons f f' (t : terms) fs fs' ts :
    (forall k v, In (k, v) t -> f k = f' k) -> MapsAgree fs fs' ts -> MapsAgree (f :: fs) (f' :: fs') (t :: ts).

Lemma ctab_agree fs fs' tl : MapsAgree fs fs' tl -> ctab fs tl = ctab fs' tl.
Proof.
  intros H. unfold ctab. apply map_ext_in. intros c Hc. apply in_combos_Forall2 in Hc.
  assert (E : map2 (fun (f : params -> params) k => f k) fs (map fst c) =
              map2 (fun (f : params -> params) k => f k) fs' (map fst c)).
  { revert c Hc. induction H as [|f f' t fs fs' ts Hf H IH]; intros c Hc; inversion Hc; subst; simpl; [reflexivity|].
    destruct x as [k v]. simpl. rewrite (Hf k v) by assumption. f_equal. apply IH. assumption. }
  unfold combo_entry, new_param. rewrite E. reflexivity.
Qed.

Lemma MapsAgree_tabs_at : forall fs fs' (tabs : list (Z -> terms)) sizes,
  Forall2 (fun (ff : (params -> params) * (params -> params)) (tab : Z -> terms) =>
             forall m k v, In (k, v) (tab m) -> fst ff k = snd ff k) (combine fs fs') tabs ->
  length fs = length tabs -> length fs' = length tabs -> length sizes = length tabs ->
  MapsAgree fs fs' (tabs_at tabs sizes).
Proof.
  induction fs as [|f fs IH]; intros [|f' fs'] [|tab tabs] [|s sizes] H L1 L2 L3; simpl in *; try lia.
  - constructor.
  - inversion H as [|? ? ? ? Hhd Htl]; subst. rewrite tabs_at_cons. constructor.
    + intros k v Hin. apply (Hhd s k v Hin).
    + apply IH; try lia. exact Htl.
Qed.

Lemma product_table_agree fs fs' mins maxs (tabs : list (Z -> terms)) n :
  Forall2 (fun (ff : (params -> params) * (params -> params)) (tab : Z -> terms) =>
             forall m k v, In (k, v) (tab m) -> fst ff k = snd ff k) (combine fs fs') tabs ->
  length fs = length tabs -> length fs' = length tabs ->
  zlen mins = zlen tabs -> zlen maxs = zlen tabs ->
  product_table fs mins maxs tabs n = product_table fs' mins maxs tabs n.
Proof.
  intros H L1 L2 Lm LM. unfold product_table.
  assert (G : forall l : list (list Z), (forall t, In t l -> length t = length tabs) ->
            flat_map (fun sizes => map (combo_entry fs) (combos (tabs_at tabs sizes))) l =
            flat_map (fun sizes => map (combo_entry fs') (combos (tabs_at tabs sizes))) l).
  { induction l as [|t l IHl]; intros Hl; simpl; [reflexivity|].
    rewrite IHl by (intros t' Ht'; apply Hl; right; exact Ht'). f_equal.
    apply (ctab_agree fs fs' (tabs_at tabs t)). apply MapsAgree_tabs_at; try assumption. apply Hl. left. reflexivity. }
  apply G. intros t Ht. apply compositions_sound in Ht; [|exact Lm|exact LM].
  destruct Ht as (L & _). unfold zlen in L. lia.
Qed.

Lemma kids_agree pnames : forall kids (tabs : list (Z -> terms)),
  Forall (kid_wf pnames) kids -> Forall2 (fun k (tab : Z -> terms) => forall m, kid_keys k (tab m)) kids tabs ->
  Forall2 (fun (ff : (params -> params) * (params -> params)) (tab : Z -> terms) =>
             forall m k v, In (k, v) (tab m) -> fst ff k = snd ff k)
          (combine (map (kid_sum pnames) kids) (map (kid_sem pnames) kids)) tabs.
Proof.
  intros kids tabs Hwf H. induction H as [|k tab kids tabs Hk H IH]; simpl; [constructor|].
  inversion Hwf; subst. constructor; [|apply IH; assumption].
  intros m key v Hin. simpl. apply kid_sum_sem; [assumption|]. apply (Hk m key v Hin).
Qed.

Theorem product_step_correct pnames kids ktabs Tp own n :
  (1 <= length kids)%nat -> length ktabs = length kids ->
  Forall (kid_wf pnames) kids ->
  Forall2 (fun k (tab : Z -> terms) => forall m, kid_keys k (tab m)) kids (map tab_at ktabs) ->
  Forall (fun m => 0 <= m) (kid_mins kids) ->
  Vanish (map tab_at ktabs) (kid_mins kids) (kid_maxs kids) ->     (* minimum_size_of_object / is_atom contract *)
  product_genuine (map (kid_sem pnames) kids) (map tab_at ktabs) Tp n ->
  exists r, product_step pnames kids ktabs own n = Ok r /\ teq r Tp.
Proof.
  intros H1 Hl Hwf Hk Hm Hv Hg. rewrite product_step_is_product_get_terms by exact Hwf.
  eexists. split; [reflexivity|]. unfold product_get_terms.
  rewrite (product_table_agree (map (kid_sum pnames) kids) (map (kid_sem pnames) kids)).
  - apply product_correct; try assumption. unfold zlen. rewrite map_length. lia.
  - apply kids_agree; assumption.
  - rewrite !map_length. lia.
  - rewrite !map_length. lia.
  - unfold zlen, kid_mins. rewrite !map_length. lia.
  - unfold zlen, kid_maxs. rewrite !map_length. lia.
Qed.

(* ================================================================ form 2: complement *)
Lemma union_table_remove_at : forall idx fs tabs, (idx < length tabs)%nat -> length fs = length tabs ->
  teq (union_table fs tabs)
      (rekey (nth idx fs (fun k => k)) (nth idx tabs []) ++ union_table (remove_at idx fs) (remove_at idx tabs)).
Proof.
  induction idx as [|i IH]; intros [|f fs] [|t tabs] Hi Hl; simpl in Hi, Hl; try lia.
  - rewrite union_table_cons, !remove_at_0. apply teq_refl.
  - rewrite union_table_cons, !remove_at_S, union_table_cons. simpl nth. intros q.
    rewrite !tget_app, (IH fs tabs ltac:(lia) ltac:(lia) q), !tget_app. lia.
Qed.

(* the dictionary of the flipped child is the case the code supports: injective, every value a
   statistic of the child, every statistic of the child a value *)
Definition flip_ok (pnames : list Z) (k : kid) : Prop :=
  kid_wf pnames k /\ NoDup (map snd (k_dict k)) /\
  (forall a b, In (a, b) (k_dict k) -> In b (k_names k)) /\
  (forall cv, In cv (k_names k) -> In cv (map snd (k_dict k))).

(* parent tuple -> flipped child's tuple *)
Definition flip_sem (pnames : list Z) (k : kid) : params -> params :=
  dict_sem (k_names k) pnames (inv_dict (k_dict k)).

Lemma CMapsOk_kids pnames ppm g : forall sibs stabs,
  Forall (kid_wf pnames) sibs -> Forall2 kid_keys sibs stabs ->
  (forall key, length key = length pnames -> ppm key = Ok (g key)) ->
  CMapsOk ppm (map (kid_du pnames) sibs) (map (fun (f : params -> params) k => g (f k)) (map (kid_sem pnames) sibs)) stabs.
Proof.
  intros sibs stabs Hwf H Hp. induction H as [|k t sibs stabs Hk H IH]; simpl; [constructor|].
  inversion Hwf; subst. constructor; [|apply IH; assumption].
  intros key v Hin. rewrite kid_du_sem by (try assumption; apply (Hk key v Hin)). simpl.
  apply Hp. apply kid_sem_length.
Qed.

Lemma Forall_remove_at' {A} (P : A -> Prop) i l : Forall P l -> Forall P (remove_at i l).
Proof. apply Forall_remove_at. Qed.

Lemma remove_at_map {A B} (f : A -> B) i l : remove_at i (map f l) = map f (remove_at i l).
Proof. symmetry. apply map_remove_at. Qed.

Theorem complement_step_is_complement_get_terms pnames kids idx ptabs ktabs own n :
  let ki := nth idx kids default_kid in
  Forall (kid_wf pnames) kids ->
  (forall a b, In (a, b) (k_dict ki) -> In b (k_names ki)) ->
  exists pm, parent_pos_map pnames (k_names ki) (k_dict ki) = Ok pm /\
  complement_step pnames kids idx ptabs ktabs own n =
  complement_get_terms (du_param_map pm (length (k_names ki))) (map (kid_du pnames) (remove_at idx kids))
    (tab_at ptabs n) (map (fun t => tab_at t n) (remove_at idx ktabs)).
Proof.
  intros ki Hwf Hvals.
  assert (E : parent_pos_map pnames (k_names ki) (k_dict ki) =
              Ok (map (fun pv => match dict_get (k_dict ki) pv with Some cv => [posn (k_names ki) cv] | None => [] end) pnames)).
  { unfold parent_pos_map. apply mapM_ok. intros pv _. destruct (dict_get (k_dict ki) pv) as [cv|] eqn:Eg; [|reflexivity].
    apply dict_get_in in Eg. apply Hvals in Eg.
    unfold pos_or_keyerror, posn. destruct (pos_of (k_names ki) cv) eqn:Ep; [reflexivity|].
    exfalso. revert Ep. clear -Eg. unfold pos_of. generalize 0%nat.
    induction (k_names ki) as [|nm r IH]; intros s; [contradiction|]. simpl.
    destruct (pos_of_from (S s) r cv) eqn:E; [discriminate|]. destruct (nm =? cv) eqn:En; [discriminate|].
    destruct Eg as [->|Hin]; [rewrite Z.eqb_refl in En; discriminate|]. intros _. exact (IH Hin (S s) E). }
  eexists. split; [exact E|]. unfold complement_step. fold default_kid. fold ki.
  rewrite (mapM_du_maps pnames (remove_at idx kids)) by (apply Forall_remove_at; exact Hwf).
  simpl bind. rewrite E. reflexivity.
Qed.

Theorem complement_step_correct pnames kids idx ptabs ktabs own n :
  let ki := nth idx kids default_kid in
  (idx < length kids)%nat -> length ktabs = length kids ->
  NoDup pnames -> Forall (kid_wf pnames) kids -> flip_ok pnames ki ->
  klen (length pnames) (tab_at ptabs n) ->
  Forall2 kid_keys kids (map (fun t => tab_at t n) ktabs) ->
  Forall nonneg (map (fun t => tab_at t n) ktabs) ->
  union_genuine (map (kid_sem pnames) kids) (map (fun t => tab_at t n) ktabs) (tab_at ptabs n) ->
  exists r, complement_step pnames kids idx ptabs ktabs own n = Ok r /\
            teq r (tab_at (nth idx ktabs []) n).
Proof.
  intros ki Hi Hl Hpn Hwf (Hwfi & Hinj & Hvals & Hcov) Hpk Hk Hnn Hg.
  destruct (complement_step_is_complement_get_terms pnames kids idx ptabs ktabs own n Hwf Hvals) as (pm & Epm & ->).
  fold ki in Epm.
  destruct Hwfi as (_ & Hcn & Hkeys & Hsub).
  set (g := flip_sem pnames ki).
  assert (Hppm : forall key, length key = length pnames ->
                 du_param_map pm (length (k_names ki)) key = Ok (g key)).
  { intros key Hkey.
    destruct (complement_parent_map_sem pnames (k_names ki) (k_dict ki) key Hpn Hcn Hkeys Hinj Hvals Hkey) as (pm' & E1 & E2).
    rewrite Epm in E1. inversion E1. subst pm'. exact E2. }
  set (tabs := map (fun t => tab_at t n) ktabs) in *.
  assert (Lt : length tabs = length kids) by (unfold tabs; rewrite map_length; exact Hl).
  assert (Eti : nth idx tabs [] = tab_at (nth idx ktabs []) n).
  { unfold tabs. apply nth_map_tab_at. }
  assert (Efi : nth idx (map (kid_sem pnames) kids) (fun k => k) = kid_sem pnames ki).
  { rewrite (nth_indep _ (fun k => k) (kid_sem pnames default_kid)) by (rewrite map_length; lia).
    rewrite (map_nth (kid_sem pnames)). reflexivity. }
  assert (Hki : kid_keys ki (nth idx tabs [])).
  { apply (Forall2_nth kid_keys default_kid [] idx kids tabs Hk Hi). }
  rewrite <- Eti.
  replace (map (fun t => tab_at t n) (remove_at idx ktabs)) with (remove_at idx tabs)
    by (unfold tabs; apply remove_at_map).
  apply (complement_correct (du_param_map pm (length (k_names ki))) g (map (kid_du pnames) (remove_at idx kids))
           (map (kid_sem pnames) (remove_at idx kids)) (kid_sem pnames ki)).
  - eapply teq_trans; [exact Hg|].
    eapply teq_trans; [apply (union_table_remove_at idx); [lia|rewrite map_length; lia]|].
    rewrite Efi, remove_at_map. apply teq_refl.
  - rewrite Forall_forall in Hnn. apply Hnn. apply nth_In. lia.
  - apply Forall_remove_at. exact Hnn.
  - intros key v Hin. apply Hppm. apply filter_In in Hin. destruct Hin as [Hin _]. apply (Hpk key v Hin).
  - apply CMapsOk_kids; [apply Forall_remove_at; exact Hwf|apply Forall2_remove_at; exact Hk|exact Hppm].
  - intros key v Hin. unfold g, flip_sem, kid_sem.
    apply dict_round_trip; try assumption. apply (Hki key v Hin).
Qed.

(* ================================================================ form 4: equivalence rule of a union *)
Theorem equiv_union_step_is_union_get_terms pnames kids ktabs own n ci :
  first_nonempty kids = Some ci -> kid_wf pnames (nth ci kids default_kid) ->
  equiv_union_step pnames kids ktabs own n =
  union_get_terms [kid_du pnames (nth ci kids default_kid)] [tab_at (nth ci ktabs []) n].
Proof.
  intros Hf Hwf. rewrite (equiv_union_step_eq _ _ _ _ _ _ Hf).
  unfold du_map_of. rewrite (child_pos_map_ok _ _ _ Hwf). reflexivity.
Qed.

(* the original union rule is genuine and all children but the selected one have no objects *)
Theorem equiv_union_step_correct pnames kids ktabs Tp own n ci :
  first_nonempty kids = Some ci -> length ktabs = length kids ->
  kid_wf pnames (nth ci kids default_kid) ->
  kid_keys (nth ci kids default_kid) (tab_at (nth ci ktabs []) n) ->
  (forall j, j <> ci -> (j < length kids)%nat -> allzero (tab_at (nth j ktabs []) n)) ->
  union_genuine (map (kid_sem pnames) kids) (map (fun t => tab_at t n) ktabs) Tp ->
  exists r, equiv_union_step pnames kids ktabs own n = Ok r /\ teq r Tp.
Proof.
  intros Hf Hl Hwf Hk Hz Hg. rewrite (equiv_union_step_is_union_get_terms _ _ _ _ _ _ Hf Hwf).
  destruct (first_nonempty_spec _ _ Hf) as (Hci & _).
  set (tabs := map (fun t => tab_at t n) ktabs) in *.
  assert (Et : forall j, nth j tabs [] = tab_at (nth j ktabs []) n).
  { intros j. unfold tabs. apply nth_map_tab_at. }
  apply (union_correct _ [kid_sem pnames (nth ci kids default_kid)]).
  - constructor; [|constructor]. intros key v Hin. apply kid_du_sem; [exact Hwf|]. apply (Hk key v Hin).
  - pose proof (equiv_union_genuine ci (map (kid_sem pnames) kids) tabs Tp) as H.
    rewrite (nth_indep _ (fun k => k) (kid_sem pnames default_kid)) in H by (rewrite map_length; lia).
    rewrite (map_nth (kid_sem pnames)), Et in H. apply H.
    + unfold tabs. rewrite map_length. lia.
    + unfold tabs. rewrite !map_length. lia.
    + intros j Hj Hlt. rewrite Et. apply Hz; [exact Hj|]. unfold tabs in Hlt. rewrite map_length in Hlt. lia.
    + exact Hg.
Qed.

(* ================================================================ form 5: equivalence rule of the reverse *)
(* the code takes the dictionary of the first non-empty child; the form exists when that is the
   child idx the rule is reversed for *)
Theorem equiv_complement_step_correct pnames kids idx ptabs (Ti : terms) own n :
  let ki := nth idx kids default_kid in
  first_nonempty kids = Some idx -> NoDup pnames -> flip_ok pnames ki ->
  klen (length pnames) (tab_at ptabs n) -> kid_keys ki Ti -> nonneg Ti ->
  union_genuine [kid_sem pnames ki] [Ti] (tab_at ptabs n) ->
  exists r, equiv_complement_step pnames kids idx ptabs own n = Ok r /\ teq r Ti.
Proof.
  intros ki Hf Hpn (Hwfi & Hinj & Hvals & Hcov) Hpk Hk Hnn Hg.
  unfold equiv_complement_step. rewrite Hf. fold ki.
  destruct Hwfi as (_ & Hcn & Hkeys & Hsub).
  assert (Hppm : forall key, length key = length pnames ->
            exists pm, parent_pos_map pnames (k_names ki) (k_dict ki) = Ok pm /\
                       du_param_map pm (length (k_names ki)) key = Ok (flip_sem pnames ki key)).
  { intros key Hkey. apply complement_parent_map_sem; assumption. }
  destruct (Hppm (repeat 0 (length pnames)) (repeat_length _ _)) as (pm & Epm & _).
  unfold du_map_of. rewrite Epm. simpl bind.
  apply (equiv_complement_correct (du_param_map pm (length (k_names ki))) (flip_sem pnames ki) (kid_sem pnames ki)).
  - exact Hg.
  - exact Hnn.
  - intros key v Hin. apply filter_In in Hin. destruct Hin as [Hin _].
    destruct (Hppm key (Hpk key v Hin)) as (pm' & E1 & E2). rewrite Epm in E1. inversion E1. subst pm'. exact E2.
  - intros key v Hin. unfold flip_sem, kid_sem. apply dict_round_trip; try assumption. apply (Hk key v Hin).
Qed.


(* refinement: the step IS Complement.get_terms without siblings, over the parent map built from
   the dictionary of the first non-empty child ci and the statistics of child idx *)
Lemma parent_pos_map_values pnames cnames (d : dict) :
  (forall a b, In (a, b) d -> In b cnames) ->
  parent_pos_map pnames cnames d =
  Ok (map (fun pv => match dict_get d pv with Some cv => [posn cnames cv] | None => [] end) pnames).
Proof.
  intros Hvals. unfold parent_pos_map. apply mapM_ok. intros pv _. destruct (dict_get d pv) as [cv|] eqn:Eg; [|reflexivity].
  apply dict_get_in in Eg. apply Hvals in Eg.
  unfold pos_or_keyerror, posn. destruct (pos_of cnames cv) eqn:Ep; [reflexivity|].
  exfalso. revert Ep. clear -Eg. unfold pos_of. generalize 0%nat.
  induction cnames as [|nm r IH]; intros s; [contradiction|]. simpl.
  destruct (pos_of_from (S s) r cv) eqn:E; [discriminate|]. destruct (nm =? cv) eqn:En; [discriminate|].
  destruct Eg as [->|Hin]; [rewrite Z.eqb_refl in En; discriminate|]. intros _. exact (IH Hin (S s) E).
Qed.

Theorem equiv_complement_step_is_complement_get_terms pnames kids idx ptabs own n ci :
  let kd := nth ci kids default_kid in
  let kc := nth idx kids default_kid in
  first_nonempty kids = Some ci ->
  (forall a b, In (a, b) (k_dict kd) -> In b (k_names kc)) ->
  equiv_complement_step pnames kids idx ptabs own n =
  complement_get_terms
    (du_param_map (map (fun pv => match dict_get (k_dict kd) pv with Some cv => [posn (k_names kc) cv] | None => [] end) pnames)
                  (length (k_names kc)))
    [] (tab_at ptabs n) [].
Proof.
  intros kd kc Hf Hvals. unfold equiv_complement_step. rewrite Hf. fold kd kc.
  unfold du_map_of. rewrite (parent_pos_map_values _ _ _ Hvals). reflexivity.
Qed.

(* ================================================================ form 6: equivalence path *)
(* steps: the model's description of the rules of the path; chain: the classes the path walks
   through with their true tables (chain_ok: every link genuine through its dictionary), the
   dictionaries of the chain being the ones the steps contribute (step_dict) *)
Theorem path_step_correct s0 steps chain (T0 : terms) tabs own n :
  let first := step_source s0 in
  let lastn := step_target (last (s0 :: steps) s0) in
  NoDup first -> klen (length first) T0 ->
  chain_ok first T0 chain ->
  map step_dict (s0 :: steps) = map Some (map (fun s : list Z * dict * terms => snd (fst s)) chain) ->
  fst (chain_end first T0 chain) = lastn ->
  snd (chain_end first T0 chain) = tab_at tabs n ->
  wf_dict first lastn (fold_left dict_compose (map (fun s : list Z * dict * terms => snd (fst s)) chain) (id_dict first)) ->
  klen (length lastn) (tab_at tabs n) ->
  exists r, path_step (s0 :: steps) tabs own n = Ok r /\ teq r T0.
Proof.
  intros first lastn Hf Hk0 Hc Hd Hlast Htab Hwf HkL.
  unfold path_step. fold first. fold lastn.
  change (map (fun k : Z => (k, k)) first) with (id_dict first).
  rewrite (path_dict_fold (s0 :: steps) _ Hd). cbn [bind].
  destruct (path_union_correct first T0 chain Hf Hk0 Hc) as (pm & r & E1 & E2 & E3).
  - rewrite Hlast. exact Hwf.
  - rewrite Htab, Hlast. exact HkL.
  - rewrite Hlast in E1. rewrite Htab in E2. unfold du_map_of. rewrite E1. cbn [bind].
    exists r. split; [exact E2|exact E3].
Qed.


(* refinement: the step IS DisjointUnion.get_terms with the one child "last class", over the map
   built from the dictionaries of the steps composed in order *)
Theorem path_step_is_union_get_terms s0 steps ds pm tabs own n :
  let first := step_source s0 in
  let lastn := step_target (last (s0 :: steps) s0) in
  map step_dict (s0 :: steps) = map Some ds ->
  child_pos_map first lastn (fold_left dict_compose ds (id_dict first)) = Ok pm ->
  path_step (s0 :: steps) tabs own n =
  union_get_terms [du_param_map pm (length first)] [tab_at tabs n].
Proof.
  intros first lastn Hd Hpm. unfold path_step. fold first. fold lastn.
  change (map (fun k : Z => (k, k)) first) with (id_dict first).
  rewrite (path_dict_fold (s0 :: steps) _ Hd). cbn [bind].
  unfold du_map_of. rewrite Hpm. reflexivity.
Qed.

(* ================================================================ Rule._ensure_level *)
Lemma levels_from_ext step1 step2 : (forall own n, step1 own n = step2 own n) ->
  forall todo cache n, levels_from step1 cache n todo = levels_from step2 cache n todo.
Proof.
  intros H. induction todo as [|todo IH]; intros cache n; simpl; [reflexivity|].
  rewrite H. destruct (step2 _ n); [apply IH|reflexivity].
Qed.

Lemma levels_ext step1 step2 N : (forall own n, step1 own n = step2 own n) -> levels step1 N = levels step2 N.
Proof. intros H. unfold levels. apply levels_from_ext. exact H. Qed.

(* a step that does not look at the rule's own earlier terms (all forms but the quotient):
   if every level is correct, Rule._ensure_level returns exactly the correct levels *)
Lemma levels_from_pointwise (step : (Z -> terms) -> Z -> res terms) (good : Z -> terms -> Prop) :
  forall todo cache n,
  (forall own m, n <= m < n + Z.of_nat todo -> exists r, step own m = Ok r /\ good m r) ->
  exists tl, levels_from step cache n todo = (cache ++ tl, None) /\ length tl = todo /\
             forall j, (j < todo)%nat -> good (n + Z.of_nat j) (nth j tl []).
Proof.
  induction todo as [|todo IH]; intros cache n H.
  - exists []. simpl. rewrite app_nil_r. split; [reflexivity|]. split; [reflexivity|]. intros j Hj. lia.
  - simpl levels_from. match goal with |- context [step ?o n] => set (own := o) end.
    destruct (H own n ltac:(lia)) as (r & Hr & Hgood). rewrite Hr.
    destruct (IH (cache ++ [r]) (n + 1)) as (tl & E & Hlen & Hall).
    + intros own' m Hm. apply H. lia.
    + exists (r :: tl). rewrite E, <- app_assoc. split; [reflexivity|]. split; [simpl; lia|].
      intros [|j] Hj; simpl.
      * replace (n + 0) with n by lia. exact Hgood.
      * replace (n + Z.pos (Pos.of_succ_nat j)) with (n + 1 + Z.of_nat j) by lia. apply Hall. lia.
Qed.

Theorem levels_pointwise (step : (Z -> terms) -> Z -> res terms) (good : Z -> terms -> Prop) N :
  0 <= N ->
  (forall own m, 0 <= m <= N -> exists r, step own m = Ok r /\ good m r) ->
  exists tl, levels step N = (tl, None) /\ length tl = Z.to_nat (N + 1) /\
             forall j, (j < length tl)%nat -> good (Z.of_nat j) (nth j tl []).
Proof.
  intros HN H. unfold levels.
  destruct (levels_from_pointwise step good (Z.to_nat (N + 1)) [] 0) as (tl & E & Hlen & Hall).
  - intros own m Hm. apply H. lia.
  - exists tl. split; [exact E|]. split; [exact Hlen|]. intros j Hj. rewrite Hlen in Hj. apply (Hall j Hj).
Qed.
