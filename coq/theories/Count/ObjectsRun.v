(* sx interface of the object-generation model (C07).

   input  = [rules, queries]
   rules  = one descriptor per class label 0..L-1 (label 0 is the root):
     [0, kids, pmaps, form]              rule whose constructor is a DisjointUnion
                                         (plain union, EquivalenceRule, ReverseRule of a
                                         one-child rule, EquivalencePathRule)
     [1, kids, mins, maxs, pmaps, form]  CartesianProduct rule (max -1 = None)
     [2, tbl]                            verification rule, tbl[n] = strategy.get_objects(class, n)
     [3, m, o]                           AtomStrategy: the object o of size m
     [3, m, o, params]                   a verification rule of a class with ONE object o, of size m, filed under
                                         the parameter tuple params ([3, m, o] = no parameters)
     [4]                                 EmptyStrategy
   pmap   = [0|1, child_pos_to_parent_pos, num_parent_params]   (0: Constructor.param_map,
                                                                  1: DisjointUnion.param_map)
   form   = the rule's forward/backward maps
     [0, fwd_table, bwd_table]           the strategy's own maps, tabulated by the harness
                                         fwd_table = [[o, tuple]..], bwd_table = [[tuple, [o..]]..]
     [1, child_idx, nchildren, form]     EquivalenceRule(form)
     [2, idx, nchildren, one_nonempty, form]  ReverseRule(form, idx)
     [3, [form..]]                       EquivalencePathRule(forms)
   objects are integers >= 0; in a tuple -1 stands for None.
   queries (run in order on one shared set of caches):
     [0, label, n]     get_objects(n) of the rule of `label`        -> sorted [[params, sorted objs]..]
     [1, label, n]     the (parameters, sub_objs) pairs visited by _ensure_level_objects
                       of that rule at level n                       -> sorted [[params, tuple]..]
     [2, label, o]     forward_map(o), then backward_map of it       -> [fwd or -1, bwd or -1]
     [3, label, n]     get_terms(n) of that rule, computed by the transcribed DisjointUnion.get_terms /
                       CartesianProduct.get_terms from the NUMBERS OF OBJECTS in the children's
                       dictionaries                                  -> sorted [[params, count]..], count <> 0
     [4, label, n]     get_terms(n) of the rule of `label` through the TERMS caches of the whole
                       specification (Count/ObjectsTermsModel.v: Rule._ensure_level /
                       VerificationRule._ensure_level; one shared set of terms caches, independent of
                       the objects caches).  A verification strategy's get_terms is taken to count
                       what its get_objects lists (its contract): vterms = terms_of of the table
                                                                     -> sorted [[params, count]..], count <> 0
   a query that gets no answer (fuel, missing rule) prints [-9]. *)
From Coq Require Import ZArith List Bool.
From CSS Require Import Base.Sx Base.PyList Gen.Prelude Gen.Compositions Count.ObjectsModel
                        Count.ObjectsCountModel Count.ObjectsTermsModel.
Import ListNotations.
Open Scope Z_scope.

(* ---------------------------------------------------------------- sorting of answers *)
Fixpoint sx_leb (a b : sx) {struct a} : bool :=
  match a, b with
  | I x, I y => x <=? y
  | I _, L _ => true
  | L _, I _ => false
  | L xs, L ys =>
      (fix go (xs ys : list sx) {struct xs} : bool :=
         match xs, ys with
         | [], _ => true
         | _ :: _, [] => false
         | x :: xs', y :: ys' =>
             if sx_eqb x y then go xs' ys' else sx_leb x y
         end) xs ys
  end.

Fixpoint sx_merge (a : list sx) : list sx -> list sx :=
  fix inner (b : list sx) : list sx :=
    match a, b with
    | [], _ => b
    | _, [] => a
    | x :: a', y :: b' => if sx_leb x y then x :: sx_merge a' b else y :: inner b'
    end.

Fixpoint sx_split (l : list sx) : list sx * list sx :=
  match l with
  | [] => ([], [])
  | [x] => ([x], [])
  | x :: y :: r => let '(a, b) := sx_split r in (x :: a, y :: b)
  end.

Fixpoint sx_msort (fuel : nat) (l : list sx) : list sx :=
  match fuel with
  | O => l
  | S f =>
      match l with
      | [] | [_] => l
      | _ => let '(a, b) := sx_split l in sx_merge (sx_msort f a) (sx_msort f b)
      end
  end.
Definition sx_sort (l : list sx) : list sx := sx_msort (length l) l.

(* ---------------------------------------------------------------- decoding *)
Definition dec_tuple (s : sx) : subobj Z :=
  map (fun z => if z <? 0 then None else Some z) (sx_Zs s).
Definition enc_tuple (t : subobj Z) : sx :=
  of_Zs (map (fun o : option Z => match o with Some z => z | None => -1 end) t).

Definition tuple_eqb (a b : subobj Z) : bool := sx_eqb (enc_tuple a) (enc_tuple b).

Fixpoint lookup_fwd (tbl : list (Z * subobj Z)) (o : Z) : option (subobj Z) :=
  match tbl with
  | [] => None
  | (k, t) :: r => if Z.eqb k o then Some t else lookup_fwd r o
  end.
Fixpoint lookup_bwd (tbl : list (subobj Z * list Z)) (t : subobj Z) : option (list Z) :=
  match tbl with
  | [] => None
  | (k, l) :: r => if tuple_eqb k t then Some l else lookup_bwd r t
  end.

Inductive mform :=
| FPlain (fwd : list (Z * subobj Z)) (bwd : list (subobj Z * list Z))
| FEquiv (child_idx nchildren : nat) (inner : mform)
| FReverse (idx nchildren : nat) (one_nonempty : bool) (inner : mform)
| FPath (inner : list mform).

Fixpoint dec_form (s : sx) : mform :=
  match s with
  | I _ => FPath []
  | L l =>
      match l with
      | [I 0; ft; bt] =>
          FPlain (map (fun e => (sx_Z (sx_nth e 0), dec_tuple (sx_nth e 1))) (sx_list ft))
                 (map (fun e => (dec_tuple (sx_nth e 0), sx_Zs (sx_nth e 1))) (sx_list bt))
      | [I 1; ci; nc; inner] => FEquiv (sx_nat ci) (sx_nat nc) (dec_form inner)
      | [I 2; ix; nc; one; inner] => FReverse (sx_nat ix) (sx_nat nc) (sx_bool one) (dec_form inner)
      | [I 3; L inners] => FPath (map dec_form inners)
      | _ => FPath []
      end
  end.

Fixpoint form_fwd (m : mform) : Z -> option (subobj Z) :=
  match m with
  | FPlain ft _ => lookup_fwd ft
  | FEquiv ci _ inner => eqv_forward (form_fwd inner) ci
  | FReverse ix nc one inner => rev_forward (form_bwd inner) ix nc one
  | FPath inners => path_forward (map form_fwd inners)
  end
with form_bwd (m : mform) : subobj Z -> option (list Z) :=
  match m with
  | FPlain _ bt => lookup_bwd bt
  | FEquiv ci nc inner => eqv_backward (form_bwd inner) ci nc
  | FReverse ix _ one inner => rev_backward (form_fwd inner) ix one
  | FPath inners => path_backward (map form_bwd inners)
  end.

Definition dec_pmap (s : sx) : pmap :=
  let c2p := map sx_nats (sx_list (sx_nth s 1)) in
  let num := sx_nat (sx_nth s 2) in
  if Z.eqb (sx_Z (sx_nth s 0)) 0 then param_map_sum c2p num else param_map_first c2p num.

Definition dec_dict (s : sx) : objects Z :=
  map (fun e => (sx_Zs (sx_nth e 0), sx_Zs (sx_nth e 1))) (sx_list s).

Definition total_bwd (m : mform) (t : subobj Z) : list Z :=
  match form_bwd m t with Some l => l | None => [] end.

Definition dec_rule (s : sx) : rule Z * mform :=
  match sx_Z (sx_nth s 0) with
  | 0 => let m := dec_form (sx_nth s 3) in
         (RUnion (sx_nats (sx_nth s 1)) (map dec_pmap (sx_list (sx_nth s 2))) (total_bwd m), m)
  | 1 => let m := dec_form (sx_nth s 5) in
         (RProduct (sx_nats (sx_nth s 1)) (sx_Zs (sx_nth s 2))
                   (map (fun z => if z <? 0 then None else Some z) (sx_Zs (sx_nth s 3)))
                   (map dec_pmap (sx_list (sx_nth s 4))) (total_bwd m), m)
  | 2 => let tbl := map dec_dict (sx_list (sx_nth s 1)) in
         (RVerified (fun n => if n <? 0 then [] else nth (Z.to_nat n) tbl []), FPath [])
  | 3 => let m := sx_Z (sx_nth s 1) in let o := sx_Z (sx_nth s 2) in
         (RVerified (fun n => if n =? m then [(sx_Zs (sx_nth s 3), [o])] else []), FPath [])
  | _ => (RVerified (fun _ => []), FPath [])
  end.

(* ---------------------------------------------------------------- encoding *)
Definition enc_dict (d : objects Z) : sx :=
  L (sx_sort (map (fun e : params * list Z => L [of_Zs (fst e); L (sx_sort (map I (snd e)))]) d)).

Definition enc_pairs (ps : list (params * subobj Z)) : sx :=
  L (sx_sort (map (fun qt : params * subobj Z => L [of_Zs (fst qt); enc_tuple (snd qt)]) ps)).

Definition enc_terms (t : terms) : sx :=
  L (sx_sort (map (fun e : params * Z => L [of_Zs (fst e); I (snd e)])
                  (filter (fun e : params * Z => negb (snd e =? 0)) t))).

Definition FUEL : nat := Z.to_nat 5000.

Section Run.
Variable rules : list (rule Z * mform).
Definition spec_of (c : nat) : option (rule Z) :=
  match nth_error rules c with Some (r, _) => Some r | None => None end.

(* the pairs of one level of the rule of class c, with the children's
   dictionaries obtained through get_objects (caches shared with the other queries) *)
Definition level_pairs (s : cache) (c : nat) (n : Z) : option (cache * list (params * subobj Z)) :=
  let getf := fun s' (cm : nat * Z) => get_objects spec_of FUEL s' (fst cm) (snd cm) in
  match spec_of c with
  | Some (RUnion kids maps _) =>
      match mapM getf s (map (fun k => (k, n)) kids) with
      | Some (s1, subs) => Some (s1, pairs (union_yields maps subs))
      | None => None
      end
  | Some (RProduct kids mins maxs maps _) =>
      match mapM (fun s' sizes => mapM getf s' (combine kids sizes)) s
                 (compositions n (zlen kids) mins maxs) with
      | Some (s1, per_comp) => Some (s1, pairs (product_yields maps per_comp))
      | None => None
      end
  | Some (RVerified _) => Some (s, [])
  | None => None
  end.

Definition level_terms (s : cache) (c : nat) (n : Z) : option (cache * terms) :=
  let getf := fun s' (cm : nat * Z) => get_objects spec_of FUEL s' (fst cm) (snd cm) in
  match spec_of c with
  | Some (RUnion kids maps _) =>
      match mapM getf s (map (fun k => (k, n)) kids) with
      | Some (s1, subs) => Some (s1, union_terms maps (map terms_of subs))
      | None => None
      end
  | Some (RProduct kids mins maxs maps _) =>
      match mapM (fun s' sizes => mapM getf s' (combine kids sizes)) s
                 (compositions n (zlen kids) mins maxs) with
      | Some (s1, per_comp) => Some (s1, product_terms maps (map (map terms_of) per_comp))
      | None => None
      end
  | Some (RVerified tbl) => Some (s, terms_of (tbl n))
  | None => None
  end.

(* the counting view of the rules: a verification strategy counts what it lists *)
Definition vterms_of (c : nat) (n : Z) : terms :=
  match spec_of c with Some (RVerified tbl) => terms_of (tbl n) | _ => [] end.
Definition tspec_run : nat -> option trule := tspec_of spec_of vterms_of.

Definition run_query (s : cache) (q : sx) : cache * sx :=
  let a := sx_list q in
  let kind := sx_Z (nth 0 a (I 0)) in
  let c := sx_nat (nth 1 a (I 0)) in
  let x := sx_Z (nth 2 a (I 0)) in
  match kind with
  | 0 => match get_objects spec_of FUEL s c x with
         | Some (s', d) => (s', enc_dict d)
         | None => (s, L [I (-9)])
         end
  | 1 => match level_pairs s c x with
         | Some (s', ps) => (s', enc_pairs ps)
         | None => (s, L [I (-9)])
         end
  | 3 => match level_terms s c x with
         | Some (s', t) => (s', enc_terms t)
         | None => (s, L [I (-9)])
         end
  | _ => match nth_error rules c with
         | Some (_, m) =>
             match form_fwd m x with
             | None => (s, L [I (-1); I (-1)])
             | Some t => (s, L [enc_tuple t;
                                match form_bwd m t with Some l => of_Zs l | None => I (-1) end])
             end
         | None => (s, L [I (-9)])
         end
  end.

(* queries of kind 4 run on the terms caches, all others on the objects caches *)
Fixpoint run_queries (s : cache) (t : tcache) (qs : list sx) : list sx :=
  match qs with
  | [] => []
  | q :: r =>
      let a := sx_list q in
      if Z.eqb (sx_Z (nth 0 a (I 0))) 4 then
        match get_terms tspec_run FUEL t (sx_nat (nth 1 a (I 0))) (sx_Z (nth 2 a (I 0))) with
        | Some (t', tm) => enc_terms tm :: run_queries s t' r
        | None => L [I (-9)] :: run_queries s t r
        end
      else let '(s', ans) := run_query s q in ans :: run_queries s' t r
  end.
End Run.

Definition run_c07 (inp : sx) : sx :=
  let rules := map dec_rule (sx_list (sx_nth inp 0)) in
  L (run_queries rules empty_cache empty_tcache (sx_list (sx_nth inp 1))).
