(* sx interface of C07 extended with the parse-tree queries.  run_c07p = Count/ObjectsRun.v run_c07 (same
   decoding, same caches, the queries of kinds 0-4 answered by the SAME functions run_query / get_terms) plus
     [5, label, o]   parse of the object o of class `label` (Count/ParseTrees.v parse, through the rules'
                     forward maps - the derived forms' transcriptions included)
                     -> the tree as  [0, c]  (leaf)  /  [1, c, [[] | [tree] ..]]  (one entry per child of the
                        rule: what harness/props/c12.py Desc.tree builds on real objects), or [-1]
     [6, label, o]   unparse (parse o): backward maps composed bottom-up         -> [o'] or [-1]
     [7, label, o]   size and parameter tuple of parse o computed ON THE TREE from the leaf data of the descriptors
                     and the rules' parameter maps (Count/ParseTreesStats.v tszd / tprd = tsz / tpr of
                     Count/ParseTreesProofs.v when the leaf data are truthful, ParseTreesStatsProofs.v)
                                                                                -> [size, params] or [-1]
   atom c = the object of a verification rule of a one-object class (descriptor [3, m, o] - AtomStrategy - or
   [3, m, o, params] - an atom with parameters); every other verification rule has no leaf (its objects have no
   parse tree in the model: [-1]). *)
From Coq Require Import ZArith List Bool.
From CSS Require Import Base.Sx Base.PyList Gen.Prelude Gen.Compositions Count.ObjectsModel
                        Count.ObjectsCountModel Count.ObjectsTermsModel Count.ObjectsRun
                        Count.SampleModel Count.ParseTrees Count.ParseTreesStats.
Import ListNotations.
Open Scope Z_scope.

Definition atom_of_desc (s : sx) : option Z :=
  if Z.eqb (sx_Z (sx_nth s 0)) 3 then Some (sx_Z (sx_nth s 2)) else None.

Section RunP.
Variable rules : list (rule Z * mform).
Variable descs : list sx.

Definition atom_run (c : nat) : option Z :=
  match nth_error descs c with Some d => atom_of_desc d | None => None end.
(* Rule.forward_map of the rule of class c; a raise yields no tuple *)
Definition fwd_run (c : nat) (o : Z) : subobj Z :=
  match nth_error rules c with
  | Some (_, m) => match form_fwd m o with Some t => t | None => [] end
  | None => []
  end.
Definition arity_run (c : nat) : nat :=
  match spec_of rules c with
  | Some (RUnion k _ _) => length k
  | Some (RProduct k _ _ _ _) => length k
  | _ => O
  end.

Fixpoint enc_tree (t : tree) : sx :=
  match t with
  | Leaf c => L [I 0; of_nat c]
  | UNode c i t' =>
      L [I 1; of_nat c;
         L (map (fun j => if Nat.eqb j i then L [enc_tree t'] else L []) (seq 0 (arity_run c)))]
  | PNode c ts => L [I 1; of_nat c; L (map (fun x => L [enc_tree x]) ts)]
  end.

Definition parse_run (c : nat) (o : Z) : option tree := parse (spec_of rules) atom_run fwd_run FUEL c o.

Definition run_query_p (q : sx) : sx :=
  let a := sx_list q in
  let kind := sx_Z (nth 0 a (I 0)) in
  let c := sx_nat (nth 1 a (I 0)) in
  let x := sx_Z (nth 2 a (I 0)) in
  match parse_run c x with
  | None => L [I (-1)]
  | Some t =>
      if Z.eqb kind 5 then enc_tree t
      else if Z.eqb kind 7 then
        L [I (tszd (asz_of_descs descs) t); of_Zs (tprd (spec_of rules) (apar_of_descs descs) t)]
      else match unparse (spec_of rules) atom_run t with
           | Some o => L [I o]
           | None => L [I (-1)]
           end
  end.

(* Count/ObjectsRun.v run_queries with the two new kinds *)
Fixpoint run_queries_p (s : cache) (t : tcache) (qs : list sx) : list sx :=
  match qs with
  | [] => []
  | q :: r =>
      let a := sx_list q in
      let kind := sx_Z (nth 0 a (I 0)) in
      if Z.eqb kind 5 || Z.eqb kind 6 || Z.eqb kind 7 then run_query_p q :: run_queries_p s t r
      else if Z.eqb kind 4 then
        match get_terms (tspec_run rules) FUEL t (sx_nat (nth 1 a (I 0))) (sx_Z (nth 2 a (I 0))) with
        | Some (t', tm) => enc_terms tm :: run_queries_p s t' r
        | None => L [I (-9)] :: run_queries_p s t r
        end
      else let '(s', ans) := run_query rules s q in ans :: run_queries_p s' t r
  end.
End RunP.

Definition run_c07p (inp : sx) : sx :=
  let descs := sx_list (sx_nth inp 0) in
  let rules := map dec_rule descs in
  L (run_queries_p rules descs empty_cache empty_tcache (sx_list (sx_nth inp 1))).

(* ---------------------------------------------------------------- decidable hypotheses, evaluated on the case
   run_c07d = run_c07p with ONE more output field appended after the answers:
     [rank_ok, closed_ok, depth, leaves_ok]
   rank_ok   = Count/ParseTreesDeciders.v rankb of the rules decoded from the descriptors (1: a productivity
               certificate exists for this specification, for all sizes - ParseTreesDecidersProofs.v rankb_sound),
   closed_ok = closedb of them (closedb_sound),
   depth     = the largest position of the computed topological numbering of the same-size class graph when
               rank_ok, else 0 (compared with the harness's own longest-path computation),
   leaves_ok = Count/ParseTreesStats.v leavesb: no verification rule is given by a table, i.e. every verified class
               is one object (with its size and parameters in the descriptor) or empty - the decidable part of
               node_ok at the leaves (ParseTreesStatsProofs.v leavesb_sound). *)
From CSS Require Import Count.ParseTreesDeciders.

Definition rules_of_descs (descs : list sx) : list (rule Z) := map (fun d => fst (dec_rule d)) descs.

Definition rank_verdict (descs : list sx) : sx :=
  let rs := rules_of_descs descs in
  let pos := find_pos rs in
  let ok := check_pos rs pos in
  L [of_bool ok; of_bool (closedb rs); of_nat (if ok then fold_right Nat.max 0%nat pos else 0%nat);
     of_bool (leavesb descs)].

Definition run_c07d (inp : sx) : sx :=
  L (sx_list (run_c07p inp) ++ [rank_verdict (sx_list (sx_nth inp 0))]).
