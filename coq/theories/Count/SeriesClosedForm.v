(* C20 — the closed-form criterion.

   CombinatorialSpecification.get_genf solves the emitted system with sympy.solve and returns
   the first branch whose first check+1 Taylor coefficients of the ROOT equal the
   specification's counts.  Nothing about sympy can be proved here; what is proved is the
   REDUCTION the per-instance check of the harness relies on:

     for a univariate specification of union / product / complement / atom / empty rules whose
     forest keys carry the declared shifts and that pumps,
       IF  every rule is genuine for the true counts W (plain arithmetic: union = sum, product =
           full Cauchy product, atom, empty), W vanishes below the declared minimum sizes,
       AND a family G of coefficient sequences (the Taylor coefficients of the solved functions
           of ALL classes, not only of the root) satisfies every emitted equation at every order
           and vanishes below the declared minimum sizes,
       THEN G c n = W c n for every class c that pumps and EVERY n >= 0.

   true_counts_solution assembles `solution uspec W` from the rule-form theorems
   (union_equation_holds, complement_equation_holds, atom_equation_holds, empty_equation_holds
   of Count/EquationsRules.v; the product through product_sat_intro), so that the hypothesis of
   unique_series about the TRUE counts is a theorem once the rules are genuine.            *)
From Coq Require Import ZArith List Bool Lia.
From CSS Require Import Forest.Spec Spec.Eval Gen.Prelude Gen.ProductShifts.
From CSS Require Import Count.Series Count.SeriesConv Count.Equations Count.EquationsProofs
  Count.EquationsRules Count.SeriesUnique Count.SeriesUniqueRefuted.
Import ListNotations.
Open Scope Z_scope.

(* genuineness of a univariate rule for the count family W, in plain arithmetic *)
Definition genuine_u (W : nat -> Z -> Z) (c : nat) (r : urule) : Prop :=
  match r with
  | UUnion kids => forall n, 0 <= n -> W c n = psum (fun k => W k n) kids
  | UProduct kids =>
      forall n, 0 <= n ->
        W c n = conv (map W (map fst kids)) (map (fun _ => (0, n + 1)) (map fst kids)) n
  | UComplement p cs idx => forall n, 0 <= n -> W p n = psum (fun k => W k n) cs
                                          (* the ORIGINAL union rule p -> cs *)
  | UAtom m => forall n, 0 <= n -> W c n = if n =? m then 1 else 0
  | UEmpty => forall n, W c n = 0
  end.

Section Plain.
Variable W : nat -> Z -> Z.
Let lT := T_of W.

Lemma u_class_wf l : class_wf nopars lT l.
Proof. split; [constructor|]. split; [intros []|]. intros n t [<-|[]]. reflexivity. Qed.

Lemma u_kid_wf c : kid_wfd nopars lT [] (c, []).
Proof.
  split; [apply u_class_wf|]. cbn [fst snd map]. split; [constructor|].
  split; intros x [].
Qed.

Lemma u_cnt c n e : cnt (lT c n) e = if leqb [] e then W (Z.to_nat c) n else 0.
Proof. unfold cnt, lT, T_of. simpl. destruct (leqb [] e); lia. Qed.

Lemma u_cnt_rk c n e :
  cnt (map (fun t => (rk [] [] [] (fst t), snd t)) (lT c n)) e = if leqb [] e then W (Z.to_nat c) n else 0.
Proof. unfold cnt, lT, T_of. simpl. destruct (leqb [] e); lia. Qed.

Lemma map_snd_plain cs : map snd (plain_kids cs) = noeps cs.
Proof. unfold plain_kids, noeps. rewrite map_map. reflexivity. Qed.

Lemma u_union_genuine (c : nat) (kids : list nat) :
  (forall n, 0 <= n -> W c n = psum (fun k => W k n) kids) ->
  union_genuine nopars lT (Z.of_nat c) (plain_kids (zl kids)).
Proof.
  intros H n Hn e. rewrite u_cnt, Nat2Z.id. unfold plain_kids, zl. rewrite !psum_map. cbn [fst snd].
  unfold nopars. rewrite (psum_ext _ (fun k => if leqb [] e then W k n else 0) kids).
  - destruct (leqb [] e); [apply H; auto|]. symmetry. apply psum_zero. reflexivity.
  - intros k _. rewrite u_cnt_rk, Nat2Z.id. reflexivity.
Qed.

Lemma u_forall_kid_wf ks : Forall (kid_wfd nopars lT (nopars 0)) (plain_kids ks).
Proof. unfold plain_kids. induction ks; simpl; constructor; auto. apply u_kid_wf. Qed.

Lemma sat_union_intro c kids :
  (forall n, 0 <= n -> W c n = psum (fun k => W k n) kids) -> satisfies W c (UUnion kids).
Proof.
  intros H N _. unfold rule_equation; cbn [to_rule rule_equation_with o_parent o_children o_eps].
  pose proof (union_equation_holds nopars lT noO [0] (Z.of_nat c) (plain_kids (zl kids)) N
                (u_class_wf _) (u_forall_kid_wf _) (u_union_genuine c kids H)) as A.
  rewrite map_fst_plain, map_snd_plain in A. unfold zl in A. rewrite noeps_map in A. exact A.
Qed.

Lemma sat_complement_intro c p cs idx :
  (idx < length cs)%nat ->
  (forall n, 0 <= n -> W p n = psum (fun k => W k n) cs) -> satisfies W c (UComplement p cs idx).
Proof.
  intros Hidx H N _. unfold rule_equation; cbn [to_rule rule_equation_with o_parent o_children o_eps].
  pose proof (complement_equation_holds nopars lT noO [0] (Z.of_nat p) (zl cs) idx N
                (conj eq_refl (fun _ _ => eq_refl)) (u_class_wf _) (fun c0 _ => u_class_wf c0)
                (u_union_genuine p cs H) ltac:(unfold zl; rewrite map_length; exact Hidx)) as A.
  rewrite map_snd_plain in A. unfold zl in A at 3. rewrite noeps_map in A.
  revert A. destruct (complement_equation _ _ _); auto; intros [].
Qed.

Lemma sat_atom_intro c m :
  0 <= m -> (forall n, 0 <= n -> W c n = if n =? m then 1 else 0) -> satisfies W c (UAtom m).
Proof.
  intros Hm H N _. cbn [to_rule].
  apply (atom_equation_holds nopars lT noO [0] (Z.of_nat c) m N eq_refl Hm (or_introl eq_refl)).
  intros n Hn e. rewrite u_cnt, Nat2Z.id, (H n Hn). destruct (n =? m); destruct (leqb [] e); reflexivity.
Qed.

Lemma sat_empty_intro c : (forall n, W c n = 0) -> satisfies W c UEmpty.
Proof.
  intros H N _. cbn [to_rule].
  apply (empty_equation_holds nopars lT noO [0] (Z.of_nat c) N).
  intros n e. rewrite u_cnt, Nat2Z.id, H. destruct (leqb [] e); reflexivity.
Qed.

Lemma sat_product_intro c kids :
  (forall n, 0 <= n ->
     W c n = conv (map W (map fst kids)) (map (fun _ => (0, n + 1)) (map fst kids)) n) ->
  satisfies W c (UProduct kids).
Proof.
  intros H. apply product_sat_intro. intros N n Hn. rewrite (H n) by lia.
  set (ks := map fst kids). symmetry.
  apply conv_prune.
  - rewrite !map_length. reflexivity.
  - rewrite !map_length. reflexivity.
  - rewrite !map_map. reflexivity.
  - cbv zeta. split; apply Forall_forall; intros r Hr; apply in_map_iff in Hr;
      destruct Hr as [k [<- _]]; cbn [fst snd];
      assert (fold_right Z.add 0 (map fst (map (fun _ : nat => (0, N + 1)) ks)) = 0) as ->
        by (clear; induction ks; simpl; auto); lia.
Qed.

(* a genuine rule's equation is satisfied by the counts, at every order *)
Lemma genuine_satisfies c r : urule_wf c r -> genuine_u W c r -> satisfies W c r.
Proof.
  destruct r as [kids|kids|p cs idx|m|]; cbn [urule_wf genuine_u]; intros Wf G.
  - apply sat_union_intro; auto.
  - apply sat_product_intro; auto.
  - destruct Wf as [Hidx _]. apply sat_complement_intro; auto.
  - apply sat_atom_intro; auto.
  - apply sat_empty_intro; auto.
Qed.

End Plain.

Section Criterion.
Variable uspec : nat -> option urule.
Variable keys : list fkey.
Hypothesis keys_from_spec : forall k, In k keys ->
  exists r, uspec (parent k) = Some r /\ kids k = r_kids Z (to_srule r).
Hypothesis spec_wf : forall c r, uspec c = Some r -> urule_wf c r.

(* the TRUE counts solve the emitted system as soon as every rule is genuine *)
Theorem true_counts_solution (W : nat -> Z -> Z) :
  (forall c r, uspec c = Some r -> genuine_u W c r) ->
  (forall c m, m < 0 -> W c m = 0) ->
  (forall c kids, uspec c = Some (UProduct kids) -> forall k m, In k kids -> m < snd k -> W (fst k) m = 0) ->
  solution uspec W.
Proof.
  intros G Hneg Hlow. split; [exact Hneg|]. split; [|exact Hlow].
  intros c r E. apply genuine_satisfies; auto.
Qed.

(* the closed-form criterion *)
Theorem closed_form_criterion (W G : nat -> Z -> Z) :
  (* the true counts: every rule genuine, nothing at negative sizes or below the declared minima *)
  (forall c r, uspec c = Some r -> genuine_u W c r) ->
  (forall c m, m < 0 -> W c m = 0) ->
  (forall c kids, uspec c = Some (UProduct kids) -> forall k m, In k kids -> m < snd k -> W (fst k) m = 0) ->
  (* the candidate: Taylor coefficients of one function per class *)
  (forall c m, m < 0 -> G c m = 0) ->
  (forall c r, uspec c = Some r -> satisfies G c r) ->
  (forall c kids, uspec c = Some (UProduct kids) -> forall k m, In k kids -> m < snd k -> G (fst k) m = 0) ->
  forall c, pumps keys c -> forall n, 0 <= n -> G c n = W c n.
Proof.
  intros GW Wneg Wlow Gneg Gsat Glow c Hp n Hn.
  apply (unique_series uspec keys keys_from_spec spec_wf W G); auto.
  - apply true_counts_solution; auto.
  - split; [exact Gneg|]. split; [exact Gsat|exact Glow].
Qed.

End Criterion.
