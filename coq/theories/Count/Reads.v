(* Proofs about Count/ReadsModel.v: the reads of every constructor respect the
   shifts computed by the GENERATED shift functions. *)
From Coq Require Import ZArith List Bool Lia ZifyBool.
From CSS Require Import Gen.Prelude Gen.Compositions Gen.ReverseShifts Gen.ProductShifts
  Gen.UnionShifts Gen.QuotientParentShift Count.CompositionsSpec.
From CSS Require Export Count.ReadsModel.
Import ListNotations.
Open Scope Z_scope.

(* ---------------------------------------------------------------- list lemmas *)
Lemma in_enumerate_from {A} (d : A) : forall (l : list A) s i x,
  In (i, x) (py_enumerate_from s l) ->
  exists j, (j < length l)%nat /\ i = s + Z.of_nat j /\ x = nth j l d.
Proof.
  induction l as [|y l IH]; intros s i x H; simpl in H; [contradiction|].
  destruct H as [H|H].
  - inversion H; subst. exists 0%nat. simpl. repeat split; lia.
  - apply IH in H. destruct H as (j & Hj & Hi & Hx). exists (S j). simpl. repeat split; try lia. exact Hx.
Qed.

Lemma in_reads_of_sizes prov sizes p m :
  In (p, m) (reads_of_sizes prov sizes) ->
  exists j, (j < length sizes)%nat /\ p = prov (Z.of_nat j) /\ m = nth j sizes 0.
Proof.
  unfold reads_of_sizes, py_enumerate. intros H. apply in_map_iff in H.
  destruct H as ((j0 & s) & E & H). inversion E; subst.
  apply (in_enumerate_from 0) in H. destruct H as (j & Hj & -> & ->).
  exists j. repeat split; auto.
Qed.

Lemma nth_map_Z (f : Z -> Z) l j : (j < length l)%nat -> nth j (map f l) 0 = f (nth j l 0).
Proof. intros H. rewrite (nth_indep _ 0 (f 0)) by (rewrite map_length; exact H). apply map_nth. Qed.

Lemma zlen_map {A B} (f : A -> B) l : zlen (map f l) = zlen l.
Proof. unfold zlen. rewrite map_length. reflexivity. Qed.

Lemma zlen_length {A} (l : list A) : zlen l = Z.of_nat (length l).
Proof. reflexivity. Qed.

Lemma py_get_nat {A} (d : A) l (j : nat) : (j < length l)%nat -> py_get d l (Z.of_nat j) = nth j l d.
Proof.
  intros H. unfold py_get. rewrite zlen_length.
  replace ((0 <=? Z.of_nat j) && (Z.of_nat j <? Z.of_nat (length l))) with true by lia.
  rewrite Nat2Z.id. reflexivity.
Qed.

(* remove_at on nat indices *)
Lemma remove_at_nat {A} (i : nat) (l : list A) :
  remove_at (Z.of_nat i) l = firstn i l ++ skipn (S i) l.
Proof. unfold remove_at. rewrite Nat2Z.id. replace (Z.to_nat (Z.of_nat i + 1)) with (S i) by lia. reflexivity. Qed.

Lemma nth_remove_at {A} (d : A) : forall (l : list A) (i j : nat),
  nth j (firstn i l ++ skipn (S i) l) d = if (j <? i)%nat then nth j l d else nth (S j) l d.
Proof.
  induction l as [|x l IH]; intros i j.
  - rewrite firstn_nil, skipn_nil. simpl. destruct j; destruct (_ <? _)%nat; reflexivity.
  - destruct i as [|i].
    + simpl. destruct j; reflexivity.
    + destruct j as [|j]; [reflexivity|].
      change (nth (S j) (firstn (S i) (x :: l) ++ skipn (S (S i)) (x :: l)) d)
        with (nth j (firstn i l ++ skipn (S i) l) d).
      rewrite IH. change (S j <? S i)%nat with (j <? i)%nat.
      destruct (j <? i)%nat; reflexivity.
Qed.

Lemma length_remove_at {A} (l : list A) (i : nat) :
  (i < length l)%nat -> length (firstn i l ++ skipn (S i) l) = (length l - 1)%nat.
Proof. intros H. rewrite app_length, firstn_length, skipn_length. lia. Qed.

Lemma map_remove_at {A B} (f : A -> B) (l : list A) (i : nat) :
  map f (firstn i l ++ skipn (S i) l) = firstn i (map f l) ++ skipn (S i) (map f l).
Proof. rewrite map_app, firstn_map, skipn_map. reflexivity. Qed.

Lemma sum_remove_at : forall (l : list Z) (i : nat),
  (i < length l)%nat -> py_sum (firstn i l ++ skipn (S i) l) = py_sum l - nth i l 0.
Proof.
  induction l as [|x l IH]; intros i H; simpl in H; [lia|].
  destruct i as [|i].
  - simpl. rewrite py_sum_cons. lia.
  - change (firstn (S i) (x :: l) ++ skipn (S (S i)) (x :: l)) with (x :: (firstn i l ++ skipn (S i) l)).
    rewrite !py_sum_cons. rewrite IH by lia. simpl. lia.
Qed.

(* the filter/enumerate idiom of ReverseRule.shifts removes position idx *)
Lemma filter_enum_above : forall (l : list Z) s idx, idx < s ->
  map (fun '(i, s0) => s0) (filter (fun '(i, s0) => negb (i =? idx)) (py_enumerate_from s l)) = l.
Proof.
  induction l as [|x l IH]; intros s idx H; simpl; [reflexivity|].
  replace (s =? idx) with false by lia. simpl. rewrite IH by lia. reflexivity.
Qed.

Lemma filter_enum_remove : forall (l : list Z) s (i : nat),
  map (fun '(j, s0) => s0)
      (filter (fun '(j, s0) => negb (j =? s + Z.of_nat i)) (py_enumerate_from s l))
  = firstn i l ++ skipn (S i) l.
Proof.
  induction l as [|x l IH]; intros s i.
  - simpl. rewrite firstn_nil. reflexivity.
  - destruct i as [|i].
    + simpl. replace (s =? s + 0) with true by lia. simpl.
      apply filter_enum_above. lia.
    + replace (s + Z.of_nat (S i)) with ((s + 1) + Z.of_nat i) by lia. simpl.
      replace (s =? s + 1 + Z.of_nat i) with false by lia. simpl.
      rewrite IH. reflexivity.
Qed.

(* ---------------------------------------------------------------- shifts *)
Lemma reverse_shifts_eq (S : list Z) (i : nat) :
  reverse_shifts S (Z.of_nat i) =
  (- py_get 0 S (Z.of_nat i)) ::
  map (fun s => s + - py_get 0 S (Z.of_nat i)) (firstn i S ++ skipn (Datatypes.S i) S).
Proof.
  rewrite <- (filter_enum_remove S 0 i). reflexivity.
Qed.

Lemma reverse_shifts_length (S : list Z) idx :
  0 <= idx < zlen S -> zlen (reverse_shifts S idx) = zlen S.
Proof.
  intros H. rewrite <- (Z2Nat.id idx) by lia. rewrite reverse_shifts_eq.
  rewrite zlen_cons, zlen_map, !zlen_length in *.
  rewrite length_remove_at by lia. lia.
Qed.

Lemma product_shifts_nth (c : desc) (j : nat) : (j < length c)%nat ->
  nth j (product_shifts c) 0 = py_sum (product_min_sizes c) - nth j (product_min_sizes c) 0.
Proof.
  intros H. unfold product_shifts. cbv zeta.
  change (map (fun c0 : Z * bool => fst c0) c) with (product_min_sizes c).
  rewrite nth_map_Z by (unfold product_min_sizes; rewrite map_length; exact H). reflexivity.
Qed.

Lemma product_shifts_length (c : desc) : length (product_shifts c) = length c.
Proof. unfold product_shifts. cbv zeta. rewrite !map_length. reflexivity. Qed.

(* original child index of the p-th child (p >= 1) of a reverse rule *)
Definition orig_child (idx p : nat) : nat := if (p - 1 <? idx)%nat then (p - 1)%nat else p.

Lemma quotient_shift_nth (c : desc) (idx p : nat) :
  (idx < length c)%nat -> (1 <= p < length c)%nat ->
  nth p (reverse_shifts (product_shifts c) (Z.of_nat idx)) 0 =
  nth idx (product_min_sizes c) 0 - nth (orig_child idx p) (product_min_sizes c) 0.
Proof.
  intros Hidx Hp. rewrite reverse_shifts_eq.
  rewrite py_get_nat by (rewrite product_shifts_length; exact Hidx).
  destruct p as [|p]; [lia|]. cbn [nth].
  rewrite nth_map_Z by (rewrite length_remove_at; rewrite product_shifts_length; lia).
  rewrite nth_remove_at. unfold orig_child. replace (S p - 1)%nat with p by lia.
  destruct (p <? idx)%nat eqn:E.
  - rewrite !product_shifts_nth by lia. lia.
  - rewrite !product_shifts_nth by lia. lia.
Qed.

Lemma quotient_shift_0 (c : desc) (idx : nat) : (idx < length c)%nat ->
  nth 0 (reverse_shifts (product_shifts c) (Z.of_nat idx)) 0 = - quotient_parent_shift c (Z.of_nat idx).
Proof.
  intros H. rewrite reverse_shifts_eq. cbn [nth].
  rewrite py_get_nat by (rewrite product_shifts_length; exact H).
  rewrite product_shifts_nth by exact H.
  unfold quotient_parent_shift, quotient_min_sizes.
  change (map (fun child : Z * bool => fst child) c) with (product_min_sizes c).
  rewrite py_get_nat by (unfold product_min_sizes; rewrite map_length; exact H). reflexivity.
Qed.

(* ---------------------------------------------------------------- union / complement *)
Lemma reads_union_spec c n i m : In (i, m) (reads_union c n) -> m = n /\ 0 <= i < zlen c.
Proof.
  unfold reads_union, py_enumerate. intros H. apply in_map_iff in H.
  destruct H as ((j & x) & E & H). inversion E; subst.
  apply (in_enumerate_from (0, false)) in H. destruct H as (j0 & Hj & -> & _).
  rewrite zlen_length. split; [reflexivity|lia].
Qed.

Lemma reads_complement_spec c idx n i m :
  In (i, m) (reads_complement c idx n) -> m = n /\ (i = 0 \/ 1 <= i < zlen c).
Proof.
  unfold reads_complement. intros [H|H].
  - inversion H; subst. auto.
  - apply in_map_iff in H. destruct H as (j & E & H). inversion E; subst.
    apply in_py_range in H. auto.
Qed.

Lemma union_shifts_zero c : Forall (fun s => s = 0) (union_shifts c).
Proof. unfold union_shifts. apply Forall_forall. intros s H. apply in_map_iff in H. destruct H as (? & <- & _). reflexivity. Qed.

Lemma union_shifts_length c : length (union_shifts c) = length c.
Proof. unfold union_shifts. apply map_length. Qed.

Lemma py_get_Forall {P : Z -> Prop} l k : P 0 -> Forall P l -> P (py_get 0 l k).
Proof.
  intros H0 H. unfold py_get.
  assert (Hn : forall j, P (nth j l 0)).
  { intros j. destruct (Nat.lt_ge_cases j (length l)) as [Hj|Hj].
    - rewrite Forall_forall in H. apply H. apply nth_In. exact Hj.
    - rewrite nth_overflow by exact Hj. exact H0. }
  destruct (_ && _); [apply Hn|]. destruct (_ && _); [apply Hn|exact H0].
Qed.

Lemma complement_shifts_zero c idx : Forall (fun s => s = 0) (reverse_shifts (union_shifts c) idx).
Proof.
  unfold reverse_shifts. cbv zeta.
  pose proof (union_shifts_zero c) as HU.
  assert (Hp : py_get 0 (union_shifts c) idx = 0) by (apply (py_get_Forall (P := fun s => s = 0)); auto).
  rewrite Hp. simpl app. constructor; [reflexivity|].
  apply Forall_forall. intros s H. apply in_map_iff in H. destruct H as (s0 & <- & H).
  apply in_map_iff in H. destruct H as ((i & s1) & <- & H).
  apply filter_In in H. destruct H as [H _].
  apply (in_enumerate_from 0) in H. destruct H as (j & Hj & _ & ->).
  rewrite Forall_forall in HU. rewrite (HU (nth j (union_shifts c) 0)) by (apply nth_In; exact Hj). reflexivity.
Qed.

(* ---------------------------------------------------------------- product *)
Lemma product_sizes_lengths c :
  zlen (product_min_sizes c) = zlen c /\ zlen (product_max_sizes c) = zlen c.
Proof. unfold product_min_sizes, product_max_sizes. rewrite !zlen_map. auto. Qed.

Lemma reads_product_spec c n i m :
  In (i, m) (reads_product c n) ->
  0 <= i < zlen c /\ m <= n - nth (Z.to_nat i) (product_shifts c) 0.
Proof.
  unfold reads_product. intros H. apply in_flat_map in H. destruct H as (sizes & Hs & H).
  destruct (product_sizes_lengths c) as [L1 L2].
  apply compositions_sound in Hs; [|exact L1|exact L2].
  destruct Hs as (L & S & Hle & _).
  apply in_reads_of_sizes in H. destruct H as (j & Hj & -> & ->).
  rewrite zlen_length in L. rewrite (zlen_length c) in L. rewrite zlen_length.
  split; [lia|]. rewrite Nat2Z.id.
  rewrite product_shifts_nth by lia.
  pose proof (nth_le_of_comp _ _ Hle j Hj). lia.
Qed.

(* ---------------------------------------------------------------- quotient *)
Lemma quotient_sizes_eq c :
  quotient_min_sizes c = product_min_sizes c /\ quotient_max_sizes c = product_max_sizes c.
Proof. split; reflexivity. Qed.

Lemma nth_error_mid {A} (a : list A) x b : nth_error (a ++ [x] ++ b) (length a) = Some x.
Proof. rewrite nth_error_app2 by lia. rewrite Nat.sub_diag. reflexivity. Qed.

Lemma reads_quotient_early c idx n :
  n < py_get 0 (quotient_min_sizes c) idx -> reads_quotient c idx n = [].
Proof. intros H. unfold reads_quotient. cbv zeta. replace (n <? _) with true by lia. reflexivity. Qed.

Lemma reads_quotient_spec c (idx : nat) n p m :
  (idx < length c)%nat ->
  In (p, m) (reads_quotient c (Z.of_nat idx) n) ->
  let sh := reverse_shifts (product_shifts c) (Z.of_nat idx) in
  nth idx (product_min_sizes c) 0 <= n /\
  ((p = SELF /\ m <= n - 1) \/
   (p = 0 /\ m = n - nth 0 sh 0) \/
   (1 <= p < zlen c /\ m <= n - nth (Z.to_nat p) sh 0)).
Proof.
  intros Hidx H sh. unfold reads_quotient in H. cbv zeta in H.
  destruct (quotient_sizes_eq c) as [Emin Emax]. rewrite Emin, Emax in H.
  assert (Lm : length (product_min_sizes c) = length c) by (unfold product_min_sizes; apply map_length).
  assert (LM : length (product_max_sizes c) = length c) by (unfold product_max_sizes; apply map_length).
  rewrite py_get_nat in H by lia.
  destruct (n <? nth idx (product_min_sizes c) 0) eqn:G; [contradiction|].
  split; [lia|].
  assert (PS : quotient_parent_shift c (Z.of_nat idx) =
               py_sum (product_min_sizes c) - nth idx (product_min_sizes c) 0).
  { unfold quotient_parent_shift. rewrite Emin. rewrite py_get_nat by lia. reflexivity. }
  destruct H as [H|H].
  { (* the original parent *)
    inversion H; subst. right; left. split; [reflexivity|].
    unfold sh. rewrite quotient_shift_0 by exact Hidx. lia. }
  apply in_app_iff in H. destruct H as [H|H].
  - (* _a : compositions of n + shift, flipped child capped at n - 1 *)
    apply in_flat_map in H. destruct H as (sizes & Hs & H).
    rewrite Nat2Z.id in Hs. replace (Z.to_nat (Z.of_nat idx + 1)) with (S idx) in Hs by lia.
    apply compositions_sound in Hs.
    2:{ rewrite zlen_length, Lm. reflexivity. }
    2:{ rewrite !zlen_length, !app_length, firstn_length, skipn_length, LM. simpl length. lia. }
    destruct Hs as (L & Hsum & Hle & Hb).
    apply in_reads_of_sizes in H. destruct H as (j & Hj & -> & ->).
    rewrite zlen_length in L. rewrite (zlen_length c) in L.
    pose proof (nth_le_of_comp _ _ Hle j Hj) as Hn. rewrite Hsum, PS in Hn.
    unfold quotient_prov.
    destruct (Z.of_nat j <? Z.of_nat idx) eqn:E1; [|destruct (Z.of_nat j =? Z.of_nat idx) eqn:E2].
    + right; right. split; [rewrite zlen_length; lia|].
      replace (Z.to_nat (Z.of_nat j + 1)) with (S j) by lia.
      unfold sh. rewrite quotient_shift_nth by lia.
      unfold orig_child. replace (S j - 1)%nat with j by lia.
      replace (j <? idx)%nat with true by lia. lia.
    + left. split; [reflexivity|].
      assert (j = idx) by lia. subst j.
      eapply (nth_bounded_of_comp _ _ Hb idx (n - 1)).
      rewrite nth_error_app2 by (rewrite firstn_length; lia).
      rewrite firstn_length.
      replace (idx - Nat.min idx (length (product_max_sizes c)))%nat with 0%nat by lia.
      reflexivity.
    + right; right. split; [rewrite zlen_length; lia|].
      rewrite Nat2Z.id.
      unfold sh. rewrite quotient_shift_nth by lia.
      unfold orig_child. replace (j - 1 <? idx)%nat with false by lia. lia.
  - (* _c : compositions of the shift among the siblings *)
    apply in_flat_map in H. destruct H as (sizes & Hs & H).
    rewrite !remove_at_nat in Hs.
    apply compositions_sound in Hs.
    2:{ rewrite !zlen_length, length_remove_at by lia. lia. }
    2:{ rewrite !zlen_length, length_remove_at by lia. lia. }
    destruct Hs as (L & Hsum & Hle & _).
    apply in_reads_of_sizes in H. destruct H as (j & Hj & -> & ->).
    rewrite zlen_length in L. rewrite (zlen_length c) in L.
    pose proof (nth_le_of_comp _ _ Hle j Hj) as Hn.
    rewrite Hsum, sum_remove_at, PS in Hn by lia.
    rewrite nth_remove_at in Hn.
    right; right. split; [rewrite zlen_length; lia|].
    replace (Z.to_nat (Z.of_nat j + 1)) with (S j) by lia.
    unfold sh. rewrite quotient_shift_nth by lia.
    unfold orig_child. replace (S j - 1)%nat with j by lia.
    destruct (j <? idx)%nat; lia.
Qed.

(* ---------------------------------------------------------------- all forms *)
Lemma nth_Forall_zero (l : list Z) j : Forall (fun s => s = 0) l -> nth j l 0 = 0.
Proof.
  intros H. destruct (Nat.lt_ge_cases j (length l)) as [Hj|Hj].
  - rewrite Forall_forall in H. apply H. apply nth_In. exact Hj.
  - apply nth_overflow. exact Hj.
Qed.

Lemma reads_quotient_spec_Z c idx n p m :
  0 <= idx < zlen c ->
  In (p, m) (reads_quotient c idx n) ->
  let sh := reverse_shifts (product_shifts c) idx in
  py_get 0 (quotient_min_sizes c) idx <= n /\
  ((p = SELF /\ m <= n - 1) \/
   (p = 0 /\ m = n - nth 0 sh 0) \/
   (1 <= p < zlen c /\ m <= n - nth (Z.to_nat p) sh 0)).
Proof.
  intros Hidx H. rewrite zlen_length in Hidx.
  rewrite <- (Z2Nat.id idx) in * by lia.
  assert (Hn : (Z.to_nat idx < length c)%nat) by lia.
  pose proof (reads_quotient_spec c (Z.to_nat idx) n p m Hn H) as [H1 H2].
  cbv zeta. split; [|exact H2].
  destruct (quotient_sizes_eq c) as [-> _].
  rewrite py_get_nat by (unfold product_min_sizes; rewrite map_length; exact Hn). exact H1.
Qed.

Lemma rule_shifts_length form c idx :
  0 <= form <= 3 -> (2 <= form -> 0 <= idx < zlen c) ->
  zlen (rule_shifts form c idx) = zlen c.
Proof.
  intros Hf Hidx.
  assert (LU : zlen (union_shifts c) = zlen c) by (rewrite !zlen_length, union_shifts_length; reflexivity).
  assert (LP : zlen (product_shifts c) = zlen c) by (rewrite !zlen_length, product_shifts_length; reflexivity).
  assert (E : form = 0 \/ form = 1 \/ form = 2 \/ form = 3) by lia.
  destruct E as [-> | [-> | [-> | ->]]]; unfold rule_shifts; auto.
  - rewrite reverse_shifts_length; [exact LU|]. rewrite LU. apply Hidx. lia.
  - rewrite reverse_shifts_length; [exact LP|]. rewrite LP. apply Hidx. lia.
Qed.

Lemma rule_reads_respect_shifts form c idx n p m :
  0 <= form <= 3 -> (2 <= form -> 0 <= idx < zlen c) ->
  In (p, m) (rule_reads form c idx n) ->
  (p = SELF /\ m < n) \/
  (0 <= p < zlen c /\ m <= n - nth (Z.to_nat p) (rule_shifts form c idx) 0).
Proof.
  intros Hf Hidx H.
  assert (E : form = 0 \/ form = 1 \/ form = 2 \/ form = 3) by lia.
  destruct E as [-> | [-> | [-> | ->]]]; unfold rule_reads in H; unfold rule_shifts.
  - right. apply reads_union_spec in H. destruct H as [-> Hi]. split; [exact Hi|].
    rewrite nth_Forall_zero by apply union_shifts_zero. lia.
  - right. apply reads_product_spec in H. exact H.
  - right. apply reads_complement_spec in H. destruct H as [-> Hi].
    specialize (Hidx ltac:(lia)). split; [lia|].
    rewrite nth_Forall_zero by apply complement_shifts_zero. lia.
  - specialize (Hidx ltac:(lia)).
    apply reads_quotient_spec_Z in H; [|exact Hidx]. cbv zeta in H.
    destruct H as [_ [[Hp Hm]|[[Hp Hm]|[Hp Hm]]]].
    + left. split; [exact Hp|lia].
    + right. subst p. split; [lia|]. simpl Z.to_nat. lia.
    + right. split; [lia|exact Hm].
Qed.
